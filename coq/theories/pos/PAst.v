(* M-PAST: the positioned AST of ucg (src/ast/mod.rs) as far as the translator
   (src/build/opcode/translate.rs) reads positions from it.

   The constructors are those of sem/Ast.v; every node carries the Position the real node
   carries (line, column; the byte offset and the file name are never read by the translator),
   plus the positioned tokens the translator reads:
     - the name token of every field of a tuple / copy / module parameter list / select arm,
     - the PositionedItem of every function parameter,
     - the name token of a `let`,
     - the type token of `out`, `convert` and `include`, the path token of `import` / `include`.
   Field / parameter constraints, the out-constraint of a module are not in the model: the
   translator ignores them (`_constraint`).  `let` with a constraint, the `constraint` statement and
   constraint expressions are outside the model (as in sem/Ast.v).

   Format templates: the real FormatDef carries the template TEXT; translate.rs parses it with
   build/format.rs while translating.  As in sem/Ast.v the parts are carried pre-parsed; the single-argument
   form also carries the template text [tpl] (the unescaped string the tokenizer produced), because the positions
   of the `@{...}` expressions are computed from it: ExpressionTemplate::parse (format.rs, since commit aad375b)
   tracks (line, column) while it scans the template, starting at the character after the opening quote
   (def.pos.line, def.pos.column + 1), and tokenizes the text between the braces with line / column offsets, so
   the expressions of the parts carry FILE positions.  pos/PTemplate.v models that scanner.
   [src_positions_of] lists the positions of the nodes / tokens that the parser of the FILE produced,
   [tpl_positions_of] the positions of the nodes produced by the template parser for `@{...}` expressions,
   [positions_of] both. *)
From Ucg Require Export sem.Ast.

Definition pos := (N * N)%type.
Definition line (p : pos) : N := fst p.
Definition col (p : pos) : N := snd p.

Inductive pexpr :=
| PENull (p : pos)
| PEBool (p : pos) (v : bool)
| PEInt (p : pos) (z : Z)
| PEFloat (p : pos) (bits : Z)
| PEStr (p : pos) (s : bytes)
| PESym (p : pos) (x : bytes)
| PETuple (p : pos) (fs : list (pos * bytes * pexpr))
| PEList (p : pos) (es : list pexpr)
| PEBin (p : pos) (o : op) (l r : pexpr)
| PENot (p : pos) (e : pexpr)
| PEGroup (p : pos) (e : pexpr)
| PECopy (p : pos) (target : pexpr) (fs : list (pos * bytes * pexpr))
| PERange (p : pos) (start : pexpr) (step : option pexpr) (stop : pexpr)
| PEFormatL (p : pos) (parts : list ptpart) (args : list pexpr)
| PEFormatS (p : pos) (tpl : bytes) (parts : list ptpart) (arg : pexpr)
| PECall (p : pos) (f : pexpr) (args : list pexpr)
| PECast (p : pos) (c : cast_type) (e : pexpr)
| PEFunc (p : pos) (params : list (pos * bytes)) (body : pexpr)
| PESelect (p : pos) (v : pexpr) (dflt : option pexpr) (arms : list (pos * bytes * pexpr))
| PEMap (p : pos) (f t : pexpr)
| PEFilter (p : pos) (f t : pexpr)
| PEReduce (p : pos) (f acc t : pexpr)
| PEModule (p : pos) (params : list (pos * bytes * pexpr)) (out : option pexpr) (body : list pstmt)
| PEFail (p : pos) (e : pexpr)
| PETrace (p : pos) (e : pexpr)
| PEImport (p : pos) (pp : pos) (path : bytes)
| PEInclude (p : pos) (tp : pos) (typ : bytes) (pp : pos) (path : bytes)
| PEConvert (p : pos) (tp : pos) (typ : bytes) (e : pexpr)
with ptpart :=
| PPStr (s : bytes)
| PPHole
| PPExpr (e : pexpr)
with pstmt :=
| PSLet (p : pos) (np : pos) (x : bytes) (e : pexpr)
| PSExpr (e : pexpr)
| PSAssert (p : pos) (e : pexpr)
| PSOut (p : pos) (tp : pos) (typ : bytes) (e : pexpr).

Definition pprog := list pstmt.

(* Expression::pos() *)
Definition pos_of (e : pexpr) : pos :=
  match e with
  | PENull p | PEBool p _ | PEInt p _ | PEFloat p _ | PEStr p _ | PESym p _ | PETuple p _ | PEList p _
  | PEBin p _ _ _ | PENot p _ | PEGroup p _ | PECopy p _ _ | PERange p _ _ _ | PEFormatL p _ _
  | PEFormatS p _ _ _ | PECall p _ _ | PECast p _ _ | PEFunc p _ _ | PESelect p _ _ _ | PEMap p _ _
  | PEFilter p _ _ | PEReduce p _ _ _ | PEModule p _ _ _ | PEFail p _ | PETrace p _ | PEImport p _ _
  | PEInclude p _ _ _ _ | PEConvert p _ _ _ => p
  end.

(* ---- forgetting positions ---- *)
Fixpoint erase (e : pexpr) : expr :=
  match e with
  | PENull _ => ENull
  | PEBool _ v => EBool v
  | PEInt _ z => EInt z
  | PEFloat _ bits => EFloat bits
  | PEStr _ s => EStr s
  | PESym _ x => ESym x
  | PETuple _ fs => ETuple (map (fun f => let '(_, k, e) := f in (k, erase e)) fs)
  | PEList _ es => EList (map erase es)
  | PEBin _ o l r => EBin o (erase l) (erase r)
  | PENot _ e1 => ENot (erase e1)
  | PEGroup _ e1 => EGroup (erase e1)
  | PECopy _ t fs => ECopy (erase t) (map (fun f => let '(_, k, e) := f in (k, erase e)) fs)
  | PERange _ st stp en => ERange (erase st) (option_map erase stp) (erase en)
  | PEFormatL _ parts args => EFormatL (map erase_part parts) (map erase args)
  | PEFormatS _ _ parts arg => EFormatS (map erase_part parts) (erase arg)
  | PECall _ fn args => ECall (erase fn) (map erase args)
  | PECast _ ct e1 => ECast ct (erase e1)
  | PEFunc _ ps body => EFunc (map snd ps) (erase body)
  | PESelect _ ve dflt arms =>
    ESelect (erase ve) (option_map erase dflt) (map (fun f => let '(_, k, e) := f in (k, erase e)) arms)
  | PEMap _ fe te => EMap (erase fe) (erase te)
  | PEFilter _ fe te => EFilter (erase fe) (erase te)
  | PEReduce _ fe ae te => EReduce (erase fe) (erase ae) (erase te)
  | PEModule _ ps out body =>
    EModule (map (fun f => let '(_, k, e) := f in (k, erase e)) ps) (option_map erase out) (map erase_stmt body)
  | PEFail _ e1 => EFail (erase e1)
  | PETrace _ e1 => ETrace (erase e1)
  | PEImport _ _ path => EImport path
  | PEInclude _ _ typ _ path => EInclude typ path
  | PEConvert _ _ typ e1 => EConvert typ (erase e1)
  end
with erase_part (t : ptpart) : tpart :=
  match t with
  | PPStr s => PStr s
  | PPHole => PHole
  | PPExpr e => PExpr (erase e)
  end
with erase_stmt (s : pstmt) : stmt :=
  match s with
  | PSLet _ _ x e => SLet x (erase e)
  | PSExpr e => SExpr (erase e)
  | PSAssert _ e => SAssert (erase e)
  | PSOut _ _ typ e => SOut typ (erase e)
  end.

Definition erase_fields (fs : list (pos * bytes * pexpr)) : list (bytes * expr) :=
  map (fun f => let '(_, k, e) := f in (k, erase e)) fs.

(* ---- the positions carried by the nodes and tokens of the parsed file ---- *)
Definition opt_positions (f : pexpr -> list pos) (o : option pexpr) : list pos :=
  match o with Some e => f e | None => [] end.
Definition field_positions (f : pexpr -> list pos) (fs : list (pos * bytes * pexpr)) : list pos :=
  flat_map (fun fl => let '(kp, _, e) := fl in kp :: f e) fs.

Fixpoint src_positions_of (e : pexpr) : list pos :=
  match e with
  | PENull p | PEBool p _ | PEInt p _ | PEFloat p _ | PEStr p _ | PESym p _ => [p]
  | PETuple p fs => p :: field_positions src_positions_of fs
  | PEList p es => p :: flat_map src_positions_of es
  | PEBin p _ l r => p :: src_positions_of l ++ src_positions_of r
  | PENot p e1 | PEGroup p e1 | PECast p _ e1 | PEFail p e1 | PETrace p e1 => p :: src_positions_of e1
  | PECopy p t fs => p :: src_positions_of t ++ field_positions src_positions_of fs
  | PERange p st stp en => p :: src_positions_of st ++ opt_positions src_positions_of stp ++ src_positions_of en
  | PEFormatL p _ args => p :: flat_map src_positions_of args
  | PEFormatS p _ _ arg => p :: src_positions_of arg
  | PECall p fn args => p :: src_positions_of fn ++ flat_map src_positions_of args
  | PEFunc p ps body => p :: map fst ps ++ src_positions_of body
  | PESelect p ve dflt arms =>
    p :: src_positions_of ve ++ opt_positions src_positions_of dflt ++ field_positions src_positions_of arms
  | PEMap p fe te | PEFilter p fe te => p :: src_positions_of fe ++ src_positions_of te
  | PEReduce p fe ae te => p :: src_positions_of fe ++ src_positions_of ae ++ src_positions_of te
  | PEModule p ps out body =>
    p :: field_positions src_positions_of ps ++ opt_positions src_positions_of out ++ flat_map src_positions_of_stmt body
  | PEImport p pp _ => [p; pp]
  | PEInclude p tp _ pp _ => [p; tp; pp]
  | PEConvert p tp _ e1 => p :: tp :: src_positions_of e1
  end
with src_positions_of_stmt (s : pstmt) : list pos :=
  match s with
  | PSLet p np _ e => p :: np :: src_positions_of e
  | PSExpr e => src_positions_of e
  | PSAssert p e => p :: src_positions_of e
  | PSOut p tp _ e => p :: tp :: src_positions_of e
  end.

(* ---- the positions carried inside `@{...}` template expressions (relative to the template text) ---- *)
Fixpoint tpl_positions_of (e : pexpr) : list pos :=
  let part (t : ptpart) : list pos :=
      match t with PPExpr pe => src_positions_of pe ++ tpl_positions_of pe | _ => [] end in
  match e with
  | PENull _ | PEBool _ _ | PEInt _ _ | PEFloat _ _ | PEStr _ _ | PESym _ _ => []
  | PETuple _ fs => flat_map (fun fl => tpl_positions_of (snd fl)) fs
  | PEList _ es => flat_map tpl_positions_of es
  | PEBin _ _ l r => tpl_positions_of l ++ tpl_positions_of r
  | PENot _ e1 | PEGroup _ e1 | PECast _ _ e1 | PEFail _ e1 | PETrace _ e1 => tpl_positions_of e1
  | PECopy _ t fs => tpl_positions_of t ++ flat_map (fun fl => tpl_positions_of (snd fl)) fs
  | PERange _ st stp en =>
    tpl_positions_of st ++ opt_positions tpl_positions_of stp ++ tpl_positions_of en
  | PEFormatL _ _ args => flat_map tpl_positions_of args
  | PEFormatS _ _ parts arg => flat_map part parts ++ tpl_positions_of arg
  | PECall _ fn args => tpl_positions_of fn ++ flat_map tpl_positions_of args
  | PEFunc _ _ body => tpl_positions_of body
  | PESelect _ ve dflt arms =>
    tpl_positions_of ve ++ opt_positions tpl_positions_of dflt ++ flat_map (fun fl => tpl_positions_of (snd fl)) arms
  | PEMap _ fe te | PEFilter _ fe te => tpl_positions_of fe ++ tpl_positions_of te
  | PEReduce _ fe ae te => tpl_positions_of fe ++ tpl_positions_of ae ++ tpl_positions_of te
  | PEModule _ ps out body =>
    flat_map (fun fl => tpl_positions_of (snd fl)) ps ++ opt_positions tpl_positions_of out
             ++ flat_map tpl_positions_of_stmt body
  | PEImport _ _ _ | PEInclude _ _ _ _ _ => []
  | PEConvert _ _ _ e1 => tpl_positions_of e1
  end
with tpl_positions_of_stmt (s : pstmt) : list pos :=
  match s with
  | PSLet _ _ _ e | PSExpr e | PSAssert _ e | PSOut _ _ _ e => tpl_positions_of e
  end.

Definition tpl_part_positions (t : ptpart) : list pos :=
  match t with PPExpr pe => src_positions_of pe ++ tpl_positions_of pe | _ => [] end.

(* all positions carried by the nodes and tokens of an expression / statement *)
Definition positions_of (e : pexpr) : list pos := src_positions_of e ++ tpl_positions_of e.
Definition positions_of_stmt (s : pstmt) : list pos := src_positions_of_stmt s ++ tpl_positions_of_stmt s.

(* ---- renaming positions: [f] on the nodes of the file, [g] inside `@{...}` template expressions ---- *)
Fixpoint map_pos (f g : pos -> pos) (e : pexpr) {struct e} : pexpr :=
  let fields (fs : list (pos * bytes * pexpr)) :=
      map (fun fl => let '(kp, k, e) := fl in (f kp, k, map_pos f g e)) fs in
  let part (t : ptpart) : ptpart :=
      match t with PPExpr pe => PPExpr (map_pos g g pe) | PPStr s => PPStr s | PPHole => PPHole end in
  match e with
  | PENull p => PENull (f p)
  | PEBool p v => PEBool (f p) v
  | PEInt p z => PEInt (f p) z
  | PEFloat p bits => PEFloat (f p) bits
  | PEStr p s => PEStr (f p) s
  | PESym p x => PESym (f p) x
  | PETuple p fs => PETuple (f p) (fields fs)
  | PEList p es => PEList (f p) (map (map_pos f g) es)
  | PEBin p o l r => PEBin (f p) o (map_pos f g l) (map_pos f g r)
  | PENot p e1 => PENot (f p) (map_pos f g e1)
  | PEGroup p e1 => PEGroup (f p) (map_pos f g e1)
  | PECopy p t fs => PECopy (f p) (map_pos f g t) (fields fs)
  | PERange p st stp en => PERange (f p) (map_pos f g st) (option_map (map_pos f g) stp) (map_pos f g en)
  | PEFormatL p parts args => PEFormatL (f p) (map part parts) (map (map_pos f g) args)
  | PEFormatS p tpl parts arg => PEFormatS (f p) tpl (map part parts) (map_pos f g arg)
  | PECall p fn args => PECall (f p) (map_pos f g fn) (map (map_pos f g) args)
  | PECast p ct e1 => PECast (f p) ct (map_pos f g e1)
  | PEFunc p ps body => PEFunc (f p) (map (fun q => (f (fst q), snd q)) ps) (map_pos f g body)
  | PESelect p ve dflt arms =>
    PESelect (f p) (map_pos f g ve) (option_map (map_pos f g) dflt) (fields arms)
  | PEMap p fe te => PEMap (f p) (map_pos f g fe) (map_pos f g te)
  | PEFilter p fe te => PEFilter (f p) (map_pos f g fe) (map_pos f g te)
  | PEReduce p fe ae te => PEReduce (f p) (map_pos f g fe) (map_pos f g ae) (map_pos f g te)
  | PEModule p ps out body =>
    PEModule (f p) (fields ps) (option_map (map_pos f g) out) (map (map_pos_stmt f g) body)
  | PEFail p e1 => PEFail (f p) (map_pos f g e1)
  | PETrace p e1 => PETrace (f p) (map_pos f g e1)
  | PEImport p pp path => PEImport (f p) (f pp) path
  | PEInclude p tp typ pp path => PEInclude (f p) (f tp) typ (f pp) path
  | PEConvert p tp typ e1 => PEConvert (f p) (f tp) typ (map_pos f g e1)
  end
with map_pos_stmt (f g : pos -> pos) (s : pstmt) {struct s} : pstmt :=
  match s with
  | PSLet p np x e => PSLet (f p) (f np) x (map_pos f g e)
  | PSExpr e => PSExpr (map_pos f g e)
  | PSAssert p e => PSAssert (f p) (map_pos f g e)
  | PSOut p tp typ e => PSOut (f p) (f tp) typ (map_pos f g e)
  end.

Definition map_pos_fields (f g : pos -> pos) (fs : list (pos * bytes * pexpr)) :=
  map (fun fl => let '(kp, k, e) := fl in (f kp, k, map_pos f g e)) fs.
Definition map_pos_part (g : pos -> pos) (t : ptpart) : ptpart :=
  match t with PPExpr pe => PPExpr (map_pos g g pe) | PPStr s => PPStr s | PPHole => PPHole end.

(* k more lines in front of the program: every position moves down by k lines and keeps its column (the
   positions inside `@{...}` template expressions as well: they are computed from the position of the format
   expression) *)
Definition shift_pos (k : N) (p : pos) : pos := (fst p + k, snd p)%N.
Definition shift_expr (k : N) (e : pexpr) : pexpr := map_pos (shift_pos k) (shift_pos k) e.
Definition shift_stmt (k : N) (s : pstmt) : pstmt := map_pos_stmt (shift_pos k) (shift_pos k) s.

(* all positions of a statement lie on lines lo..hi *)
Definition stmt_in_span (s : pstmt) (lo hi : N) : Prop :=
  Forall (fun p => (lo <= line p <= hi)%N) (positions_of_stmt s).
