(* (A) erasure: the positioned machine of pos/PVm.v with positions forgotten IS the machine of vm/Vm.v.
   Headline: [pvm_erase], [pvm_prog_erase] (re-exported by PVm_Lemmas.v). *)
From Ucg Require Import pos.PTranslate_Lemmas pos.PVm.

#[local] Arguments p_symbols_to_tuple : simpl never.
#[local] Arguments symbols_to_tuple : simpl never.

Definition erase_out {A B : Type} (f : A -> B) (r : pout A) : outcome B :=
  match r with POk a => VOk (f a) | PErr _ _ _ => VErr | PBug => VBug | PUnsup => VUnsup | PFuel => VFuel end.

Lemma erase_out_bind : forall (A B A' B' : Type) (f : A -> A') (g : B -> B') (r : pout A) (k : A -> pout B)
    (r' : outcome A') (k' : A' -> outcome B'),
  erase_out f r = r' ->
  (forall a, r = POk a -> erase_out g (k a) = k' (f a)) ->
  erase_out g (pbind r k) = vbind r' k'.
Proof.
  intros A B A' B' f g r k r' k' Hr Hk. subst r'. destruct r as [a|e p via| | |]; simpl; try reflexivity.
  apply Hk. reflexivity.
Qed.

Lemma erase_out_decorate : forall (A B : Type) (f : A -> B) p (r : pout A),
  erase_out f (decorate_call p r) = erase_out f r.
Proof. intros A B f p r. destruct r; reflexivity. Qed.

Lemma erase_out_pout_of : forall (A : Type) k p (r : outcome A), erase_out (fun a => a) (pout_of k p r) = r.
Proof. intros A k p r. destruct r; reflexivity. Qed.

Lemma pout_of_ok : forall (A : Type) k p (r : outcome A) a, pout_of k p r = POk a -> r = VOk a.
Proof. intros A k p r a H. destruct r; simpl in H; try discriminate. now inversion H. Qed.

Section Erase.
  Variable fo : float_ops.
  Notation pval := (pval fo).
  Notation pentry := (pentry fo).
  Notation pfield := (pfield fo).
  Notation psymtab := (psymtab fo).
  Notation pstate := (pstate fo).
  Notation wval := (wval fo).

  Definition erase_e (e : pentry) : wval := erase_v (fst e).
  Definition erase_st (st : pstate) : state fo :=
    {| pc := ppc st; stk := erase_entries (pstk st); syms := erase_syms (psyms st); selfs := erase_entries (pselfs st) |}.

  Definition scalar (w : wval) : Prop :=
    match w with WList _ | WTuple _ | WFunc _ _ _ | WMod _ _ _ | WThunk _ => False | _ => True end.

  Lemma inj_erase : forall w, scalar w -> erase_v (inj w) = w.
  Proof. intros w Hs. destruct w; simpl in *; try reflexivity; contradiction. Qed.

  Lemma checked_scalar : forall z w, checked fo z = VOk w -> scalar w.
  Proof. intros z w H. unfold checked in H. destruct (in_i64 z); inversion H. exact I. Qed.

  Lemma vm_cast_scalar : forall t v w, vm_cast fo t v = VOk w -> scalar w.
  Proof.
    intros t v w H. destruct v; destruct t; simpl in H;
      repeat match type of H with
             | context [match ?x with _ => _ end] => destruct x
             end; inversion H; exact I.
  Qed.

  Lemma vm_compare_scalar : forall o l r w, vm_compare fo o l r = VOk w -> scalar w.
  Proof. intros o l r w H. destruct l; destruct r; simpl in H; inversion H; exact I. Qed.

  Definition is_wlist (w : wval) : bool := match w with WList _ => true | _ => false end.

  Lemma vm_arith_scalar : forall o l r w,
    vm_arith fo o l r = VOk w -> is_wlist l && is_wlist r = false -> scalar w.
  Proof.
    intros o l r w H Hl.
    destruct o; simpl in H; try discriminate;
      destruct l; try discriminate; destruct r; try discriminate; simpl in Hl; try discriminate;
      repeat match type of H with
             | context [if ?x then _ else _] => destruct x
             end; try discriminate;
      first [ exact (checked_scalar _ _ H) | inversion H; exact I ].
  Qed.

  (* ---- stacks, symbol tables ---- *)
  Lemma ppop_erase : forall s,
    erase_out (fun x : pentry * list pentry => (erase_e (fst x), erase_entries (snd x))) (ppop fo s)
    = Vm.pop fo (erase_entries s).
  Proof. intros s. destruct s as [|e s']; reflexivity. Qed.

  Lemma psym_get_erase : forall x (t : psymtab), sym_get x (erase_syms t) = option_map erase_e (psym_get x t).
  Proof.
    intros x t. induction t as [|[k e] t IH]; simpl; [reflexivity|].
    destruct (bytes_eqb x k); [reflexivity|exact IH].
  Qed.

  Lemma psym_add_erase : forall k (e : pentry) (t : psymtab), erase_syms (psym_add k e t) = sym_add k (erase_e e) (erase_syms t).
  Proof.
    intros k e t. induction t as [|[k' w] t IH]; simpl; [reflexivity|].
    destruct (bytes_ltb k k'); [reflexivity|]. destruct (bytes_eqb k k'); [reflexivity|].
    simpl. f_equal. exact IH.
  Qed.

  Lemma psym_bound_erase : forall x (t : psymtab), sym_bound x (erase_syms t) = psym_bound x t.
  Proof. intros x t. unfold sym_bound, psym_bound. rewrite psym_get_erase. destruct (psym_get x t); reflexivity. Qed.

  Lemma erase_entries_app : forall a c : list pentry, erase_entries (a ++ c) = erase_entries a ++ erase_entries c.
  Proof. intros a c. apply map_app. Qed.

  Variable PC : pops.
  Variable strict_ : bool.
  Variable envv : list (bytes * bytes).
  Variable envpos : pos.
  Notation C := (map fst PC).

  Lemma env_tuple_erase : erase_v (env_tuple_p fo envv envpos) = env_tuple_w fo envv.
  Proof.
    unfold env_tuple_p, env_tuple_w. simpl. f_equal. rewrite map_map. apply map_ext. intros [k v]. reflexivity.
  Qed.

  Lemma p_get_binding_erase : forall st name,
    option_map erase_e (p_get_binding fo envv envpos st name) = get_binding fo envv (erase_st st) name.
  Proof.
    intros st name. unfold p_get_binding, get_binding.
    destruct (bytes_eqb name (b "self")).
    - simpl. destruct (pselfs st); reflexivity.
    - destruct (bytes_eqb name (b "env")).
      + simpl. rewrite psym_get_erase. destruct (psym_get name (psyms st)); simpl; [reflexivity|].
        unfold erase_e. simpl fst. now rewrite env_tuple_erase.
      + simpl. now rewrite psym_get_erase.
  Qed.

  Lemma p_binding_push_erase : forall kres t name v sb p np,
    erase_out erase_syms (p_binding_push fo kres t name v sb p np)
    = binding_push fo (erase_syms t) name (erase_v v) sb.
  Proof.
    intros kres t name v sb p np. unfold p_binding_push, binding_push.
    destruct (vm_is_reserved name); [reflexivity|]. rewrite psym_bound_erase.
    destruct (psym_bound name t && sb); [reflexivity|]. simpl. now rewrite psym_add_erase.
  Qed.

  Lemma pfld_get_erase : forall k fs, fld_get fo k (erase_flds fs) = option_map erase_v (pfld_get fo k fs).
  Proof.
    intros k fs. induction fs as [|[k' [v pp]] fs IH]; simpl; [reflexivity|].
    destruct (bytes_eqb k' k); [reflexivity|exact IH].
  Qed.

  Lemma erase_entries_length : forall s : list pentry, List.length (erase_entries s) = List.length s.
  Proof. intros s. apply map_length. Qed.

  Lemma p_index_erase : forall safe l r rp p,
    erase_out erase_e (p_index fo safe l r rp p) = vm_index fo safe (erase_v l) (erase_v r).
  Proof.
    intros safe l r rp p. unfold p_index, vm_index.
    assert (Hmiss : erase_out erase_e (if safe then POk (QEmpty, p) else PErr KIndex p [])
                    = (if safe then VOk WEmpty else VErr)) by (destruct safe; reflexivity).
    destruct r; simpl; try exact Hmiss.
    - destruct l; simpl; try exact Hmiss.
      rewrite map_length.
      destruct (Z.ltb z (Z.of_nat (List.length l)) && Z.leb 0 z); [|exact Hmiss].
      rewrite nth_error_map. destruct (nth_error l (Z.to_nat z)); reflexivity.
    - destruct l; simpl; try exact Hmiss.
      fold (erase_flds fs). rewrite pfld_get_erase. destruct (pfld_get fo s fs); [reflexivity|exact Hmiss].
  Qed.

  Lemma p_exist_erase : forall l r lp rp,
    erase_out erase_v (p_exist fo l r lp rp) = vm_exist fo (erase_v l) (erase_v r).
  Proof.
    intros l r lp rp. unfold p_exist, vm_exist. destruct l; simpl; try reflexivity.
    - destruct r; reflexivity.
    - fold (erase_entries l). destruct (list_has fo (erase_entries l) (erase_v r)); reflexivity.
    - destruct r; simpl; try reflexivity.
      fold (erase_flds fs). rewrite pfld_get_erase. destruct (pfld_get fo s fs); reflexivity.
  Qed.

  Lemma p_range_erase : forall a s z p,
    erase_out erase_v (p_range fo a s z p) = vm_range fo (erase_v a) (erase_v s) (erase_v z).
  Proof.
    intros a s z p. unfold p_range, vm_range.
    destruct a; try (destruct s; destruct z; reflexivity).
    destruct s; destruct z; simpl; try reflexivity.
    - destruct (Z.leb z1 0); [reflexivity|]. simpl. f_equal. f_equal. rewrite map_map. apply map_ext.
      intros v. destruct v; reflexivity.
    - simpl. f_equal. f_equal. rewrite map_map. apply map_ext. intros v. destruct v; reflexivity.
  Qed.

  Lemma pcompatible_erase : forall a c : pval, pcompatible a c = wcompatible (erase_v a) (erase_v c).
  Proof. reflexivity. Qed.

  Lemma p_merge_field_erase : forall (fs : list pfield) k np v vp,
    erase_out erase_flds (p_merge_field fs k np v vp) = wmerge_field (erase_flds fs) k (erase_v v).
  Proof.
    intros fs k np v vp. induction fs as [|[k' [w [np' vp']]] fs IH]; simpl; [reflexivity|].
    destruct (bytes_eqb k' k).
    - unfold pcompatible. destruct (wcompatible (erase_v w) (erase_v v)); reflexivity.
    - eapply erase_out_bind; [exact IH|]. intros a _. reflexivity.
  Qed.

  Lemma p_merge_fields_erase : forall ov base : list pfield,
    erase_out erase_flds (p_merge_fields base ov) = wmerge_fields (erase_flds base) (erase_flds ov).
  Proof.
    intros ov. induction ov as [|[k [v [np vp]]] ov IH]; intros base; simpl; [reflexivity|].
    eapply erase_out_bind; [apply p_merge_field_erase|]. intros a _. apply IH.
  Qed.

  Lemma arith_erase : forall o l r rp,
    erase_out erase_v (p_arith fo o l r rp) = vm_arith fo o (erase_v l) (erase_v r).
  Proof.
    intros o l r rp. unfold p_arith.
    assert (Hgen : is_wlist (erase_v l) && is_wlist (erase_v r) = false ->
                   erase_out erase_v (pdo w <- pout_of KArith rp (vm_arith fo o (erase_v l) (erase_v r)); POk (inj w))
                   = vm_arith fo o (erase_v l) (erase_v r)).
    { intros Hl. destruct (vm_arith fo o (erase_v l) (erase_v r)) as [w| | | |] eqn:E; simpl; try reflexivity.
      f_equal. apply inj_erase. exact (vm_arith_scalar _ _ _ _ E Hl). }
    destruct l; try (apply Hgen; reflexivity).
    destruct r; try (apply Hgen; simpl; reflexivity).
    destruct o; simpl; try reflexivity. f_equal. f_equal. apply map_app.
  Qed.

  (* ---- nested runs ---- *)
  Section Nested.
    Variable prun : pstate -> pout pstate.
    Variable run : state fo -> outcome (state fo).
    Hypothesis Hrun : forall st, erase_out erase_st (prun st) = run (erase_st st).

    Lemma p_bind_args_erase : forall names s t,
      erase_out (fun x : list pentry * psymtab => (erase_entries (fst x), erase_syms (snd x))) (p_bind_args fo names s t)
      = bind_args fo names (erase_entries s) (erase_syms t).
    Proof.
      intros names. induction names as [|nm names IH]; intros s t; simpl; [reflexivity|].
      destruct s as [|[v vp] s']; simpl; [reflexivity|].
      eapply erase_out_bind; [apply p_binding_push_erase|]. intros t' _. apply IH.
    Qed.

    Lemma p_fcall_impl_erase : forall ptr bs snap s,
      erase_out (fun x : pentry * list pentry => (erase_e (fst x), erase_entries (snd x)))
                (p_fcall_impl fo prun ptr bs snap s)
      = fcall_impl fo run ptr bs (erase_syms snap) (erase_entries s).
    Proof.
      intros ptr bs snap s. unfold p_fcall_impl, fcall_impl.
      eapply erase_out_bind; [apply p_bind_args_erase|]. intros [s' t] _. simpl.
      eapply erase_out_bind; [apply Hrun|]. intros fin _. simpl.
      eapply erase_out_bind; [apply ppop_erase|]. intros [e rest] _. reflexivity.
    Qed.

    Lemma p_op_fcall_erase : forall st p,
      erase_out erase_st (p_op_fcall fo prun st p) = op_fcall fo run (erase_st st).
    Proof.
      intros st p. unfold p_op_fcall, op_fcall.
      eapply erase_out_bind; [apply ppop_erase|]. intros [[f fp] s1] _. simpl.
      eapply erase_out_bind; [apply ppop_erase|]. intros [[a ap] s2] _. simpl.
      unfold erase_e; simpl.
      destruct f; simpl; try reflexivity.
      eapply erase_out_bind with (f := fun x : unit => x).
      - destruct a; simpl; try reflexivity.
        destruct (Z.ltb (Z.of_nat (List.length bindings)) z); [reflexivity|].
        destruct (Z.ltb z (Z.of_nat (List.length bindings))); reflexivity.
      - intros _ _.
        eapply erase_out_bind.
        + rewrite erase_out_decorate. apply p_fcall_impl_erase.
        + intros [[v vp] s3] _. reflexivity.
    Qed.

    Lemma pjump_erase : forall st j, erase_out erase_st (pjump fo PC st j) = jump fo C (erase_st st) j.
    Proof.
      intros st j. unfold pjump, jump. rewrite map_length. change (pc (erase_st st)) with (ppc st).
      unfold PTranslate.pop. destruct (Nat.ltb _ _); reflexivity.
    Qed.

    Lemma ppush_next_erase : forall st s,
      erase_out erase_st (ppush_next fo st s) = push_next fo (erase_st st) (erase_entries s).
    Proof. reflexivity. Qed.

    Lemma p_op_new_scope_erase : forall st j,
      erase_out erase_st (p_op_new_scope fo PC prun st j) = op_new_scope fo C run (erase_st st) j.
    Proof.
      intros st j. unfold p_op_new_scope, op_new_scope.
      eapply erase_out_bind; [apply Hrun|]. intros fin _. simpl.
      eapply erase_out_bind; [apply ppop_erase|]. intros [e rest] _. simpl.
      apply pjump_erase.
    Qed.

    Lemma filter_syms_erase : forall (keep : bytes -> bool) (t : psymtab),
      map (fun kv : pfield => (fst kv, erase_v (fst (snd kv))))
          (map (fun '(k, (v, p)) => (k, (v, (p, p)))) (filter (fun '(k, _) => keep k) t))
      = filter (fun '(k, _) => keep k) (erase_syms t).
    Proof.
      intros keep t. induction t as [|[k [v p]] t IH]; simpl; [reflexivity|].
      destruct (keep k); simpl; [f_equal|]; exact IH.
    Qed.

    Lemma p_symbols_to_tuple_erase : forall t im,
      erase_v (p_symbols_to_tuple fo t im) = symbols_to_tuple fo (erase_syms t) im.
    Proof.
      intros t im. unfold p_symbols_to_tuple, symbols_to_tuple. cbn [erase_v]. f_equal.
      exact (filter_syms_erase (fun k => im || negb (bytes_eqb k (b "mod"))) t).
    Qed.

    Lemma p_op_copy_erase : forall st p,
      erase_out erase_st (p_op_copy fo PC prun st p) = op_copy fo C run (erase_st st).
    Proof.
      intros st p. unfold p_op_copy, op_copy.
      eapply erase_out_bind; [apply ppop_erase|]. intros [[ov ovp] s1] _. simpl.
      eapply erase_out_bind; [apply ppop_erase|]. intros [[tg tgp] s2] _. simpl.
      unfold erase_e; simpl.
      destruct ov; simpl; try reflexivity.
      destruct tg; simpl; try reflexivity.
      - eapply erase_out_bind; [apply p_merge_fields_erase|]. intros flds' _. reflexivity.
      - eapply erase_out_bind; [apply p_merge_fields_erase|]. intros flds1 _.
        eapply erase_out_bind; [apply (p_merge_field_erase flds1 (b "this") p (QMod ptr result_ptr flds) ovp)|].
        intros flds2 _.
        eapply erase_out_bind; [rewrite erase_out_decorate; apply Hrun|]. intros fin _.
        destruct result_ptr as [rp|].
        + rewrite map_length. unfold PTranslate.pop. destruct (Nat.ltb _ _); [|reflexivity].
          eapply erase_out_bind; [rewrite erase_out_decorate; apply Hrun|]. intros fin2 _.
          eapply erase_out_bind; [apply ppop_erase|]. intros [e rest] _. reflexivity.
        + rewrite ppush_next_erase. unfold erase_entries at 1. rewrite map_cons. cbn [fst].
          now rewrite p_symbols_to_tuple_erase.
    Qed.

    Lemma p_arity_ok_erase : forall bs n fp, erase_out (fun x : unit => x) (p_arity_ok bs n fp) = arity_ok bs n.
    Proof. intros bs n fp. unfold p_arity_ok, arity_ok. destruct (Nat.eqb (List.length bs) n); reflexivity. Qed.

    Section Callback.
      Variables (ptr : nat) (bs : list bytes) (snap : psymtab) (hp : pos).

      Lemma p_call_with_erase : forall args s,
        erase_out (fun x : pentry * list pentry => (erase_e (fst x), erase_entries (snd x)))
                  (p_call_with fo prun ptr bs snap hp args s)
        = call_with fo run ptr bs (erase_syms snap) (erase_entries args) (erase_entries s).
      Proof.
        intros args s. unfold p_call_with, call_with. rewrite erase_out_decorate, <- erase_entries_app.
        apply p_fcall_impl_erase.
      Qed.

      Lemma p_map_list_erase : forall elems s,
        erase_out (fun x : list pentry * list pentry => (erase_entries (fst x), erase_entries (snd x)))
                  (p_map_list fo prun ptr bs snap hp elems s)
        = map_list fo run ptr bs (erase_syms snap) (erase_entries elems) (erase_entries s).
      Proof.
        intros elems. induction elems as [|e rest IH]; intros s; simpl; [reflexivity|].
        eapply erase_out_bind; [apply (p_call_with_erase [e] s)|]. intros [r s1] _. simpl.
        eapply erase_out_bind; [apply IH|]. intros [rs s2] _. reflexivity.
      Qed.

      Lemma p_map_tuple_erase : forall flds s,
        erase_out (fun x : list pfield * list pentry => (erase_flds (fst x), erase_entries (snd x)))
                  (p_map_tuple fo prun ptr bs snap hp flds s)
        = map_tuple fo run ptr bs (erase_syms snap) (erase_flds flds) (erase_entries s).
      Proof.
        intros flds. induction flds as [|[k [v [np vp]]] rest IH]; intros s; simpl; [reflexivity|].
        eapply erase_out_bind; [apply (p_call_with_erase [(v, vp); (QStr k, np)] s)|]. intros [[r rp] s1] _.
        unfold erase_e. simpl.
        destruct r; simpl; try apply IH.
        destruct l as [|[n np1] [|[v' vp1] [|x l]]]; simpl; try reflexivity.
        destruct n; simpl; try reflexivity.
        eapply erase_out_bind; [apply IH|]. intros [rs s2] _. reflexivity.
      Qed.

      Lemma p_map_str_erase : forall lp chars s,
        erase_out (fun x : bytes * list pentry => (fst x, erase_entries (snd x)))
                  (p_map_str fo prun ptr bs snap hp lp chars s)
        = map_str fo run ptr bs (erase_syms snap) chars (erase_entries s).
      Proof.
        intros lp chars. induction chars as [|c rest IH]; intros s; simpl; [reflexivity|].
        eapply erase_out_bind; [apply (p_call_with_erase [(QStr c, lp)] s)|]. intros [[r rp] s1] _.
        unfold erase_e. simpl.
        destruct r; simpl; try reflexivity.
        eapply erase_out_bind; [apply IH|]. intros [rs s2] _. reflexivity.
      Qed.

      Lemma p_filter_list_erase : forall elems s,
        erase_out (fun x : list pentry * list pentry => (erase_entries (fst x), erase_entries (snd x)))
                  (p_filter_list fo prun ptr bs snap hp elems s)
        = filter_list fo run ptr bs (erase_syms snap) (erase_entries elems) (erase_entries s).
      Proof.
        intros elems. induction elems as [|e rest IH]; intros s; simpl; [reflexivity|].
        eapply erase_out_bind; [apply (p_call_with_erase [e] s)|]. intros [r s1] _. simpl.
        eapply erase_out_bind; [apply IH|]. intros [rs s2] _. simpl. unfold pkeeps, erase_e.
        destruct (keeps fo (erase_v (fst r))); reflexivity.
      Qed.

      Lemma p_filter_tuple_erase : forall flds s,
        erase_out (fun x : list pfield * list pentry => (erase_flds (fst x), erase_entries (snd x)))
                  (p_filter_tuple fo prun ptr bs snap hp flds s)
        = filter_tuple fo run ptr bs (erase_syms snap) (erase_flds flds) (erase_entries s).
      Proof.
        intros flds. induction flds as [|[k [v [np vp]]] rest IH]; intros s; simpl; [reflexivity|].
        eapply erase_out_bind; [apply (p_call_with_erase [(v, vp); (QStr k, np)] s)|]. intros [r s1] _. simpl.
        eapply erase_out_bind; [apply IH|]. intros [rs s2] _. simpl. unfold pkeeps, erase_e.
        destruct (keeps fo (erase_v (fst r))); reflexivity.
      Qed.

      Lemma p_filter_str_erase : forall lp chars s,
        erase_out (fun x : bytes * list pentry => (fst x, erase_entries (snd x)))
                  (p_filter_str fo prun ptr bs snap hp lp chars s)
        = filter_str fo run ptr bs (erase_syms snap) chars (erase_entries s).
      Proof.
        intros lp chars. induction chars as [|c rest IH]; intros s; simpl; [reflexivity|].
        eapply erase_out_bind; [apply (p_call_with_erase [(QStr c, lp)] s)|]. intros [r s1] _. simpl.
        eapply erase_out_bind; [apply IH|]. intros [rs s2] _. simpl. unfold pkeeps, erase_e.
        destruct (keeps fo (erase_v (fst r))); reflexivity.
      Qed.

      Lemma p_reduce_list_erase : forall elems acc s,
        erase_out (fun x : pentry * list pentry => (erase_e (fst x), erase_entries (snd x)))
                  (p_reduce_list fo prun ptr bs snap hp elems acc s)
        = reduce_list fo run ptr bs (erase_syms snap) (erase_entries elems) (erase_e acc) (erase_entries s).
      Proof.
        intros elems. induction elems as [|e rest IH]; intros acc s; simpl; [reflexivity|].
        eapply erase_out_bind; [apply (p_call_with_erase [e; acc] s)|]. intros [acc' s1] _. simpl. apply IH.
      Qed.

      Lemma p_reduce_tuple_erase : forall flds acc s,
        erase_out (fun x : pentry * list pentry => (erase_e (fst x), erase_entries (snd x)))
                  (p_reduce_tuple fo prun ptr bs snap hp flds acc s)
        = reduce_tuple fo run ptr bs (erase_syms snap) (erase_flds flds) (erase_e acc) (erase_entries s).
      Proof.
        intros flds. induction flds as [|[k [v [np vp]]] rest IH]; intros acc s; simpl; [reflexivity|].
        eapply erase_out_bind; [apply (p_call_with_erase [(v, vp); (QStr k, np); acc] s)|]. intros [acc' s1] _. simpl.
        apply IH.
      Qed.

      Lemma p_reduce_str_erase : forall lp chars acc s,
        erase_out (fun x : pentry * list pentry => (erase_e (fst x), erase_entries (snd x)))
                  (p_reduce_str fo prun ptr bs snap hp lp chars acc s)
        = reduce_str fo run ptr bs (erase_syms snap) chars (erase_e acc) (erase_entries s).
      Proof.
        intros lp chars. induction chars as [|c rest IH]; intros acc s; simpl; [reflexivity|].
        eapply erase_out_bind; [apply (p_call_with_erase [(QStr c, lp); acc] s)|]. intros [acc' s1] _. simpl.
        apply IH.
      Qed.
    End Callback.

    Lemma p_hook_map_erase : forall st p, erase_out erase_st (p_hook_map fo prun st p) = hook_map fo run (erase_st st).
    Proof.
      intros st p. unfold p_hook_map, hook_map. destruct st as [pc0 s syms0 selfs0]. simpl.
      destruct s as [|[t tp] [|[f fp] s]]; simpl; try reflexivity.
      destruct f; simpl; try reflexivity.
      destruct t; simpl; try reflexivity.
      - eapply erase_out_bind; [apply p_arity_ok_erase|]. intros _ _.
        eapply erase_out_bind; [apply p_map_str_erase|]. intros [rs s'] _. reflexivity.
      - eapply erase_out_bind; [apply p_arity_ok_erase|]. intros _ _.
        eapply erase_out_bind; [apply p_map_list_erase|]. intros [rs s'] _. reflexivity.
      - eapply erase_out_bind; [apply p_arity_ok_erase|]. intros _ _.
        eapply erase_out_bind; [apply p_map_tuple_erase|]. intros [rs s'] _. reflexivity.
    Qed.

    Lemma p_hook_filter_erase : forall st p,
      erase_out erase_st (p_hook_filter fo prun st p) = hook_filter fo run (erase_st st).
    Proof.
      intros st p. unfold p_hook_filter, hook_filter. destruct st as [pc0 s syms0 selfs0]. simpl.
      destruct s as [|[t tp] [|[f fp] s]]; simpl; try reflexivity.
      destruct f; simpl; try reflexivity.
      destruct t; simpl; try reflexivity.
      - eapply erase_out_bind; [apply p_arity_ok_erase|]. intros _ _.
        eapply erase_out_bind; [apply p_filter_str_erase|]. intros [rs s'] _. reflexivity.
      - eapply erase_out_bind; [apply p_arity_ok_erase|]. intros _ _.
        eapply erase_out_bind; [apply p_filter_list_erase|]. intros [rs s'] _. reflexivity.
      - eapply erase_out_bind; [apply p_arity_ok_erase|]. intros _ _.
        eapply erase_out_bind; [apply p_filter_tuple_erase|]. intros [rs s'] _. reflexivity.
    Qed.

    Lemma p_hook_reduce_erase : forall st p,
      erase_out erase_st (p_hook_reduce fo prun st p) = hook_reduce fo run (erase_st st).
    Proof.
      intros st p. unfold p_hook_reduce, hook_reduce. destruct st as [pc0 s syms0 selfs0]. simpl.
      destruct s as [|[t tp] [|acc [|[f fp] s]]]; simpl; try reflexivity.
      destruct f; simpl; try reflexivity.
      destruct t; simpl; try reflexivity.
      - eapply erase_out_bind; [apply p_arity_ok_erase|]. intros _ _.
        eapply erase_out_bind; [apply p_reduce_str_erase|]. intros [r s'] _. reflexivity.
      - eapply erase_out_bind; [apply p_arity_ok_erase|]. intros _ _.
        eapply erase_out_bind; [apply p_reduce_list_erase|]. intros [r s'] _. reflexivity.
      - eapply erase_out_bind; [apply p_arity_ok_erase|]. intros _ _.
        eapply erase_out_bind; [apply p_reduce_tuple_erase|]. intros [r s'] _. reflexivity.
    Qed.

    Lemma p_op_runtime_erase : forall h st p,
      erase_out erase_st (p_op_runtime fo prun h st p) = op_runtime fo run h (erase_st st).
    Proof.
      intros h st p. destruct h; simpl; try reflexivity.
      - apply p_hook_map_erase.
      - apply p_hook_filter_erase.
      - apply p_hook_reduce_erase.
      - destruct st as [pc0 s syms0 selfs0]. simpl.
        destruct s as [|[l lp] s]; simpl; [reflexivity|].
        destruct l; simpl; try reflexivity.
        destruct s as [|[r rp] s]; simpl; [reflexivity|]. destruct r; reflexivity.
      - destruct st as [pc0 s syms0 selfs0]. simpl.
        destruct s as [|[a ap] [|[st1 sp] [|[z zp] s]]]; simpl; try reflexivity.
        eapply erase_out_bind; [apply p_range_erase|]. intros v _. reflexivity.
      - destruct st as [pc0 s syms0 selfs0]. simpl.
        destruct s as [|[v vp] [|[e ep] s]]; simpl; try reflexivity. destruct e; reflexivity.
    Qed.

    Lemma pexec_instr_erase : forall i p st,
      erase_out erase_st (pexec_instr fo PC strict_ envv envpos prun i p st)
      = exec_instr fo C strict_ envv run i (erase_st st).
    Proof.
      intros i p st. unfold pexec_instr, exec_instr.
      destruct i.
      - (* IBind *)
        eapply erase_out_bind; [apply ppop_erase|]. intros [[v vp] s1] _. simpl.
        eapply erase_out_bind; [apply ppop_erase|]. intros [[n np] s2] _. simpl.
        unfold erase_e; simpl. destruct n; simpl; try reflexivity.
        eapply erase_out_bind; [apply p_binding_push_erase|]. intros t _. reflexivity.
      - (* IBindOver *)
        eapply erase_out_bind; [apply ppop_erase|]. intros [[v vp] s1] _. simpl.
        eapply erase_out_bind; [apply ppop_erase|]. intros [[n np] s2] _. simpl.
        unfold erase_e; simpl. destruct n; simpl; try reflexivity.
        eapply erase_out_bind; [apply p_binding_push_erase|]. intros t _. reflexivity.
      - (* IPop *)
        eapply erase_out_bind; [apply ppop_erase|]. intros [e s1] _. reflexivity.
      - (* INewScope *) apply p_op_new_scope_erase.
      - (* IAdd *)
        eapply erase_out_bind; [apply ppop_erase|]. intros [[l lp] s1] _. simpl.
        eapply erase_out_bind; [apply ppop_erase|]. intros [[r rp] s2] _. simpl.
        eapply erase_out_bind; [apply arith_erase|]. intros v _. reflexivity.
      - eapply erase_out_bind; [apply ppop_erase|]. intros [[l lp] s1] _. simpl.
        eapply erase_out_bind; [apply ppop_erase|]. intros [[r rp] s2] _. simpl.
        eapply erase_out_bind; [apply arith_erase|]. intros v _. reflexivity.
      - eapply erase_out_bind; [apply ppop_erase|]. intros [[l lp] s1] _. simpl.
        eapply erase_out_bind; [apply ppop_erase|]. intros [[r rp] s2] _. simpl.
        eapply erase_out_bind; [apply arith_erase|]. intros v _. reflexivity.
      - eapply erase_out_bind; [apply ppop_erase|]. intros [[l lp] s1] _. simpl.
        eapply erase_out_bind; [apply ppop_erase|]. intros [[r rp] s2] _. simpl.
        eapply erase_out_bind; [apply arith_erase|]. intros v _. reflexivity.
      - eapply erase_out_bind; [apply ppop_erase|]. intros [[l lp] s1] _. simpl.
        eapply erase_out_bind; [apply ppop_erase|]. intros [[r rp] s2] _. simpl.
        eapply erase_out_bind; [apply arith_erase|]. intros v _. reflexivity.
      - (* IEqual *)
        eapply erase_out_bind; [apply ppop_erase|]. intros [[l lp] s1] _. simpl.
        eapply erase_out_bind; [apply ppop_erase|]. intros [[r rp] s2] _. simpl.
        unfold erase_e, pcompatible; simpl.
        destruct (wcompatible (erase_v l) (erase_v r)); [|reflexivity].
        destruct (weq (erase_v l) (erase_v r)); reflexivity.
      - (* IGt *)
        eapply erase_out_bind; [apply ppop_erase|]. intros [[l lp] s1] _. simpl.
        eapply erase_out_bind; [apply ppop_erase|]. intros [[r rp] s2] _. simpl.
        eapply erase_out_bind; [apply erase_out_pout_of|]. intros w Hw.
        unfold ppush_next, push_next, erase_st; simpl. unfold erase_e; simpl.
        rewrite inj_erase; [reflexivity|]. exact (vm_compare_scalar _ _ _ _ (pout_of_ok _ _ _ _ _ Hw)).
      - eapply erase_out_bind; [apply ppop_erase|]. intros [[l lp] s1] _. simpl.
        eapply erase_out_bind; [apply ppop_erase|]. intros [[r rp] s2] _. simpl.
        eapply erase_out_bind; [apply erase_out_pout_of|]. intros w Hw.
        unfold ppush_next, push_next, erase_st; simpl. unfold erase_e; simpl.
        rewrite inj_erase; [reflexivity|]. exact (vm_compare_scalar _ _ _ _ (pout_of_ok _ _ _ _ _ Hw)).
      - eapply erase_out_bind; [apply ppop_erase|]. intros [[l lp] s1] _. simpl.
        eapply erase_out_bind; [apply ppop_erase|]. intros [[r rp] s2] _. simpl.
        eapply erase_out_bind; [apply erase_out_pout_of|]. intros w Hw.
        unfold ppush_next, push_next, erase_st; simpl. unfold erase_e; simpl.
        rewrite inj_erase; [reflexivity|]. exact (vm_compare_scalar _ _ _ _ (pout_of_ok _ _ _ _ _ Hw)).
      - eapply erase_out_bind; [apply ppop_erase|]. intros [[l lp] s1] _. simpl.
        eapply erase_out_bind; [apply ppop_erase|]. intros [[r rp] s2] _. simpl.
        eapply erase_out_bind; [apply erase_out_pout_of|]. intros w Hw.
        unfold ppush_next, push_next, erase_st; simpl. unfold erase_e; simpl.
        rewrite inj_erase; [reflexivity|]. exact (vm_compare_scalar _ _ _ _ (pout_of_ok _ _ _ _ _ Hw)).
      - (* INot *)
        eapply erase_out_bind; [apply ppop_erase|]. intros [[v vp] s1] _. simpl.
        unfold erase_e; simpl. destruct v; reflexivity.
      - (* IVal *) destruct l; reflexivity.
      - (* ICast *)
        eapply erase_out_bind; [apply ppop_erase|]. intros [[v vp] s1] _. simpl.
        eapply erase_out_bind; [apply erase_out_pout_of|]. intros w Hw.
        unfold ppush_next, push_next, erase_st; simpl. unfold erase_e; simpl.
        rewrite inj_erase; [reflexivity|]. exact (vm_cast_scalar _ _ _ (pout_of_ok _ _ _ _ _ Hw)).
      - (* ISym *) reflexivity.
      - (* IDeRef *)
        rewrite <- p_get_binding_erase.
        destruct (p_get_binding fo envv envpos st s) as [[v vp]|]; reflexivity.
      - (* IInitTuple *) reflexivity.
      - (* IField *)
        eapply erase_out_bind; [apply ppop_erase|]. intros [[v vp] s1] _. simpl.
        eapply erase_out_bind; [apply ppop_erase|]. intros [[n np] s2] _. simpl.
        unfold erase_e; simpl.
        destruct n; simpl; try reflexivity.
        + eapply erase_out_bind; [apply ppop_erase|]. intros [[t tp] s3] _. simpl.
          unfold erase_e; simpl. destruct t; simpl; try reflexivity.
          eapply erase_out_bind; [apply p_merge_field_erase|]. intros flds' _. reflexivity.
        + eapply erase_out_bind; [apply ppop_erase|]. intros [[t tp] s3] _. simpl.
          unfold erase_e; simpl. destruct t; simpl; try reflexivity.
          eapply erase_out_bind; [apply p_merge_field_erase|]. intros flds' _. reflexivity.
      - (* IInitList *) reflexivity.
      - (* IElement *)
        eapply erase_out_bind; [apply ppop_erase|]. intros [[v vp] s1] _. simpl.
        eapply erase_out_bind; [apply ppop_erase|]. intros [[l lp] s2] _. simpl.
        unfold erase_e; simpl. destruct l; simpl; try reflexivity.
        unfold ppush_next, push_next, erase_st; simpl. unfold erase_e; simpl. now rewrite map_app.
      - (* ICp *) apply p_op_copy_erase.
      - (* IBang *)
        eapply erase_out_bind; [apply ppop_erase|]. intros [[v vp] s1] _. simpl.
        unfold erase_e; simpl. destruct v; reflexivity.
      - (* IJump *) apply pjump_erase.
      - (* IJumpIfTrue *)
        eapply erase_out_bind; [apply ppop_erase|]. intros [[v vp] s1] _. simpl.
        unfold erase_e; simpl. destruct v; simpl; try reflexivity.
        destruct v; [apply (pjump_erase (pwith_stk fo st s1))|reflexivity].
      - (* IJumpIfFalse *)
        eapply erase_out_bind; [apply ppop_erase|]. intros [[v vp] s1] _. simpl.
        unfold erase_e; simpl. destruct v; simpl; try reflexivity.
        destruct v; [reflexivity|apply (pjump_erase (pwith_stk fo st s1))].
      - (* ISelectJump *)
        eapply erase_out_bind; [apply ppop_erase|]. intros [[f fp] s1] _. simpl.
        eapply erase_out_bind; [apply ppop_erase|]. intros [[se sp] s2] _. simpl.
        unfold erase_e; simpl.
        destruct (select_matches fo (erase_v f) (erase_v se)); [reflexivity|].
        apply (pjump_erase (pwith_stk fo st ((se, sp) :: s2))).
      - (* IAnd *)
        eapply erase_out_bind; [apply ppop_erase|]. intros [[v vp] s1] _. simpl.
        unfold erase_e; simpl. destruct v; simpl; try reflexivity.
        destruct v; [reflexivity|apply (pjump_erase (pwith_stk fo st ((QBool false, vp) :: s1)))].
      - (* IOr *)
        eapply erase_out_bind; [apply ppop_erase|]. intros [[v vp] s1] _. simpl.
        unfold erase_e; simpl. destruct v; simpl; try reflexivity.
        destruct v; [apply (pjump_erase (pwith_stk fo st ((QBool true, vp) :: s1)))|reflexivity].
      - (* IIndex *)
        eapply erase_out_bind; [apply ppop_erase|]. intros [[r rp] s1] _. simpl.
        eapply erase_out_bind; [apply ppop_erase|]. intros [[l lp] s2] _. simpl.
        eapply erase_out_bind; [apply p_index_erase|]. intros e _. reflexivity.
      - (* ISafeIndex *)
        eapply erase_out_bind; [apply ppop_erase|]. intros [[r rp] s1] _. simpl.
        eapply erase_out_bind; [apply ppop_erase|]. intros [[l lp] s2] _. simpl.
        eapply erase_out_bind; [apply p_index_erase|]. intros e _. reflexivity.
      - (* IExist *)
        eapply erase_out_bind; [apply ppop_erase|]. intros [[r rp] s1] _. simpl.
        eapply erase_out_bind; [apply ppop_erase|]. intros [[l lp] s2] _. simpl.
        eapply erase_out_bind; [apply p_exist_erase|]. intros v _. reflexivity.
      - (* INoop *) reflexivity.
      - (* IInitThunk *) apply (pjump_erase (pwith_stk fo st ((QThunk (ppc st), p) :: pstk st))).
      - (* IModule *)
        eapply erase_out_bind; [apply ppop_erase|]. intros [[m mp] s1] _. simpl.
        unfold erase_e; simpl. destruct m; simpl; try reflexivity.
        + apply (pjump_erase (pwith_stk fo st ((QMod (ppc st) None fs, p) :: s1))).
        + eapply erase_out_bind; [apply ppop_erase|]. intros [[t tp] s2] _. simpl.
          unfold erase_e; simpl. destruct t; simpl; try reflexivity.
          apply (pjump_erase (pwith_stk fo st ((QMod (ppc st) (Some idx) fs, p) :: s2))).
      - (* IFunc *)
        eapply erase_out_bind; [apply ppop_erase|]. intros [[l lp] s1] _. simpl.
        unfold erase_e; simpl. destruct l; simpl; try reflexivity.
        eapply erase_out_bind with (f := fun x : list bytes => x).
        + induction l as [|[v vp] l IH]; simpl; [reflexivity|].
          destruct v; simpl; try reflexivity.
          eapply erase_out_bind; [exact IH|]. intros r _. reflexivity.
        + intros names _. apply (pjump_erase (pwith_stk fo st ((QFunc (ppc st) (rev names) (psyms st), p) :: s1))).
      - (* IReturn *) reflexivity.
      - (* IFCall *) apply p_op_fcall_erase.
      - (* ITyp *)
        eapply erase_out_bind; [apply ppop_erase|]. intros [[v vp] s1] _. reflexivity.
      - (* IRuntime *) apply p_op_runtime_erase.
      - (* IRender *)
        eapply erase_out_bind; [apply ppop_erase|]. intros [[v vp] s1] _. simpl.
        unfold erase_e; simpl. destruct (wrender (erase_v v)); reflexivity.
      - (* IPushSelf *)
        eapply erase_out_bind; [apply ppop_erase|]. intros [[v vp] s1] _. reflexivity.
      - (* IPopSelf *)
        unfold erase_st; simpl. f_equal. f_equal. destruct (pselfs st); reflexivity.
      - (* ITranslatorPanic *) reflexivity.
    Qed.
  End Nested.

  (* (A) the positioned run, positions forgotten, is the run of vm/Vm.v on the code without positions *)
  Theorem pvm_run_erase : forall fuel st,
    erase_out erase_st (pvm_run fo PC strict_ envv envpos fuel st)
    = vm_run fo (map fst PC) strict_ envv fuel (erase_st st).
  Proof.
    intros fuel. induction fuel as [|f IH]; intros st; simpl; [reflexivity|].
    rewrite nth_error_map. change (pc (erase_st st)) with (ppc st). unfold PTranslate.pop.
    destruct (nth_error _ _) as [[i p]|]; simpl; [|reflexivity].
    destruct i; try reflexivity;
      (eapply erase_out_bind; [apply pexec_instr_erase; exact IH|]; intros st' _; apply IH).
  Qed.
End Erase.

Arguments erase_st {fo}. Arguments erase_e {fo}.

Definition erase_bindings {fo : float_ops} (t : list (bytes * (pval fo * pos))) : list (bytes * wval fo) := erase_syms t.

Theorem pvm_erase : forall fo fuel envv strict_ code,
  erase_out erase_bindings (pvm_prog fo fuel envv strict_ code) = vm_prog fo fuel envv strict_ (map fst code).
Proof.
  intros fo fuel envv strict_ code. unfold pvm_prog, vm_prog.
  eapply erase_out_bind; [apply pvm_run_erase|]. intros st _. reflexivity.
Qed.

(* with PTranslate.ptranslate_erase: the positioned pipeline, positions forgotten, is the pipeline the compile
   correctness theorems of vm/ are about *)
Theorem pvm_erase_translated : forall fo fuel envv strict_ (p : pprog),
  erase_out erase_bindings (pvm_prog fo fuel envv strict_ (ptranslate p))
  = vm_prog fo fuel envv strict_ (translate (map erase_stmt p)).
Proof.
  intros fo fuel envv strict_ p. rewrite pvm_erase, ptranslate_erase. reflexivity.
Qed.
