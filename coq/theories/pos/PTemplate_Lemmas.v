(* Theorems about the template scanner model (pos/PTemplate.v) and what they give for the span of a statement. *)
From Ucg Require Import pos.PAst pos.PAst_Ind pos.PTranslate pos.PTranslate_Lemmas pos.PTemplate.

Local Open Scope N_scope.

(* ------------------------------------------------------------------------------------------------ *)
(* line feeds *)

Lemma count_lf_app : forall a c, count_lf (a ++ c) = count_lf a + count_lf c.
Proof. induction a as [|x a IH]; intros c; cbn [app count_lf]; [reflexivity|]. rewrite IH. lia. Qed.

Lemma adv_consumed_line : forall s st, fst (adv_consumed st s) = fst st + count_lf s.
Proof.
  induction s as [|c s IH]; intros st; cbn [adv_consumed count_lf]; [lia|]. rewrite IH.
  destruct (is_lf c); cbn [fst snd]; [lia|]. destruct (is_cont c); cbn [fst snd]; lia.
Qed.

Lemma adv_file_line : forall s st, fst (adv_file st s) = fst st + count_lf s.
Proof.
  induction s as [|c s IH]; intros st; cbn [adv_file count_lf]; [lia|]. rewrite IH. destruct (is_lf c); cbn [fst snd]; lia.
Qed.

(* consume_expr splits the rest of the template into what it consumed and what is left; the text it returns
   has no more line feeds than what it consumed *)
Lemma consume_spec : forall s n t r, consume n s = (t, r) ->
  exists pre, s = pre ++ r /\ count_lf t <= count_lf pre.
Proof.
  induction s as [|c s IH]; intros n t r H; simpl in H.
  - inversion H; subst. exists []. split; [reflexivity | simpl; lia].
  - destruct (is_lbrace c && Z.eqb (if is_lbrace c then (n + 1)%Z else n) 1)%bool.
    + apply IH in H. destruct H as [pre [Hs Hlf]]. exists (c :: pre). split; [now rewrite Hs|]. simpl. lia.
    + destruct (Z.eqb (if is_rbrace c then ((if is_lbrace c then (n + 1)%Z else n) - 1)%Z
                       else (if is_lbrace c then (n + 1)%Z else n)) 0).
      * inversion H; subst. exists [c]. split; [reflexivity | simpl; lia].
      * destruct (consume (if is_rbrace c then ((if is_lbrace c then (n + 1)%Z else n) - 1)%Z
                           else (if is_lbrace c then (n + 1)%Z else n)) s) as [t' r'] eqn:Hc.
        inversion H; subst. apply IH in Hc. destruct Hc as [pre [Hs Hlf]].
        exists (c :: pre). split; [now rewrite Hs|]. simpl. lia.
Qed.

Lemma firstn_consumed : forall (pre r : bytes), firstn (List.length (pre ++ r) - List.length r) (pre ++ r) = pre.
Proof.
  intros pre r. rewrite app_length. replace (List.length pre + List.length r - List.length r)%nat with (List.length pre) by lia.
  rewrite firstn_app, Nat.sub_diag, firstn_all. simpl. apply app_nil_r.
Qed.

(* ------------------------------------------------------------------------------------------------ *)
(* T1: the lines the scanner hands out lie between the first line of the template and its last line *)

Definition start_lines_ok (l0 : N) (n : N) (a : nat * pos * bytes) : Prop :=
  let '(_, st, text) := a in l0 <= fst st /\ fst st + count_lf text <= l0 + n.

Ltac lf_lia :=
  unfold start_lines_ok; cbn [fst snd count_lf]; rewrite ?count_lf_app, ?adv_consumed_line; cbn [fst snd count_lf];
  repeat match goal with |- context [if is_lf ?c then _ else _] => destruct (is_lf c) end;
  lia.

Lemma scan_lines : forall fuel idx st esc s,
  Forall (start_lines_ok (fst st) (count_lf s)) (scan fuel idx st esc s).
Proof.
  induction fuel as [|fuel IH]; intros idx st esc s; simpl; [constructor|].
  destruct s as [|c s']; [constructor|].
  assert (Hweak : forall l0 n l1 m l, l0 <= l1 -> l1 + m <= l0 + n ->
            Forall (start_lines_ok l1 m) l -> Forall (start_lines_ok l0 n) l).
  { intros l0 n l1 m l H1 H2 H. eapply Forall_impl; [|exact H]. intros [[i st'] text] [Ha Hb].
    unfold start_lines_ok. lia. }
  destruct (is_at c && negb esc)%bool.
  - destruct (consume 0 s') as [text rest] eqn:Hc.
    destruct (consume_spec _ _ _ _ Hc) as [pre [Hs Hlf]]. subst s'.
    rewrite firstn_consumed. constructor.
    + lf_lia.
    + eapply Hweak; [| |apply IH]; lf_lia.
  - destruct (is_bsl c && negb esc)%bool.
    + eapply Hweak; [| |apply IH]; lf_lia.
    + destruct (is_lf c) eqn:Hlf.
      * eapply Hweak; [| |apply IH]; cbn [fst snd count_lf]; rewrite ?Hlf; lia.
      * eapply Hweak; [| |apply IH]; destruct (is_cont c); cbn [fst snd count_lf]; rewrite ?Hlf; lia.
Qed.

Theorem tpl_scan_lines : forall p tpl,
  Forall (fun a : nat * pos * bytes => let '(_, st, text) := a in
            line p <= line st /\ line st + count_lf text <= line p + count_lf tpl) (tpl_scan p tpl).
Proof.
  intros p tpl. unfold tpl_scan.
  eapply Forall_impl; [|apply scan_lines]. intros [[i st] text] H. exact H.
Qed.

(* the tokenizer's offsets: lines are exact, whatever the text *)
Theorem place_line_exact : forall st pre, 1 <= fst st ->
  fst (place st (adv_file (1, 1) pre)) = fst (adv_file st pre).
Proof. intros st pre H. unfold place. cbn [fst snd]. rewrite !adv_file_line. cbn [fst snd]. lia. Qed.

(* columns are exact on the first line of the brace text *)
Lemma adv_file_no_lf : forall pre st, count_lf pre = 0 -> adv_file st pre = (fst st, snd st + N.of_nat (List.length pre)).
Proof.
  induction pre as [|c pre IH]; intros st H.
  - destruct st as [l c0]. cbn [adv_file fst snd List.length]. f_equal. lia.
  - cbn [count_lf] in H. destruct (is_lf c) eqn:Hc; [lia|]. cbn [adv_file]. rewrite Hc, IH by lia.
    cbn [fst snd List.length]. f_equal. lia.
Qed.

Theorem place_first_line_exact : forall st pre, 1 <= fst st -> 1 <= snd st -> count_lf pre = 0 ->
  place st (adv_file (1, 1) pre) = adv_file st pre.
Proof.
  intros st pre H1 H2 Hlf. rewrite !adv_file_no_lf by exact Hlf. unfold place. cbn [fst snd]. f_equal; lia.
Qed.

(* ... and not on its continuation lines: the column offset is added on every line *)
Theorem place_columns_on_continuation_lines_refuted :
  ~ (forall st pre, 1 <= fst st -> 1 <= snd st -> place st (adv_file (1, 1) pre) = adv_file st pre).
Proof.
  intros H. specialize (H (4, 32) [ascii_of_N 10; " "%char]). vm_compute in H.
  assert (H' : (5, 33) = (5, 2)) by (apply H; intros Hc; discriminate Hc). discriminate H'.
Qed.

(* ------------------------------------------------------------------------------------------------ *)
(* T2: in a template without backslash and with ASCII characters only, the start the scanner hands out for an
   `@` is the position of that `@` in the file (counting bytes as the file's tokenizer does), two columns on *)

Definition plain_byte (c : ascii) : bool := (negb (is_bsl c) && is_ascii c)%bool.

Lemma ascii_not_cont : forall c, is_ascii c = true -> is_cont c = false.
Proof.
  intros c H. unfold is_ascii, is_cont in *. apply N.ltb_lt in H.
  destruct (N.leb 128 (N_of_ascii c)) eqn:E; [|reflexivity]. apply N.leb_le in E. lia.
Qed.

Lemma adv_consumed_file : forall s st, forallb plain_byte s = true ->
  adv_file (fst st, snd st + 1) s = (fst (adv_consumed st s), snd (adv_consumed st s) + 1).
Proof.
  induction s as [|c s IH]; intros st H; simpl; [reflexivity|].
  simpl in H. apply andb_prop in H. destruct H as [Hc Hs]. unfold plain_byte in Hc. apply andb_prop in Hc.
  destruct Hc as [_ Hascii]. rewrite (ascii_not_cont c Hascii).
  destruct (is_lf c); rewrite <- IH by exact Hs; reflexivity.
Qed.

Lemma adv_file_app : forall a c st, adv_file st (a ++ c) = adv_file (adv_file st a) c.
Proof. induction a as [|x a IH]; intros c st; simpl; [reflexivity|]. apply IH. Qed.

Definition start_exact (st0 : pos) (whole : bytes) (a : nat * pos * bytes) : Prop :=
  let '(i, st, _) := a in
  st = (fst (adv_file st0 (firstn i whole)), snd (adv_file st0 (firstn i whole)) + 2).

Lemma scan_starts_exact : forall fuel st0 pre s,
  forallb plain_byte s = true ->
  Forall (start_exact st0 (pre ++ s)) (scan fuel (List.length pre) (adv_file st0 pre) false s).
Proof.
  induction fuel as [|fuel IH]; intros st0 pre s Hs; simpl; [constructor|].
  destruct s as [|c s']; [constructor|].
  simpl in Hs. apply andb_prop in Hs. destruct Hs as [Hc Hs'].
  assert (Hpre : forall x, pre ++ x :: s' = (pre ++ [x]) ++ s') by (intros x; now rewrite <- app_assoc).
  assert (Hlen : forall x : ascii, S (List.length pre) = List.length (pre ++ [x]))
    by (intros x; rewrite app_length; simpl; lia).
  unfold plain_byte in Hc. apply andb_prop in Hc. destruct Hc as [Hbsl Hascii].
  apply negb_true_iff in Hbsl. rewrite Hbsl. simpl.
  destruct (is_at c) eqn:Hat; simpl.
  - destruct (consume 0 s') as [text rest] eqn:Hcons.
    destruct (consume_spec _ _ _ _ Hcons) as [mid [Hsplit Hlf]]. subst s'.
    assert (Hn : (List.length (mid ++ rest) - List.length rest)%nat = List.length mid) by (rewrite app_length; lia).
    rewrite Hn.
    replace (firstn (List.length mid) (mid ++ rest)) with mid
      by (rewrite firstn_app, firstn_all, Nat.sub_diag; simpl; now rewrite app_nil_r).
    constructor.
    + simpl. rewrite firstn_app, firstn_all, Nat.sub_diag. simpl. rewrite app_nil_r. reflexivity.
    + rewrite forallb_app in Hs'. apply andb_prop in Hs'. destruct Hs' as [Hmid Hrest].
      replace (pre ++ c :: mid ++ rest) with ((pre ++ c :: mid) ++ rest) by (rewrite <- app_assoc; reflexivity).
      replace (List.length pre + 1 + List.length mid)%nat with (List.length (pre ++ c :: mid))
        by (rewrite app_length; simpl; lia).
      replace (fst (adv_consumed (adv_file st0 pre) mid), snd (adv_consumed (adv_file st0 pre) mid) + 1)
        with (adv_file st0 (pre ++ c :: mid)).
      * apply IH. exact Hrest.
      * rewrite adv_file_app. simpl.
        assert (Hnolf : is_lf c = false).
        { unfold is_at, is_lf, is_byte in *. apply N.eqb_eq in Hat. apply N.eqb_neq. lia. }
        rewrite Hnolf. apply adv_consumed_file. exact Hmid.
  - destruct (is_lf c) eqn:Hlfc.
    + rewrite Hpre, (Hlen c).
      replace (fst (adv_file st0 pre) + 1, 1) with (adv_file st0 (pre ++ [c]))
        by (rewrite adv_file_app; simpl; now rewrite Hlfc).
      apply IH. exact Hs'.
    + rewrite (ascii_not_cont c Hascii). rewrite Hpre, (Hlen c).
      replace (fst (adv_file st0 pre), snd (adv_file st0 pre) + 1) with (adv_file st0 (pre ++ [c]))
        by (rewrite adv_file_app; simpl; now rewrite Hlfc).
      apply IH. exact Hs'.
Qed.

Theorem tpl_scan_starts_exact : forall p tpl, forallb plain_byte tpl = true ->
  Forall (fun a : nat * pos * bytes => let '(i, st, _) := a in
            let at_pos := adv_file (line p, col p + 1) (firstn i tpl) in
            st = (line at_pos, col at_pos + 2)) (tpl_scan p tpl).
Proof.
  intros p tpl H. unfold tpl_scan.
  pose proof (scan_starts_exact (S (List.length tpl)) (fst p, snd p + 1) [] tpl H) as Hx. simpl in Hx.
  eapply Forall_impl; [|exact Hx]. intros [[i st] text] Hs. exact Hs.
Qed.

(* ------------------------------------------------------------------------------------------------ *)
(* well placed template expressions lie on the lines of their template string *)

Lemma in_combine_r_ex : forall (A B : Type) (la : list A) (lb : list B) (y : B),
  List.length la = List.length lb -> In y lb -> exists x, In (x, y) (combine la lb).
Proof.
  intros A B la. induction la as [|a la IH]; intros lb y Hlen Hin.
  - destruct lb; [destruct Hin | discriminate Hlen].
  - destruct lb as [|b0 lb]; [destruct Hin|]. simpl in Hlen. injection Hlen as Hlen.
    destruct Hin as [Heq|Hin].
    + subst. exists a. now left.
    + destruct (IH lb y Hlen Hin) as [x Hx]. exists x. now right.
Qed.

Lemma in_part_exprs : forall parts pe, In (PPExpr pe) parts -> In pe (part_exprs parts).
Proof.
  intros parts pe H. unfold part_exprs. apply in_flat_map. exists (PPExpr pe). split; [exact H | now left].
Qed.

Theorem placed_template_nodes_lie_in_the_string : forall p tpl parts pe q,
  fmt_lines_okb (p, tpl, parts) = true -> In (PPExpr pe) parts -> In q (positions_of pe) ->
  line p <= line q <= line p + count_lf tpl.
Proof.
  intros p tpl parts pe q Hok Hpe Hq. unfold fmt_lines_okb in Hok. apply andb_prop in Hok.
  destruct Hok as [Hlen Hall]. apply Nat.eqb_eq in Hlen.
  destruct (in_combine_r_ex _ _ _ _ pe Hlen (in_part_exprs parts pe Hpe)) as [a Ha].
  pose proof (proj1 (forallb_forall _ _) Hall (a, pe) Ha) as Hone. cbn [fst snd] in Hone.
  pose proof (proj1 (Forall_forall _ _) (tpl_scan_lines p tpl) a (in_combine_l _ _ _ _ Ha)) as Hscan.
  destruct a as [[i st] text]. unfold expr_lines_okb in Hone.
  pose proof (proj1 (forallb_forall _ _) Hone q Hq) as Hq'. apply andb_prop in Hq'. destruct Hq' as [H1 H2].
  apply N.leb_le in H1. apply N.leb_le in H2. unfold line in *. lia.
Qed.

(* every node made by the template parser belongs to an `@{...}` expression of one of the format expressions of
   the file's parser *)
Definition covered (F : list fmt) (q : pos) : Prop :=
  exists p tpl parts pe, In (p, tpl, parts) F /\ In (PPExpr pe) parts /\ In q (positions_of pe).

Lemma covered_incl : forall F F' q, incl F F' -> covered F q -> covered F' q.
Proof.
  intros F F' q Hincl [p [tpl [parts [pe [H1 [H2 H3]]]]]]. exists p, tpl, parts, pe. split; [now apply Hincl | now split].
Qed.

Definition PC (e : pexpr) : Prop := forall q, In q (tpl_positions_of e) -> covered (formats_of e) q.
Definition QC (s : pstmt) : Prop := forall q, In q (tpl_positions_of_stmt s) -> covered (formats_of_stmt s) q.

Lemma covered_fields : forall fs q, Pfields PC fs ->
  In q (flat_map (fun fl : pos * bytes * pexpr => tpl_positions_of (snd fl)) fs) ->
  covered (flat_map (fun fl : pos * bytes * pexpr => formats_of (snd fl)) fs) q.
Proof.
  intros fs q H Hq. apply in_flat_map in Hq. destruct Hq as [fl [Hfl Hq]].
  pose proof (proj1 (Forall_forall _ _) H fl Hfl) as IH. eapply covered_incl; [|exact (IH q Hq)].
  intros f Hf. apply in_flat_map. exists fl. now split.
Qed.

Lemma covered_list : forall es q, Forall PC es ->
  In q (flat_map tpl_positions_of es) -> covered (flat_map formats_of es) q.
Proof.
  intros es q H Hq. apply in_flat_map in Hq. destruct Hq as [e [He Hq]].
  pose proof (proj1 (Forall_forall _ _) H e He) as IH. eapply covered_incl; [|exact (IH q Hq)].
  intros f Hf. apply in_flat_map. exists e. now split.
Qed.

Lemma covered_opt : forall o q, Popt PC o ->
  In q (opt_positions tpl_positions_of o) -> covered (match o with Some s => formats_of s | None => [] end) q.
Proof. intros [e|] q H Hq; simpl in *; [exact (H q Hq) | destruct Hq]. Qed.

(* [Hq : In q (a ++ b ++ ...)] : one goal per summand, each closed by the lemma for that summand and an inclusion *)
Ltac split_in H := repeat (apply in_app_or in H; destruct H as [H|H]).
Ltac incl_fmt := let f := fresh "f" in let Hf := fresh "Hf" in intros f Hf; simpl; rewrite ?in_app_iff; tauto.
Ltac cover_with L := eapply covered_incl; [|apply L; eassumption]; incl_fmt.

Lemma template_nodes_covered_all : (forall e, PC e) /\ (forall t : ptpart, True) /\ (forall s, QC s).
Proof.
  apply pexpr_mutind; unfold PC, QC.
  - intros p q Hq. destruct Hq.
  - intros p v q Hq. destruct Hq.
  - intros p z q Hq. destruct Hq.
  - intros p bits q Hq. destruct Hq.
  - intros p s q Hq. destruct Hq.
  - intros p x q Hq. destruct Hq.
  - intros p fs IHfs q Hq. simpl in *. exact (covered_fields fs q IHfs Hq).
  - intros p es IHes q Hq. simpl in *. exact (covered_list es q IHes Hq).
  - intros p o l r IHl IHr _ q Hq. simpl in *. split_in Hq; [cover_with IHl | cover_with IHr].
  - intros p e IHe q Hq. simpl in *. exact (IHe q Hq).
  - intros p e IHe q Hq. simpl in *. exact (IHe q Hq).
  - intros p t fs IHt IHfs q Hq. simpl in *. split_in Hq; [cover_with IHt | cover_with (covered_fields fs q IHfs)].
  - intros p st stp en IHst IHstp IHen q Hq. simpl in *.
    split_in Hq; [cover_with IHst | cover_with (covered_opt stp q IHstp) | cover_with IHen].
  - intros p parts args _ IHargs q Hq. simpl in *. exact (covered_list args q IHargs Hq).
  - intros p tpl parts arg _ IHarg q Hq. simpl in *. split_in Hq.
    + apply in_flat_map in Hq. destruct Hq as [t [Ht Hq]]. destruct t as [s| |pe]; try destruct Hq.
      exists p, tpl, parts, pe. split; [now left | split; [exact Ht | exact Hq]].
    + eapply covered_incl; [|exact (IHarg q Hq)]. intros f Hf. now right.
  - intros p fn args IHfn IHargs q Hq. simpl in *. split_in Hq; [cover_with IHfn | cover_with (covered_list args q IHargs)].
  - intros p ct e IHe q Hq. simpl in *. exact (IHe q Hq).
  - intros p ps body IHbody q Hq. simpl in *. exact (IHbody q Hq).
  - intros p ve dflt arms IHve IHdflt IHarms q Hq. simpl in *.
    split_in Hq; [cover_with IHve | cover_with (covered_opt dflt q IHdflt) | cover_with (covered_fields arms q IHarms)].
  - intros p fe te IHf IHt q Hq. simpl in *. split_in Hq; [cover_with IHf | cover_with IHt].
  - intros p fe te IHf IHt q Hq. simpl in *. split_in Hq; [cover_with IHf | cover_with IHt].
  - intros p fe ae te IHf IHa IHt q Hq. simpl in *. split_in Hq; [cover_with IHf | cover_with IHa | cover_with IHt].
  - intros p ps out body IHps IHout IHbody q Hq. simpl in *. split_in Hq.
    + cover_with (covered_fields ps q IHps).
    + cover_with (covered_opt out q IHout).
    + apply in_flat_map in Hq. destruct Hq as [s [Hs Hq]].
      pose proof (proj1 (Forall_forall _ _) IHbody s Hs) as IHs. eapply covered_incl; [|exact (IHs q Hq)].
      intros f Hf. rewrite !in_app_iff. right. right. apply in_flat_map. exists s. now split.
  - intros p e IHe q Hq. simpl in *. exact (IHe q Hq).
  - intros p e IHe q Hq. simpl in *. exact (IHe q Hq).
  - intros p pp path q Hq. destruct Hq.
  - intros p tp typ pp path q Hq. destruct Hq.
  - intros p tp typ e IHe q Hq. simpl in *. exact (IHe q Hq).
  - intros s. exact I.
  - exact I.
  - intros e _. exact I.
  - intros p np x e IHe q Hq. simpl in *. exact (IHe q Hq).
  - intros e IHe q Hq. simpl in *. exact (IHe q Hq).
  - intros p e IHe q Hq. simpl in *. exact (IHe q Hq).
  - intros p tp typ e IHe q Hq. simpl in *. exact (IHe q Hq).
Qed.

Theorem template_nodes_covered : forall s q, In q (tpl_positions_of_stmt s) ->
  exists p tpl parts pe, In (p, tpl, parts) (formats_of_stmt s) /\ In (PPExpr pe) parts /\ In q (positions_of pe).
Proof. intros s q Hq. exact (proj2 (proj2 template_nodes_covered_all) s q Hq). Qed.

(* the span of the file's own nodes and string tokens is the span of the whole statement *)
Theorem src_span_is_stmt_span : forall s lo hi, tpl_placed_stmt s -> src_in_span s lo hi -> stmt_in_span s lo hi.
Proof.
  intros s lo hi Hplaced [Hsrc Hfmt]. unfold stmt_in_span, positions_of_stmt. apply Forall_app. split; [exact Hsrc|].
  apply Forall_forall. intros q Hq.
  destruct (template_nodes_covered s q Hq) as [p [tpl [parts [pe [Hf [Hpe Hqpe]]]]]].
  pose proof (proj1 (forallb_forall _ _) Hplaced (p, tpl, parts) Hf) as Hok.
  pose proof (placed_template_nodes_lie_in_the_string p tpl parts pe q Hok Hpe Hqpe) as Hline.
  pose proof (proj1 (Forall_forall _ _) Hfmt (p, tpl, parts) Hf) as Hspan. simpl in Hspan. lia.
Qed.

(* (C) with the span of a statement stated on what the parser of the file produced: no op points outside the lines
   of the statement's own nodes and string tokens *)
Theorem ops_point_into_their_statement_src : forall s lo hi, tpl_placed_stmt s -> src_in_span s lo hi ->
  Forall (fun x => lo <= line (snd x) <= hi) (ptranslate_stmt s).
Proof.
  intros s lo hi Hplaced Hspan. apply ops_point_into_their_statement. now apply src_span_is_stmt_span.
Qed.

(* a statement without single-argument format expressions needs nothing about templates *)
Corollary ops_point_into_their_statement_no_templates : forall s lo hi, formats_of_stmt s = [] ->
  Forall (fun p => lo <= line p <= hi) (src_positions_of_stmt s) ->
  Forall (fun x => lo <= line (snd x) <= hi) (ptranslate_stmt s).
Proof.
  intros s lo hi Hnone Hsrc. apply ops_point_into_their_statement_src.
  - unfold tpl_placed_stmt. now rewrite Hnone.
  - split; [exact Hsrc|]. rewrite Hnone. constructor.
Qed.

(* ------------------------------------------------------------------------------------------------ *)
(* Examples (each is what the real parser, template parser and translator produce for the text: rs/ probe) *)
Local Open Scope string_scope.

(*  line 1:  let a = 1;
    line 4:  let x = "@{item}" % 1;          (before commit aad375b the symbol was positioned 1:1) *)
Definition example_stmt : pstmt :=
  PSLet (4, 5) (4, 5) (b "x")
        (PEFormatS (4, 9) (b "@{item}") [PPStr []; PPExpr (PESym (4, 12) (b "item"))] (PEInt (4, 21) 1%Z)).

Example example_scan : tpl_scan (4, 9) (b "@{item}") = [(0%nat, (4, 12), b "item")].
Proof. reflexivity. Qed.

Example example_ops :
  ptranslate_stmt example_stmt =
  [(ISym (b "x"), (4, 5)); (INewScope 8, (4, 21)); (ISym (b "item"), (4, 21)); (IVal (LInt 1), (4, 21));
   (IBindOver, (4, 21)); (IDeRef (b "item"), (4, 12)); (IRender, (4, 9)); (IVal (LStr []), (4, 9));
   (IAdd, (4, 21)); (IReturn, (4, 21)); (IBind, (4, 5))].
Proof. reflexivity. Qed.

Example example_placed : tpl_placed_stmt example_stmt /\ src_in_span example_stmt 4 4.
Proof.
  split; [reflexivity|]. split.
  - simpl. repeat constructor; unfold line; simpl; lia.
  - simpl. repeat constructor; unfold line; simpl; lia.
Qed.

Example example_ops_on_line_4 : Forall (fun x => 4 <= line (snd x) <= 4) (ptranslate_stmt example_stmt).
Proof. apply ops_point_into_their_statement_src; apply example_placed. Qed.

(*  line 4:  let x = "v=@{item.x + 1} and @{
    line 5:   item.y}" % ...                  the second expression starts on line 4 column 32 and continues on line 5:
    its first node `item` stands at 5:2 in the file, the template parser says 5:33 (place (4,32) (2,2)) *)
Example example_scan_two_lines :
  tpl_scan (4, 9) (b "v=@{item.x + 1} and @{" ++ [ascii_of_N 10] ++ b " item.y}")%list
  = [(2%nat, (4, 14), b "item.x + 1"); (20%nat, (4, 32), ([ascii_of_N 10] ++ b " item.y")%list)].
Proof. reflexivity. Qed.

Example example_continuation_column : place (4, 32) (2, 2) = (5, 33).
Proof. reflexivity. Qed.
