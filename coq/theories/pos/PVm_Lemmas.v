(* Theorems about the positions the positioned machine (pos/PVm.v) reports.
     (A) erasure        pvm_erase, pvm_erase_translated                       (proved in PVm_Erase.v)
     (N) naturality     pvm_run_map (PVm_Map.v), pvm_prog_at_map
     (D) shift          pvm_shift, pvm_shift_translated, pvm_shift_env (general form), pvm_shift_env_refuted
     (B) provenance     pvm_positions_from_code, pvm_positions_from_program, .._no_env
     (C) blame index    pvm_blame_index, pvm_blame_in_statement
   The finer results on the dummy position and on locality by an invariant are in PVm_Inv.v. *)
From Ucg Require Export pos.PTranslate_Lemmas pos.PVm pos.PVm_Erase pos.PVm_Map.

(* the whole-program run with the dummy position as a parameter; the implementation's is pos0 *)
Definition pvm_prog_at (fo : float_ops) (ep : pos) (fuel : nat) (envv : list (bytes * bytes)) (strict_ : bool) (c : pops)
  : pout (list (bytes * (pval fo * pos))) :=
  pdo st <- pvm_run fo c strict_ envv ep fuel (pinit_state fo); POk (psyms st).

Lemma pvm_prog_is_at_pos0 : forall fo fuel envv strict_ c,
  pvm_prog fo fuel envv strict_ c = pvm_prog_at fo pos0 fuel envv strict_ c.
Proof. reflexivity. Qed.

(* ------------------------------------------------------------------------------------------------ *)
(* (N) naturality of a whole run: rename every position of the code by [f] (the dummy by [f] as well, or keep
   any dummy when there are no environment variables): the outcome is renamed by [f], nothing else changes *)
Theorem pvm_prog_at_map : forall fo (f : pos -> pos) ep ep' fuel envv strict_ code,
  env_tuple_p fo envv ep' = env_tuple_p fo envv (f ep) ->
  map_out f (map_syms f) (pvm_prog_at fo ep fuel envv strict_ code)
  = pvm_prog_at fo ep' fuel envv strict_ (mp f code).
Proof.
  intros fo f ep ep' fuel envv strict_ code Henv. unfold pvm_prog_at.
  eapply map_out_bind.
  - apply (pvm_run_map fo f code strict_ envv ep ep' Henv fuel (pinit_state fo)).
  - intros st _. reflexivity.
Qed.

(* ------------------------------------------------------------------------------------------------ *)
(* (D) shift *)
Definition shift_out {A : Type} (k : N) (g : A -> A) (r : pout A) : pout A := map_out (shift_pos k) g r.

(* general form: the program moved down by k lines, run with the dummy moved as well, reports every position
   moved down by k lines *)
Theorem pvm_shift_env : forall fo k ep fuel envv strict_ code,
  pvm_prog_at fo (shift_pos k ep) fuel envv strict_ (mp (shift_pos k) code)
  = shift_out k (map_syms (shift_pos k)) (pvm_prog_at fo ep fuel envv strict_ code).
Proof. intros. symmetry. apply pvm_prog_at_map. reflexivity. Qed.

(* without environment variables the dummy is never seen: the implementation's machine (dummy 0:0) on the moved
   program reports exactly the moved positions *)
Theorem pvm_shift : forall fo k fuel strict_ code,
  pvm_prog fo fuel [] strict_ (mp (shift_pos k) code)
  = shift_out k (map_syms (shift_pos k)) (pvm_prog fo fuel [] strict_ code).
Proof. intros. rewrite !pvm_prog_is_at_pos0. symmetry. apply pvm_prog_at_map. reflexivity. Qed.

(* with PTranslate.ptranslate_shift: k more lines in front of the SOURCE move the error position by exactly k lines
   and keep its column, the VIA entries likewise, the kind of outcome is unchanged *)
Theorem pvm_shift_translated : forall fo k fuel strict_ (p : pprog),
  pvm_prog fo fuel [] strict_ (ptranslate (map (shift_stmt k) p))
  = shift_out k (map_syms (shift_pos k)) (pvm_prog fo fuel [] strict_ (ptranslate p)).
Proof. intros. rewrite ptranslate_shift. apply pvm_shift. Qed.

Corollary pvm_shift_error : forall fo k fuel strict_ (p : pprog) e q via,
  pvm_prog fo fuel [] strict_ (ptranslate p) = PErr e q via ->
  pvm_prog fo fuel [] strict_ (ptranslate (map (shift_stmt k) p))
  = PErr e (fst q + k, snd q)%N (map (fun v => (fst v + k, snd v)%N) via).
Proof. intros fo k fuel strict_ p e q via H. rewrite pvm_shift_translated, H. reflexivity. Qed.

(* with environment variables the dummy position does not move: the statement of pvm_shift is false then.
   Witness: `let f = func (self, b) => 1; let x = map(f, env);` with one variable: the callback's first parameter is a
   reserved word, binding_push reports the position of the ARGUMENT, which is the name position of the field of
   the `env` tuple: 0:0, also when the program is moved down one line.  (On the implementation: same outcome.) *)
Local Open Scope string_scope.
Definition shift_witness_code : pops :=
  [ (ISym (b "f"), (1, 5)); (IInitList, (1, 9)); (ISym (b "self"), (1, 15)); (IElement, (1, 15));
    (ISym (b "b"), (1, 21)); (IElement, (1, 21)); (IFunc 2, (1, 9)); (IVal (LInt 1), (1, 27)); (IReturn, (1, 9));
    (IBind, (1, 5));
    (ISym (b "x"), (2, 5)); (IDeRef (b "f"), (2, 13)); (IDeRef (b "env"), (2, 16)); (IRuntime HMap, (2, 9));
    (IBind, (2, 5)) ]%N.
Definition shift_witness_env : list (bytes * bytes) := [(b "HOME", b "/root")].
Local Close Scope string_scope.

Lemma pvm_shift_env_refuted : forall fo,
  pvm_prog fo 100 shift_witness_env true shift_witness_code = PErr KReservedArg pos0 [(2, 9)%N]
  /\ pvm_prog fo 100 shift_witness_env true (mp (shift_pos 1) shift_witness_code) = PErr KReservedArg pos0 [(3, 9)%N]
  /\ pvm_prog fo 100 shift_witness_env true (mp (shift_pos 1) shift_witness_code)
     <> shift_out 1 (map_syms (shift_pos 1)) (pvm_prog fo 100 shift_witness_env true shift_witness_code).
Proof.
  intros fo. assert (H1 : pvm_prog fo 100 shift_witness_env true shift_witness_code = PErr KReservedArg pos0 [(2, 9)%N])
    by (vm_compute; reflexivity).
  assert (H2 : pvm_prog fo 100 shift_witness_env true (mp (shift_pos 1) shift_witness_code)
               = PErr KReservedArg pos0 [(3, 9)%N]) by (vm_compute; reflexivity).
  split; [exact H1|]. split; [exact H2|]. rewrite H1, H2. unfold shift_out, map_out, shift_pos, pos0. simpl.
  intros Heq. discriminate Heq.
Qed.

(* ------------------------------------------------------------------------------------------------ *)
(* (B) provenance: every reported position is the position of an op of the program (or the dummy) *)
Definition pos_eq_dec : forall a c : pos, {a = c} + {a <> c}.
Proof. intros [a1 a2] [c1 c2]. destruct (N.eq_dec a1 c1); destruct (N.eq_dec a2 c2); subst; [left|right|right|right]; congruence. Defined.

(* [q] becomes another position, everything else stays *)
Definition bump (q : pos) (x : pos) : pos := if pos_eq_dec x q then (N.succ (fst q), snd q) else x.

Lemma bump_moves : forall q, bump q q <> q.
Proof.
  intros [l c]. unfold bump. destruct (pos_eq_dec (l, c) (l, c)) as [_|Hn]; [|congruence]. simpl.
  intros H. inversion H as [Hl]. revert Hl. apply N.neq_succ_diag_l.
Qed.

Lemma bump_other : forall q x, x <> q -> bump q x = x.
Proof. intros q x H. unfold bump. destruct (pos_eq_dec x q); [contradiction|reflexivity]. Qed.

Lemma mp_fixed : forall f code, (forall x, In x (map snd code) -> f x = x) -> mp f code = code.
Proof.
  intros f code H. unfold mp. induction code as [|[i p] code IH]; simpl; [reflexivity|].
  rewrite (H p (or_introl eq_refl)). f_equal. apply IH. intros x Hx. apply H. right. exact Hx.
Qed.

Lemma map_fixed_In : forall (f : pos -> pos) l, map f l = l -> forall q, In q l -> f q = q.
Proof.
  intros f l. induction l as [|x l IH]; intros H q Hq; [contradiction|].
  simpl in H. inversion H as [[Hx Hl]]. destruct Hq as [Hq|Hq]; [subst q; exact Hx|].
  apply IH; [exact Hl|exact Hq].
Qed.

(* a renaming that fixes the code and the `env` tuple fixes every reported position *)
Lemma reported_positions_fixed : forall fo (f : pos -> pos) ep fuel envv strict_ code e p via,
  (forall x, In x (map snd code) -> f x = x) ->
  env_tuple_p fo envv ep = env_tuple_p fo envv (f ep) ->
  pvm_prog_at fo ep fuel envv strict_ code = PErr e p via ->
  forall q, In q (p :: via) -> f q = q.
Proof.
  intros fo f ep fuel envv strict_ code e p via Hcode Henv Hrun q Hq.
  pose proof (pvm_prog_at_map fo f ep ep fuel envv strict_ code Henv) as Hn.
  rewrite (mp_fixed f code Hcode), Hrun in Hn. simpl in Hn. inversion Hn as [[Hp Hvia]].
  destruct Hq as [Hq|Hq]; [subst q; exact Hp|].
  exact (map_fixed_In f via Hvia q Hq).
Qed.

Theorem pvm_positions_from_code : forall fo ep fuel envv strict_ code e p via,
  pvm_prog_at fo ep fuel envv strict_ code = PErr e p via ->
  forall q, In q (p :: via) -> In q (map snd code) \/ (q = ep /\ envv <> []).
Proof.
  intros fo ep fuel envv strict_ code e p via Hrun q Hq.
  destruct (in_dec pos_eq_dec q (map snd code)) as [Hin|Hnin]; [left; exact Hin|]. right.
  assert (Hcode : forall x, In x (map snd code) -> bump q x = x).
  { intros x Hx. apply bump_other. intros Heq. subst x. contradiction. }
  destruct envv as [|kv envv'].
  - exfalso. apply (bump_moves q).
    exact (reported_positions_fixed fo (bump q) ep fuel [] strict_ code e p via Hcode eq_refl Hrun q Hq).
  - split; [|discriminate]. destruct (pos_eq_dec q ep) as [Heq|Hne]; [exact Heq|]. exfalso. apply (bump_moves q).
    assert (Hep : bump q ep = ep) by (apply bump_other; congruence).
    refine (reported_positions_fixed fo (bump q) ep fuel (kv :: envv') strict_ code e p via Hcode _ Hrun q Hq).
    now rewrite Hep.
Qed.

(* the implementation's machine on a translated program: primary position and every VIA entry are positions of a
   node (or token) of a statement of the program -- never a made-up position -- except the dummy 0:0, which can
   only appear when there are environment variables (PVm_Inv.v: and only in errors of kind KReservedArg /
   KFieldType) *)
Theorem pvm_positions_from_program : forall fo fuel envv strict_ (prog : pprog) e p via,
  pvm_prog fo fuel envv strict_ (ptranslate prog) = PErr e p via ->
  forall q, In q (p :: via) ->
  (exists s, In s prog /\ In q (positions_of_stmt s)) \/ (q = pos0 /\ envv <> []).
Proof.
  intros fo fuel envv strict_ prog e p via Hrun q Hq. rewrite pvm_prog_is_at_pos0 in Hrun.
  destruct (pvm_positions_from_code fo pos0 fuel envv strict_ (ptranslate prog) e p via Hrun q Hq) as [Hin|Hd];
    [left|right; exact Hd].
  apply in_map_iff in Hin. destruct Hin as [x [Hx Hinx]].
  pose proof (proj1 (Forall_forall _ _) (ptranslate_positions_program prog) x Hinx) as [s [Hs [_ Hpos]]].
  exists s. split; [exact Hs|]. now rewrite <- Hx.
Qed.

Corollary pvm_positions_from_program_no_env : forall fo fuel strict_ (prog : pprog) e p via,
  pvm_prog fo fuel [] strict_ (ptranslate prog) = PErr e p via ->
  forall q, In q (p :: via) -> exists s, In s prog /\ In q (positions_of_stmt s).
Proof.
  intros fo fuel strict_ prog e p via Hrun q Hq.
  destruct (pvm_positions_from_program fo fuel [] strict_ prog e p via Hrun q Hq) as [H|[_ Hne]]; [exact H|].
  now contradiction Hne.
Qed.

(* every reported line lies in the line span of some statement of the program *)
Corollary pvm_error_lines_in_some_statement : forall fo fuel strict_ (prog : pprog) (span : pstmt -> N * N) e p via,
  (forall s, In s prog -> stmt_in_span s (fst (span s)) (snd (span s))) ->
  pvm_prog fo fuel [] strict_ (ptranslate prog) = PErr e p via ->
  forall q, In q (p :: via) -> exists s, In s prog /\ (fst (span s) <= line q <= snd (span s))%N.
Proof.
  intros fo fuel strict_ prog span e p via Hspan Hrun q Hq.
  destruct (pvm_positions_from_program_no_env fo fuel strict_ prog e p via Hrun q Hq) as [s [Hs Hin]].
  exists s. split; [exact Hs|]. exact (proj1 (Forall_forall _ _) (Hspan s Hs) q Hin).
Qed.

(* ------------------------------------------------------------------------------------------------ *)
(* (C) which op is blamed: run the program with every op labelled by its own INDEX instead of its position; the
   position the real run reports is the position of the op whose index the labelled run reports.  So "the primary
   position lies in statement s" is the statement "the blamed index lies in the index range of s". *)
Fixpoint label_from (n : nat) (c : pops) : pops :=
  match c with
  | [] => []
  | (i, _) :: c' => (i, (N.of_nat n, 0%N)) :: label_from (S n) c'
  end.
Definition index_code (c : pops) : pops := label_from 0 c.
(* the position of the op with index [fst q]; the dummy for an index outside the code *)
Definition pos_at (c : pops) (d : pos) (q : pos) : pos :=
  match nth_error c (N.to_nat (fst q)) with Some x => snd x | None => d end.
Definition index_dummy (c : pops) : pos := (N.of_nat (List.length c), 0%N).

Lemma label_from_back : forall c pre d, mp (pos_at (pre ++ c) d) (label_from (List.length pre) c) = c.
Proof.
  intros c. induction c as [|[i p] c IH]; intros pre d; [reflexivity|].
  simpl. unfold mp. simpl. f_equal.
  - f_equal. unfold pos_at. simpl. rewrite Nat2N.id, nth_error_app2 by apply le_n. now rewrite Nat.sub_diag.
  - specialize (IH (pre ++ [(i, p)]) d). rewrite <- app_assoc, app_length, Nat.add_1_r in IH. exact IH.
Qed.

Lemma index_code_back : forall c d, mp (pos_at c d) (index_code c) = c.
Proof. intros c d. exact (label_from_back c [] d). Qed.

Lemma index_code_ops : forall c, map fst (index_code c) = map fst c.
Proof.
  intros c. unfold index_code. generalize 0. induction c as [|[i p] c IH]; intros n; simpl; [reflexivity|].
  f_equal. apply IH.
Qed.

Lemma pos_at_dummy : forall c d, pos_at c d (index_dummy c) = d.
Proof.
  intros c d. unfold pos_at, index_dummy. simpl. rewrite Nat2N.id.
  destruct (nth_error c (List.length c)) eqn:E; [|reflexivity].
  assert (Hlt : List.length c < List.length c) by (apply nth_error_Some; rewrite E; discriminate).
  exfalso. exact (Nat.lt_irrefl _ Hlt).
Qed.

Theorem pvm_blame_index : forall fo ep fuel envv strict_ code,
  pvm_prog_at fo ep fuel envv strict_ code
  = map_out (pos_at code ep) (map_syms (pos_at code ep))
            (pvm_prog_at fo (index_dummy code) fuel envv strict_ (index_code code)).
Proof.
  intros fo ep fuel envv strict_ code.
  rewrite (pvm_prog_at_map fo (pos_at code ep) (index_dummy code) ep fuel envv strict_ (index_code code)).
  - now rewrite index_code_back.
  - now rewrite pos_at_dummy.
Qed.

(* the statement-level reading: if the labelled run blames an index inside the code of statement s, the reported
   position is the position of a node of s (for the primary position and for every VIA entry) *)
Theorem pvm_blame_in_statement : forall fo fuel envv strict_ (p1 p2 : pprog) (s : pstmt) e qi viai,
  let code := ptranslate (p1 ++ [s] ++ p2) in
  let lo := List.length (ptranslate p1) in
  let hi := lo + List.length (ptranslate_stmt s) in
  pvm_prog_at fo (index_dummy code) fuel envv strict_ (index_code code) = PErr e qi viai ->
  exists q via,
    pvm_prog fo fuel envv strict_ code = PErr e q via
    /\ q = pos_at code pos0 qi /\ via = map (pos_at code pos0) viai
    /\ forall x, In x (qi :: viai) -> lo <= N.to_nat (fst x) < hi -> In (pos_at code pos0 x) (positions_of_stmt s).
Proof.
  intros fo fuel envv strict_ p1 p2 s e qi viai code lo hi Hrun.
  exists (pos_at code pos0 qi), (map (pos_at code pos0) viai).
  split; [|split; [reflexivity|split; [reflexivity|]]].
  - rewrite pvm_prog_is_at_pos0, pvm_blame_index. fold code. rewrite Hrun. reflexivity.
  - intros x _ [Hlo Hhi]. unfold pos_at.
    assert (Hcode : code = ptranslate p1 ++ ptranslate_stmt s ++ ptranslate p2).
    { unfold code. rewrite !ptranslate_app. simpl. now rewrite app_nil_r. }
    rewrite Hcode, nth_error_app2 by exact Hlo. fold lo.
    assert (Hlt : N.to_nat (fst x) - lo < List.length (ptranslate_stmt s)) by (unfold hi in Hhi; lia).
    rewrite nth_error_app1 by exact Hlt.
    destruct (nth_error (ptranslate_stmt s) (N.to_nat (fst x) - lo)) as [y|] eqn:E.
    + apply nth_error_In in E. exact (proj1 (Forall_forall _ _) (ptranslate_positions_from_statement s) y E).
    + apply nth_error_None in E. lia.
Qed.
