(* Replacement chains of src/convert/mod.rs (shell_escape_single_quoted /
   shell_escape_double_quoted): one (pattern char, replacement) pair per
   `.replace(c, str)` call, in source order.  Plain list literals only: this
   file is meant to be regenerated from the Rust source by a script. *)
From Ucg Require Import base.Bytes.

Definition sq_chain : list (ascii * bytes) :=
  [ ("'"%char, b "'\''") ].

Definition dq_chain : list (ascii * bytes) :=
  [ ("\"%char, b "\\");
    (""""%char, b "\""");
    ("$"%char, b "\$");
    ("`"%char, b "\`") ].
