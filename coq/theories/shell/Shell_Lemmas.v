(* Proofs about the model in Shell.v.  No axioms. *)
From Ucg Require Import base.Bytes base.Bytes_Lemmas data.Val shell.Shell.

(* ------------------------------------------------------------------ *)
(** * A. Replacement chains                                            *)

Lemma replace1_app c r s1 s2 :
  replace1 c r (s1 ++ s2) = replace1 c r s1 ++ replace1 c r s2.
Proof. unfold replace1. apply flat_map_app. Qed.

Lemma apply_chain_app ch : forall s1 s2,
  apply_chain ch (s1 ++ s2) = apply_chain ch s1 ++ apply_chain ch s2.
Proof.
  induction ch as [|[c r] ch IH]; intros s1 s2; cbn.
  - reflexivity.
  - rewrite replace1_app. apply IH.
Qed.

Lemma apply_chain_nil ch : apply_chain ch [] = [].
Proof. induction ch as [|[c r] ch IH]; cbn; auto. Qed.

Lemma replace1_absent c r s :
  mem_ascii c s = false -> replace1 c r s = s.
Proof.
  unfold mem_ascii, replace1.
  induction s as [|x s IH]; cbn; intros Hm.
  - reflexivity.
  - apply orb_false_iff in Hm. destruct Hm as [Hx Hs].
    rewrite Ascii.eqb_sym in Hx. rewrite Hx. cbn. f_equal. apply IH. exact Hs.
Qed.

Lemma apply_chain_absent ch : forall r,
  forallb (fun p => negb (mem_ascii (fst p) r)) ch = true ->
  apply_chain ch r = r.
Proof.
  induction ch as [|[c r'] ch IH]; intros r Hall; cbn in *.
  - reflexivity.
  - apply andb_true_iff in Hall. destruct Hall as [Hc Hrest].
    apply negb_true_iff in Hc.
    rewrite (replace1_absent c r' r Hc). apply IH. exact Hrest.
Qed.

Lemma charwise_cons ch x s : charwise ch (x :: s) = subst1 ch x ++ charwise ch s.
Proof. reflexivity. Qed.

Theorem chain_is_charwise : forall ch,
  chain_ok ch = true -> forall s, apply_chain ch s = charwise ch s.
Proof.
  induction ch as [|[c r] ch IH]; intros Hok s.
  - cbn. unfold charwise. induction s as [|x s IHs]; cbn; [reflexivity|].
    f_equal. exact IHs.
  - cbn in Hok. apply andb_true_iff in Hok. destruct Hok as [Habs Hok].
    specialize (IH Hok).
    induction s as [|x s IHs].
    + cbn. apply apply_chain_nil.
    + rewrite charwise_cons. rewrite <- IHs. cbn.
      rewrite apply_chain_app. f_equal.
      destruct (Ascii.eqb x c).
      * apply apply_chain_absent. exact Habs.
      * rewrite IH. unfold charwise. cbn. apply app_nil_r.
Qed.

(* the exact variant: [chain_exact] is necessary and sufficient *)
Lemma in_bools x : In x bools.
Proof. destruct x; cbn; auto. Qed.

Lemma in_all_ascii x : In x all_ascii.
Proof.
  destruct x as [b0 b1 b2 b3 b4 b5 b6 b7]. unfold all_ascii.
  apply in_flat_map; exists b0; split; [apply in_bools|].
  apply in_flat_map; exists b1; split; [apply in_bools|].
  apply in_flat_map; exists b2; split; [apply in_bools|].
  apply in_flat_map; exists b3; split; [apply in_bools|].
  apply in_flat_map; exists b4; split; [apply in_bools|].
  apply in_flat_map; exists b5; split; [apply in_bools|].
  apply in_flat_map; exists b6; split; [apply in_bools|].
  apply in_map. apply in_bools.
Qed.

Theorem chain_exact_iff : forall ch,
  chain_exact ch = true <-> (forall s, apply_chain ch s = charwise ch s).
Proof.
  intros ch. split.
  - intros Hex s. unfold chain_exact in Hex. rewrite forallb_forall in Hex.
    induction s as [|x s IHs].
    + cbn. apply apply_chain_nil.
    + change (x :: s) with ([x] ++ s). rewrite apply_chain_app, IHs.
      cbn. f_equal. apply bytes_eqb_spec. apply Hex. apply in_all_ascii.
  - intros Hall. unfold chain_exact. apply forallb_forall. intros x _.
    apply bytes_eqb_spec. rewrite Hall. unfold charwise. cbn. apply app_nil_r.
Qed.

Lemma sq_chain_ok : chain_ok sq_chain = true.
Proof. vm_compute. reflexivity. Qed.
Lemma dq_chain_ok : chain_ok dq_chain = true.
Proof. vm_compute. reflexivity. Qed.

(* the regression the side condition must catch: quote before backslash *)
Definition dq_chain_reordered : list (ascii * bytes) :=
  [ (""""%char, b "\"""); ("\"%char, b "\\"); ("$"%char, b "\$"); ("`"%char, b "\`") ].
Lemma dq_chain_reordered_rejected :
  chain_ok dq_chain_reordered = false /\ chain_exact dq_chain_reordered = false /\
  apply_chain dq_chain_reordered (b """") = b "\\""".
Proof. vm_compute. repeat split. Qed.

Lemma charwise_sq s : charwise sq_chain s = esc_sq s.
Proof. reflexivity. Qed.
Lemma charwise_dq s : charwise dq_chain s = esc_dq s.
Proof. reflexivity. Qed.

Theorem esc_sq_is_chain : forall s, apply_chain sq_chain s = esc_sq s.
Proof. intros s. rewrite (chain_is_charwise _ sq_chain_ok). apply charwise_sq. Qed.
Theorem esc_dq_is_chain : forall s, apply_chain dq_chain s = esc_dq s.
Proof. intros s. rewrite (chain_is_charwise _ dq_chain_ok). apply charwise_dq. Qed.

(* ------------------------------------------------------------------ *)
(** * B. The reader: algebra of [push]/[touch]/[brk]                    *)

Fixpoint pushl (w : bytes) (r : gres) : gres :=
  match w with [] => r | c :: w' => push c (pushl w' r) end.
(* a (possibly empty) quoted piece [w] glued in front of what follows *)
Definition wordl (w : bytes) (r : gres) : gres := touch (pushl w r).
(* a complete word [w] followed by a blank *)
Definition addw (w : bytes) (r : gres) : gres :=
  match r with GLine cur ws rest => GLine (Some w) (ocons cur ws) rest | e => e end.

Lemma push_touch c r : push c (touch r) = push c r.
Proof. destruct r; reflexivity. Qed.

Lemma pushl_app w1 w2 r : pushl (w1 ++ w2) r = pushl w1 (pushl w2 r).
Proof. induction w1 as [|c w1 IH]; cbn; [reflexivity|]. rewrite IH. reflexivity. Qed.

Lemma pushl_line w cur ws rest :
  pushl w (GLine cur ws rest) =
  GLine (match w with [] => cur | _ => Some (w ++ odflt cur) end) ws rest.
Proof.
  induction w as [|c w IH]; cbn; [reflexivity|].
  rewrite IH. destruct w; reflexivity.
Qed.

Lemma wordl_line w cur ws rest :
  wordl w (GLine cur ws rest) = GLine (Some (w ++ odflt cur)) ws rest.
Proof. unfold wordl. rewrite pushl_line. destruct w; reflexivity. Qed.

Lemma pushl_err_exp w c : pushl w (GExp c) = GExp c.
Proof. induction w; cbn; auto. rewrite IHw. reflexivity. Qed.
Lemma pushl_err_unterm w : pushl w GUnterm = GUnterm.
Proof. induction w; cbn; auto. rewrite IHw. reflexivity. Qed.

Lemma wordl_brk w r : wordl w (brk r) = addw w r.
Proof.
  destruct r as [cur ws rest| |]; cbn [brk addw].
  - rewrite wordl_line. cbn. rewrite app_nil_r. reflexivity.
  - unfold wordl. rewrite pushl_err_exp. reflexivity.
  - unfold wordl. rewrite pushl_err_unterm. reflexivity.
Qed.

Lemma pushl_brk w r : w <> [] -> pushl w (brk r) = addw w r.
Proof.
  intros Hw. destruct r as [cur ws rest| |]; cbn [brk addw].
  - rewrite pushl_line. destruct w; [congruence|]. cbn. rewrite app_nil_r. reflexivity.
  - apply pushl_err_exp.
  - apply pushl_err_unterm.
Qed.

(** ** character facts *)

Lemma plain_neq c d : plain c = true -> plain d = false -> Ascii.eqb c d = false.
Proof.
  intros Hc Hd. destruct (Ascii.eqb_spec c d) as [->|_]; [congruence|reflexivity].
Qed.

Lemma name_char_plain c : name_char c = true -> plain c = true.
Proof. intros H. unfold plain. rewrite H. reflexivity. Qed.

Lemma forallb_name_plain w : forallb name_char w = true -> forallb plain w = true.
Proof.
  induction w as [|c w IH]; cbn; [reflexivity|]. intros H.
  apply andb_true_iff in H. destruct H as [Hc Hw].
  rewrite (name_char_plain c Hc), (IH Hw). reflexivity.
Qed.

Lemma plain_uclass c : plain c = true -> uclass_of c = UPlain.
Proof.
  intros Hp. unfold uclass_of.
  rewrite (plain_neq c sp Hp eq_refl), (plain_neq c tab Hp eq_refl),
          (plain_neq c nl Hp eq_refl), (plain_neq c "'" Hp eq_refl),
          (plain_neq c """" Hp eq_refl), (plain_neq c "\" Hp eq_refl), Hp.
  reflexivity.
Qed.

(** ** scanning pieces *)

Lemma go_plain w t : forallb plain w = true -> sh_go MU (w ++ t) = pushl w (sh_go MU t).
Proof.
  induction w as [|c w IH]; intros H; [reflexivity|].
  cbn in H. apply andb_true_iff in H. destruct H as [Hc Hw].
  cbn [app sh_go pushl]. rewrite (plain_uclass c Hc). rewrite (IH Hw). reflexivity.
Qed.

Lemma go_sp t : sh_go MU (" "%char :: t) = brk (sh_go MU t).
Proof. reflexivity. Qed.
Lemma go_nl t : sh_go MU (nl :: t) = GLine None [] t.
Proof. reflexivity. Qed.

Lemma go_plain_sp w t :
  plain_word w = true -> sh_go MU (w ++ " "%char :: t) = addw w (sh_go MU t).
Proof.
  intros H. unfold plain_word in H. destruct w as [|c w]; [discriminate|].
  rewrite go_plain by exact H. rewrite go_sp. apply pushl_brk. discriminate.
Qed.

Lemma go_sq_body s t : sh_go MS (esc_sq s ++ t) = pushl s (sh_go MS t).
Proof.
  induction s as [|x s IH]; [reflexivity|].
  cbn [esc_sq flat_map]. fold (esc_sq s). rewrite <- app_assoc.
  unfold esc_sq_char. destruct (Ascii.eqb_spec x "'") as [->|Hne].
  - cbn [b list_ascii_of_string app]. cbn [sh_go].
    change (uclass_of "\") with UBs. cbn [sh_go].
    change (Ascii.eqb "'" "'") with true. change (Ascii.eqb "'" nl) with false.
    cbv iota. cbn [sh_go]. change (uclass_of "'") with USq. cbv iota.
    rewrite push_touch. rewrite IH. reflexivity.
  - cbn [app sh_go pushl]. apply Ascii.eqb_neq in Hne. rewrite Hne. rewrite IH. reflexivity.
Qed.

Lemma go_sq s t :
  sh_go MU ("'"%char :: esc_sq s ++ "'"%char :: t) = wordl s (sh_go MU t).
Proof.
  cbn [sh_go]. change (uclass_of "'") with USq. cbv iota.
  rewrite go_sq_body. reflexivity.
Qed.

Lemma go_sq_sp s t :
  sh_go MU ("'"%char :: esc_sq s ++ "'"%char :: " "%char :: t) = addw s (sh_go MU t).
Proof. rewrite go_sq, go_sp. apply wordl_brk. Qed.

Lemma go_dq_body s t : sh_go MD (esc_dq s ++ t) = pushl s (sh_go MD t).
Proof.
  induction s as [|x s IH]; [reflexivity|].
  cbn [esc_dq flat_map]. fold (esc_dq s). rewrite <- app_assoc.
  unfold esc_dq_char.
  destruct (Ascii.eqb_spec x "\") as [->|H1].
  { cbn [b list_ascii_of_string app pushl]. rewrite <- IH. reflexivity. }
  destruct (Ascii.eqb_spec x """") as [->|H2].
  { cbn [b list_ascii_of_string app pushl]. rewrite <- IH. reflexivity. }
  destruct (Ascii.eqb_spec x "$") as [->|H3].
  { cbn [b list_ascii_of_string app pushl]. rewrite <- IH. reflexivity. }
  destruct (Ascii.eqb_spec x "`") as [->|H4].
  { cbn [b list_ascii_of_string app pushl]. rewrite <- IH. reflexivity. }
  cbn [app sh_go pushl]. unfold dclass_of.
  apply Ascii.eqb_neq in H1, H2, H3, H4. rewrite H1, H2, H3, H4. cbn [orb].
  rewrite IH. reflexivity.
Qed.

Lemma go_dq s t :
  sh_go MU (""""%char :: esc_dq s ++ """"%char :: t) = wordl s (sh_go MU t).
Proof.
  cbn [sh_go]. change (uclass_of """") with UDq. cbv iota.
  rewrite go_dq_body. reflexivity.
Qed.

(** ** from [gres] to lines *)

Definition line_of (r : gres) : line_result :=
  match r with
  | GLine cur ws rest => Line (ocons cur ws) rest
  | GExp c => LExpands c
  | GUnterm => LUnterminated
  end.
Definition consw (w : bytes) (l : line_result) : line_result :=
  match l with Line ws rest => Line (w :: ws) rest | e => e end.

Lemma sh_line_go s : sh_line s = line_of (sh_go MU s).
Proof. reflexivity. Qed.

Lemma line_of_addw w r : line_of (addw w r) = consw w (line_of r).
Proof. destruct r; reflexivity. Qed.

Lemma line_of_addws ss r :
  line_of (fold_right addw r ss) = fold_right consw (line_of r) ss.
Proof. induction ss as [|s ss IH]; cbn; [reflexivity|]. rewrite line_of_addw, IH. reflexivity. Qed.

Lemma consw_fold ss ws rest : fold_right consw (Line ws rest) ss = Line (ss ++ ws) rest.
Proof. induction ss as [|s ss IH]; cbn; [reflexivity|]. rewrite IH. reflexivity. Qed.

(* ------------------------------------------------------------------ *)
(** * C. Headline: single-quoted words                                 *)

Definition sq_piece (s : bytes) : bytes := b "'" ++ esc_sq s ++ b "' ".

Lemma go_sq_pieces ss t :
  sh_go MU (List.concat (map sq_piece ss) ++ t) = fold_right addw (sh_go MU t) ss.
Proof.
  induction ss as [|s ss IH]; [reflexivity|].
  cbn [map List.concat fold_right]. unfold sq_piece at 1.
  cbn [b list_ascii_of_string app]. rewrite <- !app_assoc. cbn [app].
  rewrite go_sq_sp. rewrite IH. reflexivity.
Qed.

Theorem sq_word : forall s, sh_words (b "'" ++ esc_sq s ++ b "' ") = Words [s].
Proof.
  intros s. unfold sh_words. rewrite sh_line_go.
  cbn [b list_ascii_of_string app]. rewrite go_sq_sp. reflexivity.
Qed.

Theorem sq_words : forall ss, sh_words (List.concat (map sq_piece ss)) = Words ss.
Proof.
  intros ss. unfold sh_words. rewrite sh_line_go.
  rewrite <- (app_nil_r (List.concat _)). rewrite go_sq_pieces.
  rewrite line_of_addws. cbn [sh_go line_of ocons]. rewrite consw_fold, app_nil_r. reflexivity.
Qed.

(* the line is consumed completely, whatever the strings contain *)
Theorem sq_words_line : forall ss, sh_line (List.concat (map sq_piece ss)) = Line ss [].
Proof.
  intros ss. rewrite sh_line_go.
  rewrite <- (app_nil_r (List.concat _)). rewrite go_sq_pieces.
  rewrite line_of_addws. cbn [sh_go line_of ocons]. rewrite consw_fold, app_nil_r. reflexivity.
Qed.

Definition nasty : bytes := b "a'b""c$d`e\f  g" ++ [nl] ++ b "*h ~ #!;|&'' \" ++ [nl].

Example sq_word_ex :
  sh_words (b "'" ++ esc_sq nasty ++ b "' ") = Words [nasty].
Proof. vm_compute. reflexivity. Qed.
Example sq_words_ex :
  sh_words (List.concat (map sq_piece [nasty; []; b "'"; nasty])) = Words [nasty; []; b "'"; nasty].
Proof. vm_compute. reflexivity. Qed.

(* ------------------------------------------------------------------ *)
(** * D. Headline: double-quoted assignment values                     *)

Theorem dq_value : forall name s,
  name_ok name = true ->
  sh_words (name ++ b "=""" ++ esc_dq s ++ b """") = Words [name ++ b "=" ++ s].
Proof.
  intros name s Hn. unfold sh_words. rewrite sh_line_go.
  assert (Hp : forallb plain (name ++ b "=") = true).
  { rewrite forallb_app. unfold name_ok in Hn. destruct name as [|c n]; [discriminate|].
    apply andb_true_iff in Hn. destruct Hn as [_ Hn].
    rewrite (forallb_name_plain _ Hn). reflexivity. }
  replace (name ++ b "=""" ++ esc_dq s ++ b """")
    with ((name ++ b "=") ++ """"%char :: esc_dq s ++ """"%char :: [])
    by (rewrite <- app_assoc; reflexivity).
  rewrite go_plain by exact Hp. rewrite go_dq. cbn [sh_go].
  rewrite wordl_line, pushl_line. cbn [odflt].
  destruct (name ++ b "=") eqn:E.
  - destruct name; discriminate E.
  - rewrite <- E. cbn [line_of ocons]. rewrite app_nil_r, <- app_assoc. reflexivity.
Qed.

Example dq_value_ex :
  sh_words (b "MY_var1" ++ b "=""" ++ esc_dq nasty ++ b """") = Words [b "MY_var1" ++ b "=" ++ nasty].
Proof. apply dq_value. reflexivity. Qed.
Example dq_value_ex_compute :
  sh_words (b "MY_var1" ++ b "=""" ++ esc_dq nasty ++ b """") = Words [b "MY_var1=" ++ nasty].
Proof. vm_compute. reflexivity. Qed.

(* ------------------------------------------------------------------ *)
(** * E. Scripts: the fuel of [sh_items] suffices                      *)

Definition grest (r : gres) : option bytes :=
  match r with GLine _ _ rest => Some rest | _ => None end.
Lemma grest_push c r : grest (push c r) = grest r.
Proof. destruct r; reflexivity. Qed.
Lemma grest_touch r : grest (touch r) = grest r.
Proof. destruct r; reflexivity. Qed.
Lemma grest_brk r : grest (brk r) = grest r.
Proof. destruct r; reflexivity. Qed.

Lemma go_rest_len : forall s m rest,
  grest (sh_go m s) = Some rest -> List.length rest <= pred (List.length s).
Proof.
  induction s as [|c s IH]; intros m rest H.
  - destruct m; cbn in H; inversion H; subst; cbn; lia.
  - assert (IH' : forall m', grest (sh_go m' s) = Some rest -> List.length rest <= List.length s).
    { intros m' H'. specialize (IH m' rest H'). lia. }
    cbn [List.length pred].
    destruct m; cbn [sh_go] in H.
    + destruct (uclass_of c).
      * rewrite grest_brk in H. eauto.
      * cbn in H. inversion H; subst. lia.
      * rewrite grest_touch in H. eauto.
      * rewrite grest_touch in H. eauto.
      * eauto.
      * rewrite grest_push in H. eauto.
      * discriminate H.
    + destruct (Ascii.eqb c "'"); [|rewrite grest_push in H]; eauto.
    + destruct (dclass_of c); [| |discriminate H|rewrite grest_push in H]; eauto.
    + destruct (Ascii.eqb c nl); [|rewrite grest_push in H]; eauto.
    + destruct (dq_escapable c); [rewrite grest_push in H; eauto|].
      destruct (Ascii.eqb c nl); [|rewrite !grest_push in H]; eauto.
Qed.

Lemma sh_line_rest_len c s ws rest :
  sh_line (c :: s) = Line ws rest -> List.length rest <= List.length s.
Proof.
  unfold sh_line. destruct (sh_go MU (c :: s)) as [cur ws' rest'| |] eqn:E; try discriminate.
  intros H. inversion H; subst.
  apply (go_rest_len (c :: s) MU rest). rewrite E. reflexivity.
Qed.

Lemma skip_blanks_len s : List.length (skip_blanks s) <= List.length s.
Proof.
  induction s as [|c s IH]; cbn [skip_blanks List.length]; [lia|].
  destruct (Ascii.eqb c sp || Ascii.eqb c tab); cbn [List.length]; lia.
Qed.
Lemma skip_line_len s : List.length (skip_line s) <= List.length s.
Proof.
  induction s as [|c s IH]; cbn [skip_line List.length]; [lia|].
  destruct (Ascii.eqb c nl); cbn [List.length]; lia.
Qed.
Lemma starts_comment_len s s' :
  starts_comment s = Some s' -> List.length (skip_line s') < List.length s.
Proof.
  unfold starts_comment. pose proof (skip_blanks_len s) as Hb.
  destruct (skip_blanks s) as [|c r]; [discriminate|].
  destruct (Ascii.eqb c "#"); [|discriminate].
  intros H. inversion H; subst. pose proof (skip_line_len s') as Hl. cbn in Hb. lia.
Qed.

Theorem sh_items_fuel_enough : forall n m s,
  List.length s < n -> List.length s < m -> sh_items_fuel n s = sh_items_fuel m s.
Proof.
  induction n as [|n IH]; intros m s Hn Hm; [lia|].
  destruct m as [|m]; [lia|].
  cbn [sh_items_fuel]. destruct s as [|c s]; [reflexivity|].
  destruct (starts_comment (c :: s)) as [s'|] eqn:Ec.
  - apply starts_comment_len in Ec. apply IH; lia.
  - destruct (sh_line (c :: s)) as [ws rest| |] eqn:El; try reflexivity.
    apply sh_line_rest_len in El. cbn [List.length] in Hn, Hm.
    rewrite (IH m rest) by lia. reflexivity.
Qed.

Lemma sh_items_nil : sh_items [] = Some [].
Proof. reflexivity. Qed.

Lemma sh_items_comment s s' :
  starts_comment s = Some s' -> sh_items s = sh_items (skip_line s').
Proof.
  intros Hc. unfold sh_items at 1. cbn [sh_items_fuel].
  destruct s as [|c s]; [discriminate Hc|]. rewrite Hc.
  apply starts_comment_len in Hc. unfold sh_items.
  apply sh_items_fuel_enough; lia.
Qed.

Lemma sh_items_line s ws rest :
  s <> [] -> starts_comment s = None -> sh_line s = Line ws rest ->
  sh_items s =
  match ws with
  | [] => sh_items rest
  | _ => match sh_items rest with Some l => Some (classify s ws :: l) | None => None end
  end.
Proof.
  intros Hs Hc Hl. unfold sh_items at 1. cbn [sh_items_fuel].
  destruct s as [|c s]; [congruence|]. rewrite Hc, Hl.
  apply sh_line_rest_len in Hl. unfold sh_items.
  rewrite (sh_items_fuel_enough (List.length (c :: s)) (S (List.length rest)) rest)
    by (cbn [List.length]; lia).
  reflexivity.
Qed.

(** ** assignment lines *)

Lemma plain_not_blank c : plain c = true -> Ascii.eqb c sp || Ascii.eqb c tab = false.
Proof.
  intros Hp. rewrite (plain_neq c sp Hp eq_refl), (plain_neq c tab Hp eq_refl). reflexivity.
Qed.

Lemma take_name_eq n t :
  forallb name_char n = true -> take_name (n ++ "="%char :: t) = (n, "="%char :: t).
Proof.
  induction n as [|c n IH]; intros H.
  - reflexivity.
  - cbn in H. apply andb_true_iff in H. destruct H as [Hc Hn].
    cbn [app take_name]. rewrite Hc, (IH Hn). reflexivity.
Qed.

Lemma name_ok_inv n :
  name_ok n = true ->
  exists c n', n = c :: n' /\ is_digit c = false /\ name_char c = true /\
               forallb name_char n = true.
Proof.
  unfold name_ok. destruct n as [|c n']; [discriminate|]. intros H.
  apply andb_true_iff in H. destruct H as [Hd Hall].
  exists c, n'. repeat split; auto.
  - apply negb_true_iff in Hd. exact Hd.
  - cbn in Hall. apply andb_true_iff in Hall. tauto.
Qed.

Lemma raw_name_eq n t : name_ok n = true -> raw_name (n ++ "="%char :: t) = Some n.
Proof.
  intros Hn. destruct (name_ok_inv n Hn) as (c & n' & -> & Hd & Hc & Hall).
  unfold raw_name.
  assert (Hsb : skip_blanks ((c :: n') ++ "="%char :: t) = (c :: n') ++ "="%char :: t).
  { cbn [app skip_blanks]. rewrite (plain_not_blank c (name_char_plain c Hc)). reflexivity. }
  rewrite Hsb, (take_name_eq _ t Hall). rewrite Hd. reflexivity.
Qed.

Lemma starts_comment_name n t : name_ok n = true -> starts_comment (n ++ t) = None.
Proof.
  intros Hn. destruct (name_ok_inv n Hn) as (c & n' & -> & Hd & Hc & Hall).
  unfold starts_comment. cbn [app skip_blanks].
  pose proof (name_char_plain c Hc) as Hp.
  rewrite (plain_not_blank c Hp). rewrite (plain_neq c "#" Hp eq_refl). reflexivity.
Qed.

(* NAME=<body>\n where the shell reads <body> as the single (possibly empty,
   possibly absent) word piece [cur] *)
Lemma sh_items_assign_line n body cur t :
  name_ok n = true ->
  sh_go MU (body ++ nl :: t) = GLine cur [] t ->
  sh_items (n ++ "="%char :: body ++ nl :: t) =
  match sh_items t with Some l => Some (Assign n (odflt cur) :: l) | None => None end.
Proof.
  intros Hn Hb.
  pose proof (name_ok_inv n Hn) as (c & n' & En & Hd & Hc & Hall).
  assert (Hp : forallb plain (n ++ b "=") = true).
  { rewrite forallb_app, (forallb_name_plain _ Hall). reflexivity. }
  assert (Hl : sh_line (n ++ "="%char :: body ++ nl :: t) = Line [n ++ b "=" ++ odflt cur] t).
  { rewrite sh_line_go.
    change (n ++ "="%char :: body ++ nl :: t) with (n ++ b "=" ++ body ++ nl :: t).
    rewrite app_assoc. rewrite go_plain by exact Hp. rewrite Hb, pushl_line.
    destruct (n ++ b "=") eqn:E.
    - subst n. discriminate E.
    - rewrite <- E. cbn [line_of ocons]. rewrite <- app_assoc. reflexivity. }
  assert (Hne : n ++ "="%char :: body ++ nl :: t <> []) by (subst n; discriminate).
  rewrite (sh_items_line _ _ _ Hne (starts_comment_name n _ Hn) Hl).
  unfold classify. rewrite (raw_name_eq n _ Hn).
  rewrite app_assoc, strip_prefix_app. reflexivity.
Qed.

(** ** decimal integers are plain words *)

Lemma digit_plain k : (k < 10)%N -> plain (ascii_of_N (48 + k)) = true.
Proof.
  intros Hk.
  assert (H : (k = 0 \/ k = 1 \/ k = 2 \/ k = 3 \/ k = 4 \/ k = 5 \/ k = 6 \/ k = 7 \/ k = 8 \/ k = 9)%N)
    by lia.
  repeat (destruct H as [->|H]; [reflexivity|]). subst k. reflexivity.
Qed.

Lemma pos_digits_plain : forall fuel n acc,
  forallb plain acc = true -> forallb plain (pos_digits_fuel fuel n acc) = true.
Proof.
  induction fuel as [|f IH]; intros n acc Hacc; cbn [pos_digits_fuel]; [exact Hacc|].
  assert (Hd : plain (ascii_of_N (48 + n mod 10)) = true).
  { apply digit_plain. apply N.mod_lt. discriminate. }
  destruct (N.eqb (n / 10) 0).
  - cbn [forallb]. rewrite Hd, Hacc. reflexivity.
  - apply IH. cbn [forallb]. rewrite Hd, Hacc. reflexivity.
Qed.

Lemma pos_digits_nonnil : forall fuel n acc,
  (acc <> [] \/ fuel <> O) -> pos_digits_fuel fuel n acc <> [].
Proof.
  induction fuel as [|f IH]; intros n acc H; cbn [pos_digits_fuel].
  - destruct H as [H|H]; [exact H|congruence].
  - destruct (N.eqb (n / 10) 0); [discriminate|]. apply IH. left. discriminate.
Qed.

Lemma Z_dec_plain z : plain_word (dec_of_Z z) = true.
Proof.
  assert (HN : forall n, plain_word (dec_of_N n) = true).
  { intros n. unfold plain_word, dec_of_N.
    generalize (N.to_nat (N.log2 n)). intros f.
    pose proof (pos_digits_nonnil (S f) n [] (or_intror (Nat.neq_succ_0 f))) as Hnn.
    destruct (pos_digits_fuel (S f) n []) eqn:E; [congruence|].
    rewrite <- E. apply pos_digits_plain. reflexivity. }
  destruct z as [|p|p]; cbn [dec_of_Z].
  - reflexivity.
  - apply HN.
  - specialize (HN (Npos p)). unfold plain_word in *.
    destruct (dec_of_N (N.pos p)); [discriminate|]. cbn [forallb] in *. exact HN.
Qed.

Lemma bool_text_plain x : plain_word (bool_text x) = true.
Proof. destruct x; reflexivity. Qed.

Lemma plain_word_forallb w : plain_word w = true -> forallb plain w = true.
Proof. unfold plain_word. destruct w; [discriminate|auto]. Qed.

Lemma go_plain_nl w t :
  forallb plain w = true ->
  exists cur, sh_go MU (w ++ nl :: t) = GLine cur [] t /\ odflt cur = w.
Proof.
  intros Hw. rewrite go_plain by exact Hw. rewrite go_nl, pushl_line.
  destruct w; eexists; split; try reflexivity. cbn. rewrite app_nil_r. reflexivity.
Qed.

(* ------------------------------------------------------------------ *)
(** * F. Headline: env output                                          *)

Definition assign_of (p : bytes * bytes) : sh_item := Assign (fst p) (snd p).

Theorem env_fields : forall flds,
  env_fields_ok flds = true ->
  sh_items (env_emit Fixed (VTuple flds)) = Some (map assign_of (scalar_fields flds)).
Proof.
  intros flds. cbn [env_emit].
  induction flds as [|[n v] flds IH]; intros Hok.
  - reflexivity.
  - cbn [env_fields_ok forallb fst snd] in Hok. apply andb_true_iff in Hok.
    destruct Hok as [Hf Hrest]. specialize (IH Hrest).
    cbn [env_tuple_fixed scalar_fields].
    assert (Hplainline : forall w, forallb plain w = true -> name_ok n = true ->
              sh_items ((n ++ b "=" ++ w ++ [nl]) ++ env_tuple_fixed flds) =
              Some (assign_of (n, w) :: map assign_of (scalar_fields flds))).
    { intros w Hw Hn. destruct (go_plain_nl w (env_tuple_fixed flds) Hw) as (cur & Hgo & Hcur).
      rewrite <- !app_assoc. cbn [b list_ascii_of_string app].
      rewrite (sh_items_assign_line n w cur _ Hn Hgo), IH, Hcur. reflexivity. }
    destruct v; cbn [env_is_scalar scalar_text env_scalar] in *;
      try (cbn [app]; exact IH).
    + (* bool *)
      apply andb_true_iff in Hf. destruct Hf as [Hn _].
      apply Hplainline; [apply plain_word_forallb, bool_text_plain|exact Hn].
    + (* int *)
      apply andb_true_iff in Hf. destruct Hf as [Hn _].
      apply Hplainline; [apply plain_word_forallb, Z_dec_plain|exact Hn].
    + (* float *)
      apply andb_true_iff in Hf. destruct Hf as [Hn Hfl]. cbn [fl_ok] in Hfl.
      apply Hplainline; [apply plain_word_forallb, Hfl|exact Hn].
    + (* str *)
      apply andb_true_iff in Hf. destruct Hf as [Hn _].
      unfold sq_quoted. rewrite <- !app_assoc. cbn [b list_ascii_of_string app].
      assert (Hgo : sh_go MU (("'"%char :: esc_sq s ++ ["'"%char]) ++ nl :: env_tuple_fixed flds)
                    = GLine (Some s) [] (env_tuple_fixed flds)).
      { cbn [app]. rewrite <- app_assoc. cbn [app]. rewrite go_sq, go_nl, wordl_line.
        cbn [odflt]. rewrite app_nil_r. reflexivity. }
      pose proof (sh_items_assign_line n _ _ _ Hn Hgo) as Hl.
      cbn [app] in Hl. rewrite <- app_assoc in Hl. cbn [app] in Hl.
      rewrite Hl, IH. reflexivity.
Qed.

Corollary env_fields_env : forall flds,
  env_fields_ok flds = true ->
  sh_env (env_emit Fixed (VTuple flds)) = Some (scalar_fields flds).
Proof.
  intros flds Hok. unfold sh_env. rewrite (env_fields flds Hok).
  induction (scalar_fields flds) as [|[n v] l IH]; cbn; [reflexivity|].
  cbn in IH. rewrite IH. reflexivity.
Qed.

Definition env_ex : list (bytes * val) :=
  [ (b "A", VStr nasty); (b "T", VTuple [(b "x", VInt 1)]); (b "_b2", VInt (-1234567890123));
    (b "N", VEmpty); (b "L", VList [VInt 1]); (b "F", VFloat (FFin (b "-1.5")));
    (b "E", VEnv []); (b "ok", VBool true); (b "Z", VStr []); (b "C", VConstraint);
    (b "bad-name", VList []); (b "Q", VStr (b "'")) ].

Example env_fields_ex :
  sh_env (env_emit Fixed (VTuple env_ex)) =
  Some [ (b "A", nasty); (b "_b2", b "-1234567890123"); (b "F", b "-1.5");
         (b "ok", b "true"); (b "Z", []); (b "Q", b "'") ].
Proof. rewrite env_fields_env; reflexivity. Qed.

(* Today's converter: everything after the first tuple/NULL field is lost ... *)
Definition env_lost : list (bytes * val) :=
  [ (b "A", VStr (b "1")); (b "T", VTuple []); (b "B", VStr (b "2")) ].
Theorem env_fields_refuted :
  env_fields_ok env_lost = true /\
  scalar_fields env_lost = [ (b "A", b "1"); (b "B", b "2") ] /\
  env_emit Legacy (VTuple env_lost) = b "A='1'" ++ [nl] /\
  sh_env (env_emit Legacy (VTuple env_lost)) = Some [ (b "A", b "1") ] /\
  sh_env (env_emit Legacy (VTuple env_lost)) <> Some (scalar_fields env_lost).
Proof. vm_compute. repeat split. discriminate. Qed.

(* ... and a list/env/constraint field glues "L=" onto the next line *)
Definition env_glued : list (bytes * val) :=
  [ (b "A", VStr (b "1")); (b "L", VList [VInt 1]); (b "B", VStr (b "2")) ].
Theorem env_fields_refuted_glued :
  env_fields_ok env_glued = true /\
  scalar_fields env_glued = [ (b "A", b "1"); (b "B", b "2") ] /\
  env_emit Legacy (VTuple env_glued) = b "A='1'" ++ [nl] ++ b "L=B='2'" ++ [nl] /\
  sh_env (env_emit Legacy (VTuple env_glued)) = Some [ (b "A", b "1"); (b "L", b "B=2") ] /\
  sh_env (env_emit Legacy (VTuple env_glued)) <> Some (scalar_fields env_glued).
Proof. vm_compute. repeat split. discriminate. Qed.

(* ------------------------------------------------------------------ *)
(** * G. Headline: flags output                                        *)

Definition addws (ws : list bytes) (r : gres) : gres := fold_right addw r ws.

Lemma addws_app l1 l2 r : addws (l1 ++ l2) r = addws l1 (addws l2 r).
Proof. unfold addws. apply fold_right_app. Qed.

Lemma flag_word_plain pfx name :
  forallb plain pfx = true -> forallb plain name = true ->
  plain_word (flag_word pfx name) = true.
Proof.
  intros Hp Hn. unfold flag_word.
  destruct (more_than_one_char name || has_char pfx);
    cbn [b list_ascii_of_string app plain_word]; rewrite ?forallb_app;
    cbn [forallb]; rewrite ?forallb_app, ?Hp, Hn; reflexivity.
Qed.

Lemma flag_name_word pfx name : flag_name pfx name = flag_word pfx name ++ b " ".
Proof.
  unfold flag_name, flag_word.
  destruct (more_than_one_char name || has_char pfx); rewrite <- ?app_assoc; reflexivity.
Qed.

Lemma go_flag_name pfx name t :
  forallb plain pfx = true -> forallb plain name = true ->
  sh_go MU (flag_name pfx name ++ t) = addw (flag_word pfx name) (sh_go MU t).
Proof.
  intros Hp Hn. rewrite flag_name_word, <- app_assoc. cbn [b list_ascii_of_string app].
  apply go_plain_sp. apply flag_word_plain; assumption.
Qed.

Lemma go_flag_simple v t :
  fl_ok v = true ->
  sh_go MU (flag_simple v ++ t) = addws (simple_words v) (sh_go MU t).
Proof.
  intros Hf. unfold simple_words.
  destruct v; cbn [flag_simple scalar_text addws fold_right app]; try reflexivity;
    rewrite <- ?app_assoc; cbn [b list_ascii_of_string app].
  - apply go_plain_sp, bool_text_plain.
  - apply go_plain_sp, Z_dec_plain.
  - apply go_plain_sp. exact Hf.
  - unfold sq_quoted. cbn [b list_ascii_of_string app]. rewrite <- app_assoc. cbn [app].
    apply go_sq_sp.
Qed.

Lemma go_flag_list pfx name items t :
  forallb plain pfx = true -> forallb plain name = true -> forallb fl_ok items = true ->
  sh_go MU (flag_list pfx name items ++ t) =
  addws (flag_list_spec pfx name items) (sh_go MU t).
Proof.
  intros Hp Hn. induction items as [|v items IH]; intros Hf; [reflexivity|].
  cbn [forallb] in Hf. apply andb_true_iff in Hf. destruct Hf as [Hv Hr].
  cbn [flag_list flag_list_spec flat_map]. fold (flag_list_spec pfx name items).
  rewrite <- app_assoc, addws_app, <- (IH Hr).
  destruct (is_list v || is_tuple v); [reflexivity|].
  rewrite <- app_assoc. rewrite (go_flag_name _ _ _ Hp Hn), (go_flag_simple _ _ Hv).
  reflexivity.
Qed.

Lemma go_flags pfx flds t :
  forallb plain pfx = true -> flags_ok flds = true ->
  sh_go MU (flags_write pfx flds ++ t) = addws (flags_spec_pfx pfx flds) (sh_go MU t).
Proof.
  intros Hp. induction flds as [|[name v] flds IH]; intros Hok; [reflexivity|].
  cbn [flags_ok forallb] in Hok. apply andb_true_iff in Hok. destruct Hok as [Hf Hr].
  cbn [flags_write flags_spec_pfx flat_map]. fold (flags_spec_pfx pfx flds).
  rewrite <- app_assoc, addws_app, <- (IH Hr).
  unfold flag_field_ok in Hf. unfold flag_field_spec. cbn [fst snd] in *.
  destruct v; try reflexivity;
    apply andb_true_iff in Hf; destruct Hf as [Hn Hv].
  - (* NULL *) apply (go_flag_name _ _ _ Hp Hn).
  - rewrite <- app_assoc, (go_flag_name _ _ _ Hp Hn), (go_flag_simple _ _ Hv). reflexivity.
  - rewrite <- app_assoc, (go_flag_name _ _ _ Hp Hn), (go_flag_simple _ _ Hv). reflexivity.
  - rewrite <- app_assoc, (go_flag_name _ _ _ Hp Hn), (go_flag_simple _ _ Hv). reflexivity.
  - rewrite <- app_assoc, (go_flag_name _ _ _ Hp Hn), (go_flag_simple _ _ Hv). reflexivity.
  - apply (go_flag_list _ _ _ _ Hp Hn Hv).
Qed.

Lemma line_of_addws_end ws : line_of (addws ws (GLine None [] [])) = Line ws [].
Proof.
  unfold addws. rewrite line_of_addws. cbn [line_of ocons].
  rewrite consw_fold, app_nil_r. reflexivity.
Qed.

Theorem flags_line : forall flds out,
  flags_emit (VTuple flds) = Some out -> flags_ok flds = true ->
  sh_line out = Line (flags_spec flds) [].
Proof.
  intros flds out He Hok. cbn in He. inversion He; subst out.
  rewrite sh_line_go, <- (app_nil_r (flags_write [] flds)).
  rewrite (go_flags [] flds [] eq_refl Hok). apply line_of_addws_end.
Qed.

Theorem flags_words : forall flds out,
  flags_emit (VTuple flds) = Some out -> flags_ok flds = true ->
  sh_words out = Words (flags_spec flds).
Proof.
  intros flds out He Hok. unfold sh_words. rewrite (flags_line flds out He Hok). reflexivity.
Qed.

Definition flags_ex : list (bytes * val) :=
  [ (b "name", VStr nasty); (b "v", VEmpty); (b "n", VInt (-42)); (b "skip", VTuple []);
    (b "tag", VList [VStr (b "it's"); VEmpty; VList []; VInt 7; VEnv []; VTuple []; VBool false;
                     VFloat (FFin (b "0.25"))]);
    (b "rate", VFloat FNegInf); (b "e", VEnv []); (b "c", VConstraint); (b "x.y", VStr []) ].

Example flags_words_ex :
  exists out, flags_emit (VTuple flags_ex) = Some out /\ flags_ok flags_ex = true /\
  sh_words out =
  Words [ b "--name"; nasty; b "-v"; b "-n"; b "-42";
          b "--tag"; b "it's"; b "--tag"; b "--tag"; b "7"; b "--tag"; b "--tag"; b "false";
          b "--tag"; b "0.25"; b "--rate"; b "-inf"; b "--x.y"; [] ].
Proof.
  eexists. split; [reflexivity|]. split; [reflexivity|].
  rewrite (flags_words flags_ex _ eq_refl eq_refl). reflexivity.
Qed.

(* the hypothesis on names is needed: a flag name with a shell-special
   character is written verbatim *)
Theorem flags_words_refuted_bad_name :
  exists out, flags_emit (VTuple [(b "a;reboot", VInt 1)]) = Some out /\
              sh_words out = Expands ";".
Proof. eexists. split; reflexivity. Qed.

(* ------------------------------------------------------------------ *)
(** * H. Headline: exec script                                         *)

Definition set_cmd : sh_item := Cmd [b "set"; b "-euo"; b "pipefail"].

Definition ocons_item (i : sh_item) (o : option (list sh_item)) : option (list sh_item) :=
  match o with Some l => Some (i :: l) | None => None end.
Definition oapp_items (is : list sh_item) (o : option (list sh_item)) : option (list sh_item) :=
  match o with Some l => Some (is ++ l) | None => None end.

Lemma skip_line_app w X :
  forallb (fun c => negb (Ascii.eqb c nl)) w = true -> skip_line (w ++ nl :: X) = X.
Proof.
  induction w as [|c w IH]; intros H.
  - reflexivity.
  - cbn [forallb] in H. apply andb_true_iff in H. destruct H as [Hc Hw].
    apply negb_true_iff in Hc. cbn [app skip_line]. rewrite Hc. apply IH. exact Hw.
Qed.

Lemma sh_items_comment_line w X :
  forallb (fun c => negb (Ascii.eqb c nl)) w = true ->
  sh_items ("#"%char :: w ++ nl :: X) = sh_items X.
Proof.
  intros Hw. rewrite (sh_items_comment _ (w ++ nl :: X)) by reflexivity.
  rewrite (skip_line_app w X Hw). reflexivity.
Qed.

Lemma exec_header_items X :
  sh_items (exec_header ++ X) = ocons_item set_cmd (sh_items X).
Proof.
  change (exec_header ++ X) with
    ("#"%char :: b "!/usr/bin/env bash" ++ nl ::
     "#"%char :: b " Turn on unofficial Bash-Strict-Mode" ++ nl ::
     b "set -euo pipefail" ++ nl :: X).
  rewrite sh_items_comment_line by reflexivity.
  rewrite sh_items_comment_line by reflexivity.
  cbn [b list_ascii_of_string app].
  erewrite sh_items_line; [| discriminate | reflexivity | reflexivity ].
  reflexivity.
Qed.

Lemma sh_items_blank_line X : sh_items (nl :: X) = sh_items X.
Proof.
  erewrite sh_items_line; [| discriminate | reflexivity | reflexivity ]. reflexivity.
Qed.

Lemma exec_env_items : forall env envt,
  exec_env_lines env = Some envt ->
  forallb (fun p => name_ok (fst p)) env = true ->
  exists envs, exec_env_spec env = Some envs /\
    forall X, sh_items (envt ++ X) = oapp_items (map assign_of envs) (sh_items X).
Proof.
  induction env as [|[n v] env IH]; intros envt He Hok.
  - cbn in He. inversion He; subst. exists []. split; [reflexivity|].
    intros X. cbn [app map]. unfold oapp_items. destruct (sh_items X); reflexivity.
  - cbn [exec_env_lines] in He. destruct v; try discriminate He.
    destruct (exec_env_lines env) as [t|] eqn:Et; [|discriminate He].
    inversion He; subst envt. clear He.
    cbn [forallb fst] in Hok. apply andb_true_iff in Hok. destruct Hok as [Hn Hr].
    destruct (IH t eq_refl Hr) as (envs & Hspec & Hitems).
    exists ((n, s) :: envs). split; [cbn [exec_env_spec]; rewrite Hspec; reflexivity|].
    intros X. rewrite <- !app_assoc. cbn [b list_ascii_of_string app].
    rewrite <- !app_assoc. cbn [app].
    assert (Hgo : sh_go MU ((""""%char :: esc_dq s ++ [""""%char]) ++ nl :: t ++ X)
                  = GLine (Some s) [] (t ++ X)).
    { cbn [app]. rewrite <- app_assoc. cbn [app]. rewrite go_dq, go_nl, wordl_line.
      cbn [odflt]. rewrite app_nil_r. reflexivity. }
    pose proof (sh_items_assign_line n _ _ _ Hn Hgo) as Hl.
    cbn [app] in Hl. rewrite <- app_assoc in Hl. cbn [app] in Hl.
    rewrite Hl, Hitems. destruct (sh_items X); reflexivity.
Qed.

Lemma exec_args_go : forall args argt,
  exec_args_text args = Some argt ->
  forallb exec_arg_ok args = true ->
  exists argws, exec_args_spec args = Some argws /\
    forall t, sh_go MU (argt ++ t) = addws argws (sh_go MU t).
Proof.
  induction args as [|v args IH]; intros argt He Hok.
  - cbn in He. inversion He; subst. exists []. split; reflexivity.
  - cbn [forallb] in Hok. apply andb_true_iff in Hok. destruct Hok as [Hv Hr].
    cbn [exec_args_text] in He.
    destruct (exec_args_text args) as [t'|] eqn:Et.
    2:{ destruct v; discriminate He. }
    destruct (IH t' eq_refl Hr) as (argws & Hspec & Hgo).
    destruct v; try discriminate He; inversion He; subst argt; clear He.
    + exists ([s] ++ argws). split; [cbn [exec_args_spec]; rewrite Hspec; reflexivity|].
      intros t. unfold sq_quoted. rewrite <- !app_assoc. cbn [b list_ascii_of_string app].
      rewrite <- !app_assoc. cbn [app]. rewrite go_sq_sp, Hgo. reflexivity.
    + exists (flags_spec fs ++ argws). split; [cbn [exec_args_spec]; rewrite Hspec; reflexivity|].
      intros t. rewrite <- app_assoc. cbn [exec_arg_ok] in Hv.
      rewrite (go_flags [] fs _ eq_refl Hv), Hgo, addws_app. reflexivity.
Qed.

Lemma exec_line_items cmd argt argws :
  (forall t, sh_go MU (argt ++ t) = addws argws (sh_go MU t)) ->
  sh_items (b "exec " ++ sq_quoted cmd ++ b " " ++ argt) =
  Some [Cmd (b "exec" :: cmd :: argws)].
Proof.
  intros Hgo.
  assert (Hl : sh_line (b "exec " ++ sq_quoted cmd ++ b " " ++ argt)
               = Line (b "exec" :: cmd :: argws) []).
  { rewrite sh_line_go. unfold sq_quoted. rewrite <- !app_assoc.
    change (b "exec " ++ b "'" ++ esc_sq cmd ++ b "'" ++ b " " ++ argt)
      with (b "exec" ++ " "%char :: "'"%char :: esc_sq cmd ++ "'"%char :: " "%char :: argt).
    rewrite (go_plain_sp (b "exec") _ eq_refl), go_sq_sp.
    rewrite <- (app_nil_r argt), Hgo.
    change (addw (b "exec") (addw cmd (addws argws (sh_go MU []))))
      with (addws (b "exec" :: cmd :: argws) (GLine None [] [])).
    apply line_of_addws_end. }
  erewrite sh_items_line; [| discriminate | reflexivity | exact Hl ].
  rewrite sh_items_nil. unfold classify.
  destruct (raw_name _); reflexivity.
Qed.

Theorem exec_script : forall t out,
  exec_emit t = Some out ->
  exists flds st cmd envs,
    t = VTuple flds /\
    exec_scan flds (mk_exec_parts None None None) = Some st /\
    ep_cmd st = Some cmd /\
    exec_env_spec (opt_list (ep_env st)) = Some envs /\
    (exec_ok st = true ->
     exists argws,
       exec_args_spec (opt_list (ep_args st)) = Some argws /\
       sh_items out =
       Some (set_cmd :: map assign_of envs ++ [Cmd (b "exec" :: cmd :: argws)])).
Proof.
  intros t out He. destruct t; try discriminate He.
  cbn [exec_emit] in He.
  assert (He' : match exec_scan fs (mk_exec_parts None None None) with
                | None => None
                | Some st =>
                    match ep_cmd st with
                    | None => None
                    | Some cmd =>
                        match exec_env_lines (opt_list (ep_env st)),
                              exec_args_text (opt_list (ep_args st)) with
                        | Some envt, Some argt =>
                            Some (exec_header ++ envt ++ [nl] ++
                                  b "exec " ++ sq_quoted cmd ++ b " " ++ argt)
                        | _, _ => None
                        end
                    end
                end = Some out).
  { destruct fs as [|f1 [|f2 [|f3 [|f4 fs']]]]; try exact He. discriminate He. }
  clear He.
  destruct (exec_scan fs _) as [st|] eqn:Escan; [|discriminate He'].
  destruct (ep_cmd st) as [cmd|] eqn:Ecmd; [|discriminate He'].
  destruct (exec_env_lines _) as [envt|] eqn:Eenv; [|discriminate He'].
  destruct (exec_args_text _) as [argt|] eqn:Eargs; [|discriminate He'].
  assert (Hout : exec_header ++ envt ++ [nl] ++ b "exec " ++ sq_quoted cmd ++ b " " ++ argt = out)
    by exact (f_equal (fun o => match o with Some x => x | None => out end) He').
  clear He'. subst out.
  assert (Hes : exists envs, exec_env_spec (opt_list (ep_env st)) = Some envs).
  { clear -Eenv. revert envt Eenv. induction (opt_list (ep_env st)) as [|[n v] env IH]; intros envt Eenv.
    - exists []. reflexivity.
    - cbn [exec_env_lines] in Eenv. destruct v; try discriminate Eenv.
      destruct (exec_env_lines env) as [t|]; [|discriminate Eenv].
      destruct (IH t eq_refl) as (envs & Hs). exists ((n, s) :: envs). cbn. rewrite Hs. reflexivity. }
  destruct Hes as (envs & Hes).
  exists fs, st, cmd, envs. repeat split; auto.
  intros Hok. unfold exec_ok in Hok. apply andb_true_iff in Hok. destruct Hok as [Hnames Hargs].
  destruct (exec_env_items _ _ Eenv Hnames) as (envs' & Hes' & Henv).
  rewrite Hes in Hes'. inversion Hes'; subst envs'. clear Hes'.
  destruct (exec_args_go _ _ Eargs Hargs) as (argws & Has & Hgo).
  exists argws. split; [exact Has|].
  rewrite exec_header_items, Henv. cbn [app]. rewrite sh_items_blank_line.
  rewrite (exec_line_items cmd argt argws Hgo). reflexivity.
Qed.

(* the same statement at the level of word lists *)
Corollary exec_script_words : forall t out,
  exec_emit t = Some out ->
  exists flds st cmd envs,
    t = VTuple flds /\
    exec_scan flds (mk_exec_parts None None None) = Some st /\
    ep_cmd st = Some cmd /\
    exec_env_spec (opt_list (ep_env st)) = Some envs /\
    (exec_ok st = true ->
     exists argws,
       exec_args_spec (opt_list (ep_args st)) = Some argws /\
       sh_script out =
       Some ([b "set"; b "-euo"; b "pipefail"]
             :: map (fun p => [fst p ++ b "=" ++ snd p]) envs
             ++ [b "exec" :: cmd :: argws])).
Proof.
  intros t out He.
  destruct (exec_script t out He) as (flds & st & cmd & envs & Ht & Hs & Hc & Hes & Hmain).
  exists flds, st, cmd, envs. repeat split; auto.
  intros Hok. destruct (Hmain Hok) as (argws & Has & Hitems).
  exists argws. split; [exact Has|].
  unfold sh_script. rewrite Hitems. cbn [map item_words set_cmd].
  rewrite map_app, map_map. reflexivity.
Qed.

(** ** what [exec_scan] picks: the unique command / env / args fields *)

Lemma b_command_env : b "command" <> b "env". Proof. discriminate. Qed.
Lemma b_command_args : b "command" <> b "args". Proof. discriminate. Qed.
Lemma b_env_args : b "env" <> b "args". Proof. discriminate. Qed.

Lemma bytes_eqb_neq x y : bytes_eqb x y = false -> x <> y.
Proof. intros H E. apply bytes_eqb_spec in E. congruence. Qed.

Lemma exec_scan_keep : forall flds st st',
  exec_scan flds st = Some st' ->
  (forall c, ep_cmd st = Some c -> ep_cmd st' = Some c) /\
  (forall l, ep_env st = Some l -> ep_env st' = Some l) /\
  (forall l, ep_args st = Some l -> ep_args st' = Some l).
Proof.
  induction flds as [|[n v] r IH]; intros st st' H; cbn [exec_scan] in H.
  - inversion H; subst. auto.
  - destruct (bytes_eqb n (b "command")).
    { destruct (ep_cmd st) eqn:Ec; [discriminate H|].
      destruct v; try discriminate H. apply IH in H. cbn in H.
      destruct H as (_ & B & C). repeat split; auto. intros c Hc. congruence. }
    destruct (bytes_eqb n (b "env")).
    { destruct v; try discriminate H.
      destruct (ep_env st) eqn:Ee; [discriminate H|].
      apply IH in H. cbn in H.
      destruct H as (A & _ & C). repeat split; auto. intros l Hl. congruence. }
    destruct (bytes_eqb n (b "args")).
    { destruct v; try discriminate H.
      destruct (ep_args st) eqn:Ea; [discriminate H|].
      apply IH in H. cbn in H.
      destruct H as (A & B & _). repeat split; auto. intros l' Hl. congruence. }
    apply IH in H. exact H.
Qed.

(* every field called command/env/args is the one that was picked
   (so there is at most one of each, with the right type) *)
Lemma exec_scan_fields : forall flds st st',
  exec_scan flds st = Some st' ->
  (forall v, In (b "command", v) flds -> exists c, v = VStr c /\ ep_cmd st' = Some c) /\
  (forall v, In (b "env", v) flds -> exists l, v = VTuple l /\ ep_env st' = Some l) /\
  (forall v, In (b "args", v) flds -> exists l, v = VList l /\ ep_args st' = Some l).
Proof.
  induction flds as [|[n v] r IH]; intros st st' H.
  - repeat split; intros v [].
  - cbn [exec_scan] in H.
    destruct (bytes_eqb n (b "command")) eqn:E1.
    { apply bytes_eqb_spec in E1. subst n.
      destruct (ep_cmd st) eqn:Ec; [discriminate H|].
      destruct v; try discriminate H.
      destruct (exec_scan_keep _ _ _ H) as (K & _ & _). specialize (K s eq_refl).
      destruct (IH _ _ H) as (A & B & C).
      repeat split; intros v' [Hin|Hin]; auto;
        inversion Hin; subst; solve [eauto | congruence | exfalso; auto]. }
    destruct (bytes_eqb n (b "env")) eqn:E2.
    { apply bytes_eqb_neq in E1. apply bytes_eqb_spec in E2. subst n.
      destruct v; try discriminate H.
      destruct (ep_env st) eqn:Ee; [discriminate H|].
      destruct (exec_scan_keep _ _ _ H) as (_ & K & _). specialize (K fs eq_refl).
      destruct (IH _ _ H) as (A & B & C).
      repeat split; intros v' [Hin|Hin]; auto;
        inversion Hin; subst; solve [eauto | congruence | exfalso; auto]. }
    destruct (bytes_eqb n (b "args")) eqn:E3.
    { apply bytes_eqb_neq in E1, E2. apply bytes_eqb_spec in E3. subst n.
      destruct v; try discriminate H.
      destruct (ep_args st) eqn:Ea; [discriminate H|].
      destruct (exec_scan_keep _ _ _ H) as (_ & _ & K). specialize (K l eq_refl).
      destruct (IH _ _ H) as (A & B & C).
      repeat split; intros v' [Hin|Hin]; auto;
        inversion Hin; subst; solve [eauto | congruence | exfalso; auto]. }
    apply bytes_eqb_neq in E1, E2, E3.
    destruct (IH _ _ H) as (A & B & C).
    repeat split; intros v' [Hin|Hin]; auto;
      inversion Hin; subst; solve [eauto | congruence | exfalso; auto].
Qed.

(* whatever was picked comes from a field of that name *)
Lemma exec_scan_found : forall flds st st',
  exec_scan flds st = Some st' ->
  (forall c, ep_cmd st' = Some c -> ep_cmd st = Some c \/ In (b "command", VStr c) flds) /\
  (forall l, ep_env st' = Some l -> ep_env st = Some l \/ In (b "env", VTuple l) flds) /\
  (forall l, ep_args st' = Some l -> ep_args st = Some l \/ In (b "args", VList l) flds).
Proof.
  induction flds as [|[n v] r IH]; intros st st' H; cbn [exec_scan] in H.
  - inversion H; subst. auto.
  - destruct (bytes_eqb n (b "command")) eqn:E1.
    { apply bytes_eqb_spec in E1. subst n.
      destruct (ep_cmd st) eqn:Ec; [discriminate H|].
      destruct v; try discriminate H.
      destruct (IH _ _ H) as (A & B & C). cbn [ep_cmd ep_env ep_args] in *.
      repeat split; intros x Hx.
      - destruct (A x Hx) as [Hs|Hin]; [inversion Hs; subst; right; left; reflexivity|right; right; exact Hin].
      - destruct (B x Hx) as [Hs|Hin]; [left; exact Hs|right; right; exact Hin].
      - destruct (C x Hx) as [Hs|Hin]; [left; exact Hs|right; right; exact Hin]. }
    destruct (bytes_eqb n (b "env")) eqn:E2.
    { apply bytes_eqb_spec in E2. subst n.
      destruct v; try discriminate H.
      destruct (ep_env st) eqn:Ee; [discriminate H|].
      destruct (IH _ _ H) as (A & B & C). cbn [ep_cmd ep_env ep_args] in *.
      repeat split; intros x Hx.
      - destruct (A x Hx) as [Hs|Hin]; [left; exact Hs|right; right; exact Hin].
      - destruct (B x Hx) as [Hs|Hin]; [inversion Hs; subst; right; left; reflexivity|right; right; exact Hin].
      - destruct (C x Hx) as [Hs|Hin]; [left; exact Hs|right; right; exact Hin]. }
    destruct (bytes_eqb n (b "args")) eqn:E3.
    { apply bytes_eqb_spec in E3. subst n.
      destruct v; try discriminate H.
      destruct (ep_args st) eqn:Ea; [discriminate H|].
      destruct (IH _ _ H) as (A & B & C). cbn [ep_cmd ep_env ep_args] in *.
      repeat split; intros x Hx.
      - destruct (A x Hx) as [Hs|Hin]; [left; exact Hs|right; right; exact Hin].
      - destruct (B x Hx) as [Hs|Hin]; [left; exact Hs|right; right; exact Hin].
      - destruct (C x Hx) as [Hs|Hin]; [inversion Hs; subst; right; left; reflexivity|right; right; exact Hin]. }
    destruct (IH _ _ H) as (A & B & C).
    repeat split; intros x Hx.
    + destruct (A x Hx) as [Hs|Hin]; [left; exact Hs|right; right; exact Hin].
    + destruct (B x Hx) as [Hs|Hin]; [left; exact Hs|right; right; exact Hin].
    + destruct (C x Hx) as [Hs|Hin]; [left; exact Hs|right; right; exact Hin].
Qed.

Theorem exec_scan_spec : forall flds st,
  exec_scan flds (mk_exec_parts None None None) = Some st ->
  (forall c, ep_cmd st = Some c <-> In (b "command", VStr c) flds) /\
  (forall l, ep_env st = Some l <-> In (b "env", VTuple l) flds) /\
  (forall l, ep_args st = Some l <-> In (b "args", VList l) flds).
Proof.
  intros flds st H.
  destruct (exec_scan_found _ _ _ H) as (A & B & C).
  destruct (exec_scan_fields _ _ _ H) as (A' & B' & C').
  cbn [ep_cmd ep_env ep_args] in *.
  repeat split.
  - intros Hc. destruct (A c Hc) as [Hd|Hin]; [discriminate Hd|exact Hin].
  - intros Hin. destruct (A' _ Hin) as (c' & Hv & Hc'). inversion Hv; subst. exact Hc'.
  - intros Hc. destruct (B l Hc) as [Hd|Hin]; [discriminate Hd|exact Hin].
  - intros Hin. destruct (B' _ Hin) as (c' & Hv & Hc'). inversion Hv; subst. exact Hc'.
  - intros Hc. destruct (C l Hc) as [Hd|Hin]; [discriminate Hd|exact Hin].
  - intros Hin. destruct (C' _ Hin) as (c' & Hv & Hc'). inversion Hv; subst. exact Hc'.
Qed.

Definition exec_ex : val :=
  VTuple [ (b "args", VList [ VStr nasty; VTuple flags_ex; VStr []; VStr (b "-x") ]);
           (b "command", VStr (b "/bin/my prog'$(id)"));
           (b "env", VTuple [ (b "FOO", VStr nasty); (b "_x9", VStr []);
                              (b "Q", VStr (b "\""$`!*")) ]) ].

Example exec_script_ex :
  exists out, exec_emit exec_ex = Some out /\
  sh_items out =
  Some [ set_cmd;
         Assign (b "FOO") nasty; Assign (b "_x9") []; Assign (b "Q") (b "\""$`!*");
         Cmd ([ b "exec"; b "/bin/my prog'$(id)"; nasty ] ++ flags_spec flags_ex ++ [ []; b "-x" ]) ].
Proof.
  eexists. split; [reflexivity|].
  destruct (exec_script exec_ex _ eq_refl) as (flds & st & cmd & envs & Ht & Hs & Hc & Hes & Hmain).
  inversion Ht; subst flds; clear Ht.
  vm_compute in Hs. inversion Hs; subst st; clear Hs.
  cbn [ep_cmd] in Hc. inversion Hc; subst cmd; clear Hc.
  vm_compute in Hes. inversion Hes; subst envs; clear Hes.
  destruct (Hmain eq_refl) as (argws & Has & Hitems).
  vm_compute in Has. inversion Has; subst argws; clear Has.
  etransitivity; [exact Hitems|]. vm_compute. reflexivity.
Qed.

(* hypotheses are needed: an env name that is not a shell identifier makes the
   line a command, not an assignment *)
Theorem exec_script_refuted_bad_env_name :
  exists out,
    exec_emit (VTuple [ (b "command", VStr (b "true")); (b "env", VTuple [ (b "my-var", VStr (b "1")) ]) ])
      = Some out /\
    sh_items out = Some [ set_cmd; Cmd [ b "my-var=1" ]; Cmd [ b "exec"; b "true" ] ].
Proof. eexists. split; vm_compute; reflexivity. Qed.
