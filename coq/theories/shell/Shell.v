(* MODEL (executable definitions only, no proofs) of
     - the two shell escapers of src/convert/mod.rs,
     - the env / flags / exec converters (src/convert/{env,flags,exec}.rs),
     - a conservative POSIX-sh reader for the text these converters emit.
   All text is [bytes] (UTF-8 bytes of the Rust [String]s). *)
From Ucg Require Export base.Bytes data.Val.
From Ucg Require Export shell.Chains.

(* ------------------------------------------------------------------ *)
(** * 1. Escapers                                                      *)

(* Rust [s.replace(c, r)] for a one-character ASCII pattern: every occurrence
   of the byte is replaced (an ASCII byte never occurs inside a multi-byte
   UTF-8 sequence, so byte-wise = char-wise). *)
Definition replace1 (c : ascii) (r : bytes) (s : bytes) : bytes :=
  flat_map (fun x => if Ascii.eqb x c then r else [x]) s.

(* sequential [.replace(c1,r1).replace(c2,r2)...] over the whole string *)
Fixpoint apply_chain (ch : list (ascii * bytes)) (s : bytes) : bytes :=
  match ch with
  | [] => s
  | (c, r) :: ch' => apply_chain ch' (replace1 c r s)
  end.

(* single pass: each input character is looked up once, first pattern wins *)
Fixpoint subst1 (ch : list (ascii * bytes)) (x : ascii) : bytes :=
  match ch with
  | [] => [x]
  | (c, r) :: ch' => if Ascii.eqb x c then r else subst1 ch' x
  end.
Definition charwise (ch : list (ascii * bytes)) (s : bytes) : bytes :=
  flat_map (subst1 ch) s.

Definition mem_ascii (c : ascii) (s : bytes) : bool := existsb (Ascii.eqb c) s.

(* side condition: no replacement text contains the pattern of a LATER step
   (a later step would then rewrite text inserted by an earlier one). *)
Fixpoint chain_ok (ch : list (ascii * bytes)) : bool :=
  match ch with
  | [] => true
  | (_, r) :: ch' =>
      forallb (fun p => negb (mem_ascii (fst p) r)) ch' && chain_ok ch'
  end.

(* exact (necessary and sufficient) variant: compare both on every 1-byte string *)
Definition bools : list bool := [false; true].
Definition all_ascii : list ascii :=
  flat_map (fun b0 => flat_map (fun b1 => flat_map (fun b2 => flat_map (fun b3 =>
  flat_map (fun b4 => flat_map (fun b5 => flat_map (fun b6 => map (fun b7 =>
    Ascii b0 b1 b2 b3 b4 b5 b6 b7) bools) bools) bools) bools) bools) bools) bools) bools.
Definition chain_exact (ch : list (ascii * bytes)) : bool :=
  forallb (fun x => bytes_eqb (apply_chain ch [x]) (subst1 ch x)) all_ascii.

Definition esc_sq_char (x : ascii) : bytes :=
  if Ascii.eqb x "'" then b "'\''" else [x].
Definition esc_sq (s : bytes) : bytes := flat_map esc_sq_char s.

Definition esc_dq_char (x : ascii) : bytes :=
  if Ascii.eqb x "\" then b "\\"
  else if Ascii.eqb x """" then b "\"""
  else if Ascii.eqb x "$" then b "\$"
  else if Ascii.eqb x "`" then b "\`"
  else [x].
Definition esc_dq (s : bytes) : bytes := flat_map esc_dq_char s.

(* ------------------------------------------------------------------ *)
(** * 2. Emitters                                                      *)

Definition bool_text (v : bool) : bytes := if v then b "true" else b "false".
Definition sq_quoted (s : bytes) : bytes := b "'" ++ esc_sq s ++ b "'".

(** ** env (src/convert/env.rs) *)

Inductive env_mode := Legacy | Fixed.

(* [EnvConverter::write] on a non-tuple value *)
Definition env_scalar (v : val) : bytes :=
  match v with
  | VEmpty => []
  | VBool x => bool_text x ++ [nl]
  | VFloat f => fl_text f ++ [nl]
  | VInt z => dec_of_Z z ++ [nl]
  | VStr s => sq_quoted s ++ [nl]
  | VList _ => []
  | VTuple _ => []            (* not reached: tuples are handled by env_emit / skipped in fields *)
  | VEnv _ => []
  | VConstraint => []
  end.

(* [convert_tuple] as it is today: first tuple/NULL field returns Ok(()),
   a list/env/constraint field writes "NAME=" and nothing else. *)
Fixpoint env_tuple_legacy (flds : list (bytes * val)) : bytes :=
  match flds with
  | [] => []
  | (name, v) :: r =>
      match v with
      | VTuple _ => []
      | VEmpty => []
      | _ => name ++ b "=" ++ env_scalar v ++ env_tuple_legacy r
      end
  end.

Definition env_is_scalar (v : val) : bool :=
  match v with VBool _ | VInt _ | VFloat _ | VStr _ => true | _ => false end.

(* repaired loop: non-scalar fields are skipped entirely, loop continues *)
Fixpoint env_tuple_fixed (flds : list (bytes * val)) : bytes :=
  match flds with
  | [] => []
  | (name, v) :: r =>
      (if env_is_scalar v then name ++ b "=" ++ env_scalar v else [])
      ++ env_tuple_fixed r
  end.

Definition env_emit (m : env_mode) (v : val) : bytes :=
  match v with
  | VTuple flds =>
      match m with Legacy => env_tuple_legacy flds | Fixed => env_tuple_fixed flds end
  | _ => env_scalar v
  end.

(** ** flags (src/convert/flags.rs) *)

(* [name.chars().count() > 1] on valid UTF-8: count the bytes that are not
   continuation bytes 10xxxxxx.  (Exact for valid UTF-8, which Rust strings are.) *)
Definition is_cont (c : ascii) : bool :=
  match c with Ascii _ _ _ _ _ _ false true => true | _ => false end.
Fixpoint drop_cont (s : bytes) : bytes :=
  match s with
  | [] => []
  | c :: s' => if is_cont c then drop_cont s' else c :: drop_cont s'
  end.
Definition more_than_one_char (s : bytes) : bool :=
  match drop_cont s with _ :: _ :: _ => true | _ => false end.
Definition has_char (s : bytes) : bool :=
  match drop_cont s with _ :: _ => true | _ => false end.

Definition flag_name (pfx name : bytes) : bytes :=
  if more_than_one_char name || has_char pfx
  then b "--" ++ pfx ++ name ++ b " "
  else b "-" ++ name ++ b " ".

Definition flag_simple (v : val) : bytes :=
  match v with
  | VEmpty => []
  | VBool x => bool_text x ++ b " "
  | VFloat f => fl_text f ++ b " "
  | VInt z => dec_of_Z z ++ b " "
  | VStr s => sq_quoted s ++ b " "
  | VList _ | VTuple _ | VEnv _ | VConstraint => []
  end.

Fixpoint flag_list (pfx name : bytes) (items : list val) : bytes :=
  match items with
  | [] => []
  | v :: r =>
      (if is_list v || is_tuple v then []
       else flag_name pfx name ++ flag_simple v)
      ++ flag_list pfx name r
  end.

Fixpoint flags_write (pfx : bytes) (flds : list (bytes * val)) : bytes :=
  match flds with
  | [] => []
  | (name, v) :: r =>
      (match v with
       | VEmpty => flag_name pfx name
       | VTuple _ | VEnv _ | VConstraint => []
       | VList def => flag_list pfx name def
       | VBool _ | VFloat _ | VInt _ | VStr _ => flag_name pfx name ++ flag_simple v
       end) ++ flags_write pfx r
  end.

(* None = Err("Flag outputs must be a tuple") *)
Definition flags_emit (v : val) : option bytes :=
  match v with
  | VTuple flds => Some (flags_write [] flds)
  | _ => None
  end.

(** ** exec (src/convert/exec.rs) *)

Record exec_parts := mk_exec_parts {
  ep_env : option (list (bytes * val));
  ep_cmd : option bytes;
  ep_args : option (list val) }.

(* the field loop; None = one of the Err returns inside the loop *)
Fixpoint exec_scan (flds : list (bytes * val)) (st : exec_parts) : option exec_parts :=
  match flds with
  | [] => Some st
  | (name, v) :: r =>
      if bytes_eqb name (b "command") then
        match ep_cmd st with
        | Some _ => None
        | None =>
            match v with
            | VStr s => exec_scan r (mk_exec_parts (ep_env st) (Some s) (ep_args st))
            | _ => None
            end
        end
      else if bytes_eqb name (b "env") then
        match v with
        | VTuple l =>
            match ep_env st with
            | Some _ => None
            | None => exec_scan r (mk_exec_parts (Some l) (ep_cmd st) (ep_args st))
            end
        | _ => None
        end
      else if bytes_eqb name (b "args") then
        match v with
        | VList l =>
            match ep_args st with
            | Some _ => None
            | None => exec_scan r (mk_exec_parts (ep_env st) (ep_cmd st) (Some l))
            end
        | _ => None
        end
      else exec_scan r st
  end.

Definition exec_header : bytes :=
  b "#!/usr/bin/env bash" ++ [nl] ++
  b "# Turn on unofficial Bash-Strict-Mode" ++ [nl] ++
  b "set -euo pipefail" ++ [nl].

Fixpoint exec_env_lines (env : list (bytes * val)) : option bytes :=
  match env with
  | [] => Some []
  | (name, VStr s) :: r =>
      match exec_env_lines r with
      | Some t => Some (name ++ b "=""" ++ esc_dq s ++ b """" ++ [nl] ++ t)
      | None => None
      end
  | _ :: _ => None
  end.

Fixpoint exec_args_text (args : list val) : option bytes :=
  match args with
  | [] => Some []
  | v :: r =>
      match (match v with
             | VStr s => Some (sq_quoted s ++ b " ")
             | VTuple flds => Some (flags_write [] flds)
             | _ => None
             end), exec_args_text r with
      | Some x, Some t => Some (x ++ t)
      | _, _ => None
      end
  end.

Definition opt_list {A} (o : option (list A)) : list A :=
  match o with Some l => l | None => [] end.

Definition exec_emit (v : val) : option bytes :=
  match v with
  | VTuple flds =>
      match flds with
      | _ :: _ :: _ :: _ :: _ => None            (* fields.len() > 3 *)
      | _ =>
        match exec_scan flds (mk_exec_parts None None None) with
        | None => None
        | Some st =>
            match ep_cmd st with
            | None => None
            | Some cmd =>
                match exec_env_lines (opt_list (ep_env st)),
                      exec_args_text (opt_list (ep_args st)) with
                | Some envt, Some argt =>
                    Some (exec_header ++ envt ++ [nl] ++
                          b "exec " ++ sq_quoted cmd ++ b " " ++ argt)
                | _, _ => None
                end
            end
        end
      end
  | _ => None
  end.

(* ------------------------------------------------------------------ *)
(** * 3. POSIX sh reader (token recognition + quote removal, §2.2/2.3)  *)

Definition in_range (lo hi : N) (c : ascii) : bool :=
  let n := code c in (N.leb lo n && N.leb n hi)%bool.
Definition is_digit (c : ascii) : bool := in_range 48 57 c.
Definition is_alpha (c : ascii) : bool := in_range 65 90 c || in_range 97 122 c.
Definition name_char (c : ascii) : bool := is_alpha c || is_digit c || Ascii.eqb c "_".
(* characters that are certainly literal in an unquoted word (whitelist) *)
Definition plain (c : ascii) : bool := name_char c || mem_ascii c (b "-./=:,+@%").

Inductive uclass := UBlank | UNl | USq | UDq | UBs | UPlain | USpecial.
Definition uclass_of (c : ascii) : uclass :=
  if Ascii.eqb c sp || Ascii.eqb c tab then UBlank
  else if Ascii.eqb c nl then UNl
  else if Ascii.eqb c "'" then USq
  else if Ascii.eqb c """" then UDq
  else if Ascii.eqb c "\" then UBs
  else if plain c then UPlain
  else USpecial.   (* $ ` * ? [ ] ~ # & ; | < > ( ) { } ! ^ controls, bytes >= 128, ... *)

Inductive dclass := DClose | DBs | DExp | DLit.
Definition dclass_of (c : ascii) : dclass :=
  if Ascii.eqb c """" then DClose
  else if Ascii.eqb c "\" then DBs
  else if Ascii.eqb c "$" || Ascii.eqb c "`" then DExp
  else DLit.
(* inside "..." a backslash escapes only these (plus newline = continuation) *)
Definition dq_escapable (c : ascii) : bool :=
  Ascii.eqb c "\" || Ascii.eqb c "$" || Ascii.eqb c "`" || Ascii.eqb c """".

Inductive sh_result :=
| Words (ws : list bytes)
| Expands (what : ascii)
| Unterminated.

(* scanner state: unquoted / '...' / "..." / after unquoted \ / after \ in "..." *)
Inductive mode := MU | MS | MD | MUB | MDB.

(* result for a suffix of the line: [cur] = rest of the word in progress
   (None: nothing more belongs to it), [ws] later words, [rest] = input after
   the command-terminating newline *)
Inductive gres :=
| GLine (cur : option bytes) (ws : list bytes) (rest : bytes)
| GExp (c : ascii)
| GUnterm.

Definition odflt (o : option bytes) : bytes := match o with Some w => w | None => [] end.
Definition ocons (o : option bytes) (ws : list bytes) : list bytes :=
  match o with Some w => w :: ws | None => ws end.

Definition push (c : ascii) (r : gres) : gres :=
  match r with GLine cur ws rest => GLine (Some (c :: odflt cur)) ws rest | e => e end.
Definition touch (r : gres) : gres :=
  match r with GLine cur ws rest => GLine (Some (odflt cur)) ws rest | e => e end.
Definition brk (r : gres) : gres :=
  match r with GLine cur ws rest => GLine None (ocons cur ws) rest | e => e end.

Fixpoint sh_go (m : mode) (s : bytes) : gres :=
  match s with
  | [] => match m with MU => GLine None [] [] | _ => GUnterm end
  | c :: s' =>
      match m with
      | MU =>
          match uclass_of c with
          | UBlank => brk (sh_go MU s')
          | UNl => GLine None [] s'
          | USq => touch (sh_go MS s')
          | UDq => touch (sh_go MD s')
          | UBs => sh_go MUB s'
          | UPlain => push c (sh_go MU s')
          | USpecial => GExp c
          end
      | MS => if Ascii.eqb c "'" then sh_go MU s' else push c (sh_go MS s')
      | MD =>
          match dclass_of c with
          | DClose => sh_go MU s'
          | DBs => sh_go MDB s'
          | DExp => GExp c
          | DLit => push c (sh_go MD s')
          end
      | MUB => if Ascii.eqb c nl then sh_go MU s' else push c (sh_go MU s')
      | MDB =>
          if dq_escapable c then push c (sh_go MD s')
          else if Ascii.eqb c nl then sh_go MD s'
          else push "\" (push c (sh_go MD s'))
      end
  end.

(* one command line: its words and the unread input after its newline *)
Inductive line_result :=
| Line (ws : list bytes) (rest : bytes)
| LExpands (c : ascii)
| LUnterminated.

Definition sh_line (s : bytes) : line_result :=
  match sh_go MU s with
  | GLine cur ws rest => Line (ocons cur ws) rest
  | GExp c => LExpands c
  | GUnterm => LUnterminated
  end.

(* words of the FIRST command line of [s] (input after its newline is not read) *)
Definition sh_words (s : bytes) : sh_result :=
  match sh_line s with
  | Line ws _ => Words ws
  | LExpands c => Expands c
  | LUnterminated => Unterminated
  end.

(** ** scripts *)

Fixpoint skip_blanks (s : bytes) : bytes :=
  match s with
  | c :: s' => if Ascii.eqb c sp || Ascii.eqb c tab then skip_blanks s' else s
  | [] => []
  end.
Fixpoint skip_line (s : bytes) : bytes :=
  match s with
  | c :: s' => if Ascii.eqb c nl then s' else skip_line s'
  | [] => []
  end.

(* assignment prefix at RAW level: NAME= with NAME unquoted [A-Za-z_][A-Za-z0-9_]* *)
Fixpoint take_name (s : bytes) : bytes * bytes :=
  match s with
  | c :: s' => if name_char c then let (n, r) := take_name s' in (c :: n, r) else ([], s)
  | [] => ([], [])
  end.
Definition raw_name (s : bytes) : option bytes :=
  let (n, r) := take_name (skip_blanks s) in
  match n, r with
  | c :: _, e :: _ => if negb (is_digit c) && Ascii.eqb e "=" then Some n else None
  | _, _ => None
  end.

Definition name_ok (n : bytes) : bool :=
  match n with
  | c :: _ => negb (is_digit c) && forallb name_char n
  | [] => false
  end.

Inductive sh_item :=
| Assign (name value : bytes)        (* a command consisting of exactly NAME=value *)
| Cmd (ws : list bytes).             (* any other simple command, >= 1 word *)

Definition classify (raw : bytes) (ws : list bytes) : sh_item :=
  match raw_name raw, ws with
  | Some n, [w] =>
      match strip_prefix (n ++ b "=") w with
      | Some v => Assign n v
      | None => Cmd ws
      end
  | _, _ => Cmd ws
  end.

Definition starts_comment (s : bytes) : option bytes :=
  match skip_blanks s with
  | c :: s' => if Ascii.eqb c "#" then Some s' else None
  | [] => None
  end.

(* None = some command expands something / is unterminated (or fuel ran out:
   never for fuel > length s, see sh_items_fuel_enough) *)
Fixpoint sh_items_fuel (fuel : nat) (s : bytes) : option (list sh_item) :=
  match fuel with
  | O => None
  | S f =>
      match s with
      | [] => Some []
      | _ :: _ =>
          match starts_comment s with
          | Some s' => sh_items_fuel f (skip_line s')
          | None =>
              match sh_line s with
              | Line [] rest => sh_items_fuel f rest
              | Line ws rest =>
                  match sh_items_fuel f rest with
                  | Some l => Some (classify s ws :: l)
                  | None => None
                  end
              | _ => None
              end
          end
      end
  end.
Definition sh_items (s : bytes) : option (list sh_item) := sh_items_fuel (S (List.length s)) s.

Definition item_words (i : sh_item) : list bytes :=
  match i with Assign n v => [n ++ b "=" ++ v] | Cmd ws => ws end.
(* the commands of a script as word lists; comments and empty lines dropped *)
Definition sh_script (s : bytes) : option (list (list bytes)) :=
  match sh_items s with Some l => Some (map item_words l) | None => None end.

(* post-quote-removal recogniser on a single word (coarser than [classify]:
   it cannot see whether NAME= was quoted) *)
Definition sh_assign (w : bytes) : option (bytes * bytes) :=
  let (n, r) := take_name w in
  match n, r with
  | c :: _, e :: v => if negb (is_digit c) && Ascii.eqb e "=" then Some (n, v) else None
  | _, _ => None
  end.

(* a script consisting only of assignments *)
Fixpoint items_assigns (l : list sh_item) : option (list (bytes * bytes)) :=
  match l with
  | [] => Some []
  | Assign n v :: r =>
      match items_assigns r with Some t => Some ((n, v) :: t) | None => None end
  | Cmd _ :: _ => None
  end.
Definition sh_env (s : bytes) : option (list (bytes * bytes)) :=
  match sh_items s with Some l => items_assigns l | None => None end.

(* ------------------------------------------------------------------ *)
(** * 4. Specifications the theorems compare against                   *)

Definition scalar_text (v : val) : option bytes :=
  match v with
  | VBool x => Some (bool_text x)
  | VInt z => Some (dec_of_Z z)
  | VFloat f => Some (fl_text f)
  | VStr s => Some s
  | _ => None
  end.

Fixpoint scalar_fields (flds : list (bytes * val)) : list (bytes * bytes) :=
  match flds with
  | [] => []
  | (n, v) :: r =>
      match scalar_text v with
      | Some t => (n, t) :: scalar_fields r
      | None => scalar_fields r
      end
  end.

Definition plain_word (w : bytes) : bool :=
  match w with [] => false | _ => forallb plain w end.

Definition fl_ok (v : val) : bool :=
  match v with VFloat f => plain_word (fl_text f) | _ => true end.

(* env: names of emitted (scalar) fields are shell identifiers; float texts plain *)
Definition env_fields_ok (flds : list (bytes * val)) : bool :=
  forallb (fun p => if env_is_scalar (snd p) then name_ok (fst p) && fl_ok (snd p) else true) flds.

Definition flag_word (pfx name : bytes) : bytes :=
  if more_than_one_char name || has_char pfx then b "--" ++ pfx ++ name else b "-" ++ name.

Definition simple_words (v : val) : list bytes :=
  match scalar_text v with Some t => [t] | None => [] end.

Definition flag_list_spec (pfx name : bytes) (items : list val) : list bytes :=
  flat_map (fun v => if is_list v || is_tuple v then []
                     else flag_word pfx name :: simple_words v) items.

Definition flag_field_spec (pfx : bytes) (p : bytes * val) : list bytes :=
  match snd p with
  | VEmpty => [flag_word pfx (fst p)]
  | VTuple _ | VEnv _ | VConstraint => []
  | VList def => flag_list_spec pfx (fst p) def
  | v => flag_word pfx (fst p) :: simple_words v
  end.
Definition flags_spec_pfx (pfx : bytes) (flds : list (bytes * val)) : list bytes :=
  flat_map (flag_field_spec pfx) flds.
Definition flags_spec := flags_spec_pfx [].

(* flags: names of emitted fields consist of plain characters; float texts plain *)
Definition flag_field_ok (p : bytes * val) : bool :=
  match snd p with
  | VTuple _ | VEnv _ | VConstraint => true
  | VList def => forallb plain (fst p) && forallb fl_ok def
  | v => forallb plain (fst p) && fl_ok v
  end.
Definition flags_ok (flds : list (bytes * val)) : bool := forallb flag_field_ok flds.

(* exec *)
Fixpoint exec_env_spec (env : list (bytes * val)) : option (list (bytes * bytes)) :=
  match env with
  | [] => Some []
  | (n, VStr s) :: r =>
      match exec_env_spec r with Some t => Some ((n, s) :: t) | None => None end
  | _ :: _ => None
  end.
Fixpoint exec_args_spec (args : list val) : option (list bytes) :=
  match args with
  | [] => Some []
  | v :: r =>
      match (match v with
             | VStr s => Some [s]
             | VTuple flds => Some (flags_spec flds)
             | _ => None
             end), exec_args_spec r with
      | Some x, Some t => Some (x ++ t)
      | _, _ => None
      end
  end.
Definition exec_arg_ok (v : val) : bool :=
  match v with VTuple flds => flags_ok flds | _ => true end.
Definition exec_ok (st : exec_parts) : bool :=
  forallb (fun p => name_ok (fst p)) (opt_list (ep_env st)) &&
  forallb exec_arg_ok (opt_list (ep_args st)).
