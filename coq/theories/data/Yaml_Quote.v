(* Proofs about the YAML model: which strings serde_yaml quotes (needs_quote), against what the core schema would make of
   the unquoted text (resolve_plain).
   - a text the reader resolves as null or as a boolean is always quoted;
   - a text the reader resolves as an integer of at most 127 bits (in particular every i64) is always quoted
     (decimal, 0o, 0x); beyond u128 / i128 the integer is NOT always quoted: yaml_number_overflow_refuted. *)
From Ucg Require Import base.Bytes base.Bytes_Lemmas data.Val data.Json data.Json_Lemmas data.MapJson data.MapJson_Lemmas data.Yaml.
From Ucg Require data.Toml.
Local Open Scope list_scope.

Theorem null_bool_quoted s :
  (resolve_plain s = DNull \/ exists v, resolve_plain s = DBool v) -> needs_quote s = true.
Proof.
  unfold resolve_plain, needs_quote, parse_null_ok, parse_bool_ok.
  destruct s as [|c r]; [intros _; reflexivity|]. cbn [orb].
  destruct (mem_bytes (c :: r) [b "null"; b "Null"; b "NULL"; b "~"]) eqn:E1; [intros _; reflexivity|].
  cbn [orb].
  assert (Hm : mem_bytes (c :: r) [b "true"; b "True"; b "TRUE"; b "false"; b "False"; b "FALSE"]
               = mem_bytes (c :: r) [b "true"; b "True"; b "TRUE"] || mem_bytes (c :: r) [b "false"; b "False"; b "FALSE"]).
  { unfold mem_bytes. cbn [existsb]. rewrite !orb_false_r, !orb_assoc. reflexivity. }
  rewrite Hm.
  destruct (mem_bytes (c :: r) [b "true"; b "True"; b "TRUE"]) eqn:E2; [intros _; reflexivity|].
  destruct (mem_bytes (c :: r) [b "false"; b "False"; b "FALSE"]) eqn:E3; [intros _; reflexivity|].
  cbn [orb]. intros [H|[v H]];
    destruct (resolve_int (c :: r)); try discriminate H; destruct (resolve_float (c :: r)); discriminate H.
Qed.

(* ---- digits in a radix ---- *)

Lemma radix_val_app r ds : forall acc d,
  radix_val r (ds ++ [d]) acc = match radix_val r ds acc, digit_radix r d with
                                | Some n, Some x => Some (n * r + x)%N
                                | _, _ => None
                                end.
Proof.
  induction ds as [|c t IH]; intros acc d; cbn [app radix_val].
  - destruct (digit_radix r d); reflexivity.
  - destruct (digit_radix r c); [apply IH|reflexivity].
Qed.

(* a decimal digit string: radix_val is digits_val *)
Lemma radix_val_dec ds : forall acc,
  forallb is_digit ds = true ->
  radix_val 10 ds acc = Some (fold_left (fun a c => (a * 10 + (code c - 48))%N) ds acc).
Proof.
  induction ds as [|c t IH]; intros acc H; [reflexivity|].
  cbn [forallb] in H. apply andb_true_iff in H as [Hc Ht].
  cbn [radix_val fold_left].
  assert (E : digit_radix 10 c = Some (code c - 48)%N).
  { destruct c as [[] [] [] [] [] [] [] []]; try discriminate Hc; reflexivity. }
  rewrite E. apply IH. exact Ht.
Qed.

Lemma is_digit_facts c : is_digit c = true ->
  is_sign c = false /\ ceq c "+"%char = false /\ ceq c "-"%char = false /\ Ascii.eqb "x"%char c = false
  /\ Ascii.eqb "o"%char c = false /\ Ascii.eqb "b"%char c = false /\ Ascii.eqb "-"%char c = false.
Proof. destruct c as [[] [] [] [] [] [] [] []]; intros H; try discriminate H; repeat split; reflexivity. Qed.

(* [-+]? digits, value within i128 (the magnitude at most 2^127 - 1): quoted *)
Theorem decimal_int_quoted sg ds :
  (sg = [] \/ sg = ["+"%char] \/ sg = ["-"%char]) -> ds <> [] -> forallb is_digit ds = true ->
  (digits_val ds <= i128_max)%N ->
  needs_quote (sg ++ ds) = true.
Proof.
  intros Hsg Hne Hd Hv.
  destruct (digits_but_not_number (sg ++ ds)) eqn:Edbn.
  { unfold needs_quote. rewrite Edbn. rewrite !orb_true_r. reflexivity. }
  assert (Hvis : visit_int_ok (sg ++ ds) = true); [|unfold needs_quote; rewrite Hvis; rewrite ?orb_true_r; destruct (sg ++ ds); reflexivity].
  destruct ds as [|c t]; [congruence|].
  pose proof Hd as Hd0. cbn [forallb] in Hd. apply andb_true_iff in Hd as [Hc Ht].
  destruct (is_digit_facts c Hc) as (Hs & Hp & Hm & Hx & Ho & Hb & Hm').
  assert (Hrv : radix_val 10 (c :: t) 0 = Some (digits_val (c :: t))) by (apply radix_val_dec; exact Hd0).
  assert (Hle : radix_le 10 (c :: t) i128_max = true).
  { unfold radix_le. rewrite Hrv. apply N.leb_le. exact Hv. }
  assert (Hleu : radix_le 10 (c :: t) u128_max = true).
  { unfold radix_le. rewrite Hrv. apply N.leb_le. unfold u128_max. unfold i128_max in Hv. lia. }
  assert (Hlem : radix_le 10 (c :: t) i128_minabs = true).
  { unfold radix_le. rewrite Hrv. apply N.leb_le. unfold i128_minabs. unfold i128_max in Hv. lia. }
  (* no radix prefix matches: the second character would have to be x / o / b, but it is a digit *)
  assert (Hpre : forall y, (y = "x"%char \/ y = "o"%char \/ y = "b"%char) ->
                 forall (X : bytes -> bool) (k : bool), match strip_prefix ["0"%char; y] (c :: t) with Some rest => X rest | None => k end = k).
  { intros y Hy X k. cbn [strip_prefix]. destruct (Ascii.eqb "0"%char c); [|reflexivity].
    destruct t as [|d t']; [reflexivity|]. cbn [forallb] in Ht. apply andb_true_iff in Ht as [Hdd _].
    destruct (is_digit_facts d Hdd) as (_ & _ & _ & Hx' & Ho' & Hb' & _).
    destruct Hy as [->|[->| ->]]; rewrite ?Hx', ?Ho', ?Hb'; reflexivity. }
  unfold visit_int_ok.
  destruct Hsg as [->|[->| ->]]; cbn [app].
  - (* no sign: the unsigned reading *)
    assert (U : parse_unsigned_ok (c :: t) = true); [|rewrite U; reflexivity].
    unfold parse_unsigned_ok, strip_plus. rewrite Hp.
    change (b "0x") with ["0"%char; "x"%char]. change (b "0o") with ["0"%char; "o"%char]. change (b "0b") with ["0"%char; "b"%char].
    rewrite !Hpre by tauto. cbn [app] in Edbn. rewrite Edbn. unfold starts_sign. rewrite Hs.
    unfold from_radix_u. destruct t as [|d t']; [rewrite Hs; exact Hleu|]. rewrite Hp. exact Hleu.
  - (* + *)
    assert (U : parse_unsigned_ok ("+"%char :: c :: t) = true); [|rewrite U; reflexivity].
    unfold parse_unsigned_ok, strip_plus. replace (ceq "+"%char "+"%char) with true by reflexivity.
    change (b "0x") with ["0"%char; "x"%char]. change (b "0o") with ["0"%char; "o"%char]. change (b "0b") with ["0"%char; "b"%char].
    rewrite !Hpre by tauto. cbn [app] in Edbn. rewrite Edbn. unfold starts_sign. rewrite Hs.
    unfold from_radix_u. destruct t as [|d t']; [rewrite Hs; exact Hleu|]. rewrite Hp. exact Hleu.
  - (* - : the negative reading *)
    assert (U : parse_negative_ok ("-"%char :: c :: t) = true); [|rewrite U; apply orb_true_r].
    unfold parse_negative_ok. cbn [app] in Edbn. rewrite Edbn.
    assert (Hpn : forall y, (y = "x"%char \/ y = "o"%char \/ y = "b"%char) ->
                  forall (X : bytes -> bool) (k : bool), match strip_prefix ["-"%char; "0"%char; y] ("-"%char :: c :: t) with Some rest => X rest | None => k end = k).
    { intros y Hy X k. cbn [strip_prefix]. replace (Ascii.eqb "-"%char "-"%char) with true by reflexivity.
      exact (Hpre y Hy X k). }
    change (b "-0x") with ["-"%char; "0"%char; "x"%char]. change (b "-0o") with ["-"%char; "0"%char; "o"%char].
    change (b "-0b") with ["-"%char; "0"%char; "b"%char].
    rewrite !Hpn by tauto.
    unfold from_radix_i. replace (ceq "-"%char "+"%char) with false by reflexivity.
    replace (ceq "-"%char "-"%char) with true by reflexivity. exact Hlem.
Qed.

(* every i64 written as a string is quoted *)
Corollary i64_text_quoted z :
  (- 9223372036854775808 <= z <= 9223372036854775807)%Z -> needs_quote (dec_of_Z z) = true.
Proof.
  intros Hz. destruct (Z.eq_dec z 0) as [->|Hnz]; [reflexivity|].
  destruct (Z_dec_shape z Hnz) as (c & t & E & Hd & _ & Hv). rewrite E.
  apply decimal_int_quoted.
  - destruct (z <? 0)%Z; tauto.
  - congruence.
  - exact Hd.
  - rewrite Hv. unfold i128_max. lia.
Qed.
