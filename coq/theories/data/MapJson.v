(* MODEL: the mappings between converter values ([val]) and JSON trees.
   [to_json]   mirrors JsonConverter::convert_value  (src/convert/json.rs:35-100)
   [from_json] mirrors JsonConverter::convert_json_val (src/convert/json.rs:102-129)
               together with serde_json's number classification
               (de.rs parse_integer/parse_number, number.rs as_i64) and its
               BTreeMap-backed Map.
   Executable definitions only; proofs are in MapJson_Lemmas.v. *)
From Ucg Require Import base.Bytes data.Val data.Json.
From Coq Require Import QArith.
Close Scope Q_scope.

(* ------------------------------------------------------------------ *)
(* Three-valued outcome of the output conversion                       *)

Inductive res (A : Type) :=
| Ok (a : A)       (* Rust returns Ok and the model claims to know the value *)
| Err              (* Rust returns Err(..)                                    *)
| Unsupported.     (* Rust returns Ok but the model does not describe the text
                      (float rounding of big ints; malformed float token)     *)
Arguments Ok {A} a.
Arguments Err {A}.
Arguments Unsupported {A}.

Definition res_map {A B} (f : A -> B) (r : res A) : res B :=
  match r with Ok a => Ok (f a) | Err => Err | Unsupported => Unsupported end.

(* Err anywhere dominates: Rust's `?` aborts on the first Err, and an
   Unsupported sibling is a value Rust converts successfully. *)
Definition res_cons {A} (r : res A) (rs : res (list A)) : res (list A) :=
  match r, rs with
  | Err, _ | _, Err => Err
  | Unsupported, _ | _, Unsupported => Unsupported
  | Ok a, Ok l => Ok (a :: l)
  end.

(* ------------------------------------------------------------------ *)
(* BTreeMap<String, _> as a key-sorted association list                *)

(* Ord for str/String: byte-wise lexicographic *)
Fixpoint bytes_cmp (x y : bytes) : comparison :=
  match x, y with
  | [], [] => Eq
  | [], _ :: _ => Lt
  | _ :: _, [] => Gt
  | c :: x', d :: y' =>
    match N.compare (code c) (code d) with
    | Eq => bytes_cmp x' y'
    | r => r
    end
  end.

Definition bytes_ltb (x y : bytes) : bool :=
  match bytes_cmp x y with Lt => true | _ => false end.

Section SMap.
  Context {V : Type}.

  (* mp.entry(k).or_insert(v): an existing binding is kept *)
  Fixpoint ins_first (k : bytes) (v : V) (m : list (bytes * V)) : list (bytes * V) :=
    match m with
    | [] => [(k, v)]
    | (k', v') :: m' =>
      match bytes_cmp k k' with
      | Lt => (k, v) :: m
      | Eq => m
      | Gt => (k', v') :: ins_first k v m'
      end
    end.

  (* map.insert(k, v): an existing binding is replaced *)
  Fixpoint ins_last (k : bytes) (v : V) (m : list (bytes * V)) : list (bytes * V) :=
    match m with
    | [] => [(k, v)]
    | (k', v') :: m' =>
      match bytes_cmp k k' with
      | Lt => (k, v) :: m
      | Eq => (k, v) :: m'
      | Gt => (k', v') :: ins_last k v m'
      end
    end.

  Definition map_first (l : list (bytes * V)) : list (bytes * V) :=
    fold_left (fun m kv => ins_first (fst kv) (snd kv) m) l [].

  Definition map_last (l : list (bytes * V)) : list (bytes * V) :=
    fold_left (fun m kv => ins_last (fst kv) (snd kv) m) l [].

  (* first binding of k *)
  Fixpoint lookup (k : bytes) (m : list (bytes * V)) : option V :=
    match m with
    | [] => None
    | (k', v) :: m' => if bytes_eqb k k' then Some v else lookup k m'
    end.

  (* last binding of k *)
  Fixpoint lookup_last (k : bytes) (m : list (bytes * V)) : option V :=
    match m with
    | [] => None
    | (k', v) :: m' =>
      match lookup_last k m' with
      | Some w => Some w
      | None => if bytes_eqb k k' then Some v else None
      end
    end.

  (* ---- specification-side functions (used by val_of_json_spec) ---- *)

  (* drop every pair whose key occurs again later *)
  Fixpoint keep_last (l : list (bytes * V)) : list (bytes * V) :=
    match l with
    | [] => []
    | (k, v) :: r =>
      if existsb (fun kv => bytes_eqb k (fst kv)) r then keep_last r
      else (k, v) :: keep_last r
    end.

  Fixpoint insert_sorted (kv : bytes * V) (l : list (bytes * V)) : list (bytes * V) :=
    match l with
    | [] => [kv]
    | kv' :: r =>
      if bytes_ltb (fst kv') (fst kv) then kv' :: insert_sorted kv r else kv :: l
    end.

  (* insertion sort by key *)
  Definition sort_keys (l : list (bytes * V)) : list (bytes * V) :=
    fold_right insert_sorted [] l.
End SMap.

(* ------------------------------------------------------------------ *)
(* to_json : convert_value                                             *)

Definition two53 : Z := 9007199254740992.

Definition has_dot_or_e (t : bytes) : bool :=
  existsb (fun c => ceq c "."%char || ceq c "e"%char) t.

Fixpoint to_json (v : val) : res json :=
  match v with
  | VEmpty => Ok JNull
  | VBool x => Ok (JBool x)
  | VInt z =>
    (* `i as f64` is exact for |i| <= 2^53 and serde_json prints such an
       integral float in fixed notation with a trailing ".0" *)
    if (Z.abs z <=? two53)%Z then Ok (JNum (Val.dec_of_Z z ++ b ".0")) else Unsupported
  | VFloat (FFin t) =>
    if num_lit_ok t && has_dot_or_e t then Ok (JNum t) else Unsupported
  | VFloat _ => Err                                 (* Number::from_f64 = None *)
  | VStr s => Ok (JStr s)
  | VList l =>
    res_map JArr
      ((fix go (l : list val) : res (list json) :=
          match l with
          | [] => Ok []
          | x :: xs => res_cons (to_json x) (go xs)
          end) l)
  | VTuple fs =>
    res_map (fun kvs => JObj (map_first kvs))
      ((fix go (l : list (bytes * val)) : res (list (bytes * json)) :=
          match l with
          | [] => Ok []
          | (k, x) :: r => res_cons (res_map (pair k) (to_json x)) (go r)
          end) fs)
  | VEnv fs => Ok (JObj (map_first (map (fun kv => (fst kv, JStr (snd kv))) fs)))
  | VConstraint => Err
  end.

(* what the converter writes: None = Err / not modelled *)
Definition json_output (v : val) : res bytes := res_map json_print (to_json v).

(* a non-finite float or a constraint anywhere (also under a shadowed
   duplicate tuple key: Rust converts the value before `or_insert`) *)
Fixpoint unrepresentable_json (v : val) : bool :=
  match v with
  | VFloat (FFin _) => false
  | VFloat _ => true
  | VConstraint => true
  | VList l => existsb unrepresentable_json l
  | VTuple fs => existsb (fun kv => unrepresentable_json (snd kv)) fs
  | _ => false
  end.

(* ------------------------------------------------------------------ *)
(* Numeric value of a literal                                          *)

Definition digits_val (ds : bytes) : N :=
  fold_left (fun a c => (a * 10 + (code c - 48))%N) ds 0%N.

(* (mantissa, exponent): the literal denotes mantissa * 10^exponent *)
Definition num_value (lit : bytes) : option (Z * Z) :=
  match num_split lit with
  | None => None
  | Some p =>
    let m := Z.of_N (digits_val (np_int p ++ np_frac p)) in
    let e := Z.of_N (digits_val (np_exp p)) in
    Some (if np_neg p then (- m)%Z else m,
          ((if np_eneg p then (- e)%Z else e) - Z.of_nat (List.length (np_frac p)))%Z)
  end.

(* the rational m * 10^e (not reduced) *)
Definition num_q (me : Z * Z) : Q :=
  let (m, e) := me in
  if (0 <=? e)%Z then inject_Z (m * 10 ^ e) else Qmake m (Z.to_pos (10 ^ (- e))).

(* ------------------------------------------------------------------ *)
(* Abstract content shared by values and JSON trees                    *)

Inductive aval :=
| ANull
| ABool (v : bool)
| ANum (q : Q)                 (* always stored reduced (Qred) *)
| AStr (s : bytes)
| AList (l : list aval)
| AMap (kvs : list (bytes * aval))   (* strictly key-sorted association list *)
| AUnrep.                      (* no JSON counterpart *)

Fixpoint json_abs (j : json) : option aval :=
  match j with
  | JNull => Some ANull
  | JBool v => Some (ABool v)
  | JNum lit =>
    match num_value lit with
    | Some me => Some (ANum (Qred (num_q me)))
    | None => None
    end
  | JStr s => Some (AStr s)
  | JArr l =>
    option_map AList
      ((fix go (l : list json) : option (list aval) :=
          match l with
          | [] => Some []
          | x :: xs =>
            match json_abs x, go xs with
            | Some a, Some r => Some (a :: r)
            | _, _ => None
            end
          end) l)
  | JObj kvs =>
    option_map AMap
      ((fix go (l : list (bytes * json)) : option (list (bytes * aval)) :=
          match l with
          | [] => Some []
          | (k, x) :: xs =>
            match json_abs x, go xs with
            | Some a, Some r => Some ((k, a) :: r)
            | _, _ => None
            end
          end) kvs)
  end.

Fixpoint canon (v : val) : aval :=
  match v with
  | VEmpty => ANull
  | VBool x => ABool x
  | VInt z => ANum (Qred (inject_Z z))
  | VFloat (FFin t) =>
    match num_value t with
    | Some me => ANum (Qred (num_q me))
    | None => AUnrep
    end
  | VFloat _ => AUnrep
  | VStr s => AStr s
  | VList l => AList (map canon l)
  | VTuple fs => AMap (map_first (map (fun kv => (fst kv, canon (snd kv))) fs))
  | VEnv fs => AMap (map_first (map (fun kv => (fst kv, AStr (snd kv))) fs))
  | VConstraint => AUnrep
  end.

(* ------------------------------------------------------------------ *)
(* from_json : serde_json::from_slice ; convert_json_val               *)

Definition u64_max : N := 18446744073709551615.
Definition i64_max : Z := 9223372036854775807.
Definition i64_min : Z := -9223372036854775808.

(* de.rs parse_integer: accumulate in u64, None on overflow (-> f64 path) *)
Fixpoint acc_u64 (ds : bytes) (a : N) : option N :=
  match ds with
  | [] => Some a
  | c :: r =>
    let a' := (a * 10 + (code c - 48))%N in
    if (u64_max <? a')%N then None else acc_u64 r a'
  end.

Definition classify_num (lit : bytes) : val :=
  match num_split lit with
  | None => VFloat (FFin lit)
  | Some p =>
    match np_frac p, np_exp p with
    | [], [] =>
      match acc_u64 (np_int p) 0%N with
      | None => VFloat (FFin lit)                    (* parse_long_integer *)
      | Some s =>
        if np_neg p then
          (* let neg = (significand as i64).wrapping_neg();
             if neg >= 0 { F64 } else { I64(neg) }           *)
          let as_i64 := if (s <? 2 ^ 63)%N then Z.of_N s else (Z.of_N s - 2 ^ 64)%Z in
          let neg := if (as_i64 =? i64_min)%Z then as_i64 else (- as_i64)%Z in
          if (0 <=? neg)%Z then VFloat (FFin lit) else VInt neg
        else
          (* ParserNumber::U64(s); Number::as_i64: s <= i64::MAX *)
          if (Z.of_N s <=? i64_max)%Z then VInt (Z.of_N s) else VFloat (FFin lit)
      end
    | _, _ => VFloat (FFin lit)                      (* has "." or exponent *)
    end
  end.

(* In the result a float is [VFloat (FFin lit)] where [lit] is the JSON
   literal text (to be compared numerically by the harness). *)
Fixpoint from_json (j : json) : val :=
  match j with
  | JNull => VEmpty
  | JBool v => VBool v
  | JNum lit => classify_num lit
  | JStr s => VStr s
  | JArr l => VList (map from_json l)
  | JObj kvs => VTuple (map_last (map (fun kv => (fst kv, from_json (snd kv))) kvs))
  end.

Definition json_input (s : bytes) : option val := option_map from_json (json_parse s).

(* ---- the specification from_json is compared with ---- *)

Definition spec_num (lit : bytes) : val :=
  match num_split lit, num_value lit with
  | Some p, Some (m, _) =>
    let integral := match np_frac p, np_exp p with [], [] => true | _, _ => false end in
    if integral && (i64_min <=? m)%Z && (m <=? i64_max)%Z
       && negb (np_neg p && (m =? 0)%Z)               (* "-0" is the float -0.0 *)
    then VInt m else VFloat (FFin lit)
  | _, _ => VFloat (FFin lit)
  end.

Fixpoint val_of_json_spec (j : json) : val :=
  match j with
  | JNull => VEmpty
  | JBool v => VBool v
  | JNum lit => spec_num lit
  | JStr s => VStr s
  | JArr l => VList (map val_of_json_spec l)
  | JObj kvs =>
    VTuple (sort_keys (keep_last (map (fun kv => (fst kv, val_of_json_spec (snd kv))) kvs)))
  end.
