(* MODEL: JSON trees, the serde_json 1.0.149 pretty printer, and an independent
   RFC 8259 parser.  Executable definitions only; proofs are in Json_Lemmas.v.

   Sources mirrored by [json_print]:
     serde_json-1.0.149/src/ser.rs  PrettyFormatter (indent = two spaces),
     format_escaped_str / ESCAPE table / write_char_escape.
   [json_parse] is NOT a transcription of serde_json's reader: it is a plain
   RFC 8259 recursive-descent parser over bytes. *)
From Ucg Require Import base.Bytes.

Inductive json :=
| JNull
| JBool (v : bool)
| JNum (lit : bytes)            (* the literal text, RFC 8259 number grammar *)
| JStr (s : bytes)              (* raw bytes of the string (UTF-8 untouched)  *)
| JArr (l : list json)
| JObj (kvs : list (bytes * json)).

(* ------------------------------------------------------------------ *)
(* Characters                                                          *)

Definition ceq (c d : ascii) : bool := Ascii.eqb c d.

Definition dq  : ascii := """"%char.   (* 0x22 *)
Definition bsl : ascii := "\"%char.    (* 0x5c *)

Definition is_ws (c : ascii) : bool :=
  ceq c sp || ceq c tab || ceq c nl || ceq c cr.

Definition is_digit (c : ascii) : bool :=
  let n := code c in (48 <=? n)%N && (n <=? 57)%N.

(* characters that can occur inside a number token *)
Definition num_char (c : ascii) : bool :=
  is_digit c || ceq c "."%char || ceq c "e"%char || ceq c "E"%char
  || ceq c "+"%char || ceq c "-"%char.

(* ------------------------------------------------------------------ *)
(* Number grammar (RFC 8259 section 6)                                 *)
(*   number = [ "-" ] int [ "." 1*DIGIT ] [ ("e"/"E") ["+"/"-"] 1*DIGIT ]
     int    = "0" / ( %x31-39 *DIGIT )                                  *)

Fixpoint span_digits (s : bytes) : bytes * bytes :=
  match s with
  | c :: s' =>
    if is_digit c then let (d, r) := span_digits s' in (c :: d, r) else ([], s)
  | [] => ([], [])
  end.

Definition scan_sign (s : bytes) : bool * bytes :=
  match s with
  | c :: t => if ceq c "-"%char then (true, t) else (false, s)
  | [] => (false, s)
  end.

Definition scan_int (s : bytes) : option (bytes * bytes) :=
  match s with
  | c :: s' =>
    if ceq c "0"%char then Some ([c], s')
    else if is_digit c then let (d, r) := span_digits s' in Some (c :: d, r)
    else None
  | [] => None
  end.

(* optional fraction: returns the fraction digits ([] = no fraction part) *)
Definition scan_frac (s : bytes) : option (bytes * bytes) :=
  match s with
  | c :: s' =>
    if ceq c "."%char then
      match span_digits s' with
      | ([], _) => None
      | (d, r) => Some (d, r)
      end
    else Some ([], s)
  | [] => Some ([], [])
  end.

(* optional exponent: (negative?, digits); digits = [] means no exponent part *)
Definition scan_exp (s : bytes) : option (bool * bytes * bytes) :=
  match s with
  | c :: s' =>
    if ceq c "e"%char || ceq c "E"%char then
      let '(neg, s'') :=
        match s' with
        | c2 :: t => if ceq c2 "-"%char then (true, t)
                     else if ceq c2 "+"%char then (false, t) else (false, s')
        | [] => (false, s')
        end in
      match span_digits s'' with
      | ([], _) => None
      | (d, r) => Some (neg, d, r)
      end
    else Some (false, [], s)
  | [] => Some (false, [], [])
  end.

Record num_parts := mk_num_parts {
  np_neg  : bool;    (* leading minus *)
  np_int  : bytes;   (* integer digits, non-empty *)
  np_frac : bytes;   (* fraction digits, [] = no "." part *)
  np_eneg : bool;    (* exponent sign *)
  np_exp  : bytes    (* exponent digits, [] = no exponent part *)
}.

(* split a complete literal; None if it is not exactly one RFC number *)
Definition num_split (lit : bytes) : option num_parts :=
  let (neg, s1) := scan_sign lit in
  match scan_int s1 with
  | None => None
  | Some (i, s2) =>
    match scan_frac s2 with
    | None => None
    | Some (f, s3) =>
      match scan_exp s3 with
      | Some (eneg, e, []) => Some (mk_num_parts neg i f eneg e)
      | _ => None
      end
    end
  end.

Definition num_lit_ok (lit : bytes) : bool :=
  forallb num_char lit && match num_split lit with Some _ => true | None => false end.

(* ------------------------------------------------------------------ *)
(* Well-formedness of a tree: every number literal is an RFC number    *)

Fixpoint json_wf (j : json) : bool :=
  match j with
  | JNull | JBool _ | JStr _ => true
  | JNum lit => num_lit_ok lit
  | JArr l => forallb json_wf l
  | JObj kvs => forallb (fun kv => json_wf (snd kv)) kvs
  end.

(* ------------------------------------------------------------------ *)
(* Printer: serde_json::to_writer_pretty                               *)

Definition hex_digit (n : N) : ascii :=          (* HEX_DIGITS = "0123456789abcdef" *)
  if (n <? 10)%N then ascii_of_N (48 + n) else ascii_of_N (87 + n).

(* ESCAPE table + write_char_escape *)
Definition escape_byte (c : ascii) : bytes :=
  let n := code c in
  if (n =? 34)%N then [bsl; dq]
  else if (n =? 92)%N then [bsl; bsl]
  else if (n <? 32)%N then
    if (n =? 8)%N then [bsl; "b"%char]
    else if (n =? 9)%N then [bsl; "t"%char]
    else if (n =? 10)%N then [bsl; "n"%char]
    else if (n =? 12)%N then [bsl; "f"%char]
    else if (n =? 13)%N then [bsl; "r"%char]
    else [bsl; "u"%char; "0"%char; "0"%char; hex_digit (n / 16); hex_digit (n mod 16)]
  else [c].

Fixpoint escape (s : bytes) : bytes :=
  match s with
  | [] => []
  | c :: s' => escape_byte c ++ escape s'
  end.

Definition print_string (s : bytes) : bytes := dq :: escape s ++ [dq].

(* [ind] is the indentation of the line on which the value starts (a run of
   spaces); nested items are printed at [sp :: sp :: ind]. *)
Fixpoint print_value (ind : bytes) (j : json) : bytes :=
  match j with
  | JNull => b "null"
  | JBool true => b "true"
  | JBool false => b "false"
  | JNum lit => lit
  | JStr s => print_string s
  | JArr [] => b "[]"
  | JArr (x :: xs) =>
    let ind' := sp :: sp :: ind in
    "["%char :: nl :: ind' ++ print_value ind' x ++
    (fix tail (l : list json) : bytes :=
       match l with
       | [] => nl :: ind ++ ["]"%char]
       | y :: ys => ","%char :: nl :: ind' ++ print_value ind' y ++ tail ys
       end) xs
  | JObj [] => b "{}"
  | JObj ((k, v) :: kvs) =>
    let ind' := sp :: sp :: ind in
    "{"%char :: nl :: ind' ++ print_string k ++ ":"%char :: sp :: print_value ind' v ++
    (fix tail (l : list (bytes * json)) : bytes :=
       match l with
       | [] => nl :: ind ++ ["}"%char]
       | (k', v') :: r =>
         ","%char :: nl :: ind' ++ print_string k' ++ ":"%char :: sp :: print_value ind' v' ++ tail r
       end) kvs
  end.

Definition json_print (j : json) : bytes := print_value [] j.

(* ------------------------------------------------------------------ *)
(* Parser                                                              *)

Fixpoint skip_ws (s : bytes) : bytes :=
  match s with
  | c :: s' => if is_ws c then skip_ws s' else s
  | [] => []
  end.

Definition hex_val (c : ascii) : option N :=
  let n := code c in
  if (48 <=? n)%N && (n <=? 57)%N then Some (n - 48)%N
  else if (65 <=? n)%N && (n <=? 70)%N then Some (n - 55)%N
  else if (97 <=? n)%N && (n <=? 102)%N then Some (n - 87)%N
  else None.

Definition hex4 (a b c d : ascii) : option N :=
  match hex_val a, hex_val b, hex_val c, hex_val d with
  | Some x, Some y, Some z, Some w => Some (((x * 16 + y) * 16 + z) * 16 + w)%N
  | _, _, _, _ => None
  end.

(* UTF-8 encoding of a scalar value (n < 0x110000, not a surrogate) *)
Definition utf8 (n : N) : bytes :=
  if (n <? 128)%N then [ascii_of_N n]
  else if (n <? 2048)%N then
    [ascii_of_N (192 + n / 64); ascii_of_N (128 + n mod 64)]
  else if (n <? 65536)%N then
    [ascii_of_N (224 + n / 4096); ascii_of_N (128 + (n / 64) mod 64);
     ascii_of_N (128 + n mod 64)]
  else
    [ascii_of_N (240 + n / 262144); ascii_of_N (128 + (n / 4096) mod 64);
     ascii_of_N (128 + (n / 64) mod 64); ascii_of_N (128 + n mod 64)].

Definition is_high_surr (n : N) : bool := (55296 <=? n)%N && (n <=? 56319)%N.  (* D800..DBFF *)
Definition is_low_surr (n : N) : bool := (56320 <=? n)%N && (n <=? 57343)%N.   (* DC00..DFFF *)
Definition surr_pair (hi lo : N) : N := (65536 + (hi - 55296) * 1024 + (lo - 56320))%N.

Definition unescape (e : ascii) : option ascii :=
  if ceq e dq then Some dq
  else if ceq e bsl then Some bsl
  else if ceq e "/"%char then Some "/"%char
  else if ceq e "b"%char then Some (ascii_of_N 8)
  else if ceq e "f"%char then Some (ascii_of_N 12)
  else if ceq e "n"%char then Some nl
  else if ceq e "r"%char then Some cr
  else if ceq e "t"%char then Some tab
  else None.

(* [parse_str s acc]: [s] is the text just after the opening quote; returns the
   decoded bytes and the text after the closing quote.  [acc] is reversed. *)
Fixpoint parse_str (s acc : bytes) : option (bytes * bytes) :=
  match s with
  | [] => None
  | c :: s1 =>
    if ceq c dq then Some (rev' acc, s1)
    else if ceq c bsl then
      match s1 with
      | [] => None
      | e :: s2 =>
        if ceq e "u"%char then
          match s2 with
          | h1 :: h2 :: h3 :: h4 :: s6 =>
            match hex4 h1 h2 h3 h4 with
            | None => None
            | Some n =>
              if is_high_surr n then
                match s6 with
                | c1 :: c2 :: l1 :: l2 :: l3 :: l4 :: s12 =>
                  if ceq c1 bsl && ceq c2 "u"%char then
                    match hex4 l1 l2 l3 l4 with
                    | None => None
                    | Some m =>
                      if is_low_surr m
                      then parse_str s12 (rev_append (utf8 (surr_pair n m)) acc)
                      else None
                    end
                  else None
                | _ => None
                end
              else if is_low_surr n then None
              else parse_str s6 (rev_append (utf8 n) acc)
            end
          | _ => None
          end
        else
          match unescape e with
          | Some x => parse_str s2 (x :: acc)
          | None => None
          end
      end
    else if (code c <? 32)%N then None
    else parse_str s1 (c :: acc)
  end.

(* number token = maximal run of number characters, which must be an RFC number *)
Fixpoint span_num (s : bytes) : bytes * bytes :=
  match s with
  | c :: s' =>
    if num_char c then let (d, r) := span_num s' in (c :: d, r) else ([], s)
  | [] => ([], [])
  end.

Definition scan_number (s : bytes) : option (bytes * bytes) :=
  let (tok, r) := span_num s in
  if num_lit_ok tok then Some (tok, r) else None.

Section Loops.
  (* [pv] parses one value (skipping leading whitespace itself) *)
  Variable pv : bytes -> option (json * bytes).

  (* after "[" when the array is not empty: value ( "," value )* "]" *)
  Fixpoint items_loop (n : nat) (s : bytes) (acc : list json) : option (list json * bytes) :=
    match n with
    | O => None
    | S n' =>
      match pv s with
      | None => None
      | Some (v, r) =>
        match skip_ws r with
        | c :: r' =>
          if ceq c ","%char then items_loop n' r' (v :: acc)
          else if ceq c "]"%char then Some (rev' (v :: acc), r')
          else None
        | [] => None
        end
      end
    end.

  (* after "{" when the object is not empty: string ":" value ( "," ... )* "}" *)
  Fixpoint members_loop (n : nat) (s : bytes) (acc : list (bytes * json))
    : option (list (bytes * json) * bytes) :=
    match n with
    | O => None
    | S n' =>
      match skip_ws s with
      | q :: s1 =>
        if ceq q dq then
          match parse_str s1 [] with
          | None => None
          | Some (k, r1) =>
            match skip_ws r1 with
            | c :: r2 =>
              if ceq c ":"%char then
                match pv r2 with
                | None => None
                | Some (v, r3) =>
                  match skip_ws r3 with
                  | d :: r4 =>
                    if ceq d ","%char then members_loop n' r4 ((k, v) :: acc)
                    else if ceq d "}"%char then Some (rev' ((k, v) :: acc), r4)
                    else None
                  | [] => None
                  end
                end
              else None
            | [] => None
            end
          end
        else None
      | [] => None
      end
    end.
End Loops.

Fixpoint parse_value (fuel : nat) (s : bytes) : option (json * bytes) :=
  match fuel with
  | O => None
  | S f =>
    match skip_ws s with
    | [] => None
    | c :: s1 =>
      if ceq c "n"%char then
        match strip_prefix (b "ull") s1 with Some r => Some (JNull, r) | None => None end
      else if ceq c "t"%char then
        match strip_prefix (b "rue") s1 with Some r => Some (JBool true, r) | None => None end
      else if ceq c "f"%char then
        match strip_prefix (b "alse") s1 with Some r => Some (JBool false, r) | None => None end
      else if ceq c dq then
        match parse_str s1 [] with Some (str, r) => Some (JStr str, r) | None => None end
      else if ceq c "["%char then
        match skip_ws s1 with
        | [] => None
        | c2 :: r2 =>
          if ceq c2 "]"%char then Some (JArr [], r2)
          else
            match items_loop (parse_value f) f (c2 :: r2) [] with
            | Some (l, r) => Some (JArr l, r)
            | None => None
            end
        end
      else if ceq c "{"%char then
        match skip_ws s1 with
        | [] => None
        | c2 :: r2 =>
          if ceq c2 "}"%char then Some (JObj [], r2)
          else
            match members_loop (parse_value f) f (c2 :: r2) [] with
            | Some (l, r) => Some (JObj l, r)
            | None => None
            end
        end
      else if ceq c "-"%char || is_digit c then
        match scan_number (c :: s1) with
        | Some (lit, r) => Some (JNum lit, r)
        | None => None
        end
      else None
    end
  end.

(* whole document: one value surrounded by optional whitespace *)
Definition json_parse (s : bytes) : option json :=
  match parse_value (S (List.length s)) s with
  | Some (j, r) => match skip_ws r with [] => Some j | _ :: _ => None end
  | None => None
  end.
