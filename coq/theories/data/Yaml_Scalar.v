(* Proofs about the YAML model: scalars that are written in the plain style and consist of "token" characters
   (digits, letters, `.`, `+`, `-`, `_`): integers, floats, null, booleans.
   - what the writer does with such a text (analysis: plain allowed; the plain writer copies it),
   - what the reader does with it (one plain scalar, resolved by the core schema),
   - yaml_int_roundtrip, yaml_scalar_kinds, yaml_float_nonfinite. *)
From Ucg Require Import base.Bytes base.Bytes_Lemmas data.Val data.Json data.Json_Lemmas data.MapJson data.MapJson_Lemmas data.Yaml.
From Ucg Require data.Toml.
Local Open Scope list_scope.

(* ------------------------------------------------------------------ *)
(* token characters                                                    *)

Definition tok_char (c : ascii) : bool :=
  is_digit c || Toml.is_alpha c || ceq c "."%char || ceq c "+"%char || ceq c "-"%char || ceq c "_"%char.

Definition achars (t : bytes) : list uchar := map (fun c => mk_uc (code c) [c]) t.

Lemma tok_char_facts c : tok_char c = true ->
  lead_width c = 1 /\ lead_bits c = code c
  /\ is_break_cp (code c) = false /\ (code c =? 32)%N = false /\ is_printable_cp (code c) = true
  /\ is_blankz_cp (code c) = false /\ (code c =? 58)%N = false /\ (code c =? 35)%N = false /\ (code c =? 63)%N = false
  /\ cp_in (code c) (b "#,[]{}&*!|>'""%@`") = false
  /\ text_byte_ok c = true /\ is_wsp c = false /\ ceq c sqt = false /\ ceq c dq = false
  /\ ceq c "|"%char = false /\ ceq c "["%char = false /\ ceq c "{"%char = false
  /\ ceq c ":"%char = false /\ ceq c "#"%char = false /\ ceq c "?"%char = false /\ ceq c sp = false
  /\ ceq c nl = false /\ ceq c cr = false
  /\ (is_indicator c = ceq c "-"%char) /\ ((code c =? 45)%N = ceq c "-"%char).
Proof. destruct c as [[] [] [] [] [] [] [] []]; vm_compute; intros H; try discriminate H; repeat split. Qed.

Lemma chars_f_ascii t : forall fuel,
  forallb tok_char t = true -> (List.length t <= fuel)%nat -> chars_f fuel t = achars t.
Proof.
  induction t as [|c r IH]; intros fuel Ht Hf.
  - destruct fuel; reflexivity.
  - cbn [forallb] in Ht. apply andb_true_iff in Ht as [Hc Hr].
    destruct fuel as [|f]; [cbn in Hf; lia|].
    destruct (tok_char_facts c Hc) as (Hw & Hb & _).
    cbn [chars_f achars map]. rewrite Hw. cbn [Nat.pred firstn skipn].
    unfold cp_of. cbn [fold_left]. rewrite Hb. f_equal.
    apply IH; [exact Hr|cbn in Hf; lia].
Qed.

Lemma chars_tok t : forallb tok_char t = true -> chars t = achars t.
Proof. intros H. unfold chars. apply chars_f_ascii; [exact H|lia]. Qed.

(* ------------------------------------------------------------------ *)
(* the writer                                                          *)

Definition af0 : aflags := mk_af false false false false false false false false false.

Lemma an_loop_tok_inner t : forall pw,
  forallb tok_char t = true -> an_loop false pw false false (achars t) af0 = af0.
Proof.
  induction t as [|c r IH]; intros pw Ht; [reflexivity|].
  cbn [forallb] in Ht. apply andb_true_iff in Ht as [Hc Hr].
  destruct (tok_char_facts c Hc) as (_ & _ & Hbr & H32 & Hpr & Hbz & H58 & H35 & _).
  cbn [achars map an_loop u_cp]. rewrite H58, H35, H32, Hbr, Hpr, Hbz. cbn [andb orb negb af0 a_block_ind a_breaks a_special
    a_lead_sp a_lead_br a_trail_sp a_trail_br a_br_sp a_sp_br].
  change (mk_af false false false false false false false false false) with af0.
  apply IH. exact Hr.
Qed.

(* the first character: not `-`, or `-` followed by another token character *)
Definition tok_first_ok (t : bytes) : Prop :=
  match t with
  | c :: r => ceq c "-"%char = false \/ r <> []
  | [] => False
  end.

Lemma an_loop_tok t :
  forallb tok_char t = true -> tok_first_ok t -> an_loop true true false false (achars t) af0 = af0.
Proof.
  destruct t as [|c r]; intros Ht Hf; [destruct Hf|].
  cbn [forallb] in Ht. apply andb_true_iff in Ht as [Hc Hr].
  destruct (tok_char_facts c Hc) as (_ & _ & Hbr & H32 & Hpr & Hbz & H58 & H35 & H63 & Hin & _ & _ & _ & _ & _ & _ & _ & _ & _ & _ & _ & _ & _ & _ & H45).
  cbn [achars map an_loop u_cp]. rewrite Hin, H63, H58, H32, Hbr, Hpr, Hbz.
  assert (Hd : ((code c =? 45)%N && match map (fun c0 : ascii => mk_uc (code c0) [c0]) r with
                                     | [] => true
                                     | v :: _ => is_blankz_cp (u_cp v)
                                     end) = false).
  { rewrite H45. destruct Hf as [Hf|Hf]; [rewrite Hf; reflexivity|].
    destruct r as [|d r']; [congruence|]. cbn [map u_cp forallb] in *.
    apply andb_true_iff in Hr as [Hd _].
    destruct (tok_char_facts d Hd) as (_ & _ & _ & _ & _ & Hbzd & _). rewrite Hbzd. apply andb_false_r. }
  rewrite Hd. cbn [andb orb negb af0 a_block_ind a_breaks a_special
    a_lead_sp a_lead_br a_trail_sp a_trail_br a_br_sp a_sp_br].
  change (mk_af false false false false false false false false false) with af0.
  apply an_loop_tok_inner. exact Hr.
Qed.

(* does not begin with `---` or `...` *)
Definition no_doc_prefix (t : bytes) : bool :=
  match t with
  | c1 :: c2 :: c3 :: _ =>
    negb ((ceq c1 "-"%char && ceq c2 "-"%char && ceq c3 "-"%char)
          || (ceq c1 "."%char && ceq c2 "."%char && ceq c3 "."%char))
  | _ => true
  end.

Lemma analyze_tok t :
  forallb tok_char t = true -> tok_first_ok t -> no_doc_prefix t = true ->
  analyze t = mk_sf false true true true.
Proof.
  intros Ht Hf Hd. destruct t as [|c r]; [destruct Hf|].
  unfold analyze. rewrite (chars_tok _ Ht).
  assert (E : match c :: r with
              | c1 :: c2 :: c3 :: _ =>
                (ceq c1 "-"%char && ceq c2 "-"%char && ceq c3 "-"%char)
                || (ceq c1 "."%char && ceq c2 "."%char && ceq c3 "."%char)
              | _ => false
              end = false).
  { unfold no_doc_prefix in Hd. destruct r as [|c2 [|c3 r3]]; try reflexivity.
    apply negb_true_iff in Hd. exact Hd. }
  rewrite E. change (mk_af false false false false false false false false false) with af0.
  rewrite (an_loop_tok _ Ht Hf). reflexivity.
Qed.

Lemma final_style_tok t :
  forallb tok_char t = true -> tok_first_ok t -> no_doc_prefix t = true ->
  final_style SPlain t false = SPlain.
Proof.
  intros Ht Hf Hd. unfold final_style. rewrite (analyze_tok _ Ht Hf Hd).
  unfold select_style. cbn [f_multiline f_block_plain f_single_ok f_block_ok andb negb]. rewrite andb_false_r. reflexivity.
Qed.

Lemma plain_loop_tok i t : forall st,
  forallb tok_char t = true ->
  plain_loop i false (achars t) st = (t, mk_est (e_col st + List.length t) (e_ws st) (match t with [] => e_ind st | _ => false end)).
Proof.
  induction t as [|c r IH]; intros st Ht.
  - cbn. destruct st. cbn. rewrite Nat.add_0_r. reflexivity.
  - cbn [forallb] in Ht. apply andb_true_iff in Ht as [Hc Hr].
    destruct (tok_char_facts c Hc) as (_ & _ & Hbr & H32 & _).
    cbn [achars map plain_loop u_cp u_raw]. rewrite H32, Hbr.
    change (map (fun c0 : ascii => mk_uc (code c0) [c0]) r) with (achars r).
    rewrite (IH _ Hr). cbn [e_col e_ws e_ind app List.length]. f_equal. f_equal; [lia|].
    destruct r; reflexivity.
Qed.

(* the plain writer copies a token, after one space when the line is not at a white space *)
Lemma write_plain_tok i t st :
  forallb tok_char t = true -> t <> [] ->
  write_plain i t st = ((if e_ws st then [] else [sp]) ++ t,
                        mk_est (e_col st + (if e_ws st then 0 else 1) + List.length t) false false).
Proof.
  intros Ht Hn. unfold write_plain. rewrite (chars_tok _ Ht).
  destruct t as [|c r]; [congruence|].
  rewrite (plain_loop_tok _ _ _ Ht). cbn [e_col e_ws e_ind].
  destruct (e_ws st); reflexivity.
Qed.

Theorem emit_scalar_tok t indent st :
  forallb tok_char t = true -> tok_first_ok t -> no_doc_prefix t = true ->
  emit_scalar SPlain t false indent st
  = ((if e_ws st then [] else [sp]) ++ t,
     mk_est (e_col st + (if e_ws st then 0 else 1) + List.length t) false false).
Proof.
  intros Ht Hf Hd. unfold emit_scalar. rewrite (final_style_tok _ Ht Hf Hd).
  apply write_plain_tok; [exact Ht|]. destruct t; [destruct Hf|congruence].
Qed.

(* ------------------------------------------------------------------ *)
(* the reader                                                          *)

Lemma scan_plain_tok t : forall pw,
  forallb tok_char t = true -> scan_plain pw t = Some (t, []).
Proof.
  induction t as [|c r IH]; intros pw Ht; [reflexivity|].
  cbn [forallb] in Ht. apply andb_true_iff in Ht as [Hc Hr].
  destruct (tok_char_facts c Hc) as (_ & _ & _ & _ & _ & _ & _ & _ & _ & _ & Htb & _ & _ & _ & _ & _ & _ & Hcol & Hhash & _).
  cbn [scan_plain]. rewrite Hcol, Hhash, Htb. cbn [andb]. rewrite (IH _ Hr). reflexivity.
Qed.

Lemma skip_wsp_tok_rev t : forallb tok_char t = true -> rtrim t = t.
Proof.
  intros Ht. unfold rtrim.
  assert (H : skip_wsp (rev t) = rev t).
  { destruct (rev t) as [|c r] eqn:E; [reflexivity|].
    assert (Hc : tok_char c = true).
    { assert (Hin : In c (rev t)) by (rewrite E; left; reflexivity).
      apply in_rev in Hin. rewrite forallb_forall in Ht. apply Ht. exact Hin. }
    destruct (tok_char_facts c Hc) as (_ & _ & _ & _ & _ & _ & _ & _ & _ & _ & _ & Hw & _).
    cbn [skip_wsp]. rewrite Hw. reflexivity. }
  rewrite H. apply rev_involutive.
Qed.

Lemma plain_first_ok_tok t :
  forallb tok_char t = true -> tok_first_ok t -> plain_first_ok t = true.
Proof.
  destruct t as [|c r]; intros Ht Hf; [destruct Hf|].
  cbn [forallb] in Ht. apply andb_true_iff in Ht as [Hc Hr].
  destruct (tok_char_facts c Hc) as (_ & _ & _ & _ & _ & _ & _ & _ & _ & _ & _ & Hw & _ & _ & _ & _ & _ & Hcol & _ & Hq & _ & _ & _ & Hind & _).
  cbn [plain_first_ok]. rewrite Hw, Hq, Hcol, Hind.
  destruct (ceq c "-"%char) eqn:Em; cbn [orb negb]; [|reflexivity].
  destruct Hf as [Hf|Hf]; [congruence|].
  destruct r as [|d r']; [congruence|]. cbn [forallb] in Hr. apply andb_true_iff in Hr as [Hd _].
  destruct (tok_char_facts d Hd) as (_ & _ & _ & _ & _ & _ & _ & _ & _ & _ & _ & Hwd & _). rewrite Hwd. reflexivity.
Qed.

(* a token on a line is one plain scalar *)
Theorem scalar_node_tok pind t rest :
  forallb tok_char t = true -> tok_first_ok t ->
  scalar_node pind t rest = Some (resolve_plain t, rest).
Proof.
  intros Ht Hf. pose proof (plain_first_ok_tok _ Ht Hf) as Hp.
  destruct t as [|c r]; [destruct Hf|].
  assert (Hc : tok_char c = true) by (cbn [forallb] in Ht; apply andb_true_iff in Ht as [H _]; exact H).
  destruct (tok_char_facts c Hc) as (_ & _ & _ & _ & _ & _ & _ & _ & _ & _ & _ & _ & Hsq & Hdq & Hbar & Hlb & Hlc & _).
  unfold scalar_node. rewrite Hbar, Hsq, Hdq, Hlb, Hlc, Hp.
  rewrite (scan_plain_tok _ false Ht). rewrite (skip_wsp_tok_rev _ Ht). reflexivity.
Qed.

Lemma scan_key_tok t : forallb tok_char t = true -> tok_first_ok t -> scan_key t = None.
Proof.
  intros Ht Hf. pose proof (plain_first_ok_tok _ Ht Hf) as Hp.
  destruct t as [|c r]; [destruct Hf|].
  assert (Hc : tok_char c = true) by (cbn [forallb] in Ht; apply andb_true_iff in Ht as [H _]; exact H).
  destruct (tok_char_facts c Hc) as (_ & _ & _ & _ & _ & _ & _ & _ & _ & _ & _ & _ & Hsq & Hdq & _).
  unfold scan_key. rewrite Hsq, Hdq, Hp. rewrite (scan_plain_tok _ false Ht). reflexivity.
Qed.

Lemma entry_of_tok ind t :
  forallb tok_char t = true -> tok_first_ok t -> (ind = "-"%char \/ ind = "?"%char \/ ind = ":"%char) ->
  entry_of ind t = None.
Proof.
  intros Ht Hf Hi. destruct t as [|c r]; [destruct Hf|].
  cbn [forallb] in Ht. apply andb_true_iff in Ht as [Hc Hr].
  destruct (tok_char_facts c Hc) as (_ & _ & _ & _ & _ & _ & _ & _ & _ & _ & _ & _ & _ & _ & _ & _ & _ & Hcol & _ & Hq & _).
  cbn [entry_of]. destruct Hi as [Hi|[Hi|Hi]]; subst ind.
  - destruct (ceq c "-"%char) eqn:Em; [|reflexivity].
    destruct Hf as [Hf|Hf]; [congruence|]. destruct r as [|d r']; [congruence|].
    cbn [forallb] in Hr. apply andb_true_iff in Hr as [Hd _].
    destruct (tok_char_facts d Hd) as (_ & _ & _ & _ & _ & _ & _ & _ & _ & _ & _ & Hwd & _). rewrite Hwd. reflexivity.
  - rewrite Hq. reflexivity.
  - rewrite Hcol. reflexivity.
Qed.

Lemma split_lines_tok t : forallb tok_char t = true -> split_lines (t ++ [nl]) = [t].
Proof.
  induction t as [|c r IH]; intros Ht; [reflexivity|].
  cbn [forallb] in Ht. apply andb_true_iff in Ht as [Hc Hr].
  destruct (tok_char_facts c Hc) as (_ & _ & _ & _ & _ & _ & _ & _ & _ & _ & _ & _ & _ & _ & _ & _ & _ & _ & _ & _ & _ & Hnl & Hcr & _).
  cbn [app split_lines]. rewrite Hnl, Hcr, (IH Hr). reflexivity.
Qed.

Lemma measure_tok t : forallb tok_char t = true -> measure t = (O, t).
Proof.
  destruct t as [|c r]; intros Ht; [reflexivity|].
  cbn [forallb] in Ht. apply andb_true_iff in Ht as [Hc Hr].
  destruct (tok_char_facts c Hc) as (_ & _ & _ & _ & _ & _ & _ & _ & _ & _ & _ & _ & _ & _ & _ & _ & _ & _ & _ & _ & Hsp & _).
  cbn [measure]. rewrite Hsp. reflexivity.
Qed.

Lemma blank_text_tok t : forallb tok_char t = true -> t <> [] -> blank_text t = false.
Proof.
  destruct t as [|c r]; intros Ht Hn; [congruence|].
  cbn [forallb] in Ht. apply andb_true_iff in Ht as [Hc Hr].
  destruct (tok_char_facts c Hc) as (_ & _ & _ & _ & _ & _ & _ & _ & _ & _ & _ & Hw & _ & _ & _ & _ & _ & _ & Hh & _).
  unfold blank_text. cbn [skip_wsp]. rewrite Hw. exact Hh.
Qed.

Lemma no_doc_prefix_strip t : no_doc_prefix t = true ->
  strip_prefix (b "---") t = None /\ strip_prefix (b "...") t = None.
Proof.
  intros H. destruct t as [|c1 [|c2 [|c3 r]]]; cbn [b list_ascii_of_string strip_prefix].
  - split; reflexivity.
  - split; destruct (Ascii.eqb _ c1); reflexivity.
  - split; destruct (Ascii.eqb _ c1); try reflexivity; destruct (Ascii.eqb _ c2); reflexivity.
  - unfold no_doc_prefix, ceq in H. apply negb_true_iff in H. apply orb_false_iff in H as [D1 D2].
    rewrite (Ascii.eqb_sym c1), (Ascii.eqb_sym c2), (Ascii.eqb_sym c3) in D1.
    rewrite (Ascii.eqb_sym c1), (Ascii.eqb_sym c2), (Ascii.eqb_sym c3) in D2.
    split.
    + destruct (Ascii.eqb "-" c1); [|reflexivity]. destruct (Ascii.eqb "-" c2); [|reflexivity].
      destruct (Ascii.eqb "-" c3); [discriminate D1|reflexivity].
    + destruct (Ascii.eqb "." c1); [|reflexivity]. destruct (Ascii.eqb "." c2); [|reflexivity].
      destruct (Ascii.eqb "." c3); [discriminate D2|reflexivity].
Qed.

Lemma cut_marker_none ls : existsb is_marker_line ls = false -> cut_marker ls = (ls, []).
Proof.
  induction ls as [|l r IH]; intros H; [reflexivity|].
  cbn [existsb] in H. apply orb_false_iff in H as [H1 H2].
  cbn [cut_marker]. rewrite H1, (IH H2). reflexivity.
Qed.

(* a token that is not a document marker, alone in a document *)
Theorem yaml_parse_tok t :
  forallb tok_char t = true -> tok_first_ok t -> no_doc_prefix t = true ->
  yaml_parse (t ++ [nl]) = Some (resolve_plain t).
Proof.
  intros Ht Hf Hd.
  assert (Hn : t <> []) by (destruct t; [destruct Hf|congruence]).
  unfold yaml_parse. rewrite (split_lines_tok _ Ht). cbn [map]. rewrite (measure_tok _ Ht).
  cbn [skip_blank]. rewrite (blank_text_tok _ Ht Hn).
  destruct (no_doc_prefix_strip _ Hd) as [S1 S2].
  assert (Hm1 : doc_marker (b "---") t = false /\ doc_marker (b "...") t = false /\ is_marker_line (O, t) = false).
  { unfold doc_marker, is_marker_line. rewrite S1, S2. repeat split. }
  destruct Hm1 as (M1 & M2 & M3). rewrite M1.
  cbn [cut_marker]. rewrite M3.
  unfold block_of. cbn [skip_blank]. rewrite (blank_text_tok _ Ht Hn).
  replace ((-1 <? Z.of_nat 0)%Z) with true by reflexivity. cbn [orb].
  rewrite app_length. cbn [List.length]. rewrite Nat.add_comm. cbn [Nat.add inline_node].
  assert (Hs : is_seq_entry t = false).
  { unfold is_seq_entry. rewrite (entry_of_tok _ _ Ht Hf) by tauto. reflexivity. }
  rewrite Hs. rewrite (entry_of_tok _ _ Ht Hf) by tauto. rewrite (scan_key_tok _ Ht Hf).
  rewrite (scalar_node_tok _ _ _ Ht Hf).
  cbn [skip_blank]. reflexivity.
Qed.

(* ------------------------------------------------------------------ *)
(* integers                                                            *)

Lemma digit_tok_char c : is_digit c = true -> tok_char c = true.
Proof. intros H. unfold tok_char. rewrite H. reflexivity. Qed.

Lemma digits_tok ds : forallb is_digit ds = true -> forallb tok_char ds = true.
Proof.
  induction ds as [|c r IH]; cbn [forallb]; [reflexivity|].
  intros H. apply andb_true_iff in H as [Hc Hr]. rewrite (digit_tok_char _ Hc), (IH Hr). reflexivity.
Qed.

Lemma digit_more_facts c : is_digit c = true ->
  ceq c "-"%char = false /\ ceq c "+"%char = false /\ ceq c "."%char = false
  /\ Ascii.eqb "-"%char c = false /\ Ascii.eqb "."%char c = false
  /\ (ceq c "0"%char = false -> Ascii.eqb "0"%char c = false).
Proof. destruct c as [[] [] [] [] [] [] [] []]; cbn; intros H; try discriminate H; repeat split; try congruence. Qed.

(* a text that starts like a number is none of the words null / true / false *)
Lemma numlike_not_word c r :
  (is_digit c || ceq c "-"%char || ceq c "+"%char || ceq c "."%char) = true ->
  mem_bytes (c :: r) [b "null"; b "Null"; b "NULL"; b "~"] = false
  /\ mem_bytes (c :: r) [b "true"; b "True"; b "TRUE"] = false
  /\ mem_bytes (c :: r) [b "false"; b "False"; b "FALSE"] = false.
Proof.
  destruct c as [[] [] [] [] [] [] [] []]; cbn; intros H; try discriminate H; repeat split; reflexivity.
Qed.

Lemma dec_of_Z_shape z :
  exists (neg : bool) (c : ascii) (t : bytes),
    dec_of_Z z = (if neg then ["-"%char] else []) ++ c :: t
    /\ forallb is_digit (c :: t) = true
    /\ digits_val (c :: t) = Z.abs_N z /\ neg = (z <? 0)%Z
    /\ (t <> [] -> ceq c "0"%char = false).
Proof.
  destruct (Z.eq_dec z 0) as [->|Hz].
  - exists false, "0"%char, []. repeat split; try reflexivity. congruence.
  - destruct (Z_dec_shape z Hz) as (c & t & E & Hd & Hc & Hv).
    exists (z <? 0)%Z, c, t. repeat split; auto.
Qed.

Lemma dec_of_Z_tok z :
  forallb tok_char (dec_of_Z z) = true /\ tok_first_ok (dec_of_Z z) /\ no_doc_prefix (dec_of_Z z) = true.
Proof.
  destruct (dec_of_Z_shape z) as (neg & c & t & E & Hd & _ & _ & _). rewrite E.
  pose proof (digits_tok _ Hd) as Ht.
  assert (Hc : is_digit c = true) by (cbn [forallb] in Hd; apply andb_true_iff in Hd as [H _]; exact H).
  destruct (digit_more_facts c Hc) as (Hm & Hp & Hdot & _).
  destruct neg; cbn [app].
  - repeat split.
    + cbn [forallb] in Ht |- *. rewrite Ht. reflexivity.
    + right. congruence.
    + unfold no_doc_prefix. destruct t as [|c3 r]; [reflexivity|].
      rewrite Hm. cbn. reflexivity.
  - repeat split.
    + exact Ht.
    + left. exact Hm.
    + unfold no_doc_prefix. destruct t as [|c2 [|c3 r]]; try reflexivity.
      rewrite Hm, Hdot. reflexivity.
Qed.

Lemma all_in_digits ds : ds <> [] -> forallb is_digit ds = true -> all_in is_digit ds = true.
Proof. intros Hn H. destruct ds; [congruence|exact H]. Qed.

Theorem resolve_plain_int z : resolve_plain (dec_of_Z z) = DInt z.
Proof.
  destruct (dec_of_Z_shape z) as (neg & c & t & E & Hd & Hv & Hneg & Hc0). rewrite E.
  assert (Hc : is_digit c = true) by (cbn [forallb] in Hd; apply andb_true_iff in Hd as [H _]; exact H).
  destruct (digit_more_facts c Hc) as (Hm & Hp & Hdot & Hm' & Hdot' & H0).
  unfold resolve_plain.
  destruct neg; cbn [app].
  - destruct (numlike_not_word "-"%char (c :: t) eq_refl) as (N1 & N2 & N3).
    rewrite N1, N2, N3. cbn [orb].
    unfold resolve_int. cbn [strip_prefix b list_ascii_of_string].
    replace (Ascii.eqb "0"%char "-"%char) with false by reflexivity.
    replace (ceq "-"%char "-"%char) with true by reflexivity.
    rewrite (all_in_digits (c :: t)) by (congruence || exact Hd).
    rewrite Hv. f_equal. symmetry in Hneg. apply Z.ltb_lt in Hneg. lia.
  - assert (Hnl : (is_digit c || ceq c "-"%char || ceq c "+"%char || ceq c "."%char) = true) by (rewrite Hc; reflexivity).
    destruct (numlike_not_word c t Hnl) as (N1 & N2 & N3).
    rewrite N1, N2, N3. cbn [orb].
    assert (Hpre : forall x, strip_prefix ["0"%char; x] (c :: t) = None \/ (exists t', t = x :: t' /\ Ascii.eqb "0"%char c = true)).
    { intros x. cbn [strip_prefix]. destruct (Ascii.eqb "0"%char c) eqn:E0; [|left; reflexivity].
      destruct t as [|d t']; [left; reflexivity|].
      destruct (Ascii.eqb x d) eqn:Ex; [|left; reflexivity].
      right. apply Ascii.eqb_eq in Ex. subst d. eauto. }
    assert (Hno : forall x, is_digit x = false -> strip_prefix ["0"%char; x] (c :: t) = None).
    { intros x Hx. destruct (Hpre x) as [H|(t' & -> & E0)]; [exact H|].
      exfalso. cbn [forallb] in Hd. apply andb_true_iff in Hd as [_ Hd]. apply andb_true_iff in Hd as [Hd _]. congruence. }
    unfold resolve_int. change (b "0o") with ["0"%char; "o"%char]. change (b "0x") with ["0"%char; "x"%char].
    rewrite (Hno "o"%char eq_refl), (Hno "x"%char eq_refl).
    rewrite Hm, Hp.
    rewrite (all_in_digits (c :: t)) by (congruence || exact Hd).
    rewrite Hv. f_equal. symmetry in Hneg. apply Z.ltb_ge in Hneg. lia.
Qed.

(* every integer (not only the i64 range): the converter's text, and the reader's reading of it *)
Theorem yaml_int_roundtrip : forall z,
  yaml_output (VInt z) = YOk (dec_of_Z z ++ [nl])
  /\ yaml_parse (dec_of_Z z ++ [nl]) = Some (DInt z)
  /\ (forall pind rest, scalar_node pind (dec_of_Z z) rest = Some (DInt z, rest))
  /\ (forall indent st, emit_scalar SPlain (dec_of_Z z) false indent st
                        = ((if e_ws st then [] else [sp]) ++ dec_of_Z z,
                           mk_est (e_col st + (if e_ws st then 0 else 1) + List.length (dec_of_Z z)) false false)).
Proof.
  intros z. destruct (dec_of_Z_tok z) as (Ht & Hf & Hd).
  repeat split.
  - unfold yaml_output, to_yaml, yaml_emit. cbn [emit_node].
    rewrite (emit_scalar_tok _ None est0 Ht Hf Hd). cbn [e_ws app].
    unfold write_indent. cbn [e_ind e_col e_ws negb orb]. cbn. reflexivity.
  - rewrite (yaml_parse_tok _ Ht Hf Hd). rewrite resolve_plain_int. reflexivity.
  - intros pind rest. rewrite (scalar_node_tok _ _ _ Ht Hf). rewrite resolve_plain_int. reflexivity.
  - intros indent st. apply emit_scalar_tok; assumption.
Qed.

(* ------------------------------------------------------------------ *)
(* null, booleans, non-finite floats: closed texts                      *)

Theorem yaml_scalar_kinds :
  yaml_output VEmpty = YOk (b "null" ++ [nl]) /\ yaml_parse (b "null" ++ [nl]) = Some DNull
  /\ yaml_output (VBool true) = YOk (b "true" ++ [nl]) /\ yaml_parse (b "true" ++ [nl]) = Some (DBool true)
  /\ yaml_output (VBool false) = YOk (b "false" ++ [nl]) /\ yaml_parse (b "false" ++ [nl]) = Some (DBool false)
  /\ (forall pind rest, scalar_node pind (b "null") rest = Some (DNull, rest))
  /\ (forall pind rest v, scalar_node pind (ybool_text v) rest = Some (DBool v, rest)).
Proof.
  do 6 (split; [vm_compute; reflexivity|]). split.
  - intros pind rest. rewrite (scalar_node_tok pind (b "null") rest); [reflexivity|reflexivity|left; reflexivity].
  - intros pind rest v. destruct v; cbn [ybool_text].
    + rewrite (scalar_node_tok pind (b "true") rest); [reflexivity|reflexivity|left; reflexivity].
    + rewrite (scalar_node_tok pind (b "false") rest); [reflexivity|reflexivity|left; reflexivity].
Qed.

Theorem yaml_float_nonfinite :
  yaml_output (VFloat FNaN) = YOk (b ".nan" ++ [nl]) /\ yaml_parse (b ".nan" ++ [nl]) = Some (DFloat Toml.DNan)
  /\ yaml_output (VFloat FInf) = YOk (b ".inf" ++ [nl]) /\ yaml_parse (b ".inf" ++ [nl]) = Some (DFloat (Toml.DInf false))
  /\ yaml_output (VFloat FNegInf) = YOk (b "-.inf" ++ [nl]) /\ yaml_parse (b "-.inf" ++ [nl]) = Some (DFloat (Toml.DInf true))
  /\ (forall pind rest f d, (f = FNaN \/ f = FInf \/ f = FNegInf) -> Toml.spec_float f = Some d ->
        scalar_node pind (yfloat_text f) rest = Some (DFloat d, rest)).
Proof.
  do 6 (split; [vm_compute; reflexivity|]).
  intros pind rest f d Hf Hs. destruct Hf as [Hf|[Hf|Hf]]; subst f; cbn in Hs; injection Hs as Hs; subst d; cbn [yfloat_text].
  - rewrite (scalar_node_tok pind (b ".nan") rest); [reflexivity|reflexivity|left; reflexivity].
  - rewrite (scalar_node_tok pind (b ".inf") rest); [reflexivity|reflexivity|left; reflexivity].
  - rewrite (scalar_node_tok pind (b "-.inf") rest); [reflexivity|reflexivity|right; discriminate].
Qed.
