(* MODEL: ucg's TOML output.
     [to_toml]    src/convert/toml.rs  convert_value / convert_list / convert_tuple / convert_env
     [toml_emit]  src/convert/toml.rs  write  (root must be a table)  followed by
                  toml-0.5.11/src/ser.rs  to_string_pretty  driven by
                  toml-0.5.11/src/value.rs  impl Serialize for Value
     [toml_parse] an independent reader written from the TOML v0.5.0 specification
                  (NOT a transcription of toml-rs' de.rs)
     [spec_data]  what the property says must be read back.
   Executable definitions only; proofs are in Toml_Lemmas.v.

   This build of toml has no `preserve_order` feature (Cargo.lock: toml 0.5.11 depends on
   serde only, no indexmap), so toml::value::Table = BTreeMap<String, Value>: key-sorted
   by the byte-wise order of String, [MapJson.map_first] (entry(k).or_insert(v)).

   The converter calls toml::ser::to_string_pretty (not to_string): literal strings when
   possible, triple-quoted strings for text with newlines, one array item per line (indent 4,
   trailing comma) for arrays of length >= 2. *)
From Ucg Require Import base.Bytes data.Val data.Json data.MapJson.

(* ------------------------------------------------------------------ *)
(* Outcomes                                                            *)

Inductive terr :=
| ENull            (* "Nulls are not allowed in Toml Conversions!"          (toml.rs) *)
| EConstraint      (* "Constraint values cannot be converted to TOML!"      (toml.rs) *)
| ENotTable        (* "Toml outputs must be a Tuple"                        (toml.rs write) *)
| EValueAfterTable (* ser::Error::ValueAfterTable "values must be emitted before tables" *)
| EPanic.          (* an assert!/unreachable! of ser.rs would fire; never happens (proved) *)

Inductive tres (A : Type) :=
| TOk (a : A)
| TErr (e : terr).
Arguments TOk {A} a.
Arguments TErr {A} e.

(* ------------------------------------------------------------------ *)
(* toml::Value (the Datetime variant is never built by the converter)  *)

Inductive tfloat :=
| TFin (txt : bytes)      (* finite; txt = what Rust's `{}` prints for the f64 *)
| TNan (neg : bool)
| TInf (neg : bool).

Inductive tval :=
| TStr (s : bytes)
| TInt (z : Z)
| TFloat (f : tfloat)
| TBool (v : bool)
| TArr (l : list tval)
| TTab (kvs : list (bytes * tval)).      (* BTreeMap: strictly key-sorted *)

Definition is_table (v : tval) : bool := match v with TTab _ => true | _ => false end.
Definition is_array (v : tval) : bool := match v with TArr _ => true | _ => false end.

(* ------------------------------------------------------------------ *)
(* to_toml : TomlConverter::convert_value                              *)

Definition tfloat_of_fl (f : fl) : tfloat :=
  match f with
  | FFin t => TFin t
  | FNaN => TNan false       (* [fl] does not carry the sign of a NaN, see STATUS.md *)
  | FInf => TInf false
  | FNegInf => TInf true
  end.

Fixpoint to_toml (v : val) : tres tval :=
  match v with
  | VEmpty => TErr ENull
  | VBool x => TOk (TBool x)
  | VInt z => TOk (TInt z)
  | VFloat f => TOk (TFloat (tfloat_of_fl f))
  | VStr s => TOk (TStr s)
  | VList l =>
    (* convert_list: `?` on each item in order *)
    match (fix go (l : list val) : tres (list tval) :=
             match l with
             | [] => TOk []
             | x :: xs =>
               match to_toml x with
               | TErr e => TErr e
               | TOk y => match go xs with TErr e => TErr e | TOk ys => TOk (y :: ys) end
               end
             end) l with
    | TErr e => TErr e
    | TOk ys => TOk (TArr ys)
    end
  | VTuple fs =>
    (* convert_tuple: mp.entry(k).or_insert(self.convert_value(v)?) -- the value is converted
       (and its error reported) even when the key is already present *)
    match (fix go (l : list (bytes * val)) : tres (list (bytes * tval)) :=
             match l with
             | [] => TOk []
             | (k, x) :: r =>
               match to_toml x with
               | TErr e => TErr e
               | TOk y => match go r with TErr e => TErr e | TOk ys => TOk ((k, y) :: ys) end
               end
             end) fs with
    | TErr e => TErr e
    | TOk kvs => TOk (TTab (map_first kvs))
    end
  | VEnv fs => TOk (TTab (map_first (map (fun kv => (fst kv, TStr (snd kv))) fs)))
  | VConstraint => TErr EConstraint
  end.

(* ------------------------------------------------------------------ *)
(* ser.rs: keys and strings                                            *)

Definition sq : ascii := "'"%char.     (* 0x27 *)

Definition is_bare_char (c : ascii) : bool :=
  let n := code c in
  ((97 <=? n)%N && (n <=? 122)%N) || ((65 <=? n)%N && (n <=? 90)%N)
  || ((48 <=? n)%N && (n <=? 57)%N) || ceq c "-"%char || ceq c "_"%char.

(* escape_key: `ok` *)
Definition bare_key_ok (k : bytes) : bool :=
  match k with [] => false | _ :: _ => forallb is_bare_char k end.

Definition hex_upper (n : N) : ascii :=
  if (n <? 10)%N then ascii_of_N (48 + n) else ascii_of_N (55 + n).

(* emit_str, Repr::Std: one char.  [ml] = Type::NewlineTripple.
   Bytes >= 0x80 (the UTF-8 encodings of chars >= U+0080) fall in the last case. *)
Definition std_escape_byte (ml : bool) (c : ascii) : bytes :=
  let n := code c in
  if (n =? 8)%N then [bsl; "b"%char]
  else if (n =? 9)%N then [bsl; "t"%char]
  else if (n =? 10)%N then (if ml then [nl] else [bsl; "n"%char])
  else if (n =? 12)%N then [bsl; "f"%char]
  else if (n =? 13)%N then [bsl; "r"%char]
  else if (n =? 34)%N then [bsl; dq]
  else if (n =? 92)%N then [bsl; bsl]
  else if (n <=? 31)%N || (n =? 127)%N then
    [bsl; "u"%char; "0"%char; "0"%char; hex_upper (n / 16); hex_upper (n mod 16)]
  else [c].

Fixpoint std_escape (ml : bool) (s : bytes) : bytes :=
  match s with
  | [] => []
  | c :: s' => std_escape_byte ml c ++ std_escape ml s'
  end.

Definition emit_std (ml : bool) (s : bytes) : bytes :=
  if ml then dq :: dq :: dq :: nl :: std_escape true s ++ [dq; dq; dq]
  else dq :: std_escape false s ++ [dq].

(* do_pretty: the scan.  p_nl: ty = NewlineTripple *)
Record pst := mk_pst { p_nl : bool; p_max : nat; p_found : nat; p_ok : bool }.

Definition pretty_step (st : pst) (c : ascii) : pst :=
  if p_ok st then
    let '(found, mx, ok1) :=
        if ceq c sq then (S (p_found st), p_max st, negb (3 <=? S (p_found st)))
        else (O, Nat.max (p_found st) (p_max st), true) in
    let n := code c in
    let ok2 :=
        if ceq c tab then true
        else if ceq c nl then true
        else negb ((n <=? 31)%N || (n =? 127)%N) in
    mk_pst (p_nl st || ceq c nl) mx found (ok1 && ok2)
  else mk_pst (p_nl st || ceq c nl) (p_max st) (p_found st) false.

Inductive str_repr :=
| RLiteral (ml : bool) (triple : bool)   (* Literal(out, ty): ml = NewlineTripple, triple = not OnelineSingle *)
| RStd (ml : bool).

(* The conjunct value.ends_with(single quote) holds whenever found_singles > 0 after the loop (the counter is
   reset by every other char), so the conjunct is dropped. *)
Definition do_pretty (s : bytes) : str_repr :=
  let st := fold_left pretty_step s (mk_pst false 0 0 true) in
  if negb (p_ok st) || (0 <? p_found st) then RStd (p_nl st)
  else
    let mx := Nat.max (p_found st) (p_max st) in
    if p_nl st then RLiteral true true
    else if 1 <=? mx then RLiteral false true
    else RLiteral false false.

(* emit_str(value, is_key = false) with settings.string = Some(pretty) *)
Definition emit_value_str (s : bytes) : bytes :=
  match do_pretty s with
  | RLiteral true _ => sq :: sq :: sq :: nl :: s ++ [sq; sq; sq]
  | RLiteral false true => sq :: sq :: sq :: s ++ [sq; sq; sq]
  | RLiteral false false => sq :: s ++ [sq]
  | RStd ml => emit_std ml s
  end.

(* escape_key: bare, else emit_str(key, is_key = true) = Repr::Std(OnelineSingle) *)
Definition escape_key (k : bytes) : bytes :=
  if bare_key_ok k then k else emit_std false k.

(* ------------------------------------------------------------------ *)
(* ser.rs: scalars                                                     *)

Definition has_dot (t : bytes) : bool := existsb (fun c => ceq c "."%char) t.

(* serialize_float!: "-nan" / "nan" / "-0.0" / "0.0" / Display, plus ".0" when v % 1.0 == 0.0
   (Display prints a fractional part exactly when the value is not integral; inf % 1.0 is NaN) *)
Definition float_text (f : tfloat) : bytes :=
  match f with
  | TNan true => b "-nan"
  | TNan false => b "nan"
  | TInf true => b "-inf"
  | TInf false => b "inf"
  | TFin t =>
    if bytes_eqb t (b "-0") then b "-0.0"
    else if bytes_eqb t (b "0") then b "0.0"
    else if has_dot t then t else t ++ b ".0"
  end.

Definition bool_text (v : bool) : bytes := if v then b "true" else b "false".

(* ------------------------------------------------------------------ *)
(* ser.rs: the serializer state.
   State<'a> is a parent-linked chain; here a list, innermost frame first, [] = State::End.
   A Table frame carries the `first` / `table_emitted` Cells of the SerializeTable that is
   serializing the entry, an Array frame the `first` / `type_` Cells of the SerializeSeq.
   Functions that write to Cells return the updated chain.                              *)

Inductive astate := AStarted | AAsTable.

Inductive frame :=
| FT (key : bytes) (first te : bool)
| FA (first : bool) (ty : option astate) (len : nat).

Definition stack := list frame.

Definition is_FA (f : frame) : bool := match f with FA _ _ _ => true | FT _ _ _ => false end.

(* array_type *)
Definition array_type (t : astate) (st : stack) : stack :=
  match st with
  | FA first None len :: par => FA first (Some t) len :: par
  | _ => st
  end.

Definition indent4 : bytes := [sp; sp; sp; sp].

(* emit_array with settings.array = Some(indent 4) *)
Definition emit_array (first : bool) (len : nat) : bytes :=
  if (len <=? 1)%nat then (if first then ["["%char] else [","%char; sp])
  else (if first then "["%char :: nl :: indent4 else ","%char :: nl :: indent4).

(* emit_key_part: the dotted path, and whether nothing was written (`first`) *)
Fixpoint key_part (st : stack) : bytes * bool :=
  match st with
  | [] => ([], true)
  | FA _ _ _ :: par => key_part par
  | FT k _ _ :: par =>
    let (o, fst_) := key_part par in
    (o ++ (if fst_ then [] else ["."%char]) ++ escape_key k, false)
  end.

(* ... and its Cell effect: table_emitted.set(true) on every Table frame of the chain *)
Fixpoint set_te (st : stack) : stack :=
  match st with
  | [] => []
  | FA f t n :: par => FA f t n :: set_te par
  | FT k f _ :: par => FT k f true :: set_te par
  end.

(* emit_table_header: the `while let State::Table` walk; Some a = the Array state whose
   [[header]] is emitted first *)
Fixpoint anc_walk (p : stack) : option stack :=
  match p with
  | FT _ first _ :: par =>
    if negb first then None
    else match par with
         | FA _ _ _ :: FT _ _ _ :: _ => Some par
         | _ => anc_walk par
         end
  | _ => None
  end.

Definition anc_start (st : stack) : stack :=
  match st with
  | FA true _ _ :: par => par
  | _ => st
  end.

(* emit_table_header: the text.  The recursive call is on a proper suffix of the chain. *)
Fixpoint header_out (fuel : nat) (st : stack) : bytes :=
  match fuel with
  | O => []
  | S fuel' =>
    match st with
    | [] => []
    | fr :: par =>
      let pre := match anc_walk (anc_start st) with
                 | Some a => header_out fuel' a
                 | None => []
                 end in
      let blank :=
          match fr with
          | FT _ first _ => negb first
          | FA first _ _ =>
            if negb first then true
            else match par with FT _ pf _ :: _ => negb pf | _ => false end
          end in
      let aot := is_FA fr in
      pre ++ (if blank then [nl] else [])
          ++ "["%char :: (if aot then ["["%char] else [])
          ++ fst (key_part st)
          ++ (if aot then ["]"%char] else []) ++ ["]"%char; nl]
    end
  end.

(* emit_table_header: text and Cell effect.  Every path through the function (for a state
   other than End) ends in emit_key_part(state), which sets table_emitted on every Table
   frame; the recursive call does the same on a suffix and nothing else is written. *)
Definition emit_table_header (st : stack) : bytes * stack :=
  (header_out (List.length st) st, set_te st).

(* _emit_key *)
Fixpoint emit_key_rec (st : stack) : tres (bytes * stack) :=
  match st with
  | [] => TOk ([], [])
  | FA first ty len :: par =>
    match ty with
    | None => TErr EPanic                       (* assert!(type_.get().is_some()) *)
    | Some _ =>
      if first then
        match emit_key_rec par with
        | TErr e => TErr e
        | TOk (o, par') => TOk (o ++ emit_array true len, FA first ty len :: par')
        end
      else TOk (emit_array false len, st)
    end
  | FT k first te :: par =>
    if te then TErr EValueAfterTable
    else if first then
      let (o, par') := emit_table_header par in
      TOk (o ++ escape_key k ++ [sp; "="%char; sp], FT k false te :: par')
    else TOk (escape_key k ++ [sp; "="%char; sp], st)
  end.

(* emit_key *)
Definition emit_key (t : astate) (st : stack) : tres (bytes * stack) :=
  emit_key_rec (array_type t st).

(* if let State::Table = self.state then push a newline *)
Definition nl_if_table (st : stack) : bytes :=
  match st with FT _ _ _ :: _ => [nl] | _ => [] end.

(* display / serialize_str / serialize_float: key, text, newline *)
Definition ser_scalar (txt : bytes) (st : stack) : tres (bytes * stack) :=
  match emit_key AStarted st with
  | TErr e => TErr e
  | TOk (o, st') => TOk (o ++ txt ++ nl_if_table st, st')
  end.

(* value.rs, impl Serialize for Value: which of the three loops visits an entry *)
Definition pass1 (v : tval) : bool :=
  match v with
  | TTab _ => false
  | TArr l => negb (existsb is_table l)
  | _ => true
  end.
Definition pass2 (v : tval) : bool :=
  match v with
  | TArr l => existsb is_table l
  | _ => false
  end.
Definition pass3 (v : tval) : bool := is_table v.

Section Loops.
  (* the serializer for one value, [ser] below *)
  Variable f : tval -> stack -> tres (bytes * stack).

  (* SerializeSeq::serialize_element for each item, threading the Cells first / type_ *)
  Fixpoint seq_elems (len : nat) (l : list tval) (first : bool) (ty : option astate) (par : stack)
    : tres (bytes * (option astate * stack)) :=
    match l with
    | [] => TOk ([], (ty, par))
    | x :: xs =>
      match f x (FA first ty len :: par) with
      | TErr e => TErr e
      | TOk (o, FA _ ty' _ :: par') =>
        match seq_elems len xs false ty' par' with
        | TErr e => TErr e
        | TOk (o2, r) => TOk (o ++ o2, r)
        end
      | TOk _ => TErr EPanic
      end
    end.

  (* one `for (k, v) in t { if <pass> { map.serialize_entry(k, v)? } }` loop,
     threading the Cells first / table_emitted of the SerializeTable *)
  Fixpoint tab_pass (p : tval -> bool) (l : list (bytes * tval)) (first te : bool) (par : stack)
    : tres (bytes * (bool * bool * stack)) :=
    match l with
    | [] => TOk ([], (first, te, par))
    | (k, x) :: r =>
      if p x then
        match f x (FT k first te :: par) with
        | TErr e => TErr e
        | TOk (o, FT _ _ te' :: par') =>
          (* Ok(()) => first.set(false) *)
          match tab_pass p r false te' par' with
          | TErr e => TErr e
          | TOk (o2, c) => TOk (o ++ o2, c)
          end
        | TOk _ => TErr EPanic
        end
      else tab_pass p r first te par
    end.
End Loops.

(* SerializeSeq::end *)
Definition seq_end (len : nat) (ty : option astate) (par : stack) : tres (bytes * stack) :=
  match ty with
  | Some AAsTable => TOk ([], par)
  | Some AStarted =>
    TOk ((if (len <=? 1)%nat then ["]"%char] else [","%char; nl; "]"%char]) ++ nl_if_table par, par)
  | None =>
    match emit_key AStarted par with
    | TErr e => TErr e
    | TOk (o, par') => TOk (o ++ ["["%char; "]"%char] ++ nl_if_table par, par')
    end
  end.

(* Value::serialize(&mut Serializer { state, .. }) *)
Fixpoint ser (v : tval) (st : stack) : tres (bytes * stack) :=
  match v with
  | TStr s => ser_scalar (emit_value_str s) st
  | TInt z => ser_scalar (dec_of_Z z) st
  | TFloat x => ser_scalar (float_text x) st
  | TBool x => ser_scalar (bool_text x) st
  | TArr l =>
    (* serialize_seq(Some(len)) *)
    let st0 := array_type AStarted st in
    let len := List.length l in
    match seq_elems ser len l true None st0 with
    | TErr e => TErr e
    | TOk (o, (ty, par)) =>
      match seq_end len ty par with
      | TErr e => TErr e
      | TOk (o2, par') => TOk (o ++ o2, par')
      end
    end
  | TTab kvs =>
    (* serialize_map *)
    let st0 := array_type AAsTable st in
    match tab_pass ser pass1 kvs true false st0 with
    | TErr e => TErr e
    | TOk (o1, (f1, te1, par1)) =>
      match tab_pass ser pass2 kvs f1 te1 par1 with
      | TErr e => TErr e
      | TOk (o2, (f2, te2, par2)) =>
        match tab_pass ser pass3 kvs f2 te2 par2 with
        | TErr e => TErr e
        | TOk (o3, (f3, _, par3)) =>
          (* SerializeMap::end *)
          if f3 then let (o4, par4) := emit_table_header par3 in TOk (o1 ++ o2 ++ o3 ++ o4, par4)
          else TOk (o1 ++ o2 ++ o3, par3)
        end
      end
    end
  end.

(* toml::ser::to_string_pretty(&value) *)
Definition ser_root (t : tval) : tres bytes :=
  match ser t [] with
  | TErr e => TErr e
  | TOk (o, _) => TOk o
  end.

(* TomlConverter::write after convert_value *)
Definition toml_emit (t : tval) : tres bytes :=
  if is_table t then ser_root t else TErr ENotTable.

(* the whole converter *)
Definition toml_output (v : val) : tres bytes :=
  match to_toml v with
  | TErr e => TErr e
  | TOk t => toml_emit t
  end.

(* ================================================================== *)
(* The data a TOML document denotes                                    *)

Inductive dfloat :=
| DFin (neg : bool) (m : N) (e : Z)   (* (-1)^neg * m * 10^e, normalised: m = 0 /\ e = 0, or 10 does not divide m *)
| DNan
| DInf (neg : bool).

Inductive tdoc :=
| DStr (s : bytes)
| DInt (z : Z)
| DFloat (f : dfloat)
| DBool (v : bool)
| DDate (txt : bytes)                  (* any of the four date-time kinds, as written *)
| DArr (l : list tdoc)
| DTab (kvs : list (bytes * tdoc)).

(* decimal normalisation *)
Fixpoint strip_zeros (fuel : nat) (m : N) (e : Z) : N * Z :=
  match fuel with
  | O => (m, e)
  | S f =>
    if (m =? 0)%N then (0%N, 0%Z)
    else if (m mod 10 =? 0)%N then strip_zeros f (m / 10)%N (e + 1)%Z
    else (m, e)
  end.

Definition norm_dec (m : N) (e : Z) : N * Z :=
  strip_zeros (S (N.to_nat (N.log2 m))) m e.

Definition mk_fin (neg : bool) (m : N) (e : Z) : dfloat :=
  let (m', e') := norm_dec m e in DFin neg m' e'.

(* ================================================================== *)
(* toml_parse: a reader written from the TOML v0.5.0 specification.
   Deviations, all documented in STATUS.md:
   - bytes >= 0x80 are accepted as they are (no UTF-8 validation);
   - arrays may mix value types (as in TOML 1.0; toml-rs 0.5.11 writes such arrays);
   - dotted keys are supported in [table] / [[array]] headers only;
   - date-times are recognised by shape and kept as text.                              *)

Definition is_wschar (c : ascii) : bool := ceq c sp || ceq c tab.

Fixpoint skip_ws (s : bytes) : bytes :=
  match s with
  | c :: s' => if is_wschar c then skip_ws s' else s
  | [] => []
  end.

(* ---- strings ---- *)

Definition hex8 (a1 a2 a3 a4 a5 a6 a7 a8 : ascii) : option N :=
  match hex4 a1 a2 a3 a4, hex4 a5 a6 a7 a8 with
  | Some x, Some y => Some (x * 65536 + y)%N
  | _, _ => None
  end.

(* Unicode scalar values *)
Definition scalar_ok (n : N) : bool :=
  (n <? 55296)%N || ((57344 <=? n)%N && (n <=? 1114111)%N).

(* the escapes b t n f r, quote, backslash *)
Definition unescape_toml (e : ascii) : option ascii :=
  if ceq e "b"%char then Some (ascii_of_N 8)
  else if ceq e "t"%char then Some tab
  else if ceq e "n"%char then Some nl
  else if ceq e "f"%char then Some (ascii_of_N 12)
  else if ceq e "r"%char then Some cr
  else if ceq e dq then Some dq
  else if ceq e bsl then Some bsl
  else None.

(* a character that may appear unescaped in a basic string: not a control character
   (U+0000..U+001F, U+007F); quote and backslash are handled by the callers *)
Definition basic_raw_ok (c : ascii) : bool :=
  let n := code c in (32 <=? n)%N && negb (n =? 127)%N.

(* ... in a literal string: tab is allowed as well *)
Definition literal_raw_ok (c : ascii) : bool :=
  ceq c tab || basic_raw_ok c.

(* [s] is the text after the opening quote; result: decoded bytes, text after the closing quote *)
Fixpoint parse_basic (s acc : bytes) : option (bytes * bytes) :=
  match s with
  | [] => None
  | c :: s1 =>
    if ceq c dq then Some (rev' acc, s1)
    else if ceq c bsl then
      match s1 with
      | [] => None
      | e :: s2 =>
        if ceq e "u"%char then
          match s2 with
          | h1 :: h2 :: h3 :: h4 :: s6 =>
            match hex4 h1 h2 h3 h4 with
            | Some n => if scalar_ok n then parse_basic s6 (rev_append (utf8 n) acc) else None
            | None => None
            end
          | _ => None
          end
        else if ceq e "U"%char then
          match s2 with
          | h1 :: h2 :: h3 :: h4 :: h5 :: h6 :: h7 :: h8 :: s10 =>
            match hex8 h1 h2 h3 h4 h5 h6 h7 h8 with
            | Some n => if scalar_ok n then parse_basic s10 (rev_append (utf8 n) acc) else None
            | None => None
            end
          | _ => None
          end
        else
          match unescape_toml e with
          | Some x => parse_basic s2 (x :: acc)
          | None => None
          end
      end
    else if basic_raw_ok c then parse_basic s1 (c :: acc)
    else None
  end.

(* after a backslash in a multi-line basic string: only whitespace up to the end of the line? *)
Fixpoint line_cont (s : bytes) : bool :=
  match s with
  | [] => false
  | c :: r =>
    if ceq c nl then true
    else if ceq c cr then match r with n :: _ => ceq n nl | [] => false end
    else if is_wschar c then line_cont r
    else false
  end.

(* multi-line basic string body; [trim] = inside the whitespace eaten by a line-ending backslash *)
Fixpoint parse_mlb (trim : bool) (s acc : bytes) : option (bytes * bytes) :=
  match s with
  | [] => None
  | c :: s1 =>
    if trim && (is_wschar c || ceq c nl || ceq c cr) then parse_mlb true s1 acc
    else if ceq c dq then
      match s1 with
      | c2 :: c3 :: s3 =>
        if ceq c2 dq && ceq c3 dq then Some (rev' acc, s3) else parse_mlb false s1 (c :: acc)
      | _ => parse_mlb false s1 (c :: acc)
      end
    else if ceq c bsl then
      if line_cont s1 then parse_mlb true s1 acc
      else
      match s1 with
      | [] => None
      | e :: s2 =>
        if ceq e "u"%char then
          match s2 with
          | h1 :: h2 :: h3 :: h4 :: s6 =>
            match hex4 h1 h2 h3 h4 with
            | Some n => if scalar_ok n then parse_mlb false s6 (rev_append (utf8 n) acc) else None
            | None => None
            end
          | _ => None
          end
        else if ceq e "U"%char then
          match s2 with
          | h1 :: h2 :: h3 :: h4 :: h5 :: h6 :: h7 :: h8 :: s10 =>
            match hex8 h1 h2 h3 h4 h5 h6 h7 h8 with
            | Some n => if scalar_ok n then parse_mlb false s10 (rev_append (utf8 n) acc) else None
            | None => None
            end
          | _ => None
          end
        else
          match unescape_toml e with
          | Some x => parse_mlb false s2 (x :: acc)
          | None => None
          end
      end
    else if ceq c nl then parse_mlb false s1 (c :: acc)
    else if ceq c cr then
      match s1 with
      | n :: s2 => if ceq n nl then parse_mlb false s2 (n :: c :: acc) else None
      | [] => None
      end
    else if basic_raw_ok c then parse_mlb false s1 (c :: acc)
    else None
  end.

Fixpoint parse_literal (s acc : bytes) : option (bytes * bytes) :=
  match s with
  | [] => None
  | c :: s1 =>
    if ceq c sq then Some (rev' acc, s1)
    else if literal_raw_ok c then parse_literal s1 (c :: acc)
    else None
  end.

(* multi-line literal body: ends at the first ''' *)
Fixpoint parse_mll (s acc : bytes) : option (bytes * bytes) :=
  match s with
  | [] => None
  | c :: s1 =>
    if ceq c sq then
      match s1 with
      | c2 :: c3 :: s3 =>
        if ceq c2 sq && ceq c3 sq then Some (rev' acc, s3) else parse_mll s1 (c :: acc)
      | _ => parse_mll s1 (c :: acc)
      end
    else if ceq c nl then parse_mll s1 (c :: acc)
    else if ceq c cr then
      match s1 with
      | n :: s2 => if ceq n nl then parse_mll s2 (n :: c :: acc) else None
      | [] => None
      end
    else if literal_raw_ok c then parse_mll s1 (c :: acc)
    else None
  end.

(* a newline immediately after the opening delimiter is trimmed *)
Definition trim_nl (s : bytes) : bytes :=
  match s with
  | c :: r =>
    if ceq c nl then r
    else if ceq c cr then match r with n :: r2 => if ceq n nl then r2 else s | [] => s end
    else s
  | [] => []
  end.

(* [s] starts at the opening quote *)
Definition parse_string (s : bytes) : option (bytes * bytes) :=
  match s with
  | c :: s1 =>
    if ceq c dq then
      match s1 with
      | c2 :: c3 :: s3 =>
        if ceq c2 dq && ceq c3 dq then parse_mlb false (trim_nl s3) [] else parse_basic s1 []
      | _ => parse_basic s1 []
      end
    else if ceq c sq then
      match s1 with
      | c2 :: c3 :: s3 =>
        if ceq c2 sq && ceq c3 sq then parse_mll (trim_nl s3) [] else parse_literal s1 []
      | _ => parse_literal s1 []
      end
    else None
  | [] => None
  end.

(* ---- keys ---- *)

Fixpoint span_bare (s : bytes) : bytes * bytes :=
  match s with
  | c :: s' => if is_bare_char c then let (k, r) := span_bare s' in (c :: k, r) else ([], s)
  | [] => ([], [])
  end.

(* bare, basic-quoted or literal-quoted (never multi-line) *)
Definition parse_key (s : bytes) : option (bytes * bytes) :=
  match s with
  | c :: s1 =>
    if ceq c dq then parse_basic s1 []
    else if ceq c sq then parse_literal s1 []
    else match span_bare s with
         | ([], _) => None
         | (k, r) => Some (k, r)
         end
  | [] => None
  end.

(* ---- numbers, booleans, date-times: one token, then classified ---- *)

Definition is_alpha (c : ascii) : bool :=
  let n := code c in ((97 <=? n)%N && (n <=? 122)%N) || ((65 <=? n)%N && (n <=? 90)%N).

Definition is_tok_char (c : ascii) : bool :=
  is_digit c || is_alpha c || ceq c "_"%char || ceq c "+"%char || ceq c "-"%char
  || ceq c "."%char || ceq c ":"%char.

Fixpoint span_tok (s : bytes) : bytes * bytes :=
  match s with
  | c :: s' => if is_tok_char c then let (k, r) := span_tok s' in (c :: k, r) else ([], s)
  | [] => ([], [])
  end.

(* digits with single underscores between digits; result: the digits *)
Fixpoint us_digits (isd : ascii -> bool) (prev : bool) (s : bytes) : option bytes :=
  match s with
  | [] => if prev then Some [] else None
  | c :: r =>
    if isd c then option_map (cons c) (us_digits isd true r)
    else if ceq c "_"%char && prev then us_digits isd false r
    else None
  end.

Definition no_leading_zero (ds : bytes) : bool :=
  match ds with
  | [] => false
  | [_] => true
  | c :: _ :: _ => negb (ceq c "0"%char)
  end.

Definition is_hex_digit (c : ascii) : bool := match hex_val c with Some _ => true | None => false end.
Definition is_oct_digit (c : ascii) : bool := let n := code c in (48 <=? n)%N && (n <=? 55)%N.
Definition is_bin_digit (c : ascii) : bool := ceq c "0"%char || ceq c "1"%char.

Definition base_val (base : N) (ds : bytes) : N :=
  fold_left (fun a c => (a * base + match hex_val c with Some d => d | None => 0 end)%N) ds 0%N.

Definition in_i64 (z : Z) : bool := (i64_min <=? z)%Z && (z <=? i64_max)%Z.

Definition split_sign (t : bytes) : option bool * bytes :=
  match t with
  | c :: r => if ceq c "-"%char then (Some true, r) else if ceq c "+"%char then (Some false, r) else (None, t)
  | [] => (None, [])
  end.

Definition sign_neg (s : option bool) : bool := match s with Some true => true | _ => false end.

Definition parse_int_tok (t : bytes) : option Z :=
  let (sg, u) := split_sign t in
  let dec :=
      match us_digits is_digit false u with
      | Some ds =>
        if no_leading_zero ds then
          let m := Z.of_N (digits_val ds) in
          let z := if sign_neg sg then (- m)%Z else m in
          if in_i64 z then Some z else None
        else None
      | None => None
      end in
  match sg, u with
  | None, z0 :: x :: r =>
    if ceq z0 "0"%char then
      let pref (isd : ascii -> bool) (base : N) :=
          match us_digits isd false r with
          | Some ds => let z := Z.of_N (base_val base ds) in if in_i64 z then Some z else None
          | None => None
          end in
      if ceq x "x"%char then pref is_hex_digit 16%N
      else if ceq x "o"%char then pref is_oct_digit 8%N
      else if ceq x "b"%char then pref is_bin_digit 2%N
      else dec
    else dec
  | _, _ => dec
  end.

Fixpoint span_until (p : ascii -> bool) (s : bytes) : bytes * bytes :=
  match s with
  | c :: s' => if p c then ([], s) else let (k, r) := span_until p s' in (c :: k, r)
  | [] => ([], [])
  end.

Definition is_e (c : ascii) : bool := ceq c "e"%char || ceq c "E"%char.

(* float = dec-int ( exp / frac [ exp ] ), or [sign] inf / nan *)
Definition parse_float_tok (t : bytes) : option dfloat :=
  let (sg, u) := split_sign t in
  let neg := sign_neg sg in
  if bytes_eqb u (b "inf") then Some (DInf neg)
  else if bytes_eqb u (b "nan") then Some DNan
  else
    let (ip, r1) := span_until (fun c => ceq c "."%char || is_e c) u in
    match us_digits is_digit false ip with
    | None => None
    | Some ids =>
      if negb (no_leading_zero ids) then None else
      let '(fr, r2) :=
          match r1 with
          | c :: r => if ceq c "."%char then let (f, r') := span_until is_e r in (Some f, r') else (None, r1)
          | [] => (None, [])
          end in
      let fds := match fr with Some f => us_digits is_digit false f | None => Some [] end in
      let ex :=
          match r2 with
          | [] => Some None
          | _ :: r =>                                   (* the e / E *)
            let (esg, eds) := split_sign r in
            match us_digits is_digit false eds with
            | Some ds => Some (Some (if sign_neg esg then (- Z.of_N (digits_val ds))%Z else Z.of_N (digits_val ds)))
            | None => None
            end
          end in
      match fds, ex with
      | Some fd, Some ex' =>
        match fr, ex' with
        | None, None => None                            (* an integer, not a float *)
        | _, _ =>
          let e := match ex' with Some e => e | None => 0%Z end in
          Some (mk_fin neg (digits_val (ids ++ fd)) (e - Z.of_nat (List.length fd))%Z)
        end
      | _, _ => None
      end
    end.

(* date-time shapes (RFC 3339 as used by TOML); D = digit *)
Definition all_digits (s : bytes) : bool := forallb is_digit s.

(* DDDD-DD-DD, returns the rest *)
Definition take_date (t : bytes) : option bytes :=
  match t with
  | y1 :: y2 :: y3 :: y4 :: d1 :: m1 :: m2 :: d2 :: a1 :: a2 :: r =>
    if all_digits [y1; y2; y3; y4; m1; m2; a1; a2] && ceq d1 "-"%char && ceq d2 "-"%char then Some r else None
  | _ => None
  end.

(* DD:DD:DD[.D+], returns the rest *)
Definition take_time (t : bytes) : option bytes :=
  match t with
  | h1 :: h2 :: c1 :: m1 :: m2 :: c2 :: s1 :: s2 :: r =>
    if all_digits [h1; h2; m1; m2; s1; s2] && ceq c1 ":"%char && ceq c2 ":"%char then
      match r with
      | d :: r' =>
        if ceq d "."%char then
          match span_digits r' with
          | ([], _) => None
          | (_, r'') => Some r''
          end
        else Some r
      | [] => Some []
      end
    else None
  | _ => None
  end.

(* nothing, Z, z, or (+|-)DD:DD *)
Definition is_offset (t : bytes) : bool :=
  match t with
  | [] => true
  | [z] => ceq z "Z"%char || ceq z "z"%char
  | [s; h1; h2; c; m1; m2] =>
    (ceq s "+"%char || ceq s "-"%char) && all_digits [h1; h2; m1; m2] && ceq c ":"%char
  | _ => false
  end.

Definition is_time_tok (t : bytes) : bool :=
  match take_time t with Some r => is_offset r | None => false end.

Definition is_local_time_tok (t : bytes) : bool :=
  match take_time t with Some [] => true | _ => false end.

Definition is_date_tok (t : bytes) : bool :=
  match take_date t with Some [] => true | _ => false end.

Definition is_datetime_tok (t : bytes) : bool :=
  is_local_time_tok t ||
  match take_date t with
  | Some [] => true
  | Some (c :: r) => (ceq c "T"%char || ceq c "t"%char) && is_time_tok r
  | None => false
  end.

Definition classify_tok (t : bytes) : option tdoc :=
  if bytes_eqb t (b "true") then Some (DBool true)
  else if bytes_eqb t (b "false") then Some (DBool false)
  else if is_datetime_tok t then Some (DDate t)
  else match parse_int_tok t with
       | Some z => Some (DInt z)
       | None => match parse_float_tok t with
                 | Some f => Some (DFloat f)
                 | None => None
                 end
       end.

(* a date and a time may be separated by one space instead of T *)
Definition parse_scalar (s : bytes) : option (tdoc * bytes) :=
  let (t, r) := span_tok s in
  match t with
  | [] => None
  | _ :: _ =>
    let plain := match classify_tok t with Some d => Some (d, r) | None => None end in
    if is_date_tok t then
      match r with
      | c :: r1 =>
        if ceq c sp then
          let (t2, r2) := span_tok r1 in
          if is_time_tok t2 then Some (DDate (t ++ sp :: t2), r2) else plain
        else plain
      | [] => plain
      end
    else plain
  end.

(* ---- values ---- *)

(* whitespace, newlines and comments (inside arrays); [in_c] = inside a comment *)
Fixpoint skip_wcn (in_c : bool) (s : bytes) : bytes :=
  match s with
  | [] => []
  | c :: r =>
    if in_c then (if ceq c nl then skip_wcn false r else skip_wcn true r)
    else if is_wschar c || ceq c nl then skip_wcn false r
    else if ceq c cr then
      match r with
      | n :: _ => if ceq n nl then skip_wcn false r else s
      | [] => s
      end
    else if ceq c "#"%char then skip_wcn true r
    else s
  end.

Definition has_key {V : Type} (k : bytes) (l : list (bytes * V)) : bool :=
  existsb (fun kv => bytes_eqb k (fst kv)) l.

Section RLoops.
  Variable pv : bytes -> option (tdoc * bytes).

  (* after "[" : ( value ( "," value )* [","] )? "]" with whitespace / newlines / comments around *)
  Fixpoint arr_loop (n : nat) (s : bytes) (acc : list tdoc) : option (list tdoc * bytes) :=
    match n with
    | O => None
    | S n' =>
      match skip_wcn false s with
      | [] => None
      | c :: r =>
        if ceq c "]"%char then Some (rev' acc, r)
        else
          match pv (c :: r) with
          | None => None
          | Some (v, r1) =>
            match skip_wcn false r1 with
            | d :: r2 =>
              if ceq d ","%char then arr_loop n' r2 (v :: acc)
              else if ceq d "]"%char then Some (rev' (v :: acc), r2)
              else None
            | [] => None
            end
          end
      end
    end.

  (* after "{" when the table is not empty: key = value ( "," key = value )* "}" on one line *)
  Fixpoint inl_loop (n : nat) (s : bytes) (acc : list (bytes * tdoc)) : option (list (bytes * tdoc) * bytes) :=
    match n with
    | O => None
    | S n' =>
      match parse_key (skip_ws s) with
      | None => None
      | Some (k, r1) =>
        if has_key k acc then None else
        match skip_ws r1 with
        | e :: r2 =>
          if ceq e "="%char then
            match pv (skip_ws r2) with
            | None => None
            | Some (v, r3) =>
              match skip_ws r3 with
              | d :: r4 =>
                if ceq d ","%char then inl_loop n' r4 ((k, v) :: acc)
                else if ceq d "}"%char then Some (rev' ((k, v) :: acc), r4)
                else None
              | [] => None
              end
            end
          else None
        | [] => None
        end
      end
    end.
End RLoops.

(* [s] starts at the first character of the value *)
Fixpoint parse_val (fuel : nat) (s : bytes) : option (tdoc * bytes) :=
  match fuel with
  | O => None
  | S f =>
    match s with
    | [] => None
    | c :: s1 =>
      if ceq c dq || ceq c sq then
        match parse_string s with Some (str, r) => Some (DStr str, r) | None => None end
      else if ceq c "["%char then
        match arr_loop (parse_val f) f s1 [] with Some (l, r) => Some (DArr l, r) | None => None end
      else if ceq c "{"%char then
        match skip_ws s1 with
        | c2 :: r2 =>
          if ceq c2 "}"%char then Some (DTab [], r2)
          else match inl_loop (parse_val f) f s1 [] with Some (l, r) => Some (DTab l, r) | None => None end
        | [] => None
        end
      else parse_scalar s
    end
  end.

(* ---- lines ---- *)

Inductive item :=
| IKV (k : bytes) (v : tdoc)
| IHead (path : list bytes)      (* [a.b]   *)
| IAHead (path : list bytes).    (* [[a.b]] *)

(* the rest of a comment, up to (not including) the newline *)
Fixpoint skip_comment (s : bytes) : bytes :=
  match s with
  | c :: r => if ceq c nl then s else skip_comment r
  | [] => []
  end.

(* after a key/value pair or a header: whitespace, optional comment, then newline or end of input *)
Definition line_end (s : bytes) : option bytes :=
  let s1 := skip_ws s in
  let s2 := match s1 with c :: r => if ceq c "#"%char then skip_comment r else s1 | [] => [] end in
  match s2 with
  | [] => Some []
  | c :: r =>
    if ceq c nl then Some r
    else if ceq c cr then match r with n :: r2 => if ceq n nl then Some r2 else None | [] => None end
    else None
  end.

(* key ( "." key )* with whitespace around the dots *)
Fixpoint parse_path (n : nat) (s : bytes) (acc : list bytes) : option (list bytes * bytes) :=
  match n with
  | O => None
  | S n' =>
    match parse_key (skip_ws s) with
    | None => None
    | Some (k, r) =>
      match skip_ws r with
      | c :: r2 => if ceq c "."%char then parse_path n' r2 (k :: acc) else Some (rev' (k :: acc), c :: r2)
      | [] => Some (rev' (k :: acc), [])
      end
    end
  end.

Fixpoint doc_items (fuel : nat) (s : bytes) (acc : list item) : option (list item) :=
  match fuel with
  | O => None
  | S f =>
    match skip_ws s with
    | [] => Some (rev' acc)
    | c :: s1 =>
      if ceq c nl then doc_items f s1 acc
      else if ceq c cr then
        match s1 with
        | n :: s2 => if ceq n nl then doc_items f s2 acc else None
        | [] => None
        end
      else if ceq c "#"%char then doc_items f (skip_comment s1) acc
      else if ceq c "["%char then
        match s1 with
        | c2 :: s2 =>
          if ceq c2 "["%char then
            match parse_path (List.length s2) s2 [] with
            | Some (p, c3 :: c4 :: r) =>
              if ceq c3 "]"%char && ceq c4 "]"%char then
                match line_end r with Some r' => doc_items f r' (IAHead p :: acc) | None => None end
              else None
            | _ => None
            end
          else
            match parse_path (List.length s1) s1 [] with
            | Some (p, c3 :: r) =>
              if ceq c3 "]"%char then
                match line_end r with Some r' => doc_items f r' (IHead p :: acc) | None => None end
              else None
            | _ => None
            end
        | [] => None
        end
      else
        match parse_key (c :: s1) with
        | None => None
        | Some (k, r1) =>
          match skip_ws r1 with
          | e :: r2 =>
            if ceq e "="%char then
              let r3 := skip_ws r2 in
              match parse_val (S (List.length r3)) r3 with
              | None => None
              | Some (v, r4) =>
                match line_end r4 with Some r' => doc_items f r' (IKV k v :: acc) | None => None end
              end
            else None
          | [] => None
          end
        end
    end
  end.

(* ---- the table structure the lines define ---- *)

Inductive node :=
| NVal (d : tdoc)                                 (* a value written inline: closed *)
| NTab (explicit : bool) (kvs : list (bytes * node))   (* explicit: defined by a [header]; otherwise only implied by a longer header *)
| NAot (done : list (list (bytes * node))) (cur : list (bytes * node)).   (* [[array]]: earlier elements, current element *)

Definition entries := list (bytes * node).

(* replace the first binding of k *)
Fixpoint set_key (k : bytes) (n : node) (es : entries) : entries :=
  match es with
  | [] => []
  | (k', n') :: r => if bytes_eqb k k' then (k, n) :: r else (k', n') :: set_key k n r
  end.

(* apply [g] inside the table named k (creating it as an implied table; inside the current
   element when k is an array of tables) *)
Definition descend (k : bytes) (g : entries -> option entries) (es : entries) : option entries :=
  match lookup k es with
  | None => match g [] with Some r => Some (es ++ [(k, NTab false r)]) | None => None end
  | Some (NTab ex c) => match g c with Some r => Some (set_key k (NTab ex r) es) | None => None end
  | Some (NAot dn cur) => match g cur with Some r => Some (set_key k (NAot dn r) es) | None => None end
  | Some (NVal _) => None
  end.

Fixpoint at_path (p : list bytes) (g : entries -> option entries) (es : entries) : option entries :=
  match p with
  | [] => g es
  | k :: p' => descend k (at_path p' g) es
  end.

(* [k]: a table may be defined once; an implied table may be defined later *)
Definition define_tab (k : bytes) (es : entries) : option entries :=
  match lookup k es with
  | None => Some (es ++ [(k, NTab true [])])
  | Some (NTab false c) => Some (set_key k (NTab true c) es)
  | Some _ => None
  end.

(* [[k]]: start the array or append an element to it *)
Definition append_aot (k : bytes) (es : entries) : option entries :=
  match lookup k es with
  | None => Some (es ++ [(k, NAot [] [])])
  | Some (NAot dn cur) => Some (set_key k (NAot (dn ++ [cur]) []) es)
  | Some _ => None
  end.

(* k = v: a key may be defined once *)
Definition add_kv (k : bytes) (v : tdoc) (es : entries) : option entries :=
  match lookup k es with
  | None => Some (es ++ [(k, NVal v)])
  | Some _ => None
  end.

Fixpoint split_last (p : list bytes) : option (list bytes * bytes) :=
  match p with
  | [] => None
  | [k] => Some ([], k)
  | k :: p' => match split_last p' with Some (i, l) => Some (k :: i, l) | None => None end
  end.

(* state: the root table and the path of the current table *)
Definition bstate := (entries * list bytes)%type.

Definition build_step (it : item) (st : bstate) : option bstate :=
  let (root, cur) := st in
  match it with
  | IKV k v =>
    match at_path cur (add_kv k v) root with Some root' => Some (root', cur) | None => None end
  | IHead p =>
    match split_last p with
    | Some (i, l) => match at_path i (define_tab l) root with Some root' => Some (root', p) | None => None end
    | None => None
    end
  | IAHead p =>
    match split_last p with
    | Some (i, l) => match at_path i (append_aot l) root with Some root' => Some (root', p) | None => None end
    | None => None
    end
  end.

Fixpoint build_st (its : list item) (st : bstate) : option bstate :=
  match its with
  | [] => Some st
  | it :: r => match build_step it st with Some st' => build_st r st' | None => None end
  end.

Definition build (its : list item) : option entries :=
  match build_st its ([], []) with Some (root, _) => Some root | None => None end.

Fixpoint doc_of_node (n : node) : tdoc :=
  match n with
  | NVal d => d
  | NTab _ es =>
    DTab ((fix ents (es : list (bytes * node)) : list (bytes * tdoc) :=
             match es with [] => [] | (k, x) :: r => (k, doc_of_node x) :: ents r end) es)
  | NAot dn cur =>
    DArr ((fix els (l : list (list (bytes * node))) : list tdoc :=
             match l with
             | [] => [DTab ((fix ents (es : list (bytes * node)) : list (bytes * tdoc) :=
                               match es with [] => [] | (k, x) :: r => (k, doc_of_node x) :: ents r end) cur)]
             | e :: r =>
               DTab ((fix ents (es : list (bytes * node)) : list (bytes * tdoc) :=
                        match es with [] => [] | (k, x) :: r => (k, doc_of_node x) :: ents r end) e) :: els r
             end) dn)
  end.

Definition doc_of_entries (es : entries) : tdoc := doc_of_node (NTab true es).

Definition toml_parse (s : bytes) : option tdoc :=
  match doc_items (S (List.length s)) s [] with
  | None => None
  | Some its =>
    match build its with
    | Some root => Some (doc_of_entries root)
    | None => None
    end
  end.

(* ================================================================== *)
(* Comparison up to key order, and the specification                   *)

Fixpoint doc_canon (d : tdoc) : tdoc :=
  match d with
  | DArr l => DArr (map doc_canon l)
  | DTab kvs => DTab (sort_keys (map (fun kv => (fst kv, doc_canon (snd kv))) kvs))
  | _ => d
  end.

Definition dfloat_eqb (x y : dfloat) : bool :=
  match x, y with
  | DFin n1 m1 e1, DFin n2 m2 e2 => Bool.eqb n1 n2 && (m1 =? m2)%N && (e1 =? e2)%Z
  | DNan, DNan => true
  | DInf n1, DInf n2 => Bool.eqb n1 n2
  | _, _ => false
  end.

Fixpoint doc_eqb (x y : tdoc) : bool :=
  match x, y with
  | DStr s1, DStr s2 => bytes_eqb s1 s2
  | DInt z1, DInt z2 => (z1 =? z2)%Z
  | DFloat f1, DFloat f2 => dfloat_eqb f1 f2
  | DBool b1, DBool b2 => Bool.eqb b1 b2
  | DDate t1, DDate t2 => bytes_eqb t1 t2
  | DArr l1, DArr l2 =>
    (fix go (l1 l2 : list tdoc) : bool :=
       match l1, l2 with
       | [], [] => true
       | a :: r1, c :: r2 => doc_eqb a c && go r1 r2
       | _, _ => false
       end) l1 l2
  | DTab l1, DTab l2 =>
    (fix go (l1 l2 : list (bytes * tdoc)) : bool :=
       match l1, l2 with
       | [], [] => true
       | (k1, a) :: r1, (k2, c) :: r2 => bytes_eqb k1 k2 && doc_eqb a c && go r1 r2
       | _, _ => false
       end) l1 l2
  | _, _ => false
  end.

(* the text Rust prints for a finite f64: [-] digits [ . digits ], no leading zeros *)
Definition rust_float_parts (t : bytes) : option (bool * bytes * bytes) :=
  let (neg, t1) := match t with
                   | c :: r => if ceq c "-"%char then (true, r) else (false, t)
                   | [] => (false, [])
                   end in
  let (i, r) := span_digits t1 in
  if negb (no_leading_zero i) then None
  else match r with
       | [] => Some (neg, i, [])
       | c :: fr =>
         if ceq c "."%char then
           let (fd, r2) := span_digits fr in
           match fd, r2 with
           | _ :: _, [] => Some (neg, i, fd)
           | _, _ => None
           end
         else None
       end.

Definition spec_float (f : fl) : option dfloat :=
  match f with
  | FFin t =>
    match rust_float_parts t with
    | Some (neg, i, fd) => Some (mk_fin neg (digits_val (i ++ fd)) (- Z.of_nat (List.length fd))%Z)
    | None => None
    end
  | FNaN => Some DNan
  | FInf => Some (DInf false)
  | FNegInf => Some (DInf true)
  end.

(* the first binding of every key *)
Fixpoint dedup_first {V : Type} (seen : list bytes) (l : list (bytes * V)) : list (bytes * V) :=
  match l with
  | [] => []
  | (k, v) :: r =>
    if existsb (bytes_eqb k) seen then dedup_first seen r else (k, v) :: dedup_first (k :: seen) r
  end.

(* what must be read back, in canonical form (keys sorted); None: the value has no TOML counterpart *)
Fixpoint spec_data (v : val) : option tdoc :=
  match v with
  | VEmpty => None
  | VConstraint => None
  | VBool x => Some (DBool x)
  | VInt z => Some (DInt z)
  | VFloat f => option_map DFloat (spec_float f)
  | VStr s => Some (DStr s)
  | VList l =>
    option_map DArr
      ((fix go (l : list val) : option (list tdoc) :=
          match l with
          | [] => Some []
          | x :: xs =>
            match spec_data x, go xs with
            | Some a, Some r => Some (a :: r)
            | _, _ => None
            end
          end) l)
  | VTuple fs =>
    option_map (fun kvs => DTab (sort_keys (dedup_first [] kvs)))
      ((fix go (l : list (bytes * val)) : option (list (bytes * tdoc)) :=
          match l with
          | [] => Some []
          | (k, x) :: r =>
            match spec_data x, go r with
            | Some a, Some r' => Some ((k, a) :: r')
            | _, _ => None
            end
          end) fs)
  | VEnv fs => Some (DTab (sort_keys (dedup_first [] (map (fun kv => (fst kv, DStr (snd kv))) fs))))
  end.

(* does the text read back as the data?  (used by the driver) *)
Definition toml_rt_ok (v : val) (out : bytes) : bool :=
  match toml_parse out, spec_data v with
  | Some d, Some sd => doc_eqb (doc_canon d) sd
  | _, _ => false
  end.
