(* Proofs about the val <-> JSON mappings. *)
From Ucg Require Import base.Bytes base.Bytes_Lemmas data.Val data.Json data.Json_Lemmas data.MapJson.
From Coq Require Import QArith.
Close Scope Q_scope.
Local Open Scope list_scope.

(* ------------------------------------------------------------------ *)
(* Induction principle for [val]                                       *)

Section ValInd.
  Variable P : val -> Prop.
  Hypothesis Hempty : P VEmpty.
  Hypothesis Hbool : forall v, P (VBool v).
  Hypothesis Hint : forall z, P (VInt z).
  Hypothesis Hfloat : forall f, P (VFloat f).
  Hypothesis Hstr : forall s, P (VStr s).
  Hypothesis Hlist : forall l, Forall P l -> P (VList l).
  Hypothesis Htuple : forall fs, Forall (fun kv => P (snd kv)) fs -> P (VTuple fs).
  Hypothesis Henv : forall fs, P (VEnv fs).
  Hypothesis Hconstraint : P VConstraint.

  Fixpoint val_ind' (v : val) : P v :=
    match v with
    | VEmpty => Hempty
    | VBool x => Hbool x
    | VInt z => Hint z
    | VFloat f => Hfloat f
    | VStr s => Hstr s
    | VList l =>
      Hlist l ((fix go (l : list val) : Forall P l :=
                  match l with
                  | [] => Forall_nil _
                  | x :: xs => Forall_cons x (val_ind' x) (go xs)
                  end) l)
    | VTuple fs =>
      Htuple fs ((fix go (l : list (bytes * val)) : Forall (fun kv => P (snd kv)) l :=
                    match l with
                    | [] => Forall_nil _
                    | (k, x) :: r => Forall_cons (k, x) (val_ind' x) (go r)
                    end) fs)
    | VEnv fs => Henv fs
    | VConstraint => Hconstraint
    end.
End ValInd.

(* ------------------------------------------------------------------ *)
(* Decimal digits                                                      *)

Definition digit_char (r : N) : ascii := ascii_of_N (48 + r).

Lemma code_digit_char r : (r < 10)%N -> code (digit_char r) = (48 + r)%N.
Proof.
  intros H. unfold code, digit_char. apply N_ascii_embedding. lia.
Qed.

Lemma is_digit_digit_char r : (r < 10)%N -> is_digit (digit_char r) = true.
Proof.
  intros H. unfold is_digit. rewrite (code_digit_char r H).
  apply andb_true_iff; split; apply N.leb_le; lia.
Qed.

Lemma digit_char_nonzero r : (r < 10)%N -> r <> 0%N -> ceq (digit_char r) "0"%char = false.
Proof.
  intros H Hr. destruct (ceq (digit_char r) "0"%char) eqn:E; [|reflexivity].
  apply Ascii.eqb_eq in E. apply (f_equal code) in E.
  rewrite (code_digit_char r H) in E. change (code "0"%char) with 48%N in E. lia.
Qed.

Lemma digits_val_app ds c :
  digits_val (ds ++ [c]) = (digits_val ds * 10 + (code c - 48))%N.
Proof. unfold digits_val. rewrite fold_left_app. reflexivity. Qed.

Lemma pos_digits_fuel_spec : forall f n acc,
  (0 < n)%N -> (n < 2 ^ N.of_nat f)%N ->
  exists c t,
    pos_digits_fuel f n acc = (c :: t) ++ acc /\
    forallb is_digit (c :: t) = true /\
    ceq c "0"%char = false /\
    digits_val (c :: t) = n.
Proof.
  induction f as [|f IH]; intros n acc Hn Hf.
  - cbn in Hf. lia.
  - cbn [pos_digits_fuel].
    assert (Hr : (n mod 10 < 10)%N) by (apply N.mod_lt; lia).
    pose proof (N.div_mod n 10 ltac:(lia)) as Hdm.
    fold (digit_char (n mod 10)).
    destruct (N.eqb_spec (n / 10) 0) as [Hq|Hq].
    + exists (digit_char (n mod 10)), []. repeat split.
      * cbn. rewrite is_digit_digit_char by exact Hr. reflexivity.
      * apply digit_char_nonzero; [exact Hr|]. lia.
      * unfold digits_val. cbn [fold_left]. rewrite code_digit_char by exact Hr. lia.
    + assert (Hq0 : (0 < n / 10)%N) by lia.
      assert (Hqf : (n / 10 < 2 ^ N.of_nat f)%N).
      { apply N.div_lt_upper_bound; [lia|].
        rewrite Nat2N.inj_succ, N.pow_succ_r' in Hf. lia. }
      destruct (IH (n / 10)%N (digit_char (n mod 10) :: acc) Hq0 Hqf)
        as (c & t & E & Hd & Hc & Hv).
      exists c, (t ++ [digit_char (n mod 10)]). repeat split.
      * rewrite E. cbn [app]. rewrite <- app_assoc. reflexivity.
      * change (c :: t ++ [digit_char (n mod 10)]) with ((c :: t) ++ [digit_char (n mod 10)]).
        rewrite forallb_app, Hd. cbn. rewrite is_digit_digit_char by exact Hr. reflexivity.
      * exact Hc.
      * change (c :: t ++ [digit_char (n mod 10)]) with ((c :: t) ++ [digit_char (n mod 10)]).
        rewrite digits_val_app, Hv, code_digit_char by exact Hr. clear - Hdm. set (q := (n / 10)%N) in *. set (r := (n mod 10)%N) in *. lia.
Qed.

Lemma N_dec_spec n :
  (0 < n)%N ->
  exists c t,
    dec_of_N n = c :: t /\ forallb is_digit (c :: t) = true /\
    ceq c "0"%char = false /\ digits_val (c :: t) = n.
Proof.
  intros Hn. unfold dec_of_N.
  destruct (pos_digits_fuel_spec (S (N.to_nat (N.log2 n))) n [] Hn) as (c & t & E & H).
  - rewrite Nat2N.inj_succ, N2Nat.id. apply N.log2_spec. exact Hn.
  - exists c, t. rewrite E, app_nil_r. split; [reflexivity|exact H].
Qed.

(* ------------------------------------------------------------------ *)
(* The literal printed for an integer                                  *)

Lemma span_digits_app ds r :
  forallb is_digit ds = true ->
  match r with [] => True | c :: _ => is_digit c = false end ->
  span_digits (ds ++ r) = (ds, r).
Proof.
  intros Hd Hr. induction ds as [|c ds IH]; cbn [app span_digits].
  - destruct r as [|d r]; [reflexivity|]. cbn [span_digits]. rewrite Hr. reflexivity.
  - cbn [forallb] in Hd. apply andb_true_iff in Hd as [Hc Hd]. rewrite Hc, (IH Hd). reflexivity.
Qed.

Lemma is_digit_num_char c : is_digit c = true -> num_char c = true.
Proof. intros H. unfold num_char. rewrite H. reflexivity. Qed.

Lemma digits_num_chars ds : forallb is_digit ds = true -> forallb num_char ds = true.
Proof.
  induction ds as [|c ds IH]; cbn [forallb]; [reflexivity|].
  intros H. apply andb_true_iff in H as [Hc Hd].
  rewrite (is_digit_num_char c Hc), (IH Hd). reflexivity.
Qed.

Lemma is_digit_not_minus c : is_digit c = true -> ceq c "-"%char = false.
Proof.
  intros H. destruct (ceq c "-"%char) eqn:E; [|reflexivity].
  apply Ascii.eqb_eq in E. subst c. discriminate H.
Qed.

(* literal = [-] ds ".0" with ds a canonical digit string *)
Lemma num_split_int_dot0 (neg : bool) c t :
  forallb is_digit (c :: t) = true -> ceq c "0"%char = false ->
  num_split ((if neg then ["-"%char] else []) ++ (c :: t) ++ b ".0")
  = Some (mk_num_parts neg (c :: t) (b "0") false []).
Proof.
  intros Hd Hc.
  assert (Hcd : is_digit c = true).
  { cbn [forallb] in Hd. apply andb_true_iff in Hd as [H _]. exact H. }
  assert (Htd : forallb is_digit t = true).
  { cbn [forallb] in Hd. apply andb_true_iff in Hd as [_ H]. exact H. }
  assert (E : scan_int ((c :: t) ++ b ".0") = Some (c :: t, b ".0")).
  { cbn [app]. unfold scan_int. rewrite Hc, Hcd.
    rewrite (span_digits_app t (b ".0") Htd) by reflexivity. reflexivity. }
  unfold num_split. destruct neg.
  - cbn [app]. unfold scan_sign.
    replace (ceq "-"%char "-"%char) with true by reflexivity.
    change (c :: t ++ b ".0") with ((c :: t) ++ b ".0"). rewrite E. reflexivity.
  - cbn [app]. unfold scan_sign. rewrite (is_digit_not_minus c Hcd).
    change (c :: t ++ b ".0") with ((c :: t) ++ b ".0"). rewrite E. reflexivity.
Qed.

Lemma Z_dec_shape z :
  z <> 0%Z ->
  exists c t,
    Val.dec_of_Z z = (if (z <? 0)%Z then ["-"%char] else []) ++ c :: t /\
    forallb is_digit (c :: t) = true /\ ceq c "0"%char = false /\
    digits_val (c :: t) = Z.abs_N z.
Proof.
  intros Hz. destruct z as [|p|p]; [congruence| |].
  - destruct (N_dec_spec (Npos p) ltac:(lia)) as (c & t & E & H).
    exists c, t. split; [|exact H]. unfold Val.dec_of_Z. rewrite E. reflexivity.
  - destruct (N_dec_spec (Npos p) ltac:(lia)) as (c & t & E & H).
    exists c, t. split; [|exact H]. unfold Val.dec_of_Z. rewrite E. reflexivity.
Qed.

Lemma num_lit_ok_int z : num_lit_ok (Val.dec_of_Z z ++ b ".0") = true.
Proof.
  destruct (Z.eq_dec z 0) as [->|Hz]; [reflexivity|].
  destruct (Z_dec_shape z Hz) as (c & t & E & Hd & Hc & _).
  rewrite E. unfold num_lit_ok. rewrite <- app_assoc.
  change ((c :: t) ++ b ".0") with ((c :: t) ++ b ".0").
  rewrite (num_split_int_dot0 (z <? 0)%Z c t Hd Hc).
  rewrite andb_true_r. rewrite !forallb_app.
  rewrite (digits_num_chars _ Hd). destruct (z <? 0)%Z; reflexivity.
Qed.

(* the headline fact about the integer literal: mantissa/exponent *)
Lemma num_value_int z : num_value (Val.dec_of_Z z ++ b ".0") = Some (z * 10, -1)%Z.
Proof.
  destruct (Z.eq_dec z 0) as [->|Hz]; [reflexivity|].
  destruct (Z_dec_shape z Hz) as (c & t & E & Hd & Hc & Hv).
  rewrite E. unfold num_value. rewrite <- app_assoc.
  rewrite (num_split_int_dot0 (z <? 0)%Z c t Hd Hc).
  cbn [np_neg np_int np_frac np_eneg np_exp].
  change (b "0") with ["0"%char]. rewrite digits_val_app, Hv.
  cbn [List.length digits_val fold_left].
  f_equal. f_equal.
  - destruct (Z.ltb_spec z 0); cbn; lia.
Qed.

(* ... and that (z*10, -1) denotes z *)
Lemma num_q_int z : (num_q (z * 10, -1)%Z == inject_Z z)%Q.
Proof.
  unfold num_q. cbn. unfold Qeq. cbn. lia.
Qed.

Lemma num_denotes_int z :
  exists me, num_value (Val.dec_of_Z z ++ b ".0") = Some me /\ (num_q me == inject_Z z)%Q.
Proof. exists (z * 10, -1)%Z. split; [apply num_value_int|apply num_q_int]. Qed.

(* ------------------------------------------------------------------ *)
(* Byte-wise lexicographic order                                       *)

Lemma code_inj c d : code c = code d -> c = d.
Proof.
  unfold code. intros H. rewrite <- (ascii_N_embedding c), <- (ascii_N_embedding d), H.
  reflexivity.
Qed.

Lemma bytes_cmp_eq x y : bytes_cmp x y = Eq <-> x = y.
Proof.
  revert y. induction x as [|c x IH]; intros [|d y]; cbn; try (split; congruence).
  destruct (N.compare_spec (code c) (code d)) as [E|E|E].
  - apply code_inj in E. subst d. rewrite IH. split; [intros ->; reflexivity|congruence].
  - split; [discriminate|]. intros H; inversion H; subst. lia.
  - split; [discriminate|]. intros H; inversion H; subst. lia.
Qed.

Lemma bytes_cmp_refl x : bytes_cmp x x = Eq.
Proof. apply bytes_cmp_eq. reflexivity. Qed.

Lemma bytes_cmp_antisym x y : bytes_cmp y x = CompOpp (bytes_cmp x y).
Proof.
  revert y. induction x as [|c x IH]; intros [|d y]; cbn; try reflexivity.
  rewrite (N.compare_antisym (code c) (code d)).
  destruct (code c ?= code d)%N; cbn; auto.
Qed.

Lemma bytes_cmp_lt_trans x y z :
  bytes_cmp x y = Lt -> bytes_cmp y z = Lt -> bytes_cmp x z = Lt.
Proof.
  revert y z. induction x as [|c x IH]; intros [|d y] [|e z]; cbn; try congruence.
  destruct (N.compare_spec (code c) (code d)) as [E1|E1|E1];
    destruct (N.compare_spec (code d) (code e)) as [E2|E2|E2]; try congruence;
    intros H1 H2.
  - rewrite E1, E2, N.compare_refl. eapply IH; eauto.
  - rewrite E1. apply N.compare_lt_iff in E2. rewrite E2. reflexivity.
  - rewrite <- E2. apply N.compare_lt_iff in E1. rewrite E1. reflexivity.
  - assert (E : (code c < code e)%N) by lia. apply N.compare_lt_iff in E. rewrite E. reflexivity.
Qed.

Lemma bytes_cmp_gt_lt x y : bytes_cmp x y = Gt <-> bytes_cmp y x = Lt.
Proof.
  rewrite (bytes_cmp_antisym x y). destruct (bytes_cmp x y); cbn; split; congruence.
Qed.

Lemma bytes_eqb_cmp x y : bytes_eqb x y = true <-> bytes_cmp x y = Eq.
Proof. rewrite bytes_eqb_spec, bytes_cmp_eq. reflexivity. Qed.

Lemma bytes_eqb_false_cmp x y : bytes_cmp x y <> Eq -> bytes_eqb x y = false.
Proof.
  intros H. destruct (bytes_eqb x y) eqn:E; [|reflexivity].
  apply bytes_eqb_cmp in E. contradiction.
Qed.

Lemma bytes_eqb_sym x y : bytes_eqb x y = bytes_eqb y x.
Proof.
  destruct (bytes_eqb x y) eqn:E1, (bytes_eqb y x) eqn:E2; try reflexivity.
  - apply bytes_eqb_spec in E1. subst. rewrite bytes_eqb_refl in E2. discriminate.
  - apply bytes_eqb_spec in E2. subst. rewrite bytes_eqb_refl in E1. discriminate.
Qed.

(* ------------------------------------------------------------------ *)
(* Key-sorted association lists                                        *)

Section SMapLemmas.
  Context {V : Type}.
  Implicit Types (m l : list (bytes * V)) (k : bytes) (v : V).

  (* strictly increasing keys *)
  Fixpoint ssorted m : Prop :=
    match m with
    | [] => True
    | (k, _) :: m' => (forall k', In k' (map fst m') -> bytes_cmp k k' = Lt) /\ ssorted m'
    end.

  Lemma lookup_none_below k m :
    (forall k', In k' (map fst m) -> bytes_cmp k k' = Lt) -> lookup k m = None.
  Proof.
    induction m as [|[k1 v1] m IH]; cbn; [reflexivity|]. intros H.
    rewrite bytes_eqb_false_cmp.
    - apply IH. intros k' Hk'. apply H. right. exact Hk'.
    - rewrite (H k1 (or_introl eq_refl)). discriminate.
  Qed.

  Lemma lookup_in k m w : lookup k m = Some w -> In k (map fst m).
  Proof.
    induction m as [|[k1 v1] m IH]; cbn; [discriminate|].
    destruct (bytes_eqb k k1) eqn:E.
    - apply bytes_eqb_spec in E. subst. left. reflexivity.
    - intros H. right. apply IH. exact H.
  Qed.

  Lemma in_lookup k m : In k (map fst m) -> exists w, lookup k m = Some w.
  Proof.
    induction m as [|[k1 v1] m IH]; cbn; [tauto|].
    intros [->|H].
    - rewrite bytes_eqb_refl. eauto.
    - destruct (bytes_eqb k k1); eauto.
  Qed.

  (* -- ins_first -- *)

  Lemma ins_first_keys k v m k' :
    In k' (map fst (ins_first k v m)) <-> k' = k \/ In k' (map fst m).
  Proof.
    induction m as [|[k1 v1] m IH]; cbn.
    - intuition.
    - destruct (bytes_cmp k k1) eqn:E; cbn.
      + apply bytes_cmp_eq in E. subst. intuition.
      + intuition.
      + rewrite IH. intuition.
  Qed.

  Lemma ins_first_sorted k v m : ssorted m -> ssorted (ins_first k v m).
  Proof.
    induction m as [|[k1 v1] m IH]; cbn.
    - intros _. split; [intros k' []|exact I].
    - intros [H1 H2]. destruct (bytes_cmp k k1) eqn:E.
      + cbn. auto.
      + cbn. split; [|auto]. intros k' [<-|Hk']; [exact E|].
        eapply bytes_cmp_lt_trans; eauto.
      + cbn. split; [|auto]. intros k' Hk'. apply ins_first_keys in Hk' as [->|Hk'].
        * apply bytes_cmp_gt_lt. exact E.
        * auto.
  Qed.

  Lemma lookup_ins_first k v m k' :
    ssorted m ->
    lookup k' (ins_first k v m)
    = if bytes_eqb k' k
      then match lookup k m with Some w => Some w | None => Some v end
      else lookup k' m.
  Proof.
    induction m as [|[k1 v1] m IH]; cbn [ins_first lookup].
    - intros _. destruct (bytes_eqb k' k); reflexivity.
    - intros [H1 H2]. destruct (bytes_cmp k k1) eqn:E.
      + apply bytes_cmp_eq in E. subst k1. cbn [lookup]. rewrite bytes_eqb_refl.
        destruct (bytes_eqb k' k) eqn:E'; [|reflexivity].
        reflexivity.
      + cbn [lookup]. destruct (bytes_eqb k' k) eqn:E'; [|reflexivity].
        rewrite (bytes_eqb_false_cmp k k1) by (rewrite E; discriminate).
        rewrite lookup_none_below; [reflexivity|].
        intros k2 Hk2. eapply bytes_cmp_lt_trans; eauto.
      + cbn [lookup]. rewrite (IH H2).
        rewrite (bytes_eqb_false_cmp k k1) by (rewrite E; discriminate).
        destruct (bytes_eqb k' k) eqn:E'; [|reflexivity].
        apply bytes_eqb_spec in E'. subst k'.
        rewrite (bytes_eqb_false_cmp k k1) by (rewrite E; discriminate). reflexivity.
  Qed.

  (* -- ins_last -- *)

  Lemma ins_last_keys k v m k' :
    In k' (map fst (ins_last k v m)) <-> k' = k \/ In k' (map fst m).
  Proof.
    induction m as [|[k1 v1] m IH]; cbn.
    - intuition.
    - destruct (bytes_cmp k k1) eqn:E; cbn.
      + apply bytes_cmp_eq in E. subst. intuition.
      + intuition.
      + rewrite IH. intuition.
  Qed.

  Lemma ins_last_sorted k v m : ssorted m -> ssorted (ins_last k v m).
  Proof.
    induction m as [|[k1 v1] m IH]; cbn.
    - intros _. split; [intros k' []|exact I].
    - intros [H1 H2]. destruct (bytes_cmp k k1) eqn:E.
      + apply bytes_cmp_eq in E. subst k1. cbn. auto.
      + cbn. split; [|auto]. intros k' [<-|Hk']; [exact E|].
        eapply bytes_cmp_lt_trans; eauto.
      + cbn. split; [|auto]. intros k' Hk'. apply ins_last_keys in Hk' as [->|Hk'].
        * apply bytes_cmp_gt_lt. exact E.
        * auto.
  Qed.

  Lemma lookup_ins_last k v m k' :
    lookup k' (ins_last k v m) = if bytes_eqb k' k then Some v else lookup k' m.
  Proof.
    induction m as [|[k1 v1] m IH]; cbn [ins_last lookup].
    - reflexivity.
    - destruct (bytes_cmp k k1) eqn:E.
      + apply bytes_cmp_eq in E. subst k1. cbn [lookup].
        destruct (bytes_eqb k' k); reflexivity.
      + cbn [lookup]. reflexivity.
      + cbn [lookup]. rewrite IH.
        destruct (bytes_eqb k' k) eqn:E'; [|reflexivity].
        apply bytes_eqb_spec in E'. subst k'.
        rewrite (bytes_eqb_false_cmp k k1) by (rewrite E; discriminate). reflexivity.
  Qed.

  (* -- folds -- *)

  Lemma fold_ins_first_sorted l : forall m,
    ssorted m -> ssorted (fold_left (fun m kv => ins_first (fst kv) (snd kv) m) l m).
  Proof.
    induction l as [|[k v] l IH]; intros m Hm; cbn; [exact Hm|].
    apply IH, ins_first_sorted, Hm.
  Qed.

  Lemma fold_ins_first_lookup l : forall m k,
    ssorted m ->
    lookup k (fold_left (fun m kv => ins_first (fst kv) (snd kv) m) l m)
    = match lookup k m with Some w => Some w | None => lookup k l end.
  Proof.
    induction l as [|[k1 v1] l IH]; intros m k Hm; cbn [fold_left lookup fst snd].
    - destruct (lookup k m); reflexivity.
    - rewrite IH by (apply ins_first_sorted, Hm).
      rewrite (lookup_ins_first k1 v1 m k Hm).
      destruct (bytes_eqb k k1) eqn:E.
      + apply bytes_eqb_spec in E. subst k1. destruct (lookup k m); reflexivity.
      + reflexivity.
  Qed.

  Lemma fold_ins_last_sorted l : forall m,
    ssorted m -> ssorted (fold_left (fun m kv => ins_last (fst kv) (snd kv) m) l m).
  Proof.
    induction l as [|[k v] l IH]; intros m Hm; cbn; [exact Hm|].
    apply IH, ins_last_sorted, Hm.
  Qed.

  Lemma fold_ins_last_lookup l : forall m k,
    lookup k (fold_left (fun m kv => ins_last (fst kv) (snd kv) m) l m)
    = match lookup_last k l with Some w => Some w | None => lookup k m end.
  Proof.
    induction l as [|[k1 v1] l IH]; intros m k; cbn [fold_left lookup_last fst snd].
    - reflexivity.
    - rewrite IH. destruct (lookup_last k l); [reflexivity|].
      rewrite lookup_ins_last. destruct (bytes_eqb k k1); reflexivity.
  Qed.

  (* The two facts that characterise [map_first]: BTreeMap iteration order and
     entry().or_insert() semantics. *)
  Theorem map_first_sorted l : ssorted (map_first l).
  Proof. apply fold_ins_first_sorted. exact I. Qed.

  Theorem map_first_lookup l k : lookup k (map_first l) = lookup k l.
  Proof. unfold map_first. rewrite fold_ins_first_lookup by exact I. reflexivity. Qed.

  (* ... and [map_last]: insert() semantics. *)
  Theorem map_last_sorted l : ssorted (map_last l).
  Proof. apply fold_ins_last_sorted. exact I. Qed.

  Theorem map_last_lookup l k : lookup k (map_last l) = lookup_last k l.
  Proof.
    unfold map_last. rewrite fold_ins_last_lookup. destruct (lookup_last k l); reflexivity.
  Qed.

  (* a strictly sorted association list is determined by its lookup function *)
  Lemma ssorted_ext m1 : forall m2,
    ssorted m1 -> ssorted m2 -> (forall k, lookup k m1 = lookup k m2) -> m1 = m2.
  Proof.
    induction m1 as [|[k1 v1] m1 IH]; intros [|[k2 v2] m2] S1 S2 H.
    - reflexivity.
    - specialize (H k2). cbn in H. rewrite bytes_eqb_refl in H. discriminate.
    - specialize (H k1). cbn in H. rewrite bytes_eqb_refl in H. discriminate.
    - destruct S1 as [A1 S1], S2 as [A2 S2].
      assert (Ek : k1 = k2).
      { destruct (bytes_cmp k1 k2) eqn:E.
        - apply bytes_cmp_eq. exact E.
        - (* k1 < k2: k1 is not a key of the second list *)
          pose proof (H k1) as Hk. cbn in Hk. rewrite bytes_eqb_refl in Hk.
          rewrite (bytes_eqb_false_cmp k1 k2) in Hk by (rewrite E; discriminate).
          rewrite lookup_none_below in Hk; [discriminate|].
          intros k' Hk'. eapply bytes_cmp_lt_trans; eauto.
        - pose proof (H k2) as Hk. cbn in Hk. rewrite bytes_eqb_refl in Hk.
          apply bytes_cmp_gt_lt in E.
          rewrite (bytes_eqb_false_cmp k2 k1) in Hk by (rewrite E; discriminate).
          rewrite lookup_none_below in Hk; [discriminate|].
          intros k' Hk'. eapply bytes_cmp_lt_trans; eauto. }
      subst k2.
      assert (Ev : v1 = v2).
      { specialize (H k1). cbn in H. rewrite bytes_eqb_refl in H. congruence. }
      subst v2. f_equal. apply IH; auto.
      intros k. specialize (H k). cbn in H.
      destruct (bytes_eqb k k1) eqn:E; [|exact H].
      apply bytes_eqb_spec in E. subst k.
      rewrite !lookup_none_below; auto.
  Qed.

  (* -- the specification-side sort -- *)

  Lemma insert_sorted_keys kv l k' :
    In k' (map fst (insert_sorted kv l)) <-> k' = fst kv \/ In k' (map fst l).
  Proof.
    induction l as [|[k1 v1] l IH]; cbn.
    - intuition.
    - destruct (bytes_ltb k1 (fst kv)); cbn.
      + rewrite IH. intuition.
      + intuition.
  Qed.

  Lemma insert_sorted_sorted kv l :
    ssorted l -> ~ In (fst kv) (map fst l) -> ssorted (insert_sorted kv l).
  Proof.
    destruct kv as [k v]. cbn [fst].
    induction l as [|[k1 v1] l IH]; cbn [insert_sorted ssorted map fst In].
    - intros _ _. split; [intros k' []|exact I].
    - intros [H1 H2] Hn. unfold bytes_ltb. destruct (bytes_cmp k1 k) eqn:E.
      + apply bytes_cmp_eq in E. subst. exfalso. apply Hn. left. reflexivity.
      + cbn [ssorted fst]. split.
        * intros k' Hk'. apply insert_sorted_keys in Hk' as [->|Hk']; auto.
        * apply IH; auto.
      + cbn [ssorted fst map]. split; [|split; auto].
        intros k' [<-|Hk'].
        * apply bytes_cmp_gt_lt. exact E.
        * apply bytes_cmp_gt_lt in E. eapply bytes_cmp_lt_trans; eauto.
  Qed.

  Lemma lookup_insert_sorted kv l k :
    ~ In (fst kv) (map fst l) ->
    lookup k (insert_sorted kv l) = if bytes_eqb k (fst kv) then Some (snd kv) else lookup k l.
  Proof.
    destruct kv as [k0 v0]. cbn [fst snd].
    induction l as [|[k1 v1] l IH]; cbn [insert_sorted lookup map fst In]; intros Hn.
    - reflexivity.
    - destruct (bytes_ltb k1 k0); cbn [lookup fst].
      + rewrite IH by tauto.
        destruct (bytes_eqb k k0) eqn:E; [|reflexivity].
        apply bytes_eqb_spec in E. subst k.
        destruct (bytes_eqb k0 k1) eqn:E1; [|reflexivity].
        apply bytes_eqb_spec in E1. subst. tauto.
      + reflexivity.
  Qed.

  Lemma keep_last_keys l k : In k (map fst (keep_last l)) <-> In k (map fst l).
  Proof.
    induction l as [|[k1 v1] l IH]; cbn [keep_last map fst In]; [tauto|].
    destruct (existsb (fun kv => bytes_eqb k1 (fst kv)) l) eqn:E.
    - rewrite IH. split; [tauto|]. intros [<-|H]; [|exact H].
      apply existsb_exists in E as ([k2 v2] & Hin & Heq). cbn in Heq.
      apply bytes_eqb_spec in Heq. subst k2.
      apply in_map_iff. exists (k1, v2). auto.
    - cbn [map fst In]. rewrite IH. tauto.
  Qed.

  Lemma keep_last_nodup l : NoDup (map fst (keep_last l)).
  Proof.
    induction l as [|[k1 v1] l IH]; cbn [keep_last map]; [constructor|].
    destruct (existsb (fun kv => bytes_eqb k1 (fst kv)) l) eqn:E; [exact IH|].
    cbn [map fst]. constructor; [|exact IH].
    rewrite keep_last_keys. intros Hin. apply in_map_iff in Hin as ([k2 v2] & Hk & Hin).
    cbn in Hk. subst k2.
    assert (existsb (fun kv => bytes_eqb k1 (fst kv)) l = true); [|congruence].
    apply existsb_exists. exists (k1, v2). split; [exact Hin|apply bytes_eqb_refl].
  Qed.

  Lemma lookup_last_none k l : ~ In k (map fst l) -> lookup_last k l = None.
  Proof.
    induction l as [|[k1 v1] l IH]; cbn [lookup_last map fst In]; [reflexivity|].
    intros H. rewrite IH by tauto.
    destruct (bytes_eqb k k1) eqn:E; [|reflexivity].
    apply bytes_eqb_spec in E. subst. tauto.
  Qed.

  Lemma lookup_keep_last l k : lookup k (keep_last l) = lookup_last k l.
  Proof.
    induction l as [|[k1 v1] l IH]; cbn [keep_last lookup lookup_last]; [reflexivity|].
    destruct (existsb (fun kv => bytes_eqb k1 (fst kv)) l) eqn:E.
    - rewrite IH. destruct (lookup_last k l) eqn:EL; [reflexivity|].
      destruct (bytes_eqb k k1) eqn:E1; [|reflexivity].
      apply bytes_eqb_spec in E1. subst k1.
      (* k occurs later, so lookup_last k l cannot be None *)
      exfalso. apply existsb_exists in E as ([k2 v2] & Hin & Heq). cbn in Heq.
      apply bytes_eqb_spec in Heq. subst k2.
      assert (In k (map fst (keep_last l))).
      { apply keep_last_keys. apply in_map_iff. exists (k, v2). auto. }
      apply in_lookup in H as (w & Hw). congruence.
    - cbn [lookup]. rewrite IH.
      destruct (bytes_eqb k k1) eqn:E1.
      + apply bytes_eqb_spec in E1. subst k1.
        rewrite lookup_last_none; [reflexivity|].
        intros Hin. apply in_map_iff in Hin as ([k2 v2] & Hk & Hin). cbn in Hk. subst k2.
        assert (existsb (fun kv => bytes_eqb k (fst kv)) l = true); [|congruence].
        apply existsb_exists. exists (k, v2). split; [exact Hin|apply bytes_eqb_refl].
      + destruct (lookup_last k l); reflexivity.
  Qed.

  Lemma sort_keys_keys l k : In k (map fst (sort_keys l)) <-> In k (map fst l).
  Proof.
    induction l as [|kv l IH]; cbn [sort_keys fold_right map In]; [tauto|].
    fold (sort_keys l). rewrite insert_sorted_keys, IH. intuition.
  Qed.

  Lemma sort_keys_sorted l : NoDup (map fst l) -> ssorted (sort_keys l).
  Proof.
    induction l as [|kv l IH]; cbn [sort_keys fold_right map]; [intros _; exact I|].
    fold (sort_keys l). intros H. inversion H; subst.
    apply insert_sorted_sorted; [auto|]. rewrite sort_keys_keys. assumption.
  Qed.

  Lemma lookup_sort_keys l k : NoDup (map fst l) -> lookup k (sort_keys l) = lookup k l.
  Proof.
    induction l as [|[k1 v1] l IH]; cbn [sort_keys fold_right map fst]; [reflexivity|].
    fold (sort_keys l). intros H. inversion H; subst.
    rewrite lookup_insert_sorted by (rewrite sort_keys_keys; assumption).
    cbn [fst snd lookup]. rewrite IH by assumption. reflexivity.
  Qed.

  (* implementation (BTreeMap::insert) = specification (sort, last wins) *)
  Theorem map_last_spec l : map_last l = sort_keys (keep_last l).
  Proof.
    apply ssorted_ext.
    - apply map_last_sorted.
    - apply sort_keys_sorted, keep_last_nodup.
    - intros k. rewrite map_last_lookup, lookup_sort_keys by apply keep_last_nodup.
      symmetry. apply lookup_keep_last.
  Qed.
End SMapLemmas.

(* ------------------------------------------------------------------ *)
(* to_json: unfolding the nested recursions                            *)

Fixpoint to_json_list (l : list val) : res (list json) :=
  match l with
  | [] => Ok []
  | x :: xs => res_cons (to_json x) (to_json_list xs)
  end.

Fixpoint to_json_fields (l : list (bytes * val)) : res (list (bytes * json)) :=
  match l with
  | [] => Ok []
  | (k, x) :: r => res_cons (res_map (pair k) (to_json x)) (to_json_fields r)
  end.

Lemma to_json_VList l : to_json (VList l) = res_map JArr (to_json_list l).
Proof. reflexivity. Qed.

Lemma to_json_VTuple fs :
  to_json (VTuple fs) = res_map (fun kvs => JObj (map_first kvs)) (to_json_fields fs).
Proof. reflexivity. Qed.

Lemma res_cons_ok {A} (r : res A) rs l :
  res_cons r rs = Ok l -> exists a l', r = Ok a /\ rs = Ok l' /\ l = a :: l'.
Proof.
  destruct r, rs; cbn; try discriminate. intros H; inversion H; eauto.
Qed.

Lemma res_cons_err {A} (r : res A) rs : res_cons r rs = Err <-> r = Err \/ rs = Err.
Proof.
  destruct r, rs; cbn; split; try discriminate; try tauto; intros [H|H]; discriminate.
Qed.

Lemma res_map_err {A B} (f : A -> B) r : res_map f r = Err <-> r = Err.
Proof. destruct r; cbn; split; congruence. Qed.

Lemma res_map_ok {A B} (f : A -> B) r y : res_map f r = Ok y -> exists a, r = Ok a /\ y = f a.
Proof. destruct r; cbn; try discriminate. intros H; inversion H; eauto. Qed.

Lemma to_json_list_ok l : forall js,
  to_json_list l = Ok js -> Forall2 (fun v j => to_json v = Ok j) l js.
Proof.
  induction l as [|x xs IH]; intros js; cbn [to_json_list].
  - intros H; inversion H. constructor.
  - intros H. apply res_cons_ok in H as (a & l' & Ha & Hl & ->).
    constructor; auto.
Qed.

Lemma to_json_fields_ok l : forall kjs,
  to_json_fields l = Ok kjs ->
  Forall2 (fun kv kj => fst kv = fst kj /\ to_json (snd kv) = Ok (snd kj)) l kjs.
Proof.
  induction l as [|[k x] r IH]; intros kjs; cbn [to_json_fields].
  - intros H; inversion H. constructor.
  - intros H. apply res_cons_ok in H as (a & l' & Ha & Hl & ->).
    apply res_map_ok in Ha as (j & Hj & ->).
    constructor; auto.
Qed.

(* ------------------------------------------------------------------ *)
(* membership in map_first                                             *)

Lemma ins_first_in {V} k (v : V) m x : In x (ins_first k v m) -> x = (k, v) \/ In x m.
Proof.
  induction m as [|[k1 v1] m IH]; cbn.
  - intuition congruence.
  - destruct (bytes_cmp k k1); cbn; intuition congruence.
Qed.

Lemma map_first_in {V} (l : list (bytes * V)) x : In x (map_first l) -> In x l.
Proof.
  unfold map_first.
  assert (G : forall m, In x (fold_left (fun m kv => ins_first (fst kv) (snd kv) m) l m) ->
                        In x l \/ In x m).
  { induction l as [|[k v] l IH]; intros m; cbn [fold_left fst snd].
    - tauto.
    - intros H. apply IH in H as [H|H]; [left; right; exact H|].
      apply ins_first_in in H as [->|H]; [left; left; reflexivity|right; exact H]. }
  intros H. apply G in H as [H|[]]. exact H.
Qed.

(* ------------------------------------------------------------------ *)
(* to_json_wf                                                          *)

Theorem to_json_wf : forall v j, to_json v = Ok j -> json_wf j = true.
Proof.
  induction v as [|x|z|f|s|l IH|fs IH|fs|] using val_ind'; intros j H.
  - inversion H; reflexivity.
  - inversion H; reflexivity.
  - cbn [to_json] in H. destruct (Z.abs z <=? two53)%Z; [|discriminate].
    inversion H; subst. cbn [json_wf]. apply num_lit_ok_int.
  - destruct f as [t| | |]; cbn [to_json] in H; try discriminate.
    destruct (num_lit_ok t) eqn:E; cbn [andb] in H; [|discriminate].
    destruct (has_dot_or_e t); [|discriminate].
    inversion H; subst. exact E.
  - inversion H; reflexivity.
  - rewrite to_json_VList in H. apply res_map_ok in H as (js & Hjs & ->).
    apply to_json_list_ok in Hjs. cbn [json_wf].
    induction Hjs as [|v j' l js Hv Hl IHl]; [reflexivity|].
    inversion IH; subst. cbn [forallb]. rewrite (H1 _ Hv), IHl by assumption. reflexivity.
  - rewrite to_json_VTuple in H. apply res_map_ok in H as (kjs & Hk & ->).
    apply to_json_fields_ok in Hk. cbn [json_wf].
    apply forallb_forall. intros kj Hin. apply map_first_in in Hin.
    clear - IH Hk Hin. induction Hk as [|kv kj' l kjs [_ Hv] Hl IHl]; [destruct Hin|].
    inversion IH; subst. destruct Hin as [<-|Hin]; eauto.
  - cbn [to_json] in H. inversion H; subst. cbn [json_wf].
    apply forallb_forall. intros kj Hin. apply map_first_in in Hin.
    apply in_map_iff in Hin as (kv & <- & _). reflexivity.
  - discriminate.
Qed.

(* ------------------------------------------------------------------ *)
(* to_json_lossless                                                    *)

Fixpoint json_abs_list (l : list json) : option (list aval) :=
  match l with
  | [] => Some []
  | x :: xs =>
    match json_abs x, json_abs_list xs with
    | Some a, Some r => Some (a :: r)
    | _, _ => None
    end
  end.

Fixpoint json_abs_fields (l : list (bytes * json)) : option (list (bytes * aval)) :=
  match l with
  | [] => Some []
  | (k, x) :: xs =>
    match json_abs x, json_abs_fields xs with
    | Some a, Some r => Some ((k, a) :: r)
    | _, _ => None
    end
  end.

Lemma json_abs_JArr l : json_abs (JArr l) = option_map AList (json_abs_list l).
Proof. reflexivity. Qed.
Lemma json_abs_JObj kvs : json_abs (JObj kvs) = option_map AMap (json_abs_fields kvs).
Proof. reflexivity. Qed.

(* key-wise relation between a JSON object body and an abstract map body *)
Definition absR (kj : bytes * json) (ka : bytes * aval) : Prop :=
  fst kj = fst ka /\ json_abs (snd kj) = Some (snd ka).

Lemma json_abs_fields_R m m' : Forall2 absR m m' -> json_abs_fields m = Some m'.
Proof.
  induction 1 as [|[k j] [k' a] m m' [Hk Hj] _ IH]; [reflexivity|].
  cbn in Hk, Hj. subst k'. cbn [json_abs_fields]. rewrite Hj, IH. reflexivity.
Qed.

Lemma ins_first_R k j a m m' :
  json_abs j = Some a -> Forall2 absR m m' ->
  Forall2 absR (ins_first k j m) (ins_first k a m').
Proof.
  intros Hj. induction 1 as [|[k1 j1] [k1' a1] m m' [Hk Hj1] Hm IH].
  - cbn. constructor; [split; auto|constructor].
  - cbn in Hk. subst k1'. cbn [ins_first].
    destruct (bytes_cmp k k1).
    + constructor; [split; auto|exact Hm].
    + constructor; [split; auto|]. constructor; [split; auto|exact Hm].
    + constructor; [split; auto|exact IH].
Qed.

Lemma map_first_R l l' : Forall2 absR l l' -> Forall2 absR (map_first l) (map_first l').
Proof.
  unfold map_first.
  assert (G : forall m m', Forall2 absR l l' -> Forall2 absR m m' ->
    Forall2 absR (fold_left (fun m kv => ins_first (fst kv) (snd kv) m) l m)
                 (fold_left (fun m kv => ins_first (fst kv) (snd kv) m) l' m')).
  { intros m m' H. revert m m'.
    induction H as [|[k j] [k' a] l l' [Hk Hj] _ IH]; intros m m' Hm; [exact Hm|].
    cbn in Hk, Hj. subst k'. cbn [fold_left fst snd]. apply IH. apply ins_first_R; auto. }
  intros H. apply G; [exact H|constructor].
Qed.

Theorem to_json_lossless : forall v j, to_json v = Ok j -> json_abs j = Some (canon v).
Proof.
  induction v as [|x|z|f|s|l IH|fs IH|fs|] using val_ind'; intros j H.
  - inversion H; reflexivity.
  - inversion H; reflexivity.
  - cbn [to_json] in H. destruct (Z.abs z <=? two53)%Z; [|discriminate].
    inversion H; subst. cbn [json_abs canon]. rewrite num_value_int.
    do 2 f_equal. apply Qred_complete, num_q_int.
  - destruct f as [t| | |]; cbn [to_json] in H; try discriminate.
    destruct (num_lit_ok t) eqn:E; cbn [andb] in H; [|discriminate].
    destruct (has_dot_or_e t); [|discriminate].
    inversion H; subst. cbn [json_abs canon].
    unfold num_lit_ok in E. apply andb_true_iff in E as [_ E].
    unfold num_value. destruct (num_split t); [reflexivity|discriminate].
  - inversion H; reflexivity.
  - rewrite to_json_VList in H. apply res_map_ok in H as (js & Hjs & ->).
    apply to_json_list_ok in Hjs. rewrite json_abs_JArr. cbn [canon].
    assert (G : json_abs_list js = Some (map canon l)).
    { induction Hjs as [|v j' l js Hv Hl IHl]; [reflexivity|].
      inversion IH; subst. cbn [json_abs_list map].
      rewrite (H1 _ Hv), IHl by assumption. reflexivity. }
    rewrite G. reflexivity.
  - rewrite to_json_VTuple in H. apply res_map_ok in H as (kjs & Hk & ->).
    apply to_json_fields_ok in Hk. rewrite json_abs_JObj. cbn [canon].
    assert (G : Forall2 absR kjs (map (fun kv => (fst kv, canon (snd kv))) fs)).
    { induction Hk as [|kv kj l kjs [Hkey Hv] Hl IHl]; [constructor|].
      inversion IH; subst. cbn [map]. constructor; [|auto].
      split; cbn [fst snd]; [congruence|auto]. }
    rewrite (json_abs_fields_R _ _ (map_first_R _ _ G)). reflexivity.
  - cbn [to_json] in H. inversion H; subst. rewrite json_abs_JObj. cbn [canon].
    assert (G : Forall2 absR (map (fun kv => (fst kv, JStr (snd kv))) fs)
                             (map (fun kv => (fst kv, AStr (snd kv))) fs)).
    { clear H. induction fs as [|kv fs IHfs]; cbn [map]; constructor;
        [split; reflexivity|exact IHfs]. }
    rewrite (json_abs_fields_R _ _ (map_first_R _ _ G)). reflexivity.
  - discriminate.
Qed.

(* What [canon] of a tuple is, stated without reference to the insertion
   procedure: strictly key-sorted, and each key bound to the value of its
   FIRST occurrence in the tuple. *)
Theorem canon_tuple_spec fs :
  exists m, canon (VTuple fs) = AMap m /\ ssorted m /\
            forall k, lookup k m = option_map canon (lookup k fs).
Proof.
  eexists. split; [reflexivity|]. split; [apply map_first_sorted|].
  intros k. rewrite map_first_lookup.
  induction fs as [|[k1 v1] fs IH]; cbn [map lookup fst snd]; [reflexivity|].
  destruct (bytes_eqb k k1); [reflexivity|exact IH].
Qed.

(* ------------------------------------------------------------------ *)
(* to_json_error_iff                                                   *)

Theorem to_json_error_iff : forall v, to_json v = Err <-> unrepresentable_json v = true.
Proof.
  induction v as [|x|z|f|s|l IH|fs IH|fs|] using val_ind'.
  - cbn. split; discriminate.
  - cbn. split; discriminate.
  - cbn [to_json unrepresentable_json]. destruct (Z.abs z <=? two53)%Z; split; discriminate.
  - destruct f as [t| | |]; cbn [to_json unrepresentable_json];
      try (split; reflexivity).
    destruct (num_lit_ok t && has_dot_or_e t); split; discriminate.
  - cbn. split; discriminate.
  - rewrite to_json_VList, res_map_err. cbn [unrepresentable_json].
    induction IH as [|x l Hx _ IHl]; cbn [to_json_list existsb].
    + split; discriminate.
    + rewrite res_cons_err, orb_true_iff, Hx, IHl. reflexivity.
  - rewrite to_json_VTuple, res_map_err. cbn [unrepresentable_json].
    induction IH as [|[k x] l Hx _ IHl]; cbn [to_json_fields existsb snd].
    + split; discriminate.
    + rewrite res_cons_err, res_map_err, orb_true_iff. cbn [snd] in Hx.
      rewrite Hx, IHl. reflexivity.
  - cbn. split; discriminate.
  - cbn. split; reflexivity.
Qed.

(* ------------------------------------------------------------------ *)
(* Headline corollary                                                  *)

Corollary json_out_decodes : forall v j,
  to_json v = Ok j ->
  json_parse (json_print j) = Some j /\ json_abs j = Some (canon v).
Proof.
  intros v j H. split.
  - apply json_text_roundtrip. eapply to_json_wf; eauto.
  - apply to_json_lossless; exact H.
Qed.

(* The same, phrased on the bytes the converter writes. *)
Corollary json_output_decodes : forall v t,
  json_output v = Ok t ->
  exists j, json_parse t = Some j /\ json_abs j = Some (canon v).
Proof.
  intros v t H. unfold json_output in H. apply res_map_ok in H as (j & Hj & ->).
  exists j. apply json_out_decodes; exact Hj.
Qed.

(* to_json_int_refuted (documentation only; floats are not modelled):
   the statement "to_json (VInt z) denotes z for every i64 z" is FALSE for the
   real code.  Witness z = 9007199254740993 = 2^53 + 1:
     convert_value does `i as f64`, which rounds to 9007199254740992.0, and
     serde_json writes the text 9007199254740992.0 (observed: rs/probe.out,
     case int2^53+1).  From |z| >= 10^16 the text moreover switches to
     exponent form (e.g. Int(10000000000000000) -> 1e+16, i64::MAX ->
     9.223372036854776e+18).  The model returns [Unsupported] for |z| > 2^53. *)
Example to_json_int_unsupported : to_json (VInt 9007199254740993) = Unsupported.
Proof. reflexivity. Qed.

(* ------------------------------------------------------------------ *)
(* from_json = val_of_json_spec                                        *)

Definition dstep (a : N) (c : ascii) : N := (a * 10 + (code c - 48))%N.

Lemma fold_dstep_ge ds : forall a, (a <= fold_left dstep ds a)%N.
Proof.
  induction ds as [|c ds IH]; intros a; cbn [fold_left]; [lia|].
  specialize (IH (dstep a c)). unfold dstep in *. lia.
Qed.

(* serde_json's overflow-checked accumulation returns the digit value exactly
   when that value fits u64 *)
Lemma acc_u64_spec ds : forall a,
  (a <= u64_max)%N ->
  acc_u64 ds a = if (fold_left dstep ds a <=? u64_max)%N
                 then Some (fold_left dstep ds a) else None.
Proof.
  induction ds as [|c ds IH]; intros a Ha; cbn [acc_u64 fold_left].
  - apply N.leb_le in Ha. rewrite Ha. reflexivity.
  - fold (dstep a c). destruct (N.ltb_spec u64_max (dstep a c)) as [Hlt|Hle].
    + pose proof (fold_dstep_ge ds (dstep a c)).
      destruct (N.leb_spec (fold_left dstep ds (dstep a c)) u64_max); [lia|reflexivity].
    + apply IH. exact Hle.
Qed.

Lemma classify_num_spec lit : classify_num lit = spec_num lit.
Proof.
  unfold classify_num, spec_num, num_value.
  destruct (num_split lit) as [p|]; [|reflexivity].
  destruct (np_frac p) as [|f0 fr] eqn:Ef; [|reflexivity].
  destruct (np_exp p) as [|e0 er] eqn:Ee; [|reflexivity].
  rewrite app_nil_r.
  rewrite (acc_u64_spec (np_int p) 0%N) by (unfold u64_max; lia).
  change (fold_left dstep (np_int p) 0%N) with (digits_val (np_int p)).
  set (D := digits_val (np_int p)).
  cbn [andb].
  unfold u64_max, i64_max, i64_min.
  change (2 ^ 63)%N with 9223372036854775808%N.
  change (2 ^ 64)%Z with 18446744073709551616%Z.
  destruct (np_neg p).
  - (* negative literal *)
    destruct (N.leb_spec D 18446744073709551615) as [Hle|Hgt].
    + destruct (N.ltb_spec D 9223372036854775808) as [Hs|Hs].
      * destruct (Z.eqb_spec (Z.of_N D) (-9223372036854775808)) as [Hm|Hm]; [lia|].
        destruct (Z.leb_spec 0 (- Z.of_N D)) as [H0|H0].
        -- assert (D = 0%N) by lia.
           destruct (Z.leb_spec (-9223372036854775808) (- Z.of_N D));
             destruct (Z.leb_spec (- Z.of_N D) 9223372036854775807);
             destruct (Z.eqb_spec (- Z.of_N D) 0); cbn; try reflexivity; lia.
        -- destruct (Z.leb_spec (-9223372036854775808) (- Z.of_N D));
             destruct (Z.leb_spec (- Z.of_N D) 9223372036854775807);
             destruct (Z.eqb_spec (- Z.of_N D) 0); cbn; try reflexivity; lia.
      * destruct (Z.eqb_spec (Z.of_N D - 18446744073709551616) (-9223372036854775808)) as [Hm|Hm].
        -- assert (HD : Z.of_N D = 9223372036854775808%Z) by lia.
           destruct (Z.leb_spec 0 (Z.of_N D - 18446744073709551616)); [lia|].
           rewrite Hm, HD. reflexivity.
        -- destruct (Z.leb_spec 0 (- (Z.of_N D - 18446744073709551616))); [|lia].
           destruct (Z.leb_spec (-9223372036854775808) (- Z.of_N D)); [lia|].
           reflexivity.
    + destruct (Z.leb_spec (-9223372036854775808) (- Z.of_N D)); [lia|]. reflexivity.
  - (* non-negative literal *)
    destruct (N.leb_spec D 18446744073709551615) as [Hle|Hgt].
    + destruct (Z.leb_spec (Z.of_N D) 9223372036854775807);
        destruct (Z.leb_spec (-9223372036854775808) (Z.of_N D)); cbn; try reflexivity; lia.
    + destruct (Z.leb_spec (Z.of_N D) 9223372036854775807); [lia|].
      rewrite andb_false_r. reflexivity.
Qed.

Theorem from_json_spec : forall j, from_json j = val_of_json_spec j.
Proof.
  induction j as [|v|lit|s|l IH|kvs IH] using json_ind'; cbn [from_json val_of_json_spec];
    try reflexivity.
  - apply classify_num_spec.
  - f_equal. apply map_ext_in. rewrite Forall_forall in IH. exact IH.
  - f_equal. rewrite map_last_spec. do 2 f_equal.
    apply map_ext_in. rewrite Forall_forall in IH. intros kv Hkv. rewrite (IH kv Hkv). reflexivity.
Qed.

(* the properties that pin down the object case of the specification *)
Theorem from_json_object_spec kvs :
  exists m, from_json (JObj kvs) = VTuple m /\ ssorted m /\
            forall k, lookup k m = option_map from_json (lookup_last k kvs).
Proof.
  eexists. split; [reflexivity|]. split; [apply map_last_sorted|].
  intros k. rewrite map_last_lookup.
  induction kvs as [|[k1 j1] kvs IH]; cbn [map lookup_last fst snd]; [reflexivity|].
  rewrite IH. destruct (lookup_last k kvs); cbn [option_map]; [reflexivity|].
  destruct (bytes_eqb k k1); reflexivity.
Qed.

(* characterisation of the number case in arithmetic terms *)
Theorem from_json_int_iff lit z :
  from_json (JNum lit) = VInt z <->
  exists p, num_split lit = Some p /\ np_frac p = [] /\ np_exp p = [] /\
            z = (if np_neg p then - Z.of_N (digits_val (np_int p)) else Z.of_N (digits_val (np_int p)))%Z /\
            (i64_min <= z <= i64_max)%Z /\ ~ (np_neg p = true /\ z = 0%Z).
Proof.
  cbn [from_json]. rewrite classify_num_spec. unfold spec_num, num_value.
  destruct (num_split lit) as [p|].
  2:{ split; [discriminate|]. intros (p & H & _). discriminate. }
  destruct (np_frac p) as [|f0 fr] eqn:Ef.
  2:{ cbn [andb]. split; [discriminate|]. intros (p' & H & H1 & _). inversion H; subst. congruence. }
  destruct (np_exp p) as [|e0 er] eqn:Ee.
  2:{ cbn [andb]. split; [discriminate|]. intros (p' & H & _ & H1 & _). inversion H; subst. congruence. }
  rewrite app_nil_r. cbn [andb].
  set (m := (if np_neg p then _ else _)%Z).
  destruct (Z.leb_spec i64_min m); destruct (Z.leb_spec m i64_max); cbn [andb];
    try (split; [discriminate|]; intros (p' & H' & _ & _ & Hz & Hr & _); inversion H'; subst p';
         fold m in Hz; lia).
  destruct (np_neg p) eqn:En; cbn [andb negb].
  - destruct (Z.eqb_spec m 0) as [Hm0|Hm0]; cbn [negb].
    + split; [discriminate|]. intros (p' & H' & _ & _ & Hz & _ & Hn). inversion H'; subst p'.
      exfalso. apply Hn. rewrite En in *. split; [reflexivity|]. rewrite Hz. exact Hm0.
    + split.
      * intros Hv. inversion Hv. exists p. rewrite En. repeat split; auto; try lia.
        all: try (intros [_ Hz0]; lia).
      * intros (p' & H' & _ & _ & Hz & _). inversion H'; subst p'. rewrite En in Hz.
        subst m. rewrite Hz. reflexivity.
  - split.
    + intros Hv. inversion Hv. exists p. rewrite En. repeat split; auto; try lia.
      all: try (intros [Hc _]; discriminate).
    + intros (p' & H' & _ & _ & Hz & _). inversion H'; subst p'. rewrite En in Hz.
      subst m. rewrite Hz. reflexivity.
Qed.
