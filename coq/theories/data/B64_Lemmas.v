(* Proofs about the base64 model of B64.v.  Axiom-free.

   Finite facts are established by [vm_compute] over explicit enumerations:
     - [sextets]   : the 64 values 0..63        (times 2 alphabets)
     - [all_bytes] : the 256 values of [ascii]  (times 2 alphabets)
   and lifted with [forallb_forall]. *)
From Ucg Require Import base.Bytes base.Bytes_Lemmas data.B64.
Local Open Scope N_scope.

(* let [lia] see through division / modulo by constants *)
Ltac Zify.zify_post_hook ::= Z.to_euclidean_division_equations.

(* ------------------------------------------------------------------ *)
(* enumerations                                                        *)

Definition sextets : list N := map N.of_nat (seq 0 64).
Definition all_bytes : list ascii := map ascii_of_nat (seq 0 256).

Lemma sextets_complete n : n < 64 -> In n sextets.
Proof.
  intros H. unfold sextets. apply in_map_iff. exists (N.to_nat n).
  split; [apply N2Nat.id|]. apply in_seq. lia.
Qed.

Lemma all_bytes_complete c : In c all_bytes.
Proof.
  unfold all_bytes. apply in_map_iff. exists (nat_of_ascii c).
  split; [apply ascii_nat_embedding|]. apply in_seq.
  pose proof (nat_ascii_bounded c). lia.
Qed.

Lemma sextet_forall (P : N -> bool) :
  forallb P sextets = true -> forall n, n < 64 -> P n = true.
Proof.
  intros H n Hn. rewrite forallb_forall in H. apply H, sextets_complete, Hn.
Qed.

Lemma byte_forall (P : ascii -> bool) :
  forallb P all_bytes = true -> forall c, P c = true.
Proof.
  intros H c. rewrite forallb_forall in H. apply H, all_bytes_complete.
Qed.

(* ------------------------------------------------------------------ *)
(* finite facts about single characters (bound: 64 x 2, resp. 256 x 2) *)

Definition dec_enc_ok u n :=
  match dec_char u (enc_char u n) with Some m => m =? n | None => false end.
Definition enc_not_pad_ok u n := negb (Ascii.eqb (enc_char u n) pad).
Definition enc_table_ok u n :=
  Ascii.eqb (enc_char u n) (nth (N.to_nat n) (alphabet u) pad).
Definition enc_swap_ok n :=
  Ascii.eqb (enc_char true n) (swap6263 (enc_char false n)).
Definition dec_inv_ok u c :=
  match dec_char u c with
  | Some n => (n <? 64) && Ascii.eqb (enc_char u n) c
  | None => true
  end.

Ltac fin_sextets u P Hn :=
  destruct u;
  [ apply (sextet_forall (P true)) | apply (sextet_forall (P false)) ];
  try exact Hn; vm_compute; reflexivity.

Lemma dec_enc u n : n < 64 -> dec_char u (enc_char u n) = Some n.
Proof.
  intros Hn. assert (H : dec_enc_ok u n = true) by fin_sextets u dec_enc_ok Hn.
  unfold dec_enc_ok in H.
  destruct (dec_char u (enc_char u n)); [|discriminate].
  apply N.eqb_eq in H; congruence.
Qed.

Lemma enc_not_pad u n : n < 64 -> Ascii.eqb (enc_char u n) pad = false.
Proof.
  intros Hn. apply negb_true_iff.
  change (enc_not_pad_ok u n = true). fin_sextets u enc_not_pad_ok Hn.
Qed.

(* the arithmetic [enc_char] is the RFC 4648 table lookup *)
Lemma enc_char_table u n :
  n < 64 -> enc_char u n = nth (N.to_nat n) (alphabet u) pad.
Proof.
  intros Hn. apply Ascii.eqb_eq.
  change (enc_table_ok u n = true). fin_sextets u enc_table_ok Hn.
Qed.

Lemma alphabet_length u : List.length (alphabet u) = 64%nat.
Proof. destruct u; reflexivity. Qed.

Lemma enc_in_alphabet u n : n < 64 -> In (enc_char u n) (alphabet u).
Proof.
  intros Hn. rewrite enc_char_table by assumption.
  apply nth_In. rewrite alphabet_length. lia.
Qed.

Lemma enc_swap n : n < 64 -> enc_char true n = swap6263 (enc_char false n).
Proof.
  intros Hn. apply Ascii.eqb_eq.
  apply (sextet_forall enc_swap_ok); [vm_compute; reflexivity|exact Hn].
Qed.

(* the decoder accepts exactly the 64 alphabet characters (bound 256 x 2) *)
Lemma dec_char_inv u c n :
  dec_char u c = Some n -> n < 64 /\ enc_char u n = c.
Proof.
  intros Hd. assert (H : dec_inv_ok u c = true).
  { destruct u;
      [apply (byte_forall (dec_inv_ok true))|apply (byte_forall (dec_inv_ok false))];
      vm_compute; reflexivity. }
  unfold dec_inv_ok in H. rewrite Hd in H.
  apply andb_true_iff in H; destruct H as [H1 H2].
  apply N.ltb_lt in H1; apply Ascii.eqb_eq in H2; auto.
Qed.

Lemma dec_char_pad u : dec_char u pad = None.
Proof. destruct u; reflexivity. Qed.

Lemma in_alphabetb_spec u c : in_alphabetb u c = true <-> in_alphabet u c.
Proof.
  unfold in_alphabetb, in_alphabet. rewrite existsb_exists. split.
  - intros [x [Hin He]]. apply Ascii.eqb_eq in He. subst; assumption.
  - intros H. exists c. split; [assumption|apply Ascii.eqb_refl].
Qed.

(* ------------------------------------------------------------------ *)
(* byte <-> N plumbing                                                 *)

Lemma code_lt x : code x < 256.
Proof. apply N_ascii_bounded. Qed.

Lemma of_code x : ascii_of_N (code x) = x.
Proof. apply ascii_N_embedding. Qed.

Lemma code_of n : n < 256 -> code (ascii_of_N n) = n.
Proof. apply N_ascii_embedding. Qed.

Lemma list_ind3 {A} (P : list A -> Prop) :
  P [] -> (forall x, P [x]) -> (forall x y, P [x; y]) ->
  (forall x y z l, P l -> P (x :: y :: z :: l)) -> forall l, P l.
Proof.
  intros H0 H1 H2 H3. fix IH 1.
  intros [|x [|y [|z l]]];
    [exact H0|exact (H1 _)|exact (H2 _ _)|exact (H3 _ _ _ _ (IH l))].
Qed.

Lemma b64_encode_cons3 u x y z l :
  b64_encode u (x :: y :: z :: l) = enc3 u x y z ++ b64_encode u l.
Proof. reflexivity. Qed.

Lemma b64_encode_nonempty u w l : exists c s, b64_encode u (w :: l) = c :: s.
Proof. destruct l as [|? [|? ?]]; eexists; eexists; reflexivity. Qed.

(* ------------------------------------------------------------------ *)
(* decoding one encoded group                                          *)

Lemma dec_last_enc1 u x :
  let p := code x in
  dec_last u (enc_char u (p / 4)) (enc_char u ((p mod 4) * 16)) pad pad
  = Some [x].
Proof.
  intros p. pose proof (code_lt x) as Hp. fold p in Hp.
  unfold dec_last. rewrite !Ascii.eqb_refl.
  rewrite !dec_enc by lia.
  replace ((p mod 4 * 16) mod 16 =? 0) with true by (symmetry; apply N.eqb_eq; lia).
  replace (p / 4 * 4 + p mod 4 * 16 / 16) with p by lia.
  unfold p. rewrite of_code. reflexivity.
Qed.

Lemma dec_last_enc2 u x y :
  let p := code x in let q := code y in
  dec_last u (enc_char u (p / 4)) (enc_char u ((p mod 4) * 16 + q / 16))
             (enc_char u ((q mod 16) * 4)) pad
  = Some [x; y].
Proof.
  intros p q. pose proof (code_lt x) as Hp. pose proof (code_lt y) as Hq.
  fold p in Hp. fold q in Hq.
  unfold dec_last. rewrite Ascii.eqb_refl.
  rewrite enc_not_pad by lia.
  rewrite !dec_enc by lia.
  replace ((q mod 16 * 4) mod 4 =? 0) with true by (symmetry; apply N.eqb_eq; lia).
  replace (p / 4 * 4 + (p mod 4 * 16 + q / 16) / 16) with p by lia.
  replace ((p mod 4 * 16 + q / 16) mod 16 * 16 + q mod 16 * 4 / 4) with q by lia.
  unfold p, q. rewrite !of_code. reflexivity.
Qed.

Lemma dec_quad_enc3 u x y z :
  let p := code x in let q := code y in let r := code z in
  dec_quad u (enc_char u (p / 4)) (enc_char u ((p mod 4) * 16 + q / 16))
             (enc_char u ((q mod 16) * 4 + r / 64)) (enc_char u (r mod 64))
  = Some [x; y; z].
Proof.
  intros p q r. pose proof (code_lt x) as Hp. pose proof (code_lt y) as Hq.
  pose proof (code_lt z) as Hr. fold p in Hp. fold q in Hq. fold r in Hr.
  unfold dec_quad. rewrite !dec_enc by lia.
  replace (p / 4 * 4 + (p mod 4 * 16 + q / 16) / 16) with p by lia.
  replace ((p mod 4 * 16 + q / 16) mod 16 * 16 + (q mod 16 * 4 + r / 64) / 4)
    with q by lia.
  replace ((q mod 16 * 4 + r / 64) mod 4 * 64 + r mod 64) with r by lia.
  unfold p, q, r. rewrite !of_code. reflexivity.
Qed.

Lemma dec_last_enc3 u x y z :
  let p := code x in let q := code y in let r := code z in
  dec_last u (enc_char u (p / 4)) (enc_char u ((p mod 4) * 16 + q / 16))
             (enc_char u ((q mod 16) * 4 + r / 64)) (enc_char u (r mod 64))
  = Some [x; y; z].
Proof.
  intros p q r. unfold dec_last.
  rewrite enc_not_pad by (pose proof (code_lt z); fold r in H; lia).
  apply dec_quad_enc3.
Qed.

(* ------------------------------------------------------------------ *)
(* headline theorems                                                   *)

Theorem b64_roundtrip : forall u bs, b64_decode u (b64_encode u bs) = Some bs.
Proof.
  intros u bs. induction bs as [|x|x y|x y z l IH] using list_ind3.
  - reflexivity.
  - exact (dec_last_enc1 u x).
  - exact (dec_last_enc2 u x y).
  - rewrite b64_encode_cons3. destruct l as [|w l].
    + exact (dec_last_enc3 u x y z).
    + destruct (b64_encode_nonempty u w l) as [c [s E]].
      rewrite E in *.
      change (match dec_quad u (enc_char u (code x / 4))
                      (enc_char u ((code x mod 4) * 16 + code y / 16))
                      (enc_char u ((code y mod 16) * 4 + code z / 64))
                      (enc_char u (code z mod 64)),
                    b64_decode u (c :: s) with
              | Some a, Some r => Some (a ++ r)
              | _, _ => None
              end = Some (x :: y :: z :: w :: l)).
      rewrite IH. rewrite (dec_quad_enc3 u x y z). reflexivity.
Qed.

Theorem b64_length : forall u bs,
  List.length (b64_encode u bs) = (4 * ((List.length bs + 2) / 3))%nat.
Proof.
  intros u bs. induction bs as [|x|x y|x y z l IH] using list_ind3;
    try reflexivity.
  rewrite b64_encode_cons3, app_length, IH.
  change (List.length (enc3 u x y z)) with 4%nat.
  change (List.length (x :: y :: z :: l)) with (S (S (S (List.length l)))).
  replace (S (S (S (List.length l))) + 2)%nat with ((List.length l + 2) + 1 * 3)%nat by lia.
  rewrite Nat.div_add by discriminate. lia.
Qed.

Theorem b64_alphabet : forall u bs, Forall (in_alphabet u) (b64_encode u bs).
Proof.
  intros u bs.
  assert (E : forall n, n < 64 -> in_alphabet u (enc_char u n)).
  { intros n Hn. right. apply enc_in_alphabet, Hn. }
  assert (Pd : in_alphabet u pad) by (left; reflexivity).
  induction bs as [|x|x y|x y z l IH] using list_ind3.
  - constructor.
  - pose proof (code_lt x).
    repeat apply Forall_cons; try apply Forall_nil; try assumption; apply E; lia.
  - pose proof (code_lt x). pose proof (code_lt y).
    repeat apply Forall_cons; try apply Forall_nil; try assumption; apply E; lia.
  - pose proof (code_lt x). pose proof (code_lt y). pose proof (code_lt z).
    rewrite b64_encode_cons3. apply Forall_app. split; [|exact IH].
    repeat apply Forall_cons; try apply Forall_nil; apply E; lia.
Qed.

Theorem b64_variants_differ_only_62_63 : forall bs,
  b64_encode true bs = map swap6263 (b64_encode false bs).
Proof.
  intros bs. induction bs as [|x|x y|x y z l IH] using list_ind3.
  - reflexivity.
  - pose proof (code_lt x).
    unfold b64_encode, enc1. cbn [map].
    rewrite !enc_swap by lia. reflexivity.
  - pose proof (code_lt x). pose proof (code_lt y).
    unfold b64_encode, enc2. cbn [map].
    rewrite !enc_swap by lia. reflexivity.
  - pose proof (code_lt x). pose proof (code_lt y). pose proof (code_lt z).
    rewrite !b64_encode_cons3, map_app, IH. f_equal.
    unfold enc3. cbn [map].
    rewrite !enc_swap by lia. reflexivity.
Qed.

Lemma mod3_SSS n : (S (S (S n)) mod 3 = n mod 3)%nat.
Proof.
  replace (S (S (S n))) with (n + 1 * 3)%nat by lia.
  apply Nat.mod_add. discriminate.
Qed.

Theorem b64_encode_app3 : forall u a b,
  (List.length a mod 3 = 0)%nat ->
  b64_encode u (a ++ b) = b64_encode u a ++ b64_encode u b.
Proof.
  intros u a b0. induction a as [|x|x y|x y z l IH] using list_ind3; intros H.
  - reflexivity.
  - discriminate H.
  - discriminate H.
  - change (List.length (x :: y :: z :: l)) with (S (S (S (List.length l)))) in H.
    rewrite mod3_SSS in H.
    change ((x :: y :: z :: l) ++ b0) with (x :: y :: z :: (l ++ b0)).
    rewrite !b64_encode_cons3, IH by assumption. apply app_assoc.
Qed.

(* ------------------------------------------------------------------ *)
(* strictness of the decoder: it accepts only canonical encodings, so   *)
(* [b64_decode u] and [b64_encode u] are mutually inverse bijections    *)
(* between byte strings and the image of the encoder.                   *)

Lemma enc3_of_sextets u c1 c2 c3 c4 p q r s :
  dec_char u c1 = Some p -> dec_char u c2 = Some q ->
  dec_char u c3 = Some r -> dec_char u c4 = Some s ->
  enc3 u (ascii_of_N (p * 4 + q / 16))
         (ascii_of_N ((q mod 16) * 16 + r / 4))
         (ascii_of_N ((r mod 4) * 64 + s)) = [c1; c2; c3; c4].
Proof.
  intros H1 H2 H3 H4.
  apply dec_char_inv in H1, H2, H3, H4.
  destruct H1 as [Lp <-], H2 as [Lq <-], H3 as [Lr <-], H4 as [Ls <-].
  unfold enc3. rewrite !code_of by lia.
  repeat (f_equal; try lia).
Qed.

Lemma dec_quad_inv u c1 c2 c3 c4 x :
  dec_quad u c1 c2 c3 c4 = Some x ->
  exists x1 x2 x3, x = [x1; x2; x3] /\ enc3 u x1 x2 x3 = [c1; c2; c3; c4].
Proof.
  unfold dec_quad.
  destruct (dec_char u c1) as [p|] eqn:E1; [|discriminate].
  destruct (dec_char u c2) as [q|] eqn:E2; [|discriminate].
  destruct (dec_char u c3) as [r|] eqn:E3; [|discriminate].
  destruct (dec_char u c4) as [s|] eqn:E4; [|discriminate].
  intros H; inversion H; subst x; clear H.
  do 3 eexists. split; [reflexivity|].
  eapply enc3_of_sextets; eassumption.
Qed.

Lemma dec_last_inv u c1 c2 c3 c4 x :
  dec_last u c1 c2 c3 c4 = Some x -> b64_encode u x = [c1; c2; c3; c4].
Proof.
  unfold dec_last.
  destruct (Ascii.eqb c4 pad) eqn:P4.
  - apply Ascii.eqb_eq in P4; subst c4.
    destruct (Ascii.eqb c3 pad) eqn:P3.
    + apply Ascii.eqb_eq in P3; subst c3.
      destruct (dec_char u c1) as [p|] eqn:E1; [|discriminate].
      destruct (dec_char u c2) as [q|] eqn:E2; [|discriminate].
      destruct (q mod 16 =? 0) eqn:Z; [|discriminate].
      apply N.eqb_eq in Z.
      intros H; inversion H; subst x; clear H.
      apply dec_char_inv in E1, E2.
      destruct E1 as [Lp <-], E2 as [Lq <-].
      unfold b64_encode, enc1. rewrite !code_of by lia.
      repeat (f_equal; try lia).
    + destruct (dec_char u c1) as [p|] eqn:E1; [|discriminate].
      destruct (dec_char u c2) as [q|] eqn:E2; [|discriminate].
      destruct (dec_char u c3) as [r|] eqn:E3; [|discriminate].
      destruct (r mod 4 =? 0) eqn:Z; [|discriminate].
      apply N.eqb_eq in Z.
      intros H; inversion H; subst x; clear H.
      apply dec_char_inv in E1, E2, E3.
      destruct E1 as [Lp <-], E2 as [Lq <-], E3 as [Lr <-].
      unfold b64_encode, enc2. rewrite !code_of by lia.
      repeat (f_equal; try lia).
  - intros H. apply dec_quad_inv in H.
    destruct H as [x1 [x2 [x3 [-> H]]]].
    rewrite b64_encode_cons3, H. reflexivity.
Qed.

Lemma list_ind4 {A} (P : list A -> Prop) :
  P [] -> (forall x, P [x]) -> (forall x y, P [x; y]) ->
  (forall x y z, P [x; y; z]) ->
  (forall x y z w l, P l -> P (x :: y :: z :: w :: l)) -> forall l, P l.
Proof.
  intros H0 H1 H2 H3 H4. fix IH 1.
  intros [|x [|y [|z [|w l]]]];
    [exact H0|exact (H1 _)|exact (H2 _ _)|exact (H3 _ _ _)
    |exact (H4 _ _ _ _ _ (IH l))].
Qed.

Theorem b64_decode_strict : forall u s bs,
  b64_decode u s = Some bs -> b64_encode u bs = s.
Proof.
  intros u s.
  induction s as [|c1|c1 c2|c1 c2 c3|c1 c2 c3 c4 rest IH] using list_ind4;
    intros bs H; try discriminate H.
  - inversion H; reflexivity.
  - destruct rest as [|c5 rest'].
    + apply dec_last_inv. exact H.
    + change (match dec_quad u c1 c2 c3 c4, b64_decode u (c5 :: rest') with
              | Some a, Some r => Some (a ++ r)
              | _, _ => None
              end = Some bs) in H.
      destruct (dec_quad u c1 c2 c3 c4) as [x|] eqn:Q; [|discriminate].
      destruct (b64_decode u (c5 :: rest')) as [r|] eqn:R; [|discriminate].
      inversion H; subst bs; clear H.
      apply dec_quad_inv in Q. destruct Q as [x1 [x2 [x3 [-> Q]]]].
      change ([x1; x2; x3] ++ r) with (x1 :: x2 :: x3 :: r).
      rewrite b64_encode_cons3, Q, (IH r eq_refl). reflexivity.
Qed.

Corollary b64_decode_Some_iff : forall u s bs,
  b64_decode u s = Some bs <-> s = b64_encode u bs.
Proof.
  intros u s bs. split.
  - intros H. symmetry. apply b64_decode_strict, H.
  - intros ->. apply b64_roundtrip.
Qed.

Corollary b64_encode_inj : forall u x y,
  b64_encode u x = b64_encode u y -> x = y.
Proof.
  intros u x y H. pose proof (b64_roundtrip u x) as Hx.
  rewrite H, b64_roundtrip in Hx. congruence.
Qed.

(* ------------------------------------------------------------------ *)
(* test vectors                                                        *)

Definition bytes_of (l : list N) : bytes := map ascii_of_N l.

(* RFC 4648 section 10 *)
Example rfc_0 : b64_encode false (b "") = b "". Proof. vm_compute; reflexivity. Qed.
Example rfc_1 : b64_encode false (b "f") = b "Zg==". Proof. vm_compute; reflexivity. Qed.
Example rfc_2 : b64_encode false (b "fo") = b "Zm8=". Proof. vm_compute; reflexivity. Qed.
Example rfc_3 : b64_encode false (b "foo") = b "Zm9v". Proof. vm_compute; reflexivity. Qed.
Example rfc_4 : b64_encode false (b "foob") = b "Zm9vYg==". Proof. vm_compute; reflexivity. Qed.
Example rfc_5 : b64_encode false (b "fooba") = b "Zm9vYmE=". Proof. vm_compute; reflexivity. Qed.
Example rfc_6 : b64_encode false (b "foobar") = b "Zm9vYmFy". Proof. vm_compute; reflexivity. Qed.
Example rfc_u : map (b64_encode true) [b ""; b "f"; b "fo"; b "foo"; b "foob"; b "fooba"; b "foobar"]
              = [b ""; b "Zg=="; b "Zm8="; b "Zm9v"; b "Zm9vYg=="; b "Zm9vYmE="; b "Zm9vYmFy"].
Proof. vm_compute; reflexivity. Qed.

(* python3 base64.b64encode / base64.urlsafe_b64encode, and the [base64]
   0.21.7 crate's STANDARD / URL_SAFE engines (same outputs; see rs/) *)
Definition check (l : list N) (std url : string) : bool :=
  bytes_eqb (b64_encode false (bytes_of l)) (b std)
  && bytes_eqb (b64_encode true (bytes_of l)) (b url)
  && match b64_decode false (b std) with Some x => bytes_eqb x (bytes_of l) | None => false end
  && match b64_decode true (b url) with Some x => bytes_eqb x (bytes_of l) | None => false end.

Example py_1 : check [251;252;253;254;255] "+/z9/v8=" "-_z9_v8=" = true.
Proof. vm_compute; reflexivity. Qed.
Example py_2 : check [255;254;253;252;251;250] "//79/Pv6" "__79_Pv6" = true.
Proof. vm_compute; reflexivity. Qed.
Example py_3 : check [251;255] "+/8=" "-_8=" = true.
Proof. vm_compute; reflexivity. Qed.
Example py_4 : check [255] "/w==" "_w==" = true.
Proof. vm_compute; reflexivity. Qed.
Example py_5 : check [0;0;0;0] "AAAAAA==" "AAAAAA==" = true.
Proof. vm_compute; reflexivity. Qed.
Example py_6 : check [168;66;60;221;120;249;201] "qEI83Xj5yQ==" "qEI83Xj5yQ==" = true.
Proof. vm_compute; reflexivity. Qed.
Example py_7 : check [42;135;4;151;4;175;121;114;234;2] "KocElwSveXLqAg==" "KocElwSveXLqAg==" = true.
Proof. vm_compute; reflexivity. Qed.
Example py_8 : check [56;97;130;213;166;103;118;118;218;254;229;15;39;45;147;235]
                 "OGGC1aZndnba/uUPJy2T6w==" "OGGC1aZndnba_uUPJy2T6w==" = true.
Proof. vm_compute; reflexivity. Qed.
Example py_9 : check [78;144;95;235;217;185;69;222;205;186;250;25;19;62;85;20;60;180;159;109;225;147;42]
                 "TpBf69m5Rd7NuvoZEz5VFDy0n23hkyo=" "TpBf69m5Rd7NuvoZEz5VFDy0n23hkyo=" = true.
Proof. vm_compute; reflexivity. Qed.
Example py_10 : check [0;5;10;15;20;25;30;35;40;45;50;55;60;65;70;75;80;85;90;95;100;105;110;115;120;125;130;135;140;145;150;155;160;165;170;175;180;185;190;195;200;205;210;215;220;225;230;235;240;245;250;255]
   "AAUKDxQZHiMoLTI3PEFGS1BVWl9kaW5zeH2Ch4yRlpugpaqvtLm+w8jN0tfc4ebr8PX6/w=="
   "AAUKDxQZHiMoLTI3PEFGS1BVWl9kaW5zeH2Ch4yRlpugpaqvtLm-w8jN0tfc4ebr8PX6_w==" = true.
Proof. vm_compute; reflexivity. Qed.

(* the strict decoder rejects: wrong alphabet, bad length, misplaced or
   missing padding, non-canonical trailing bits *)
Example rej_alphabet_std : b64_decode false (b "-_8=") = None. Proof. vm_compute; reflexivity. Qed.
Example rej_alphabet_url : b64_decode true (b "+/8=") = None. Proof. vm_compute; reflexivity. Qed.
Example rej_length : b64_decode false (b "Zm8") = None. Proof. vm_compute; reflexivity. Qed.
Example rej_nopad : b64_decode false (b "Zg") = None. Proof. vm_compute; reflexivity. Qed.
Example rej_pad_mid : b64_decode false (b "Zg==Zm8=") = None. Proof. vm_compute; reflexivity. Qed.
Example rej_pad_3 : b64_decode false (b "Z===") = None. Proof. vm_compute; reflexivity. Qed.
Example rej_pad_inner : b64_decode false (b "Zg=v") = None. Proof. vm_compute; reflexivity. Qed.
Example rej_trailing_bits1 : b64_decode false (b "Zh==") = None. Proof. vm_compute; reflexivity. Qed.
Example rej_trailing_bits2 : b64_decode false (b "Zm9=") = None. Proof. vm_compute; reflexivity. Qed.
Example rej_newline : b64_decode false [nl] = None. Proof. vm_compute; reflexivity. Qed.
