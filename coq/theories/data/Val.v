(* The converter-facing value type (src/build/ir.rs: enum Val).
   Floats are carried as an abstract token [fl]: a finite float is identified by
   the decimal text Rust's Display prints for it (supplied by the harness),
   non-finite ones by a tag.  No float arithmetic is modelled here. *)
From Ucg Require Export base.Bytes.

Inductive fl :=
| FFin (txt : bytes)      (* finite; txt = Rust `{}` rendering, e.g. 1.5, -0, 1e300 *)
| FNaN | FInf | FNegInf.

Inductive val :=
| VEmpty
| VBool (v : bool)
| VInt (z : Z)
| VFloat (f : fl)
| VStr (s : bytes)
| VList (l : list val)
| VTuple (fs : list (bytes * val))
| VEnv (fs : list (bytes * bytes))
| VConstraint.

Definition is_tuple (v : val) : bool := match v with VTuple _ => true | _ => false end.
Definition is_list (v : val) : bool := match v with VList _ => true | _ => false end.

(* Rust Display for i64 *)
Fixpoint pos_digits_fuel (fuel : nat) (n : N) (acc : bytes) : bytes :=
  match fuel with
  | O => acc
  | S f =>
    let d := ascii_of_N (48 + N.modulo n 10) in
    let q := N.div n 10 in
    if N.eqb q 0 then d :: acc else pos_digits_fuel f q (d :: acc)
  end.
Definition dec_of_N (n : N) : bytes := pos_digits_fuel (S (N.to_nat (N.log2 n))) n [].
Definition dec_of_Z (z : Z) : bytes :=
  match z with
  | Z0 => b "0"
  | Zpos p => dec_of_N (Npos p)
  | Zneg p => "-"%char :: dec_of_N (Npos p)
  end.

Definition fl_text (f : fl) : bytes :=
  match f with
  | FFin t => t
  | FNaN => b "NaN"
  | FInf => b "inf"
  | FNegInf => b "-inf"
  end.
