(* Proofs about the TOML model: the exact text of the serializer for inline values, and how the
   reader's line loop reads the three kinds of lines (key = value, [header], [[header]]). *)
From Ucg Require Import base.Bytes base.Bytes_Lemmas data.Val data.Json data.MapJson data.MapJson_Lemmas
     data.Toml data.Toml_Str data.Toml_Num data.Toml_Err data.Toml_Sem data.Toml_Val.
Local Open Scope list_scope.

(* ------------------------------------------------------------------ *)
(* _emit_key: the text                                                 *)

Definition eq_text : bytes := [sp; "="%char; sp].

Fixpoint ekey_out (st : stack) : bytes :=
  match st with
  | [] => []
  | FA first _ len :: par => if first then ekey_out par ++ emit_array true len else emit_array false len
  | FT k first _ :: par =>
    (if first then header_out (List.length par) par else []) ++ escape_key k ++ eq_text
  end.

Lemma emit_key_rec_out st : all_typed st = true -> te_hit st = false ->
  emit_key_rec st = TOk (ekey_out st, mark st).
Proof.
  induction st as [|[k f te|f [ty|] n] par IH]; cbn [forallb frame_typed te_hit emit_key_rec mark ekey_out]; intros H Hh.
  - reflexivity.
  - rewrite Hh. destruct f; reflexivity.
  - destruct f; [|reflexivity]. rewrite (IH H Hh). reflexivity.
  - discriminate H.
Qed.

(* ------------------------------------------------------------------ *)
(* Inline values: text and resulting state                             *)

Definition SerInline (v : tval) : Prop :=
  forall st, all_typed (tl st) = true -> te_hit (array_type AStarted st) = false ->
    ser v st = TOk (ekey_out (array_type AStarted st) ++ body v ++ nl_if_table st, post v st).

Lemma ser_scalar_out txt st : all_typed (tl st) = true -> te_hit (array_type AStarted st) = false ->
  ser_scalar txt st = TOk (ekey_out (array_type AStarted st) ++ txt ++ nl_if_table st, mark (array_type AStarted st)).
Proof.
  intros H Hh. unfold ser_scalar, emit_key.
  rewrite (emit_key_rec_out _ (all_typed_array_type AStarted st H) Hh). reflexivity.
Qed.

(* items after the first *)
Lemma seq_elems_inline len l : Forall (fun y => has_tab y = false /\ SerInline y) l -> forall ty par,
  all_typed par = true -> ty <> None ->
  seq_elems ser len l false ty par
  = TOk (flat_map (fun y => emit_array false len ++ body y) l, (ty, par)).
Proof.
  induction 1 as [|x l (Hx & Sx) _ IH]; intros ty par Hp Hty; cbn [seq_elems flat_map]; [reflexivity|].
  destruct ty as [t|]; [|congruence].
  rewrite (Sx (FA false (Some t) len :: par) Hp eq_refl).
  destruct (post_FA x false (Some t) len par) as (ty' & par' & Ep & Epar & Ety). rewrite Ep.
  rewrite Hx, andb_false_r in Epar. subst par' ty'.
  rewrite (IH (Some t) par Hp ltac:(discriminate)).
  cbn [array_type ekey_out nl_if_table]. rewrite app_nil_r. reflexivity.
Qed.

Lemma has_tab_arr_elems l : has_tab (TArr l) = false -> forall y, In y l -> has_tab y = false.
Proof.
  cbn [has_tab]. intros H y Hy. destruct (has_tab y) eqn:E; [|reflexivity].
  assert (existsb has_tab l = true) by (apply existsb_exists; eauto). congruence.
Qed.

Theorem ser_inline : forall v, has_tab v = false -> SerInline v.
Proof.
  induction v as [s|z|f|x|l IH|es IH] using tval_ind'; intros Ht.
  1-4: intros st Hst Hh; cbn [ser body]; rewrite (ser_scalar_out _ st Hst Hh); reflexivity.
  - intros st Hst Hh. cbn [ser]. set (st0 := array_type AStarted st) in *.
    assert (H0 : all_typed st0 = true) by (apply all_typed_array_type; exact Hst).
    assert (Hall : Forall (fun y => has_tab y = false /\ SerInline y) l).
    { apply Forall_forall. intros y Hy. rewrite Forall_forall in IH.
      pose proof (has_tab_arr_elems l Ht y Hy) as Hy'. split; [exact Hy'|apply IH; assumption]. }
    destruct l as [|x xs].
    + cbn [seq_elems seq_end List.length]. unfold emit_key. rewrite (array_type_typed AStarted st0 H0).
      rewrite (emit_key_rec_out st0 H0 Hh).
      unfold post. cbn [kind first_leaf_checks has_tab existsb body]. fold st0.
      replace (nl_if_table st0) with (nl_if_table st) by (unfold st0; destruct st as [|[|? [|]] ?]; reflexivity).
      reflexivity.
    + inversion Hall as [|? ? (Hx & Sx) Hxs]; subst.
      cbn [seq_elems List.length]. set (len := S (List.length xs)).
      rewrite (Sx (FA true None len :: st0) H0 Hh).
      destruct (post_FA x true None len st0) as (ty' & par' & Ep & Epar & Ety). rewrite Ep.
      rewrite Hx, andb_true_r in Epar. subst ty'.
      assert (Hp' : all_typed par' = true).
      { subst par'. destruct (first_leaf_checks x); [apply all_typed_mark|]; exact H0. }
      rewrite (seq_elems_inline len xs Hxs (Some (kind x)) par' Hp' ltac:(discriminate)).
      assert (Ek : kind x = AStarted) by (destruct x; try reflexivity; discriminate Hx).
      rewrite Ek. cbn [seq_end array_type ekey_out nl_if_table]. rewrite app_nil_r.
      assert (Epost : par' = post (TArr (x :: xs)) st).
      { unfold post. cbn [kind first_leaf_checks]. rewrite Ht. fold st0. subst par'. reflexivity. }
      rewrite <- Epost.
      replace (nl_if_table par') with (nl_if_table st).
      2:{ subst par'. unfold st0. destruct st as [|[k f te|f [ty|] n] st]; cbn [array_type mark nl_if_table];
          destruct (first_leaf_checks x); cbn [mark nl_if_table]; try reflexivity; destruct f; reflexivity. }
      cbn [body]. fold len. unfold close_array. rewrite <- !app_assoc. reflexivity.
  - discriminate Ht.
Qed.

(* ------------------------------------------------------------------ *)
(* Keys and dotted paths as text                                       *)

Definition line_head_ok (c : ascii) : bool :=
  negb (is_wschar c || ceq c nl || ceq c cr || ceq c "#"%char || ceq c "["%char).

Lemma bare_head_ok c : is_bare_char c = true -> line_head_ok c = true.
Proof. destruct c as [[] [] [] [] [] [] [] []]; cbn; intros; congruence. Qed.

Lemma escape_key_head k : exists c t, escape_key k = c :: t /\ line_head_ok c = true.
Proof.
  unfold escape_key. destruct (bare_key_ok k) eqn:E.
  - destruct k as [|c k]; [discriminate|]. exists c, k. split; [reflexivity|].
    apply bare_head_ok. cbn [bare_key_ok forallb] in E. apply andb_true_iff in E. tauto.
  - unfold emit_std. eexists; eexists; split; reflexivity.
Qed.

Lemma line_head_skip c r : line_head_ok c = true -> skip_ws (c :: r) = c :: r.
Proof. destruct c as [[] [] [] [] [] [] [] []]; cbn; intros; try discriminate; reflexivity. Qed.

Fixpoint path_tail (p : list bytes) : bytes :=
  match p with
  | [] => []
  | k :: r => "."%char :: escape_key k ++ path_tail r
  end.

Definition path_text (p : list bytes) : bytes :=
  match p with
  | [] => []
  | k :: r => escape_key k ++ path_tail r
  end.

Lemma path_tail_app p q : path_tail (p ++ q) = path_tail p ++ path_tail q.
Proof. induction p as [|k p IH]; cbn [app path_tail]; [reflexivity|]. rewrite IH, <- app_assoc. reflexivity. Qed.

Lemma path_text_snoc p k :
  path_text (p ++ [k]) = path_text p ++ (match p with [] => [] | _ => ["."%char] end) ++ escape_key k.
Proof.
  destruct p as [|k0 p]; cbn [app path_text].
  - rewrite app_nil_r. reflexivity.
  - rewrite path_tail_app. cbn [path_tail]. rewrite app_nil_r, <- app_assoc. reflexivity.
Qed.

(* the dotted path of a state: the keys of its Table frames, outermost first *)
Fixpoint spath (st : stack) : list bytes :=
  match st with
  | [] => []
  | FA _ _ _ :: par => spath par
  | FT k _ _ :: par => spath par ++ [k]
  end.

Lemma key_part_spec st : key_part st = (path_text (spath st), is_nil (spath st)).
Proof.
  induction st as [|[k f te|f t n] par IH]; cbn [key_part spath]; [reflexivity| |exact IH].
  rewrite IH, path_text_snoc. destruct (spath par); cbn [is_nil app]; reflexivity.
Qed.

Lemma spath_set_te st : spath (set_te st) = spath st.
Proof. induction st as [|[k f te|f t n] st IH]; cbn; congruence. Qed.

Lemma skip_ws_dot r : skip_ws ("."%char :: r) = "."%char :: r.
Proof. reflexivity. Qed.
Lemma skip_ws_close r : skip_ws ("]"%char :: r) = "]"%char :: r.
Proof. reflexivity. Qed.

Lemma parse_key_escape k R : key_follow_ok R ->
  parse_key (skip_ws (escape_key k ++ R)) = Some (k, R).
Proof.
  intros HR. destruct (escape_key_head k) as (c & t & E & Hc).
  assert (Es : skip_ws (escape_key k ++ R) = escape_key k ++ R) by (rewrite E; cbn [app]; apply line_head_skip, Hc).
  rewrite Es. apply toml_key_roundtrip, HR.
Qed.

(* reading a dotted path that is followed by a closing bracket *)
Lemma parse_path_tail : forall p n k acc rest,
  List.length p < n ->
  parse_path n (escape_key k ++ path_tail p ++ "]"%char :: rest) acc
  = Some (rev acc ++ k :: p, "]"%char :: rest).
Proof.
  induction p as [|k2 p IH]; intros n k acc rest Hn; (destruct n as [|n]; [cbn in Hn; lia|]); cbn [parse_path path_tail app].
  - rewrite parse_key_escape by reflexivity. rewrite skip_ws_close.
    change (ceq "]"%char "."%char) with false. cbv iota. rewrite rev'_spec. reflexivity.
  - rewrite <- app_assoc. cbn [app]. rewrite parse_key_escape by reflexivity. rewrite skip_ws_dot.
    change (ceq "."%char "."%char) with true. cbv iota.
    rewrite (IH n k2 (k :: acc) rest ltac:(cbn in Hn; lia)).
    cbn [rev]. rewrite <- app_assoc. reflexivity.
Qed.

Lemma path_text_length p : List.length p <= List.length (path_text p).
Proof.
  assert (Hk : forall k, 1 <= List.length (escape_key k)).
  { intros k. destruct (escape_key_head k) as (c & t & -> & _). cbn. lia. }
  assert (Ht : forall r, List.length r <= List.length (path_tail r)).
  { induction r as [|k r IH]; cbn [path_tail List.length]; [lia|]. rewrite app_length. specialize (Hk k). lia. }
  destruct p as [|k r]; cbn [path_text List.length]; [lia|]. rewrite app_length. specialize (Hk k). specialize (Ht r). lia.
Qed.

Lemma parse_path_text p rest : p <> [] ->
  parse_path (List.length (path_text p ++ "]"%char :: rest)) (path_text p ++ "]"%char :: rest) []
  = Some (p, "]"%char :: rest).
Proof.
  intros Hp. destruct p as [|k r]; [congruence|]. cbn [path_text]. rewrite <- app_assoc.
  rewrite parse_path_tail; [reflexivity|].
  pose proof (path_text_length (k :: r)) as Hl. cbn [path_text] in Hl.
  rewrite app_assoc, app_length. cbn [List.length] in *. lia.
Qed.

Lemma path_text_head p : p <> [] -> exists c t, path_text p = c :: t /\ line_head_ok c = true.
Proof.
  destruct p as [|k r]; [congruence|]. intros _. cbn [path_text].
  destruct (escape_key_head k) as (c & t & E & Hc). rewrite E. exists c, (t ++ path_tail r). split; [reflexivity|exact Hc].
Qed.

(* ------------------------------------------------------------------ *)
(* Lines                                                               *)

(* the writer's text o is a sequence of complete lines that the reader's loop turns into [its] *)
Definition Lexes (o : bytes) (its : list item) : Prop :=
  forall rest acc fuel, List.length (o ++ rest) < fuel ->
    exists fuel', List.length rest < fuel' /\
      doc_items fuel (o ++ rest) acc = doc_items fuel' rest (rev its ++ acc).

Lemma Lexes_nil : Lexes [] [].
Proof. intros rest acc fuel H. exists fuel. split; [exact H|reflexivity]. Qed.

Lemma Lexes_app o1 o2 i1 i2 : Lexes o1 i1 -> Lexes o2 i2 -> Lexes (o1 ++ o2) (i1 ++ i2).
Proof.
  intros H1 H2 rest acc fuel Hf. rewrite <- app_assoc in *.
  destruct (H1 (o2 ++ rest) acc fuel Hf) as (f1 & Hf1 & E1).
  destruct (H2 rest (rev i1 ++ acc) f1 Hf1) as (f2 & Hf2 & E2).
  exists f2. split; [exact Hf2|]. rewrite E1, E2, rev_app_distr, <- app_assoc. reflexivity.
Qed.

Lemma line_head_dispatch c : line_head_ok c = true ->
  ceq c nl = false /\ ceq c cr = false /\ ceq c "#"%char = false /\ ceq c "["%char = false.
Proof. destruct c as [[] [] [] [] [] [] [] []]; cbn; intros; try discriminate; repeat split. Qed.

Lemma Lexes_blank : Lexes [nl] [].
Proof.
  intros rest acc fuel Hf. destruct fuel as [|f]; [cbn in Hf; lia|].
  exists f. split; [cbn in Hf; lia|]. reflexivity.
Qed.

Lemma line_end_nl rest : line_end (nl :: rest) = Some rest.
Proof. reflexivity. Qed.

Lemma doc_items_head f c2 s2 acc : ceq c2 "["%char = false ->
  doc_items (S f) ("["%char :: c2 :: s2) acc =
  match parse_path (List.length (c2 :: s2)) (c2 :: s2) [] with
  | Some (p, c3 :: r) =>
    if ceq c3 "]"%char
    then match line_end r with Some r' => doc_items f r' (IHead p :: acc) | None => None end
    else None
  | _ => None
  end.
Proof.
  intros H. cbn [doc_items]. change (skip_ws ("["%char :: c2 :: s2)) with ("["%char :: c2 :: s2). cbv iota.
  change (ceq "["%char nl) with false. change (ceq "["%char cr) with false.
  change (ceq "["%char "#"%char) with false. change (ceq "["%char "["%char) with true. cbv iota.
  rewrite H. destruct (parse_path (List.length (c2 :: s2)) (c2 :: s2) []) as [[p [|c3 r]]|]; reflexivity.
Qed.

Lemma doc_items_ahead f s2 acc :
  doc_items (S f) ("["%char :: "["%char :: s2) acc =
  match parse_path (List.length s2) s2 [] with
  | Some (p, c3 :: c4 :: r) =>
    if ceq c3 "]"%char && ceq c4 "]"%char
    then match line_end r with Some r' => doc_items f r' (IAHead p :: acc) | None => None end
    else None
  | _ => None
  end.
Proof.
  cbn [doc_items]. change (skip_ws ("["%char :: "["%char :: s2)) with ("["%char :: "["%char :: s2). cbv iota.
  change (ceq "["%char nl) with false. change (ceq "["%char cr) with false.
  change (ceq "["%char "#"%char) with false. change (ceq "["%char "["%char) with true. cbv iota.
  destruct (parse_path (List.length s2) s2 []) as [[p [|c3 [|c4 r]]]|]; reflexivity.
Qed.

Lemma doc_items_kv f c s1 acc : line_head_ok c = true ->
  doc_items (S f) (c :: s1) acc =
  match parse_key (c :: s1) with
  | None => None
  | Some (k, r1) =>
    match skip_ws r1 with
    | e :: r2 =>
      if ceq e "="%char then
        let r3 := skip_ws r2 in
        match parse_val (S (List.length r3)) r3 with
        | None => None
        | Some (v, r4) =>
          match line_end r4 with Some r' => doc_items f r' (IKV k v :: acc) | None => None end
        end
      else None
    | [] => None
    end
  end.
Proof.
  intros Hc. destruct (line_head_dispatch c Hc) as (H1 & H2 & H3 & H4).
  cbn [doc_items]. rewrite (line_head_skip c s1 Hc). cbv iota. rewrite H1, H2, H3, H4. reflexivity.
Qed.

Lemma skip_ws_eq r : skip_ws (sp :: "="%char :: sp :: r) = "="%char :: sp :: r.
Proof. reflexivity. Qed.
Lemma skip_ws_sp r : skip_ws (sp :: r) = skip_ws r.
Proof. reflexivity. Qed.

Lemma Lexes_head p : p <> [] -> Lexes ("["%char :: path_text p ++ ["]"%char; nl]) [IHead p].
Proof.
  intros Hp rest acc fuel Hf. destruct fuel as [|f]; [cbn in Hf; lia|].
  exists f. split; [cbn [app List.length] in Hf; rewrite !app_length in Hf; cbn [List.length] in Hf; lia|].
  cbn [app]. rewrite <- app_assoc. cbn [app].
  destruct (path_text_head p Hp) as (c & t & E & Hc).
  destruct (line_head_dispatch c Hc) as (_ & _ & _ & Hb).
  assert (Ew : path_text p ++ "]"%char :: nl :: rest = c :: t ++ "]"%char :: nl :: rest) by (rewrite E; reflexivity).
  rewrite Ew, (doc_items_head f c _ acc Hb), <- Ew.
  rewrite (parse_path_text p (nl :: rest) Hp).
  change (ceq "]"%char "]"%char) with true. cbv iota. rewrite line_end_nl. reflexivity.
Qed.

Lemma Lexes_ahead p : p <> [] -> Lexes ("["%char :: "["%char :: path_text p ++ ["]"%char; "]"%char; nl]) [IAHead p].
Proof.
  intros Hp rest acc fuel Hf. destruct fuel as [|f]; [cbn in Hf; lia|].
  exists f. split; [cbn [app List.length] in Hf; rewrite !app_length in Hf; cbn [List.length] in Hf; lia|].
  cbn [app]. rewrite <- app_assoc. cbn [app]. rewrite doc_items_ahead.
  rewrite (parse_path_text p ("]"%char :: nl :: rest) Hp).
  change (ceq "]"%char "]"%char) with true. cbn [andb]. cbv iota. rewrite line_end_nl. reflexivity.
Qed.

(* key = value *)
Lemma Lexes_kv k v : has_tab v = false -> tval_wf v = true ->
  Lexes (escape_key k ++ eq_text ++ body v ++ [nl]) [IKV k (tdoc_of v)].
Proof.
  intros Ht Hw rest acc fuel Hf. destruct fuel as [|f]; [cbn in Hf; lia|].
  exists f. split; [rewrite !app_length in Hf; cbn [List.length] in Hf; lia|].
  rewrite <- !app_assoc. cbn [app].
  destruct (escape_key_head k) as (c & t & E & Hc).
  set (R := eq_text ++ body v ++ nl :: rest).
  assert (Ew : escape_key k ++ R = c :: t ++ R) by (rewrite E; reflexivity).
  rewrite Ew, (doc_items_kv f c _ acc Hc), <- Ew.
  rewrite (toml_key_roundtrip k R eq_refl).
  unfold R, eq_text. cbn [app]. rewrite skip_ws_eq.
  change (ceq "="%char "="%char) with true. cbv iota zeta. rewrite skip_ws_sp.
  destruct (body_head v Ht Hw) as (c2 & t2 & Eb & Hc2).
  assert (Esk : skip_ws (body v ++ nl :: rest) = body v ++ nl :: rest).
  { rewrite Eb. cbn [app]. clear - Hc2. destruct c2 as [[] [] [] [] [] [] [] []]; cbn in *; try discriminate; reflexivity. }
  rewrite Esk.
  rewrite (parse_val_inline v Ht Hw _ (nl :: rest)).
  - rewrite line_end_nl. reflexivity.
  - rewrite app_length. lia.
  - eexists; eexists; split; [reflexivity|left; reflexivity].
Qed.
