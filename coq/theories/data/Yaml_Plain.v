(* Proofs about the YAML model: when libyaml's analysis allows the plain style for an ASCII text, the reader takes the
   whole text as one plain scalar; the combined string theorem for ASCII strings without a line feed. *)
From Ucg Require Import base.Bytes base.Bytes_Lemmas data.Val data.Json data.Json_Lemmas data.MapJson data.MapJson_Lemmas data.Yaml data.Yaml_Scalar data.Yaml_Str.
From Ucg Require data.Toml.
Local Open Scope list_scope.

(* ------------------------------------------------------------------ *)
(* character facts (all 256 bytes)                                     *)

Lemma code_eqs c :
  ceq c ":"%char = (code c =? 58)%N /\ ceq c "#"%char = (code c =? 35)%N /\ ceq c "-"%char = (code c =? 45)%N
  /\ ceq c "?"%char = (code c =? 63)%N /\ ceq c sp = (code c =? 32)%N.
Proof. destruct c as [[] [] [] [] [] [] [] []]; repeat split; reflexivity. Qed.

Lemma wsp_blankz c : is_wsp c = true -> is_blankz_cp (code c) = true.
Proof. destruct c as [[] [] [] [] [] [] [] []]; vm_compute; intros H; try discriminate H; reflexivity. Qed.

Lemma printable_text c :
  is_printable_cp (code c) = true -> is_break_cp (code c) = false ->
  text_byte_ok c = true /\ ceq c tab = false.
Proof. destruct c as [[] [] [] [] [] [] [] []]; vm_compute; intros H1 H2; try discriminate H1; try discriminate H2; split; reflexivity. Qed.

Lemma first_not_indicator c :
  cp_in (code c) (b "#,[]{}&*!|>'""%@`") = false ->
  ceq c "|"%char = false /\ ceq c sqt = false /\ ceq c dq = false /\ ceq c "["%char = false /\ ceq c "{"%char = false
  /\ (ceq c "-"%char || ceq c "?"%char || ceq c ":"%char = false -> is_indicator c = false).
Proof. destruct c as [[] [] [] [] [] [] [] []]; vm_compute; intros H; try discriminate H; repeat split; intros H2; try discriminate H2; reflexivity. Qed.

(* ------------------------------------------------------------------ *)
(* an_loop: flags only grow                                            *)

Lemma an_loop_mono l : forall first pw ps pb a,
  (a_block_ind (an_loop first pw ps pb l a) = false -> a_block_ind a = false) /\
  (a_breaks (an_loop first pw ps pb l a) = false -> a_breaks a = false) /\
  (a_special (an_loop first pw ps pb l a) = false -> a_special a = false) /\
  (a_lead_sp (an_loop first pw ps pb l a) = false -> a_lead_sp a = false) /\
  (a_trail_sp (an_loop first pw ps pb l a) = false -> a_trail_sp a = false).
Proof.
  induction l as [|u r IH]; intros first pw ps pb a.
  - cbn [an_loop]. tauto.
  - cbn [an_loop].
    match goal with |- context [an_loop ?f ?p ?s ?q r ?a'] => destruct (IH f p s q a') as (I1 & I2 & I3 & I4 & I5) end.
    cbn [a_block_ind a_breaks a_special a_lead_sp a_trail_sp] in I1, I2, I3, I4, I5.
    repeat split; intros H.
    + apply I1 in H. apply orb_false_iff in H. tauto.
    + apply I2 in H. apply orb_false_iff in H. tauto.
    + apply I3 in H. apply orb_false_iff in H. tauto.
    + apply I4 in H. apply orb_false_iff in H. tauto.
    + apply I5 in H. apply orb_false_iff in H. tauto.
Qed.

(* what one step adds, when the final flags are false *)
Lemma an_loop_step first pw ps pb c r a :
  let F := an_loop first pw ps pb (achars (c :: r)) a in
  a_block_ind F = false -> a_breaks F = false -> a_special F = false ->
  let followed := match r with [] => true | d :: _ => is_blankz_cp (code d) end in
  (if first then
     cp_in (code c) (b "#,[]{}&*!|>'""%@`")
     || (((code c =? 63)%N || (code c =? 58)%N) && followed)
     || ((code c =? 45)%N && followed)
   else ((code c =? 58)%N && followed) || ((code c =? 35)%N && pw)) = false
  /\ is_break_cp (code c) = false /\ is_printable_cp (code c) = true
  /\ exists a', F = an_loop false (is_blankz_cp (code c)) (code c =? 32)%N (negb (code c =? 32)%N && is_break_cp (code c)) (achars r) a'
                /\ (a_lead_sp a' = a_lead_sp a || ((code c =? 32)%N && first))
                /\ (a_trail_sp a' = a_trail_sp a || ((code c =? 32)%N && match r with [] => true | _ :: _ => false end)).
Proof.
  cbn zeta. cbn [achars map an_loop u_cp]. intros H1 H2 H3.
  match goal with H : a_block_ind (an_loop ?f ?p ?s ?q ?l ?a') = false |- _ =>
    destruct (an_loop_mono l f p s q a') as (I1 & I2 & I3 & _ & _); pose (A := a') end.
  apply I1 in H1. apply I2 in H2. apply I3 in H3.
  cbn [a_block_ind a_breaks a_special] in H1, H2, H3.
  apply orb_false_iff in H1 as [_ H1]. apply orb_false_iff in H2 as [_ H2]. apply orb_false_iff in H3 as [_ H3].
  apply negb_false_iff in H3.
  split; [|split; [exact H2|split; [exact H3|]]].
  - destruct r as [|d r']; exact H1.
  - exists A. subst A. split; [reflexivity|]. cbn [a_lead_sp a_trail_sp].
    split; [reflexivity|]. destruct r; reflexivity.
Qed.

(* ------------------------------------------------------------------ *)
(* the inner characters                                                *)

(* what may follow a plain scalar on its line: nothing, or the `: ` of an implicit key *)
Definition plain_stop (t : bytes) : Prop :=
  t = [] \/ exists u, t = ":"%char :: u /\ match u with d :: _ => is_wsp d = true | [] => True end.

Lemma plain_stop_scan t pws : plain_stop t -> scan_plain pws t = Some ([], t).
Proof.
  intros [->|(u & -> & Hu)]; [reflexivity|]. cbn [scan_plain].
  replace (ceq ":"%char ":"%char) with true by reflexivity.
  destruct u as [|d u']; [reflexivity|]. rewrite Hu. reflexivity.
Qed.

Lemma plain_stop_head t : plain_stop t -> match t with d :: _ => is_wsp d = false | [] => True end.
Proof. intros [->|(u & -> & Hu)]; [exact I|reflexivity]. Qed.

Lemma plain_inner s t : forall pw pws ps pb a,
  plain_stop t ->
  (pws = true -> pw = true) ->
  a_block_ind (an_loop false pw ps pb (achars s) a) = false ->
  a_breaks (an_loop false pw ps pb (achars s) a) = false ->
  a_special (an_loop false pw ps pb (achars s) a) = false ->
  scan_plain pws (s ++ t) = Some (s, t).
Proof.
  induction s as [|c r IH]; intros pw pws ps pb a Ht Hpw H1 H2 H3; [apply plain_stop_scan; exact Ht|].
  destruct (an_loop_step false pw ps pb c r a H1 H2 H3) as (Hbi & Hbr & Hpr & a' & EF & _).
  cbn iota in Hbi. apply orb_false_iff in Hbi as [Hc Hh].
  destruct (code_eqs c) as (E58 & E35 & _).
  destruct (printable_text c Hpr Hbr) as [Htb _].
  cbn [app scan_plain]. rewrite E58, E35.
  assert (G1 : ((code c =? 58)%N && match r ++ t with d :: _ => is_wsp d | [] => true end) = false).
  { destruct (code c =? 58)%N; [|reflexivity]. cbn [andb] in Hc |- *.
    destruct r as [|d r']; [discriminate Hc|]. cbn [app].
    destruct (is_wsp d) eqn:Ew; [|reflexivity]. rewrite (wsp_blankz d Ew) in Hc. discriminate Hc. }
  assert (G2 : ((code c =? 35)%N && pws) = false).
  { destruct (code c =? 35)%N; [|reflexivity]. cbn [andb] in Hh |- *.
    destruct pws; [|reflexivity]. rewrite (Hpw eq_refl) in Hh. discriminate Hh. }
  rewrite G1, G2, Htb.
  rewrite EF in H1, H2, H3.
  rewrite (IH _ (is_wsp c) _ _ _ Ht (wsp_blankz c) H1 H2 H3). reflexivity.
Qed.

(* the last character is not white space *)
Lemma an_last s : forall first pw ps pb a,
  s <> [] ->
  a_block_ind (an_loop first pw ps pb (achars s) a) = false ->
  a_breaks (an_loop first pw ps pb (achars s) a) = false ->
  a_special (an_loop first pw ps pb (achars s) a) = false ->
  a_trail_sp (an_loop first pw ps pb (achars s) a) = false ->
  exists s' x, s = s' ++ [x] /\ is_wsp x = false.
Proof.
  induction s as [|c r IH]; intros first pw ps pb a Hn H1 H2 H3 H4; [congruence|].
  destruct (an_loop_step first pw ps pb c r a H1 H2 H3) as (_ & Hbr & Hpr & a' & EF & _ & Etr).
  destruct (printable_text c Hpr Hbr) as [_ Htab].
  destruct (code_eqs c) as (_ & _ & _ & _ & E32).
  rewrite EF in H1, H2, H3, H4.
  destruct r as [|d r'].
  - exists [], c. split; [reflexivity|].
    cbn [achars map an_loop] in H4. rewrite Etr in H4. apply orb_false_iff in H4 as [_ H4].
    rewrite andb_true_r in H4. unfold is_wsp. rewrite E32, H4, Htab. reflexivity.
  - destruct (IH _ _ _ _ _ ltac:(congruence) H1 H2 H3 H4) as (s' & x & E & Hx).
    exists (c :: s'), x. split; [rewrite E; reflexivity|exact Hx].
Qed.

Lemma rtrim_last s' x : is_wsp x = false -> rtrim (s' ++ [x]) = s' ++ [x].
Proof.
  intros Hx. unfold rtrim. rewrite rev_unit. cbn [skip_wsp]. rewrite Hx.
  cbn [rev]. rewrite rev_involutive. reflexivity.
Qed.

(* ------------------------------------------------------------------ *)
(* plain allowed => one plain scalar                                   *)

Theorem plain_allowed_reads_back pind s rest :
  ascii_str s = true -> s <> [] -> f_block_plain (analyze s) = true ->
  scalar_node pind s rest = Some (resolve_plain s, rest)
  /\ (forall u, match u with d :: _ => is_wsp d = true | [] => True end ->
                 scan_key (s ++ ":"%char :: u) = Some (resolve_plain s, u)).
Proof.
  intros Ha Hn Hp. destruct s as [|c r]; [congruence|].
  unfold analyze in Hp. rewrite (chars_ascii _ Ha) in Hp. cbn [f_block_plain] in Hp.
  apply negb_true_iff in Hp.
  repeat (apply orb_false_iff in Hp; destruct Hp as [Hp ?]).
  match goal with H : a_block_ind (an_loop true true false false _ ?a0) = false |- _ => set (A0 := a0) in * end.
  rename H into Hbi, H0 into Hbrk, H1 into Hspec.
  rename Hp into Hlsp.
  (* Hlsp: lead_sp; the others in order *)
  destruct (an_loop_step true true false false c r A0 Hbi Hbrk Hspec) as (Hfirst & Hbr & Hpr & a' & EF & Elead & _).
  cbn iota in Hfirst.
  apply orb_false_iff in Hfirst as [Hfirst Hminus]. apply orb_false_iff in Hfirst as [Hin Hqc].
  destruct (first_not_indicator c Hin) as (Nbar & Nsq & Ndq & Nlb & Nlc & Nind).
  destruct (printable_text c Hpr Hbr) as [Htb Htab].
  destruct (code_eqs c) as (E58 & E35 & E45 & E63 & E32).
  (* the first character is not a space *)
  assert (Hnsp : (code c =? 32)%N = false).
  { destruct (an_loop_mono (achars r) false (is_blankz_cp (code c)) (code c =? 32)%N
                           (negb (code c =? 32)%N && is_break_cp (code c)) a') as (_ & _ & _ & I4 & _).
    rewrite EF in Hlsp. apply I4 in Hlsp. rewrite Elead in Hlsp. apply orb_false_iff in Hlsp as [_ Hlsp].
    rewrite andb_true_r in Hlsp. exact Hlsp. }
  assert (Hw : is_wsp c = false) by (unfold is_wsp; rewrite E32, Hnsp, Htab; reflexivity).
  (* what follows a leading `-`, `?`, `:` *)
  assert (Hfol : (ceq c "-"%char || ceq c "?"%char || ceq c ":"%char) = true ->
                 match r with d :: _ => negb (is_wsp d) | [] => false end = true).
  { rewrite E45, E63, E58. intros Hc.
    assert (Hf : match r with [] => true | d :: _ => is_blankz_cp (code d) end = false).
    { destruct (code c =? 45)%N; [exact Hminus|]. cbn [orb] in Hc. rewrite Hc in Hqc. exact Hqc. }
    destruct r as [|d r']; [discriminate Hf|].
    destruct (is_wsp d) eqn:Ew; [rewrite (wsp_blankz d Ew) in Hf; discriminate Hf|reflexivity]. }
  assert (Hpf : plain_first_ok (c :: r) = true).
  { cbn [plain_first_ok]. rewrite Hw.
    destruct (ceq c "-"%char || ceq c "?"%char || ceq c ":"%char) eqn:Ei.
    - exact (Hfol eq_refl).
    - rewrite (Nind eq_refl). reflexivity. }
  assert (Hscan : forall t, plain_stop t -> scan_plain false ((c :: r) ++ t) = Some (c :: r, t)).
  { intros t Ht. cbn [app scan_plain]. rewrite E58, E35, andb_false_r.
    assert (G1 : ((code c =? 58)%N && match r ++ t with d :: _ => is_wsp d | [] => true end) = false).
    { destruct (code c =? 58)%N eqn:E; [|reflexivity]. cbn [andb].
      assert (Hc : (ceq c "-"%char || ceq c "?"%char || ceq c ":"%char) = true) by (rewrite E58; apply orb_true_r).
      specialize (Hfol Hc). destruct r as [|d r']; [discriminate Hfol|]. cbn [app]. apply negb_true_iff in Hfol. exact Hfol. }
    rewrite G1, Htb.
    pose proof Hbi as Hbi'. pose proof Hbrk as Hbrk'. pose proof Hspec as Hspec'.
    rewrite EF in Hbi', Hbrk', Hspec'.
    rewrite (plain_inner r t _ (is_wsp c) _ _ _ Ht (wsp_blankz c) Hbi' Hbrk' Hspec'). reflexivity. }
  assert (Hpf2 : forall t, plain_stop t -> plain_first_ok ((c :: r) ++ t) = true).
  { intros t Ht. cbn [app plain_first_ok]. rewrite Hw.
    destruct (ceq c "-"%char || ceq c "?"%char || ceq c ":"%char) eqn:Ei.
    - specialize (Hfol eq_refl). destruct r as [|d r']; [discriminate Hfol|exact Hfol].
    - rewrite (Nind eq_refl). reflexivity. }
  assert (Hlast : rtrim (c :: r) = c :: r).
  { match goal with H : a_trail_sp _ = false |- _ => rename H into Htr end.
    destruct (an_last (c :: r) true true false false A0 ltac:(congruence) Hbi Hbrk Hspec Htr) as (s' & x & E & Hx).
    rewrite E. apply rtrim_last. exact Hx. }
  split.
  - unfold scalar_node. rewrite Nbar, Nsq, Ndq, Nlb, Nlc, Hpf.
    pose proof (Hscan [] (or_introl eq_refl)) as Hs0. rewrite app_nil_r in Hs0. rewrite Hs0, Hlast. reflexivity.
  - intros u Hu.
    assert (Ht : plain_stop (":"%char :: u)) by (right; exists u; split; [reflexivity|exact Hu]).
    unfold scan_key. cbn [app]. rewrite Nsq, Ndq.
    change (c :: r ++ ":"%char :: u) with ((c :: r) ++ ":"%char :: u).
    rewrite (Hpf2 _ Ht), (Hscan _ Ht). replace (ceq ":"%char ":"%char) with true by reflexivity.
    rewrite Hlast. reflexivity.
Qed.

(* ------------------------------------------------------------------ *)
(* the writer's side of the plain style                                *)

Lemma plain_loop_text i s : forall st,
  no_breaks s = true -> fst (plain_loop i false (achars s) st) = s.
Proof.
  induction s as [|c r IH]; intros st Hs; [reflexivity|].
  unfold no_breaks in Hs. cbn [forallb] in Hs. apply andb_true_iff in Hs as [Hc Hr]. apply negb_true_iff in Hc.
  cbn [achars map plain_loop u_cp u_raw]. rewrite Hc.
  change (map (fun c0 : ascii => mk_uc (code c0) [c0]) r) with (achars r).
  destruct (code c =? 32)%N.
  - specialize (IH (mk_est (S (e_col st)) (e_ws st) (e_ind st)) Hr).
    destruct (plain_loop i false (achars r) (mk_est (S (e_col st)) (e_ws st) (e_ind st))) as [o st']. cbn [fst] in *. rewrite IH. reflexivity.
  - cbn [app e_col e_ws].
    specialize (IH (mk_est (S (e_col st)) (e_ws st) false) Hr).
    destruct (plain_loop i false (achars r) (mk_est (S (e_col st)) (e_ws st) false)) as [o st']. cbn [fst] in *. rewrite IH. reflexivity.
Qed.

Lemma write_plain_text i s st :
  ascii_str s = true -> no_breaks s = true -> s <> [] ->
  fst (write_plain i s st) = (if e_ws st then [] else [sp]) ++ s.
Proof.
  intros Ha Hb Hn. unfold write_plain. rewrite (chars_ascii _ Ha).
  destruct s as [|c r]; [congruence|].
  match goal with |- context [plain_loop i false ?l ?st0] =>
    pose proof (plain_loop_text i (c :: r) st0 Hb) as E; destruct (plain_loop i false l st0) as [o st'] end.
  cbn [fst] in *. rewrite E. destruct (e_ws st); reflexivity.
Qed.

(* every character is printable when the flag `special` stays false *)
Lemma special_false_printable s : forall first pw ps pb a,
  a_special (an_loop first pw ps pb (achars s) a) = false ->
  forallb (fun c => is_printable_cp (code c)) s = true.
Proof.
  induction s as [|c r IH]; intros first pw ps pb a H; [reflexivity|].
  cbn [achars map an_loop u_cp] in H.
  match type of H with a_special (an_loop ?f ?p ?s0 ?q ?l ?a') = false =>
    destruct (an_loop_mono l f p s0 q a') as (_ & _ & I3 & _ & _); pose proof (IH f p s0 q a' H) as Hr end.
  apply I3 in H. cbn [a_special] in H. apply orb_false_iff in H as [_ H]. apply negb_false_iff in H.
  cbn [forallb]. rewrite H, Hr. reflexivity.
Qed.

Lemma printable_no_lf c :
  is_printable_cp (code c) = true -> ceq c nl = false -> text_byte_ok c = true /\ is_break_cp (code c) = false.
Proof. destruct c as [[] [] [] [] [] [] [] []]; vm_compute; intros H1 H2; try discriminate H1; try discriminate H2; split; reflexivity. Qed.

Lemma single_ok_text s :
  ascii_str s = true -> existsb (fun c => ceq c nl) s = false -> f_single_ok (analyze s) = true ->
  all_text s = true /\ no_breaks s = true.
Proof.
  intros Ha Hnl Hs.
  assert (Hp : forallb (fun c => is_printable_cp (code c)) s = true).
  { destruct s as [|c r]; [reflexivity|].
    unfold analyze in Hs. rewrite (chars_ascii _ Ha) in Hs. cbn [f_single_ok] in Hs.
    apply negb_true_iff in Hs. apply orb_false_iff in Hs as [_ Hs].
    exact (special_false_printable _ _ _ _ _ _ Hs). }
  clear Hs Ha. unfold all_text, no_breaks. induction s as [|c r IH]; [split; reflexivity|].
  cbn [forallb existsb] in *. apply andb_true_iff in Hp as [Hc Hr]. apply orb_false_iff in Hnl as [Hn Hnr].
  destruct (printable_no_lf c Hc Hn) as [T B]. destruct (IH Hnr Hr) as [I1 I2].
  rewrite T, B, I1, I2. split; reflexivity.
Qed.

(* which styles can be chosen for a string without a line feed, and what each needs *)
Lemma final_style_cases s sk :
  existsb (fun c => ceq c nl) s = false ->
  (final_style (str_style s) s sk = SPlain /\ f_block_plain (analyze s) = true /\ needs_quote s = false)
  \/ (final_style (str_style s) s sk = SSingle /\ f_single_ok (analyze s) = true)
  \/ final_style (str_style s) s sk = SDouble.
Proof.
  intros Hnl. unfold final_style, str_style, select_style. rewrite Hnl.
  destruct (needs_quote s), sk, (f_multiline (analyze s)), (f_block_plain (analyze s)), (f_single_ok (analyze s)),
           (List.length s =? 0)%nat; cbn; auto.
Qed.

(* STRINGS (ASCII, no line feed; any context: simple key or not, any indentation, any column):
   the scalar the writer produces is read back as the string -- in the plain style as whatever the core schema
   makes of the text, which is the string itself unless the text is a number that serde_yaml does not recognise
   (see yaml_number_overflow_refuted). *)
Theorem yaml_string_roundtrip_ascii : forall s sk indent st pind rest,
  ascii_str s = true -> existsb (fun c => ceq c nl) s = false ->
  exists body,
    fst (emit_scalar (str_style s) s sk indent st) = (if e_ws st then [] else [sp]) ++ body
    /\ ((final_style (str_style s) s sk = SPlain /\ body = s /\ needs_quote s = false
         /\ scalar_node pind body rest = Some (resolve_plain s, rest)
         /\ (forall u, match u with d :: _ => is_wsp d = true | [] => True end ->
                       scan_key (body ++ ":"%char :: u) = Some (resolve_plain s, u)))
        \/ (final_style (str_style s) s sk <> SPlain
            /\ scalar_node pind body rest = Some (DStr s, rest)
            /\ (forall u, scan_key (body ++ ":"%char :: sp :: u) = Some (DStr s, sp :: u)))).
Proof.
  intros s sk indent st pind rest Ha Hnl.
  destruct (final_style_cases s sk Hnl) as [(E & Hp & Hq)|[(E & Hs)|E]].
  - (* plain *)
    assert (Hn : s <> []).
    { intros ->. discriminate Hq. }
    assert (Hb : no_breaks s = true).
    { unfold analyze in Hp. destruct s as [|c r]; [congruence|]. rewrite (chars_ascii _ Ha) in Hp.
      cbn [f_block_plain] in Hp. apply negb_true_iff in Hp.
      repeat (apply orb_false_iff in Hp; destruct Hp as [Hp ?]).
      match goal with H : a_breaks _ = false |- _ => rename H into Hbrk end.
      match goal with H : a_special _ = false |- _ => rename H into Hspec end.
      pose proof (special_false_printable _ _ _ _ _ _ Hspec) as Hpr.
      clear - Hpr Hnl. unfold no_breaks. revert Hpr Hnl. generalize (c :: r). intros l.
      induction l as [|x l IH]; [reflexivity|]. cbn [forallb existsb]. intros Hpr Hnl.
      apply andb_true_iff in Hpr as [Hx Hl]. apply orb_false_iff in Hnl as [Hn Hnr].
      destruct (printable_no_lf x Hx Hn) as [_ B]. rewrite B, (IH Hl Hnr). reflexivity. }
    destruct (plain_allowed_reads_back pind s rest Ha Hn Hp) as [R1 R2].
    exists s. split.
    + unfold emit_scalar. rewrite E. apply write_plain_text; assumption.
    + left. repeat split; auto.
  - (* single-quoted *)
    destruct (single_ok_text s Ha Hnl Hs) as [Ht Hb].
    exists (sqt :: sq_body s ++ [sqt]). split.
    + unfold emit_scalar. rewrite E. apply write_single_text; assumption.
    + right. split; [rewrite E; discriminate|]. split.
      * apply single_quoted_reads_back. exact Ht.
      * intros u. cbn [app]. rewrite <- app_assoc. cbn [app]. apply single_quoted_key_reads_back. exact Ht.
  - (* double-quoted *)
    exists (dq :: double_body (chars s) ++ [dq]). split.
    + unfold emit_scalar. rewrite E. apply write_double_text.
    + right. split; [rewrite E; discriminate|]. split.
      * apply double_quoted_reads_back. exact Ha.
      * intros u. cbn [app]. rewrite <- app_assoc. cbn [app]. apply double_quoted_key_reads_back. exact Ha.
Qed.

(* ------------------------------------------------------------------ *)
(* identifiers                                                         *)

Definition ident_first (c : ascii) : bool := Toml.is_alpha c || ceq c "_"%char.

(* a letter or `_`, then token characters; not one of the reserved words *)
Definition ident (s : bytes) : bool :=
  match s with
  | c :: r => ident_first c && forallb tok_char r && negb (parse_null_ok s || parse_bool_ok s)
  | [] => false
  end.

Lemma ident_first_not_number c t :
  ident_first c = true ->
  visit_int_ok (c :: t) = false /\ digits_but_not_number (c :: t) = false /\ parse_f64_ok (c :: t) = false
  /\ resolve_int (c :: t) = None /\ resolve_float (c :: t) = None
  /\ tok_char c = true /\ ceq c "-"%char = false /\ ceq c "."%char = false.
Proof.
  destruct c as [[] [] [] [] [] [] [] []]; intros H; try discriminate H;
    destruct t as [|d t']; vm_compute; repeat split; reflexivity.
Qed.

Theorem ident_plain_string s :
  ident s = true ->
  needs_quote s = false /\ resolve_plain s = DStr s
  /\ forallb tok_char s = true /\ tok_first_ok s /\ no_doc_prefix s = true.
Proof.
  destruct s as [|c t]; [discriminate|]. unfold ident. intros H.
  apply andb_true_iff in H as [H Hres]. apply andb_true_iff in H as [Hc Ht].
  apply negb_true_iff in Hres. apply orb_false_iff in Hres as [Hnull Hbool].
  destruct (ident_first_not_number c t Hc) as (V & D & F & RI & RF & Tc & Hm & Hd).
  repeat split.
  - unfold needs_quote. rewrite Hnull, Hbool, V, D, F. reflexivity.
  - unfold resolve_plain. unfold parse_null_ok in Hnull. rewrite Hnull.
    unfold parse_bool_ok, mem_bytes in Hbool. cbn [existsb] in Hbool.
    apply orb_false_iff in Hbool as [B1 Hbool]. apply orb_false_iff in Hbool as [B2 Hbool].
    apply orb_false_iff in Hbool as [B3 Hbool]. apply orb_false_iff in Hbool as [B4 Hbool].
    apply orb_false_iff in Hbool as [B5 Hbool]. apply orb_false_iff in Hbool as [B6 _].
    unfold mem_bytes. cbn [existsb orb]. rewrite B1, B2, B3, B4, B5, B6. cbn [orb]. rewrite RI, RF. reflexivity.
  - cbn [forallb]. rewrite Tc, Ht. reflexivity.
  - left. exact Hm.
  - unfold no_doc_prefix. destruct t as [|c2 [|c3 r]]; try reflexivity. rewrite Hm, Hd. reflexivity.
Qed.

(* IDENTIFIERS as values and as keys: written as they are, read back as the same string *)
Theorem yaml_ident_roundtrip : forall s indent st pind rest,
  ident s = true ->
  emit_scalar (str_style s) s false indent st
  = ((if e_ws st then [] else [sp]) ++ s, mk_est (e_col st + (if e_ws st then 0 else 1) + List.length s) false false)
  /\ scalar_node pind s rest = Some (DStr s, rest)
  /\ (forall u, match u with d :: _ => is_wsp d = true | [] => True end -> scan_key (s ++ ":"%char :: u) = Some (DStr s, u)).
Proof.
  intros s indent st pind rest Hi.
  destruct (ident_plain_string s Hi) as (Hq & Hr & Ht & Hf & Hd).
  assert (Hnl : existsb (fun c => ceq c nl) s = false).
  { clear - Ht. induction s as [|c r IH]; [reflexivity|]. cbn [forallb existsb] in *.
    apply andb_true_iff in Ht as [Hc Hr].
    destruct (tok_char_facts c Hc) as (_ & _ & _ & _ & _ & _ & _ & _ & _ & _ & _ & _ & _ & _ & _ & _ & _ & _ & _ & _ & _ & Hn & _).
    rewrite Hn, (IH Hr). reflexivity. }
  assert (Hsty : str_style s = SAny) by (unfold str_style; rewrite Hnl, Hq; reflexivity).
  assert (Ha : ascii_str s = true).
  { clear - Ht. unfold ascii_str. induction s as [|c r IH]; [reflexivity|]. cbn [forallb] in *.
    apply andb_true_iff in Ht as [Hc Hr]. rewrite (IH Hr), andb_true_r.
    destruct c as [[] [] [] [] [] [] [] []]; try discriminate Hc; reflexivity. }
  assert (Hn : s <> []) by (destruct s; [discriminate Hi|congruence]).
  assert (Hp : f_block_plain (analyze s) = true) by (rewrite (analyze_tok _ Ht Hf Hd); reflexivity).
  destruct (plain_allowed_reads_back pind s rest Ha Hn Hp) as [R1 R2].
  split; [|split].
  - rewrite Hsty. unfold emit_scalar.
    assert (E : final_style SAny s false = SPlain).
    { unfold final_style. rewrite (analyze_tok _ Ht Hf Hd). unfold select_style.
      cbn [f_multiline f_block_plain f_single_ok f_block_ok andb negb]. rewrite andb_false_r. reflexivity. }
    rewrite E. apply write_plain_tok; assumption.
  - rewrite R1, Hr. reflexivity.
  - intros u Hu. rewrite (R2 u Hu), Hr. reflexivity.
Qed.
