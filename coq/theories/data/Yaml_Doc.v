(* Proofs about the YAML model: whole documents.
   yaml_doc_roundtrip_partial: a tuple (mapping) whose field names are identifiers (at most 128 bytes, pairwise
   different) and whose values are null, booleans, integers or identifier strings -- the text is
   `name: value` lines, and the independent reader reads exactly the specified data back.
   Nested collections are NOT covered by a proof (see STATUS.md): they are covered by the examples of
   Yaml_Lemmas.v and by the correspondence run. *)
From Ucg Require Import base.Bytes base.Bytes_Lemmas data.Val data.Json data.Json_Lemmas data.MapJson data.MapJson_Lemmas data.Yaml
     data.Yaml_Scalar data.Yaml_Str data.Yaml_Plain.
From Ucg Require data.Toml.
Local Open Scope list_scope.

(* ------------------------------------------------------------------ *)
(* simple scalars                                                      *)

Definition simple_scalar (y : yval) : bool :=
  match y with
  | YNull | YBool _ | YInt _ => true
  | YStr s => ident s
  | _ => false
  end.

Definition stext (y : yval) : bytes :=
  match y with
  | YNull => b "null"
  | YBool v => ybool_text v
  | YInt z => dec_of_Z z
  | YStr s => s
  | _ => []
  end.

Definition sdoc (y : yval) : ydoc :=
  match y with
  | YNull => DNull
  | YBool v => DBool v
  | YInt z => DInt z
  | YStr s => DStr s
  | _ => DNull
  end.

Lemma emit_scalar_tok_any req sk t indent st :
  (req = SAny \/ req = SPlain) -> t <> [] ->
  forallb tok_char t = true -> tok_first_ok t -> no_doc_prefix t = true ->
  emit_scalar req t sk indent st
  = ((if e_ws st then [] else [sp]) ++ t,
     mk_est (e_col st + (if e_ws st then 0 else 1) + List.length t) false false).
Proof.
  intros Hreq Hn Ht Hf Hd. unfold emit_scalar.
  assert (E : final_style req t sk = SPlain).
  { unfold final_style. rewrite (analyze_tok _ Ht Hf Hd). unfold select_style.
    cbn [f_multiline f_block_plain f_single_ok f_block_ok andb negb].
    assert (L : (List.length t =? 0)%nat = false) by (destruct t; [congruence|reflexivity]).
    rewrite L, andb_false_r. destruct Hreq as [-> | ->]; reflexivity. }
  rewrite E. apply write_plain_tok; assumption.
Qed.

Lemma simple_scalar_facts y : simple_scalar y = true ->
  forallb tok_char (stext y) = true /\ tok_first_ok (stext y) /\ no_doc_prefix (stext y) = true
  /\ resolve_plain (stext y) = sdoc y
  /\ (forall m indent st, emit_node y m indent st
        = ((if e_ws st then [] else [sp]) ++ stext y,
           mk_est (e_col st + (if e_ws st then 0 else 1) + List.length (stext y)) false false)).
Proof.
  destruct y as [|v|z|f|s|l|kvs]; intros H; try discriminate H.
  - repeat split; try reflexivity; [left; reflexivity|].
    intros m indent st. cbn [emit_node stext]. apply emit_scalar_tok; [reflexivity|left; reflexivity|reflexivity].
  - destruct v; (repeat split; try reflexivity; [left; reflexivity|]);
      intros m indent st; cbn [emit_node stext]; apply emit_scalar_tok; try reflexivity; left; reflexivity.
  - destruct (dec_of_Z_tok z) as (Ht & Hf & Hd). cbn [stext sdoc].
    repeat split; auto using resolve_plain_int.
    intros m indent st. cbn [emit_node]. apply emit_scalar_tok; assumption.
  - cbn [simple_scalar] in H. destruct (ident_plain_string s H) as (Hq & Hr & Ht & Hf & Hd). cbn [stext sdoc].
    repeat split; auto.
    intros m indent st. cbn [emit_node].
    destruct (yaml_ident_roundtrip s indent st 0%Z [] H) as (E & _). exact E.
Qed.

(* ------------------------------------------------------------------ *)
(* the entries of a block mapping, as a function of its own            *)

Section Entries.
  Variable i : nat.
  Fixpoint emit_entries (l : list (bytes * yval)) (st : est) : bytes * est :=
    match l with
    | [] => ([], st)
    | (k, x) :: r =>
      let (o1, st1) := write_indent i st in
      if simple_key_ok k then
        let (o2, st2) := emit_scalar (str_style k) k true (Some i) st1 in
        let (o3, st3) := write_indicator (b ":") false false false st2 in
        let (o4, st4) := emit_node x true (Some i) st3 in
        let (o5, st5) := emit_entries r st4 in
        (o1 ++ o2 ++ o3 ++ o4 ++ o5, st5)
      else
        let (o2, st2) := write_indicator (b "?") true false true st1 in
        let (o3, st3) := emit_scalar (str_style k) k false (Some i) st2 in
        let (o4, st4) := write_indent i st3 in
        let (o5, st5) := write_indicator (b ":") true false true st4 in
        let (o6, st6) := emit_node x true (Some i) st5 in
        let (o7, st7) := emit_entries r st6 in
        (o1 ++ o2 ++ o3 ++ o4 ++ o5 ++ o6 ++ o7, st7)
    end.
End Entries.

Lemma emit_node_map kv r m indent st :
  emit_node (YMap (kv :: r)) m indent st
  = emit_entries (match indent with None => 0 | Some n => n + 2 end) (kv :: r) st.
Proof. reflexivity. Qed.

(* a field: an identifier of at most 128 bytes and a simple scalar *)
Definition simple_field (kv : bytes * yval) : bool :=
  ident (fst kv) && (List.length (fst kv) <=? 128)%nat && simple_scalar (snd kv).

Definition field_line (kv : bytes * yval) : bytes := fst kv ++ ":"%char :: sp :: stext (snd kv).

Lemma ident_simple_key k : ident k = true -> (List.length k <=? 128)%nat = true -> simple_key_ok k = true.
Proof.
  intros Hi Hl. destruct (ident_plain_string k Hi) as (_ & _ & Ht & Hf & Hd).
  unfold simple_key_ok. rewrite (analyze_tok _ Ht Hf Hd), Hl. reflexivity.
Qed.

(* every entry after a position where `indention` is false: a line break, the indentation, `name: value` *)
Lemma emit_entries_flat i l : forall st,
  e_ind st = false -> forallb simple_field l = true ->
  exists st', emit_entries i l st = (flat_map (fun kv => nl :: repeat sp i ++ field_line kv) l, st')
              /\ e_ind st' = false.
Proof.
  induction l as [|[k x] r IH]; intros st Hind Hl.
  - exists st. split; [reflexivity|exact Hind].
  - cbn [forallb] in Hl. apply andb_true_iff in Hl as [Hf Hr].
    unfold simple_field in Hf. cbn [fst snd] in Hf.
    apply andb_true_iff in Hf as [Hf Hx]. apply andb_true_iff in Hf as [Hk Hlen].
    destruct (ident_plain_string k Hk) as (Hq & _ & Hkt & Hkf & Hkd).
    assert (Hkn : k <> []) by (destruct k; [discriminate Hk|congruence]).
    assert (Hsty : str_style k = SAny).
    { unfold str_style. rewrite Hq.
      assert (Hnl : existsb (fun c => ceq c nl) k = false).
      { clear - Hkt. induction k as [|c r IH]; [reflexivity|]. cbn [forallb existsb] in *.
        apply andb_true_iff in Hkt as [Hc Hr].
        destruct (tok_char_facts c Hc) as (_ & _ & _ & _ & _ & _ & _ & _ & _ & _ & _ & _ & _ & _ & _ & _ & _ & _ & _ & _ & _ & Hn & _).
        rewrite Hn, (IH Hr). reflexivity. }
      rewrite Hnl. reflexivity. }
    destruct (simple_scalar_facts x Hx) as (_ & _ & _ & _ & Hemit).
    cbn [emit_entries]. unfold write_indent at 1. rewrite Hind. cbn [negb orb].
    rewrite (ident_simple_key k Hk Hlen).
    rewrite Hsty, (emit_scalar_tok_any SAny true k (Some i) _ (or_introl eq_refl) Hkn Hkt Hkf Hkd).
    cbn [e_ws e_col e_ind].
    unfold write_indicator at 1. cbn [e_ws e_col e_ind andb negb app List.length].
    rewrite Hemit. cbn [e_ws e_col e_ind].
    match goal with |- context [emit_entries i r ?st4] => destruct (IH st4 eq_refl Hr) as (st' & E & Hst') end.
    rewrite E. exists st'. split; [|exact Hst'].
    cbn [flat_map]. change (field_line (k, x)) with (k ++ ":"%char :: sp :: stext x).
    f_equal. rewrite Nat.sub_0_r. cbn [app b list_ascii_of_string]. rewrite <- !app_assoc. cbn [app]. reflexivity.
Qed.

(* ------------------------------------------------------------------ *)
(* the reader on `name: value` lines                                   *)

Definition no_break_bytes (l : bytes) : bool := forallb (fun c => negb (ceq c nl) && negb (ceq c cr)) l.

Lemma split_lines_line l r : no_break_bytes l = true -> split_lines (l ++ nl :: r) = l :: split_lines r.
Proof.
  induction l as [|c t IH]; intros H.
  - cbn [app split_lines]. replace (ceq nl nl) with true by reflexivity. reflexivity.
  - unfold no_break_bytes in H. cbn [forallb] in H. apply andb_true_iff in H as [Hc Ht].
    apply andb_true_iff in Hc as [H1 H2]. apply negb_true_iff in H1. apply negb_true_iff in H2.
    cbn [app split_lines]. rewrite H1, H2, (IH Ht). reflexivity.
Qed.

Lemma tok_no_break t : forallb tok_char t = true -> no_break_bytes t = true.
Proof.
  induction t as [|c r IH]; intros H; [reflexivity|]. cbn [forallb] in H. apply andb_true_iff in H as [Hc Hr].
  destruct (tok_char_facts c Hc) as (_ & _ & _ & _ & _ & _ & _ & _ & _ & _ & _ & _ & _ & _ & _ & _ & _ & _ & _ & _ & _ & Hn & Hcr & _).
  unfold no_break_bytes. cbn [forallb]. rewrite Hn, Hcr. cbn [negb andb]. apply IH. exact Hr.
Qed.

Record field_ok (kv : bytes * yval) : Prop := mk_field_ok {
  fo_line_nb : no_break_bytes (field_line kv) = true;
  fo_measure : measure (field_line kv) = (O, field_line kv);
  fo_blank : blank_text (field_line kv) = false;
  fo_q : entry_of "?"%char (field_line kv) = None;
  fo_seq : is_seq_entry (field_line kv) = false;
  fo_key : scan_key (field_line kv) = Some (DStr (fst kv), sp :: stext (snd kv));
  fo_vblank : blank_text (sp :: stext (snd kv)) = false;
  fo_val : forall pind rest, scalar_node pind (skip_wsp (sp :: stext (snd kv))) rest = Some (sdoc (snd kv), rest);
  fo_marker : is_marker_line (O, field_line kv) = false;
  fo_doc : doc_marker (b "---") (field_line kv) = false
}.

Lemma simple_field_ok kv : simple_field kv = true -> field_ok kv.
Proof.
  destruct kv as [k x]. unfold simple_field. cbn [fst snd]. intros H.
  apply andb_true_iff in H as [H Hx]. apply andb_true_iff in H as [Hk Hlen].
  destruct (ident_plain_string k Hk) as (Hq & Hres & Hkt & Hkf & Hkd).
  destruct (simple_scalar_facts x Hx) as (Hxt & Hxf & Hxd & Hxr & _).
  destruct k as [|c kr]; [discriminate Hk|].
  assert (Hc : tok_char c = true) by (cbn [forallb] in Hkt; apply andb_true_iff in Hkt as [Hc _]; exact Hc).
  assert (Hcf : ident_first c = true).
  { unfold ident in Hk. apply andb_true_iff in Hk as [Hk _]. apply andb_true_iff in Hk as [Hk _]. exact Hk. }
  destruct (ident_first_not_number c kr Hcf) as (_ & _ & _ & _ & _ & _ & Hminus & Hdot).
  destruct (tok_char_facts c Hc) as (_ & _ & _ & _ & _ & _ & _ & _ & _ & _ & _ & Hw & _ & _ & _ & _ & _ & _ & Hh & Hqm & Hsp & _).
  assert (Hxn : stext x <> []) by (destruct (stext x); [destruct Hxf|congruence]).
  destruct (stext x) as [|d xr] eqn:Ex; [congruence|].
  assert (Hd : tok_char d = true) by (cbn [forallb] in Hxt; apply andb_true_iff in Hxt as [Hd _]; exact Hd).
  destruct (tok_char_facts d Hd) as (_ & _ & _ & _ & _ & _ & _ & _ & _ & _ & _ & Hwd & _ & _ & _ & _ & _ & _ & Hhd & _).
  destruct (yaml_ident_roundtrip (c :: kr) None est0 0%Z [] Hk) as (_ & _ & Hkey).
  constructor; unfold field_line; cbn [fst snd]; rewrite ?Ex.
  - unfold no_break_bytes. rewrite forallb_app.
    pose proof (tok_no_break _ Hkt) as N1. pose proof (tok_no_break _ Hxt) as N2. unfold no_break_bytes in N1, N2.
    rewrite N1. change (":"%char :: sp :: d :: xr) with ([":"%char; sp] ++ d :: xr). rewrite forallb_app, N2. reflexivity.
  - cbn [app measure]. rewrite Hsp. reflexivity.
  - unfold blank_text. cbn [app skip_wsp]. rewrite Hw. exact Hh.
  - cbn [app entry_of]. rewrite Hqm. reflexivity.
  - unfold is_seq_entry. cbn [app entry_of]. rewrite Hminus. reflexivity.
  - apply (Hkey (sp :: d :: xr)). reflexivity.
  - unfold blank_text. cbn [skip_wsp]. replace (is_wsp sp) with true by reflexivity. rewrite Hwd. exact Hhd.
  - intros pind rest. cbn [skip_wsp]. replace (is_wsp sp) with true by reflexivity. rewrite Hwd.
    rewrite (scalar_node_tok pind (d :: xr) rest Hxt Hxf), Hxr. reflexivity.
  - unfold is_marker_line. cbn [app strip_prefix b list_ascii_of_string].
    unfold ceq in Hminus, Hdot. rewrite (Ascii.eqb_sym "-"%char c), (Ascii.eqb_sym "."%char c), Hminus, Hdot. reflexivity.
  - unfold doc_marker. cbn [app strip_prefix b list_ascii_of_string].
    unfold ceq in Hminus. rewrite (Ascii.eqb_sym "-"%char c), Hminus. reflexivity.
Qed.

Definition field_doc (kv : bytes * yval) : ydoc * ydoc := (DStr (fst kv), sdoc (snd kv)).

Lemma key_in_fields k l :
  ~ In k (map fst l) -> key_in (DStr k) (map field_doc l) = false.
Proof.
  induction l as [|[k' x] r IH]; intros H; [reflexivity|].
  cbn [map fst In] in H. unfold key_in. cbn [map existsb field_doc fst doc_eqb].
  destruct (bytes_eqb k k') eqn:E.
  - apply bytes_eqb_spec in E. subst k'. exfalso. apply H. left. reflexivity.
  - cbn [orb]. apply IH. intros Hin. apply H. right. exact Hin.
Qed.

Lemma map_entries_flat inl blk l : forall n,
  (List.length l < n)%nat -> NoDup (map fst l) -> Forall field_ok l ->
  map_entries inl blk n 0 (map (fun kv => (O, field_line kv)) l) = Some (map field_doc l, []).
Proof.
  induction l as [|kv r IH]; intros n Hn Hnd Hok.
  - destruct n; [lia|]. reflexivity.
  - destruct n as [|n']; [cbn in Hn; lia|].
    inversion Hok as [|? ? Hkv Hr]; subst. inversion Hnd as [|? ? Hnin Hnd']; subst.
    destruct Hkv. cbn [map map_entries skip_blank]. rewrite fo_blank0.
    replace (0 <? 0)%nat with false by reflexivity. replace (0 =? 0)%nat with true by reflexivity. cbn [negb].
    rewrite fo_q0, fo_key0, fo_vblank0, fo_val0.
    rewrite (IH n' ltac:(cbn in Hn; lia) Hnd' Hr).
    rewrite (key_in_fields _ _ Hnin). reflexivity.
Qed.

(* ------------------------------------------------------------------ *)
(* the theorem                                                         *)

Lemma flat_text_lines l :
  Forall field_ok l ->
  split_lines (flat_map (fun kv => field_line kv ++ [nl]) l) = map field_line l.
Proof.
  induction 1 as [|kv r Hkv _ IH]; [reflexivity|].
  cbn [flat_map map]. rewrite <- app_assoc. cbn [app]. destruct Hkv.
  rewrite (split_lines_line _ _ fo_line_nb0), IH. reflexivity.
Qed.

Lemma fields_join r : forall kv,
  field_line kv ++ flat_map (fun kv0 => nl :: repeat sp 0 ++ field_line kv0) r ++ [nl]
  = flat_map (fun kv0 => field_line kv0 ++ [nl]) (kv :: r).
Proof.
  induction r as [|kv1 r IH]; intros kv.
  - cbn [flat_map app]. rewrite app_nil_r. reflexivity.
  - change (flat_map (fun kv0 => field_line kv0 ++ [nl]) (kv :: kv1 :: r))
      with ((field_line kv ++ [nl]) ++ flat_map (fun kv0 => field_line kv0 ++ [nl]) (kv1 :: r)).
    rewrite <- (IH kv1). cbn [flat_map repeat app]. rewrite <- !app_assoc. cbn [app]. reflexivity.
Qed.

Theorem yaml_flat_map_roundtrip : forall kvs,
  kvs <> [] -> NoDup (map fst kvs) -> forallb simple_field kvs = true ->
  yaml_emit (YMap kvs) = YOk (flat_map (fun kv => field_line kv ++ [nl]) kvs)
  /\ yaml_parse (flat_map (fun kv => field_line kv ++ [nl]) kvs) = Some (DMap (map field_doc kvs)).
Proof.
  intros kvs Hne Hnd Hall.
  assert (Hok : Forall field_ok kvs).
  { apply Forall_forall. intros kv Hin. apply simple_field_ok. rewrite forallb_forall in Hall. apply Hall. exact Hin. }
  destruct kvs as [|[k x] r]; [congruence|]. split.
  - (* the writer *)
    unfold yaml_emit. rewrite emit_node_map.
    cbn [forallb] in Hall. apply andb_true_iff in Hall as [Hf Hr].
    pose proof Hf as Hf0. unfold simple_field in Hf. cbn [fst snd] in Hf.
    apply andb_true_iff in Hf as [Hf Hx]. apply andb_true_iff in Hf as [Hk Hlen].
    destruct (ident_plain_string k Hk) as (Hq & _ & Hkt & Hkf & Hkd).
    assert (Hkn : k <> []) by (destruct k; [discriminate Hk|congruence]).
    assert (Hsty : str_style k = SAny).
    { unfold str_style. rewrite Hq.
      assert (Hnl : existsb (fun c => ceq c nl) k = false).
      { clear - Hkt. induction k as [|c r IH]; [reflexivity|]. cbn [forallb existsb] in *.
        apply andb_true_iff in Hkt as [Hc Hr].
        destruct (tok_char_facts c Hc) as (_ & _ & _ & _ & _ & _ & _ & _ & _ & _ & _ & _ & _ & _ & _ & _ & _ & _ & _ & _ & _ & Hn & _).
        rewrite Hn, (IH Hr). reflexivity. }
      rewrite Hnl. reflexivity. }
    destruct (simple_scalar_facts x Hx) as (_ & _ & _ & _ & Hemit).
    cbn [emit_entries]. unfold write_indent at 1. cbn [est0 e_ind e_col e_ws negb orb Nat.ltb Nat.leb Nat.eqb andb Nat.sub repeat app Nat.max].
    rewrite (ident_simple_key k Hk Hlen).
    rewrite Hsty, (emit_scalar_tok_any SAny true k (Some 0) _ (or_introl eq_refl) Hkn Hkt Hkf Hkd).
    cbn [e_ws e_col e_ind].
    unfold write_indicator at 1. cbn [e_ws e_col e_ind andb negb app List.length].
    rewrite Hemit. cbn [e_ws e_col e_ind].
    match goal with |- context [emit_entries 0 r ?st4] => destruct (emit_entries_flat 0 r st4 eq_refl Hr) as (st' & E & Hst') end.
    rewrite E. unfold write_indent. rewrite Hst'. cbn [negb orb].
    f_equal. rewrite <- (fields_join r (k, x)).
    unfold field_line at 2. cbn [fst snd Nat.sub repeat b list_ascii_of_string app].
    rewrite <- !app_assoc. cbn [app]. rewrite <- !app_assoc. reflexivity.
  - (* the reader *)
    unfold yaml_parse. rewrite (flat_text_lines _ Hok). rewrite map_map.
    assert (Hm : map (fun x0 => measure (field_line x0)) ((k, x) :: r) = map (fun kv => (O, field_line kv)) ((k, x) :: r)).
    { apply map_ext_in. intros kv Hin. rewrite Forall_forall in Hok. destruct (Hok kv Hin). assumption. }
    rewrite Hm. clear Hm.
    inversion Hok as [|? ? Hkv Hr]; subst. pose proof Hkv as Hkv0. destruct Hkv.
    assert (Hmk : existsb is_marker_line (map (fun kv => (O, field_line kv)) ((k, x) :: r)) = false).
    { clear - Hok. induction Hok as [|kv l Hkv _ IH]; [reflexivity|]. cbn [map existsb]. destruct Hkv. rewrite fo_marker0, IH. reflexivity. }
    cbn [skip_blank]. change (map (fun kv => (O, field_line kv)) ((k, x) :: r))
      with ((O, field_line (k, x)) :: map (fun kv => (O, field_line kv)) r) at 1 2.
    cbn [skip_blank]. rewrite fo_blank0, fo_doc0.
    change ((O, field_line (k, x)) :: map (fun kv => (O, field_line kv)) r) with (map (fun kv => (O, field_line kv)) ((k, x) :: r)).
    rewrite (cut_marker_none _ Hmk). cbn [map].
    unfold block_of. cbn [skip_blank]. rewrite fo_blank0.
    replace ((-1 <? Z.of_nat 0)%Z) with true by reflexivity. cbn [orb].
    match goal with |- context [inline_node (S ?n)] => cbn [inline_node] end.
    rewrite fo_seq0, fo_q0, fo_key0.
    change ((O, field_line (k, x)) :: map (fun kv => (O, field_line kv)) r) with (map (fun kv => (O, field_line kv)) ((k, x) :: r)).
    rewrite (map_entries_flat _ _ ((k, x) :: r)); [|cbn [List.length]; rewrite map_length; lia|exact Hnd|exact Hok].
    cbn [skip_blank]. reflexivity.
Qed.

(* ------------------------------------------------------------------ *)
(* from values                                                         *)

Definition simple_val (v : val) : bool :=
  match v with
  | VEmpty | VBool _ | VInt _ => true
  | VStr s => ident s
  | _ => false
  end.

Definition yv (v : val) : yval :=
  match v with
  | VEmpty => YNull
  | VBool x => YBool x
  | VInt z => YInt z
  | VStr s => YStr s
  | _ => YNull
  end.

Lemma ymap_insert_notin {V : Type} k (v : V) m :
  ~ In k (map fst m) -> ymap_insert k v m = m ++ [(k, v)].
Proof.
  induction m as [|[k' v'] r IH]; intros H; [reflexivity|].
  cbn [map fst In] in H. cbn [ymap_insert app].
  destruct (bytes_eqb k k') eqn:E.
  - apply bytes_eqb_spec in E. subst k'. exfalso. apply H. left. reflexivity.
  - rewrite IH; [reflexivity|]. intros Hin. apply H. right. exact Hin.
Qed.

Lemma ymap_of_nodup {V : Type} (l : list (bytes * V)) : NoDup (map fst l) -> ymap_of l = l.
Proof.
  unfold ymap_of.
  assert (G : forall acc, NoDup (map fst (acc ++ l)) ->
              fold_left (fun m kv => ymap_insert (fst kv) (snd kv) m) l acc = acc ++ l).
  { induction l as [|[k v] r IH]; intros acc H; [rewrite app_nil_r; reflexivity|].
    cbn [fold_left fst snd]. rewrite ymap_insert_notin.
    - rewrite IH; rewrite <- app_assoc; [reflexivity|exact H].
    - rewrite map_app in H. cbn [map fst] in H. apply NoDup_remove_2 in H.
      intros Hin. apply H. apply in_or_app. left. exact Hin. }
  intros H. apply (G []). exact H.
Qed.

Definition simple_vfield (kv : bytes * val) : bool :=
  ident (fst kv) && (List.length (fst kv) <=? 128)%nat && simple_val (snd kv).

(* DOCUMENTS (partial): a tuple of scalars.  Field names: identifiers of at most 128 bytes, pairwise different;
   values: NULL, booleans, integers, identifier strings. *)
Theorem yaml_doc_roundtrip_partial : forall fs,
  fs <> [] -> NoDup (map fst fs) -> forallb simple_vfield fs = true ->
  exists out d, yaml_output (VTuple fs) = YOk out /\ yaml_parse out = Some d /\ spec_data (VTuple fs) = Some d.
Proof.
  intros fs Hne Hnd Hall.
  set (kvs := map (fun kv => (fst kv, yv (snd kv))) fs).
  assert (Hkeys : map fst kvs = map fst fs).
  { unfold kvs. rewrite map_map. reflexivity. }
  assert (Hto : to_yaml (VTuple fs) = YOk (YMap kvs)).
  { cbn [to_yaml].
    set (go := fix go (l : list (bytes * val)) : yres (list (bytes * yval)) :=
                 match l with
                 | [] => YOk []
                 | (k, x) :: r =>
                   match to_yaml x with
                   | YErr e => YErr e
                   | YOk y => match go r with YErr e => YErr e | YOk ys => YOk ((k, y) :: ys) end
                   end
                 end).
    assert (G : go fs = YOk kvs).
    { unfold kvs. clear - Hall. induction fs as [|[k x] r IH]; [reflexivity|].
      cbn [forallb] in Hall. apply andb_true_iff in Hall as [Hf Hr].
      unfold simple_vfield in Hf. cbn [fst snd] in Hf. apply andb_true_iff in Hf as [_ Hx].
      cbn [go map fst snd]. rewrite (IH Hr).
      destruct x; try discriminate Hx; reflexivity. }
    rewrite G. rewrite ymap_of_nodup by (rewrite Hkeys; exact Hnd). reflexivity. }
  assert (Hsf : forallb simple_field kvs = true).
  { unfold kvs. clear - Hall. induction fs as [|[k x] r IH]; [reflexivity|].
    cbn [forallb map] in *. apply andb_true_iff in Hall as [Hf Hr]. rewrite (IH Hr), andb_true_r.
    unfold simple_vfield in Hf. unfold simple_field. cbn [fst snd] in *.
    apply andb_true_iff in Hf as [Hf Hx]. rewrite Hf. cbn [andb].
    destruct x; try discriminate Hx; try reflexivity. exact Hx. }
  assert (Hkn : kvs <> []) by (unfold kvs; destruct fs; [congruence|discriminate]).
  destruct (yaml_flat_map_roundtrip kvs Hkn ltac:(rewrite Hkeys; exact Hnd) Hsf) as [He Hp].
  exists (flat_map (fun kv => field_line kv ++ [nl]) kvs), (DMap (map field_doc kvs)).
  split; [unfold yaml_output; rewrite Hto; exact He|]. split; [exact Hp|].
  cbn [spec_data].
  set (go := fix go (l : list (bytes * val)) : option (list (bytes * ydoc)) :=
               match l with
               | [] => Some []
               | (k, x) :: r =>
                 match spec_data x, go r with
                 | Some a, Some r' => Some ((k, a) :: r')
                 | _, _ => None
                 end
               end).
  assert (G : go fs = Some (map (fun kv => (fst kv, sdoc (yv (snd kv)))) fs)).
  { clear - Hall. induction fs as [|[k x] r IH]; [reflexivity|].
    cbn [forallb] in Hall. apply andb_true_iff in Hall as [Hf Hr].
    unfold simple_vfield in Hf. cbn [fst snd] in Hf. apply andb_true_iff in Hf as [_ Hx].
    cbn [go map fst snd]. rewrite (IH Hr).
    destruct x; try discriminate Hx; reflexivity. }
  rewrite G. cbn [option_map]. rewrite ymap_of_nodup by (rewrite map_map; exact Hnd).
  unfold kvs. rewrite !map_map. reflexivity.
Qed.

(* ================================================================== *)
(* a list of scalars: `- value` lines                                  *)

Section Items.
  Variable i : nat.
  Fixpoint emit_items (l : list yval) (st : est) : bytes * est :=
    match l with
    | [] => ([], st)
    | x :: r =>
      let (o1, st1) := write_indent i st in
      let (o2, st2) := write_indicator (b "-") true false true st1 in
      let (o3, st3) := emit_node x false (Some i) st2 in
      let (o4, st4) := emit_items r st3 in
      (o1 ++ o2 ++ o3 ++ o4, st4)
    end.
End Items.

Lemma emit_node_seq x r m indent st :
  emit_node (YSeq (x :: r)) m indent st
  = emit_items (match indent with
                | None => 0
                | Some n => if m && negb (e_ind st) then n else n + 2
                end) (x :: r) st.
Proof. reflexivity. Qed.

Definition item_line (x : yval) : bytes := "-"%char :: sp :: stext x.

Lemma emit_items_flat i l : forall st,
  e_ind st = false -> forallb simple_scalar l = true ->
  exists st', emit_items i l st = (flat_map (fun x => nl :: repeat sp i ++ item_line x) l, st')
              /\ e_ind st' = false.
Proof.
  induction l as [|x r IH]; intros st Hind Hl.
  - exists st. split; [reflexivity|exact Hind].
  - cbn [forallb] in Hl. apply andb_true_iff in Hl as [Hx Hr].
    destruct (simple_scalar_facts x Hx) as (_ & _ & _ & _ & Hemit).
    cbn [emit_items]. unfold write_indent at 1. rewrite Hind. cbn [negb orb].
    unfold write_indicator at 1. cbn [e_ws e_col e_ind andb negb app List.length].
    rewrite Hemit. cbn [e_ws e_col e_ind].
    match goal with |- context [emit_items i r ?st4] => destruct (IH st4 eq_refl Hr) as (st' & E & Hst') end.
    rewrite E. exists st'. split; [|exact Hst'].
    cbn [flat_map]. unfold item_line at 1. rewrite Nat.sub_0_r.
    cbn [app b list_ascii_of_string]. rewrite <- !app_assoc. cbn [app]. reflexivity.
Qed.

Record item_ok (x : yval) : Prop := mk_item_ok {
  io_line_nb : no_break_bytes (item_line x) = true;
  io_blank : blank_text (item_line x) = false;
  io_entry : entry_of "-"%char (item_line x) = Some (2, stext x);
  io_vblank : blank_text (stext x) = false;
  io_val : forall f pind col rest, inline_node (S f) pind col (stext x) rest = Some (sdoc x, rest);
  io_marker : is_marker_line (O, item_line x) = false;
  io_doc : doc_marker (b "---") (item_line x) = false
}.

Lemma simple_item_ok x : simple_scalar x = true -> item_ok x.
Proof.
  intros Hx. destruct (simple_scalar_facts x Hx) as (Hxt & Hxf & Hxd & Hxr & _).
  pose proof (blank_text_tok _ Hxt ltac:(destruct (stext x); [destruct Hxf|congruence])) as Hb.
  destruct (stext x) as [|d xr] eqn:Ex; [destruct Hxf|].
  assert (Hd : tok_char d = true) by (cbn [forallb] in Hxt; apply andb_true_iff in Hxt as [Hd _]; exact Hd).
  destruct (tok_char_facts d Hd) as (_ & _ & _ & _ & _ & _ & _ & _ & _ & _ & _ & Hwd & _ & _ & _ & _ & _ & _ & _ & _ & Hspd & _).
  constructor; unfold item_line; rewrite ?Ex.
  - pose proof (tok_no_break _ Hxt) as N. unfold no_break_bytes in *. cbn [forallb] in *. exact N.
  - reflexivity.
  - cbn [entry_of count_sp]. replace (ceq "-"%char "-"%char) with true by reflexivity.
    replace (is_wsp sp) with true by reflexivity. replace (ceq sp sp) with true by reflexivity.
    rewrite Hspd. reflexivity.
  - exact Hb.
  - intros f pind col rest. cbn [inline_node].
    assert (Hs : is_seq_entry (d :: xr) = false).
    { unfold is_seq_entry. rewrite (entry_of_tok _ _ Hxt Hxf) by tauto. reflexivity. }
    rewrite Hs, (entry_of_tok _ _ Hxt Hxf) by tauto. rewrite (scan_key_tok _ Hxt Hxf).
    rewrite (scalar_node_tok _ _ _ Hxt Hxf), Hxr. reflexivity.
  - reflexivity.
  - reflexivity.
Qed.

Lemma seq_items_flat f blk l : forall n,
  (List.length l < n)%nat -> Forall item_ok l ->
  seq_items (inline_node (S f)) blk n 0 (map (fun x => (O, item_line x)) l) = Some (map sdoc l, []).
Proof.
  induction l as [|x r IH]; intros n Hn Hok.
  - destruct n; [lia|]. reflexivity.
  - destruct n as [|n']; [cbn in Hn; lia|].
    inversion Hok as [|? ? Hx Hr]; subst. destruct Hx.
    cbn [map seq_items skip_blank]. rewrite io_blank0.
    replace (0 <? 0)%nat with false by reflexivity. replace (0 =? 0)%nat with true by reflexivity. cbn [negb].
    rewrite io_entry0. unfold after_indicator. rewrite io_vblank0, io_val0.
    rewrite (IH n' ltac:(cbn in Hn; lia) Hr). reflexivity.
Qed.

Lemma items_join r : forall x,
  item_line x ++ flat_map (fun y => nl :: repeat sp 0 ++ item_line y) r ++ [nl]
  = flat_map (fun y => item_line y ++ [nl]) (x :: r).
Proof.
  induction r as [|x1 r IH]; intros x.
  - cbn [flat_map app]. rewrite app_nil_r. reflexivity.
  - change (flat_map (fun y => item_line y ++ [nl]) (x :: x1 :: r))
      with ((item_line x ++ [nl]) ++ flat_map (fun y => item_line y ++ [nl]) (x1 :: r)).
    rewrite <- (IH x1). cbn [flat_map repeat app]. rewrite <- !app_assoc. cbn [app]. reflexivity.
Qed.

Lemma item_text_lines l :
  Forall item_ok l -> split_lines (flat_map (fun x => item_line x ++ [nl]) l) = map item_line l.
Proof.
  induction 1 as [|x r Hx _ IH]; [reflexivity|].
  cbn [flat_map map]. rewrite <- app_assoc. cbn [app]. destruct Hx.
  rewrite (split_lines_line _ _ io_line_nb0), IH. reflexivity.
Qed.

Lemma inline_node_seq_entry f pind col t rest :
  is_seq_entry t = true ->
  inline_node (S f) pind col t rest
  = match seq_items (inline_node f) (block_of (inline_node f)) (S (S (List.length rest))) col ((col, t) :: rest) with
    | Some (xs, rest') => Some (DSeq xs, rest')
    | None => None
    end.
Proof. intros H. cbn [inline_node]. rewrite H. reflexivity. Qed.

Theorem yaml_flat_seq_roundtrip : forall l,
  l <> [] -> forallb simple_scalar l = true ->
  yaml_emit (YSeq l) = YOk (flat_map (fun x => item_line x ++ [nl]) l)
  /\ yaml_parse (flat_map (fun x => item_line x ++ [nl]) l) = Some (DSeq (map sdoc l)).
Proof.
  intros l Hne Hall.
  assert (Hok : Forall item_ok l).
  { apply Forall_forall. intros x Hin. apply simple_item_ok. rewrite forallb_forall in Hall. apply Hall. exact Hin. }
  destruct l as [|x r]; [congruence|]. split.
  - unfold yaml_emit. rewrite emit_node_seq.
    cbn [forallb] in Hall. apply andb_true_iff in Hall as [Hx Hr].
    destruct (simple_scalar_facts x Hx) as (_ & _ & _ & _ & Hemit).
    cbn [emit_items]. unfold write_indent at 1.
    cbn [est0 e_ind e_col e_ws negb orb Nat.ltb Nat.leb Nat.eqb andb Nat.sub repeat app Nat.max].
    unfold write_indicator at 1. cbn [e_ws e_col e_ind andb negb app List.length].
    rewrite Hemit. cbn [e_ws e_col e_ind].
    match goal with |- context [emit_items 0 r ?st4] => destruct (emit_items_flat 0 r st4 eq_refl Hr) as (st' & E & Hst') end.
    rewrite E. unfold write_indent. rewrite Hst'. cbn [negb orb].
    f_equal. rewrite <- (items_join r x).
    unfold item_line at 2. cbn [Nat.sub repeat b list_ascii_of_string app].
    rewrite <- ?app_assoc. cbn [app]. rewrite <- ?app_assoc. reflexivity.
  - unfold yaml_parse. rewrite (item_text_lines _ Hok). rewrite map_map.
    assert (Hm : map (fun x0 => measure (item_line x0)) (x :: r) = map (fun y => (O, item_line y)) (x :: r)).
    { apply map_ext. intros y. reflexivity. }
    rewrite Hm. clear Hm.
    inversion Hok as [|? ? Hx Hr]; subst. pose proof Hx as Hx0. destruct Hx.
    assert (Hmk : existsb is_marker_line (map (fun y => (O, item_line y)) (x :: r)) = false).
    { clear - Hok. induction Hok as [|y l Hy _ IH]; [reflexivity|]. cbn [map existsb]. destruct Hy. rewrite io_marker0, IH. reflexivity. }
    cbn [skip_blank]. change (map (fun y => (O, item_line y)) (x :: r))
      with ((O, item_line x) :: map (fun y => (O, item_line y)) r) at 1 2.
    cbn [skip_blank]. rewrite io_blank0, io_doc0.
    change ((O, item_line x) :: map (fun y => (O, item_line y)) r) with (map (fun y => (O, item_line y)) (x :: r)).
    rewrite (cut_marker_none _ Hmk). cbn [map].
    unfold block_of. cbn [skip_blank]. rewrite io_blank0.
    replace ((-1 <? Z.of_nat 0)%Z) with true by reflexivity. cbn [orb].
    assert (Hlen : exists f, List.length (flat_map (fun y => item_line y ++ [nl]) (x :: r)) = S f).
    { cbn [flat_map]. unfold item_line at 1. cbn [app List.length]. eexists. reflexivity. }
    destruct Hlen as [f Hlen]. rewrite Hlen.
    assert (Hse : is_seq_entry (item_line x) = true) by (unfold is_seq_entry; rewrite io_entry0; reflexivity).
    rewrite (inline_node_seq_entry (S f) _ _ _ _ Hse).
    change ((O, item_line x) :: map (fun y => (O, item_line y)) r) with (map (fun y => (O, item_line y)) (x :: r)).
    rewrite (seq_items_flat f _ (x :: r)); [|cbn [List.length]; rewrite map_length; lia|exact Hok].
    cbn [skip_blank]. reflexivity.
Qed.

(* DOCUMENTS (partial, second shape): a list of scalars *)
Theorem yaml_doc_roundtrip_list_partial : forall l,
  l <> [] -> forallb simple_val l = true ->
  exists out d, yaml_output (VList l) = YOk out /\ yaml_parse out = Some d /\ spec_data (VList l) = Some d.
Proof.
  intros l Hne Hall.
  set (ys := map yv l).
  assert (Hto : to_yaml (VList l) = YOk (YSeq ys)).
  { cbn [to_yaml].
    set (go := fix go (l : list val) : yres (list yval) :=
                 match l with
                 | [] => YOk []
                 | x :: xs =>
                   match to_yaml x with
                   | YErr e => YErr e
                   | YOk y => match go xs with YErr e => YErr e | YOk ys => YOk (y :: ys) end
                   end
                 end).
    assert (G : go l = YOk ys).
    { unfold ys. clear - Hall. induction l as [|x r IH]; [reflexivity|].
      cbn [forallb] in Hall. apply andb_true_iff in Hall as [Hx Hr].
      cbn [go map]. rewrite (IH Hr). destruct x; try discriminate Hx; reflexivity. }
    rewrite G. reflexivity. }
  assert (Hss : forallb simple_scalar ys = true).
  { unfold ys. clear - Hall. induction l as [|x r IH]; [reflexivity|].
    cbn [forallb map] in *. apply andb_true_iff in Hall as [Hx Hr]. rewrite (IH Hr), andb_true_r.
    destruct x; try discriminate Hx; try reflexivity. exact Hx. }
  assert (Hyn : ys <> []) by (unfold ys; destruct l; [congruence|discriminate]).
  destruct (yaml_flat_seq_roundtrip ys Hyn Hss) as [He Hp].
  exists (flat_map (fun x => item_line x ++ [nl]) ys), (DSeq (map sdoc ys)).
  split; [unfold yaml_output; rewrite Hto; exact He|]. split; [exact Hp|].
  cbn [spec_data].
  set (go := fix go (l : list val) : option (list ydoc) :=
               match l with
               | [] => Some []
               | x :: xs =>
                 match spec_data x, go xs with
                 | Some a, Some r => Some (a :: r)
                 | _, _ => None
                 end
               end).
  assert (G : go l = Some (map (fun x => sdoc (yv x)) l)).
  { clear - Hall. induction l as [|x r IH]; [reflexivity|].
    cbn [forallb] in Hall. apply andb_true_iff in Hall as [Hx Hr].
    cbn [go map]. rewrite (IH Hr). destruct x; try discriminate Hx; reflexivity. }
  rewrite G. cbn [option_map]. unfold ys. rewrite map_map. reflexivity.
Qed.
