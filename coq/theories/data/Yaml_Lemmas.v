(* YAML output: the summary file.  Theorems proved in Yaml_Err.v / Yaml_Scalar.v / Yaml_Str.v / Yaml_Doc.v are
   re-exported; this file adds the refutations (the property is FALSE for three classes of values, with witnesses) and
   non-vacuity examples computed with vm_compute. *)
From Ucg Require Import base.Bytes data.Val data.Json data.MapJson data.Yaml.
From Ucg Require Export data.Yaml_Err data.Yaml_Scalar data.Yaml_Str data.Yaml_Plain data.Yaml_Doc data.Yaml_Quote.
From Ucg Require data.Toml.
Local Open Scope list_scope.

(* the property for one value: the converter succeeds and the independent reader reads the data back *)
Definition yaml_roundtrips (v : val) : Prop :=
  exists out d, yaml_output v = YOk out /\ yaml_parse out = Some d /\ spec_data v = Some d.

(* ------------------------------------------------------------------ *)
(* Refutations                                                         *)

Definition ls : bytes := utf8 8232.      (* U+2028 LINE SEPARATOR *)

(* R1. U+2028 / U+2029 in a string without a line feed.  libyaml treats them as line breaks (YAML 1.1): the analysis
   sets `multiline`, the string goes into a single-quoted scalar, the writer copies the character and then indents the
   "next line".  YAML 1.2 does not treat them as breaks: the indentation is read as content. *)
Theorem yaml_ls_string_refuted :
  let v := VStr (b "a" ++ ls ++ b "b") in
  yaml_output v = YOk (b "'a" ++ ls ++ b "  b'" ++ [nl])
  /\ yaml_parse (b "'a" ++ ls ++ b "  b'" ++ [nl]) = Some (DStr (b "a" ++ ls ++ b "  b"))
  /\ ~ yaml_roundtrips v.
Proof.
  cbv zeta. split; [vm_compute; reflexivity|]. split; [vm_compute; reflexivity|].
  intros (out & d & Ho & Hp & Hs). vm_compute in Ho. injection Ho as <-.
  vm_compute in Hp. injection Hp as <-. vm_compute in Hs. discriminate Hs.
Qed.

(* the same inside a mapping: key and value *)
Example yaml_ls_in_mapping :
  yaml_output (VTuple [(b "k" ++ ls, VStr (ls ++ b "x"))])
  = YOk (b "? 'k" ++ ls ++ b "  '" ++ [nl] ++ b ": '" ++ ls ++ b "  x'" ++ [nl]).
Proof. vm_compute. reflexivity. Qed.

(* R2. A string that a YAML 1.2 core-schema reader resolves as a number, but that serde_yaml does not recognise as one
   because it does not fit its number types (u64/i64/u128/i128, finite f64): it is written as a plain scalar. *)
Theorem yaml_number_overflow_refuted :
  yaml_output (VStr (b "1e999")) = YOk (b "1e999" ++ [nl])
  /\ yaml_parse (b "1e999" ++ [nl]) = Some (DFloat (Toml.DFin false 1 999))
  /\ ~ yaml_roundtrips (VStr (b "1e999"))
  /\ yaml_output (VStr (b "0x100000000000000000000000000000000")) = YOk (b "0x100000000000000000000000000000000" ++ [nl])
  /\ yaml_parse (b "0x100000000000000000000000000000000" ++ [nl]) = Some (DInt (2 ^ 128))
  /\ ~ yaml_roundtrips (VStr (b "0x100000000000000000000000000000000")).
Proof.
  split; [vm_compute; reflexivity|]. split; [vm_compute; reflexivity|]. split.
  { intros (out & d & Ho & Hp & Hs). vm_compute in Ho. injection Ho as <-.
    vm_compute in Hp. injection Hp as <-. vm_compute in Hs. discriminate Hs. }
  split; [vm_compute; reflexivity|]. split; [vm_compute; reflexivity|].
  intros (out & d & Ho & Hp & Hs). vm_compute in Ho. injection Ho as <-.
  vm_compute in Hp. injection Hp as <-. vm_compute in Hs. discriminate Hs.
Qed.

(* ... while the same texts within serde_yaml's ranges are quoted *)
Example yaml_number_strings_quoted :
  yaml_output (VList [VStr (b "1e308"); VStr (b "0xFFFFFFFFFFFFFFFFFFFFFFFFFFFFFFFF"); VStr (b "007"); VStr (b "1.")])
  = YOk (b "- '1e308'" ++ [nl] ++ b "- '0xFFFFFFFFFFFFFFFFFFFFFFFFFFFFFFFF'" ++ [nl] ++ b "- '007'" ++ [nl] ++ b "- '1.'" ++ [nl]).
Proof. vm_compute. reflexivity. Qed.

(* R3. The ROOT value is a string with a line feed that begins with a space or a line break: a literal block scalar with
   the indentation indicator `2`, whose content libyaml indents by 2.  The parent indentation of the root node is -1, so
   the indicator says 1 (YAML 1.2, productions 170 and 207); libyaml's own scanner and PyYAML take max(n,0)+2 = 2. *)
Theorem yaml_root_literal_indicator_refuted :
  let v := VStr (b " x" ++ [nl] ++ b "y") in
  yaml_output v = YOk (b "|2-" ++ [nl] ++ b "   x" ++ [nl] ++ b "  y" ++ [nl])
  /\ yaml_parse (b "|2-" ++ [nl] ++ b "   x" ++ [nl] ++ b "  y" ++ [nl]) = Some (DStr (b "  x" ++ [nl] ++ b " y"))
  /\ ~ yaml_roundtrips v.
Proof.
  cbv zeta. split; [vm_compute; reflexivity|]. split; [vm_compute; reflexivity|].
  intros (out & d & Ho & Hp & Hs). vm_compute in Ho. injection Ho as <-.
  vm_compute in Hp. injection Hp as <-. vm_compute in Hs. discriminate Hs.
Qed.

(* ... the same string below the root reads back *)
Example yaml_literal_indicator_nested :
  yaml_roundtrips (VList [VStr (b " x" ++ [nl] ++ b "y")])
  /\ yaml_roundtrips (VTuple [(b "k", VStr ([nl] ++ b " x" ++ [nl] ++ [nl]))]).
Proof.
  split; eexists; eexists; (split; [vm_compute; reflexivity|]); (split; vm_compute; reflexivity).
Qed.

(* ------------------------------------------------------------------ *)
(* Non-vacuity: whole documents                                        *)

Definition sample : val :=
  VTuple [(b "a", VInt 1);
          (b "b", VList [VInt 1; VList [VInt 3; VInt (-4)]; VTuple [(b "x", VStr (b "y")); (b "z", VList [])]; VList []]);
          (b "c", VTuple [(b "d", VTuple []); (b "e", VEmpty); (b "f", VStr (b "multi" ++ [nl] ++ b "line" ++ [nl]));
                          (b "g", VStr (b "a" ++ [nl; nl])); (b "h", VStr (b " x")); (b "i", VStr []); ([], VStr (b "true"));
                          (b "a b", VBool true); (b "tab", VStr [tab; "x"%char]); (b "q", VStr (b "it's: #1"))]);
          (b "k" ++ [nl] ++ b "l", VFloat (FFin (b "1.5")));
          (b "f", VList [VFloat (FFin (b "100")); VFloat FNaN; VFloat FNegInf; VFloat (FFin (b "0.000001"))]);
          (b "a", VInt 2)].

Example yaml_sample_text :
  yaml_output sample =
  YOk (b "a: 2" ++ [nl] ++ b "b:" ++ [nl] ++ b "- 1" ++ [nl] ++ b "- - 3" ++ [nl] ++ b "  - -4" ++ [nl] ++ b "- x: y" ++ [nl]
       ++ b "  z: []" ++ [nl] ++ b "- []" ++ [nl] ++ b "c:" ++ [nl] ++ b "  d: {}" ++ [nl] ++ b "  e: null" ++ [nl]
       ++ b "  f: |" ++ [nl] ++ b "    multi" ++ [nl] ++ b "    line" ++ [nl] ++ b "  g: |+" ++ [nl] ++ b "    a" ++ [nl] ++ [nl]
       ++ b "  h: ' x'" ++ [nl] ++ b "  i: ''" ++ [nl] ++ b "  '': 'true'" ++ [nl] ++ b "  a b: true" ++ [nl]
       ++ b "  tab: ""\tx""" ++ [nl] ++ b "  q: 'it''s: #1'" ++ [nl]
       ++ b "? |-" ++ [nl] ++ b "  k" ++ [nl] ++ b "  l" ++ [nl] ++ b ": 1.5" ++ [nl]
       ++ b "f:" ++ [nl] ++ b "- 100.0" ++ [nl] ++ b "- .nan" ++ [nl] ++ b "- -.inf" ++ [nl] ++ b "- 1e-6" ++ [nl]).
Proof. vm_compute. reflexivity. Qed.

Example yaml_sample_roundtrip : yaml_roundtrips sample.
Proof. eexists; eexists; (split; [vm_compute; reflexivity|]); (split; vm_compute; reflexivity). Qed.

Example yaml_error_example :
  yaml_output (VTuple [(b "a", VList [VInt 1; VConstraint])]) = YErr YEConstraint
  /\ spec_data (VTuple [(b "a", VList [VInt 1; VConstraint])]) = None.
Proof. split; reflexivity. Qed.

(* a key longer than 128 bytes: `? key` / `: value`, and the sequence below it is indented *)
Example yaml_long_key :
  let k := repeat "k"%char 129 in
  yaml_output (VTuple [(k, VList [VInt 1; VInt 2])]) = YOk (b "? " ++ k ++ [nl] ++ b ": - 1" ++ [nl] ++ b "  - 2" ++ [nl])
  /\ yaml_roundtrips (VTuple [(k, VList [VInt 1; VInt 2])]).
Proof.
  cbv zeta. split; [vm_compute; reflexivity|].
  eexists; eexists; (split; [vm_compute; reflexivity|]); (split; vm_compute; reflexivity).
Qed.

(* floats: ryu's text for the float whose `{}` text is given; read back as the same decimal *)
Example yaml_float_examples :
  map (fun t => yfloat_text (FFin (b t)))
      ["0"; "-0"; "1"; "1.5"; "100"; "0.1"; "0.0001"; "0.00001"; "1000000000000000"; "10000000000000000"; "1234567890123456.8";
       "123456789012345680"; "-2.5"; "0.000000000000000000000000000000000000000000000000000000000000000000000005"]%string
  = map b ["0.0"; "-0.0"; "1.0"; "1.5"; "100.0"; "0.1"; "0.0001"; "0.00001"; "1000000000000000.0"; "1e16"; "1234567890123456.8";
           "1.2345678901234568e17"; "-2.5"; "5e-72"]%string
  /\ forallb (fun t => match Toml.spec_float (FFin (b t)) with
                       | Some d => doc_eqb (resolve_plain (yfloat_text (FFin (b t)))) (DFloat d)
                       | None => false
                       end)
       ["0"; "-0"; "1"; "1.5"; "100"; "0.1"; "0.0001"; "0.00001"; "1000000000000000"; "10000000000000000"; "1234567890123456.8";
        "123456789012345680"; "-2.5"; "0.000000000000000000000000000000000000000000000000000000000000000000000005"]%string = true.
Proof. split; vm_compute; reflexivity. Qed.

(* the partial document theorem is not vacuous: its hypotheses hold for this tuple *)
Example yaml_doc_partial_example :
  let fs := [(b "name", VStr (b "web-1.example")); (b "port", VInt 8080); (b "debug", VBool false);
             (b "parent", VEmpty); (b "Null_", VStr (b "nullable")); (b "x", VInt (-9223372036854775808))] in
  forallb simple_vfield fs = true /\ NoDup (map fst fs) /\ yaml_roundtrips (VTuple fs)
  /\ yaml_output (VTuple fs)
     = YOk (b "name: web-1.example" ++ [nl] ++ b "port: 8080" ++ [nl] ++ b "debug: false" ++ [nl] ++ b "parent: null" ++ [nl]
            ++ b "Null_: nullable" ++ [nl] ++ b "x: -9223372036854775808" ++ [nl]).
Proof.
  cbv zeta.
  assert (Hnd : NoDup (map fst [(b "name", VStr (b "web-1.example")); (b "port", VInt 8080); (b "debug", VBool false);
             (b "parent", VEmpty); (b "Null_", VStr (b "nullable")); (b "x", VInt (-9223372036854775808))])).
  { cbn [map fst]. repeat constructor; cbn [In]; intros H; repeat (destruct H as [H|H]; [discriminate H|]); exact H. }
  split; [vm_compute; reflexivity|]. split; [exact Hnd|]. split.
  - apply yaml_doc_roundtrip_partial; [discriminate|exact Hnd|vm_compute; reflexivity].
  - vm_compute. reflexivity.
Qed.

(* R1 also inside a literal block scalar: the "line" after the U+2028 is indented *)
Example yaml_ls_in_literal :
  yaml_output (VStr (b "a" ++ ls ++ b "b" ++ [nl] ++ b "c"))
  = YOk (b "|-" ++ [nl] ++ b "  a" ++ ls ++ b "  b" ++ [nl] ++ b "  c" ++ [nl])
  /\ yaml_parse (b "|-" ++ [nl] ++ b "  a" ++ ls ++ b "  b" ++ [nl] ++ b "  c" ++ [nl])
     = Some (DStr (b "a" ++ ls ++ b "  b" ++ [nl] ++ b "c")).
Proof. split; vm_compute; reflexivity. Qed.
