(* Proofs about the TOML model: the document round trip.
   For a value whose converted tree is well formed ([good]: every array either contains no table
   at any depth, or is a non-empty array of tables sitting directly under a table key), the text
   written by the converter is read back, by the independent reader, as the data [spec_data]
   prescribes (tables compared up to key order: [doc_canon]). *)
From Ucg Require Import base.Bytes base.Bytes_Lemmas data.Val data.Json data.MapJson data.MapJson_Lemmas
     data.Toml data.Toml_Str data.Toml_Num data.Toml_Err data.Toml_Sem data.Toml_Val data.Toml_Out data.Toml_Lex.
Local Open Scope list_scope.

(* ------------------------------------------------------------------ *)
(* Association lists with distinct keys                                *)

Lemma nodup_lookup_in {V} (l : list (bytes * V)) k v :
  NoDup (map fst l) -> In (k, v) l -> lookup k l = Some v.
Proof.
  induction l as [|[k1 v1] l IH]; cbn [map fst In lookup]; [tauto|].
  intros Hnd [H|H].
  - inversion H; subst. rewrite bytes_eqb_refl. reflexivity.
  - inversion Hnd as [|? ? Hk Hnd']; subst. destruct (bytes_eqb k k1) eqn:E.
    + apply bytes_eqb_spec in E. subst k1. exfalso. apply Hk. apply in_map_iff. exists (k, v). auto.
    + auto.
Qed.

Lemma lookup_some_in {V} (l : list (bytes * V)) k v : lookup k l = Some v -> In (k, v) l.
Proof.
  induction l as [|[k1 v1] l IH]; cbn [lookup In]; [discriminate|].
  destruct (bytes_eqb k k1) eqn:E.
  - apply bytes_eqb_spec in E. subst. intros H. inversion H. auto.
  - auto.
Qed.

Lemma ssorted_nodup {V} (m : list (bytes * V)) : ssorted m -> NoDup (map fst m).
Proof.
  induction m as [|[k v] m IH]; cbn [ssorted map fst]; [constructor|].
  intros [H1 H2]. constructor; [|auto]. intros Hin. specialize (H1 k Hin).
  rewrite bytes_cmp_refl in H1. discriminate.
Qed.

(* two lists with distinct keys and the same bindings sort to the same list *)
Lemma sort_keys_same {V} (l1 l2 : list (bytes * V)) :
  NoDup (map fst l1) -> NoDup (map fst l2) -> (forall kv, In kv l1 <-> In kv l2) ->
  sort_keys l1 = sort_keys l2.
Proof.
  intros H1 H2 Heq. apply ssorted_ext; try (apply sort_keys_sorted; assumption).
  intros k. rewrite !lookup_sort_keys by assumption.
  destruct (lookup k l1) as [v|] eqn:E1.
  - symmetry. apply nodup_lookup_in; [exact H2|]. apply Heq. apply lookup_some_in, E1.
  - destruct (lookup k l2) as [v|] eqn:E2; [|reflexivity].
    apply lookup_some_in, Heq in E2. rewrite (nodup_lookup_in l1 k v H1 E2) in E1. discriminate.
Qed.

Lemma sort_keys_ssorted {V} (m : list (bytes * V)) : ssorted m -> sort_keys m = m.
Proof.
  intros H. apply ssorted_ext; [apply sort_keys_sorted, ssorted_nodup, H|exact H|].
  intros k. apply lookup_sort_keys, ssorted_nodup, H.
Qed.

Lemma lookup_map_val {V W} (g : V -> W) (l : list (bytes * V)) k :
  lookup k (map (fun kv => (fst kv, g (snd kv))) l) = option_map g (lookup k l).
Proof.
  induction l as [|[k1 v1] l IH]; cbn [map lookup fst snd option_map]; [reflexivity|].
  destruct (bytes_eqb k k1); [reflexivity|exact IH].
Qed.

Lemma ssorted_map_val {V W} (g : V -> W) (m : list (bytes * V)) :
  ssorted m -> ssorted (map (fun kv => (fst kv, g (snd kv))) m).
Proof.
  induction m as [|[k v] m IH]; cbn [ssorted map fst snd]; [auto|].
  intros [H1 H2]. split; [|auto]. intros k' Hk'. apply H1. rewrite map_fst_map in Hk'. exact Hk'.
Qed.

(* ---- dedup_first ---- *)

Lemma dedup_first_keys {V} (l : list (bytes * V)) : forall seen k,
  In k (map fst (dedup_first seen l)) -> In k (map fst l) /\ ~ In k seen.
Proof.
  induction l as [|[k1 v1] l IH]; intros seen k; cbn [dedup_first map fst In]; [tauto|].
  destruct (existsb (bytes_eqb k1) seen) eqn:E.
  - intros H. destruct (IH seen k H). auto.
  - cbn [map fst In]. intros [<-|H].
    + split; [auto|]. intros Hin. assert (existsb (bytes_eqb k1) seen = true).
      { apply existsb_exists. exists k1. split; [exact Hin|apply bytes_eqb_refl]. } congruence.
    + destruct (IH (k1 :: seen) k H) as [A B]. split; [auto|]. intros Hin. apply B. right. exact Hin.
Qed.

Lemma dedup_first_nodup {V} (l : list (bytes * V)) : forall seen, NoDup (map fst (dedup_first seen l)).
Proof.
  induction l as [|[k1 v1] l IH]; intros seen; cbn [dedup_first map fst]; [constructor|].
  destruct (existsb (bytes_eqb k1) seen); [apply IH|].
  cbn [map fst]. constructor; [|apply IH].
  intros Hin. apply dedup_first_keys in Hin as [_ Hn]. apply Hn. left. reflexivity.
Qed.

Lemma lookup_dedup_first {V} (l : list (bytes * V)) : forall seen k,
  ~ In k seen -> lookup k (dedup_first seen l) = lookup k l.
Proof.
  induction l as [|[k1 v1] l IH]; intros seen k Hk; cbn [dedup_first lookup]; [reflexivity|].
  destruct (existsb (bytes_eqb k1) seen) eqn:E.
  - destruct (bytes_eqb k k1) eqn:Ek.
    + apply bytes_eqb_spec in Ek. subst k1. apply existsb_exists in E as (x & Hx & Ex).
      apply bytes_eqb_spec in Ex. subst x. contradiction.
    + apply IH, Hk.
  - cbn [lookup]. destruct (bytes_eqb k k1) eqn:Ek; [reflexivity|].
    apply IH. intros [H|H]; [|contradiction]. subst k1. rewrite bytes_eqb_refl in Ek. discriminate.
Qed.

(* entry(k).or_insert(v) = keep the first binding of every key, then sort *)
Theorem map_first_spec {V} (l : list (bytes * V)) : map_first l = sort_keys (dedup_first [] l).
Proof.
  apply ssorted_ext.
  - apply map_first_sorted.
  - apply sort_keys_sorted, dedup_first_nodup.
  - intros k. rewrite map_first_lookup, lookup_sort_keys by apply dedup_first_nodup.
    symmetry. apply lookup_dedup_first. intros [].
Qed.

Lemma dedup_first_map_val {V W} (g : V -> W) (l : list (bytes * V)) : forall seen,
  dedup_first seen (map (fun kv => (fst kv, g (snd kv))) l)
  = map (fun kv => (fst kv, g (snd kv))) (dedup_first seen l).
Proof.
  induction l as [|[k1 v1] l IH]; intros seen; cbn [map dedup_first fst snd]; [reflexivity|].
  destruct (existsb (bytes_eqb k1) seen); [apply IH|]. cbn [map fst snd]. rewrite IH. reflexivity.
Qed.

Lemma sort_keys_map_val {V W} (g : V -> W) (l : list (bytes * V)) : NoDup (map fst l) ->
  sort_keys (map (fun kv => (fst kv, g (snd kv))) l) = map (fun kv => (fst kv, g (snd kv))) (sort_keys l).
Proof.
  intros H. apply ssorted_ext.
  - apply sort_keys_sorted. rewrite map_fst_map. exact H.
  - apply ssorted_map_val, sort_keys_sorted, H.
  - intros k. rewrite lookup_sort_keys by (rewrite map_fst_map; exact H).
    rewrite !lookup_map_val, lookup_sort_keys by exact H. reflexivity.
Qed.

(* ------------------------------------------------------------------ *)
(* The reader's tree for a value, as data                              *)

Definition ents_doc (es : entries) : list (bytes * tdoc) :=
  map (fun kn => (fst kn, doc_of_node (snd kn))) es.

Lemma doc_of_node_tab h es : doc_of_node (NTab h es) = DTab (ents_doc es).
Proof.
  cbn [doc_of_node]. f_equal. induction es as [|[k n] es IH]; [reflexivity|].
  cbn [ents_doc map fst snd]. rewrite IH. reflexivity.
Qed.

Lemma doc_of_node_aot dn cur :
  doc_of_node (NAot dn cur) = DArr (map (fun e => DTab (ents_doc e)) (dn ++ [cur])).
Proof.
  cbn [doc_of_node]. f_equal.
  assert (E : forall e, (fix ents (es : list (bytes * node)) : list (bytes * tdoc) :=
                           match es with [] => [] | (k, x) :: r => (k, doc_of_node x) :: ents r end) e = ents_doc e).
  { induction e as [|[k n] e IH]; [reflexivity|]. cbn [ents_doc map fst snd]. rewrite IH. reflexivity. }
  induction dn as [|e dn IH]; cbn [app map]; [rewrite E; reflexivity|]. rewrite E, IH. reflexivity.
Qed.

Lemma aot_node_doc l : forall dn cur,
  doc_of_node (aot_node dn cur l) = DArr (map (fun e => DTab (ents_doc e)) (dn ++ cur :: l)).
Proof.
  induction l as [|e l IH]; intros dn cur; cbn [aot_node].
  - apply doc_of_node_aot.
  - rewrite IH, <- app_assoc. reflexivity.
Qed.

(* the entries in the order written = the three filters *)
Definition part (es : list (bytes * tval)) : list (bytes * tval) :=
  filter (fun kv => pass1 (snd kv)) es ++ filter (fun kv => pass2 (snd kv)) es ++ filter (fun kv => pass3 (snd kv)) es.

Lemma node_of_pass1 x : pass1 x = true -> node_of x = NVal (tdoc_of x).
Proof.
  destruct x as [s|z|f|b0|l|es]; try reflexivity; [|discriminate].
  cbn [pass1 node_of]. intros H. apply negb_true_iff in H. rewrite H. reflexivity.
Qed.

Lemma ents_with_part es : ents_with node_of es = map (fun kv => (fst kv, node_of (snd kv))) (part es).
Proof.
  unfold ents_with, part. rewrite kv_nodes_filter, !sub_nodes_filter, !map_app. f_equal.
  apply map_ext_in. intros [k x] Hin. apply filter_In in Hin as [_ Hp]. cbn [fst snd] in *.
  rewrite (node_of_pass1 x Hp). reflexivity.
Qed.

Lemma in_part es kv : In kv (part es) <-> In kv es.
Proof.
  unfold part. rewrite !in_app_iff, !filter_In. destruct kv as [k x]. cbn [snd].
  destruct (pass_exclusive x) as (_ & _ & H). split; [tauto|]. intros Hin.
  destruct (pass1 x); [auto|]. destruct (pass2 x); [auto|]. cbn [orb] in H. rewrite H. auto.
Qed.

Lemma part_nodup es : NoDup (map fst es) -> NoDup (map fst (part es)).
Proof.
  intros H. pose proof (ents_with_nodup node_of es H) as Hn.
  rewrite ents_with_part, map_fst_map in Hn. exact Hn.
Qed.

(* ------------------------------------------------------------------ *)
(* Order of writing vs sorted order                                    *)

Definition canon_ents (f : tval -> tdoc) (es : list (bytes * tval)) : list (bytes * tdoc) :=
  map (fun kv => (fst kv, f (snd kv))) es.

Lemma doc_canon_tab kvs :
  doc_canon (DTab kvs) = DTab (sort_keys (map (fun kv => (fst kv, doc_canon (snd kv))) kvs)).
Proof. reflexivity. Qed.

Theorem canon_node : forall v, good v = true -> keys_nodup v ->
  doc_canon (doc_of_node (node_of v)) = doc_canon (tdoc_of v).
Proof.
  induction v as [s|z|f|b0|l IH|es IH] using tval_ind'; intros Hg Hn; try reflexivity.
  - (* arrays *)
    cbn [node_of]. destruct (existsb is_table l) eqn:Et; [|reflexivity].
    cbn [good] in Hg. rewrite (is_table_has_tab_list l Et) in Hg. cbn [negb orb] in Hg.
    apply andb_true_iff in Hg as [Hall Hgood]. apply keys_nodup_arr in Hn.
    change (map (fun x => match x with TTab es => ents_with node_of es | _ => [] end) l) with (map elem_ents l).
    destruct (map elem_ents l) as [|e r] eqn:Em; [destruct l; [discriminate Et|discriminate Em]|].
    rewrite aot_node_doc. cbn [app]. rewrite <- Em. cbn [tdoc_of doc_canon]. f_equal.
    rewrite !map_map. apply map_ext_in. intros x Hx.
    rewrite Forall_forall in IH, Hn. rewrite forallb_forall in Hall, Hgood.
    specialize (Hall x Hx). destruct x as [| | | | |es]; try discriminate Hall.
    specialize (IH _ Hx (Hgood _ Hx) (Hn _ Hx)). cbn [node_of] in IH. rewrite doc_of_node_tab in IH.
    cbn [elem_ents]. exact IH.
  - (* tables *)
    cbn [node_of]. rewrite doc_of_node_tab. cbn [tdoc_of]. rewrite !doc_canon_tab. f_equal.
    cbn [good] in Hg. apply keys_nodup_tab in Hn as [Hnd Hsub].
    rewrite ents_with_part. unfold ents_doc. rewrite !map_map. cbn [fst snd].
    assert (E : map (fun x : bytes * tval => (fst x, doc_canon (doc_of_node (node_of (snd x))))) (part es)
                = map (fun x : bytes * tval => (fst x, doc_canon (tdoc_of (snd x)))) (part es)).
    { apply map_ext_in. intros [k x] Hin. apply (proj1 (in_part es (k, x))) in Hin. cbn [fst snd]. f_equal.
      rewrite Forall_forall in IH, Hsub. rewrite forallb_forall in Hg.
      apply (IH _ Hin (Hg _ Hin) (Hsub _ Hin)). }
    rewrite E. apply sort_keys_same.
    + rewrite (map_fst_map (fun y => doc_canon (tdoc_of y))). apply part_nodup, Hnd.
    + rewrite (map_fst_map (fun y => doc_canon (tdoc_of y))). exact Hnd.
    + intros [k d]. rewrite !in_map_iff. split; intros ([k' x] & Eq & Hin); exists (k', x); (split; [exact Eq|]); apply in_part; exact Hin.
Qed.

(* ------------------------------------------------------------------ *)
(* The converter's tree and the specification                          *)

Fixpoint val_wf (v : val) : bool :=
  match v with
  | VInt z => in_i64 z
  | VFloat (FFin t) => match rust_float_parts t with Some _ => true | None => false end
  | VList l => forallb val_wf l
  | VTuple fs => forallb (fun kv => val_wf (snd kv)) fs
  | _ => true
  end.

Lemma to_toml_list_ok l : forall ys, to_toml_list l = TOk ys ->
  Forall2 (fun x y => to_toml x = TOk y) l ys.
Proof.
  induction l as [|x l IH]; intros ys H; cbn [to_toml_list] in H.
  - inversion H. constructor.
  - destruct (to_toml x) as [y|] eqn:Ex; [|discriminate]. destruct (to_toml_list l) as [ys'|] eqn:El; [|discriminate].
    inversion H; subst. constructor; auto.
Qed.

Lemma to_toml_fields_ok l : forall kvs, to_toml_fields l = TOk kvs ->
  Forall2 (fun kx ky => fst kx = fst ky /\ to_toml (snd kx) = TOk (snd ky)) l kvs.
Proof.
  induction l as [|[k x] l IH]; intros kvs H; cbn [to_toml_fields] in H.
  - inversion H. constructor.
  - destruct (to_toml x) as [y|] eqn:Ex; [|discriminate]. destruct (to_toml_fields l) as [ys'|] eqn:El; [|discriminate].
    inversion H; subst. constructor; [split; [reflexivity|exact Ex]|auto].
Qed.

(* the statement proved by induction on the value *)
Definition ConvP (v : val) : Prop :=
  forall t, val_wf v = true -> to_toml v = TOk t ->
    tval_wf t = true /\ keys_nodup t /\ spec_data v = Some (doc_canon (tdoc_of t)).

Lemma spec_float_ok f : val_wf (VFloat f) = true ->
  spec_float f = Some (dfloat_of (tfloat_of_fl f)) /\ tval_wf (TFloat (tfloat_of_fl f)) = true.
Proof.
  destruct f as [t| | |]; cbn [val_wf spec_float tfloat_of_fl dfloat_of tval_wf]; try (intros _; split; reflexivity).
  destruct (rust_float_parts t) as [[[neg i] fd]|]; [intros _; split; reflexivity|discriminate].
Qed.

Lemma map_first_in_orig {V} (l : list (bytes * V)) kv : In kv (map_first l) -> In kv l.
Proof. apply map_first_in. Qed.

Theorem conv_ok : forall v, ConvP v.
Proof.
  induction v as [|x|z|f|s|l IH|fs IH|fs|] using val_ind2; intros t Hw Ht.
  - discriminate Ht.
  - inversion Ht; subst. repeat split.
  - inversion Ht; subst. cbn [val_wf] in Hw. repeat split. exact Hw.
  - inversion Ht; subst. destruct (spec_float_ok f Hw) as [A B]. split; [exact B|]. split; [exact I|].
    cbn [spec_data]. rewrite A. reflexivity.
  - inversion Ht; subst. repeat split.
  - (* lists *)
    rewrite to_toml_VList in Ht. destruct (to_toml_list l) as [ys|] eqn:El; [|discriminate]. inversion Ht; subst t.
    apply to_toml_list_ok in El. cbn [val_wf] in Hw.
    assert (H : forallb tval_wf ys = true /\ Forall keys_nodup ys /\
                (fix go (l : list val) : option (list tdoc) :=
                   match l with
                   | [] => Some []
                   | x :: xs => match spec_data x, go xs with Some a, Some r => Some (a :: r) | _, _ => None end
                   end) l = Some (map (fun y => doc_canon (tdoc_of y)) ys)).
    { clear Ht. induction El as [|x y l ys Hxy _ IHl]; [repeat split; constructor|].
      cbn [forallb] in Hw. apply andb_true_iff in Hw as [Hwx Hwl]. inversion IH as [|? ? IHx IHr]; subst.
      destruct (IHx y Hwx Hxy) as (A & B & C). destruct (IHl IHr Hwl) as (A' & B' & C').
      cbn [forallb map]. rewrite A, A', C, C'. repeat split. constructor; assumption. }
    destruct H as (A & B & C). cbn [tval_wf]. split; [exact A|]. split; [apply keys_nodup_arr, B|].
    cbn [spec_data]. rewrite C. cbn [option_map tdoc_of doc_canon]. rewrite map_map. reflexivity.
  - (* tuples *)
    rewrite to_toml_VTuple in Ht. destruct (to_toml_fields fs) as [kvs|] eqn:El; [|discriminate]. inversion Ht; subst t.
    apply to_toml_fields_ok in El. cbn [val_wf] in Hw.
    assert (H : forallb (fun kv => tval_wf (snd kv)) kvs = true /\ Forall (fun kv => keys_nodup (snd kv)) kvs /\
                (fix go (l : list (bytes * val)) : option (list (bytes * tdoc)) :=
                   match l with
                   | [] => Some []
                   | (k, x) :: r => match spec_data x, go r with Some a, Some r' => Some ((k, a) :: r') | _, _ => None end
                   end) fs = Some (map (fun kv => (fst kv, doc_canon (tdoc_of (snd kv)))) kvs)).
    { clear Ht. induction El as [|[k x] [k' y] l ys [Hk Hxy] _ IHl]; [repeat split; constructor|].
      cbn [fst snd] in Hk, Hxy. subst k'.
      cbn [forallb snd] in Hw. apply andb_true_iff in Hw as [Hwx Hwl]. inversion IH as [|? ? IHx IHr]; subst.
      cbn [snd] in IHx. destruct (IHx y Hwx Hxy) as (A & B & C). destruct (IHl IHr Hwl) as (A' & B' & C').
      cbn [forallb map fst snd]. rewrite A, A', C, C'. repeat split. constructor; assumption. }
    destruct H as (A & B & C).
    split; [|split].
    + cbn [tval_wf]. apply forallb_forall. intros kv Hin. apply map_first_in in Hin.
      rewrite forallb_forall in A. apply A, Hin.
    + apply keys_nodup_tab. split; [apply ssorted_nodup, map_first_sorted|].
      apply Forall_forall. intros kv Hin. apply map_first_in in Hin. rewrite Forall_forall in B. apply B, Hin.
    + cbn [spec_data]. rewrite C. cbn [option_map tdoc_of]. rewrite doc_canon_tab. f_equal. f_equal.
      rewrite map_map. cbn [fst snd].
      set (g := fun y : tval => doc_canon (tdoc_of y)).
      change (sort_keys (dedup_first [] (map (fun kv : bytes * tval => (fst kv, g (snd kv))) kvs))
              = sort_keys (map (fun x : bytes * tval => (fst x, g (snd x))) (map_first kvs))).
      rewrite (sort_keys_ssorted (map (fun x : bytes * tval => (fst x, g (snd x))) (map_first kvs)))
        by (apply (ssorted_map_val g), map_first_sorted).
      rewrite map_first_spec, (dedup_first_map_val g).
      rewrite (sort_keys_map_val g) by apply dedup_first_nodup. reflexivity.
  - (* env *)
    inversion Ht; subst t. split; [|split].
    + cbn [tval_wf]. apply forallb_forall. intros kv Hin. apply map_first_in in Hin.
      apply in_map_iff in Hin as (x & <- & _). reflexivity.
    + apply keys_nodup_tab. split; [apply ssorted_nodup, map_first_sorted|].
      apply Forall_forall. intros kv Hin. apply map_first_in in Hin. apply in_map_iff in Hin as (x & <- & _). exact I.
    + cbn [spec_data tdoc_of]. rewrite doc_canon_tab. f_equal. f_equal.
      rewrite map_map. cbn [fst snd].
      set (g := fun y : tval => doc_canon (tdoc_of y)).
      set (kvs := map (fun kv : bytes * bytes => (fst kv, TStr (snd kv))) fs).
      change (map (fun kv : bytes * bytes => (fst kv, DStr (snd kv))) fs)
        with (map (fun kv : bytes * bytes => (fst kv, DStr (snd kv))) fs).
      assert (Ek : map (fun kv : bytes * bytes => (fst kv, DStr (snd kv))) fs
                   = map (fun kv : bytes * tval => (fst kv, g (snd kv))) kvs).
      { unfold kvs. rewrite map_map. reflexivity. }
      rewrite Ek.
      change (sort_keys (dedup_first [] (map (fun kv : bytes * tval => (fst kv, g (snd kv))) kvs))
              = sort_keys (map (fun x : bytes * tval => (fst x, g (snd x))) (map_first kvs))).
      rewrite (sort_keys_ssorted (map (fun x : bytes * tval => (fst x, g (snd x))) (map_first kvs)))
        by (apply (ssorted_map_val g), map_first_sorted).
      rewrite map_first_spec, (dedup_first_map_val g).
      rewrite (sort_keys_map_val g) by apply dedup_first_nodup. reflexivity.
  - discriminate Ht.
Qed.

(* ------------------------------------------------------------------ *)
(* toml_doc_roundtrip                                                  *)

(* the text of a well-formed tree is read back as that tree *)
Theorem toml_tree_roundtrip : forall t out,
  good t = true -> tval_wf t = true -> keys_nodup t ->
  toml_emit t = TOk out ->
  exists d, toml_parse out = Some d /\ doc_canon d = doc_canon (tdoc_of t).
Proof.
  intros t out Hg Hw Hn He. unfold toml_emit in He.
  destruct t as [| | | | |es]; try discriminate He. cbn [is_table] in He.
  pose proof (lex_root es out Hg Hw He) as Hl.
  pose proof (build_flat es Hg Hn) as Hb.
  exists (doc_of_entries (ents_with node_of es)). split.
  - unfold toml_parse. rewrite Hl, Hb. reflexivity.
  - pose proof (canon_node (TTab es) Hg Hn) as Hc. cbn [node_of] in Hc.
    unfold doc_of_entries. rewrite doc_of_node_tab in *. exact Hc.
Qed.

(* the headline: whatever `out toml v` writes for a value whose tree is well formed is read back,
   by the independent reader, as the data the property prescribes *)
Theorem toml_doc_roundtrip : forall v t out,
  val_wf v = true ->
  to_toml v = TOk t -> good t = true ->
  toml_emit t = TOk out ->
  exists d, toml_parse out = Some d /\ spec_data v = Some (doc_canon d).
Proof.
  intros v t out Hw Ht Hg He.
  destruct (conv_ok v t Hw Ht) as (Hwt & Hn & Hs).
  destruct (toml_tree_roundtrip t out Hg Hwt Hn He) as (d & Hp & Hc).
  exists d. split; [exact Hp|]. rewrite Hs, Hc. reflexivity.
Qed.

(* on well-formed trees the serializer cannot fail: no ValueAfterTable *)
Lemma flc_aot l : forallb is_table l = true -> l <> [] -> first_leaf_checks (TArr l) = false.
Proof.
  destruct l as [|x l]; [congruence|]. cbn [forallb first_leaf_checks]. intros H _.
  apply andb_true_iff in H as [Hx _]. destruct x; try discriminate Hx. reflexivity.
Qed.

Lemma scan_inline (p : tval -> bool) es :
  (forall kv, In kv es -> p (snd kv) = true -> va_err (snd kv) = false /\ has_tab (snd kv) = false) ->
  scan_pass va_err p es false = (false, false).
Proof.
  induction es as [|[k x] es IH]; intros H; cbn [scan_pass]; [reflexivity|].
  destruct (p x) eqn:Ep.
  - destruct (H (k, x) (or_introl eq_refl) Ep) as [A B]. cbn [snd] in A, B. rewrite A, B, andb_false_r. cbn [orb].
    apply IH. intros kv Hin. apply H. right. exact Hin.
  - apply IH. intros kv Hin. apply H. right. exact Hin.
Qed.

Lemma scan_noflc (p : tval -> bool) es :
  (forall kv, In kv es -> p (snd kv) = true -> va_err (snd kv) = false /\ first_leaf_checks (snd kv) = false) ->
  forall te, fst (scan_pass va_err p es te) = false.
Proof.
  induction es as [|[k x] es IH]; intros H te; cbn [scan_pass]; [reflexivity|].
  destruct (p x) eqn:Ep.
  - destruct (H (k, x) (or_introl eq_refl) Ep) as [A B]. cbn [snd] in A, B. rewrite A, B. cbn [orb andb].
    apply IH. intros kv Hin. apply H. right. exact Hin.
  - apply IH. intros kv Hin. apply H. right. exact Hin.
Qed.

Lemma notab_va : forall v, has_tab v = false -> va_err v = false.
Proof.
  induction v as [s|z|f|b0|l IH|es IH] using tval_ind'; intros H; try reflexivity; [|discriminate H].
  cbn [va_err]. destruct (existsb va_err l) eqn:E; [|reflexivity].
  apply existsb_exists in E as (x & Hx & Ev). rewrite Forall_forall in IH.
  rewrite (IH x Hx (has_tab_arr_elems l H x Hx)) in Ev. discriminate.
Qed.

Theorem good_va : forall v, good v = true -> va_err v = false.
Proof.
  induction v as [s|z|f|b0|l IH|es IH] using tval_ind'; intros Hg; try reflexivity.
  - cbn [good] in Hg. cbn [va_err]. destruct (existsb va_err l) eqn:E; [|reflexivity].
    apply existsb_exists in E as (x & Hx & Ev). rewrite Forall_forall in IH.
    apply orb_true_iff in Hg as [Hg|Hg].
    + apply negb_true_iff in Hg. rewrite (notab_va x (has_tab_arr_elems l Hg x Hx)) in Ev. discriminate.
    + apply andb_true_iff in Hg as [_ Hg]. rewrite forallb_forall in Hg. rewrite (IH x Hx (Hg x Hx)) in Ev. discriminate.
  - cbn [good] in Hg. rewrite forallb_forall in Hg. rewrite Forall_forall in IH. cbn [va_err].
    rewrite (scan_inline pass1 es).
    2:{ intros kv Hin Hp. split; [apply (IH kv Hin (Hg kv Hin))|apply pass1_good_inline; [exact Hp|apply Hg, Hin]]. }
    assert (H2 : forall kv, In kv es -> pass2 (snd kv) = true -> va_err (snd kv) = false /\ first_leaf_checks (snd kv) = false).
    { intros [k x] Hin Hp. cbn [snd] in *. split; [apply (IH _ Hin (Hg _ Hin))|].
      specialize (Hg _ Hin). cbn [snd] in Hg. destruct x as [| | | |l|]; try discriminate Hp.
      cbn [pass2] in Hp. cbn [good] in Hg. rewrite (is_table_has_tab_list l Hp) in Hg. cbn [negb orb] in Hg.
      apply andb_true_iff in Hg as [Hall _]. apply flc_aot; [exact Hall|]. destruct l; [discriminate Hp|discriminate]. }
    assert (H3 : forall kv, In kv es -> pass3 (snd kv) = true -> va_err (snd kv) = false /\ first_leaf_checks (snd kv) = false).
    { intros [k x] Hin Hp. cbn [snd] in *. split; [apply (IH _ Hin (Hg _ Hin))|].
      destruct x; try discriminate Hp. reflexivity. }
    pose proof (scan_noflc pass2 es H2 false) as E2.
    destruct (scan_pass va_err pass2 es false) as [e2 t2]. cbn [fst] in E2. subst e2.
    apply (scan_noflc pass3 es H3).
Qed.

(* ... so for a well-formed tree the converter always produces a text, and it reads back *)
Corollary toml_good_total : forall v t,
  val_wf v = true -> to_toml v = TOk t -> is_table t = true -> good t = true ->
  exists out d, toml_emit t = TOk out /\ toml_parse out = Some d /\ spec_data v = Some (doc_canon d).
Proof.
  intros v t Hw Ht Htab Hg.
  destruct (ser_root_error_iff t) as [_ H]. destruct (H (good_va t Hg)) as [out Ho].
  assert (He : toml_emit t = TOk out) by (unfold toml_emit; rewrite Htab; exact Ho).
  destruct (toml_doc_roundtrip v t out Hw Ht Hg He) as (d & A & B). eauto.
Qed.
