(* MODEL: ucg's YAML output.
     [to_yaml]     src/convert/yaml.rs  convert_value / convert_list / convert_tuple / convert_env
     [yaml_emit]   src/convert/yaml.rs  write = serde_yaml::to_writer(&mut w, &value), that is
                   serde_yaml-0.9.34/src/value/ser.rs   impl Serialize for Value
                   serde_yaml-0.9.34/src/ser.rs         the event sequence and the scalar style request
                                                        (serialize_str: InferScalarStyle over de.rs visit_untagged_scalar)
                   unsafe-libyaml-0.2.11/src/emitter.rs analyze_scalar, select_scalar_style, the four scalar writers,
                                                        the block sequence / block mapping states, write_indent,
                                                        write_indicator, check_simple_key, document start / end
                   for exactly the event sequences serde_yaml produces (no anchors, no tags, no flow collections
                   other than the empty ones, one document, unicode = true, width = -1 i.e. best_width = i32::MAX:
                   the line-folding branches `column > best_width` can never be taken and are left out).
     [yaml_parse]  an independent reader written from the YAML 1.2 specification (block subset), see below
     [spec_data]   what the property says must be read back.
   Executable definitions only; proofs are in Yaml_*.v.

   serde_yaml::Mapping is an IndexMap: insertion ordered; insert() on an existing key keeps the
   position of the key and replaces the value (LAST value wins, FIRST position). *)
From Ucg Require Import base.Bytes data.Val data.Json data.MapJson.
From Ucg Require data.Toml.

(* ------------------------------------------------------------------ *)
(* Outcomes                                                            *)

Inductive yerr :=
| YEConstraint.    (* "Constraint values cannot be converted to YAML"   (yaml.rs) *)

Inductive yres (A : Type) :=
| YOk (a : A)
| YErr (e : yerr).
Arguments YOk {A} a.
Arguments YErr {A} e.

(* ------------------------------------------------------------------ *)
(* serde_yaml::Value as the converter builds it (no Tagged; mapping keys are always Value::String) *)

Inductive yval :=
| YNull
| YBool (v : bool)
| YInt (z : Z)
| YFloat (f : fl)
| YStr (s : bytes)
| YSeq (l : list yval)
| YMap (kvs : list (bytes * yval)).     (* IndexMap: insertion order, keys pairwise different *)

(* IndexMap::insert *)
Fixpoint ymap_insert {V : Type} (k : bytes) (v : V) (m : list (bytes * V)) : list (bytes * V) :=
  match m with
  | [] => [(k, v)]
  | (k', v') :: r => if bytes_eqb k k' then (k', v) :: r else (k', v') :: ymap_insert k v r
  end.

Definition ymap_of {V : Type} (l : list (bytes * V)) : list (bytes * V) :=
  fold_left (fun m kv => ymap_insert (fst kv) (snd kv) m) l [].

(* YamlConverter::convert_value.  to_value(f64) / to_value(i64) cannot fail (their Err arms are dead code). *)
Fixpoint to_yaml (v : val) : yres yval :=
  match v with
  | VEmpty => YOk YNull
  | VBool x => YOk (YBool x)
  | VInt z => YOk (YInt z)
  | VFloat f => YOk (YFloat f)
  | VStr s => YOk (YStr s)
  | VList l =>
    match (fix go (l : list val) : yres (list yval) :=
             match l with
             | [] => YOk []
             | x :: xs =>
               match to_yaml x with
               | YErr e => YErr e
               | YOk y => match go xs with YErr e => YErr e | YOk ys => YOk (y :: ys) end
               end
             end) l with
    | YErr e => YErr e
    | YOk ys => YOk (YSeq ys)
    end
  | VTuple fs =>
    (* convert_tuple: mapping.insert(String(k), self.convert_value(v)?) in order *)
    match (fix go (l : list (bytes * val)) : yres (list (bytes * yval)) :=
             match l with
             | [] => YOk []
             | (k, x) :: r =>
               match to_yaml x with
               | YErr e => YErr e
               | YOk y => match go r with YErr e => YErr e | YOk ys => YOk ((k, y) :: ys) end
               end
             end) fs with
    | YErr e => YErr e
    | YOk kvs => YOk (YMap (ymap_of kvs))
    end
  | VEnv fs => YOk (YMap (ymap_of (map (fun kv => (fst kv, YStr (snd kv))) fs)))
  | VConstraint => YErr YEConstraint
  end.

(* ================================================================== *)
(* serde_yaml ser.rs: serialize_str -- which scalar style is requested *)

Definition is_sign (c : ascii) : bool := ceq c "+"%char || ceq c "-"%char.
Definition starts_sign (s : bytes) : bool := match s with c :: _ => is_sign c | [] => false end.
Definition strip_plus (s : bytes) : bytes :=
  match s with c :: t => if ceq c "+"%char then t else s | [] => [] end.
Definition mem_bytes (s : bytes) (l : list bytes) : bool := existsb (bytes_eqb s) l.

(* de.rs parse_null, parse_bool *)
Definition parse_null_ok (s : bytes) : bool := mem_bytes s [b "null"; b "Null"; b "NULL"; b "~"].
Definition parse_bool_ok (s : bytes) : bool :=
  mem_bytes s [b "true"; b "True"; b "TRUE"; b "false"; b "False"; b "FALSE"].

(* de.rs digits_but_not_number *)
Definition digits_but_not_number (s : bytes) : bool :=
  let u := match s with c :: t => if is_sign c then t else s | [] => [] end in
  match u with
  | z :: (_ :: _) as r => ceq z "0"%char && forallb is_digit r
  | _ => false
  end.

(* char::to_digit(radix) *)
Definition digit_radix (r : N) (c : ascii) : option N :=
  match hex_val c with
  | Some d => if (d <? r)%N then Some d else None
  | None => None
  end.

Fixpoint radix_val (r : N) (ds : bytes) (acc : N) : option N :=
  match ds with
  | [] => Some acc
  | c :: t => match digit_radix r c with Some d => radix_val r t (acc * r + d)%N | None => None end
  end.

(* a non-empty digit string of value <= mx *)
Definition radix_le (r : N) (ds : bytes) (mx : N) : bool :=
  match ds with
  | [] => false
  | _ :: _ => match radix_val r ds 0%N with Some n => (n <=? mx)%N | None => false end
  end.

Definition u128_max : N := 340282366920938463463374607431768211455.
Definition i128_max : N := 170141183460469231731687303715884105727.
Definition i128_minabs : N := 170141183460469231731687303715884105728.

(* u128::from_str_radix(s, r).is_ok()  (u64 is subsumed) *)
Definition from_radix_u (r : N) (s : bytes) : bool :=
  match s with
  | [] => false
  | [c] => if is_sign c then false else radix_le r s u128_max
  | c :: t => if ceq c "+"%char then radix_le r t u128_max else radix_le r s u128_max
  end.

(* i128::from_str_radix(s, r).is_ok()  (i64 is subsumed) *)
Definition from_radix_i (r : N) (s : bytes) : bool :=
  match s with
  | [] => false
  | [c] => if is_sign c then false else radix_le r s i128_max
  | c :: t =>
    if ceq c "+"%char then radix_le r t i128_max
    else if ceq c "-"%char then radix_le r t i128_minabs
    else radix_le r s i128_max
  end.

(* de.rs parse_unsigned_int(.., u128::from_str_radix).is_some() *)
Definition parse_unsigned_ok (s : bytes) : bool :=
  let u := strip_plus s in
  let dec := if starts_sign u then false
             else if digits_but_not_number s then false
             else from_radix_u 10 u in
  let pre (p : bytes) (r : N) (k : bool) : bool :=
      match strip_prefix p u with
      | Some rest => if starts_sign rest then false else if from_radix_u r rest then true else k
      | None => k
      end in
  pre (b "0x") 16%N (pre (b "0o") 8%N (pre (b "0b") 2%N dec)).

(* de.rs parse_negative_int(.., i128::from_str_radix).is_some() *)
Definition parse_negative_ok (s : bytes) : bool :=
  let dec := if digits_but_not_number s then false else from_radix_i 10 s in
  let pre (p : bytes) (r : N) (k : bool) : bool :=
      match strip_prefix p s with
      | Some rest => if from_radix_i r ("-"%char :: rest) then true else k
      | None => k
      end in
  pre (b "-0x") 16%N (pre (b "-0o") 8%N (pre (b "-0b") 2%N dec)).

Definition visit_int_ok (s : bytes) : bool := parse_unsigned_ok s || parse_negative_ok s.

(* <f64 as FromStr>: [sign] ( digits [ . digits* ] | . digits+ ) [ (e|E) [sign] digits+ ]; inf / infinity / nan
   (any case) are accepted by Rust but are not finite.  Result: the decimal digits, the number of fraction digits and the
   exponent. *)
Definition rust_float_syntax (s : bytes) : option (bytes * nat * Z) :=
  let u := match s with c :: t => if is_sign c then t else s | [] => [] end in
  let (ip, r1) := span_digits u in
  let '(fp, r2) := match r1 with
                   | c :: t => if ceq c "."%char then span_digits t else ([], r1)
                   | [] => ([], [])
                   end in
  match ip ++ fp with
  | [] => None
  | ds =>
    match r2 with
    | [] => Some (ds, List.length fp, 0%Z)
    | c :: t =>
      if ceq c "e"%char || ceq c "E"%char then
        let '(neg, t1) := match t with
                          | d :: t' => if ceq d "-"%char then (true, t') else if ceq d "+"%char then (false, t') else (false, t)
                          | [] => (false, [])
                          end in
        match span_digits t1 with
        | ((_ :: _) as es, []) =>
          let e := Z.of_N (digits_val es) in Some (ds, List.length fp, if neg then (- e)%Z else e)
        | _ => None
        end
      else None
    end
  end.

Fixpoint strip_lead0 (ds : bytes) : bytes :=
  match ds with
  | c :: t => if ceq c "0"%char then strip_lead0 t else ds
  | [] => []
  end.

(* the smallest magnitude that rounds to infinity: 2^1024 - 2^970 *)
Definition f64_inf_threshold : N := (2 ^ 1024 - 2 ^ 970)%N.

(* does the decimal ds * 10^e round to a finite f64? *)
Definition dec_is_finite (ds : bytes) (e : Z) : bool :=
  let sd := strip_lead0 ds in
  match sd with
  | [] => true
  | _ :: _ =>
    let nd := Z.of_nat (List.length sd) in
    let m := digits_val sd in
    if (310 <? e + nd)%Z then false
    else if (e + nd <? 300)%Z then true
    else if (0 <=? e)%Z then (m * 10 ^ Z.to_N e <? f64_inf_threshold)%N
    else (m <? f64_inf_threshold * 10 ^ Z.to_N (- e))%N
  end.

Definition rust_f64_finite (s : bytes) : bool :=
  match rust_float_syntax s with
  | Some (ds, fl, ex) => dec_is_finite ds (ex - Z.of_nat fl)%Z
  | None => false
  end.

(* de.rs parse_f64(..).is_some() *)
Definition parse_f64_ok (s : bytes) : bool :=
  let plus := match s with c :: _ => ceq c "+"%char | [] => false end in
  let u := strip_plus s in
  if plus && starts_sign u then false
  else if mem_bytes u [b ".inf"; b ".Inf"; b ".INF"] then true
  else if mem_bytes s [b "-.inf"; b "-.Inf"; b "-.INF"] then true
  else if mem_bytes s [b ".nan"; b ".NaN"; b ".NAN"] then true
  else rust_f64_finite u.

(* visit_untagged_scalar(InferScalarStyle, s, None, Plain) answers SingleQuoted *)
Definition needs_quote (s : bytes) : bool :=
  match s with [] => true | _ :: _ => false end
  || parse_null_ok s || parse_bool_ok s || visit_int_ok s
  || (negb (digits_but_not_number s) && parse_f64_ok s)
  || digits_but_not_number s.

Definition sqt : ascii := "'"%char.

Inductive sstyle := SAny | SPlain | SSingle | SLiteral | SDouble.

(* serialize_str *)
Definition str_style (s : bytes) : sstyle :=
  if existsb (fun c => ceq c nl) s then SLiteral
  else if needs_quote s then SSingle
  else SAny.

(* ================================================================== *)
(* libyaml: characters                                                 *)

(* one character: the code point libyaml computes (write_double_quoted_scalar) and its bytes.
   Rust strings are valid UTF-8; on a byte that cannot start a character (libyaml: width 0, never
   reached) the model takes the byte alone. *)
Record uchar := mk_uc { u_cp : N; u_raw : bytes }.

Definition lead_width (c : ascii) : nat :=
  let n := code c in
  if (n <? 192)%N then 1 else if (n <? 224)%N then 2 else if (n <? 240)%N then 3 else if (n <? 248)%N then 4 else 1.

Definition lead_bits (c : ascii) : N :=
  let n := code c in
  if (n <? 128)%N then n else if (n <? 192)%N then 0%N else if (n <? 224)%N then (n mod 32)%N
  else if (n <? 240)%N then (n mod 16)%N else if (n <? 248)%N then (n mod 8)%N else 0%N.

Definition cp_of (c : ascii) (tl : bytes) : N :=
  fold_left (fun v d => (v * 64 + code d mod 64)%N) tl (lead_bits c).

Fixpoint chars_f (fuel : nat) (s : bytes) : list uchar :=
  match fuel, s with
  | S f, c :: r =>
    let w := Nat.pred (lead_width c) in
    mk_uc (cp_of c (firstn w r)) (c :: firstn w r) :: chars_f f (skipn w r)
  | _, _ => []
  end.

Definition chars (s : bytes) : list uchar := chars_f (List.length s) s.

Definition is_break_cp (n : N) : bool :=
  (n =? 13)%N || (n =? 10)%N || (n =? 133)%N || (n =? 8232)%N || (n =? 8233)%N.
Definition is_blankz_cp (n : N) : bool :=
  (n =? 32)%N || (n =? 9)%N || is_break_cp n || (n =? 0)%N.
(* IS_PRINTABLE (on valid UTF-8): tab, CR, NEL and U+FEFF are NOT printable here *)
Definition is_printable_cp (n : N) : bool :=
  (n =? 10)%N || ((32 <=? n)%N && (n <=? 126)%N) || ((160 <=? n)%N && (n <=? 55295)%N)
  || ((57344 <=? n)%N && (n <=? 65533)%N && negb (n =? 65279)%N)
  || ((65536 <=? n)%N && (n <=? 1114111)%N).

(* ================================================================== *)
(* libyaml: yaml_emitter_analyze_scalar (flow_plain_allowed is not needed: flow_level is 0) *)

Record aflags := mk_af {
  a_block_ind : bool; a_breaks : bool; a_special : bool;
  a_lead_sp : bool; a_lead_br : bool; a_trail_sp : bool; a_trail_br : bool;
  a_br_sp : bool; a_sp_br : bool }.

Definition cp_in (n : N) (s : bytes) : bool := existsb (fun c => (code c =? n)%N) s.

Fixpoint an_loop (first prec_ws prev_sp prev_br : bool) (l : list uchar) (a : aflags) : aflags :=
  match l with
  | [] => a
  | u :: r =>
    let n := u_cp u in
    let last := match r with [] => true | _ :: _ => false end in
    let followed := match r with [] => true | v :: _ => is_blankz_cp (u_cp v) end in
    let bi :=
        if first then
          cp_in n (b "#,[]{}&*!|>'""%@`")
          || (((n =? 63)%N || (n =? 58)%N) && followed)
          || ((n =? 45)%N && followed)
        else ((n =? 58)%N && followed) || ((n =? 35)%N && prec_ws) in
    let is_sp := (n =? 32)%N in
    let is_br := is_break_cp n in
    let a' := mk_af (a_block_ind a || bi) (a_breaks a || is_br) (a_special a || negb (is_printable_cp n))
                    (a_lead_sp a || (is_sp && first)) (a_lead_br a || (negb is_sp && is_br && first))
                    (a_trail_sp a || (is_sp && last)) (a_trail_br a || (negb is_sp && is_br && last))
                    (a_br_sp a || (is_sp && prev_br)) (a_sp_br a || (negb is_sp && is_br && prev_sp)) in
    an_loop false (is_blankz_cp n) is_sp (negb is_sp && is_br) r a'
  end.

Record sflags := mk_sf { f_multiline : bool; f_block_plain : bool; f_single_ok : bool; f_block_ok : bool }.

Definition analyze (s : bytes) : sflags :=
  match s with
  | [] => mk_sf false true true false
  | _ :: _ =>
    let doc := match s with
               | c1 :: c2 :: c3 :: _ =>
                 (ceq c1 "-"%char && ceq c2 "-"%char && ceq c3 "-"%char)
                 || (ceq c1 "."%char && ceq c2 "."%char && ceq c3 "."%char)
               | _ => false
               end in
    let a := an_loop true true false false (chars s)
                     (mk_af doc false false false false false false false false) in
    let bad_ends := a_lead_sp a || a_lead_br a || a_trail_sp a || a_trail_br a in
    mk_sf (a_breaks a)
          (negb (bad_ends || a_br_sp a || a_sp_br a || a_special a || a_breaks a || a_block_ind a))
          (negb (a_br_sp a || a_sp_br a || a_special a))
          (negb (a_trail_sp a || a_sp_br a || a_special a))
  end.

(* yaml_emitter_select_scalar_style (no tag, both implicit flags set, not canonical, flow_level = 0) *)
Definition select_style (req : sstyle) (simple_key : bool) (f : sflags) (len : nat) : sstyle :=
  let s0 := match req with SAny => SPlain | x => x end in
  let s1 := if simple_key && f_multiline f then SDouble else s0 in
  let s2 := match s1 with
            | SPlain =>
              if negb (f_block_plain f) then SSingle
              else if (len =? 0)%nat && simple_key then SSingle
              else SPlain
            | x => x
            end in
  let s3 := match s2 with SSingle => if f_single_ok f then SSingle else SDouble | x => x end in
  match s3 with
  | SLiteral => if negb (f_block_ok f) || simple_key then SDouble else SLiteral
  | x => x
  end.

(* ================================================================== *)
(* libyaml: the output state and the writers                           *)

Record est := mk_est { e_col : nat; e_ws : bool; e_ind : bool }.   (* column, whitespace, indention *)

Definition est0 : est := mk_est 0 true true.

(* yaml_emitter_write_indent with emitter.indent = i (a negative indent counts as 0) *)
Definition write_indent (i : nat) (st : est) : bytes * est :=
  let brk := negb (e_ind st) || (i <? e_col st)%nat || ((e_col st =? i)%nat && negb (e_ws st)) in
  let col1 := if brk then 0%nat else e_col st in
  ((if brk then [nl] else []) ++ repeat sp (i - col1), mk_est (Nat.max col1 i) true true).

(* yaml_emitter_write_indicator *)
Definition write_indicator (txt : bytes) (need_ws is_ws is_ind : bool) (st : est) : bytes * est :=
  let pre := if need_ws && negb (e_ws st) then [sp] else [] in
  (pre ++ txt, mk_est (e_col st + List.length pre + List.length txt) is_ws (e_ind st && is_ind)).

(* WRITE_BREAK: a line feed is written as the configured break (LN), any other break is copied *)
Definition break_bytes (u : uchar) : bytes := if (u_cp u =? 10)%N then [nl] else u_raw u.

(* yaml_emitter_write_plain_scalar: the loop *)
Fixpoint plain_loop (i : nat) (breaks : bool) (l : list uchar) (st : est) : bytes * est :=
  match l with
  | [] => ([], st)
  | u :: r =>
    let n := u_cp u in
    if (n =? 32)%N then
      let (o, st') := plain_loop i breaks r (mk_est (S (e_col st)) (e_ws st) (e_ind st)) in
      (u_raw u ++ o, st')
    else if is_break_cp n then
      let pre := if negb breaks && (n =? 10)%N then [nl] else [] in
      let (o, st') := plain_loop i true r (mk_est 0 (e_ws st) true) in
      (pre ++ break_bytes u ++ o, st')
    else
      let (o1, st1) := if breaks then write_indent i st else ([], st) in
      let (o, st') := plain_loop i false r (mk_est (S (e_col st1)) (e_ws st1) false) in
      (o1 ++ u_raw u ++ o, st')
  end.

Definition write_plain (i : nat) (s : bytes) (st : est) : bytes * est :=
  let pre := if negb (e_ws st) && negb (match s with [] => true | _ => false end) then [sp] else [] in
  let (o, st') := plain_loop i false (chars s) (mk_est (e_col st + List.length pre) (e_ws st) (e_ind st)) in
  (pre ++ o, mk_est (e_col st') false false).

(* yaml_emitter_write_single_quoted_scalar: the loop; returns the final value of `breaks` too *)
Fixpoint single_loop (i : nat) (breaks : bool) (l : list uchar) (st : est) : bytes * est * bool :=
  match l with
  | [] => ([], st, breaks)
  | u :: r =>
    let n := u_cp u in
    if (n =? 32)%N then
      let '(o, st', bk) := single_loop i breaks r (mk_est (S (e_col st)) (e_ws st) (e_ind st)) in
      (u_raw u ++ o, st', bk)
    else if is_break_cp n then
      let pre := if negb breaks && (n =? 10)%N then [nl] else [] in
      let '(o, st', bk) := single_loop i true r (mk_est 0 (e_ws st) true) in
      (pre ++ break_bytes u ++ o, st', bk)
    else
      let (o1, st1) := if breaks then write_indent i st else ([], st) in
      let q := if (n =? 39)%N then [sqt] else [] in
      let '(o, st', bk) := single_loop i false r (mk_est (e_col st1 + List.length q + 1) (e_ws st1) false) in
      (o1 ++ q ++ u_raw u ++ o, st', bk)
  end.

Definition write_single (i : nat) (s : bytes) (st : est) : bytes * est :=
  let (o0, st0) := write_indicator [sqt] true false false st in
  let '(o1, st1, bk) := single_loop i false (chars s) st0 in
  let (o2, st2) := if bk then write_indent i st1 else ([], st1) in
  let (o3, st3) := write_indicator [sqt] false false false st2 in
  (o0 ++ o1 ++ o2 ++ o3, mk_est (e_col st3) false false).

Definition hex_up (n : N) : ascii :=
  if (n <? 10)%N then ascii_of_N (48 + n) else ascii_of_N (55 + n).

(* the k hex digits of n, most significant first *)
Fixpoint hex_digits (k : nat) (n : N) : bytes :=
  match k with
  | O => []
  | S k' => hex_digits k' (n / 16)%N ++ [hex_up (n mod 16)%N]
  end.

(* yaml_emitter_write_double_quoted_scalar: must the character be escaped, and how *)
Definition dq_must_escape (n : N) : bool :=
  negb (is_printable_cp n) || (n =? 65279)%N || is_break_cp n || (n =? 34)%N || (n =? 92)%N.

Definition dq_escape (n : N) : bytes :=
  bsl ::
  (if (n =? 0)%N then b "0" else if (n =? 7)%N then b "a" else if (n =? 8)%N then b "b"
   else if (n =? 9)%N then b "t" else if (n =? 10)%N then b "n" else if (n =? 11)%N then b "v"
   else if (n =? 12)%N then b "f" else if (n =? 13)%N then b "r" else if (n =? 27)%N then b "e"
   else if (n =? 34)%N then [dq] else if (n =? 92)%N then [bsl] else if (n =? 133)%N then b "N"
   else if (n =? 160)%N then b "_" else if (n =? 8232)%N then b "L" else if (n =? 8233)%N then b "P"
   else if (n <=? 255)%N then "x"%char :: hex_digits 2 n
   else if (n <=? 65535)%N then "u"%char :: hex_digits 4 n
   else "U"%char :: hex_digits 8 n).

Fixpoint double_body (l : list uchar) : bytes :=
  match l with
  | [] => []
  | u :: r => (if dq_must_escape (u_cp u) then dq_escape (u_cp u) else u_raw u) ++ double_body r
  end.

(* columns advanced by the body: one per PUT / WRITE *)
Fixpoint double_cols (l : list uchar) : nat :=
  match l with
  | [] => 0
  | u :: r => (if dq_must_escape (u_cp u) then List.length (dq_escape (u_cp u)) else 1) + double_cols r
  end.

Definition write_double (s : bytes) (st : est) : bytes * est :=
  let (o0, st0) := write_indicator [dq] true false false st in
  let cs := chars s in
  let st1 := mk_est (e_col st0 + double_cols cs) (e_ws st0) (e_ind st0) in
  let (o3, st3) := write_indicator [dq] false false false st1 in
  (o0 ++ double_body cs ++ o3, mk_est (e_col st3) false false).

(* yaml_emitter_write_block_scalar_hints (best_indent = 2) *)
Definition block_hints (cs : list uchar) : bytes :=
  let ih := match cs with
            | u :: _ => if (u_cp u =? 32)%N || is_break_cp (u_cp u) then b "2" else []
            | [] => []
            end in
  let ch := match rev cs with
            | [] => b "-"
            | u :: r =>
              if negb (is_break_cp (u_cp u)) then b "-"
              else match r with
                   | [] => b "+"
                   | v :: _ => if is_break_cp (u_cp v) then b "+" else []
                   end
            end in
  ih ++ ch.

Fixpoint literal_loop (i : nat) (breaks : bool) (l : list uchar) (st : est) : bytes * est :=
  match l with
  | [] => ([], st)
  | u :: r =>
    if is_break_cp (u_cp u) then
      let (o, st') := literal_loop i true r (mk_est 0 (e_ws st) true) in
      (break_bytes u ++ o, st')
    else
      let (o1, st1) := if breaks then write_indent i st else ([], st) in
      let (o, st') := literal_loop i false r (mk_est (S (e_col st1)) (e_ws st1) false) in
      (o1 ++ u_raw u ++ o, st')
  end.

(* yaml_emitter_write_literal_scalar *)
Definition write_literal (i : nat) (s : bytes) (st : est) : bytes * est :=
  let (o0, st0) := write_indicator (b "|") true false false st in
  let cs := chars s in
  let h := block_hints cs in
  let (o1, st1) := literal_loop i true cs (mk_est 0 true true) in
  (o0 ++ h ++ [nl] ++ o1, st1).

(* yaml_emitter_emit_scalar: select_scalar_style, increase_indent(flow = true), process_scalar.
   [indent] = emitter.indent before the scalar, None = -1 *)
Definition scalar_indent (indent : option nat) : nat :=
  match indent with None => 2 | Some n => n + 2 end.

Definition final_style (req : sstyle) (s : bytes) (simple_key : bool) : sstyle :=
  select_style req simple_key (analyze s) (List.length s).

Definition emit_scalar (req : sstyle) (s : bytes) (simple_key : bool) (indent : option nat) (st : est)
  : bytes * est :=
  let i := scalar_indent indent in
  match final_style req s simple_key with
  | SPlain | SAny => write_plain i s st
  | SSingle => write_single i s st
  | SDouble => write_double s st
  | SLiteral => write_literal i s st
  end.

(* ------------------------------------------------------------------ *)
(* numbers                                                             *)

Definition strip_trail0 (ds : bytes) : bytes := rev (strip_lead0 (rev ds)).

(* ryu::Buffer::format_finite(f64), derived from the text Rust's `{}` prints for the same float
   (both print the shortest digit string that reads back as the float; `{}` writes it positionally).
   [t] = [-] digits [ . digits ] *)
Definition ryu_text (t : bytes) : bytes :=
  let '(neg, t1) := match t with
                    | c :: r => if ceq c "-"%char then (true, r) else (false, t)
                    | [] => (false, [])
                    end in
  let (ip, r1) := span_digits t1 in
  let fp := match r1 with _ :: r => fst (span_digits r) | [] => [] end in
  let sg := if neg then b "-" else [] in
  let sig := strip_lead0 (ip ++ fp) in
  match sig with
  | [] => sg ++ b "0.0"
  | _ :: _ =>
    let ds := strip_trail0 sig in
    let len := Z.of_nat (List.length ds) in
    let k := (Z.of_nat (List.length sig) - len - Z.of_nat (List.length fp))%Z in
    let kk := (len + k)%Z in
    if (0 <=? k)%Z && (kk <=? 16)%Z then sg ++ ds ++ repeat "0"%char (Z.to_nat k) ++ b ".0"
    else if (0 <? kk)%Z && (kk <=? 16)%Z then
      sg ++ firstn (Z.to_nat kk) ds ++ "."%char :: skipn (Z.to_nat kk) ds
    else if (-5 <? kk)%Z && (kk <=? 0)%Z then sg ++ b "0." ++ repeat "0"%char (Z.to_nat (- kk)) ++ ds
    else
      match ds with
      | [d] => sg ++ d :: "e"%char :: dec_of_Z (kk - 1)
      | d :: r => sg ++ d :: "."%char :: r ++ "e"%char :: dec_of_Z (kk - 1)
      | [] => []
      end
  end.

(* serialize_f64 *)
Definition yfloat_text (f : fl) : bytes :=
  match f with
  | FFin t => ryu_text t
  | FNaN => b ".nan"
  | FInf => b ".inf"
  | FNegInf => b "-.inf"
  end.

Definition ybool_text (v : bool) : bytes := if v then b "true" else b "false".

(* ------------------------------------------------------------------ *)
(* nodes                                                               *)

(* yaml_emitter_check_simple_key for a scalar key *)
Definition simple_key_ok (k : bytes) : bool :=
  negb (f_multiline (analyze k)) && (List.length k <=? 128)%nat.

(* yaml_emitter_emit_node for the events of one Value.
   [mapping_ctx] = emitter.mapping_context, [indent] = emitter.indent (None = -1). *)
Fixpoint emit_node (v : yval) (mapping_ctx : bool) (indent : option nat) (st : est) : bytes * est :=
  match v with
  | YNull => emit_scalar SPlain (b "null") false indent st
  | YBool x => emit_scalar SPlain (ybool_text x) false indent st
  | YInt z => emit_scalar SPlain (dec_of_Z z) false indent st
  | YFloat f => emit_scalar SPlain (yfloat_text f) false indent st
  | YStr s => emit_scalar (str_style s) s false indent st
  | YSeq [] =>
    (* check_empty_sequence: flow style, "[" then "]" *)
    let (o1, st1) := write_indicator (b "[") true true false st in
    let (o2, st2) := write_indicator (b "]") false false false st1 in
    (o1 ++ o2, st2)
  | YSeq l =>
    (* emit_block_sequence_item: increase_indent(false, mapping_context && !indention) *)
    let i := match indent with
             | None => 0
             | Some n => if mapping_ctx && negb (e_ind st) then n else n + 2
             end in
    (fix items (l : list yval) (st : est) : bytes * est :=
       match l with
       | [] => ([], st)
       | x :: r =>
         let (o1, st1) := write_indent i st in
         let (o2, st2) := write_indicator (b "-") true false true st1 in
         let (o3, st3) := emit_node x false (Some i) st2 in
         let (o4, st4) := items r st3 in
         (o1 ++ o2 ++ o3 ++ o4, st4)
       end) l st
  | YMap [] =>
    let (o1, st1) := write_indicator (b "{") true true false st in
    let (o2, st2) := write_indicator (b "}") false false false st1 in
    (o1 ++ o2, st2)
  | YMap kvs =>
    (* emit_block_mapping_key / emit_block_mapping_value *)
    let i := match indent with None => 0 | Some n => n + 2 end in
    (fix entries (l : list (bytes * yval)) (st : est) : bytes * est :=
       match l with
       | [] => ([], st)
       | (k, x) :: r =>
         let (o1, st1) := write_indent i st in
         if simple_key_ok k then
           let (o2, st2) := emit_scalar (str_style k) k true (Some i) st1 in
           let (o3, st3) := write_indicator (b ":") false false false st2 in
           let (o4, st4) := emit_node x true (Some i) st3 in
           let (o5, st5) := entries r st4 in
           (o1 ++ o2 ++ o3 ++ o4 ++ o5, st5)
         else
           let (o2, st2) := write_indicator (b "?") true false true st1 in
           let (o3, st3) := emit_scalar (str_style k) k false (Some i) st2 in
           let (o4, st4) := write_indent i st3 in
           let (o5, st5) := write_indicator (b ":") true false true st4 in
           let (o6, st6) := emit_node x true (Some i) st5 in
           let (o7, st7) := entries r st6 in
           (o1 ++ o2 ++ o3 ++ o4 ++ o5 ++ o6 ++ o7, st7)
       end) kvs st
  end.

(* the document: implicit start (nothing written), the root node, implicit end (write_indent with indent -1).
   serde_yaml::to_writer never emits StreamEnd, so `...` is never written. *)
Definition yaml_emit (v : yval) : yres bytes :=
  let (o, st) := emit_node v false None est0 in
  let (o2, _) := write_indent 0 st in
  YOk (o ++ o2).

Definition yaml_output (v : val) : yres bytes :=
  match to_yaml v with
  | YErr e => YErr e
  | YOk y => yaml_emit y
  end.

(* ================================================================== *)
(* The data a YAML document denotes (YAML 1.2 core schema)             *)

Inductive ydoc :=
| DNull
| DBool (v : bool)
| DInt (z : Z)                          (* unbounded: the core schema puts no limit on integers *)
| DFloat (f : Toml.dfloat)              (* finite: (-1)^neg * m * 10^e normalised; nan; +-inf *)
| DStr (s : bytes)
| DSeq (l : list ydoc)
| DMap (kvs : list (ydoc * ydoc)).      (* in document order; the reader rejects repeated keys *)

Fixpoint doc_eqb (x y : ydoc) : bool :=
  match x, y with
  | DNull, DNull => true
  | DBool b1, DBool b2 => Bool.eqb b1 b2
  | DInt z1, DInt z2 => (z1 =? z2)%Z
  | DFloat f1, DFloat f2 => Toml.dfloat_eqb f1 f2
  | DStr s1, DStr s2 => bytes_eqb s1 s2
  | DSeq l1, DSeq l2 =>
    (fix go (l1 l2 : list ydoc) : bool :=
       match l1, l2 with
       | [], [] => true
       | a :: r1, c :: r2 => doc_eqb a c && go r1 r2
       | _, _ => false
       end) l1 l2
  | DMap l1, DMap l2 =>
    (fix go (l1 l2 : list (ydoc * ydoc)) : bool :=
       match l1, l2 with
       | [], [] => true
       | (k1, a) :: r1, (k2, c) :: r2 => doc_eqb k1 k2 && doc_eqb a c && go r1 r2
       | _, _ => false
       end) l1 l2
  | _, _ => false
  end.

(* ================================================================== *)
(* yaml_parse: a reader written from the YAML 1.2 specification (chapters 5-9, 10.3) for the block subset:
   one document (optional `---`, optional `...`), comments, block sequences (with the compact `- - x` and
   `- k: v` forms), block mappings with implicit `k: v` and explicit `? k` / `: v` entries, a sequence at the
   indentation of its parent key, plain scalars (one line) resolved by the core schema, single- and double-quoted
   scalars (one line, every escape), literal block scalars with indentation and chomping indicators, the empty flow
   collections `[]` and `{}`.
   NOT supported (the reader answers None): anchors, aliases, tags, directives, non-empty flow collections, folded
   scalars, multi-line plain and quoted scalars, several documents, tabs as separation before a block collection.
   Deviations: bytes >= 0x80 are taken as they are (no UTF-8 validation, U+0085 / U+2028 / U+2029 are ordinary
   characters as YAML 1.2 says); C0 control characters other than tab, and DEL, are rejected inside scalars. *)

Definition line := (nat * bytes)%type.     (* number of leading spaces, the rest of the line *)

(* b-break: LF, CR LF, CR.  A break at the very end does not open another line. *)
Fixpoint split_lines (s : bytes) : list bytes :=
  match s with
  | [] => []
  | c :: r =>
    if ceq c nl then [] :: split_lines r
    else if ceq c cr then
      match r with
      | d :: _ => if ceq d nl then split_lines r else [] :: split_lines r
      | [] => [[]]
      end
    else match split_lines r with
         | [] => [[c]]
         | l :: ls => (c :: l) :: ls
         end
  end.

Fixpoint measure (s : bytes) : line :=
  match s with
  | c :: r => if ceq c sp then let (n, t) := measure r in (S n, t) else (O, s)
  | [] => (O, [])
  end.

Definition is_wsp (c : ascii) : bool := ceq c sp || ceq c tab.

Fixpoint skip_wsp (s : bytes) : bytes :=
  match s with
  | c :: r => if is_wsp c then skip_wsp r else s
  | [] => []
  end.

(* nothing, or a comment *)
Definition blank_text (t : bytes) : bool :=
  match skip_wsp t with
  | [] => true
  | c :: _ => ceq c "#"%char
  end.

(* what may follow a complete node on its line: white space, and a comment only after white space *)
Definition tail_ok (t : bytes) : bool :=
  match t with
  | [] => true
  | c :: _ => is_wsp c && blank_text t
  end.

Fixpoint skip_blank (ls : list line) : list line :=
  match ls with
  | (_, t) :: r => if blank_text t then skip_blank r else ls
  | [] => []
  end.

(* `-`, `?`, `:` as a block indicator: followed by white space or the end of the line.
   Result: the number of columns to the content, the content *)
Fixpoint count_sp (s : bytes) : nat * bytes :=
  match s with
  | c :: r => if ceq c sp then let (n, t) := count_sp r in (S n, t) else (O, s)
  | [] => (O, [])
  end.

Definition entry_of (ind : ascii) (t : bytes) : option (nat * bytes) :=
  match t with
  | c :: r =>
    if ceq c ind then
      match r with
      | [] => Some (1, [])
      | d :: _ => if is_wsp d then let (n, u) := count_sp r in Some (S n, u) else None
      end
    else None
  | [] => None
  end.

(* ---- scalars ---- *)

(* a byte that may appear inside a scalar on a line: not a C0 control other than tab, not DEL *)
Definition text_byte_ok (c : ascii) : bool :=
  let n := code c in ceq c tab || ((32 <=? n)%N && negb (n =? 127)%N).

(* [s] is the text after the opening quote; result: the string, the text after the closing quote *)
Fixpoint scan_single (s : bytes) : option (bytes * bytes) :=
  match s with
  | [] => None
  | c :: r =>
    if ceq c sqt then
      match r with
      | d :: r' =>
        if ceq d sqt then
          match scan_single r' with Some (x, t) => Some (sqt :: x, t) | None => None end
        else Some ([], r)
      | [] => Some ([], [])
      end
    else if text_byte_ok c then
      match scan_single r with Some (x, t) => Some (c :: x, t) | None => None end
    else None
  end.

(* ns-esc-... with one character *)
Definition dq_unescape (e : ascii) : option bytes :=
  if ceq e "0"%char then Some [ascii_of_N 0]
  else if ceq e "a"%char then Some [ascii_of_N 7]
  else if ceq e "b"%char then Some [ascii_of_N 8]
  else if ceq e "t"%char || ceq e tab then Some [tab]
  else if ceq e "n"%char then Some [nl]
  else if ceq e "v"%char then Some [ascii_of_N 11]
  else if ceq e "f"%char then Some [ascii_of_N 12]
  else if ceq e "r"%char then Some [cr]
  else if ceq e "e"%char then Some [ascii_of_N 27]
  else if ceq e sp then Some [sp]
  else if ceq e dq then Some [dq]
  else if ceq e "/"%char then Some ["/"%char]
  else if ceq e bsl then Some [bsl]
  else if ceq e "N"%char then Some (utf8 133)
  else if ceq e "_"%char then Some (utf8 160)
  else if ceq e "L"%char then Some (utf8 8232)
  else if ceq e "P"%char then Some (utf8 8233)
  else None.

Definition hex2 (a1 a2 : ascii) : option N :=
  match hex_val a1, hex_val a2 with
  | Some x, Some y => Some (x * 16 + y)%N
  | _, _ => None
  end.

Fixpoint scan_double (s : bytes) : option (bytes * bytes) :=
  match s with
  | [] => None
  | c :: r =>
    if ceq c dq then Some ([], r)
    else if ceq c bsl then
      match r with
      | [] => None
      | e :: r1 =>
        if ceq e "x"%char then
          match r1 with
          | h1 :: h2 :: r2 =>
            match hex2 h1 h2, scan_double r2 with
            | Some n, Some (x, t) => Some (utf8 n ++ x, t)
            | _, _ => None
            end
          | _ => None
          end
        else if ceq e "u"%char then
          match r1 with
          | h1 :: h2 :: h3 :: h4 :: r2 =>
            match hex4 h1 h2 h3 h4, scan_double r2 with
            | Some n, Some (x, t) => if Toml.scalar_ok n then Some (utf8 n ++ x, t) else None
            | _, _ => None
            end
          | _ => None
          end
        else if ceq e "U"%char then
          match r1 with
          | h1 :: h2 :: h3 :: h4 :: h5 :: h6 :: h7 :: h8 :: r2 =>
            match Toml.hex8 h1 h2 h3 h4 h5 h6 h7 h8, scan_double r2 with
            | Some n, Some (x, t) => if Toml.scalar_ok n then Some (utf8 n ++ x, t) else None
            | _, _ => None
            end
          | _ => None
          end
        else
          match dq_unescape e, scan_double r1 with
          | Some y, Some (x, t) => Some (y ++ x, t)
          | _, _ => None
          end
      end
    else if text_byte_ok c then
      match scan_double r with Some (x, t) => Some (c :: x, t) | None => None end
    else None
  end.

(* c-indicator *)
Definition is_indicator (c : ascii) : bool :=
  existsb (ceq c) (b "-?:,[]{}#&*!|>'""%@`").

(* ns-plain-first in a block context *)
Definition plain_first_ok (t : bytes) : bool :=
  match t with
  | [] => false
  | c :: r =>
    if is_wsp c then false
    else if ceq c "-"%char || ceq c "?"%char || ceq c ":"%char then
      match r with d :: _ => negb (is_wsp d) | [] => false end
    else negb (is_indicator c)
  end.

(* nb-ns-plain-in-line in a block context: up to `:` followed by white space / the end of the line, or up to
   white space followed by `#`.  [prev_ws]: the previous character was white space.
   Result: the text (with its trailing white space), the rest. *)
Fixpoint scan_plain (prev_ws : bool) (s : bytes) : option (bytes * bytes) :=
  match s with
  | [] => Some ([], [])
  | c :: r =>
    if ceq c ":"%char && match r with d :: _ => is_wsp d | [] => true end then Some ([], s)
    else if ceq c "#"%char && prev_ws then Some ([], s)
    else if text_byte_ok c then
      match scan_plain (is_wsp c) r with Some (x, t) => Some (c :: x, t) | None => None end
    else None
  end.

Definition rtrim (s : bytes) : bytes := rev (skip_wsp (rev s)).

(* ---- the core schema: tag resolution of plain scalars (10.3.2) ---- *)

Definition all_in (p : ascii -> bool) (s : bytes) : bool :=
  match s with [] => false | _ :: _ => forallb p s end.

Definition resolve_int (t : bytes) : option Z :=
  match strip_prefix (b "0o") t with
  | Some r => if all_in Toml.is_oct_digit r then Some (Z.of_N (Toml.base_val 8 r)) else None
  | None =>
    match strip_prefix (b "0x") t with
    | Some r => if all_in Toml.is_hex_digit r then Some (Z.of_N (Toml.base_val 16 r)) else None
    | None =>
      let '(neg, u) := match t with
                       | c :: r => if ceq c "-"%char then (true, r) else if ceq c "+"%char then (false, r) else (false, t)
                       | [] => (false, [])
                       end in
      if all_in is_digit u then
        let m := Z.of_N (digits_val u) in Some (if neg then (- m)%Z else m)
      else None
    end
  end.

(* [-+]? ( \. [0-9]+ | [0-9]+ ( \. [0-9]* )? ) ( [eE] [-+]? [0-9]+ )?  |  [-+]? \.(inf|Inf|INF)  |  \.(nan|NaN|NAN) *)
Definition resolve_float (t : bytes) : option Toml.dfloat :=
  if mem_bytes t [b ".nan"; b ".NaN"; b ".NAN"] then Some Toml.DNan
  else
    let '(neg, u) := match t with
                     | c :: r => if ceq c "-"%char then (true, r) else if ceq c "+"%char then (false, r) else (false, t)
                     | [] => (false, [])
                     end in
    if mem_bytes u [b ".inf"; b ".Inf"; b ".INF"] then Some (Toml.DInf neg)
    else
      let (ip, r1) := span_digits u in
      let '(dot, fp, r2) := match r1 with
                            | c :: r => if ceq c "."%char then let (f, r') := span_digits r in (true, f, r') else (false, [], r1)
                            | [] => (false, [], [])
                            end in
      let mant_ok := match ip, fp with
                     | [], [] => false
                     | [], _ :: _ => dot
                     | _ :: _, _ => true
                     end in
      if negb mant_ok then None
      else
        let ex := match r2 with
                  | [] => Some 0%Z
                  | c :: r =>
                    if ceq c "e"%char || ceq c "E"%char then
                      let '(eneg, ds) := match r with
                                         | d :: r' => if ceq d "-"%char then (true, r') else if ceq d "+"%char then (false, r') else (false, r)
                                         | [] => (false, [])
                                         end in
                      if all_in is_digit ds then
                        let e := Z.of_N (digits_val ds) in Some (if eneg then (- e)%Z else e)
                      else None
                    else None
                  end in
        match ex with
        | Some e => Some (Toml.mk_fin neg (digits_val (ip ++ fp)) (e - Z.of_nat (List.length fp))%Z)
        | None => None
        end.

Definition resolve_plain (t : bytes) : ydoc :=
  if match t with [] => true | _ => false end || mem_bytes t [b "null"; b "Null"; b "NULL"; b "~"] then DNull
  else if mem_bytes t [b "true"; b "True"; b "TRUE"] then DBool true
  else if mem_bytes t [b "false"; b "False"; b "FALSE"] then DBool false
  else match resolve_int t with
       | Some z => DInt z
       | None => match resolve_float t with
                 | Some f => DFloat f
                 | None => DStr t
                 end
       end.

(* ---- literal block scalars (8.1) ---- *)

Inductive chomp := Strip | Clip | Keep.

(* c-b-block-header: indentation indicator and chomping indicator in either order, then nothing or a comment *)
Definition lit_header (t : bytes) : option (option nat * chomp) :=
  let dig (c : ascii) : option nat :=
      let n := code c in if (49 <=? n)%N && (n <=? 57)%N then Some (N.to_nat (n - 48)) else None in
  let chm (c : ascii) : option chomp :=
      if ceq c "-"%char then Some Strip else if ceq c "+"%char then Some Keep else None in
  let fin (r : bytes) (x : option nat * chomp) := if tail_ok r then Some x else None in
  match t with
  | [] => Some (None, Clip)
  | c :: r =>
    match dig c, chm c with
    | Some d, _ =>
      match r with
      | c2 :: r2 => match chm c2 with Some ch => fin r2 (Some d, ch) | None => fin r (Some d, Clip) end
      | [] => Some (Some d, Clip)
      end
    | None, Some ch =>
      match r with
      | c2 :: r2 => match dig c2 with Some d => fin r2 (Some d, ch) | None => fin r (None, ch) end
      | [] => Some (None, ch)
      end
    | None, None => fin t (None, Clip)
    end
  end.

Definition all_text_ok (t : bytes) : bool := forallb text_byte_ok t.

(* the lines of the scalar: at least [ci] spaces, or nothing but spaces; the rest *)
Fixpoint lit_lines (ci : nat) (ls : list line) : list bytes * list line :=
  match ls with
  | [] => ([], [])
  | (ind, t) :: r =>
    match t with
    | [] => let (x, rest) := lit_lines ci r in (repeat sp (ind - ci) :: x, rest)
    | _ :: _ =>
      if (ci <=? ind)%nat then let (x, rest) := lit_lines ci r in ((repeat sp (ind - ci) ++ t) :: x, rest)
      else ([], ls)
    end
  end.

Fixpoint first_text_indent (ls : list line) : option nat :=
  match ls with
  | [] => None
  | (ind, []) :: r => first_text_indent r
  | (ind, _ :: _) :: _ => Some ind
  end.

Fixpoint drop_trailing_empty (l : list bytes) : list bytes :=
  match l with
  | [] => []
  | x :: r =>
    match drop_trailing_empty r with
    | [] => match x with [] => [] | _ :: _ => [x] end
    | r' => x :: r'
    end
  end.

Fixpoint join_nl (l : list bytes) : bytes :=
  match l with
  | [] => []
  | [x] => x
  | x :: r => x ++ nl :: join_nl r
  end.

Fixpoint each_nl (l : list bytes) : bytes :=
  match l with
  | [] => []
  | x :: r => x ++ nl :: each_nl r
  end.

Definition chomp_text (ch : chomp) (l : list bytes) : bytes :=
  match ch with
  | Keep => each_nl l
  | Strip => join_nl (drop_trailing_empty l)
  | Clip => each_nl (drop_trailing_empty l)
  end.

(* [pind]: the indentation n of the parent node (-1 at the top) *)
Definition scan_literal (pind : Z) (hdr : bytes) (rest : list line) : option (bytes * list line) :=
  match lit_header hdr with
  | None => None
  | Some (ih, ch) =>
    let ci := match ih with
              | Some d => Some (Z.to_nat (pind + Z.of_nat d))
              | None =>
                match first_text_indent rest with
                | Some i => if (pind <? Z.of_nat i)%Z then Some i else None    (* no content *)
                | None => None
                end
              end in
    match ci with
    | None =>
      (* only empty lines (if any) belong to the scalar *)
      let (x, rest') := lit_lines (Z.to_nat (pind + 1)) (firstn (List.length rest - List.length (skip_blank rest)) rest) in
      Some (chomp_text ch (map (fun _ => []) x), skipn (List.length rest - List.length (skip_blank rest)) rest)
    | Some ci =>
      let (x, rest') := lit_lines ci rest in
      if forallb all_text_ok x then Some (chomp_text ch x, rest') else None
    end
  end.

(* a node that is not a block collection: a scalar or an empty flow collection.  [t] is the text of the node up to the
   end of its line, [rest] the following lines. *)
Definition scalar_node (pind : Z) (t : bytes) (rest : list line) : option (ydoc * list line) :=
  match t with
  | [] => None
  | c :: r =>
    if ceq c "|"%char then
      match scan_literal pind r rest with Some (s, rest') => Some (DStr s, rest') | None => None end
    else if ceq c sqt then
      match scan_single r with
      | Some (s, u) => if tail_ok u then Some (DStr s, rest) else None
      | None => None
      end
    else if ceq c dq then
      match scan_double r with
      | Some (s, u) => if tail_ok u then Some (DStr s, rest) else None
      | None => None
      end
    else if ceq c "["%char then
      match skip_wsp r with
      | d :: u => if ceq d "]"%char && tail_ok u then Some (DSeq [], rest) else None
      | [] => None
      end
    else if ceq c "{"%char then
      match skip_wsp r with
      | d :: u => if ceq d "}"%char && tail_ok u then Some (DMap [], rest) else None
      | [] => None
      end
    else if plain_first_ok t then
      match scan_plain false t with
      | Some (x, u) =>
        match u with
        | [] => Some (resolve_plain (rtrim x), rest)
        | d :: _ => if ceq d "#"%char then Some (resolve_plain (rtrim x), rest) else None
        end
      | None => None
      end
    else None
  end.

(* an implicit key on one line: the key node and the text after the `:` *)
Definition scan_key (t : bytes) : option (ydoc * bytes) :=
  let after (k : ydoc) (u : bytes) : option (ydoc * bytes) :=
      match skip_wsp u with
      | c :: r =>
        if ceq c ":"%char && match r with d :: _ => is_wsp d | [] => true end then Some (k, r) else None
      | [] => None
      end in
  match t with
  | [] => None
  | c :: r =>
    if ceq c sqt then
      match scan_single r with Some (s, u) => after (DStr s) u | None => None end
    else if ceq c dq then
      match scan_double r with Some (s, u) => after (DStr s) u | None => None end
    else if plain_first_ok t then
      match scan_plain false t with
      | Some (x, d :: u) => if ceq d ":"%char then Some (resolve_plain (rtrim x), u) else None
      | _ => None
      end
    else None
  end.

Definition is_seq_entry (t : bytes) : bool :=
  match entry_of "-"%char t with Some _ => true | None => false end.

Definition key_in (k : ydoc) (l : list (ydoc * ydoc)) : bool := existsb (fun kv => doc_eqb k (fst kv)) l.

Section BlockLoops.
  (* the node starting in the middle of a line: parent indentation, column, text, following lines *)
  Variable inl : Z -> nat -> bytes -> list line -> option (ydoc * list line).
  (* the node on the following lines: parent indentation, least indentation of a sequence, lines *)
  Variable blk : Z -> nat -> list line -> option (ydoc * list line).

  (* the content after a `-`, `?` or `:` indicator at column [col] *)
  Definition after_indicator (col : nat) (k : nat) (u : bytes) (rest : list line) : option (ydoc * list line) :=
    if blank_text u then blk (Z.of_nat col) (S col) rest
    else inl (Z.of_nat col) (col + k) u rest.

  (* l+block-sequence: the entries at indentation [col] *)
  Fixpoint seq_items (n : nat) (col : nat) (ls : list line) : option (list ydoc * list line) :=
    match n with
    | O => None
    | S n' =>
      match skip_blank ls with
      | [] => Some ([], [])
      | (ind, t) :: rest =>
        if (ind <? col)%nat then Some ([], (ind, t) :: rest)
        else if negb (ind =? col)%nat then None
        else
          match entry_of "-"%char t with
          | None => Some ([], (ind, t) :: rest)
          | Some (k, u) =>
            match after_indicator col k u rest with
            | None => None
            | Some (x, rest') =>
              match seq_items n' col rest' with
              | Some (xs, rest'') => Some (x :: xs, rest'')
              | None => None
              end
            end
          end
      end
    end.

  (* l+block-mapping: the entries at indentation [col] *)
  Fixpoint map_entries (n : nat) (col : nat) (ls : list line) : option (list (ydoc * ydoc) * list line) :=
    match n with
    | O => None
    | S n' =>
      match skip_blank ls with
      | [] => Some ([], [])
      | (ind, t) :: rest =>
        if (ind <? col)%nat then Some ([], (ind, t) :: rest)
        else if negb (ind =? col)%nat then None
        else
          let continue (k v : ydoc) (rest' : list line) :=
              match map_entries n' col rest' with
              | Some (kvs, rest'') => if key_in k kvs then None else Some ((k, v) :: kvs, rest'')
              | None => None
              end in
          match entry_of "?"%char t with
          | Some (kq, u) =>
            (* c-l-block-map-explicit-entry *)
            match after_indicator col kq u rest with
            | None => None
            | Some (k, rest1) =>
              match skip_blank rest1 with
              | (ind2, t2) :: rest2 =>
                match (if (ind2 =? col)%nat then entry_of ":"%char t2 else None) with
                | Some (kc, u2) =>
                  match after_indicator col kc u2 rest2 with
                  | Some (v, rest3) => continue k v rest3
                  | None => None
                  end
                | None => continue k DNull rest1
                end
              | [] => continue k DNull rest1
              end
            end
          | None =>
            (* ns-l-block-map-implicit-entry *)
            match scan_key t with
            | None => None
            | Some (k, u) =>
              if blank_text u then
                match blk (Z.of_nat col) col rest with
                | Some (v, rest') => continue k v rest'
                | None => None
                end
              else
                match scalar_node (Z.of_nat col) (skip_wsp u) rest with
                | Some (v, rest') => continue k v rest'
                | None => None
                end
            end
          end
      end
    end.
End BlockLoops.

(* s-l+block-node on the lines after its parent's indicator: [pind] = n, a sequence may start at [seqmin],
   anything else at n + 1; no such line: the node is empty (null) *)
Definition block_of (inl : Z -> nat -> bytes -> list line -> option (ydoc * list line))
           (pind : Z) (seqmin : nat) (ls : list line) : option (ydoc * list line) :=
  match skip_blank ls with
  | [] => Some (DNull, [])
  | (ind, t) :: rest =>
    if (pind <? Z.of_nat ind)%Z || ((seqmin <=? ind)%nat && is_seq_entry t) then inl pind ind t rest
    else Some (DNull, (ind, t) :: rest)
  end.

Fixpoint inline_node (fuel : nat) (pind : Z) (col : nat) (t : bytes) (rest : list line) : option (ydoc * list line) :=
  match fuel with
  | O => None
  | S f =>
    let inl := inline_node f in
    let blk := block_of inl in
    let n := S (S (List.length rest)) in
    if is_seq_entry t then
      match seq_items inl blk n col ((col, t) :: rest) with
      | Some (xs, rest') => Some (DSeq xs, rest')
      | None => None
      end
    else
      match entry_of "?"%char t, scan_key t with
      | None, None => scalar_node pind t rest
      | _, _ =>
        match map_entries inl blk n col ((col, t) :: rest) with
        | Some (kvs, rest') => Some (DMap kvs, rest')
        | None => None
        end
      end
  end.

Definition doc_marker (m : bytes) (t : bytes) : bool :=
  match strip_prefix m t with
  | Some r => tail_ok r
  | None => false
  end.

(* a line that is a document marker: `---` or `...` at column 0 followed by white space or the end of the line *)
Definition is_marker_line (l : line) : bool :=
  match l with
  | (O, t) =>
    match strip_prefix (b "---") t, strip_prefix (b "...") t with
    | Some r, _ | None, Some r => match r with [] => true | c :: _ => is_wsp c end
    | None, None => false
    end
  | _ => false
  end.

(* the lines up to the first document marker, and the lines from it on *)
Fixpoint cut_marker (ls : list line) : list line * list line :=
  match ls with
  | [] => ([], [])
  | l :: r =>
    if is_marker_line l then ([], ls)
    else let (body, tail) := cut_marker r in (l :: body, tail)
  end.

(* l-yaml-stream restricted to one document: comments, an optional `---` line, the node, then nothing, or a `...`
   line followed by nothing but comments.  (Conservative: a marker line inside a block scalar at column 0 also ends the
   document; `--- text` on one line is not supported.) *)
Definition yaml_parse (s : bytes) : option ydoc :=
  let ls := map measure (split_lines s) in
  let ls1 := match skip_blank ls with
             | (O, t) :: r => if doc_marker (b "---") t then r else skip_blank ls
             | l => l
             end in
  let (body, tail) := cut_marker ls1 in
  match block_of (inline_node (S (List.length s))) (-1)%Z 0 body with
  | None => None
  | Some (d, rest) =>
    match skip_blank rest with
    | _ :: _ => None
    | [] =>
      match tail with
      | [] => Some d
      | (_, t) :: r =>
        if doc_marker (b "...") t then match skip_blank r with [] => Some d | _ :: _ => None end
        else None
      end
    end
  end.

(* ================================================================== *)
(* The specification                                                   *)

(* what must be read back; None: the value has no YAML counterpart (the converter must fail) *)
Fixpoint spec_data (v : val) : option ydoc :=
  match v with
  | VEmpty => Some DNull
  | VConstraint => None
  | VBool x => Some (DBool x)
  | VInt z => Some (DInt z)
  | VFloat f => option_map DFloat (Toml.spec_float f)
  | VStr s => Some (DStr s)
  | VList l =>
    option_map DSeq
      ((fix go (l : list val) : option (list ydoc) :=
          match l with
          | [] => Some []
          | x :: xs =>
            match spec_data x, go xs with
            | Some a, Some r => Some (a :: r)
            | _, _ => None
            end
          end) l)
  | VTuple fs =>
    (* a repeated field name: one entry, at the place of the first, with the value of the last *)
    option_map (fun kvs => DMap (map (fun kv => (DStr (fst kv), snd kv)) (ymap_of kvs)))
      ((fix go (l : list (bytes * val)) : option (list (bytes * ydoc)) :=
          match l with
          | [] => Some []
          | (k, x) :: r =>
            match spec_data x, go r with
            | Some a, Some r' => Some ((k, a) :: r')
            | _, _ => None
            end
          end) fs)
  | VEnv fs => Some (DMap (map (fun kv => (DStr (fst kv), snd kv)) (ymap_of (map (fun kv => (fst kv, DStr (snd kv))) fs))))
  end.

(* does the text read back as the data?  (used by the driver) *)
Definition yaml_rt_ok (v : val) (out : bytes) : bool :=
  match yaml_parse out, spec_data v with
  | Some d, Some sd => doc_eqb d sd
  | _, _ => false
  end.
