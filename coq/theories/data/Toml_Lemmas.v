(* C03, TOML part: the theorems about the model of ucg's TOML output (Toml.v), collected.
   Proofs are in Toml_Str.v (strings, keys), Toml_Num.v (integers, floats), Toml_Err.v (errors),
   Toml_Sem.v / Toml_Val.v / Toml_Out.v / Toml_Lex.v / Toml_Doc.v (document round trip). *)
From Ucg Require Import base.Bytes base.Bytes_Lemmas data.Val data.Json data.MapJson data.MapJson_Lemmas data.Toml.
From Ucg Require Export data.Toml_Str data.Toml_Num data.Toml_Err data.Toml_Sem data.Toml_Val data.Toml_Out data.Toml_Lex data.Toml_Doc.
Local Open Scope list_scope.

(* ------------------------------------------------------------------ *)
(* Tokens                                                              *)

(* every byte string: the string token written for it is read back as the same bytes *)
Theorem toml_string_roundtrip : forall s rest,
  follow_ok rest = true -> parse_string (emit_value_str s ++ rest) = Some (s, rest).
Proof. exact Toml_Str.toml_string_roundtrip. Qed.

(* every key: bare when it can be, basic-quoted otherwise, read back as the same bytes *)
Theorem toml_key_roundtrip : forall k rest,
  key_follow_ok rest -> parse_key (escape_key k ++ rest) = Some (k, rest).
Proof. exact Toml_Str.toml_key_roundtrip. Qed.

(* every i64 *)
Theorem toml_int_roundtrip : forall z rest,
  in_i64 z = true -> tok_follow_ok rest -> parse_scalar (dec_of_Z z ++ rest) = Some (DInt z, rest).
Proof. exact Toml_Num.toml_int_roundtrip. Qed.

(* every finite float, given by Rust's Display text: a FLOAT token denoting the same decimal *)
Theorem toml_float_text : forall t neg i fd rest,
  rust_float_parts t = Some (neg, i, fd) -> tok_follow_ok rest ->
  let d := mk_fin neg (digits_val (i ++ fd)) (- Z.of_nat (List.length fd))%Z in
  parse_scalar (float_text (TFin t) ++ rest) = Some (DFloat d, rest) /\ spec_float (FFin t) = Some d.
Proof. exact Toml_Num.toml_float_text. Qed.

(* ... where normalisation keeps the number: m * 10^e = m' * 10^e' *)
Theorem toml_float_value : forall m e m' e',
  norm_dec m e = (m', e') -> m <> 0%N ->
  exists k : nat, e' = (e + Z.of_nat k)%Z /\ m = (m' * 10 ^ N.of_nat k)%N.
Proof. exact Toml_Num.norm_dec_value. Qed.

(* ------------------------------------------------------------------ *)
(* Errors                                                              *)

Theorem to_toml_error_iff : forall v,
  (exists e, toml_output v = TErr e) <-> unrepresentable_toml v = true.
Proof.
  intros v. rewrite <- Toml_Err.to_toml_error_iff. unfold is_terr.
  destruct (toml_output v) as [o|e]; split; try discriminate; eauto. intros [e H]. discriminate.
Qed.

(* ------------------------------------------------------------------ *)
(* Documents                                                           *)

Theorem toml_doc_roundtrip : forall v t out,
  val_wf v = true -> to_toml v = TOk t -> good t = true -> toml_emit t = TOk out ->
  exists d, toml_parse out = Some d /\ spec_data v = Some (doc_canon d).
Proof. exact Toml_Doc.toml_doc_roundtrip. Qed.

(* ------------------------------------------------------------------ *)
(* Examples (non-vacuity)                                              *)

Definition t_of (s : string) : bytes := b s.

Definition ex_plain : val :=
  VTuple [(b "name", VStr (b "alice")); (b "x y", VFloat (FFin (b "1.5")));
          (b "n", VTuple [(b "p", VInt 8080); (b "q", VTuple [])]);
          (b "l", VList [VInt 1; VInt 2; VList [VStr (b "a'b")]]); (b "e", VList []);
          (b "aot", VList [VTuple [(b "x", VInt 1)];
                           VTuple [(b "x", VInt 2); (b "sub", VTuple [(b "y", VFloat (FFin (b "100")))])]]);
          (b "s", VStr (b "it's")); (b "m", VStr (b "a" ++ [nl] ++ b "b"))].

Example ex_plain_text :
  toml_output ex_plain =
  TOk (b "e = []" ++ [nl] ++ b "l = [" ++ [nl] ++ b "    1," ++ [nl] ++ b "    2," ++ [nl] ++ b "    ['''a'b''']," ++ [nl] ++ b "]" ++ [nl]
       ++ b "m = '''" ++ [nl] ++ b "a" ++ [nl] ++ b "b'''" ++ [nl] ++ b "name = 'alice'" ++ [nl] ++ b "s = '''it's'''" ++ [nl]
       ++ b """x y"" = 1.5" ++ [nl] ++ [nl] ++ b "[[aot]]" ++ [nl] ++ b "x = 1" ++ [nl] ++ [nl] ++ b "[[aot]]" ++ [nl] ++ b "x = 2" ++ [nl]
       ++ [nl] ++ b "[aot.sub]" ++ [nl] ++ b "y = 100.0" ++ [nl] ++ [nl] ++ b "[n]" ++ [nl] ++ b "p = 8080" ++ [nl] ++ [nl] ++ b "[n.q]" ++ [nl]).
Proof. vm_compute. reflexivity. Qed.

Example ex_plain_reads_back :
  match toml_output ex_plain with TOk o => toml_rt_ok ex_plain o | TErr _ => false end = true.
Proof. vm_compute. reflexivity. Qed.

Example ex_plain_good :
  val_wf ex_plain = true /\ match to_toml ex_plain with TOk t => good t | TErr _ => false end = true.
Proof. split; vm_compute; reflexivity. Qed.

(* strings that need each of the four representations *)
Example ex_strings :
  emit_value_str (b "plain") = b "'plain'" /\
  emit_value_str (b "it's") = b "'''it's'''" /\
  emit_value_str (b "a" ++ [nl] ++ b "b") = b "'''" ++ [nl] ++ b "a" ++ [nl] ++ b "b'''" /\
  emit_value_str (b "ends'") = b """ends'""" /\
  emit_value_str (b "''' inside") = b """''' inside""" /\
  emit_value_str (b "bell" ++ [ascii_of_N 7]) = b """bell\u0007""" /\
  emit_value_str (b "x'" ++ [nl]) = b "'''" ++ [nl] ++ b "x'" ++ [nl] ++ b "'''" /\
  emit_value_str (b "q""" ++ [nl; ascii_of_N 127]) = b """""""" ++ [nl] ++ b "q\""" ++ [nl] ++ b "\u007F""""""" /\
  emit_value_str [] = b "''".
Proof. repeat split; vm_compute; reflexivity. Qed.

Example ex_keys :
  escape_key (b "bare-key_1") = b "bare-key_1" /\ escape_key (b "a.b") = b """a.b""" /\
  escape_key [] = b """""" /\ escape_key (b "k" ++ [nl]) = b """k\n""".
Proof. repeat split; vm_compute; reflexivity. Qed.

Example ex_numbers :
  float_text (TFin (b "-0")) = b "-0.0" /\ float_text (TFin (b "100")) = b "100.0" /\
  float_text (TFin (b "0.1")) = b "0.1" /\ float_text (TNan true) = b "-nan" /\ float_text (TInf true) = b "-inf" /\
  classify_tok (b "-9223372036854775808") = Some (DInt (-9223372036854775808)) /\
  classify_tok (b "9223372036854775808") = None /\
  classify_tok (b "1979-05-27") = Some (DDate (b "1979-05-27")) /\
  classify_tok (b "1_000") = Some (DInt 1000) /\ classify_tok (b "0x1F") = Some (DInt 31) /\
  classify_tok (b "1e3") = Some (DFloat (DFin false 1 3)) /\ classify_tok (b "100.0") = Some (DFloat (DFin false 1 2)) /\
  classify_tok (b "01") = None /\ classify_tok (b "1.") = None.
Proof. repeat split; vm_compute; reflexivity. Qed.

(* a date-like STRING is written quoted and therefore read back as a string, not as a date *)
Example ex_date_string :
  toml_output (VTuple [(b "d", VStr (b "1979-05-27"))]) = TOk (b "d = '1979-05-27'" ++ [nl]) /\
  toml_parse (b "d = '1979-05-27'" ++ [nl]) = Some (DTab [(b "d", DStr (b "1979-05-27"))]) /\
  toml_parse (b "d = 1979-05-27" ++ [nl]) = Some (DTab [(b "d", DDate (b "1979-05-27"))]).
Proof. repeat split; vm_compute; reflexivity. Qed.

(* the reader on documents the writer never produces *)
Example ex_reader :
  toml_parse (b "# c" ++ [nl] ++ b "a.b = 1" ++ [nl]) = None /\                                    (* dotted key in a pair: not supported *)
  toml_parse (b "a = 1" ++ [nl] ++ b "a = 2" ++ [nl]) = None /\                                    (* duplicate key *)
  toml_parse (b "[a]" ++ [nl] ++ b "[a]" ++ [nl]) = None /\                                        (* table defined twice *)
  toml_parse (b "[a.b]" ++ [nl] ++ b "[a]" ++ [nl] ++ b "x = 1" ++ [nl])
    = Some (DTab [(b "a", DTab [(b "b", DTab []); (b "x", DInt 1)])]) /\                           (* implied table defined later *)
  toml_parse (b "a = [1, 2]" ++ [nl] ++ b "[[a]]" ++ [nl]) = None /\                               (* static array vs [[a]] *)
  toml_parse (b "t = { x = 1, y = ""s"" } # c" ++ [nl])
    = Some (DTab [(b "t", DTab [(b "x", DInt 1); (b "y", DStr (b "s"))])]) /\                       (* inline table, comment *)
  toml_parse (b "s = ""aé\tb""" ++ [nl])
    = Some (DTab [(b "s", DStr (b "a" ++ [ascii_of_N 195; ascii_of_N 169; tab] ++ b "b"))]) /\     (* escapes *)
  toml_parse (b "a = [ 1, # one" ++ [nl] ++ b "  2 ]" ++ [nl]) = Some (DTab [(b "a", DArr [DInt 1; DInt 2])]).
Proof. repeat split; vm_compute; reflexivity. Qed.

(* errors: every branch *)
Example ex_errors :
  toml_output (VTuple [(b "a", VEmpty)]) = TErr ENull /\
  toml_output (VTuple [(b "a", VInt 1); (b "a", VEmpty)]) = TErr ENull /\           (* a shadowed duplicate is still converted *)
  toml_output (VTuple [(b "a", VList [VConstraint])]) = TErr EConstraint /\
  toml_output (VList []) = TErr ENotTable /\ toml_output (VInt 5) = TErr ENotTable /\
  toml_output (VList [VEmpty]) = TErr ENull /\                                        (* conversion errors come first *)
  toml_output (VTuple [(b "a", VList [VTuple [(b "x", VInt 1)]]); (b "c", VList [VInt 1; VTuple [(b "b", VInt 2)]])])
    = TErr EValueAfterTable.
Proof. repeat split; vm_compute; reflexivity. Qed.

(* duplicate keys: the first binding wins, in the converter and in the specification *)
Example ex_first_wins :
  toml_output (VTuple [(b "a", VInt 1); (b "b", VInt 2); (b "a", VInt 3)]) = TOk (b "a = 1" ++ [nl] ++ b "b = 2" ++ [nl]) /\
  spec_data (VTuple [(b "a", VInt 1); (b "b", VInt 2); (b "a", VInt 3)]) = Some (DTab [(b "a", DInt 1); (b "b", DInt 2)]).
Proof. split; vm_compute; reflexivity. Qed.

(* ------------------------------------------------------------------ *)
(* The known defect class C03-toml-mixed-array, as the model has it    *)

(* {a = [1, {b = 2}]}: the property says "a list mixing tables and non-tables is a conversion
   error".  It is not: the converter answers Ok, and the text is not TOML at all. *)
Definition ex_mixed : val := VTuple [(b "a", VList [VInt 1; VTuple [(b "b", VInt 2)]])].

Lemma toml_mixed_array_refuted :
  unrepresentable_toml ex_mixed = false /\
  toml_output ex_mixed
  = TOk (b "a = [" ++ [nl] ++ b "    1" ++ [nl] ++ b "[[a]]" ++ [nl] ++ b "b = 2" ++ [nl] ++ b "," ++ [nl] ++ b "]" ++ [nl]) /\
  (forall o, toml_output ex_mixed = TOk o -> toml_parse o = None) /\
  match to_toml ex_mixed with TOk t => good t | TErr _ => true end = false.
Proof.
  split; [vm_compute; reflexivity|]. split; [vm_compute; reflexivity|]. split; [|vm_compute; reflexivity].
  intros o H. vm_compute in H. inversion H. vm_compute. reflexivity.
Qed.

(* worse: a table nested in a list inside a list of tables is written as VALID TOML that denotes
   different data -- {a = [{b = 1}, [{c = 2}]]} reads back as a = [{b = 1}, {c = 2}] *)
Definition ex_altered : val :=
  VTuple [(b "a", VList [VTuple [(b "b", VInt 1)]; VList [VTuple [(b "c", VInt 2)]]])].

Lemma toml_nested_table_array_alters :
  unrepresentable_toml ex_altered = false /\
  toml_output ex_altered = TOk (b "[[a]]" ++ [nl] ++ b "b = 1" ++ [nl] ++ b "[[a]]" ++ [nl] ++ b "c = 2" ++ [nl]) /\
  (forall o, toml_output ex_altered = TOk o ->
     toml_parse o = Some (DTab [(b "a", DArr [DTab [(b "b", DInt 1)]; DTab [(b "c", DInt 2)]])])) /\
  spec_data ex_altered = Some (DTab [(b "a", DArr [DTab [(b "b", DInt 1)]; DArr [DTab [(b "c", DInt 2)]]])]).
Proof.
  split; [vm_compute; reflexivity|]. split; [vm_compute; reflexivity|]. split; [|vm_compute; reflexivity].
  intros o H. vm_compute in H. inversion H. vm_compute. reflexivity.
Qed.

(* ... and the same class can also be an error, depending on sibling keys (ValueAfterTable) *)
Lemma toml_mixed_array_sometimes_error :
  toml_output (VTuple [(b "a", VList [VTuple [(b "x", VInt 1)]]); (b "c", VList [VInt 1; VTuple [(b "b", VInt 2)]])])
  = TErr EValueAfterTable /\
  toml_output (VTuple [(b "a", VList [VList [VTuple []]]); (b "z", VInt 1)]) = TErr EValueAfterTable.
Proof. split; vm_compute; reflexivity. Qed.
