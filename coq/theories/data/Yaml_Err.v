(* Proofs about the YAML model: exactly which values are conversion errors.
   - to_yaml fails exactly on a constraint value anywhere inside lists / tuple fields (yaml.rs has no other Err arm
     that can be reached: serde_yaml::to_value of an f64 / i64 cannot fail);
   - yaml_emit never fails (serde_yaml / libyaml report no error for the events of a Value built by the converter);
   - spec_data is defined exactly for the values that are not errors (finite floats must carry a well formed text). *)
From Ucg Require Import base.Bytes base.Bytes_Lemmas data.Val data.Json data.MapJson data.MapJson_Lemmas data.Yaml.
From Ucg Require data.Toml.
Local Open Scope list_scope.

Ltac fin4 := split; split; intros H; try discriminate; try (destruct H; discriminate); eauto.

(* a constraint value somewhere *)
Fixpoint unrepresentable_yaml (v : val) : bool :=
  match v with
  | VConstraint => true
  | VList l =>
    (fix go (l : list val) : bool :=
       match l with [] => false | x :: xs => unrepresentable_yaml x || go xs end) l
  | VTuple fs =>
    (fix go (l : list (bytes * val)) : bool :=
       match l with [] => false | (_, x) :: r => unrepresentable_yaml x || go r end) fs
  | _ => false
  end.

Theorem to_yaml_error_iff : forall v,
  (to_yaml v = YErr YEConstraint <-> unrepresentable_yaml v = true)
  /\ ((exists y, to_yaml v = YOk y) <-> unrepresentable_yaml v = false).
Proof.
  induction v as [|x|z|f|s|l IH|fs IH|fs|] using val_ind';
    try (cbn; split; split; intros H; try discriminate; try (destruct H; discriminate); eauto; fail).
  - (* VList *)
    cbn [to_yaml unrepresentable_yaml].
    set (go := fix go (l : list val) : yres (list yval) :=
                 match l with
                 | [] => YOk []
                 | x :: xs =>
                   match to_yaml x with
                   | YErr e => YErr e
                   | YOk y => match go xs with YErr e => YErr e | YOk ys => YOk (y :: ys) end
                   end
                 end).
    set (un := fix go (l : list val) : bool :=
                 match l with [] => false | x :: xs => unrepresentable_yaml x || go xs end).
    assert (H : (go l = YErr YEConstraint <-> un l = true) /\ ((exists ys, go l = YOk ys) <-> un l = false)).
    { induction IH as [|x xs Hx _ IHxs]; cbn [go un].
      - fin4.
      - destruct Hx as [Hx1 Hx2]. destruct IHxs as [I1 I2].
        destruct (to_yaml x) as [y|[]] eqn:Ex.
        + assert (Ux : unrepresentable_yaml x = false) by (apply Hx2; eauto).
          rewrite Ux. cbn [orb].
          destruct (go xs) as [ys|[]] eqn:Eg.
          * assert (U : un xs = false) by (apply I2; eauto). rewrite U.
            fin4.
          * assert (U : un xs = true) by (apply I1; reflexivity). rewrite U.
            fin4.
        + assert (Ux : unrepresentable_yaml x = true) by (apply Hx1; reflexivity).
          rewrite Ux. cbn [orb].
          fin4. }
    destruct H as [H1 H2]. destruct (go l) as [ys|[]] eqn:Eg.
    + assert (U : un l = false) by (apply H2; eauto). rewrite U.
      fin4.
    + assert (U : un l = true) by (apply H1; reflexivity). rewrite U.
      fin4.
  - (* VTuple *)
    cbn [to_yaml unrepresentable_yaml].
    set (go := fix go (l : list (bytes * val)) : yres (list (bytes * yval)) :=
                 match l with
                 | [] => YOk []
                 | (k, x) :: r =>
                   match to_yaml x with
                   | YErr e => YErr e
                   | YOk y => match go r with YErr e => YErr e | YOk ys => YOk ((k, y) :: ys) end
                   end
                 end).
    set (un := fix go (l : list (bytes * val)) : bool :=
                 match l with [] => false | (_, x) :: r => unrepresentable_yaml x || go r end).
    assert (H : (go fs = YErr YEConstraint <-> un fs = true) /\ ((exists ys, go fs = YOk ys) <-> un fs = false)).
    { induction IH as [|[k x] xs Hx _ IHxs]; cbn [go un].
      - fin4.
      - cbn [snd] in Hx. destruct Hx as [Hx1 Hx2]. destruct IHxs as [I1 I2].
        destruct (to_yaml x) as [y|[]] eqn:Ex.
        + assert (Ux : unrepresentable_yaml x = false) by (apply Hx2; eauto).
          rewrite Ux. cbn [orb].
          destruct (go xs) as [ys|[]] eqn:Eg.
          * assert (U : un xs = false) by (apply I2; eauto). rewrite U.
            fin4.
          * assert (U : un xs = true) by (apply I1; reflexivity). rewrite U.
            fin4.
        + assert (Ux : unrepresentable_yaml x = true) by (apply Hx1; reflexivity).
          rewrite Ux. cbn [orb].
          fin4. }
    destruct H as [H1 H2]. destruct (go fs) as [ys|[]] eqn:Eg.
    + assert (U : un fs = false) by (apply H2; eauto). rewrite U.
      fin4.
    + assert (U : un fs = true) by (apply H1; reflexivity). rewrite U.
      fin4.
Qed.

(* the serializer and the emitter cannot fail *)
Theorem yaml_emit_total : forall y, exists out, yaml_emit y = YOk out.
Proof.
  intros y. unfold yaml_emit.
  destruct (emit_node y false None est0) as [o st].
  destruct (write_indent 0 st) as [o2 st2]. eauto.
Qed.

(* the whole converter: an error exactly for the unrepresentable values, and then the only kind there is *)
Theorem yaml_output_error_iff : forall v,
  (yaml_output v = YErr YEConstraint <-> unrepresentable_yaml v = true)
  /\ ((exists out, yaml_output v = YOk out) <-> unrepresentable_yaml v = false).
Proof.
  intros v. destruct (to_yaml_error_iff v) as [H1 H2]. unfold yaml_output.
  destruct (to_yaml v) as [y|[]] eqn:E.
  - destruct (yaml_emit_total y) as [out Eo]. rewrite Eo.
    assert (U : unrepresentable_yaml v = false) by (apply H2; eauto). rewrite U.
    fin4.
  - assert (U : unrepresentable_yaml v = true) by (apply H1; reflexivity). rewrite U.
    fin4.
Qed.

(* every finite float of the value carries a text of the shape Rust's `{}` prints *)
Fixpoint floats_wf (v : val) : bool :=
  match v with
  | VFloat f => match Toml.spec_float f with Some _ => true | None => false end
  | VList l =>
    (fix go (l : list val) : bool :=
       match l with [] => true | x :: xs => floats_wf x && go xs end) l
  | VTuple fs =>
    (fix go (l : list (bytes * val)) : bool :=
       match l with [] => true | (_, x) :: r => floats_wf x && go r end) fs
  | _ => true
  end.

(* the specification is defined exactly where the converter succeeds *)
Theorem spec_data_defined_iff : forall v, floats_wf v = true ->
  ((exists d, spec_data v = Some d) <-> unrepresentable_yaml v = false).
Proof.
  induction v as [|x|z|f|s|l IH|fs IH|fs|] using val_ind'; intros Hw;
    try (cbn; split; intros H; try discriminate; try (destruct H; discriminate); eauto; fail).
  - (* VFloat *)
    cbn in *. destruct (Toml.spec_float f); [|discriminate]. cbn. split; eauto.
  - cbn [spec_data unrepresentable_yaml floats_wf] in *.
    set (go := fix go (l : list val) : option (list ydoc) :=
                 match l with
                 | [] => Some []
                 | x :: xs => match spec_data x, go xs with Some a, Some r => Some (a :: r) | _, _ => None end
                 end).
    set (un := fix go (l : list val) : bool :=
                 match l with [] => false | x :: xs => unrepresentable_yaml x || go xs end).
    set (wf := fix go (l : list val) : bool :=
                 match l with [] => true | x :: xs => floats_wf x && go xs end) in Hw.
    assert (H : (exists ds, go l = Some ds) <-> un l = false).
    { induction IH as [|x xs Hx _ IHxs]; cbn [go un wf] in *.
      - split; eauto.
      - apply andb_true_iff in Hw as [Hw1 Hw2]. specialize (Hx Hw1). specialize (IHxs Hw2).
        destruct (spec_data x) as [a|] eqn:Ea.
        + assert (Ux : unrepresentable_yaml x = false) by (apply Hx; eauto). rewrite Ux. cbn [orb].
          destruct (go xs) as [r|] eqn:Er.
          * assert (U : un xs = false) by (apply IHxs; eauto). rewrite U. split; eauto.
          * split; intros H; [destruct H; discriminate|]. apply IHxs in H. destruct H; discriminate.
        + split; intros H; [destruct H; discriminate|].
          apply orb_false_iff in H as [H _]. apply Hx in H. destruct H; discriminate. }
    destruct (go l) as [ds|] eqn:Eg; cbn [option_map].
    + split; intros _; [apply H; eauto|eauto].
    + split; intros H0; [destruct H0; discriminate|]. apply H in H0. destruct H0; discriminate.
  - cbn [spec_data unrepresentable_yaml floats_wf] in *.
    set (go := fix go (l : list (bytes * val)) : option (list (bytes * ydoc)) :=
                 match l with
                 | [] => Some []
                 | (k, x) :: r => match spec_data x, go r with Some a, Some r' => Some ((k, a) :: r') | _, _ => None end
                 end).
    set (un := fix go (l : list (bytes * val)) : bool :=
                 match l with [] => false | (_, x) :: r => unrepresentable_yaml x || go r end).
    set (wf := fix go (l : list (bytes * val)) : bool :=
                 match l with [] => true | (_, x) :: r => floats_wf x && go r end) in Hw.
    assert (H : (exists ds, go fs = Some ds) <-> un fs = false).
    { induction IH as [|[k x] xs Hx _ IHxs]; cbn [go un wf] in *.
      - split; eauto.
      - cbn [snd] in Hx. apply andb_true_iff in Hw as [Hw1 Hw2]. specialize (Hx Hw1). specialize (IHxs Hw2).
        destruct (spec_data x) as [a|] eqn:Ea.
        + assert (Ux : unrepresentable_yaml x = false) by (apply Hx; eauto). rewrite Ux. cbn [orb].
          destruct (go xs) as [r|] eqn:Er.
          * assert (U : un xs = false) by (apply IHxs; eauto). rewrite U. split; eauto.
          * split; intros H; [destruct H; discriminate|]. apply IHxs in H. destruct H; discriminate.
        + split; intros H; [destruct H; discriminate|].
          apply orb_false_iff in H as [H _]. apply Hx in H. destruct H; discriminate. }
    destruct (go fs) as [ds|] eqn:Eg; cbn [option_map].
    + split; intros _; [apply H; eauto|eauto].
    + split; intros H0; [destruct H0; discriminate|]. apply H in H0. destruct H0; discriminate.
Qed.
