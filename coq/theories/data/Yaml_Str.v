(* Proofs about the YAML model: strings and keys (ASCII strings without a line feed; every byte < 0x80 is allowed,
   control characters included).
   - double-quoted: what write_double writes reads back as the string (every escape);
   - single-quoted: what write_single writes for a text without break characters reads back as the string;
   - plain: when the analysis allows the plain style, the reader takes the whole text as one plain scalar;
   - yaml_string_roundtrip_ascii: whatever style is chosen, the scalar reads back as the same string, provided that in
     the plain case the core schema resolves the text as a string (the refutation R2 shows that this cannot be dropped);
   - identifiers (a letter or `_` first, then letters, digits, `.`, `+`, `-`, `_`; not one of the words null/true/false
     in their three spellings) are written plain and resolved as strings: yaml_ident_roundtrip. *)
From Ucg Require Import base.Bytes base.Bytes_Lemmas data.Val data.Json data.Json_Lemmas data.MapJson data.MapJson_Lemmas data.Yaml data.Yaml_Scalar.
From Ucg Require data.Toml.
Local Open Scope list_scope.

Definition is_ascii (c : ascii) : bool := (code c <? 128)%N.
Definition ascii_str (s : bytes) : bool := forallb is_ascii s.

Lemma ascii_facts c : is_ascii c = true -> lead_width c = 1 /\ lead_bits c = code c.
Proof. destruct c as [[] [] [] [] [] [] [] []]; vm_compute; intros H; try discriminate H; split; reflexivity. Qed.

Lemma chars_f_ascii_str t : forall fuel,
  ascii_str t = true -> (List.length t <= fuel)%nat -> chars_f fuel t = achars t.
Proof.
  induction t as [|c r IH]; intros fuel Ht Hf.
  - destruct fuel; reflexivity.
  - unfold ascii_str in Ht. cbn [forallb] in Ht. apply andb_true_iff in Ht as [Hc Hr].
    destruct fuel as [|f]; [cbn in Hf; lia|].
    destruct (ascii_facts c Hc) as (Hw & Hb).
    cbn [chars_f achars map]. rewrite Hw. cbn [Nat.pred firstn skipn].
    unfold cp_of. cbn [fold_left]. rewrite Hb. f_equal.
    apply IH; [exact Hr|cbn in Hf; lia].
Qed.

Lemma chars_ascii t : ascii_str t = true -> chars t = achars t.
Proof. intros H. unfold chars. apply chars_f_ascii_str; [exact H|lia]. Qed.

(* ------------------------------------------------------------------ *)
(* double-quoted                                                       *)

Lemma scan_double_char c r x t :
  is_ascii c = true -> scan_double r = Some (x, t) ->
  scan_double ((if dq_must_escape (code c) then dq_escape (code c) else [c]) ++ r) = Some (c :: x, t).
Proof.
  intros Hc Hr.
  destruct c as [[] [] [] [] [] [] [] []]; try discriminate Hc; cbn; rewrite Hr; reflexivity.
Qed.

Theorem scan_double_body s t :
  ascii_str s = true -> scan_double (double_body (achars s) ++ dq :: t) = Some (s, t).
Proof.
  induction s as [|c r IH]; intros Hs.
  - reflexivity.
  - unfold ascii_str in Hs. cbn [forallb] in Hs. apply andb_true_iff in Hs as [Hc Hr].
    cbn [achars map double_body u_cp u_raw]. rewrite <- app_assoc.
    apply scan_double_char; [exact Hc|]. apply IH. exact Hr.
Qed.

(* the text write_double produces *)
Lemma write_double_text s st :
  fst (write_double s st) = (if e_ws st then [] else [sp]) ++ dq :: double_body (chars s) ++ [dq].
Proof.
  unfold write_double, write_indicator. cbn [fst e_ws e_col e_ind andb app List.length].
  destruct (e_ws st); cbn [negb andb app]; rewrite ?app_nil_r; reflexivity.
Qed.

Theorem double_quoted_reads_back pind s rest :
  ascii_str s = true ->
  scalar_node pind (dq :: double_body (chars s) ++ [dq]) rest = Some (DStr s, rest).
Proof.
  intros Hs. unfold scalar_node.
  replace (ceq dq "|"%char) with false by reflexivity.
  replace (ceq dq sqt) with false by reflexivity.
  replace (ceq dq dq) with true by reflexivity.
  rewrite (chars_ascii _ Hs). rewrite (scan_double_body s [] Hs). reflexivity.
Qed.

(* as a key: `"...": value` *)
Theorem double_quoted_key_reads_back s u :
  ascii_str s = true ->
  scan_key (dq :: double_body (chars s) ++ dq :: ":"%char :: sp :: u) = Some (DStr s, sp :: u).
Proof.
  intros Hs. unfold scan_key.
  replace (ceq dq sqt) with false by reflexivity.
  replace (ceq dq dq) with true by reflexivity.
  rewrite (chars_ascii _ Hs). rewrite (scan_double_body s (":"%char :: sp :: u) Hs). reflexivity.
Qed.

(* ------------------------------------------------------------------ *)
(* single-quoted                                                       *)

Definition sq_body (s : bytes) : bytes := flat_map (fun c => if ceq c sqt then [sqt; sqt] else [c]) s.

Definition no_breaks (s : bytes) : bool := forallb (fun c => negb (is_break_cp (code c))) s.

Lemma single_loop_ascii i s : forall st,
  no_breaks s = true ->
  exists st', single_loop i false (achars s) st = (sq_body s, st', false).
Proof.
  induction s as [|c r IH]; intros st Hs.
  - eexists. reflexivity.
  - unfold no_breaks in Hs. cbn [forallb] in Hs. apply andb_true_iff in Hs as [Hc Hr].
    apply negb_true_iff in Hc.
    cbn [achars map single_loop u_cp u_raw]. rewrite Hc.
    change (map (fun c0 : ascii => mk_uc (code c0) [c0]) r) with (achars r).
    destruct (code c =? 32)%N eqn:E32.
    + destruct (IH (mk_est (S (e_col st)) (e_ws st) (e_ind st)) Hr) as [st' E]. rewrite E.
      eexists. cbn [sq_body flat_map].
      assert (Hq : ceq c sqt = false).
      { apply N.eqb_eq in E32. destruct (ceq c sqt) eqn:Eq; [|reflexivity].
        apply Ascii.eqb_eq in Eq. subst c. discriminate E32. }
      rewrite Hq. reflexivity.
    + assert (Hq : (code c =? 39)%N = ceq c sqt).
      { destruct c as [[] [] [] [] [] [] [] []]; reflexivity. }
      destruct (IH (mk_est (e_col st + List.length (if (code c =? 39)%N then [sqt] else []) + 1) (e_ws st) false) Hr) as [st' E].
      rewrite E. eexists. cbn [sq_body flat_map app]. rewrite Hq.
      destruct (ceq c sqt) eqn:Eq; cbn [app].
      * apply Ascii.eqb_eq in Eq. subst c. reflexivity.
      * reflexivity.
Qed.

Lemma write_single_text i s st :
  ascii_str s = true -> no_breaks s = true ->
  fst (write_single i s st) = (if e_ws st then [] else [sp]) ++ sqt :: sq_body s ++ [sqt].
Proof.
  intros Ha Hb. unfold write_single. rewrite (chars_ascii _ Ha).
  unfold write_indicator at 1. cbn [e_ws e_col e_ind andb List.length app].
  match goal with |- context [single_loop i false (achars s) ?st0] =>
    destruct (single_loop_ascii i s st0 Hb) as [st' E]; rewrite E end.
  unfold write_indicator. cbn [fst e_ws e_col e_ind andb app List.length].
  destruct (e_ws st); cbn [negb andb app]; rewrite ?app_nil_r; reflexivity.
Qed.

Definition all_text (s : bytes) : bool := forallb text_byte_ok s.

Lemma scan_single_body s t :
  all_text s = true -> match t with c :: _ => ceq c sqt = false | [] => True end ->
  scan_single (sq_body s ++ sqt :: t) = Some (s, t).
Proof.
  intros Hs Ht. induction s as [|c r IH].
  - cbn [sq_body flat_map app scan_single]. replace (ceq sqt sqt) with true by reflexivity.
    destruct t as [|d t']; [reflexivity|]. rewrite Ht. reflexivity.
  - unfold all_text in Hs. cbn [forallb] in Hs. apply andb_true_iff in Hs as [Hc Hr].
    cbn [sq_body flat_map]. fold (sq_body r).
    destruct (ceq c sqt) eqn:Eq.
    + apply Ascii.eqb_eq in Eq. subst c. cbn [app scan_single].
      replace (ceq sqt sqt) with true by reflexivity. rewrite (IH Hr). reflexivity.
    + cbn [app scan_single]. rewrite Eq, Hc, (IH Hr). reflexivity.
Qed.

Theorem single_quoted_reads_back pind s rest :
  all_text s = true ->
  scalar_node pind (sqt :: sq_body s ++ [sqt]) rest = Some (DStr s, rest).
Proof.
  intros Hs. unfold scalar_node.
  replace (ceq sqt "|"%char) with false by reflexivity.
  replace (ceq sqt sqt) with true by reflexivity.
  rewrite (scan_single_body s [] Hs I). reflexivity.
Qed.

Theorem single_quoted_key_reads_back s u :
  all_text s = true ->
  scan_key (sqt :: sq_body s ++ sqt :: ":"%char :: sp :: u) = Some (DStr s, sp :: u).
Proof.
  intros Hs. unfold scan_key.
  replace (ceq sqt sqt) with true by reflexivity.
  rewrite (scan_single_body s (":"%char :: sp :: u) Hs eq_refl). reflexivity.
Qed.
