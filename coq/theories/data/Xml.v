(* C12 — the XML output converter (src/convert/xml.rs) and the xml-rs 0.8.28
   EventWriter it drives, plus an independent XML 1.0 reader.
   MODEL FILE: executable definitions only; proofs are in Xml_Lemmas.v.

   Conventions: text is [bytes] (UTF-8 as Rust holds it).  [None]/[XErr] = the
   converter returns Err.  Bytes written before an error are not modelled. *)
From Ucg Require Import base.Bytes data.Val.

(* ------------------------------------------------------------------ *)
(* 1. What the DSL describes: trees                                    *)

Inductive xnode :=
| XElem (name : bytes)
        (ns : list (bytes * bytes))      (* namespace declarations (prefix, uri); prefix [] = default *)
        (attrs : list (bytes * bytes))   (* ordered attributes (name, value) *)
        (kids : list xnode)
| XText (s : bytes).

Inductive xver := V10 | V11.
Record xdecl := mkdecl { x_ver : xver; x_enc : bytes; x_sa : option bool }.
(* [x_body]: top-level content.  A well-formed document has exactly one element there. *)
Record xdoc := mkdoc { x_decl : option xdecl; x_body : list xnode }.

(* the events ucg hands to EventWriter::write *)
Inductive xevent :=
| EStartDoc (v : xver) (enc : option bytes) (sa : option bool)
| EStart (name : bytes) (attrs : list (bytes * bytes)) (ns : option (bytes * bytes))
| EEnd
| EChars (s : bytes).

(* ------------------------------------------------------------------ *)
(* 2. xml.rs: write / write_node                                       *)

Inductive xerr :=
| ENotString      (* "Not a String value"   (get_str_val)   *)
| ENotTuple       (* "Not a tuple value"    (get_tuple_val) *)
| ENotList        (* "Not a List value"     (get_list_val)  *)
| EBothNameText   (* "XML nodes can not have both text and name fields" *)
| ENodeKind       (* "XML nodes must be a Tuple or a string" *)
| EBadVersion     (* "XML version must be either 1.0 or 1.1" *)
| ENoRoot         (* "XML doc tuples must have a root field" *)
| ENotDocTuple    (* "XML outputs must be a Tuple" *)
| ERootNotElement (* "XML doc root must be an element (a tuple with a name)" *)
| EBadChar.       (* "XML text and attribute values can not contain control characters" (get_xml_chars) *)

Inductive xres (A : Type) := XOk (a : A) | XErr (e : xerr).
Arguments XOk {A} a.
Arguments XErr {A} e.

Definition xbind {A B} (r : xres A) (f : A -> xres B) : xres B :=
  match r with XOk a => f a | XErr e => XErr e end.

Definition is_empty (v : val) : bool := match v with VEmpty => true | _ => false end.
Definition nonempty (s : bytes) : bool := match s with [] => false | _ => true end.

Definition get_str (v : val) : xres bytes :=
  match v with VStr s => XOk s | _ => XErr ENotString end.

(* get_xml_chars: every char is TAB | LF | CR | U+0020..U+D7FF | U+E000..U+FFFD | U+10000..U+10FFFF.
   On the UTF-8 bytes of a Rust str: no byte below 0x20 other than 09 0A 0D, and no
   EF BF BE / EF BF BF (U+FFFE / U+FFFF; surrogates cannot occur in a str).
   The second condition is a three-state scan. *)
Inductive ncst := N0 | N1 | N2.     (* seen nothing / seen EF / seen EF BF *)
Definition c_ef : ascii := ascii_of_nat 239.
Definition c_bf : ascii := ascii_of_nat 191.
Definition c_be : ascii := ascii_of_nat 190.
Definition nc_step (st : ncst) (c : ascii) : option ncst :=
  if Ascii.eqb c c_ef then Some N1
  else match st with
       | N0 => Some N0
       | N1 => if Ascii.eqb c c_bf then Some N2 else Some N0
       | N2 => if Ascii.eqb c c_be || Ascii.eqb c c_bf then None else Some N0
       end.
Fixpoint nc_run (st : ncst) (s : bytes) : option ncst :=
  match s with
  | [] => Some st
  | c :: r => match nc_step st c with Some st' => nc_run st' r | None => None end
  end.
Definition no_nonchar (s : bytes) : bool := match nc_run N0 s with Some _ => true | None => false end.
Definition c0_ok (c : ascii) : bool :=
  (32 <=? code c)%N || Ascii.eqb c tab || Ascii.eqb c nl || Ascii.eqb c cr.
Definition xml_chars_ok (s : bytes) : bool := forallb c0_ok s && no_nonchar s.
Definition get_xml_chars (s : bytes) : xres bytes := if xml_chars_ok s then XOk s else XErr EBadChar.

(* the loop over the fields of an `ns` tuple: NULL values skipped, then `uri`, then `prefix` *)
Fixpoint ns_scan (fs : list (bytes * val)) (prefix uri : bytes) : xres (bytes * bytes) :=
  match fs with
  | [] => XOk (prefix, uri)
  | (k, v) :: fs' =>
    if is_empty v then ns_scan fs' prefix uri
    else if bytes_eqb k (b "uri") then xbind (get_str v) (fun s => ns_scan fs' prefix s)
    else if bytes_eqb k (b "prefix") then xbind (get_str v) (fun s => ns_scan fs' s uri)
    else ns_scan fs' prefix uri
  end.

(* first error in order, else the concatenation (the `?` inside the children loop) *)
Fixpoint xconcat {A} (l : list (xres (list A))) : xres (list A) :=
  match l with
  | [] => XOk []
  | r :: l' => xbind r (fun a => xbind (xconcat l') (fun rest => XOk (a ++ rest)))
  end.

(* the attribute loop: NULL skipped, other non-strings are errors, then get_xml_chars *)
Fixpoint attr_list (fs : list (bytes * val)) : xres (list (bytes * bytes)) :=
  match fs with
  | [] => XOk []
  | (k, v) :: fs' =>
    if is_empty v then attr_list fs'
    else xbind (get_str v) (fun s0 => xbind (get_xml_chars s0) (fun s =>
         xbind (attr_list fs') (fun rest => XOk ((k, s) :: rest))))
  end.

Section Node.
  (* [rec] = write_node itself, used for the elements of a `children` list.  The scan keeps the
     results for the children rather than the children (structural recursion); the result of
     write_node is the same because it is a pure function of the child. *)
  Variable rec : val -> xres (list xevent).

  Record nstate := mkn {
    s_name : option bytes;
    s_attrs : option (list (bytes * val));
    s_kids : option (list (xres (list xevent)));
    s_text : option bytes;
    s_ns : option (bytes * bytes) }.

  Definition nstate0 := mkn None None None None None.

  (* one iteration of `for (field, val) in fs.iter()`; a field has one name, so at most one
     of the five `if`s fires *)
  Definition step_field (st : nstate) (k : bytes) (v : val) : xres nstate :=
    if bytes_eqb k (b "name") then
      xbind (get_str v) (fun s => XOk (mkn (Some s) (s_attrs st) (s_kids st) (s_text st) (s_ns st)))
    else if bytes_eqb k (b "ns") then
      match v with
      | VTuple nfs =>
        xbind (ns_scan nfs [] []) (fun pu =>
          if nonempty (snd pu) && nonempty (fst pu)
          then XOk (mkn (s_name st) (s_attrs st) (s_kids st) (s_text st) (Some pu))
          else XOk st)
      | VStr s => XOk (mkn (s_name st) (s_attrs st) (s_kids st) (s_text st) (Some ([], s)))
      | _ => XOk st
      end
    else if bytes_eqb k (b "attrs") then
      if is_empty v then XOk st
      else match v with
           | VTuple afs => XOk (mkn (s_name st) (Some afs) (s_kids st) (s_text st) (s_ns st))
           | _ => XErr ENotTuple
           end
    else if bytes_eqb k (b "children") then
      if is_empty v then XOk st
      else match v with
           | VList l => XOk (mkn (s_name st) (s_attrs st) (Some (map rec l)) (s_text st) (s_ns st))
           | _ => XErr ENotList
           end
    else if bytes_eqb k (b "text") then
      if is_empty v then XOk st
      else xbind (get_str v) (fun s => XOk (mkn (s_name st) (s_attrs st) (s_kids st) (Some s) (s_ns st)))
    else XOk st.

  Fixpoint scan (fs : list (bytes * val)) (st : nstate) : xres nstate :=
    match fs with
    | [] => XOk st
    | (k, v) :: fs' => xbind (step_field st k v) (scan fs')
    end.

  (* what happens after the loop *)
  Definition finish (st : nstate) : xres (list xevent) :=
    match s_name st, s_text st with
    | Some _, Some _ => XErr EBothNameText
    | Some name, None =>
      xbind (match s_attrs st with Some afs => attr_list afs | None => XOk [] end) (fun al =>
      xbind (match s_kids st with Some rs => xconcat rs | None => XOk [] end) (fun kevs =>
      XOk (EStart name al (s_ns st) :: kevs ++ [EEnd])))
    | None, Some t => xbind (get_xml_chars t) (fun t' => XOk [EChars t'])
    | None, None => XOk []
    end.

  Definition write_tuple (fs : list (bytes * val)) : xres (list xevent) :=
    xbind (scan fs nstate0) finish.
End Node.

Fixpoint write_node (v : val) : xres (list xevent) :=
  match v with
  | VTuple fs => write_tuple write_node fs
  | VStr s => xbind (get_xml_chars s) (fun s' => XOk [EChars s'])
  | _ => XErr ENodeKind
  end.

Record dstate := mkd {
  d_version : option bytes; d_encoding : option bytes;
  d_standalone : option bool; d_root : option val }.

Definition dstep (st : dstate) (k : bytes) (v : val) : xres dstate :=
  if bytes_eqb k (b "version") then
    xbind (get_str v) (fun s => XOk (mkd (Some s) (d_encoding st) (d_standalone st) (d_root st)))
  else if bytes_eqb k (b "encoding") then
    xbind (get_str v) (fun s => XOk (mkd (d_version st) (Some s) (d_standalone st) (d_root st)))
  else if bytes_eqb k (b "standalone") then
    XOk (mkd (d_version st) (d_encoding st) (match v with VBool x => Some x | _ => None end) (d_root st))
  else if bytes_eqb k (b "root") then
    XOk (mkd (d_version st) (d_encoding st) (d_standalone st) (Some v))
  else XOk st.

Fixpoint dscan (fs : list (bytes * val)) (st : dstate) : xres dstate :=
  match fs with
  | [] => XOk st
  | (k, v) :: fs' => xbind (dstep st k v) (dscan fs')
  end.

Definition version_of (s : option bytes) : xres xver :=
  match s with
  | None => XOk V10
  | Some t => if bytes_eqb t (b "1.0") then XOk V10
              else if bytes_eqb t (b "1.1") then XOk V11 else XErr EBadVersion
  end.

(* the root must be a tuple with some field called `name` (whatever its value) *)
Definition root_is_element (v : val) : bool :=
  match v with
  | VTuple fs => existsb (fun kv => bytes_eqb (fst kv) (b "name")) fs
  | _ => false
  end.

Definition to_xml_r (d : val) : xres (list xevent) :=
  match d with
  | VTuple fs =>
    xbind (dscan fs (mkd None None None None)) (fun st =>
    match d_root st with
    | None => XErr ENoRoot
    | Some n =>
      xbind (version_of (d_version st)) (fun ver =>
      if negb (root_is_element n) then XErr ERootNotElement else
      xbind (write_node n) (fun evs =>
      XOk (EStartDoc ver (d_encoding st) (d_standalone st) :: evs)))
    end)
  | _ => XErr ENotDocTuple
  end.

Definition to_xml (d : val) : option (list xevent) :=
  match to_xml_r d with XOk e => Some e | XErr _ => None end.

(* ------------------------------------------------------------------ *)
(* 3. xml-rs 0.8.28 EventWriter with perform_indent(true),             *)
(*    normalize_empty_elements(false), everything else default         *)

Definition lt_c : ascii := "<"%char.
Definition gt_c : ascii := ">"%char.
Definition amp_c : ascii := "&"%char.
Definition dq_c : ascii := """"%char.
Definition sq_c : ascii := "'"%char.

(* escape.rs: PcDataEscapes *)
Definition esc_pc_byte (c : ascii) : bytes :=
  if Ascii.eqb c lt_c then b "&lt;"
  else if Ascii.eqb c gt_c then b "&gt;"
  else if Ascii.eqb c amp_c then b "&amp;"
  else [c].
(* escape.rs: AttributeEscapes *)
Definition esc_at_byte (c : ascii) : bytes :=
  if Ascii.eqb c lt_c then b "&lt;"
  else if Ascii.eqb c gt_c then b "&gt;"
  else if Ascii.eqb c dq_c then b "&quot;"
  else if Ascii.eqb c sq_c then b "&apos;"
  else if Ascii.eqb c amp_c then b "&amp;"
  else if Ascii.eqb c nl then b "&#xA;"
  else if Ascii.eqb c cr then b "&#xD;"
  else [c].

Definition esc_pcdata (s : bytes) : bytes := flat_map esc_pc_byte s.
Definition esc_attr (s : bytes) : bytes := flat_map esc_at_byte s.

Inductive iflag := WNothing | WMarkup | WText.
Definition iflag_eqb (x y : iflag) : bool :=
  match x, y with WNothing, WNothing | WMarkup, WMarkup | WText, WText => true | _, _ => false end.

Record est := mkest {
  e_started : bool;                         (* start_document_emitted *)
  e_level : nat;                            (* indent_level *)
  e_flags : list iflag;                     (* indent_stack, top first *)
  e_names : list bytes;                     (* element_names, top first *)
  e_nst : list (option (bytes * bytes)) }.  (* namespace stack, top first; a level holds what ucg put: at most one binding *)

Definition est0 := mkest false 0 [WNothing] [] [].

Definition top_is (f : iflag) (st : est) : bool :=
  match e_flags st with x :: _ => iflag_eqb x f | [] => false end.
Definition set_top (f : iflag) (st : est) : est :=
  mkest (e_started st) (e_level st)
        (match e_flags st with _ :: r => f :: r | [] => [] end) (e_names st) (e_nst st).

Fixpoint indent (n : nat) : bytes := match n with O => [] | S k => sp :: sp :: indent k end.
Definition newline (lvl : nat) : bytes := nl :: indent lvl.

Definition before_markup (st : est) : bytes * est :=
  if negb (top_is WText st) && ((0 <? e_level st) || top_is WMarkup st)
  then (newline (e_level st), if 0 <? e_level st then set_top WMarkup st else st)
  else ([], st).

Definition ver_text (v : xver) : bytes := match v with V10 => b "1.0" | V11 => b "1.1" end.
Definition default_enc : bytes := b "UTF-8".

Definition decl_bytes (v : xver) (enc : bytes) (sa : option bool) : bytes :=
  b "<?xml version=""" ++ ver_text v ++ b """ encoding=""" ++ enc ++ b """" ++
  match sa with
  | Some true => b " standalone=""yes"""
  | Some false => b " standalone=""no"""
  | None => []
  end ++ b "?>".

(* emit_start_document *)
Definition emit_decl (st : est) (v : xver) (enc : bytes) (sa : option bool) : bytes * est :=
  let '(pre, st1) := before_markup st in
  (pre ++ decl_bytes v enc sa,
   set_top WMarkup (mkest true (e_level st1) (e_flags st1) (e_names st1) (e_nst st1))).

(* check_document_started *)
Definition ensure_started (st : est) : bytes * est :=
  if e_started st then ([], st) else emit_decl st V10 default_enc None.

Definition opt_pair_eqb (x y : option (bytes * bytes)) : bool :=
  match x, y with
  | Some (p, u), Some (q, w) => bytes_eqb p q && bytes_eqb u w
  | None, None => true
  | _, _ => false
  end.

(* push_empty().checked_target().extend(ns): the binding is recorded only if no level of the
   stack already holds exactly (prefix, uri) *)
Definition ns_kept (nst : list (option (bytes * bytes))) (ns : option (bytes * bytes))
  : option (bytes * bytes) :=
  match ns with
  | None => None
  | Some pu => if existsb (opt_pair_eqb (Some pu)) nst then None else Some pu
  end.

(* emit_current_namespace_attributes; note: the uri is written raw *)
Definition ns_attr (top : option (bytes * bytes)) : bytes :=
  match top with
  | None => []
  | Some (p, u) =>
    if bytes_eqb p (b "xmlns") || bytes_eqb p (b "xml") then []
    else match p with
         | [] => match u with [] => [] | _ => b " xmlns=""" ++ u ++ b """" end
         | _ => b " xmlns:" ++ p ++ b "=""" ++ u ++ b """"
         end
  end.

Definition attr_bytes (a : bytes * bytes) : bytes :=
  sp :: fst a ++ b "=""" ++ esc_attr (snd a) ++ b """".
Definition attrs_bytes (l : list (bytes * bytes)) : bytes := flat_map attr_bytes l.

Definition emit_one (st : est) (e : xevent) : option (bytes * est) :=
  match e with
  | EStartDoc v enc sa =>
    if e_started st then None   (* DocumentStartAlreadyEmitted *)
    else Some (emit_decl st v (match enc with Some x => x | None => default_enc end) sa)
  | EStart name attrs ns =>
    let kept := ns_kept (e_nst st) ns in
    let '(pre, st1) := ensure_started st in
    let '(ind, st2) := before_markup st1 in
    Some (pre ++ ind ++ lt_c :: name ++ ns_attr kept ++ attrs_bytes attrs ++ [gt_c],
          mkest true (S (e_level st2)) (WMarkup :: e_flags st2) (name :: e_names st2)
                (kept :: e_nst st2))
  | EEnd =>
    match e_names st with
    | [] => None   (* LastElementNameNotAvailable *)
    | name :: names =>
      let ind := if (0 <? e_level st) && top_is WMarkup st && negb (top_is WText st)
                 then newline (e_level st - 1) else [] in
      let st1 := if 0 <? e_level st
                 then mkest (e_started st) (e_level st - 1) (tl (e_flags st)) names (tl (e_nst st))
                 else mkest (e_started st) (e_level st) (e_flags st) names (tl (e_nst st)) in
      Some (ind ++ lt_c :: "/"%char :: name ++ [gt_c], set_top WMarkup st1)
    end
  | EChars s =>
    let '(pre, st1) := ensure_started st in
    Some (pre ++ esc_pcdata s, set_top WText st1)
  end.

Fixpoint emit_all (st : est) (evs : list xevent) : option bytes :=
  match evs with
  | [] => Some []
  | e :: r =>
    match emit_one st e with
    | None => None
    | Some (o, st') => match emit_all st' r with None => None | Some o' => Some (o ++ o') end
    end
  end.

Definition xml_emit_r (evs : list xevent) : option bytes := emit_all est0 evs.
Definition xml_emit (evs : list xevent) : bytes :=
  match xml_emit_r evs with Some o => o | None => [] end.

Definition xml_output (d : val) : option bytes := option_map xml_emit (to_xml d).

(* ------------------------------------------------------------------ *)
(* 4. An independent XML 1.0 reader (elements, attributes, character   *)
(*    data, the five predefined entities, character references, the   *)
(*    XML declaration; no DTD / CDATA / PI / comments).               *)

Definition is_ws (c : ascii) : bool :=
  Ascii.eqb c sp || Ascii.eqb c tab || Ascii.eqb c nl || Ascii.eqb c cr.

Definition is_alpha (c : ascii) : bool :=
  let n := code c in ((65 <=? n) && (n <=? 90) || (97 <=? n) && (n <=? 122))%N.
Definition is_digit (c : ascii) : bool := let n := code c in ((48 <=? n) && (n <=? 57))%N.
(* NameStartChar / NameChar on bytes: every byte of a non-ASCII character is accepted (the
   ranges excluded by the spec above U+007F are not checked) *)
Definition is_name_start (c : ascii) : bool :=   (* a non-ASCII name character starts with a UTF-8 lead byte *)
  is_alpha c || Ascii.eqb c "_"%char || Ascii.eqb c ":"%char || (192 <=? code c)%N.
Definition is_name_char (c : ascii) : bool :=
  is_alpha c || Ascii.eqb c "_"%char || Ascii.eqb c ":"%char || (128 <=? code c)%N
  || is_digit c || Ascii.eqb c "-"%char || Ascii.eqb c "."%char.

Fixpoint skip_ws (s : bytes) : bytes :=
  match s with c :: r => if is_ws c then skip_ws r else s | [] => [] end.
Definition starts_ws (s : bytes) : bool := match s with c :: _ => is_ws c | [] => false end.

Fixpoint span_name (s : bytes) : bytes * bytes :=
  match s with
  | c :: r => if is_name_char c then let '(a, z) := span_name r in (c :: a, z) else ([], s)
  | [] => ([], [])
  end.
Definition parse_name (s : bytes) : option (bytes * bytes) :=
  match s with
  | c :: _ => if is_name_start c then Some (span_name s) else None
  | [] => None
  end.

(* 2.11 end-of-line handling: CR LF and lone CR become LF, before anything else *)
Fixpoint norm_eol (s : bytes) : bytes :=
  match s with
  | [] => []
  | c :: r =>
    if Ascii.eqb c cr then
      match r with
      | d :: _ => if Ascii.eqb d nl then norm_eol r else nl :: norm_eol r
      | [] => [nl]
      end
    else c :: norm_eol r
  end.

(* production [2] Char, on code points *)
Definition legal_char (n : N) : bool :=
  ((n =? 9) || (n =? 10) || (n =? 13) || (32 <=? n) && (n <=? 55295)
   || (57344 <=? n) && (n <=? 65533) || (65536 <=? n) && (n <=? 1114111))%N.
(* raw bytes: C0 controls other than TAB LF CR are not Chars; U+FFFE/U+FFFF (EF BF BE / EF BF BF)
   are refused for the whole document by [xml_parse] *)
Definition raw_ok (c : ascii) : bool := c0_ok c.

Definition utf8 (n : N) : bytes :=
  if (n <? 128)%N then [ascii_of_N n]
  else if (n <? 2048)%N then [ascii_of_N (192 + n / 64); ascii_of_N (128 + n mod 64)]
  else if (n <? 65536)%N then
    [ascii_of_N (224 + n / 4096); ascii_of_N (128 + (n / 64) mod 64); ascii_of_N (128 + n mod 64)]
  else
    [ascii_of_N (240 + n / 262144); ascii_of_N (128 + (n / 4096) mod 64);
     ascii_of_N (128 + (n / 64) mod 64); ascii_of_N (128 + n mod 64)].

Definition dec_val (c : ascii) : option N :=
  let n := code c in if (48 <=? n)%N && (n <=? 57)%N then Some (n - 48)%N else None.
Definition hex_val (c : ascii) : option N :=
  let n := code c in
  if (48 <=? n)%N && (n <=? 57)%N then Some (n - 48)%N
  else if (65 <=? n)%N && (n <=? 70)%N then Some (n - 55)%N
  else if (97 <=? n)%N && (n <=? 102)%N then Some (n - 87)%N
  else None.

(* digits up to ';' (at least one); the value is capped so that it stays small *)
Fixpoint read_num (digit : ascii -> option N) (base : N) (s : bytes) (acc : N) (seen : bool)
  : option (N * bytes) :=
  match s with
  | [] => None
  | c :: r =>
    if Ascii.eqb c ";"%char then (if seen then Some (acc, r) else None)
    else match digit c with
         | Some d => read_num digit base r (N.min 1114112 (acc * base + d)) true
         | None => None
         end
  end.

(* [s] is the text after '&'; result: the replacement bytes and the text after ';' *)
Definition parse_ref (s : bytes) : option (bytes * bytes) :=
  match strip_prefix (b "#x") s with
  | Some r => match read_num hex_val 16 r 0 false with
              | Some (n, r') => if legal_char n then Some (utf8 n, r') else None
              | None => None
              end
  | None =>
  match strip_prefix (b "#") s with
  | Some r => match read_num dec_val 10 r 0 false with
              | Some (n, r') => if legal_char n then Some (utf8 n, r') else None
              | None => None
              end
  | None =>
  match strip_prefix (b "lt;") s with Some r => Some ([lt_c], r) | None =>
  match strip_prefix (b "gt;") s with Some r => Some ([gt_c], r) | None =>
  match strip_prefix (b "amp;") s with Some r => Some ([amp_c], r) | None =>
  match strip_prefix (b "apos;") s with Some r => Some ([sq_c], r) | None =>
  match strip_prefix (b "quot;") s with Some r => Some ([dq_c], r) | None => None
  end end end end end end end.

Definition cdata_end (s : bytes) : bool :=
  match strip_prefix (b "]]>") s with Some _ => true | None => false end.

(* character data up to the next '<' (or the end of input) *)
Fixpoint parse_text (fuel : nat) (s : bytes) : option (bytes * bytes) :=
  match fuel with
  | O => None
  | S f =>
    match s with
    | [] => Some ([], [])
    | c :: r =>
      if Ascii.eqb c lt_c then Some ([], s)
      else if Ascii.eqb c amp_c then
        match parse_ref r with
        | Some (x, r') => match parse_text f r' with Some (t, z) => Some (x ++ t, z) | None => None end
        | None => None
        end
      else if cdata_end s then None
      else if raw_ok c then
        match parse_text f r with Some (t, z) => Some (c :: t, z) | None => None end
      else None
    end
  end.

(* attribute value after the opening quote [q]; 3.3.3 normalisation: literal TAB LF CR become
   a space, the replacement text of references is appended as is *)
Fixpoint parse_attval (fuel : nat) (q : ascii) (s : bytes) : option (bytes * bytes) :=
  match fuel with
  | O => None
  | S f =>
    match s with
    | [] => None
    | c :: r =>
      if Ascii.eqb c q then Some ([], r)
      else if Ascii.eqb c lt_c then None
      else if Ascii.eqb c amp_c then
        match parse_ref r with
        | Some (x, r') => match parse_attval f q r' with Some (t, z) => Some (x ++ t, z) | None => None end
        | None => None
        end
      else if Ascii.eqb c tab || Ascii.eqb c nl || Ascii.eqb c cr then
        match parse_attval f q r with Some (t, z) => Some (sp :: t, z) | None => None end
      else if (32 <=? code c)%N then
        match parse_attval f q r with Some (t, z) => Some (c :: t, z) | None => None end
      else None
    end
  end.

Definition is_quote (c : ascii) : bool := Ascii.eqb c dq_c || Ascii.eqb c sq_c.

(* Eq and the opening quote:  S? = S? followed by a double or single quote *)
Definition parse_eq_quote (s : bytes) : option (ascii * bytes) :=
  match skip_ws s with
  | e :: r =>
    if Ascii.eqb e "="%char then
      match skip_ws r with
      | q :: r' => if is_quote q then Some (q, r') else None
      | [] => None
      end
    else None
  | [] => None
  end.

(* (S Attribute)* S?  — stops in front of '>' or '/' *)
Fixpoint parse_attrs (fuel : nat) (s : bytes) : option (list (bytes * bytes) * bytes) :=
  match fuel with
  | O => None
  | S f =>
    let s1 := skip_ws s in
    match s1 with
    | [] => None
    | c :: _ =>
      if Ascii.eqb c gt_c || Ascii.eqb c "/"%char then Some ([], s1)
      else if starts_ws s then
        match parse_name s1 with
        | None => None
        | Some (n, s2) =>
          match parse_eq_quote s2 with
          | None => None
          | Some (q, s3) =>
            match parse_attval f q s3 with
            | None => None
            | Some (v, s4) =>
              match parse_attrs f s4 with
              | None => None
              | Some (rest, s5) => Some ((n, v) :: rest, s5)
              end
            end
          end
        end
      else None
    end
  end.

Fixpoint names_nodup (l : list (bytes * bytes)) : bool :=
  match l with
  | [] => true
  | (n, _) :: r => negb (existsb (fun a => bytes_eqb n (fst a)) r) && names_nodup r
  end.

(* an attribute named xmlns / xmlns:p is a namespace declaration *)
Definition ns_prefix_of (n : bytes) : option bytes :=
  if bytes_eqb n (b "xmlns") then Some [] else strip_prefix (b "xmlns:") n.

Fixpoint split_atts (l : list (bytes * bytes)) : list (bytes * bytes) * list (bytes * bytes) :=
  match l with
  | [] => ([], [])
  | (n, v) :: r =>
    let '(nss, ats) := split_atts r in
    match ns_prefix_of n with
    | Some p => ((p, v) :: nss, ats)
    | None => (nss, (n, v) :: ats)
    end
  end.

Definition mk_elem (name : bytes) (atts : list (bytes * bytes)) (kids : list xnode) : xnode :=
  let '(nss, ats) := split_atts atts in XElem name nss ats kids.

Definition txt_cons (t : bytes) (l : list xnode) : list xnode :=
  match t with [] => l | _ => XText t :: l end.

(* [parse_elem]: [s] is the text after the < of a start tag.
   [parse_content]: content up to and including the "</" of the matching end tag. *)
Fixpoint parse_elem (fuel : nat) (s : bytes) : option (xnode * bytes) :=
  match fuel with
  | O => None
  | S f =>
    match parse_name s with
    | None => None
    | Some (name, s1) =>
      match parse_attrs f s1 with
      | None => None
      | Some (atts, s2) =>
        if negb (names_nodup atts) then None
        else
          match s2 with
          | c :: r =>
            if Ascii.eqb c gt_c then
              match parse_content f r with
              | None => None
              | Some (kids, r1) =>
                match parse_name r1 with
                | None => None
                | Some (n2, r2) =>
                  if bytes_eqb name n2 then
                    match skip_ws r2 with
                    | g :: r3 => if Ascii.eqb g gt_c then Some (mk_elem name atts kids, r3) else None
                    | [] => None
                    end
                  else None
                end
              end
            else (* '/' *)
              match r with
              | g :: r3 => if Ascii.eqb g gt_c then Some (mk_elem name atts [], r3) else None
              | [] => None
              end
          | [] => None
          end
      end
    end
  end
with parse_content (fuel : nat) (s : bytes) : option (list xnode * bytes) :=
  match fuel with
  | O => None
  | S f =>
    match parse_text f s with
    | None => None
    | Some (t, s1) =>
      match s1 with
      | c :: r =>   (* c = '<' *)
        match r with
        | d :: r' =>
          if Ascii.eqb d "/"%char then Some (txt_cons t [], r')
          else
            match parse_elem f r with
            | None => None
            | Some (e, r2) =>
              match parse_content f r2 with
              | None => None
              | Some (ks, r3) => Some (txt_cons t (e :: ks), r3)
              end
            end
        | [] => None
        end
      | [] => None
      end
    end
  end.

(* pseudo-attributes of the XML declaration:  (S Name Eq quoted)* S? "?>" *)
Fixpoint span_until (q : ascii) (s : bytes) : option (bytes * bytes) :=
  match s with
  | [] => None
  | c :: r => if Ascii.eqb c q then Some ([], r)
              else match span_until q r with Some (a, z) => Some (c :: a, z) | None => None end
  end.

Fixpoint parse_pseudos (fuel : nat) (s : bytes) : option (list (bytes * bytes) * bytes) :=
  match fuel with
  | O => None
  | S f =>
    let s1 := skip_ws s in
    match strip_prefix (b "?>") s1 with
    | Some r => Some ([], r)
    | None =>
      if starts_ws s then
        match parse_name s1 with
        | None => None
        | Some (n, s2) =>
          match parse_eq_quote s2 with
          | None => None
          | Some (q, s3) =>
            match span_until q s3 with
            | None => None
            | Some (v, s4) =>
              match parse_pseudos f s4 with
              | None => None
              | Some (rest, s5) => Some ((n, v) :: rest, s5)
              end
            end
          end
        end
      else None
    end
  end.

Definition enc_char (c : ascii) : bool :=
  is_alpha c || is_digit c || Ascii.eqb c "."%char || Ascii.eqb c "_"%char || Ascii.eqb c "-"%char.
(* EncName ::= [A-Za-z] ([A-Za-z0-9._] | '-')* *)
Definition enc_name_ok (e : bytes) : bool :=
  match e with c :: r => is_alpha c && forallb enc_char r | [] => false end.

(* this reader decodes nothing but UTF-8: any other declared encoding is a fatal error *)
Definition lower (c : ascii) : ascii :=
  let n := code c in if ((65 <=? n) && (n <=? 90))%N then ascii_of_N (n + 32) else c.
Definition is_utf8_name (e : bytes) : bool := bytes_eqb (map lower e) (b "utf-8").

Definition ver_of (v : bytes) : option xver :=
  if bytes_eqb v (b "1.0") then Some V10 else if bytes_eqb v (b "1.1") then Some V11 else None.
Definition sa_of (v : bytes) : option bool :=
  if bytes_eqb v (b "yes") then Some true else if bytes_eqb v (b "no") then Some false else None.

(* VersionInfo EncodingDecl? SDDecl? in that order *)
Definition decl_of (l : list (bytes * bytes)) : option xdecl :=
  match l with
  | (k1, v1) :: r1 =>
    if negb (bytes_eqb k1 (b "version")) then None else
    match ver_of v1 with
    | None => None
    | Some ver =>
      match r1 with
      | [] => Some (mkdecl ver default_enc None)
      | (k2, v2) :: r2 =>
        if bytes_eqb k2 (b "encoding") then
          if negb (enc_name_ok v2 && is_utf8_name v2) then None else
          match r2 with
          | [] => Some (mkdecl ver v2 None)
          | (k3, v3) :: r3 =>
            if bytes_eqb k3 (b "standalone") then
              match sa_of v3, r3 with
              | Some sa, [] => Some (mkdecl ver v2 (Some sa))
              | _, _ => None
              end
            else None
          end
        else if bytes_eqb k2 (b "standalone") then
          match sa_of v2, r2 with
          | Some sa, [] => Some (mkdecl ver default_enc (Some sa))
          | _, _ => None
          end
        else None
      end
    end
  | [] => None
  end.

(* document ::= XMLDecl? S* element S* *)
Definition parse_doc (fuel : nat) (s : bytes) : option xdoc :=
  let after_decl :=
    match strip_prefix (b "<?xml") s with
    | Some r =>
      match parse_pseudos fuel r with
      | Some (l, r') => match decl_of l with Some d => Some (Some d, r') | None => None end
      | None => None
      end
    | None => Some (None, s)
    end in
  match after_decl with
  | None => None
  | Some (decl, s1) =>
    match skip_ws s1 with
    | c :: r =>
      if Ascii.eqb c lt_c then
        match parse_elem fuel r with
        | Some (e, r') => match skip_ws r' with [] => Some (mkdoc decl [e]) | _ => None end
        | None => None
        end
      else None
    | [] => None
    end
  end.

(* fuel = input length (+1); a document holding U+FFFE or U+FFFF anywhere is not well-formed *)
Definition xml_parse (s : bytes) : option xdoc :=
  let s' := norm_eol s in
  if no_nonchar s' then parse_doc (S (List.length s')) s' else None.

(* what a reader makes of escaped character data / of an escaped attribute value *)
Definition unescape_text (e : bytes) : option bytes :=
  let s := norm_eol e in
  if no_nonchar s then match parse_text (S (List.length s)) s with Some (t, []) => Some t | _ => None end
  else None.
Definition unescape_attr (e : bytes) : option bytes :=
  let s := norm_eol (e ++ [dq_c]) in
  if no_nonchar s then match parse_attval (S (List.length s)) dq_c s with Some (t, []) => Some t | _ => None end
  else None.

(* ------------------------------------------------------------------ *)
(* 5. Specification side                                               *)

(* last field named [k] / last field named [k] whose value is not NULL *)
Fixpoint field_last (k : bytes) (fs : list (bytes * val)) : option val :=
  match fs with
  | [] => None
  | (k', v) :: fs' =>
    match field_last k fs' with
    | Some w => Some w
    | None => if bytes_eqb k' k then Some v else None
    end
  end.
Fixpoint field_last_nn (k : bytes) (fs : list (bytes * val)) : option val :=
  match fs with
  | [] => None
  | (k', v) :: fs' =>
    match field_last_nn k fs' with
    | Some w => Some w
    | None => if bytes_eqb k' k && negb (is_empty v) then Some v else None
    end
  end.

Definition str_or_empty (o : option val) : bytes := match o with Some (VStr s) => s | _ => [] end.

(* the declaration an `ns` value stands for: a string = default namespace; a tuple = its last
   non-NULL prefix and uri, when both are non-empty; anything else = none *)
Definition ns_of_val (v : val) : option (bytes * bytes) :=
  match v with
  | VStr s => Some ([], s)
  | VTuple nfs =>
    let p := str_or_empty (field_last_nn (b "prefix") nfs) in
    let u := str_or_empty (field_last_nn (b "uri") nfs) in
    if nonempty u && nonempty p then Some (p, u) else None
  | _ => None
  end.
(* the last `ns` field that stands for a declaration *)
Fixpoint ns_spec (fs : list (bytes * val)) : option (bytes * bytes) :=
  match fs with
  | [] => None
  | (k, v) :: fs' =>
    match ns_spec fs' with
    | Some d => Some d
    | None => if bytes_eqb k (b "ns") then ns_of_val v else None
    end
  end.

(* attributes: the non-NULL fields of the last non-NULL `attrs` tuple, in order *)
Fixpoint attrs_of (afs : list (bytes * val)) : list (bytes * bytes) :=
  match afs with
  | [] => []
  | (k, VStr s) :: r => (k, s) :: attrs_of r
  | _ :: r => attrs_of r
  end.
Definition attrs_spec (fs : list (bytes * val)) : list (bytes * bytes) :=
  match field_last_nn (b "attrs") fs with Some (VTuple afs) => attrs_of afs | _ => [] end.

Definition opt_list {A} (o : option A) : list A := match o with Some a => [a] | None => [] end.

Section Spec.
  Variable rec : val -> list xnode.
  (* the nodes of the last non-NULL `children` field *)
  Fixpoint kids_spec (fs : list (bytes * val)) : option (list xnode) :=
    match fs with
    | [] => None
    | (k, v) :: fs' =>
      match kids_spec fs' with
      | Some r => Some r
      | None =>
        if bytes_eqb k (b "children") then
          match v with VEmpty => None | VList l => Some (flat_map rec l) | _ => Some [] end
        else None
      end
    end.
End Spec.

(* the nodes a node value describes: a string or {text=..} is character data; a tuple with a
   name is an element; a tuple with neither describes nothing *)
Fixpoint nodes_of (v : val) : list xnode :=
  match v with
  | VStr s => [XText s]
  | VTuple fs =>
    match field_last (b "name") fs with
    | Some (VStr name) =>
      [XElem name (opt_list (ns_spec fs)) (attrs_spec fs)
             (match kids_spec nodes_of fs with Some l => l | None => [] end)]
    | Some _ => []
    | None =>
      match field_last_nn (b "text") fs with Some (VStr s) => [XText s] | _ => [] end
    end
  | _ => []
  end.

Definition tree_of_doc (d : val) : option xdoc :=
  match d with
  | VTuple fs =>
    match field_last (b "root") fs with
    | None => None
    | Some root =>
      match version_of (match field_last (b "version") fs with Some (VStr s) => Some s | _ => None end) with
      | XErr _ => None
      | XOk ver =>
        if negb (root_is_element root) then None else
        Some (mkdoc (Some (mkdecl ver
                (match field_last (b "encoding") fs with Some (VStr s) => s | _ => default_enc end)
                (match field_last (b "standalone") fs with Some (VBool x) => Some x | _ => None end)))
              (nodes_of root))
      end
    end
  | _ => None
  end.

(* events <-> trees *)
Fixpoint events_of_node (n : xnode) : list xevent :=
  match n with
  | XText s => [EChars s]
  | XElem name ns attrs kids =>
    EStart name attrs (hd_error ns) :: flat_map events_of_node kids ++ [EEnd]
  end.
Definition events_of_tree (d : xdoc) : list xevent :=
  match x_decl d with
  | Some dc => [EStartDoc (x_ver dc) (Some (x_enc dc)) (x_sa dc)]
  | None => []
  end ++ flat_map events_of_node (x_body d).

(* open elements: (name, attrs, ns, reversed elder siblings) *)
Definition frame := (bytes * list (bytes * bytes) * option (bytes * bytes) * list xnode)%type.
Fixpoint toe (evs : list xevent) (stack : list frame) (cur : list xnode) : option (list xnode) :=
  match evs with
  | [] => match stack with [] => Some (rev cur) | _ => None end
  | EStart n a ns :: r => toe r ((n, a, ns, cur) :: stack) []
  | EEnd :: r =>
    match stack with
    | (n, a, ns, up) :: st => toe r st (XElem n (opt_list ns) a (rev cur) :: up)
    | [] => None
    end
  | EChars s :: r => toe r stack (XText s :: cur)
  | EStartDoc _ _ _ :: _ => None
  end.
Definition tree_of_events (evs : list xevent) : option xdoc :=
  match evs with
  | EStartDoc v enc sa :: r =>
    option_map (mkdoc (Some (mkdecl v (match enc with Some e => e | None => default_enc end) sa)))
               (toe r [] [])
  | _ => option_map (mkdoc None) (toe evs [] [])
  end.

(* The tree that is really written: indentation inserted as character data wherever the
   emitter's flag for the enclosing element is not "wrote text", a namespace declaration
   dropped when some enclosing level already recorded the same (prefix, uri) or when its prefix
   is xml/xmlns or it is xmlns="" ; [lvl] = depth, [nst] = recorded declarations, top first. *)
Definition ns_emitted (kept : option (bytes * bytes)) : list (bytes * bytes) :=
  match kept with
  | None => []
  | Some (p, u) =>
    if bytes_eqb p (b "xmlns") || bytes_eqb p (b "xml") then []
    else match p, u with [], [] => [] | _, _ => [(p, u)] end
  end.

(* indentation before a child element / before the end tag of an element at depth [lvl],
   written unless the element's flag says its last write was character data *)
Definition open_ws (flag : iflag) (lvl : nat) : list xnode :=
  match flag with WText => [] | _ => [XText (newline (S lvl))] end.
Definition close_ws (flag : iflag) (lvl : nat) : list xnode :=
  match flag with WText => [] | _ => [XText (newline lvl)] end.

(* the children of an element at depth [lvl]; [wn] = how a child element is written *)
Section WKids.
  Variable wn : xnode -> xnode.
  Variable lvl : nat.
  Fixpoint wkids (flag : iflag) (l : list xnode) : list xnode :=
    match l with
    | [] => close_ws flag lvl
    | XText s :: r => XText s :: wkids WText r
    | e :: r => open_ws flag lvl ++ wn e :: wkids WMarkup r
    end.
End WKids.

Fixpoint written_node (lvl : nat) (nst : list (option (bytes * bytes))) (n : xnode) : xnode :=
  match n with
  | XText s => XText s
  | XElem name ns attrs kids =>
    let kept := ns_kept nst (hd_error ns) in
    XElem name (ns_emitted kept) attrs
          (wkids (written_node (S lvl) (kept :: nst)) lvl WMarkup kids)
  end.

(* adjacent character data is one text node; empty character data is no node *)
Fixpoint merge_text (l : list xnode) : list xnode :=
  match l with
  | [] => []
  | XText s :: r =>
    match merge_text r with
    | XText s' :: r' => XText (s ++ s') :: r'
    | r' => match s with [] => r' | _ => XText s :: r' end
    end
  | e :: r => e :: merge_text r
  end.
Fixpoint norm_node (n : xnode) : xnode :=
  match n with
  | XText s => XText s
  | XElem name ns attrs kids => XElem name ns attrs (merge_text (map norm_node kids))
  end.

Definition as_written (d : xdoc) : xdoc :=
  mkdoc (x_decl d) (map (fun n => norm_node (written_node 0 [] n)) (x_body d)).

(* dropping whitespace-only character data *)
Definition ws_only (s : bytes) : bool := forallb is_ws s.
Fixpoint strip_ws (n : xnode) : xnode :=
  match n with
  | XText s => XText s
  | XElem name ns attrs kids =>
    XElem name ns attrs
      ((fix go (l : list xnode) : list xnode :=
          match l with
          | [] => []
          | XText s :: r => if ws_only s then go r else XText s :: go r
          | e :: r => strip_ws e :: go r
          end) kids)
  end.
Definition strip_ws_doc (d : xdoc) : xdoc := mkdoc (x_decl d) (map strip_ws (x_body d)).

(* string value of a node: its character data in document order *)
Fixpoint text_content (n : xnode) : bytes :=
  match n with XText s => s | XElem _ _ _ kids => flat_map text_content kids end.

(* plain serialisation of a tree (no indentation), used to state what the emitter writes *)
Definition ns_bytes (ns : list (bytes * bytes)) : bytes :=
  flat_map (fun pu => match fst pu with
                      | [] => b " xmlns=""" ++ snd pu ++ b """"
                      | p => b " xmlns:" ++ p ++ b "=""" ++ snd pu ++ b """"
                      end) ns.
Fixpoint plain_node (n : xnode) : bytes :=
  match n with
  | XText s => esc_pcdata s
  | XElem name ns attrs kids =>
    lt_c :: name ++ ns_bytes ns ++ attrs_bytes attrs ++ [gt_c] ++
    flat_map plain_node kids ++ lt_c :: "/"%char :: name ++ [gt_c]
  end.

(* ------------------------------------------------------------------ *)
(* 6. Well-formedness side conditions (executable)                     *)

Definition name_ok (n : bytes) : bool :=
  match n with c :: r => is_name_start c && forallb is_name_char r | [] => false end.
(* characters the writer handles correctly in character data / in attribute values *)
Definition text_char_ok (c : ascii) : bool := (32 <=? code c)%N || Ascii.eqb c tab || Ascii.eqb c nl.
Definition attr_char_ok (c : ascii) : bool := (32 <=? code c)%N || Ascii.eqb c nl || Ascii.eqb c cr.
(* a string that can be put next to any other without creating EF BF BE / EF BF BF: it holds
   none and does not start with a UTF-8 continuation byte (true of every valid UTF-8 string
   without U+FFFE/U+FFFF) *)
Definition is_cont (c : ascii) : bool := ((128 <=? code c) && (code c <? 192))%N.
Definition hnc (s : bytes) : bool := match s with c :: _ => negb (is_cont c) | [] => true end.
Definition good (s : bytes) : bool := hnc s && no_nonchar s.
(* both *)
Definition xml_char_ok (s : bytes) : bool :=
  forallb (fun c => (32 <=? code c)%N || Ascii.eqb c nl) s && no_nonchar s.
(* namespace uris are written raw between double quotes *)
Definition uri_char_ok (c : ascii) : bool :=
  (32 <=? code c)%N && negb (Ascii.eqb c lt_c) && negb (Ascii.eqb c amp_c) && negb (Ascii.eqb c dq_c).
Definition attr_name_ok (n : bytes) : bool :=
  name_ok n && match ns_prefix_of n with Some _ => false | None => true end && good n.
Definition ns_decl_ok (pu : bytes * bytes) : bool :=
  good (fst pu) && good (snd pu) && forallb uri_char_ok (snd pu) &&
  match fst pu with
  | [] => nonempty (snd pu)
  | p => forallb is_name_char p && negb (bytes_eqb p (b "xmlns")) && negb (bytes_eqb p (b "xml"))
  end.

Fixpoint node_wf (nst : list (option (bytes * bytes))) (n : xnode) : bool :=
  match n with
  | XText s => forallb text_char_ok s && good s
  | XElem name ns attrs kids =>
    name_ok name && good name &&
    match ns with
    | [] => true
    | [pu] => ns_decl_ok pu && negb (existsb (opt_pair_eqb (Some pu)) nst)
    | _ => false
    end &&
    forallb (fun a => attr_name_ok (fst a) && forallb attr_char_ok (snd a) && good (snd a)) attrs &&
    names_nodup attrs &&
    forallb (node_wf (hd_error ns :: nst)) kids
  end.

Definition decl_wf (d : option xdecl) : bool :=
  match d with Some dc => enc_name_ok (x_enc dc) && is_utf8_name (x_enc dc) | None => false end.

Definition xml_tree_wf (d : xdoc) : bool :=
  decl_wf (x_decl d) &&
  match x_body d with [XElem _ _ _ _ as e] => node_wf [] e | _ => false end.

(* the same without asking that the body be one element: for trees of accepted documents that
   is a consequence (Xml_Lemmas.to_xml_body_element) *)
Definition doc_tree_wf (d : xdoc) : bool :=
  decl_wf (x_decl d) && forallb (node_wf []) (x_body d).

(* names only: what C12 assumes of a document *)
Fixpoint names_ok (n : xnode) : bool :=
  match n with
  | XText _ => true
  | XElem name ns attrs kids =>
    name_ok name && forallb (fun a => name_ok (fst a)) attrs && forallb names_ok kids
  end.
Definition valid_names (d : val) : bool :=
  match tree_of_doc d with Some t => forallb names_ok (x_body t) | None => true end.
