(* C12 — computed examples, refutation witnesses and Print Assumptions. *)
From Ucg Require Import base.Bytes data.Val data.Xml data.Xml_Lemmas.
Open Scope string_scope.
Open Scope list_scope.

Definition S_ (s : string) : val := VStr (b s).
Definition el (name : string) (more : list (bytes * val)) : val := VTuple ((b "name", S_ name) :: more).
Definition kids (l : list val) : bytes * val := (b "children", VList l).
Definition attrs (l : list (string * val)) : bytes * val :=
  (b "attrs", VTuple (map (fun kv => (b (fst kv), snd kv)) l)).
Definition nsd (p u : string) : bytes * val := (b "ns", VTuple [(b "prefix", S_ p); (b "uri", S_ u)]).
Definition doc (root : val) : val := VTuple [(b "root", root)].
Definition reread (d : val) : option xdoc := match xml_output d with Some o => xml_parse o | None => None end.
Definition out_string (d : val) : option string := option_map string_of_list_ascii (xml_output d).
Definition dflt := Some (mkdecl V10 (b "UTF-8") None).
Definition T (s : string) := XText (b s).
Definition nl1 := String (Ascii.ascii_of_nat 10) EmptyString.

(* the documented example, byte for byte (converters.md; the docs print an extra '/' in a uri) *)
Example ex_docs :
  out_string (doc (VTuple [nsd "myns" "http://example.com"; (b "name", S_ "top"); attrs [("id", S_ "foo")];
     kids [el "child1" [(b "ns", S_ "http://example.org"); attrs [("attr1", S_ "value1"); ("attr2", S_ "value2")];
                        kids [S_ "inner text node";
                              el "myns:grandchild" [kids [VTuple [(b "text", S_ "Another text node")]]]]]]]))
  = Some ("<?xml version=""1.0"" encoding=""UTF-8""?>" ++ nl1 ++
          "<top xmlns:myns=""http://example.com"" id=""foo"">" ++ nl1 ++
          "  <child1 xmlns=""http://example.org"" attr1=""value1"" attr2=""value2"">inner text node<myns:grandchild>Another text node</myns:grandchild>" ++ nl1 ++
          "  </child1>" ++ nl1 ++ "</top>")%string.
Proof. vm_compute. reflexivity. Qed.

(* a plain document reads back as itself plus indentation *)
Example ex_roundtrip :
  reread (doc (el "a" [attrs [("k", S_ "v<>&'""")]; kids [el "b" [kids [S_ "x < y"]]; el "c" []]]))
  = Some (mkdoc dflt [XElem (b "a") [] [(b "k", b "v<>&'""")]
       [XText (newline 1); XElem (b "b") [] [] [T "x < y"];
        XText (newline 1); XElem (b "c") [] [] [XText (newline 1)]; XText (newline 0)]]).
Proof. vm_compute. reflexivity. Qed.

(* ---- findings, each with its witness ---- *)

(* F1: CR in character data is written raw; a reader normalises it to LF *)
Example cr_in_text_refuted :
  reread (doc (el "a" [kids [VStr [ "x"%char; cr; "y"%char ]]]))
  = Some (mkdoc dflt [XElem (b "a") [] [] [XText ["x"%char; nl; "y"%char]]]).
Proof. vm_compute. reflexivity. Qed.

(* F2: TAB in an attribute value is written raw; a reader normalises it to a space *)
Example tab_in_attr_refuted :
  reread (doc (el "a" [attrs [("k", VStr ["x"%char; tab; "y"%char])]; kids [S_ "t"]]))
  = Some (mkdoc dflt [XElem (b "a") [] [(b "k", b "x y")] [T "t"]]).
Proof. vm_compute. reflexivity. Qed.

(* F3 (fixed by 37927c5): C0 controls and U+FFFE/U+FFFF in character data or attribute values
   are now an error (get_xml_chars); before, they were written raw *)
Definition fffe : bytes := [ascii_of_nat 239; ascii_of_nat 191; ascii_of_nat 190].
Example control_chars_rejected :
  to_xml_r (doc (el "a" [kids [VStr [ascii_of_nat 1]]])) = XErr EBadChar /\
  to_xml_r (doc (el "a" [attrs [("k", VStr [ascii_of_nat 8])]])) = XErr EBadChar /\
  to_xml_r (doc (el "a" [kids [VTuple [(b "text", VStr [ascii_of_nat 0])]]])) = XErr EBadChar /\
  to_xml_r (doc (el "a" [kids [VStr (b "x" ++ fffe)]])) = XErr EBadChar /\
  to_xml_r (doc (el "a" [attrs [("k", VStr [ascii_of_nat 239; ascii_of_nat 191; ascii_of_nat 191])]])) = XErr EBadChar /\
  (* DEL, C1, U+FFFD, TAB LF CR are XML characters *)
  to_xml_r (doc (el "a" [kids [VStr [ascii_of_nat 127; ascii_of_nat 194; ascii_of_nat 133; ascii_of_nat 239;
                                      ascii_of_nat 191; ascii_of_nat 189; tab; nl; cr]]])) <> XErr EBadChar.
Proof. vm_compute. repeat split; congruence. Qed.
(* where the check sits: per attribute in order after the type check; after the name+text check;
   never on names, ns uris, encoding; not on text that is never written *)
Example control_chars_order :
  to_xml_r (doc (el "a" [attrs [("j", VInt 1); ("k", VStr [ascii_of_nat 1])]])) = XErr ENotString /\
  to_xml_r (doc (el "a" [attrs [("k", VStr [ascii_of_nat 1]); ("j", VInt 1)]])) = XErr EBadChar /\
  to_xml_r (doc (el "a" [(b "text", VStr [ascii_of_nat 1])])) = XErr EBothNameText /\
  to_xml_r (doc (el "a" [attrs [("k", VStr [ascii_of_nat 1])]; kids [VInt 3]])) = XErr EBadChar /\
  to_xml_r (doc (el "a" [kids [VStr [ascii_of_nat 1]]; (b "children", VInt 3)])) = XErr ENotList /\
  to_xml (doc (el "a" [(b "ns", VStr [ascii_of_nat 1])])) <> None /\
  to_xml (doc (el "a" [kids [VTuple [(b "text", VStr [ascii_of_nat 1]); (b "text", S_ "fine")]]])) <> None.
Proof. vm_compute. repeat split; congruence. Qed.
(* the reader refuses U+FFFE / U+FFFF wherever they stand *)
Example reader_rejects_fffe :
  xml_parse (b "<a>" ++ fffe ++ b "</a>") = None /\
  xml_parse (b "<a k=""" ++ fffe ++ b """/>") = None /\
  xml_parse (b "<a>" ++ [ascii_of_nat 239; ascii_of_nat 191; ascii_of_nat 189] ++ b "</a>") <> None.
Proof. vm_compute. repeat split; congruence. Qed.

(* F4: a namespace uri is written without any escaping *)
Example ns_uri_unescaped_refuted :
  out_string (doc (el "a" [(b "ns", S_ "u""&<")])) =
    Some ("<?xml version=""1.0"" encoding=""UTF-8""?>" ++ nl1 ++ "<a xmlns=""u""&<"">" ++ nl1 ++ "</a>")%string /\
  reread (doc (el "a" [(b "ns", S_ "u""&<")])) = None /\
  reread (doc (el "a" [(b "ns", S_ "x&y")])) = None.
Proof. vm_compute. auto. Qed.

(* F5: a declaration equal to one recorded by ANY enclosing level is dropped, even when an
   intermediate element rebinds the prefix: <c> below is described with p -> u1, written
   without a declaration, and therefore read in scope p -> u2 *)
Example ns_redeclaration_dropped_refuted :
  reread (doc (el "p:a" [nsd "p" "u1"; kids [el "p:b" [nsd "p" "u2"; kids [el "p:c" [nsd "p" "u1"; kids [S_ "t"]]]]]]))
  = Some (mkdoc dflt [XElem (b "p:a") [(b "p", b "u1")] []
      [XText (newline 1); XElem (b "p:b") [(b "p", b "u2")] []
         [XText (newline 2); XElem (b "p:c") [] [] [T "t"]; XText (newline 1)]; XText (newline 0)]]).
Proof. vm_compute. reflexivity. Qed.

(* F6: ns = "" , prefix xml / xmlns: accepted and silently not written *)
Example ns_silently_dropped :
  out_string (doc (el "a" [(b "ns", S_ ""); kids [S_ "t"]])) = out_string (doc (el "a" [kids [S_ "t"]])) /\
  out_string (doc (el "a" [nsd "xml" "u"; kids [S_ "t"]])) = out_string (doc (el "a" [kids [S_ "t"]])) /\
  out_string (doc (el "a" [nsd "xmlns" "u"; kids [S_ "t"]])) = out_string (doc (el "a" [kids [S_ "t"]])).
Proof. vm_compute. auto. Qed.

(* F7 (fixed by 02a5024): the root must be an element value — a tuple with a field called name.
   Before, a string / {text=..} / nameless tuple as root gave a document without root element. *)
Example root_must_be_element :
  to_xml_r (doc (S_ "hello")) = XErr ERootNotElement /\
  to_xml_r (doc (VTuple [(b "text", S_ "hello")])) = XErr ERootNotElement /\
  to_xml_r (doc (VTuple [])) = XErr ERootNotElement /\
  to_xml_r (doc (VTuple [(b "nmae", S_ "typo")])) = XErr ERootNotElement /\
  to_xml_r (doc (VInt 1)) = XErr ERootNotElement /\                      (* no longer ENodeKind *)
  tree_of_doc (doc (S_ "hello")) = None /\
  (* order: version value first, root-not-element before anything inside the root *)
  to_xml_r (VTuple [(b "version", S_ "2.0"); (b "root", S_ "hello")]) = XErr EBadVersion /\
  to_xml_r (VTuple [(b "root", S_ "hello"); (b "root", el "a" [])]) <> XErr ERootNotElement /\
  to_xml_r (VTuple [(b "root", el "a" []); (b "root", S_ "hello")]) = XErr ERootNotElement /\
  (* a name field of any value passes this check and fails later, as before *)
  to_xml_r (doc (VTuple [(b "name", VEmpty)])) = XErr ENotString /\
  to_xml_r (doc (VTuple [(b "name", VInt 3); (b "text", S_ "t")])) = XErr ENotString /\
  (* inside the document nothing changed: nameless tuples and strings are still accepted *)
  out_string (doc (el "a" [kids [VTuple []; S_ "t"; VTuple [(b "nmae", S_ "typo")]]])) =
    Some ("<?xml version=""1.0"" encoding=""UTF-8""?>" ++ nl1 ++ "<a>t</a>")%string.
Proof. vm_compute. repeat split; congruence. Qed.

(* F8: names are not checked (this is why C12 assumes valid names) *)
Example invalid_names_refuted :
  reread (doc (el "a b" [])) = None /\ reread (doc (el "" [])) = None /\
  reread (doc (el "a" [attrs [("1x", S_ "v")]])) = None /\
  valid_names (doc (el "a b" [])) = false.
Proof. vm_compute. auto. Qed.

(* F9: valid names are not enough: an attribute called xmlns[:p] is a namespace declaration to
   a reader, and collides with the element's own declaration *)
Example xmlns_attribute_refuted :
  valid_names (doc (el "a" [attrs [("xmlns", S_ "u")]; kids [S_ "t"]])) = true /\
  reread (doc (el "a" [attrs [("xmlns", S_ "u")]; kids [S_ "t"]]))
    = Some (mkdoc dflt [XElem (b "a") [([], b "u")] [] [T "t"]]) /\
  reread (doc (el "a" [(b "ns", S_ "w"); attrs [("xmlns", S_ "u")]; kids [S_ "t"]])) = None.
Proof. vm_compute. auto. Qed.

(* F10: duplicate attribute names (a tuple value may hold them) are written twice *)
Example duplicate_attr_refuted :
  reread (doc (el "a" [attrs [("k", S_ "1"); ("k", S_ "2")]])) = None.
Proof. vm_compute. reflexivity. Qed.

(* F11: the declared encoding is copied into the declaration, never applied or checked *)
Example encoding_not_applied :
  out_string (VTuple [(b "encoding", S_ "latin1"); (b "root", el "a" [kids [VStr [ascii_of_nat 195; ascii_of_nat 169]]])])
  = Some ("<?xml version=""1.0"" encoding=""latin1""?>" ++ nl1 ++ "<a>" ++
          String (ascii_of_nat 195) (String (ascii_of_nat 169) "</a>"))%string /\
  reread (VTuple [(b "encoding", S_ "a""b"); (b "root", el "a" [])]) = None.
Proof. vm_compute. auto. Qed.

(* F12: indentation changes character data: an empty element gets a line break, mixed content
   gets line breaks and spaces after child elements *)
Example indentation_changes_text_refuted :
  option_map (fun d => map text_content (x_body d)) (reread (doc (el "a" []))) = Some [ [nl] ] /\
  option_map (fun d => map text_content (x_body d))
             (reread (doc (el "a" [kids [S_ "x"; el "b" [kids [S_ "y"]]]]))) = Some [ b "xy" ++ [nl] ] /\
  option_map (fun d => map text_content (x_body d))
             (reread (doc (el "a" [kids [S_ "x"; el "b" [kids [S_ "y"]]; el "c" [kids [S_ "z"]]]])))
    = Some [ b "xy" ++ newline 1 ++ b "z" ++ [nl] ].
Proof. vm_compute. auto. Qed.

(* F13: silently ignored input: ns of another type, ns tuple without uri, standalone not a bool *)
Example silently_ignored :
  out_string (doc (el "a" [(b "ns", VInt 5)])) = out_string (doc (el "a" [])) /\
  out_string (doc (el "a" [(b "ns", VTuple [(b "prefix", S_ "p")])])) = out_string (doc (el "a" [])) /\
  out_string (VTuple [(b "standalone", S_ "yes"); (b "root", el "a" [])]) = out_string (doc (el "a" [])).
Proof. vm_compute. auto. Qed.

(* error cases, in the order the code checks them *)
Example ex_errors :
  to_xml_r (VInt 1) = XErr ENotDocTuple /\
  to_xml_r (VTuple [(b "version", S_ "2.0")]) = XErr ENoRoot /\
  to_xml_r (VTuple [(b "version", S_ "2.0"); (b "root", VInt 1)]) = XErr EBadVersion /\
  to_xml_r (VTuple [(b "root", VInt 1); (b "encoding", VEmpty)]) = XErr ENotString /\
  to_xml_r (doc (el "a" [kids [VInt 1]])) = XErr ENodeKind /\
  to_xml_r (doc (el "a" [(b "text", S_ "t"); attrs [("k", VInt 1)]])) = XErr EBothNameText /\
  to_xml_r (doc (el "a" [attrs [("k", VInt 1)]; kids [VInt 2]])) = XErr ENotString /\
  to_xml_r (doc (el "a" [kids [VInt 2]; (b "children", VInt 3)])) = XErr ENotList /\
  to_xml_r (doc (VTuple [(b "name", VEmpty)])) = XErr ENotString /\
  to_xml_r (doc (el "a" [(b "text", VEmpty); (b "attrs", VEmpty); (b "children", VEmpty)]))
    = XOk [EStartDoc V10 None None; EStart (b "a") [] None; EEnd].
Proof. vm_compute. repeat split; reflexivity. Qed.

Print Assumptions doc_to_tree.
Print Assumptions doc_to_tree_strong.
Print Assumptions doc_error_iff.
Print Assumptions write_node_err_iff.
Print Assumptions escapes_invert.
Print Assumptions unescape_text_ok.
Print Assumptions unescape_attr_ok.
Print Assumptions xml_emit_doc.
Print Assumptions xml_text_roundtrip.
Print Assumptions doc_roundtrip.
Print Assumptions xml_output_roundtrip.
Print Assumptions strip_written.
Print Assumptions text_content_norm.
Print Assumptions nodes_of_tuple.
Print Assumptions tree_of_events_of_tree.
Print Assumptions roundtrip_modulo_indent.
Print Assumptions roundtrip_exact_modulo_indent.
Print Assumptions as_written_nf.
Print Assumptions parse_doc_fuel.
Print Assumptions xml_parse_fuel.
Print Assumptions write_node_chars_ok.
Print Assumptions to_xml_chars_ok.
Print Assumptions to_xml_body_element.
Print Assumptions doc_roundtrip_wf.
Print Assumptions to_xml_tree_of_doc.
Print Assumptions xml_output_roundtrip_wf.
