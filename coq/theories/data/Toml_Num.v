(* Proofs about the TOML model: integers and floats. *)
From Ucg Require Import base.Bytes base.Bytes_Lemmas data.Val data.Json data.Json_Lemmas data.MapJson data.MapJson_Lemmas data.Toml.
Local Open Scope list_scope.

(* ------------------------------------------------------------------ *)
(* Character facts                                                     *)

Lemma digit_facts c : is_digit c = true ->
  ceq c "-"%char = false /\ ceq c "+"%char = false /\ ceq c ":"%char = false /\ ceq c "."%char = false
  /\ ceq c "_"%char = false /\ is_e c = false /\ ceq c "t"%char = false /\ ceq c "f"%char = false
  /\ ceq c "i"%char = false /\ ceq c "n"%char = false /\ is_tok_char c = true.
Proof. destruct c as [[] [] [] [] [] [] [] []]; cbn; intros; repeat split; congruence. Qed.

Lemma digit_tok c : is_digit c = true -> is_tok_char c = true.
Proof. intros H. apply digit_facts in H. tauto. Qed.

(* ------------------------------------------------------------------ *)
(* Tokens                                                              *)

Definition tok_follow_ok (rest : bytes) : Prop :=
  match rest with c :: _ => is_tok_char c = false | [] => True end.

Lemma span_tok_app t rest :
  forallb is_tok_char t = true -> tok_follow_ok rest -> span_tok (t ++ rest) = (t, rest).
Proof.
  intros Ht Hr. induction t as [|c t IH]; cbn [app span_tok].
  - destruct rest as [|d r]; [reflexivity|]. cbn [span_tok]. cbn in Hr. rewrite Hr. reflexivity.
  - cbn [forallb] in Ht. apply andb_true_iff in Ht as [Hc Ht]. rewrite Hc, (IH Ht). reflexivity.
Qed.

Lemma us_digits_all isd ds : forall p,
  forallb isd ds = true -> (ds <> [] \/ p = true) -> us_digits isd p ds = Some ds.
Proof.
  induction ds as [|c ds IH]; intros p Hd Hp; cbn [us_digits].
  - destruct Hp as [Hp|Hp]; [congruence|]. rewrite Hp. reflexivity.
  - cbn [forallb] in Hd. apply andb_true_iff in Hd as [Hc Hd]. rewrite Hc.
    rewrite (IH true Hd (or_intror eq_refl)). reflexivity.
Qed.

Lemma us_digits_stop isd ds c r : forall p,
  forallb isd ds = true -> isd c = false -> ceq c "_"%char = false ->
  us_digits isd p (ds ++ c :: r) = None.
Proof.
  induction ds as [|d ds IH]; intros p Hd Hc Hu; cbn [app us_digits].
  - rewrite Hc, Hu. reflexivity.
  - cbn [forallb] in Hd. apply andb_true_iff in Hd as [Hd1 Hd]. rewrite Hd1.
    rewrite (IH true Hd Hc Hu). reflexivity.
Qed.

(* a token in which every character after the first is a digit or a dot is not a date-time *)
Lemma not_datetime t :
  (forall i c, nth_error t (S i) = Some c -> ceq c ":"%char = false /\ ceq c "-"%char = false) ->
  is_datetime_tok t = false.
Proof.
  intros H.
  assert (H2 : forall c, nth_error t 2 = Some c -> ceq c ":"%char = false) by (intros c Hc; apply (H 1 c Hc)).
  assert (H4 : forall c, nth_error t 4 = Some c -> ceq c "-"%char = false) by (intros c Hc; apply (H 3 c Hc)).
  clear H.
  unfold is_datetime_tok, is_local_time_tok, take_time, take_date.
  destruct t as [|a0 [|a1 [|a2 [|a3 [|a4 t]]]]]; try reflexivity.
  specialize (H2 a2 eq_refl). specialize (H4 a4 eq_refl).
  destruct t as [|a5 [|a6 [|a7 t]]]; try reflexivity.
  - rewrite H2, andb_false_r. cbn [andb orb].
    destruct t as [|a8 [|a9 t]]; try reflexivity.
    rewrite H4. rewrite !andb_false_r. reflexivity.
Qed.

(* ------------------------------------------------------------------ *)
(* toml_int_roundtrip                                                  *)

Lemma digits_shape_nth sgn ds i c :
  forallb is_digit ds = true ->
  nth_error ((if (sgn : bool) then ["-"%char] else []) ++ ds) (S i) = Some c -> is_digit c = true.
Proof.
  intros Hd Hn. rewrite forallb_forall in Hd. apply Hd.
  destruct sgn; cbn [app] in Hn.
  - cbn [nth_error] in Hn. eapply nth_error_In; eauto.
  - eapply nth_error_In; eauto.
Qed.

Lemma no_leading_zero_canon c t : ceq c "0"%char = false -> no_leading_zero (c :: t) = true.
Proof. intros H. cbn. destruct t; [reflexivity|]. rewrite H. reflexivity. Qed.

Lemma classify_int_tok z : in_i64 z = true -> classify_tok (dec_of_Z z) = Some (DInt z).
Proof.
  intros Hr. destruct (Z.eq_dec z 0) as [->|Hz]; [reflexivity|].
  destruct (Z_dec_shape z Hz) as (c & t & E & Hd & Hc & Hv).
  assert (Hcd : is_digit c = true) by (cbn [forallb] in Hd; apply andb_true_iff in Hd; tauto).
  destruct (digit_facts c Hcd) as (Hm & Hp & _ & _ & _ & _ & Ht & Hf & _).
  unfold classify_tok.
  assert (Hnt : bytes_eqb (dec_of_Z z) (b "true") = false).
  { rewrite E. destruct (z <? 0)%Z; cbn [app bytes_eqb b list_ascii_of_string]; [reflexivity|].
    fold (ceq c "t"%char). rewrite Ht. reflexivity. }
  assert (Hnf : bytes_eqb (dec_of_Z z) (b "false") = false).
  { rewrite E. destruct (z <? 0)%Z; cbn [app bytes_eqb b list_ascii_of_string]; [reflexivity|].
    fold (ceq c "f"%char). rewrite Hf. reflexivity. }
  rewrite Hnt, Hnf.
  assert (Hnd : is_datetime_tok (dec_of_Z z) = false).
  { apply not_datetime. intros i x Hx. rewrite E in Hx.
    pose proof (digits_shape_nth (z <? 0)%Z (c :: t) i x Hd Hx) as Hxd.
    apply digit_facts in Hxd. tauto. }
  rewrite Hnd.
  assert (Hi : parse_int_tok (dec_of_Z z) = Some z).
  { rewrite E. unfold parse_int_tok.
    assert (Hus : us_digits is_digit false (c :: t) = Some (c :: t))
      by (apply us_digits_all; [exact Hd|left; discriminate]).
    destruct (Z.ltb_spec z 0) as [Hneg|Hpos]; cbn [app split_sign].
    - change (ceq "-"%char "-"%char) with true. cbn iota. rewrite Hus.
      rewrite (no_leading_zero_canon c t Hc), Hv. cbn [sign_neg].
      replace (- Z.of_N (Z.abs_N z))%Z with z by lia. rewrite Hr. reflexivity.
    - rewrite Hm, Hp. rewrite Hus, (no_leading_zero_canon c t Hc), Hv. cbn [sign_neg].
      replace (Z.of_N (Z.abs_N z)) with z by lia. rewrite Hr.
      destruct t as [|x r]; [reflexivity|]. rewrite Hc. reflexivity. }
  rewrite Hi. reflexivity.
Qed.

Lemma dec_of_Z_tok z : forallb is_tok_char (dec_of_Z z) = true /\ dec_of_Z z <> [].
Proof.
  destruct (Z.eq_dec z 0) as [->|Hz]; [split; [reflexivity|discriminate]|].
  destruct (Z_dec_shape z Hz) as (c & t & E & Hd & _ & _). rewrite E. split.
  - rewrite forallb_app. apply andb_true_iff. split.
    + destruct (z <? 0)%Z; reflexivity.
    + rewrite forallb_forall in *. intros x Hx. apply digit_tok. apply Hd. exact Hx.
  - destruct (z <? 0)%Z; discriminate.
Qed.

Lemma not_date_tok_int z : is_date_tok (dec_of_Z z) = false.
Proof.
  destruct (Z.eq_dec z 0) as [->|Hz]; [reflexivity|].
  destruct (Z_dec_shape z Hz) as (c & t & E & Hd & _ & _).
  unfold is_date_tok, take_date.
  destruct (dec_of_Z z) as [|a0 [|a1 [|a2 [|a3 [|a4 [|a5 [|a6 [|a7 [|a8 [|a9 r]]]]]]]]]] eqn:Ez; try reflexivity.
  assert (H4 : is_digit a4 = true).
  { apply (digits_shape_nth (z <? 0)%Z (c :: t) 3 a4 Hd). rewrite <- E. reflexivity. }
  apply digit_facts in H4. destruct H4 as (H4 & _). rewrite H4, !andb_false_r. reflexivity.
Qed.

(* every i64 is written as a token that the reader classifies as the same integer *)
Theorem toml_int_roundtrip : forall z rest,
  in_i64 z = true -> tok_follow_ok rest ->
  parse_scalar (dec_of_Z z ++ rest) = Some (DInt z, rest).
Proof.
  intros z rest Hr Hf. unfold parse_scalar.
  destruct (dec_of_Z_tok z) as [Ht Hne].
  rewrite (span_tok_app _ _ Ht Hf).
  destruct (dec_of_Z z) as [|c t] eqn:E; [congruence|]. rewrite <- E.
  rewrite (classify_int_tok z Hr), not_date_tok_int. reflexivity.
Qed.

(* ------------------------------------------------------------------ *)
(* Decimal normalisation                                               *)

Lemma strip_zeros_fuel : forall f1 f2 m e,
  (0 < m)%N -> (m < 2 ^ N.of_nat f1)%N -> (m < 2 ^ N.of_nat f2)%N ->
  strip_zeros f1 m e = strip_zeros f2 m e.
Proof.
  induction f1 as [|f1 IH]; intros f2 m e H0 H1 H2.
  - change (2 ^ N.of_nat 0)%N with 1%N in H1. lia.
  - destruct f2 as [|f2]; [change (2 ^ N.of_nat 0)%N with 1%N in H2; lia|].
    cbn [strip_zeros]. destruct (N.eqb_spec m 0) as [Hm|Hm]; [reflexivity|].
    destruct (N.eqb_spec (m mod 10) 0) as [Hd|Hd]; [|reflexivity].
    pose proof (N.div_mod m 10 ltac:(lia)) as Hdm. rewrite Hd in Hdm.
    rewrite Nat2N.inj_succ, N.pow_succ_r' in H1, H2.
    apply IH.
    + lia.
    + apply N.div_lt_upper_bound; lia.
    + apply N.div_lt_upper_bound; lia.
Qed.

Lemma norm_dec_fuel f m e : (m < 2 ^ N.of_nat f)%N -> norm_dec m e = strip_zeros (S f) m e.
Proof.
  intros H. unfold norm_dec.
  destruct (N.eq_dec m 0) as [->|Hm]; [reflexivity|].
  apply strip_zeros_fuel; [lia| |].
  - rewrite Nat2N.inj_succ, N2Nat.id. apply N.log2_spec. lia.
  - rewrite Nat2N.inj_succ, N.pow_succ_r'. lia.
Qed.

(* a trailing decimal zero can be moved into the exponent *)
Lemma norm_dec_times10 m e : m <> 0%N -> norm_dec (m * 10) (e - 1) = norm_dec m e.
Proof.
  intros Hm.
  set (f := S (N.to_nat (N.log2 (m * 10)))).
  assert (Hb : (m * 10 < 2 ^ N.of_nat f)%N).
  { unfold f. rewrite Nat2N.inj_succ, N2Nat.id. apply N.log2_spec. lia. }
  rewrite (norm_dec_fuel f (m * 10) (e - 1) Hb).
  cbn [strip_zeros].
  destruct (N.eqb_spec (m * 10) 0) as [H0|H0]; [lia|].
  rewrite N.mod_mul by lia. cbn [N.eqb].
  rewrite N.div_mul by lia. replace (e - 1 + 1)%Z with e by lia.
  unfold f. symmetry. apply norm_dec_fuel.
  assert (Hb' : (m * 10 < 2 ^ N.succ (N.log2 (m * 10)))%N) by (apply N.log2_spec; lia).
  rewrite N2Nat.id. rewrite N.pow_succ_r' in Hb'. lia.
Qed.

(* normalisation does not change the number denoted: m * 10^e = m' * 10^e' *)
Lemma strip_zeros_value f : forall m e m' e',
  strip_zeros f m e = (m', e') -> m <> 0%N ->
  exists k : nat, e' = (e + Z.of_nat k)%Z /\ m = (m' * 10 ^ N.of_nat k)%N /\ m' <> 0%N.
Proof.
  induction f as [|f IH]; intros m e m' e' H Hm; cbn [strip_zeros] in H.
  - inversion H; subst. exists 0. cbn. split; [lia|]. split; [lia|exact Hm].
  - destruct (N.eqb_spec m 0) as [H0|H0]; [contradiction|].
    destruct (N.eqb_spec (m mod 10) 0) as [Hd|Hd].
    + assert (Hq : (m / 10)%N <> 0%N).
      { intros Hq. pose proof (N.div_mod m 10 ltac:(lia)). lia. }
      destruct (IH _ _ _ _ H Hq) as (k & He & Hmk & Hm').
      exists (S k). split; [lia|]. split; [|exact Hm'].
      rewrite Nat2N.inj_succ, N.pow_succ_r'.
      pose proof (N.div_mod m 10 ltac:(lia)) as Hdm. rewrite Hd in Hdm. lia.
    + inversion H; subst. exists 0. cbn. split; [lia|]. split; [lia|exact Hm].
Qed.

Theorem norm_dec_value m e m' e' :
  norm_dec m e = (m', e') -> m <> 0%N ->
  exists k : nat, e' = (e + Z.of_nat k)%Z /\ m = (m' * 10 ^ N.of_nat k)%N.
Proof.
  intros H Hm. destruct (strip_zeros_value _ _ _ _ _ H Hm) as (k & H1 & H2 & _). eauto.
Qed.

Lemma norm_dec_zero e : norm_dec 0 e = (0%N, 0%Z).
Proof. reflexivity. Qed.

(* ------------------------------------------------------------------ *)
(* Rust's text for a finite float                                      *)

Lemma span_digits_spec s : forall d r,
  span_digits s = (d, r) ->
  s = d ++ r /\ forallb is_digit d = true /\ match r with c :: _ => is_digit c = false | [] => True end.
Proof.
  induction s as [|c s IH]; intros d r H; cbn [span_digits] in H.
  - inversion H; subst. repeat split.
  - destruct (is_digit c) eqn:Ec.
    + destruct (span_digits s) as [d' r'] eqn:Es. inversion H; subst.
      destruct (IH d' r eq_refl) as (E & Hd & Hr). subst s. repeat split; auto.
      cbn [forallb]. rewrite Ec, Hd. reflexivity.
    + inversion H; subst. repeat split. exact Ec.
Qed.

Definition sign_text (neg : bool) : bytes := if neg then ["-"%char] else [].

Lemma rust_float_parts_shape t neg i fd :
  rust_float_parts t = Some (neg, i, fd) ->
  t = sign_text neg ++ i ++ (match fd with [] => [] | _ :: _ => "."%char :: fd end)
  /\ forallb is_digit i = true /\ forallb is_digit fd = true /\ no_leading_zero i = true.
Proof.
  unfold rust_float_parts.
  set (p := match t with
            | c :: r => if ceq c "-"%char then (true, r) else (false, t)
            | [] => (false, [])
            end).
  assert (Hp : t = sign_text (fst p) ++ snd p /\
               (fst p = false -> match snd p with c :: _ => ceq c "-"%char = false | [] => True end)).
  { unfold p. destruct t as [|c r]; [split; [reflexivity|intros _; exact I]|].
    destruct (ceq c "-"%char) eqn:Ec.
    - apply Ascii.eqb_eq in Ec. subst c. split; [reflexivity|discriminate].
    - split; [reflexivity|]. intros _. exact Ec. }
  destruct p as [neg0 t1]. cbn [fst snd] in Hp. destruct Hp as [Et _].
  destruct (span_digits t1) as [i0 r] eqn:Es.
  destruct (span_digits_spec _ _ _ Es) as (E1 & Hi & Hr).
  destruct (no_leading_zero i0) eqn:Enz; cbn [negb]; [|discriminate].
  destruct r as [|c fr].
  - intros H. inversion H; subst. rewrite app_nil_r. repeat split; auto.
  - destruct (ceq c "."%char) eqn:Ec; [|discriminate].
    apply Ascii.eqb_eq in Ec. subst c.
    destruct (span_digits fr) as [fd0 r2] eqn:Ef.
    destruct (span_digits_spec _ _ _ Ef) as (E2 & Hfd & _).
    destruct fd0 as [|f0 fd0]; [discriminate|]. destruct r2; [|discriminate].
    intros H. inversion H; subst. rewrite app_nil_r. repeat split; auto.
Qed.

Lemma has_dot_digits sgn ds : forallb is_digit ds = true -> has_dot (sign_text sgn ++ ds) = false.
Proof.
  intros Hd. unfold has_dot. rewrite existsb_app.
  assert (existsb (fun c => ceq c "."%char) ds = false).
  { apply not_true_is_false. intros H. apply existsb_exists in H as (x & Hx & Hxd).
    rewrite forallb_forall in Hd. apply Hd in Hx. apply digit_facts in Hx. destruct Hx as (_ & _ & _ & Hx & _). congruence. }
  rewrite H. destruct sgn; reflexivity.
Qed.

(* serialize_float! for a finite value: Display, plus ".0" when Display shows no fraction *)
Lemma float_text_fin t : float_text (TFin t) = if has_dot t then t else t ++ b ".0".
Proof.
  unfold float_text.
  destruct (bytes_eqb t (b "-0")) eqn:E1; [apply bytes_eqb_spec in E1; subst; reflexivity|].
  destruct (bytes_eqb t (b "0")) eqn:E2; [apply bytes_eqb_spec in E2; subst; reflexivity|].
  reflexivity.
Qed.

Lemma float_text_shape t neg i fd :
  rust_float_parts t = Some (neg, i, fd) ->
  float_text (TFin t) = sign_text neg ++ i ++ "."%char :: (match fd with [] => ["0"%char] | _ :: _ => fd end).
Proof.
  intros H. destruct (rust_float_parts_shape _ _ _ _ H) as (E & Hi & Hfd & _).
  rewrite float_text_fin. destruct fd as [|f0 fd].
  - rewrite app_nil_r in E. subst t. rewrite (has_dot_digits neg i Hi).
    rewrite <- app_assoc. reflexivity.
  - subst t. unfold has_dot. rewrite !existsb_app. cbn [existsb].
    change (ceq "."%char "."%char) with true. rewrite ?orb_true_r. cbn [orb].
    rewrite ?orb_true_r. reflexivity.
Qed.

Lemma span_until_digits p ds c r :
  forallb is_digit ds = true -> (forall d, is_digit d = true -> p d = false) -> p c = true ->
  span_until p (ds ++ c :: r) = (ds, c :: r).
Proof.
  intros Hd Hp Hc. induction ds as [|d ds IH]; cbn [app span_until].
  - rewrite Hc. reflexivity.
  - cbn [forallb] in Hd. apply andb_true_iff in Hd as [Hd1 Hd]. rewrite (Hp d Hd1), (IH Hd). reflexivity.
Qed.

Lemma span_until_digits_end p ds :
  forallb is_digit ds = true -> (forall d, is_digit d = true -> p d = false) ->
  span_until p ds = (ds, []).
Proof.
  intros Hd Hp. induction ds as [|d ds IH]; cbn [span_until]; [reflexivity|].
  cbn [forallb] in Hd. apply andb_true_iff in Hd as [Hd1 Hd]. rewrite (Hp d Hd1), (IH Hd). reflexivity.
Qed.

Lemma digit_not_dot_e d : is_digit d = true -> (ceq d "."%char || is_e d) = false.
Proof. intros H. apply digit_facts in H. destruct H as (_ & _ & _ & H1 & _ & H2 & _). rewrite H1, H2. reflexivity. Qed.

Lemma digit_not_e d : is_digit d = true -> is_e d = false.
Proof. intros H. apply digit_facts in H. tauto. Qed.

Lemma no_leading_zero_nonempty i : no_leading_zero i = true -> exists c t, i = c :: t.
Proof. destruct i; [discriminate|eauto]. Qed.

(* the token  [-] i . fd  with fd non-empty *)
Section FloatTok.
  Variables (neg : bool) (i fd : bytes).
  Hypothesis Hi : forallb is_digit i = true.
  Hypothesis Hfd : forallb is_digit fd = true.
  Hypothesis Hnz : no_leading_zero i = true.
  Hypothesis Hfne : fd <> [].

  Let tok := sign_text neg ++ i ++ "."%char :: fd.

  Lemma ftok_after_sign :
    split_sign tok = ((if neg then Some true else None), i ++ "."%char :: fd).
  Proof.
    unfold tok. destruct neg; [reflexivity|].
    destruct (no_leading_zero_nonempty i Hnz) as (c & t & ->).
    cbn [sign_text app split_sign].
    assert (Hc : is_digit c = true) by (cbn [forallb] in Hi; apply andb_true_iff in Hi; tauto).
    apply digit_facts in Hc. destruct Hc as (H1 & H2 & _). rewrite H1, H2. reflexivity.
  Qed.

  Lemma ftok_not_int : parse_int_tok tok = None.
  Proof.
    unfold parse_int_tok. rewrite ftok_after_sign.
    assert (Hus : forall p, us_digits is_digit p (i ++ "."%char :: fd) = None)
      by (intros p; apply us_digits_stop; [exact Hi|reflexivity|reflexivity]).
    rewrite Hus.
    destruct neg; [reflexivity|].
    destruct (no_leading_zero_nonempty i Hnz) as (c & t & E). subst i. cbn [app].
    destruct t as [|x r].
    - cbn [app]. destruct (ceq c "0"%char); reflexivity.
    - cbn [app]. destruct (ceq c "0"%char) eqn:Ec; [|reflexivity].
      (* a leading 0 followed by a digit is excluded by no_leading_zero *)
      cbn in Hnz. rewrite Ec in Hnz. discriminate.
  Qed.

  Lemma ftok_float :
    parse_float_tok tok = Some (mk_fin neg (digits_val (i ++ fd)) (- Z.of_nat (List.length fd))%Z).
  Proof.
    unfold parse_float_tok. rewrite ftok_after_sign.
    destruct (no_leading_zero_nonempty i Hnz) as (c & t & E).
    assert (Hc : is_digit c = true) by (subst i; cbn [forallb] in Hi; apply andb_true_iff in Hi; tauto).
    assert (Hninf : bytes_eqb (i ++ "."%char :: fd) (b "inf") = false).
    { subst i. cbn [app bytes_eqb b list_ascii_of_string]. apply digit_facts in Hc.
      destruct Hc as (_ & _ & _ & _ & _ & _ & _ & _ & Hci & _). fold (ceq c "i"%char). rewrite Hci. reflexivity. }
    assert (Hnnan : bytes_eqb (i ++ "."%char :: fd) (b "nan") = false).
    { subst i. cbn [app bytes_eqb b list_ascii_of_string]. apply digit_facts in Hc.
      destruct Hc as (_ & _ & _ & _ & _ & _ & _ & _ & _ & Hcn & _). fold (ceq c "n"%char). rewrite Hcn. reflexivity. }
    rewrite Hninf, Hnnan.
    rewrite (span_until_digits (fun c => ceq c "."%char || is_e c) i "."%char fd Hi digit_not_dot_e eq_refl).
    rewrite (us_digits_all is_digit i false Hi) by (left; subst i; discriminate).
    rewrite Hnz. cbn [negb]. change (ceq "."%char "."%char) with true. cbn iota.
    rewrite (span_until_digits_end is_e fd Hfd digit_not_e).
    rewrite (us_digits_all is_digit fd false Hfd) by (left; exact Hfne).
    replace (sign_neg (if neg then Some true else None)) with neg by (destruct neg; reflexivity).
    replace (0 - Z.of_nat (List.length fd))%Z with (- Z.of_nat (List.length fd))%Z by lia.
    reflexivity.
  Qed.

  Lemma ftok_chars : forallb is_tok_char tok = true.
  Proof.
    unfold tok. rewrite !forallb_app. cbn [forallb].
    assert (H : forall l, forallb is_digit l = true -> forallb is_tok_char l = true).
    { intros l Hl. rewrite forallb_forall in *. intros x Hx. apply digit_tok, Hl, Hx. }
    rewrite (H i Hi), (H fd Hfd). destruct neg; reflexivity.
  Qed.

  Lemma ftok_nth k c : nth_error tok (S k) = Some c -> is_digit c = true \/ c = "."%char.
  Proof.
    intros Hn.
    assert (Hin : In c (i ++ "."%char :: fd)).
    { unfold tok in Hn. destruct neg.
      - cbn [sign_text app] in Hn. change (nth_error (i ++ "."%char :: fd) k = Some c) in Hn.
        eapply nth_error_In; exact Hn.
      - cbn [sign_text app] in Hn. eapply nth_error_In; exact Hn. }
    clear Hn. apply in_app_or in Hin as [Hin|[Hin|Hin]].
    - left. rewrite forallb_forall in Hi. auto.
    - right. auto.
    - left. rewrite forallb_forall in Hfd. auto.
  Qed.
End FloatTok.

Lemma date_is_datetime t : is_date_tok t = true -> is_datetime_tok t = true.
Proof.
  unfold is_date_tok, is_datetime_tok. destruct (take_date t) as [[|c r]|]; try discriminate.
  intros _. apply orb_true_r.
Qed.

Lemma not_datetime_not_date t : is_datetime_tok t = false -> is_date_tok t = false.
Proof.
  intros H. destruct (is_date_tok t) eqn:E; [|reflexivity].
  apply date_is_datetime in E. congruence.
Qed.

Lemma classify_float_tok neg i fd :
  forallb is_digit i = true -> forallb is_digit fd = true -> no_leading_zero i = true -> fd <> [] ->
  let tok := sign_text neg ++ i ++ "."%char :: fd in
  classify_tok tok = Some (DFloat (mk_fin neg (digits_val (i ++ fd)) (- Z.of_nat (List.length fd))%Z))
  /\ is_date_tok tok = false.
Proof.
  intros Hi Hfd Hnz Hfne tok.
  assert (Etok : tok = sign_text neg ++ i ++ "."%char :: fd) by reflexivity. clearbody tok.
  assert (Hdt : is_datetime_tok tok = false).
  { apply not_datetime. intros k c Hc. rewrite Etok in Hc.
    destruct (ftok_nth neg i fd Hi Hfd k c Hc) as [Hd| ->]; [|split; reflexivity].
    apply digit_facts in Hd. tauto. }
  split; [|apply not_datetime_not_date, Hdt].
  unfold classify_tok. rewrite Hdt.
  pose proof (ftok_not_int neg i fd Hi Hnz) as Hni. pose proof (ftok_float neg i fd Hi Hfd Hnz Hfne) as Hfl.
  rewrite <- Etok in Hni, Hfl. rewrite Hni, Hfl.
  destruct (no_leading_zero_nonempty i Hnz) as (c & t & E).
  assert (Hc : is_digit c = true) by (subst i; cbn [forallb] in Hi; apply andb_true_iff in Hi; tauto).
  apply digit_facts in Hc. destruct Hc as (_ & _ & _ & _ & _ & _ & Ht & Hf & _).
  assert (H1 : bytes_eqb tok (b "true") = false).
  { rewrite Etok. subst i. destruct neg; cbn [sign_text app bytes_eqb b list_ascii_of_string]; [reflexivity|].
    fold (ceq c "t"%char). rewrite Ht. reflexivity. }
  assert (H2 : bytes_eqb tok (b "false") = false).
  { rewrite Etok. subst i. destruct neg; cbn [sign_text app bytes_eqb b list_ascii_of_string]; [reflexivity|].
    fold (ceq c "f"%char). rewrite Hf. reflexivity. }
  rewrite H1, H2. reflexivity.
Qed.

Lemma mk_fin_dot0 neg i :
  mk_fin neg (digits_val (i ++ ["0"%char])) (- Z.of_nat 1)%Z = mk_fin neg (digits_val i) 0%Z.
Proof.
  rewrite digits_val_app. change (code "0"%char - 48)%N with 0%N. rewrite N.add_0_r.
  unfold mk_fin. destruct (N.eq_dec (digits_val i) 0) as [E|E].
  - rewrite E. reflexivity.
  - change (- Z.of_nat 1)%Z with (0 - 1)%Z. rewrite (norm_dec_times10 _ 0%Z E). reflexivity.
Qed.

Lemma parse_scalar_tok t d rest :
  forallb is_tok_char t = true -> t <> [] -> tok_follow_ok rest ->
  classify_tok t = Some d -> is_date_tok t = false ->
  parse_scalar (t ++ rest) = Some (d, rest).
Proof.
  intros Ht Hne Hr Hc Hd. unfold parse_scalar. rewrite (span_tok_app _ _ Ht Hr).
  destruct t; [congruence|]. rewrite Hc, Hd. reflexivity.
Qed.

(* toml_float_text: a finite float, given by the text Rust's Display prints for it
   ([-] digits [ . digits ], no leading zeros), is written as a token that the reader classifies
   as a FLOAT (never as an integer, a boolean or a date), and the float it reads is the decimal
   that the Rust text denotes: sign, mantissa digits_val (i ++ fd), exponent - |fd|, normalised
   (norm_dec_value: normalisation preserves m * 10^e). *)
Theorem toml_float_text : forall t neg i fd rest,
  rust_float_parts t = Some (neg, i, fd) -> tok_follow_ok rest ->
  let d := mk_fin neg (digits_val (i ++ fd)) (- Z.of_nat (List.length fd))%Z in
  parse_scalar (float_text (TFin t) ++ rest) = Some (DFloat d, rest)
  /\ spec_float (FFin t) = Some d.
Proof.
  intros t neg i fd rest H Hr d.
  split; [|unfold spec_float; rewrite H; reflexivity].
  destruct (rust_float_parts_shape _ _ _ _ H) as (_ & Hi & Hfd & Hnz).
  rewrite (float_text_shape _ _ _ _ H).
  set (fd' := match fd with [] => ["0"%char] | _ :: _ => fd end).
  assert (Hfd' : forallb is_digit fd' = true) by (unfold fd'; destruct fd; [reflexivity|exact Hfd]).
  assert (Hne : fd' <> []) by (unfold fd'; destruct fd; discriminate).
  destruct (classify_float_tok neg i fd' Hi Hfd' Hnz Hne) as [Hc Hd].
  cbv zeta in Hc, Hd.
  rewrite (parse_scalar_tok _ _ rest (ftok_chars neg i fd' Hi Hfd') ltac:(destruct neg; [discriminate|destruct i; [discriminate Hnz|discriminate]]) Hr Hc Hd).
  unfold d. f_equal. f_equal. f_equal.
  unfold fd'. destruct fd as [|f0 fd0]; [|reflexivity].
  rewrite app_nil_r. apply mk_fin_dot0.
Qed.

Theorem toml_float_nonfinite : forall rest, tok_follow_ok rest ->
  (forall neg, parse_scalar (float_text (TNan neg) ++ rest) = Some (DFloat DNan, rest)) /\
  (forall neg, parse_scalar (float_text (TInf neg) ++ rest) = Some (DFloat (DInf neg), rest)).
Proof.
  intros rest Hr. split; intros [|]; apply parse_scalar_tok; try exact Hr; try reflexivity; discriminate.
Qed.

Theorem toml_bool_roundtrip : forall v rest, tok_follow_ok rest ->
  parse_scalar (bool_text v ++ rest) = Some (DBool v, rest).
Proof.
  intros [|] rest Hr; apply parse_scalar_tok; try exact Hr; try reflexivity; discriminate.
Qed.
