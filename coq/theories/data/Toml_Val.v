(* Proofs about the TOML model: inline values (scalars and arrays without tables).
   [body v] is the text the serializer writes for such a value once its key (or the opening of the
   enclosing array) has been written; the reader's [parse_val] reads it back as [tdoc_of v]. *)
From Ucg Require Import base.Bytes base.Bytes_Lemmas data.Val data.Json data.MapJson data.MapJson_Lemmas
     data.Toml data.Toml_Str data.Toml_Num data.Toml_Err data.Toml_Sem.
Local Open Scope list_scope.

(* SerializeSeq::end for a started array *)
Definition close_array (len : nat) : bytes :=
  if (len <=? 1)%nat then ["]"%char] else [","%char; nl; "]"%char].

Fixpoint body (v : tval) : bytes :=
  match v with
  | TStr s => emit_value_str s
  | TInt z => dec_of_Z z
  | TFloat f => float_text f
  | TBool x => bool_text x
  | TArr [] => ["["%char; "]"%char]
  | TArr (x :: xs) =>
    let len := S (List.length xs) in
    emit_array true len ++ body x
      ++ flat_map (fun y => emit_array false len ++ body y) xs ++ close_array len
  | TTab _ => []
  end.

(* scalars the reader can be expected to return: integers in range, floats with a Rust-shaped text *)
Fixpoint tval_wf (v : tval) : bool :=
  match v with
  | TInt z => in_i64 z
  | TFloat (TFin t) => match rust_float_parts t with Some _ => true | None => false end
  | TArr l => forallb tval_wf l
  | TTab es => forallb (fun kv => tval_wf (snd kv)) es
  | _ => true
  end.

(* what follows a value: a newline, a comma or a closing bracket *)
Definition vfollow (rest : bytes) : Prop :=
  exists c r, rest = c :: r /\ (c = nl \/ c = ","%char \/ c = "]"%char).

Lemma vfollow_tok rest : vfollow rest -> tok_follow_ok rest.
Proof. intros (c & r & -> & [->|[->| ->]]); reflexivity. Qed.

Lemma vfollow_str rest : vfollow rest -> follow_ok rest = true.
Proof. intros (c & r & -> & [->|[->| ->]]); reflexivity. Qed.

(* the first character of a value's text decides how it is read *)
Definition starts_scalar (s : bytes) : Prop :=
  match s with
  | c :: _ => ceq c dq = false /\ ceq c sq = false /\ ceq c "["%char = false /\ ceq c "{"%char = false
  | [] => False
  end.

Lemma parse_val_scalar f s : starts_scalar s -> parse_val (S f) s = parse_scalar s.
Proof.
  destruct s as [|c s]; [intros []|]. intros (H1 & H2 & H3 & H4). cbn [parse_val].
  rewrite H1, H2, H3, H4. reflexivity.
Qed.

Lemma digit_starts c t : is_digit c = true -> starts_scalar (c :: t).
Proof. destruct c as [[] [] [] [] [] [] [] []]; cbn; intros; try discriminate; repeat split. Qed.

Lemma dec_of_Z_starts z rest : starts_scalar (dec_of_Z z ++ rest).
Proof.
  destruct (Z.eq_dec z 0) as [->|Hz]; [cbn; repeat split|].
  destruct (Z_dec_shape z Hz) as (c & t & E & Hd & _ & _). rewrite E.
  destruct (z <? 0)%Z; cbn [app]; [repeat split|].
  apply digit_starts. cbn [forallb] in Hd. apply andb_true_iff in Hd. tauto.
Qed.

Lemma float_text_starts f rest :
  match f with TFin t => rust_float_parts t <> None | _ => True end ->
  starts_scalar (float_text f ++ rest).
Proof.
  destruct f as [t|[|]|[|]]; try (intros _; cbn; repeat split; fail).
  intros H. destruct (rust_float_parts t) as [[[neg i] fd]|] eqn:E; [|congruence].
  rewrite (float_text_shape _ _ _ _ E). destruct (rust_float_parts_shape _ _ _ _ E) as (_ & Hi & _ & Hnz).
  destruct neg; cbn [sign_text app]; [repeat split|].
  destruct (no_leading_zero_nonempty i Hnz) as (c & t0 & ->). cbn [app]. apply digit_starts.
  cbn [forallb] in Hi. apply andb_true_iff in Hi. tauto.
Qed.

Lemma emit_value_str_head s : exists t, emit_value_str s = dq :: t \/ emit_value_str s = sq :: t.
Proof.
  unfold emit_value_str, emit_std. destruct (do_pretty s) as [[|] [|]|[|]]; eexists; cbn [app]; eauto.
Qed.

(* ------------------------------------------------------------------ *)
(* Scalars                                                             *)

Definition is_arr (v : tval) : bool := match v with TArr _ => true | _ => false end.

Lemma parse_val_leaf v f rest :
  is_arr v = false -> is_table v = false -> tval_wf v = true -> vfollow rest ->
  parse_val (S f) (body v ++ rest) = Some (tdoc_of v, rest).
Proof.
  intros Ha Ht Hw Hr. destruct v as [s|z|x|x|l|es]; try discriminate; cbn [body tdoc_of].
  - (* string *)
    pose proof (toml_string_roundtrip s rest (vfollow_str _ Hr)) as E.
    destruct (emit_value_str_head s) as (t & [Eh|Eh]); rewrite Eh in *; cbn [app] in E; cbn [app parse_val].
    + change (ceq dq dq) with true. cbn [orb]. rewrite E. reflexivity.
    + change (ceq sq dq) with false. change (ceq sq sq) with true. cbn [orb]. rewrite E. reflexivity.
  - rewrite parse_val_scalar by apply dec_of_Z_starts.
    apply toml_int_roundtrip; [exact Hw|apply vfollow_tok, Hr].
  - cbn [tval_wf] in Hw. rewrite parse_val_scalar.
    2:{ apply float_text_starts. destruct x; auto. destruct (rust_float_parts txt); congruence. }
    destruct x as [t|neg|neg].
    + destruct (rust_float_parts t) as [[[neg i] fd]|] eqn:E; [|discriminate].
      destruct (toml_float_text t neg i fd rest E (vfollow_tok _ Hr)) as [H _]. cbv zeta in H.
      rewrite H. cbn [dfloat_of]. rewrite E. reflexivity.
    + destruct (toml_float_nonfinite rest (vfollow_tok _ Hr)) as [H _]. rewrite H. reflexivity.
    + destruct (toml_float_nonfinite rest (vfollow_tok _ Hr)) as [_ H]. rewrite H. reflexivity.
  - rewrite parse_val_scalar by (destruct x; cbn; repeat split).
    apply toml_bool_roundtrip, vfollow_tok, Hr.
Qed.

(* ------------------------------------------------------------------ *)
(* Heads and lengths                                                   *)

Definition val_head_ok (c : ascii) : bool :=
  negb (is_wschar c || ceq c nl || ceq c cr || ceq c "#"%char || ceq c "]"%char || ceq c ","%char).

Lemma digit_head_ok c : is_digit c = true -> val_head_ok c = true.
Proof. destruct c as [[] [] [] [] [] [] [] []]; cbn; intros; congruence. Qed.

Lemma body_head v : has_tab v = false -> tval_wf v = true ->
  exists c t, body v = c :: t /\ val_head_ok c = true.
Proof.
  intros Ht Hw. destruct v as [s|z|x|x|l|es]; cbn [body].
  - destruct (emit_value_str_head s) as (t & [E|E]); rewrite E; eexists; eexists; split; reflexivity.
  - destruct (Z.eq_dec z 0) as [->|Hz]; [eexists; eexists; split; reflexivity|].
    destruct (Z_dec_shape z Hz) as (c & t & E & Hd & _ & _). rewrite E.
    destruct (z <? 0)%Z; cbn [app]; eexists; eexists; split; try reflexivity.
    apply digit_head_ok. cbn [forallb] in Hd. apply andb_true_iff in Hd. tauto.
  - destruct x as [t|[|]|[|]]; try (eexists; eexists; split; reflexivity).
    cbn [tval_wf] in Hw. destruct (rust_float_parts t) as [[[neg i] fd]|] eqn:E; [|discriminate].
    rewrite (float_text_shape _ _ _ _ E). destruct (rust_float_parts_shape _ _ _ _ E) as (_ & Hi & _ & Hnz).
    destruct neg; cbn [sign_text app]; [eexists; eexists; split; reflexivity|].
    destruct (no_leading_zero_nonempty i Hnz) as (c & t0 & ->). cbn [app]. eexists; eexists; split; [reflexivity|].
    apply digit_head_ok. cbn [forallb] in Hi. apply andb_true_iff in Hi. tauto.
  - destruct x; eexists; eexists; split; reflexivity.
  - destruct l as [|x xs]; [eexists; eexists; split; reflexivity|].
    unfold emit_array. destruct (S (List.length xs) <=? 1)%nat; cbn [app]; eexists; eexists; split; reflexivity.
  - discriminate Ht.
Qed.

Lemma body_nonempty v : has_tab v = false -> tval_wf v = true -> 1 <= List.length (body v).
Proof. intros Ht Hw. destruct (body_head v Ht Hw) as (c & t & -> & _). cbn. lia. Qed.

Lemma skip_wcn_head c r : val_head_ok c = true -> skip_wcn false (c :: r) = c :: r.
Proof. destruct c as [[] [] [] [] [] [] [] []]; cbn; intros; try discriminate; reflexivity. Qed.

Lemma val_head_not_close c : val_head_ok c = true -> ceq c "]"%char = false.
Proof. destruct c as [[] [] [] [] [] [] [] []]; cbn; intros; try discriminate; reflexivity. Qed.

Lemma skip_wcn_comma r : skip_wcn false (","%char :: r) = ","%char :: r.
Proof. reflexivity. Qed.
Lemma skip_wcn_close r : skip_wcn false ("]"%char :: r) = "]"%char :: r.
Proof. reflexivity. Qed.
Lemma skip_wcn_nl_close r : skip_wcn false (nl :: "]"%char :: r) = "]"%char :: r.
Proof. reflexivity. Qed.

Lemma skip_wcn_indent s : skip_wcn false (nl :: indent4 ++ s) = skip_wcn false s.
Proof. reflexivity. Qed.

Lemma flat_map_length_ge {A} (g : A -> bytes) (l : list A) :
  (forall a, In a l -> 1 <= List.length (g a)) -> List.length l <= List.length (flat_map g l).
Proof.
  induction l as [|a l IH]; intros H; cbn [flat_map List.length]; [lia|].
  rewrite app_length. specialize (H a (or_introl eq_refl)) as Ha.
  specialize (IH (fun b Hb => H b (or_intror Hb))). lia.
Qed.

(* ------------------------------------------------------------------ *)
(* Arrays                                                              *)

Section ArrayLoop.
  Variable pv : bytes -> option (tdoc * bytes).
  Variable len : nat.
  Variable rest : bytes.
  Hypothesis Hlen : (len <=? 1)%nat = false.

  (* elements y1 .. yn, each preceded by a newline and the indentation, separated by commas,
     followed by ",\n]" *)
  Lemma arr_loop_multi : forall ys y acc n,
    List.length ys < n ->
    Forall (fun y => has_tab y = false /\ tval_wf y = true /\
                     forall r, vfollow r -> pv (body y ++ r) = Some (tdoc_of y, r)) (y :: ys) ->
    arr_loop pv (S n) (nl :: indent4 ++ body y ++ flat_map (fun y => emit_array false len ++ body y) ys
                          ++ close_array len ++ rest) acc
    = Some (rev acc ++ map tdoc_of (y :: ys), rest).
  Proof.
    induction ys as [|y2 ys IH]; intros y acc n Hn Hall.
    - inversion Hall as [|? ? (Ht & Hw & Hpv) _]; subst.
      cbn [flat_map app]. cbn [arr_loop]. rewrite skip_wcn_indent.
      destruct (body_head y Ht Hw) as (c & t & Eb & Hc). rewrite Eb. cbn [app].
      rewrite (skip_wcn_head c _ Hc).
      pose proof (val_head_not_close c Hc) as Hnb.
      rewrite Hnb. change (c :: t ++ close_array len ++ rest) with ((c :: t) ++ close_array len ++ rest).
      rewrite <- Eb. unfold close_array. rewrite Hlen. cbn [app].
      rewrite (Hpv _ ltac:(eexists; eexists; split; [reflexivity|right; left; reflexivity])).
      rewrite skip_wcn_comma. change (ceq ","%char ","%char) with true. cbv iota.
      destruct n as [|n]; [lia|]. cbn [arr_loop]. rewrite skip_wcn_nl_close.
      change (ceq "]"%char "]"%char) with true. cbv iota.
      rewrite rev'_spec. cbn [rev map]. reflexivity.
    - inversion Hall as [|? ? (Ht & Hw & Hpv) Hall']; subst.
      cbn [flat_map]. cbn [arr_loop]. rewrite skip_wcn_indent.
      destruct (body_head y Ht Hw) as (c & t & Eb & Hc). rewrite Eb. cbn [app].
      rewrite (skip_wcn_head c _ Hc).
      pose proof (val_head_not_close c Hc) as Hnb.
      rewrite Hnb.
      match goal with |- context [pv (c :: t ++ ?R)] => change (c :: t ++ R) with ((c :: t) ++ R) end.
      rewrite <- Eb. unfold emit_array at 1. rewrite Hlen. rewrite <- !app_assoc. cbn [app].
      rewrite (Hpv _ ltac:(eexists; eexists; split; [reflexivity|right; left; reflexivity])).
      rewrite skip_wcn_comma. change (ceq ","%char ","%char) with true. cbv iota.
      destruct n as [|n]; [cbn in Hn; lia|].
      rewrite (IH y2 (tdoc_of y :: acc) n ltac:(cbn in Hn; lia) Hall').
      cbn [rev map]. rewrite <- app_assoc. reflexivity.
  Qed.
End ArrayLoop.

(* the statement proved for every inline value *)
Definition PVal (v : tval) : Prop :=
  forall f rest, List.length (body v) <= f -> vfollow rest ->
    parse_val (S f) (body v ++ rest) = Some (tdoc_of v, rest).

Lemma flat_map_body_length len ys :
  Forall (fun y => has_tab y = false /\ tval_wf y = true) ys ->
  List.length ys <= List.length (flat_map (fun y => emit_array false len ++ body y) ys).
Proof.
  intros H. apply flat_map_length_ge. intros a Ha. rewrite Forall_forall in H.
  destruct (H a Ha) as [Ht Hw]. rewrite app_length. pose proof (body_nonempty a Ht Hw). lia.
Qed.

Lemma in_flat_map_length {A} (g : A -> bytes) l a : In a l -> List.length (g a) <= List.length (flat_map g l).
Proof.
  induction l as [|b l IH]; [intros []|]. intros [->|H]; cbn [flat_map]; rewrite app_length; [lia|].
  specialize (IH H). lia.
Qed.

Theorem parse_val_inline : forall v, has_tab v = false -> tval_wf v = true -> PVal v.
Proof.
  induction v as [s|z|x|x|l IH|es IH] using tval_ind'; intros Ht Hw.
  1-4: intros f rest _ Hr; apply parse_val_leaf; auto.
  - intros f rest Hf Hr.
    cbn [has_tab] in Ht. cbn [tval_wf] in Hw.
    assert (Hall : Forall (fun y => has_tab y = false /\ tval_wf y = true /\ PVal y) l).
    { apply Forall_forall. intros y Hy. rewrite Forall_forall in IH. rewrite forallb_forall in Hw.
      assert (Hty : has_tab y = false).
      { destruct (has_tab y) eqn:E; [|reflexivity]. exfalso.
        assert (existsb has_tab l = true) by (apply existsb_exists; eauto). congruence. }
      split; [exact Hty|]. split; [apply Hw, Hy|]. apply IH; auto. }
    destruct l as [|x xs].
    + (* [] *)
      cbn [body app parse_val]. change (ceq "["%char dq || ceq "["%char sq) with false. cbn iota.
      change (ceq "["%char "["%char) with true. cbn iota.
      destruct f as [|f]; [cbn in Hf; lia|]. reflexivity.
    + cbn [tdoc_of]. cbn [body] in *. set (len := S (List.length xs)) in *.
      assert (Hbl : forall y, In y (x :: xs) -> List.length (body y) + 2 <= f).
      { intros y Hy. rewrite !app_length in Hf.
        assert (1 <= List.length (emit_array true len)) by (unfold emit_array; destruct (len <=? 1)%nat; cbn; lia).
        assert (1 <= List.length (close_array len)) by (unfold close_array; destruct (len <=? 1)%nat; cbn; lia).
        destruct Hy as [->|Hy]; [lia|].
        pose proof (in_flat_map_length (fun y => emit_array false len ++ body y) xs y Hy) as Hl.
        cbv beta in Hl. rewrite app_length in Hl. lia. }
      assert (Hpv : Forall (fun y => has_tab y = false /\ tval_wf y = true /\
                     forall r, vfollow r -> parse_val f (body y ++ r) = Some (tdoc_of y, r)) (x :: xs)).
      { apply Forall_forall. intros y Hy. rewrite Forall_forall in Hall. destruct (Hall y Hy) as (A & B & C).
        split; [exact A|]. split; [exact B|]. intros r Hr'. specialize (Hbl y Hy).
        destruct f as [|f']; [lia|]. apply C; [lia|exact Hr']. }
      destruct (len <=? 1)%nat eqn:El.
      * (* one element: [x] *)
        assert (xs = []) by (unfold len in El; apply Nat.leb_le in El; destruct xs; [reflexivity|cbn in El; lia]). subst xs.
        assert (Etxt : (emit_array true len ++ body x ++ flat_map (fun y => emit_array false len ++ body y) [] ++ close_array len) ++ rest
                       = "["%char :: body x ++ "]"%char :: rest).
        { unfold emit_array, close_array. rewrite El. cbn [flat_map app]. rewrite <- app_assoc. reflexivity. }
        rewrite Etxt. cbn [parse_val].
        change (ceq "["%char dq || ceq "["%char sq) with false. cbv iota.
        change (ceq "["%char "["%char) with true. cbv iota.
        inversion Hpv as [|? ? (Hx1 & Hx2 & Hx3) _]; subst.
        destruct f as [|f]; [specialize (Hbl x (or_introl eq_refl)); lia|].
        cbn [arr_loop]. destruct (body_head x Hx1 Hx2) as (c & t & Eb & Hc).
        assert (Esk : skip_wcn false (body x ++ "]"%char :: rest) = body x ++ "]"%char :: rest)
          by (rewrite Eb; cbn [app]; apply skip_wcn_head, Hc).
        rewrite Esk. rewrite Eb at 1. cbn [app]. rewrite (val_head_not_close c Hc).
        change (c :: t ++ "]"%char :: rest) with ((c :: t) ++ "]"%char :: rest). rewrite <- Eb.
        rewrite (Hx3 _ ltac:(eexists; eexists; split; [reflexivity|right; right; reflexivity])).
        rewrite skip_wcn_close. change (ceq "]"%char ","%char) with false. change (ceq "]"%char "]"%char) with true.
        cbv iota. rewrite rev'_spec. reflexivity.
      * (* several elements, one per line *)
        assert (Etxt : (emit_array true len ++ body x ++ flat_map (fun y => emit_array false len ++ body y) xs ++ close_array len) ++ rest
                       = "["%char :: nl :: indent4 ++ body x ++ flat_map (fun y => emit_array false len ++ body y) xs ++ close_array len ++ rest).
        { unfold emit_array at 1. rewrite El. cbn [app]. rewrite <- !app_assoc. reflexivity. }
        rewrite Etxt. cbn [parse_val].
        change (ceq "["%char dq || ceq "["%char sq) with false. cbv iota.
        change (ceq "["%char "["%char) with true. cbv iota.
        assert (Hn : S (List.length xs) < f).
        { rewrite !app_length in Hf. pose proof (flat_map_body_length len xs) as Hl.
          assert (Forall (fun y => has_tab y = false /\ tval_wf y = true) xs).
          { inversion Hall as [|? ? _ Hxs]; subst. eapply Forall_impl; [|exact Hxs]. cbn. tauto. }
          specialize (Hl H). unfold emit_array in Hf at 1. rewrite El in Hf. cbn [List.length] in Hf. lia. }
        destruct f as [|f]; [lia|].
        rewrite (arr_loop_multi (parse_val (S f)) len rest El xs x [] f ltac:(lia) Hpv). reflexivity.
  - discriminate Ht.
Qed.
