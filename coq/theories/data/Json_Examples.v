(* Executable checks of the JSON model against outputs of the real code
   (obtained with /tmp/pa_json/rs, see rs/probe.out).  All by vm_compute. *)
From Ucg Require Import base.Bytes data.Val data.Json data.MapJson.

Local Notation "'#' n" := (ascii_of_nat n) (at level 0, n at level 0).

(* Coq string literals are raw bytes: UTF-8 passes through *)
Example lit_utf8 : b "é" = [#195; #169].
Proof. vm_compute. reflexivity. Qed.

(* ------------------------------------------------------------------ *)
(* printer vs. serde_json::to_writer_pretty (rs/probe.out, OUT lines)  *)

Example out_empty : json_output VEmpty = Ok (b "null").
Proof. vm_compute. reflexivity. Qed.
Example out_int42 : json_output (VInt 42) = Ok (b "42.0").
Proof. vm_compute. reflexivity. Qed.
Example out_int_m7 : json_output (VInt (-7)) = Ok (b "-7.0").
Proof. vm_compute. reflexivity. Qed.
Example out_int0 : json_output (VInt 0) = Ok (b "0.0").
Proof. vm_compute. reflexivity. Qed.
Example out_int_2_53 : json_output (VInt 9007199254740992) = Ok (b "9007199254740992.0").
Proof. vm_compute. reflexivity. Qed.
Example out_int_m2_53 : json_output (VInt (-9007199254740992)) = Ok (b "-9007199254740992.0").
Proof. vm_compute. reflexivity. Qed.
(* real code: "9007199254740992.0" (rounding) -- outside the modelled range *)
Example out_int_2_53_1 : json_output (VInt 9007199254740993) = Unsupported.
Proof. vm_compute. reflexivity. Qed.
Example out_f1 : json_output (VFloat (FFin (b "1.5"))) = Ok (b "1.5").
Proof. vm_compute. reflexivity. Qed.
Example out_f2 : json_output (VFloat (FFin (b "-0.0"))) = Ok (b "-0.0").
Proof. vm_compute. reflexivity. Qed.
Example out_f3 : json_output (VFloat (FFin (b "1e+300"))) = Ok (b "1e+300").
Proof. vm_compute. reflexivity. Qed.
Example out_f4 : json_output (VFloat (FFin (b "1.5e-10"))) = Ok (b "1.5e-10").
Proof. vm_compute. reflexivity. Qed.
Example out_f_bad1 : json_output (VFloat (FFin (b "5"))) = Unsupported.
Proof. vm_compute. reflexivity. Qed.
Example out_f_bad2 : json_output (VFloat (FFin (b "1.e5"))) = Unsupported.
Proof. vm_compute. reflexivity. Qed.
Example out_nan : json_output (VFloat FNaN) = Err.
Proof. vm_compute. reflexivity. Qed.
Example out_inf : json_output (VFloat FInf) = Err.
Proof. vm_compute. reflexivity. Qed.
Example out_constraint : json_output (VList [VInt 1; VConstraint]) = Err.
Proof. vm_compute. reflexivity. Qed.
(* Err dominates Unsupported, in either order *)
Example out_err_dominates1 : json_output (VList [VInt 9007199254740993; VConstraint]) = Err.
Proof. vm_compute. reflexivity. Qed.
Example out_err_dominates2 : json_output (VList [VConstraint; VInt 9007199254740993]) = Err.
Proof. vm_compute. reflexivity. Qed.
Example out_emptylist : json_output (VList []) = Ok (b "[]").
Proof. vm_compute. reflexivity. Qed.
Example out_emptytuple : json_output (VTuple []) = Ok (b "{}").
Proof. vm_compute. reflexivity. Qed.

(* probe case str-esc: quote, backslash, slash, controls, DEL, 2/3/4-byte UTF-8 *)
Definition esc_str : bytes :=
  b "a""b\c/d" ++ [#8; #12; #10; #13; #9; #1; #31; #127] ++ b "é€😀".
Example out_str_esc :
  json_output (VStr esc_str)
  = Ok (b """a\""b\\c/d\b\f\n\r\t\u0001\u001f" ++ [#127] ++ b "é€😀""").
Proof. vm_compute. reflexivity. Qed.

(* every escape the ESCAPE table produces *)
Example out_all_controls :
  json_output (VStr (map ascii_of_nat (seq 0 32)))
  = Ok (b """\u0000\u0001\u0002\u0003\u0004\u0005\u0006\u0007\b\t\n\u000b\f\r\u000e\u000f\u0010\u0011\u0012\u0013\u0014\u0015\u0016\u0017\u0018\u0019\u001a\u001b\u001c\u001d\u001e\u001f""").
Proof. vm_compute. reflexivity. Qed.

Definition nested_val : val :=
  VTuple [
    (b "b", VList [VInt 1; VList []; VTuple []; VList [VBool true; VEmpty]]);
    (b "a", VTuple [(b "x", VFloat (FFin (b "2.5"))); (b "k""q", VStr (b "v"))]);
    (b "b", VInt 99);
    (b "", VBool false);
    (b "B", VEnv [(b "Z", b "1"); (b "A", b "2"); (b "Z", b "3")]);
    (b "ab", VInt 3);
    (b "é", VInt 4)].

Definition nested_text : bytes := b
"{
  """": false,
  ""B"": {
    ""A"": ""2"",
    ""Z"": ""1""
  },
  ""a"": {
    ""k\""q"": ""v"",
    ""x"": 2.5
  },
  ""ab"": 3.0,
  ""b"": [
    1.0,
    [],
    {},
    [
      true,
      null
    ]
  ],
  ""é"": 4.0
}".

Example out_nested : json_output nested_val = Ok nested_text.
Proof. vm_compute. reflexivity. Qed.

(* shadowed duplicate still raises the error (Rust converts before or_insert) *)
Example out_dup_err :
  json_output (VTuple [(b "a", VInt 1); (b "a", VFloat FNaN)]) = Err.
Proof. vm_compute. reflexivity. Qed.

(* ------------------------------------------------------------------ *)
(* parser + from_json vs. JsonConverter::import (rs/probe.out, IN lines) *)

Example in_null : json_input (b "null") = Some VEmpty.
Proof. vm_compute. reflexivity. Qed.

Example in_numbers :
  json_input (b " [1, 2.0, -0, 0, -1, 1e2, 1E2, 9223372036854775807, 9223372036854775808, -9223372036854775808, -9223372036854775809, 18446744073709551615, 18446744073709551616, 0.5, -0.0] ")
  = Some (VList [VInt 1; VFloat (FFin (b "2.0")); VFloat (FFin (b "-0")); VInt 0; VInt (-1);
                 VFloat (FFin (b "1e2")); VFloat (FFin (b "1E2"));
                 VInt 9223372036854775807; VFloat (FFin (b "9223372036854775808"));
                 VInt (-9223372036854775808); VFloat (FFin (b "-9223372036854775809"));
                 VFloat (FFin (b "18446744073709551615")); VFloat (FFin (b "18446744073709551616"));
                 VFloat (FFin (b "0.5")); VFloat (FFin (b "-0.0"))]).
Proof. vm_compute. reflexivity. Qed.

Example in_object :
  json_input (b "{""b"": 1, ""a"": 2, ""b"": 3, """": null, ""B"": {""z"":[], ""y"":{}}}")
  = Some (VTuple [(b "", VEmpty); (b "B", VTuple [(b "y", VTuple []); (b "z", VList [])]);
                  (b "a", VInt 2); (b "b", VInt 3)]).
Proof. vm_compute. reflexivity. Qed.

(* the parser itself keeps duplicates, in order *)
Example parse_keeps_dups :
  json_parse (b "{""b"": 1, ""a"": 2, ""b"": 3}")
  = Some (JObj [(b "b", JNum (b "1")); (b "a", JNum (b "2")); (b "b", JNum (b "3"))]).
Proof. vm_compute. reflexivity. Qed.

Example in_escapes :
  json_input (b """\u00e9\u20ac\ud83d\ude00\/\b\f\n\r\t\""\\""")
  = Some (VStr (b "é€😀/" ++ [#8; #12; #10; #13; #9] ++ b """\")).
Proof. vm_compute. reflexivity. Qed.

Example in_upper_hex : json_input (b """\u00E9\uD83D\uDE00""") = Some (VStr (b "é😀")).
Proof. vm_compute. reflexivity. Qed.
Example in_u0000 : json_input (b """\u0000""") = Some (VStr [#0]).
Proof. vm_compute. reflexivity. Qed.
Example in_del : json_input [dq; #127; dq] = Some (VStr [#127]).
Proof. vm_compute. reflexivity. Qed.
Example in_ws : json_input ([tab; nl; cr; sp] ++ b "[" ++ [tab; nl; cr] ++ b "]" ++ [tab; nl; cr]) = Some (VList []).
Proof. vm_compute. reflexivity. Qed.
Example in_ws2 : json_input (b "{""a"" : [ ] , ""c"" : { } }") = Some (VTuple [(b "a", VList []); (b "c", VTuple [])]).
Proof. vm_compute. reflexivity. Qed.
Example in_num1 : json_input (b "1e+5") = Some (VFloat (FFin (b "1e+5"))).
Proof. vm_compute. reflexivity. Qed.
Example in_num2 : json_input (b "-0.0e-0") = Some (VFloat (FFin (b "-0.0e-0"))).
Proof. vm_compute. reflexivity. Qed.
Example in_num3 : json_input (b "123456789012345678901234567890") = Some (VFloat (FFin (b "123456789012345678901234567890"))).
Proof. vm_compute. reflexivity. Qed.

(* rejected by both *)
Definition rejected : list bytes :=
  [ b """\ud83d"""; b """\ude00"""; b """\ud83dx"""; b """\ud83d\u0041""";
    [dq; "a"%char; nl; "b"%char; dq]; [dq; "a"%char; tab; "b"%char; dq];
    b "01"; b "1."; b ".5"; b "1e"; b "-"; b "+1"; b "[1,]"; b "[,1]"; b "{""a"":1,}";
    b "[1 2]"; b ""; b " "; b "nul"; b "true false"; b "[] x";
    [#239; #187; #191] ++ b "null"; b """\x"""; b """\U0041"""; [#12] ++ b "[]";
    b "{1:2}"; b "{""a""}"; b "[""a"":1]"; b "tru"; b "00"; b "-01"; b "1.e2";
    b "[1"; b "{""a"":1"; b """abc"; b "[1,2"; b "1-2"; b "1e5.5"; b "--1"; b "1ee5"; b "0x10";
    b "{""a"":1 ""b"":2}"; b "{,}"; b "[}" ; b "{]"; b "]" ].
Example in_rejected : forallb (fun s => match json_parse s with None => true | Some _ => false end) rejected = true.
Proof. vm_compute. reflexivity. Qed.

(* ------------------------------------------------------------------ *)
(* round trips                                                         *)

Definition every_json : json :=
  JObj [ (b "null", JNull); (b "t", JBool true); (b "f", JBool false);
         (b "n", JNum (b "-12.5e+3")); (b "s", JStr esc_str);
         (b "a", JArr [JArr []; JObj []; JArr [JNum (b "0")]; JStr []]);
         (esc_str, JObj [(b "dup", JNull); (b "dup", JArr [JNull; JNull])]) ].

Example rt_every_json : json_parse (json_print every_json) = Some every_json.
Proof. vm_compute. reflexivity. Qed.

(* a value containing every constructor that has a JSON image *)
Definition every_val : val :=
  VTuple [ (b "e", VEmpty); (b "b", VBool true); (b "i", VInt (-42));
           (b "f", VFloat (FFin (b "1.5e-7"))); (b "s", VStr esc_str);
           (b "l", VList [VInt 1; VList []; VTuple []]);
           (b "env", VEnv [(b "HOME", b "/root")]);
           (b "t", VTuple [(b "y", VInt 2); (b "x", VInt 1)]) ].

Example rt_every_val :
  match to_json every_val with
  | Ok j => json_parse (json_print j) = Some j /\ json_abs j = Some (canon every_val)
  | _ => False
  end.
Proof. vm_compute. split; reflexivity. Qed.

(* reading back what was written: ints come back as floats N.0 (real behaviour) *)
Example rt_val_reimport :
  match json_output (VTuple [(b "y", VInt 2); (b "x", VList [VBool true; VStr (b "q")])]) with
  | Ok t => json_input t
            = Some (VTuple [(b "x", VList [VBool true; VStr (b "q")]); (b "y", VFloat (FFin (b "2.0")))])
  | _ => False
  end.
Proof. vm_compute. reflexivity. Qed.

Example with_constraint_is_err : to_json (VList [every_val; VConstraint]) = Err.
Proof. vm_compute. reflexivity. Qed.

Example numval1 : num_value (b "-12.50e+3") = Some (-1250, 1)%Z.
Proof. vm_compute. reflexivity. Qed.
Example numval2 : num_value (b "42.0") = Some (420, -1)%Z.
Proof. vm_compute. reflexivity. Qed.
Example numval3 : json_abs (JNum (b "42.0")) = json_abs (JNum (b "4.2e1")).
Proof. vm_compute. reflexivity. Qed.
