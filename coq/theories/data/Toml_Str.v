(* Proofs about the TOML model: strings and keys.
   Every string token the writer produces (literal, multi-line literal, basic, multi-line basic)
   is read back by the independent reader as the same bytes; same for keys. *)
From Ucg Require Import base.Bytes base.Bytes_Lemmas data.Val data.Json data.Json_Lemmas data.MapJson data.MapJson_Lemmas data.Toml.
Local Open Scope list_scope.

Lemma rev'_spec {A} (l : list A) : rev' l = rev l.
Proof. unfold rev'. rewrite <- rev_alt. reflexivity. Qed.

(* ------------------------------------------------------------------ *)
(* Basic strings (Repr::Std)                                           *)

Lemma parse_basic_step c tl acc :
  parse_basic (std_escape_byte false c ++ tl) acc = parse_basic tl (c :: acc).
Proof.
  destruct c as [[] [] [] [] [] [] [] []]; reflexivity.
Qed.

Lemma parse_basic_escape s : forall acc rest,
  parse_basic (std_escape false s ++ dq :: rest) acc = Some (rev acc ++ s, rest).
Proof.
  induction s as [|c s IH]; intros acc rest.
  - cbn. rewrite rev'_spec, app_nil_r. reflexivity.
  - cbn [std_escape]. rewrite <- app_assoc, parse_basic_step, IH.
    cbn [rev]. rewrite <- app_assoc. reflexivity.
Qed.

Lemma parse_mlb_step c tl acc :
  parse_mlb false (std_escape_byte true c ++ tl) acc = parse_mlb false tl (c :: acc).
Proof.
  destruct c as [[] [] [] [] [] [] [] []]; reflexivity.
Qed.

Lemma parse_mlb_escape s : forall acc rest,
  parse_mlb false (std_escape true s ++ dq :: dq :: dq :: rest) acc = Some (rev acc ++ s, rest).
Proof.
  induction s as [|c s IH]; intros acc rest.
  - cbn. rewrite rev'_spec, app_nil_r. reflexivity.
  - cbn [std_escape]. rewrite <- app_assoc, parse_mlb_step, IH.
    cbn [rev]. rewrite <- app_assoc. reflexivity.
Qed.

(* what may follow a string token without changing how its opening quote is read *)
Definition follow_ok (rest : bytes) : bool :=
  match rest with
  | c :: _ => negb (ceq c dq) && negb (ceq c sq)
  | [] => true
  end.

Lemma std_escape_head ml c :
  exists h t, std_escape_byte ml c = h :: t /\ ceq h dq = false.
Proof.
  destruct ml; destruct c as [[] [] [] [] [] [] [] []]; eexists; eexists; split; reflexivity.
Qed.

Lemma parse_emit_std ml s rest :
  follow_ok rest = true ->
  parse_string (emit_std ml s ++ rest) = Some (s, rest).
Proof.
  intros Hf. destruct ml; unfold emit_std.
  - cbn [app parse_string]. change (ceq dq dq) with true. cbn [andb].
    cbn [trim_nl]. change (ceq nl nl) with true. cbn iota.
    rewrite <- app_assoc. cbn [app]. apply parse_mlb_escape.
  - cbn [app]. rewrite <- app_assoc. cbn [app].
    assert (E : parse_basic (std_escape false s ++ dq :: rest) [] = Some (s, rest))
      by (rewrite parse_basic_escape; reflexivity).
    unfold parse_string. change (ceq dq dq) with true. cbn iota.
    destruct s as [|c s].
    + cbn [std_escape app] in *. destruct rest as [|c3 s3]; [exact E|].
      change (ceq dq dq) with true. cbn [andb].
      cbn [follow_ok] in Hf. apply andb_true_iff in Hf as [Hf _].
      apply negb_true_iff in Hf. rewrite Hf. exact E.
    + cbn [std_escape] in *. destruct (std_escape_head false c) as (h & t & Eh & Hh).
      rewrite Eh in *. cbn [app] in *. rewrite Hh. cbn [andb].
      destruct ((t ++ std_escape false s) ++ dq :: rest); exact E.
Qed.

(* ------------------------------------------------------------------ *)
(* do_pretty: what the scan establishes                                *)

Definition lit_char_ok (c : ascii) : bool :=
  ceq c tab || ceq c nl || negb ((code c <=? 31)%N || (code c =? 127)%N).

(* [s] may be written between ''' delimiters when it is preceded by k quotes: no run of three
   quotes, no quote at the very end, no control character other than tab and newline *)
Fixpoint safe_from (k : nat) (s : bytes) : bool :=
  match s with
  | [] => match k with O => true | S _ => false end
  | c :: r =>
    if ceq c sq then (S k <? 3)%nat && safe_from (S k) r
    else lit_char_ok c && safe_from 0 r
  end.

Definition has_nl (s : bytes) : bool := existsb (fun c => ceq c nl) s.
Definition has_sq (s : bytes) : bool := existsb (fun c => ceq c sq) s.

Lemma fold_pretty_notok s : forall st,
  p_ok st = false -> p_ok (fold_left pretty_step s st) = false.
Proof.
  induction s as [|c s IH]; intros st H; cbn [fold_left]; [exact H|].
  apply IH. unfold pretty_step. rewrite H. reflexivity.
Qed.

Lemma fold_pretty_nl s : forall st,
  p_nl (fold_left pretty_step s st) = p_nl st || has_nl s.
Proof.
  induction s as [|c s IH]; intros st; cbn [fold_left has_nl existsb].
  - rewrite orb_false_r. reflexivity.
  - rewrite IH. fold (has_nl s). rewrite orb_assoc. f_equal.
    unfold pretty_step. destruct (p_ok st); [|reflexivity].
    destruct (ceq c sq); reflexivity.
Qed.

Lemma pretty_step_ok st c :
  p_ok st = true ->
  pretty_step st c =
  if ceq c sq
  then mk_pst (p_nl st || ceq c nl) (p_max st) (S (p_found st))
              (negb (3 <=? S (p_found st))%nat &&
               (if ceq c tab then true else if ceq c nl then true
                else negb ((code c <=? 31)%N || (code c =? 127)%N)))
  else mk_pst (p_nl st || ceq c nl) (Nat.max (p_found st) (p_max st)) 0
              (if ceq c tab then true else if ceq c nl then true
               else negb ((code c <=? 31)%N || (code c =? 127)%N)).
Proof.
  intros H. unfold pretty_step. rewrite H. destruct (ceq c sq); reflexivity.
Qed.

Lemma sq_char_ok c : ceq c sq = true ->
  (if ceq c tab then true else if ceq c nl then true
   else negb ((code c <=? 31)%N || (code c =? 127)%N)) = true.
Proof. intros H. apply Ascii.eqb_eq in H. subst c. reflexivity. Qed.

Lemma lit_char_ok_unfold c :
  (if ceq c tab then true else if ceq c nl then true
   else negb ((code c <=? 31)%N || (code c =? 127)%N)) = lit_char_ok c.
Proof. unfold lit_char_ok. destruct (ceq c tab), (ceq c nl); reflexivity. Qed.

Lemma fold_pretty_safe s : forall st,
  p_ok st = true ->
  p_ok (fold_left pretty_step s st) = true ->
  p_found (fold_left pretty_step s st) = 0 ->
  safe_from (p_found st) s = true.
Proof.
  induction s as [|c s IH]; intros st Hok Hfin Hf; cbn [fold_left safe_from] in *.
  - rewrite Hf. reflexivity.
  - rewrite (pretty_step_ok st c Hok) in Hfin, Hf.
    destruct (ceq c sq) eqn:Ec.
    + rewrite (sq_char_ok c Ec), andb_true_r in Hfin, Hf.
      destruct (negb (3 <=? S (p_found st))%nat) eqn:E3.
      * pose proof (fun H0 => IH _ H0 Hfin Hf) as IH'. cbn [p_ok p_found] in IH'.
        rewrite (IH' eq_refl), andb_true_r.
        apply negb_true_iff in E3. apply Nat.leb_gt in E3. apply Nat.ltb_lt. lia.
      * rewrite fold_pretty_notok in Hfin by reflexivity. discriminate.
    + rewrite lit_char_ok_unfold in Hfin, Hf.
      destruct (lit_char_ok c) eqn:El.
      * pose proof (fun H0 => IH _ H0 Hfin Hf) as IH'. cbn [p_ok p_found] in IH'.
        rewrite (IH' eq_refl). reflexivity.
      * rewrite fold_pretty_notok in Hfin by reflexivity. discriminate.
Qed.

Definition pmeasure (st : pst) : nat := Nat.max (p_found st) (p_max st).

Lemma fold_pretty_mono s : forall st,
  p_ok st = true -> p_ok (fold_left pretty_step s st) = true ->
  pmeasure st <= pmeasure (fold_left pretty_step s st).
Proof.
  induction s as [|c s IH]; intros st Hok Hfin; cbn [fold_left] in *; [lia|].
  destruct (p_ok (pretty_step st c)) eqn:Eo.
  - specialize (IH _ Eo Hfin). etransitivity; [|exact IH].
    rewrite (pretty_step_ok st c Hok). unfold pmeasure.
    destruct (ceq c sq); cbn [p_found p_max]; lia.
  - rewrite fold_pretty_notok in Hfin by exact Eo. discriminate.
Qed.

Lemma fold_pretty_nosq s : forall st,
  p_ok st = true -> p_ok (fold_left pretty_step s st) = true ->
  pmeasure (fold_left pretty_step s st) = 0 -> has_sq s = false.
Proof.
  induction s as [|c s IH]; intros st Hok Hfin Hm; cbn [fold_left] in *; [reflexivity|].
  change (has_sq (c :: s)) with (ceq c sq || has_sq s).
  destruct (p_ok (pretty_step st c)) eqn:Eo.
  - pose proof (fold_pretty_mono s _ Eo Hfin) as Hle.
    rewrite (IH _ Eo Hfin Hm), orb_false_r.
    destruct (ceq c sq) eqn:Ec; [|reflexivity]. exfalso.
    rewrite Hm in Hle. rewrite (pretty_step_ok st c Hok), Ec in Hle. unfold pmeasure in Hle.
    cbn [p_found p_max] in Hle. lia.
  - rewrite fold_pretty_notok in Hfin by exact Eo. discriminate.
Qed.

(* the declarative reading of do_pretty *)
Lemma do_pretty_literal s ml triple :
  do_pretty s = RLiteral ml triple ->
  safe_from 0 s = true /\ ml = has_nl s /\ (triple = false -> has_sq s = false).
Proof.
  unfold do_pretty. set (fin := fold_left pretty_step s (mk_pst false 0 0 true)).
  destruct (p_ok fin) eqn:Eok; cbn [negb orb]; [|discriminate].
  destruct (0 <? p_found fin)%nat eqn:Ef; [discriminate|].
  apply Nat.ltb_ge in Ef. assert (Hf0 : p_found fin = 0) by lia.
  pose proof (fold_pretty_safe s (mk_pst false 0 0 true) eq_refl Eok Hf0) as Hs. cbn [p_found] in Hs.
  pose proof (fold_pretty_nl s (mk_pst false 0 0 true)) as Hn. cbn [p_nl orb] in Hn. fold fin in Hn.
  destruct (p_nl fin) eqn:En.
  - intros H. inversion H; subst. repeat split; auto. discriminate.
  - destruct (1 <=? Nat.max (p_found fin) (p_max fin))%nat eqn:Em; intros H; inversion H; subst.
    + repeat split; auto. discriminate.
    + repeat split; auto. intros _. apply Nat.leb_gt in Em.
      apply (fold_pretty_nosq s (mk_pst false 0 0 true) eq_refl Eok). unfold pmeasure. fold fin. lia.
Qed.

Lemma do_pretty_std s ml : do_pretty s = RStd ml -> ml = has_nl s.
Proof.
  unfold do_pretty. set (fin := fold_left pretty_step s (mk_pst false 0 0 true)).
  pose proof (fold_pretty_nl s (mk_pst false 0 0 true)) as Hn. cbn [p_nl orb] in Hn. fold fin in Hn.
  destruct (negb (p_ok fin) || (0 <? p_found fin)%nat).
  - intros H. inversion H. congruence.
  - destruct (p_nl fin); [discriminate|].
    destruct (1 <=? Nat.max (p_found fin) (p_max fin))%nat; discriminate.
Qed.

(* ------------------------------------------------------------------ *)
(* Literal strings                                                     *)

Lemma lit_char_raw c : lit_char_ok c = true -> ceq c nl = false -> literal_raw_ok c = true.
Proof. destruct c as [[] [] [] [] [] [] [] []]; cbn; intros; congruence. Qed.

Lemma lit_char_not_cr c : lit_char_ok c = true -> ceq c cr = false.
Proof. destruct c as [[] [] [] [] [] [] [] []]; cbn; intros; congruence. Qed.

Lemma safe_from_nosq_any s : forall k, safe_from k s = true -> has_sq s = false -> safe_from 0 s = true.
Proof.
  destruct s as [|c s]; intros k H Hq; cbn [safe_from has_sq existsb] in *.
  - reflexivity.
  - apply orb_false_iff in Hq as [Hc _]. rewrite Hc in *. exact H.
Qed.

Lemma parse_literal_ok s : forall acc rest,
  safe_from 0 s = true -> has_nl s = false -> has_sq s = false ->
  parse_literal (s ++ sq :: rest) acc = Some (rev acc ++ s, rest).
Proof.
  induction s as [|c s IH]; intros acc rest Hs Hn Hq.
  - cbn. change (ceq sq sq) with true. cbn iota. rewrite rev'_spec, app_nil_r. reflexivity.
  - cbn [has_nl has_sq existsb] in Hn, Hq.
    apply orb_false_iff in Hn as [Hcn Hn]. apply orb_false_iff in Hq as [Hcq Hq].
    cbn [safe_from] in Hs. rewrite Hcq in Hs. apply andb_true_iff in Hs as [Hc Hs].
    cbn [app parse_literal]. rewrite Hcq, (lit_char_raw c Hc Hcn).
    rewrite (IH _ _ Hs Hn Hq). cbn [rev]. rewrite <- app_assoc. reflexivity.
Qed.

Lemma parse_mll_ok s : forall k acc rest,
  safe_from k s = true ->
  parse_mll (s ++ sq :: sq :: sq :: rest) acc = Some (rev acc ++ s, rest).
Proof.
  induction s as [|c s IH]; intros k acc rest Hs.
  - cbn. change (ceq sq sq) with true. cbn. rewrite rev'_spec, app_nil_r. reflexivity.
  - cbn [safe_from] in Hs. cbn [app parse_mll].
    destruct (ceq c sq) eqn:Ec.
    + apply andb_true_iff in Hs as [Hk Hs]. apply Nat.ltb_lt in Hk.
      assert (Hgo : parse_mll (s ++ sq :: sq :: sq :: rest) (c :: acc) = Some (rev acc ++ c :: s, rest)).
      { rewrite (IH _ _ _ Hs). cbn [rev]. rewrite <- app_assoc. reflexivity. }
      destruct s as [|c2 s].
      * cbn [safe_from] in Hs. discriminate.
      * cbn [app]. destruct s as [|c3 s].
        -- cbn [app]. cbn [safe_from] in Hs. destruct (ceq c2 sq) eqn:E2.
           ++ apply andb_true_iff in Hs as [_ Hs]. discriminate.
           ++ cbn [andb]. exact Hgo.
        -- cbn [app]. destruct (ceq c2 sq && ceq c3 sq) eqn:E23; [|exact Hgo].
           exfalso. apply andb_true_iff in E23 as [E2 E3].
           cbn [safe_from] in Hs. rewrite E2, E3 in Hs.
           apply andb_true_iff in Hs as [_ Hs]. apply andb_true_iff in Hs as [H3 _].
           apply Nat.ltb_lt in H3. lia.
    + apply andb_true_iff in Hs as [Hc Hs].
      destruct (ceq c nl) eqn:En.
      * rewrite (IH _ _ _ Hs). cbn [rev]. rewrite <- app_assoc. reflexivity.
      * rewrite (lit_char_not_cr c Hc), (lit_char_raw c Hc En).
        rewrite (IH _ _ _ Hs). cbn [rev]. rewrite <- app_assoc. reflexivity.
Qed.

Lemma trim_nl_safe s tl :
  safe_from 0 s = true -> has_nl s = false ->
  trim_nl (s ++ sq :: tl) = s ++ sq :: tl.
Proof.
  destruct s as [|c s]; intros Hs Hn.
  - reflexivity.
  - cbn [app trim_nl]. cbn [has_nl existsb] in Hn. apply orb_false_iff in Hn as [Hn _]. rewrite Hn.
    cbn [safe_from] in Hs. destruct (ceq c sq) eqn:Ec.
    + apply Ascii.eqb_eq in Ec. subst c. reflexivity.
    + apply andb_true_iff in Hs as [Hc _]. rewrite (lit_char_not_cr c Hc). reflexivity.
Qed.

(* ------------------------------------------------------------------ *)
(* toml_string_roundtrip                                               *)

(* For EVERY byte string s (the writer's choice of representation and its escaping cover all
   bytes; bytes >= 0x80 are copied by the writer and accepted by the reader), the token written
   for the string value s is read back as s, whatever follows it (except another quote
   character, which the writer never puts there). *)
Theorem toml_string_roundtrip : forall s rest,
  follow_ok rest = true ->
  parse_string (emit_value_str s ++ rest) = Some (s, rest).
Proof.
  intros s rest Hf. unfold emit_value_str.
  destruct (do_pretty s) as [ml triple|ml] eqn:Ed.
  - destruct (do_pretty_literal s ml triple Ed) as (Hs & Hml & Hq).
    destruct ml.
    + (* '''\n s ''' *)
      cbn [app parse_string]. change (ceq sq dq) with false. change (ceq sq sq) with true.
      cbn [andb]. cbn [trim_nl]. change (ceq nl nl) with true. cbn iota.
      rewrite <- app_assoc. cbn [app]. apply (parse_mll_ok s 0 [] rest Hs).
    + destruct triple.
      * (* ''' s ''' *)
        cbn [app parse_string]. change (ceq sq dq) with false. change (ceq sq sq) with true.
        cbn [andb]. rewrite <- app_assoc. cbn [app].
        rewrite (trim_nl_safe s _ Hs (eq_sym Hml)). apply (parse_mll_ok s 0 [] rest Hs).
      * (* ' s ' *)
        specialize (Hq eq_refl).
        assert (E : parse_literal (s ++ sq :: rest) [] = Some (s, rest))
          by (rewrite (parse_literal_ok s [] rest Hs (eq_sym Hml) Hq); reflexivity).
        cbn [app]. rewrite <- app_assoc. cbn [app].
        unfold parse_string. change (ceq sq dq) with false. change (ceq sq sq) with true. cbn iota.
        destruct s as [|c2 s].
        -- cbn [app] in *. destruct rest as [|c3 r]; [exact E|].
           change (ceq sq sq) with true. cbn [andb].
           cbn [follow_ok] in Hf. apply andb_true_iff in Hf as [_ Hf].
           apply negb_true_iff in Hf. rewrite Hf. exact E.
        -- cbn [app] in *. cbn [has_sq existsb] in Hq. apply orb_false_iff in Hq as [Hq _].
           rewrite Hq. cbn [andb]. destruct (s ++ sq :: rest); exact E.
  - apply parse_emit_std. exact Hf.
Qed.

(* ------------------------------------------------------------------ *)
(* toml_key_roundtrip                                                  *)

Lemma span_bare_app k rest :
  forallb is_bare_char k = true ->
  match rest with c :: _ => is_bare_char c = false | [] => True end ->
  span_bare (k ++ rest) = (k, rest).
Proof.
  intros Hk Hr. induction k as [|c k IH]; cbn [app span_bare].
  - destruct rest as [|d r]; [reflexivity|]. cbn [span_bare]. rewrite Hr. reflexivity.
  - cbn [forallb] in Hk. apply andb_true_iff in Hk as [Hc Hk]. rewrite Hc, (IH Hk). reflexivity.
Qed.

Lemma bare_not_quote c : is_bare_char c = true -> ceq c dq = false /\ ceq c sq = false.
Proof. destruct c as [[] [] [] [] [] [] [] []]; cbn; intros; split; congruence. Qed.

(* what follows a key: a space, a dot or a closing bracket -- anything that is not a bare-key
   character *)
Definition key_follow_ok (rest : bytes) : Prop :=
  match rest with c :: _ => is_bare_char c = false | [] => True end.

Theorem toml_key_roundtrip : forall k rest,
  key_follow_ok rest ->
  parse_key (escape_key k ++ rest) = Some (k, rest).
Proof.
  intros k rest Hr. unfold escape_key. destruct (bare_key_ok k) eqn:Eb.
  - unfold bare_key_ok in Eb. destruct k as [|c k]; [discriminate|].
    pose proof Eb as Eb'. cbn [forallb] in Eb'. apply andb_true_iff in Eb' as [Hc _].
    destruct (bare_not_quote c Hc) as [Hd Hs].
    cbn [app]. unfold parse_key. rewrite Hd, Hs.
    change (c :: k ++ rest) with ((c :: k) ++ rest).
    rewrite (span_bare_app (c :: k) rest Eb Hr). reflexivity.
  - unfold emit_std. cbn [app]. unfold parse_key. change (ceq dq dq) with true. cbn iota.
    rewrite <- app_assoc. cbn [app]. rewrite parse_basic_escape. reflexivity.
Qed.

(* a quoted key and a bare key are different tokens for different strings: reading is injective
   on what the writer produces (direct consequence, stated for the record) *)
Corollary escape_key_inj k1 k2 : escape_key k1 = escape_key k2 -> k1 = k2.
Proof.
  intros H.
  pose proof (toml_key_roundtrip k1 [] I) as H1. pose proof (toml_key_roundtrip k2 [] I) as H2.
  rewrite H in H1. rewrite H1 in H2. inversion H2. reflexivity.
Qed.
