(* C12 — proofs about the XML converter model (Xml.v). *)
From Ucg Require Import base.Bytes base.Bytes_Lemmas data.Val data.Xml.

(* ================================================================== *)
(* Part 0: generalities                                                *)

Arguments b : simpl never.

Section ValInd.
  Variable P : val -> Prop.
  Hypothesis Hempty : P VEmpty.
  Hypothesis Hbool : forall x, P (VBool x).
  Hypothesis Hint : forall z, P (VInt z).
  Hypothesis Hfloat : forall f, P (VFloat f).
  Hypothesis Hstr : forall s, P (VStr s).
  Hypothesis Hlist : forall l, Forall P l -> P (VList l).
  Hypothesis Htuple : forall fs, Forall (fun kv => P (snd kv)) fs -> P (VTuple fs).
  Hypothesis Henv : forall fs, P (VEnv fs).
  Hypothesis Hconstraint : P VConstraint.

  Fixpoint val_ind' (v : val) : P v :=
    match v with
    | VEmpty => Hempty
    | VBool x => Hbool x
    | VInt z => Hint z
    | VFloat f => Hfloat f
    | VStr s => Hstr s
    | VList l =>
      Hlist l ((fix go (l : list val) : Forall P l :=
                  match l with
                  | [] => Forall_nil _
                  | x :: xs => Forall_cons x (val_ind' x) (go xs)
                  end) l)
    | VTuple fs =>
      Htuple fs ((fix go (l : list (bytes * val)) : Forall (fun kv => P (snd kv)) l :=
                    match l with
                    | [] => Forall_nil _
                    | (k, v) :: r => Forall_cons (k, v) (val_ind' v) (go r)
                    end) fs)
    | VEnv fs => Henv fs
    | VConstraint => Hconstraint
    end.
End ValInd.

(* deep version: the property for a value and for the elements of lists found directly in it *)
Lemma val_deep_ind (Q : val -> Prop) :
  (forall v, (forall l, v = VList l -> Forall Q l) ->
             (forall fs, v = VTuple fs -> forall k l, In (k, VList l) fs -> Forall Q l) -> Q v) ->
  forall v, Q v.
Proof.
  intros H.
  assert (D : forall v, Q v /\ (forall l, v = VList l -> Forall Q l)).
  { induction v using val_ind'; (split; [apply H|]); try discriminate; try (intros; discriminate).
    - intros l' E; inversion E; subst. eapply Forall_impl; [|exact H0]. intros a [A _]; exact A.
    - intros l' E; inversion E; subst. eapply Forall_impl; [|exact H0]. intros a [A _]; exact A.
    - intros fs' E k l Hin; inversion E; subst.
      rewrite Forall_forall in H0. destruct (H0 _ Hin) as [_ A]. apply A; reflexivity. }
  intros v; apply D.
Qed.

Ltac ascii_cases c := destruct c as [[] [] [] [] [] [] [] []]; vm_compute; intuition congruence.

Ltac litkeys :=
  repeat match goal with
         | |- context [bytes_eqb (b ?x) (b ?y)] =>
           let r := eval vm_compute in (bytes_eqb (b x) (b y)) in
           change (bytes_eqb (b x) (b y)) with r
         | H : context [bytes_eqb (b ?x) (b ?y)] |- _ =>
           let r := eval vm_compute in (bytes_eqb (b x) (b y)) in
           change (bytes_eqb (b x) (b y)) with r in H
         end.

Lemma bytes_eqb_false x y : bytes_eqb x y = false <-> x <> y.
Proof.
  split.
  - intros E H; subst. rewrite bytes_eqb_refl in E; discriminate.
  - intros H. destruct (bytes_eqb x y) eqn:E; auto. apply bytes_eqb_spec in E; contradiction.
Qed.

Lemma bytes_eqb_sym x y : bytes_eqb x y = bytes_eqb y x.
Proof.
  destruct (bytes_eqb x y) eqn:E.
  - apply bytes_eqb_spec in E; subst. symmetry; apply bytes_eqb_refl.
  - symmetry. apply bytes_eqb_false. apply bytes_eqb_false in E. congruence.
Qed.

(* ================================================================== *)
(* Part A: write / write_node against the specification                *)

(* ---- lookups ---- *)
Lemma field_last_snoc k fs k' v :
  field_last k (fs ++ [(k', v)]) = if bytes_eqb k' k then Some v else field_last k fs.
Proof.
  induction fs as [|[k0 v0] fs IH]; cbn.
  - reflexivity.
  - rewrite IH. destruct (bytes_eqb k' k); reflexivity.
Qed.

Lemma field_last_nn_snoc k fs k' v :
  field_last_nn k (fs ++ [(k', v)]) =
  if bytes_eqb k' k && negb (is_empty v) then Some v else field_last_nn k fs.
Proof.
  induction fs as [|[k0 v0] fs IH]; cbn.
  - reflexivity.
  - rewrite IH. destruct (bytes_eqb k' k && negb (is_empty v)); reflexivity.
Qed.

Lemma ns_spec_snoc fs k v :
  ns_spec (fs ++ [(k, v)]) =
  match (if bytes_eqb k (b "ns") then ns_of_val v else None) with Some d => Some d | None => ns_spec fs end.
Proof.
  induction fs as [|[k0 v0] fs IH]; cbn.
  - destruct (if bytes_eqb k (b "ns") then ns_of_val v else None); reflexivity.
  - rewrite IH. destruct (if bytes_eqb k (b "ns") then ns_of_val v else None); reflexivity.
Qed.

Lemma field_last_in k fs v : field_last k fs = Some v -> In (k, v) fs.
Proof.
  induction fs as [|[k0 v0] fs IH]; cbn; [discriminate|].
  destruct (field_last k fs) eqn:E.
  - intros H; inversion H; subst. right; auto.
  - destruct (bytes_eqb k0 k) eqn:K; [|discriminate].
    apply bytes_eqb_spec in K; subst. intros H; inversion H; left; reflexivity.
Qed.

Lemma field_last_nn_in k fs v : field_last_nn k fs = Some v -> In (k, v) fs /\ v <> VEmpty.
Proof.
  induction fs as [|[k0 v0] fs IH]; cbn; [discriminate|].
  destruct (field_last_nn k fs) eqn:E.
  - intros H; inversion H; subst. destruct (IH eq_refl). split; auto.
  - destruct (bytes_eqb k0 k) eqn:K; cbn; [|discriminate].
    destruct (is_empty v0) eqn:Em; cbn; [discriminate|].
    apply bytes_eqb_spec in K; subst. intros H; inversion H; subst. split; [left; reflexivity|].
    intros ->; discriminate.
Qed.

Lemma in_field_last k fs v : In (k, v) fs -> exists w, field_last k fs = Some w.
Proof.
  induction fs as [|[k0 v0] fs IH]; cbn; [tauto|].
  intros [H|H].
  - inversion H; subst. destruct (field_last k fs); eauto. rewrite bytes_eqb_refl; eauto.
  - destruct (IH H) as [w ->]; eauto.
Qed.

Lemma in_field_last_nn k fs v : In (k, v) fs -> v <> VEmpty -> exists w, field_last_nn k fs = Some w.
Proof.
  induction fs as [|[k0 v0] fs IH]; cbn; [tauto|].
  intros [H|H] Hv.
  - inversion H; subst. destruct (field_last_nn k fs); eauto. rewrite bytes_eqb_refl.
    destruct v; cbn; eauto. contradiction.
  - destruct (IH H Hv) as [w ->]; eauto.
Qed.

Lemma field_last_none k fs v : field_last k fs = None -> ~ In (k, v) fs.
Proof. intros E H. destruct (in_field_last _ _ _ H) as [w E']. congruence. Qed.

(* ---- the result monad ---- *)
Lemma xbind_ok {A B} (r : xres A) (f : A -> xres B) y :
  xbind r f = XOk y -> exists a, r = XOk a /\ f a = XOk y.
Proof. destruct r; cbn; [eauto|discriminate]. Qed.

Lemma xbind_err {A B} (r : xres A) (f : A -> xres B) e :
  xbind r f = XErr e -> r = XErr e \/ exists a, r = XOk a /\ f a = XErr e.
Proof. destruct r; cbn; [eauto|]. intros H; inversion H; auto. Qed.

Lemma get_str_ok v s : get_str v = XOk s -> v = VStr s.
Proof. destruct v; cbn; try discriminate. intros H; inversion H; reflexivity. Qed.

Definition is_str (v : val) : bool := match v with VStr _ => true | _ => false end.

Lemma get_str_err v e : get_str v = XErr e -> is_str v = false.
Proof. destruct v; cbn; auto; discriminate. Qed.
Lemma is_str_false_err v : is_str v = false -> get_str v = XErr ENotString.
Proof. destruct v; cbn; auto; discriminate. Qed.

Lemma get_xml_chars_ok s s' : get_xml_chars s = XOk s' -> s' = s /\ xml_chars_ok s = true.
Proof. unfold get_xml_chars. destruct (xml_chars_ok s); [|discriminate]. intros H; inversion H; auto. Qed.
Lemma get_xml_chars_err s e : get_xml_chars s = XErr e -> xml_chars_ok s = false.
Proof. unfold get_xml_chars. destruct (xml_chars_ok s); [discriminate|auto]. Qed.
Lemma get_xml_chars_bad s : xml_chars_ok s = false -> get_xml_chars s = XErr EBadChar.
Proof. unfold get_xml_chars. intros ->. reflexivity. Qed.

(* ---- the ns tuple ---- *)
Lemma ns_scan_spec nfs : forall p0 u0 p u,
  ns_scan nfs p0 u0 = XOk (p, u) ->
  p = match field_last_nn (b "prefix") nfs with Some w => str_or_empty (Some w) | None => p0 end /\
  u = match field_last_nn (b "uri") nfs with Some w => str_or_empty (Some w) | None => u0 end.
Proof.
  induction nfs as [|[k v] nfs IH]; intros p0 u0 p u; cbn.
  - intros H; inversion H; auto.
  - destruct (is_empty v) eqn:Em.
    + intros H. destruct (IH _ _ _ _ H) as [-> ->].
      rewrite !andb_false_r.
      destruct (field_last_nn (b "prefix") nfs), (field_last_nn (b "uri") nfs); auto.
    + rewrite !andb_true_r.
      destruct (bytes_eqb k (b "uri")) eqn:Ku.
      * apply bytes_eqb_spec in Ku; subst k. litkeys.
        intros H. apply xbind_ok in H. destruct H as (s & Hs & H). apply get_str_ok in Hs; subst v.
        destruct (IH _ _ _ _ H) as [-> ->].
        destruct (field_last_nn (b "prefix") nfs), (field_last_nn (b "uri") nfs); auto.
      * destruct (bytes_eqb k (b "prefix")) eqn:Kp.
        -- intros H. apply xbind_ok in H. destruct H as (s & Hs & H). apply get_str_ok in Hs; subst v.
           destruct (IH _ _ _ _ H) as [-> ->].
           destruct (field_last_nn (b "prefix") nfs), (field_last_nn (b "uri") nfs); auto.
        -- intros H. destruct (IH _ _ _ _ H) as [-> ->].
           destruct (field_last_nn (b "prefix") nfs), (field_last_nn (b "uri") nfs); auto.
Qed.

(* an `ns` tuple is bad when a non-NULL uri/prefix field is not a string *)
Definition ns_field_bad (kv : bytes * val) : bool :=
  negb (is_empty (snd kv)) && (bytes_eqb (fst kv) (b "uri") || bytes_eqb (fst kv) (b "prefix")) &&
  negb (is_str (snd kv)).

Lemma ns_scan_err_iff nfs : forall p0 u0,
  (exists e, ns_scan nfs p0 u0 = XErr e) <-> existsb ns_field_bad nfs = true.
Proof.
  induction nfs as [|[k v] nfs IH]; intros p0 u0; cbn.
  - split; [intros [e H]; discriminate|discriminate].
  - unfold ns_field_bad at 1; cbn [fst snd].
    destruct (is_empty v) eqn:Em; cbn [negb andb orb]; [apply IH|].
    destruct (bytes_eqb k (b "uri")) eqn:Ku; cbn [orb andb].
    + destruct v; cbn in *; try discriminate; try (split; eauto; fail). apply IH.
    + destruct (bytes_eqb k (b "prefix")) eqn:Kp; cbn [orb andb].
      * destruct v; cbn in *; try discriminate; try (split; eauto; fail). apply IH.
      * apply IH.
Qed.

Lemma ns_scan_err_kind nfs : forall p0 u0 e, ns_scan nfs p0 u0 = XErr e -> e = ENotString.
Proof.
  induction nfs as [|[k v] nfs IH]; intros p0 u0 e; cbn; [discriminate|].
  destruct (is_empty v); [apply IH|].
  destruct (bytes_eqb k (b "uri")).
  { destruct v; cbn; try (intros H; inversion H; reflexivity). apply IH. }
  destruct (bytes_eqb k (b "prefix")).
  { destruct v; cbn; try (intros H; inversion H; reflexivity). apply IH. }
  apply IH.
Qed.

(* ---- one field ---- *)
Lemma key_cases k :
  k = b "name" \/ k = b "ns" \/ k = b "attrs" \/ k = b "children" \/ k = b "text" \/
  (bytes_eqb k (b "name") = false /\ bytes_eqb k (b "ns") = false /\ bytes_eqb k (b "attrs") = false /\
   bytes_eqb k (b "children") = false /\ bytes_eqb k (b "text") = false).
Proof.
  destruct (bytes_eqb k (b "name")) eqn:E1; [apply bytes_eqb_spec in E1; auto|].
  destruct (bytes_eqb k (b "ns")) eqn:E2; [apply bytes_eqb_spec in E2; auto|].
  destruct (bytes_eqb k (b "attrs")) eqn:E3; [apply bytes_eqb_spec in E3; auto|].
  destruct (bytes_eqb k (b "children")) eqn:E4; [apply bytes_eqb_spec in E4; auto 6|].
  destruct (bytes_eqb k (b "text")) eqn:E5; [apply bytes_eqb_spec in E5; auto 6|].
  auto 10.
Qed.

(* whether a field of a node tuple makes the scan fail: independent of the state *)
Definition field_okb (k : bytes) (v : val) : bool :=
  if bytes_eqb k (b "name") then is_str v
  else if bytes_eqb k (b "ns") then
    match v with VTuple nfs => negb (existsb ns_field_bad nfs) | _ => true end
  else if bytes_eqb k (b "attrs") then is_empty v || is_tuple v
  else if bytes_eqb k (b "children") then is_empty v || is_list v
  else if bytes_eqb k (b "text") then is_empty v || is_str v
  else true.

(* the state the scan must have reached after the fields [fs] *)
Definition node_inv (rec : val -> xres (list xevent)) (fs : list (bytes * val)) (st : nstate) : Prop :=
  field_last (b "name") fs = option_map VStr (s_name st) /\
  field_last_nn (b "attrs") fs = option_map VTuple (s_attrs st) /\
  (exists ol, field_last_nn (b "children") fs = option_map VList ol /\ s_kids st = option_map (map rec) ol) /\
  field_last_nn (b "text") fs = option_map VStr (s_text st) /\
  ns_spec fs = s_ns st.

Lemma scan_snoc rec fs k v st :
  scan rec (fs ++ [(k, v)]) st = xbind (scan rec fs st) (fun st1 => step_field rec st1 k v).
Proof.
  revert st; induction fs as [|[k0 v0] fs IH]; intros st; cbn.
  - destruct (step_field rec st k v); reflexivity.
  - destruct (step_field rec st k0 v0); cbn; auto.
Qed.

Lemma step_field_ok_iff rec st k v :
  (exists st', step_field rec st k v = XOk st') <-> field_okb k v = true.
Proof.
  unfold step_field, field_okb.
  destruct (bytes_eqb k (b "name")).
  { destruct v; cbn; split; eauto; try discriminate; intros [? H]; discriminate. }
  destruct (bytes_eqb k (b "ns")).
  { destruct v; cbn; try (split; eauto; fail).
    destruct (ns_scan fs [] []) eqn:E; cbn.
    - destruct (existsb ns_field_bad fs) eqn:B.
      + apply (ns_scan_err_iff fs [] []) in B. destruct B as [e B]; congruence.
      + split; auto. intros _. destruct (nonempty (snd a) && nonempty (fst a)); eauto.
    - assert (B : existsb ns_field_bad fs = true) by (apply (ns_scan_err_iff fs [] []); eauto).
      rewrite B; cbn. split; [intros [? H]; discriminate|discriminate]. }
  destruct (bytes_eqb k (b "attrs")).
  { destruct v; cbn; split; eauto; try discriminate; intros [? H]; discriminate. }
  destruct (bytes_eqb k (b "children")).
  { destruct v; cbn; split; eauto; try discriminate; intros [? H]; discriminate. }
  destruct (bytes_eqb k (b "text")).
  { destruct v; cbn; split; eauto; try discriminate; intros [? H]; discriminate. }
  split; eauto.
Qed.

Lemma scan_ok_iff rec fs : forall st,
  (exists st', scan rec fs st = XOk st') <-> forallb (fun kv => field_okb (fst kv) (snd kv)) fs = true.
Proof.
  induction fs as [|[k v] fs IH]; intros st; cbn.
  - split; eauto.
  - rewrite andb_true_iff. split.
    + intros [st' H]. apply xbind_ok in H. destruct H as (st1 & H1 & H2). split.
      * apply (step_field_ok_iff rec st); eauto.
      * apply (IH st1); eauto.
    + intros [H1 H2]. apply (step_field_ok_iff rec st) in H1. destruct H1 as [st1 H1].
      rewrite H1; cbn. apply IH; auto.
Qed.

Lemma ns_of_val_tuple nfs p u :
  ns_scan nfs [] [] = XOk (p, u) ->
  ns_of_val (VTuple nfs) = if nonempty u && nonempty p then Some (p, u) else None.
Proof.
  intros H. apply ns_scan_spec in H. destruct H as [Hp Hu]. cbn.
  assert (P : str_or_empty (field_last_nn (b "prefix") nfs) = p).
  { rewrite Hp. destruct (field_last_nn (b "prefix") nfs); reflexivity. }
  assert (U : str_or_empty (field_last_nn (b "uri") nfs) = u).
  { rewrite Hu. destruct (field_last_nn (b "uri") nfs); reflexivity. }
  rewrite P, U. reflexivity.
Qed.

Lemma node_inv_step rec fs st k v st' :
  node_inv rec fs st -> step_field rec st k v = XOk st' -> node_inv rec (fs ++ [(k, v)]) st'.
Proof.
  intros (In1 & In2 & (ol & In3 & In3') & In4 & In5) H. unfold node_inv.
  rewrite field_last_snoc, !field_last_nn_snoc, ns_spec_snoc.
  destruct (key_cases k) as [->|[->|[->|[->|[->|(E1 & E2 & E3 & E4 & E5)]]]]]; unfold step_field in H; litkeys; cbn [andb].
  - (* name *)
    apply xbind_ok in H. destruct H as (s & Hs & H). apply get_str_ok in Hs; subst v. inversion H; subst; cbn.
    repeat split; eauto.
  - (* ns *)
    destruct v; try (inversion H; subst; cbn; repeat split; eauto; fail).
    apply xbind_ok in H. destruct H as ([p u] & Hs & H). cbn [fst snd] in H.
    rewrite (ns_of_val_tuple _ _ _ Hs).
    destruct (nonempty u && nonempty p); inversion H; subst; cbn; repeat split; eauto.
  - (* attrs *)
    destruct (is_empty v) eqn:Em; cbn [negb].
    + inversion H; subst. repeat split; eauto.
    + destruct v; try discriminate. inversion H; subst; cbn. repeat split; eauto.
  - (* children *)
    destruct (is_empty v) eqn:Em; cbn [negb].
    + inversion H; subst. repeat split; eauto.
    + destruct v; try discriminate. inversion H; subst; cbn. repeat split; eauto.
      exists (Some l); split; reflexivity.
  - (* text *)
    destruct (is_empty v) eqn:Em; cbn [negb].
    + inversion H; subst. repeat split; eauto.
    + apply xbind_ok in H. destruct H as (s & Hs & H). apply get_str_ok in Hs; subst v. inversion H; subst; cbn.
      repeat split; eauto.
  - rewrite E1, E2, E3, E4, E5 in *. cbn [andb]. inversion H; subst. repeat split; eauto.
Qed.

Lemma scan_inv rec fs : forall st, scan rec fs nstate0 = XOk st -> node_inv rec fs st.
Proof.
  induction fs as [|[k v] fs IH] using rev_ind; intros st H.
  - cbn in H; inversion H; subst. unfold node_inv; cbn. repeat split; auto. exists None; auto.
  - rewrite scan_snoc in H. apply xbind_ok in H. destruct H as (st1 & H1 & H2).
    eapply node_inv_step; eauto.
Qed.

(* ---- attributes and children ---- *)
Lemma attr_list_ok afs al : attr_list afs = XOk al -> al = attrs_of afs.
Proof.
  revert al; induction afs as [|[k v] afs IH]; intros al; cbn.
  - intros H; inversion H; reflexivity.
  - destruct v; cbn; try discriminate; auto.
    intros H. apply xbind_ok in H. destruct H as (s' & Hs & H). apply get_xml_chars_ok in Hs. destruct Hs as [-> _].
    apply xbind_ok in H. destruct H as (rest & Hr & H). inversion H; subst.
    rewrite (IH _ Hr); reflexivity.
Qed.

(* an attribute value that stops the attribute loop: not NULL and not a string of XML characters *)
Definition attr_bad (kv : bytes * val) : bool :=
  negb (is_empty (snd kv)) && negb (match snd kv with VStr s => xml_chars_ok s | _ => false end).

Lemma attr_list_err_iff afs : (exists e, attr_list afs = XErr e) <-> existsb attr_bad afs = true.
Proof.
  induction afs as [|[k v] afs IH]; cbn.
  - split; [intros [? H]; discriminate|discriminate].
  - unfold attr_bad at 1; cbn [snd].
    destruct v; cbn; try (split; eauto; fail); try apply IH.
    unfold get_xml_chars. destruct (xml_chars_ok s); cbn; [|split; eauto].
    destruct (attr_list afs) eqn:E; cbn.
    + rewrite <- IH. split; intros [? H]; discriminate.
    + rewrite <- IH. split; eauto.
Qed.

Lemma xconcat_ok_map {A} (f : val -> xres (list A)) (g : val -> list A) l :
  Forall (fun v => forall evs, f v = XOk evs -> evs = g v) l ->
  forall evs, xconcat (map f l) = XOk evs -> evs = flat_map g l.
Proof.
  induction 1 as [|v l Hv Hl IH]; cbn; intros evs H.
  - inversion H; reflexivity.
  - apply xbind_ok in H. destruct H as (a & Ha & H). apply xbind_ok in H. destruct H as (r & Hr & H).
    inversion H; subst. rewrite (Hv _ Ha), (IH _ Hr). reflexivity.
Qed.

Lemma xconcat_err_iff {A} (l : list (xres (list A))) :
  (exists e, xconcat l = XErr e) <-> exists e, In (XErr e) l.
Proof.
  induction l as [|r l IH]; cbn.
  - split; [intros [? H]; discriminate|intros [? []]].
  - destruct r as [a|e]; cbn.
    + destruct (xconcat l) eqn:E; cbn.
      * split; [intros [? H]; discriminate|].
        intros [e [H|H]]; [discriminate|]. assert (X : exists e, In (XErr e) l) by eauto.
        apply IH in X. destruct X; discriminate.
      * split; [|eauto]. intros _. destruct IH as [IH _]. destruct IH as [e' He']; eauto.
    + split; eauto.
Qed.

(* ---- specification lookups in the direction of the scan ---- *)
Lemma kids_spec_eq rec fs :
  kids_spec rec fs =
  match field_last_nn (b "children") fs with
  | Some (VList l) => Some (flat_map rec l)
  | Some _ => Some []
  | None => None
  end.
Proof.
  induction fs as [|[k v] fs IH]; cbn; [reflexivity|].
  rewrite IH. destruct (field_last_nn (b "children") fs) as [w|]; [destruct w; reflexivity|].
  destruct (bytes_eqb k (b "children")); cbn; [|reflexivity].
  destruct v; reflexivity.
Qed.

(* the readable unfolding of [nodes_of] on tuples *)
Theorem nodes_of_tuple fs :
  nodes_of (VTuple fs) =
  match field_last (b "name") fs with
  | Some (VStr name) =>
    [XElem name (opt_list (ns_spec fs)) (attrs_spec fs)
           (match field_last_nn (b "children") fs with Some (VList l) => flat_map nodes_of l | _ => [] end)]
  | Some _ => []
  | None => match field_last_nn (b "text") fs with Some (VStr s) => [XText s] | _ => [] end
  end.
Proof.
  cbn [nodes_of]. rewrite kids_spec_eq.
  destruct (field_last (b "name") fs) as [[]|]; try reflexivity.
  destruct (field_last_nn (b "children") fs) as [[]|]; reflexivity.
Qed.

Lemma hd_error_opt_list {A} (o : option A) : hd_error (opt_list o) = o.
Proof. destruct o; reflexivity. Qed.

(* ---- write_node produces the events of the described nodes ---- *)
Lemma write_node_events : forall v evs,
  write_node v = XOk evs -> evs = flat_map events_of_node (nodes_of v).
Proof.
  induction v using val_deep_ind. rename H into Hl, H0 into Ht.
  intros evs Hw. destruct v; try discriminate.
  - cbn [write_node] in Hw. apply xbind_ok in Hw. destruct Hw as (s' & Hs & Hw).
    apply get_xml_chars_ok in Hs. destruct Hs as [-> _]. inversion Hw; reflexivity.
  - cbn [write_node] in Hw. unfold write_tuple in Hw.
    apply xbind_ok in Hw. destruct Hw as (st & Hscan & Hfin).
    destruct (scan_inv _ _ _ Hscan) as (In1 & In2 & (ol & In3 & In3') & In4 & In5).
    rewrite nodes_of_tuple. unfold finish in Hfin.
    destruct (s_name st) as [name|] eqn:En; cbn in In1; rewrite In1.
    + destruct (s_text st) as [t|] eqn:Et; [discriminate|].
      apply xbind_ok in Hfin. destruct Hfin as (al & Hal & Hfin).
      apply xbind_ok in Hfin. destruct Hfin as (kevs & Hk & Hfin). inversion Hfin; subst evs.
      cbn [flat_map events_of_node app]. rewrite app_nil_r, hd_error_opt_list, In5.
      f_equal; [f_equal|].
      * unfold attrs_spec. rewrite In2. destruct (s_attrs st); cbn.
        -- apply attr_list_ok; auto.
        -- inversion Hal; reflexivity.
      * f_equal. rewrite In3. rewrite In3' in Hk. destruct ol as [l|]; cbn in *.
        -- destruct (field_last_nn_in _ _ _ In3) as [Hin _].
           specialize (Ht _ eq_refl _ _ Hin).
           rewrite (xconcat_ok_map write_node (fun v => flat_map events_of_node (nodes_of v)) l Ht _ Hk).
           clear. induction l; cbn; auto. rewrite flat_map_app. f_equal; auto.
        -- inversion Hk; reflexivity.
    + rewrite In4. destruct (s_text st) as [t|]; [|inversion Hfin; reflexivity].
      apply xbind_ok in Hfin. destruct Hfin as (t' & Hc & Hfin).
      apply get_xml_chars_ok in Hc. destruct Hc as [-> _]. inversion Hfin; reflexivity.
Qed.

(* ---- the document level ---- *)
Definition doc_inv (fs : list (bytes * val)) (st : dstate) : Prop :=
  field_last (b "version") fs = option_map VStr (d_version st) /\
  field_last (b "encoding") fs = option_map VStr (d_encoding st) /\
  d_standalone st = match field_last (b "standalone") fs with Some (VBool x) => Some x | _ => None end /\
  field_last (b "root") fs = d_root st.

Lemma dscan_snoc fs k v st :
  dscan (fs ++ [(k, v)]) st = xbind (dscan fs st) (fun st1 => dstep st1 k v).
Proof.
  revert st; induction fs as [|[k0 v0] fs IH]; intros st; cbn.
  - destruct (dstep st k v); reflexivity.
  - destruct (dstep st k0 v0); cbn; auto.
Qed.

Lemma dkey_cases k :
  k = b "version" \/ k = b "encoding" \/ k = b "standalone" \/ k = b "root" \/
  (bytes_eqb k (b "version") = false /\ bytes_eqb k (b "encoding") = false /\
   bytes_eqb k (b "standalone") = false /\ bytes_eqb k (b "root") = false).
Proof.
  destruct (bytes_eqb k (b "version")) eqn:E1; [apply bytes_eqb_spec in E1; auto|].
  destruct (bytes_eqb k (b "encoding")) eqn:E2; [apply bytes_eqb_spec in E2; auto|].
  destruct (bytes_eqb k (b "standalone")) eqn:E3; [apply bytes_eqb_spec in E3; auto|].
  destruct (bytes_eqb k (b "root")) eqn:E4; [apply bytes_eqb_spec in E4; auto 6|].
  auto 10.
Qed.

Lemma dscan_inv fs : forall st, dscan fs (mkd None None None None) = XOk st -> doc_inv fs st.
Proof.
  induction fs as [|[k v] fs IH] using rev_ind; intros st H.
  - cbn in H; inversion H; subst. unfold doc_inv; cbn; auto.
  - rewrite dscan_snoc in H. apply xbind_ok in H. destruct H as (st1 & H1 & H2).
    destruct (IH _ H1) as (I1 & I2 & I3 & I4). unfold doc_inv. rewrite !field_last_snoc.
    destruct (dkey_cases k) as [->|[->|[->|[->|(E1 & E2 & E3 & E4)]]]]; unfold dstep in H2; litkeys.
    + apply xbind_ok in H2. destruct H2 as (s & Hs & H2). apply get_str_ok in Hs; subst v.
      inversion H2; subst; cbn. auto.
    + apply xbind_ok in H2. destruct H2 as (s & Hs & H2). apply get_str_ok in Hs; subst v.
      inversion H2; subst; cbn. auto.
    + inversion H2; subst; cbn. auto.
    + inversion H2; subst; cbn. auto.
    + rewrite E1, E2, E3, E4 in *. inversion H2; subst. auto.
Qed.

Definition dfield_okb (k : bytes) (v : val) : bool :=
  if bytes_eqb k (b "version") then is_str v
  else if bytes_eqb k (b "encoding") then is_str v else true.

Lemma dstep_ok_iff st k v : (exists st', dstep st k v = XOk st') <-> dfield_okb k v = true.
Proof.
  unfold dstep, dfield_okb.
  destruct (bytes_eqb k (b "version")).
  { destruct v; cbn; split; eauto; try discriminate; intros [? H]; discriminate. }
  destruct (bytes_eqb k (b "encoding")).
  { destruct v; cbn; split; eauto; try discriminate; intros [? H]; discriminate. }
  destruct (bytes_eqb k (b "standalone")); [split; eauto|].
  destruct (bytes_eqb k (b "root")); split; eauto.
Qed.

Lemma dscan_ok_iff fs : forall st,
  (exists st', dscan fs st = XOk st') <-> forallb (fun kv => dfield_okb (fst kv) (snd kv)) fs = true.
Proof.
  induction fs as [|[k v] fs IH]; intros st; cbn.
  - split; eauto.
  - rewrite andb_true_iff. split.
    + intros [st' H]. apply xbind_ok in H. destruct H as (st1 & H1 & H2). split.
      * apply (dstep_ok_iff st); eauto.
      * apply (IH st1); eauto.
    + intros [H1 H2]. apply (dstep_ok_iff st) in H1. destruct H1 as [st1 H1].
      rewrite H1; cbn. apply IH; auto.
Qed.

(* ---- trees and events ---- *)
Section XnodeInd.
  Variable P : xnode -> Prop.
  Hypothesis Htext : forall s, P (XText s).
  Hypothesis Helem : forall name ns attrs kids, Forall P kids -> P (XElem name ns attrs kids).
  Fixpoint xnode_ind' (n : xnode) : P n :=
    match n with
    | XText s => Htext s
    | XElem name ns attrs kids =>
      Helem name ns attrs kids
            ((fix go (l : list xnode) : Forall P l :=
                match l with
                | [] => Forall_nil _
                | x :: xs => Forall_cons x (xnode_ind' x) (go xs)
                end) kids)
    end.
End XnodeInd.

(* at most one namespace declaration per element: all the DSL can say *)
Fixpoint ns1 (n : xnode) : bool :=
  match n with
  | XText _ => true
  | XElem _ ns _ kids => (List.length ns <=? 1) && forallb ns1 kids
  end.

Lemma opt_list_hd_error {A} (l : list A) : (List.length l <=? 1) = true -> opt_list (hd_error l) = l.
Proof. destruct l as [|a [|c l]]; cbn; auto; discriminate. Qed.

(* tree_of_events inverts events_of_node *)
Lemma toe_node n : ns1 n = true -> forall r stack cur,
  toe (events_of_node n ++ r) stack cur = toe r stack (n :: cur).
Proof.
  induction n as [s|name ns attrs kids IH] using xnode_ind'; intros Hn r stack cur.
  - reflexivity.
  - cbn in Hn. apply andb_true_iff in Hn. destruct Hn as [Hns Hk].
    cbn [events_of_node]. rewrite <- app_comm_cons. cbn [toe].
    assert (K : forall l, Forall (fun n => ns1 n = true -> forall r stack cur,
                  toe (events_of_node n ++ r) stack cur = toe r stack (n :: cur)) l ->
                forallb ns1 l = true -> forall r stack cur,
                toe (flat_map events_of_node l ++ r) stack cur = toe r stack (rev l ++ cur)).
    { clear. induction 1 as [|x l Hx Hl IHl]; intros Hk r stack cur; [reflexivity|].
      cbn in Hk. apply andb_true_iff in Hk. destruct Hk as [Hx' Hk].
      cbn [flat_map]. rewrite <- app_assoc, Hx, IHl by auto. cbn [rev]. rewrite <- app_assoc. reflexivity. }
    rewrite <- app_assoc, K by auto. cbn [app toe]. rewrite app_nil_r, rev_involutive.
    rewrite opt_list_hd_error by auto. reflexivity.
Qed.

Lemma toe_nodes l : forallb ns1 l = true -> forall r stack cur,
  toe (flat_map events_of_node l ++ r) stack cur = toe r stack (rev l ++ cur).
Proof.
  induction l as [|x l IH]; intros Hk r stack cur; [reflexivity|].
  cbn in Hk. apply andb_true_iff in Hk. destruct Hk as [Hx Hk].
  cbn [flat_map]. rewrite <- app_assoc, toe_node, IH by auto. cbn [rev]. rewrite <- app_assoc. reflexivity.
Qed.

Lemma nodes_of_ns1 : forall v, forallb ns1 (nodes_of v) = true.
Proof.
  induction v using val_deep_ind. rename H into Hl, H0 into Ht.
  destruct v; try reflexivity.
  rewrite nodes_of_tuple.
  destruct (field_last (b "name") fs) as [[]|]; try reflexivity.
  - cbn. rewrite andb_true_r. apply andb_true_iff; split.
    + destruct (ns_spec fs); reflexivity.
    + destruct (field_last_nn (b "children") fs) as [[]|] eqn:E; try reflexivity.
      destruct (field_last_nn_in _ _ _ E) as [Hin _]. specialize (Ht _ eq_refl _ _ Hin).
      clear -Ht. induction Ht; cbn; auto. rewrite forallb_app, H, IHHt. reflexivity.
  - destruct (field_last_nn (b "text") fs) as [[]|]; reflexivity.
Qed.

Theorem tree_of_events_of_tree t :
  forallb ns1 (x_body t) = true -> x_decl t <> None -> tree_of_events (events_of_tree t) = Some t.
Proof.
  destruct t as [[[ver enc sa]|] body]; cbn [x_decl x_body]; intros Hb Hd; [|congruence].
  unfold events_of_tree; cbn [x_decl x_body x_ver x_enc x_sa app tree_of_events].
  rewrite <- (app_nil_r (flat_map events_of_node body)), toe_nodes by auto.
  cbn. rewrite app_nil_r, rev_involutive. reflexivity.
Qed.

(* ---- C12 headline 1: the events written are those of the described tree ---- *)
(* an element value: a tuple with a field called name *)
Definition is_element_val (r : val) : Prop := exists rfs n, r = VTuple rfs /\ In (b "name", n) rfs.

Lemma root_is_element_iff r : root_is_element r = true <-> is_element_val r.
Proof.
  unfold is_element_val. destruct r; cbn [root_is_element]; try (split; [discriminate|intros (? & ? & E & _); discriminate]).
  split.
  - intros H. apply existsb_exists in H. destruct H as ([k v] & Hin & Hk). cbn [fst] in Hk.
    apply bytes_eqb_spec in Hk; subst. eauto.
  - intros (rfs & n & E & Hin). inversion E; subst. apply existsb_exists. exists (b "name", n). split; auto.
Qed.

(* an element value that write_node accepts describes exactly one element *)
Lemma element_val_nodes r evs :
  root_is_element r = true -> write_node r = XOk evs ->
  exists name ns attrs kids, nodes_of r = [XElem name ns attrs kids].
Proof.
  intros Hr Hw. apply root_is_element_iff in Hr. destruct Hr as (rfs & n & -> & Hin).
  cbn [write_node] in Hw. unfold write_tuple in Hw. apply xbind_ok in Hw. destruct Hw as (st & Hscan & _).
  destruct (scan_inv _ _ _ Hscan) as (In1 & _).
  destruct (in_field_last _ _ _ Hin) as [w Hw]. rewrite Hw in In1.
  destruct (s_name st) as [nm|]; [|discriminate]. cbn in In1. inversion In1; subst w.
  rewrite nodes_of_tuple, Hw. eauto.
Qed.

Lemma to_xml_events d evs :
  to_xml d = Some evs ->
  exists ver enc sa body,
    evs = EStartDoc ver enc sa :: flat_map events_of_node body /\
    forallb ns1 body = true /\
    (exists name ns attrs kids, body = [XElem name ns attrs kids]) /\
    tree_of_doc d = Some (mkdoc (Some (mkdecl ver (match enc with Some e => e | None => default_enc end) sa)) body).
Proof.
  unfold to_xml. destruct (to_xml_r d) as [e|] eqn:E; [|discriminate]. intros H; inversion H; subst e; clear H.
  destruct d; try discriminate. cbn [to_xml_r] in E.
  apply xbind_ok in E. destruct E as (st & Hscan & E).
  destruct (dscan_inv _ _ Hscan) as (I1 & I2 & I3 & I4).
  destruct (d_root st) as [root|] eqn:Er; [|discriminate].
  apply xbind_ok in E. destruct E as (ver & Hver & E).
  destruct (root_is_element root) eqn:Hre; [|discriminate]. cbn [negb] in E.
  apply xbind_ok in E. destruct E as (nevs & Hn & E). inversion E; subst evs.
  exists ver, (d_encoding st), (d_standalone st), (nodes_of root). split; [|split; [|split]].
  - f_equal. apply write_node_events; auto.
  - apply nodes_of_ns1.
  - eapply element_val_nodes; eauto.
  - cbn [tree_of_doc]. rewrite I4, I1, I2, <- I3.
    assert (V : (match option_map VStr (d_version st) with Some (VStr s) => Some s | _ => None end) = d_version st)
      by (destruct (d_version st); reflexivity).
    rewrite V, Hver, Hre. destruct (d_encoding st); reflexivity.
Qed.

Theorem doc_to_tree_strong : forall d evs,
  to_xml d = Some evs -> tree_of_events evs = tree_of_doc d.
Proof.
  intros d evs H. destruct (to_xml_events _ _ H) as (ver & enc & sa & body & -> & Hb & _ & ->).
  cbn [tree_of_events]. rewrite <- (app_nil_r (flat_map events_of_node body)), toe_nodes by auto.
  cbn. rewrite app_nil_r, rev_involutive. reflexivity.
Qed.

Theorem doc_to_tree : forall d evs,
  valid_names d = true -> to_xml d = Some evs -> tree_of_events evs = tree_of_doc d.
Proof. intros d evs _. apply doc_to_tree_strong. Qed.

(* ---- C12 headline 2: exactly which documents are rejected ---- *)

(* a node value the DSL cannot express *)
Inductive bad_node : val -> Prop :=
| BN_kind v :                       (* neither a tuple nor a string *)
    is_tuple v = false -> is_str v = false -> bad_node v
| BN_name fs v :                    (* some `name` field is not a string (NULL included) *)
    In (b "name", v) fs -> is_str v = false -> bad_node (VTuple fs)
| BN_ns fs nfs k v :                (* some `ns` tuple has a non-NULL uri/prefix that is not a string *)
    In (b "ns", VTuple nfs) fs -> In (k, v) nfs -> k = b "uri" \/ k = b "prefix" ->
    v <> VEmpty -> is_str v = false -> bad_node (VTuple fs)
| BN_attrs fs v :                   (* some `attrs` field is neither NULL nor a tuple *)
    In (b "attrs", v) fs -> v <> VEmpty -> is_tuple v = false -> bad_node (VTuple fs)
| BN_children fs v :                (* some `children` field is neither NULL nor a list *)
    In (b "children", v) fs -> v <> VEmpty -> is_list v = false -> bad_node (VTuple fs)
| BN_text fs v :                    (* some `text` field is neither NULL nor a string *)
    In (b "text", v) fs -> v <> VEmpty -> is_str v = false -> bad_node (VTuple fs)
| BN_both fs n t :                  (* both a name and a (non-NULL) text *)
    In (b "name", n) fs -> In (b "text", t) fs -> t <> VEmpty -> bad_node (VTuple fs)
| BN_attr_val fs n afs k v :        (* an element whose attributes in effect hold a non-NULL non-string *)
    In (b "name", n) fs -> field_last_nn (b "attrs") fs = Some (VTuple afs) ->
    In (k, v) afs -> v <> VEmpty -> is_str v = false -> bad_node (VTuple fs)
| BN_attr_chars fs n afs k s :      (* ... or a string with a character XML cannot hold *)
    In (b "name", n) fs -> field_last_nn (b "attrs") fs = Some (VTuple afs) ->
    In (k, VStr s) afs -> xml_chars_ok s = false -> bad_node (VTuple fs)
| BN_child fs n l c :               (* an element whose children in effect contain a bad node *)
    In (b "name", n) fs -> field_last_nn (b "children") fs = Some (VList l) ->
    In c l -> bad_node c -> bad_node (VTuple fs)
| BN_str_chars s :                  (* character data with a character XML cannot hold: a bare string *)
    xml_chars_ok s = false -> bad_node (VStr s)
| BN_text_chars fs s :              (* ... or the text in effect of a nameless tuple *)
    (forall n, ~ In (b "name", n) fs) -> field_last_nn (b "text") fs = Some (VStr s) ->
    xml_chars_ok s = false -> bad_node (VTuple fs).

Definition inexpressible (d : val) : Prop :=
  match d with
  | VTuple fs =>
    (exists v, In (b "version", v) fs /\ is_str v = false) \/     (* a version that is not a string *)
    (exists v, In (b "encoding", v) fs /\ is_str v = false) \/    (* an encoding that is not a string *)
    (forall v, ~ In (b "root", v) fs) \/                          (* no root *)
    (exists s, field_last (b "version") fs = Some (VStr s) /\ s <> b "1.0" /\ s <> b "1.1") \/
    (exists r, field_last (b "root") fs = Some r /\ ~ is_element_val r) \/   (* the root (last one given) is not an element *)
    (exists r, field_last (b "root") fs = Some r /\ bad_node r)   (* the root is bad *)
  | _ => True                                                     (* not a tuple *)
  end.

Lemma is_empty_false v : is_empty v = false <-> v <> VEmpty.
Proof. destruct v; cbn; split; congruence. Qed.

Lemma field_bad_node fs k v : In (k, v) fs -> field_okb k v = false -> bad_node (VTuple fs).
Proof.
  intros Hin Hb. unfold field_okb in Hb.
  destruct (key_cases k) as [->|[->|[->|[->|[->|(E1 & E2 & E3 & E4 & E5)]]]]]; litkeys.
  - eapply BN_name; eauto.
  - destruct v; try discriminate. apply negb_false_iff in Hb. apply existsb_exists in Hb.
    destruct Hb as ([k' v'] & Hin' & Hb). unfold ns_field_bad in Hb; cbn [fst snd] in Hb.
    apply andb_true_iff in Hb. destruct Hb as [Hb B3]. apply andb_true_iff in Hb. destruct Hb as [B1 B2].
    apply negb_true_iff in B1, B3. apply is_empty_false in B1.
    eapply BN_ns; eauto.
    apply orb_true_iff in B2. destruct B2 as [B2|B2]; apply bytes_eqb_spec in B2; auto.
  - apply orb_false_iff in Hb. destruct Hb as [B1 B2]. apply is_empty_false in B1. eapply BN_attrs; eauto.
  - apply orb_false_iff in Hb. destruct Hb as [B1 B2]. apply is_empty_false in B1. eapply BN_children; eauto.
  - apply orb_false_iff in Hb. destruct Hb as [B1 B2]. apply is_empty_false in B1. eapply BN_text; eauto.
  - rewrite E1, E2, E3, E4, E5 in Hb. discriminate.
Qed.

Lemma forallb_false_ex {A} (f : A -> bool) l : forallb f l = false -> exists x, In x l /\ f x = false.
Proof.
  induction l as [|a l IH]; cbn; [discriminate|].
  destruct (f a) eqn:E; cbn.
  - intros H. destruct (IH H) as (x & Hx & Hf). eauto.
  - eauto.
Qed.

Lemma ex_forallb_false {A} (f : A -> bool) l x : In x l -> f x = false -> forallb f l = false.
Proof.
  intros Hin Hf. destruct (forallb f l) eqn:E; auto.
  rewrite forallb_forall in E. rewrite (E _ Hin) in Hf. discriminate.
Qed.

Lemma scan_err_forallb rec fs st e :
  scan rec fs st = XErr e -> forallb (fun kv => field_okb (fst kv) (snd kv)) fs = false.
Proof.
  intros H. destruct (forallb _ fs) eqn:E; auto.
  apply (scan_ok_iff rec fs st) in E. destruct E as [st' E]. congruence.
Qed.

Lemma write_node_err_bad : forall v e, write_node v = XErr e -> bad_node v.
Proof.
  induction v using val_deep_ind. rename H into Hl, H0 into Ht.
  intros e Hw. destruct v; try (apply BN_kind; reflexivity).
  { cbn [write_node] in Hw. apply xbind_err in Hw. destruct Hw as [Hw|(s' & _ & Hw)]; [|discriminate].
    apply BN_str_chars. eapply get_xml_chars_err; eauto. }
  cbn [write_node] in Hw. unfold write_tuple in Hw.
  apply xbind_err in Hw. destruct Hw as [Hw|(st & Hscan & Hfin)].
  - apply scan_err_forallb in Hw. apply forallb_false_ex in Hw. destruct Hw as ([k v] & Hin & Hb).
    eapply field_bad_node; eauto.
  - destruct (scan_inv _ _ _ Hscan) as (In1 & In2 & (ol & In3 & In3') & In4 & In5).
    unfold finish in Hfin.
    destruct (s_name st) as [name|] eqn:En; cbn in In1.
    2:{ destruct (s_text st) as [t|] eqn:Et; [|discriminate]. cbn in In4.
        apply xbind_err in Hfin. destruct Hfin as [Hc|(t' & _ & Hfin)]; [|discriminate].
        apply get_xml_chars_err in Hc. eapply BN_text_chars; eauto.
        intros n. apply field_last_none; auto. }
    apply field_last_in in In1.
    destruct (s_text st) as [t|] eqn:Et; cbn in In4.
    { apply field_last_nn_in in In4. destruct In4. eapply BN_both; eauto. }
    apply xbind_err in Hfin. destruct Hfin as [Ha|(al & Hal & Hfin)].
    + destruct (s_attrs st) as [afs|] eqn:Ea; [|discriminate]. cbn in In2.
      assert (X : existsb attr_bad afs = true) by (apply attr_list_err_iff; eauto).
      apply existsb_exists in X. destruct X as ([k v] & Hin & Hb). unfold attr_bad in Hb; cbn [snd] in Hb.
      apply andb_true_iff in Hb. destruct Hb as [B1 B2]. apply negb_true_iff in B1, B2.
      apply is_empty_false in B1.
      destruct v; try (eapply BN_attr_val; eauto; reflexivity). eapply BN_attr_chars; eauto.
    + apply xbind_err in Hfin. destruct Hfin as [Hk|(kevs & _ & Hfin)]; [|discriminate].
      rewrite In3' in Hk. destruct ol as [l|]; [|discriminate]. cbn in In3, Hk.
      assert (X : exists e, In (XErr e) (map write_node l)) by (apply xconcat_err_iff; eauto).
      destruct X as (e' & X). apply in_map_iff in X. destruct X as (c & Hc & Hin).
      destruct (field_last_nn_in _ _ _ In3) as [Hin3 _].
      specialize (Ht _ eq_refl _ _ Hin3). rewrite Forall_forall in Ht.
      eapply BN_child; eauto.
Qed.

Lemma tuple_err_of_field fs k v :
  In (k, v) fs -> field_okb k v = false -> exists e, write_node (VTuple fs) = XErr e.
Proof.
  intros Hin Hb. cbn [write_node]. unfold write_tuple.
  destruct (scan write_node fs nstate0) eqn:E; cbn; eauto.
  assert (X : forallb (fun kv => field_okb (fst kv) (snd kv)) fs = true)
    by (apply (scan_ok_iff write_node fs nstate0); eauto).
  rewrite (ex_forallb_false _ _ (k, v) Hin Hb) in X. discriminate.
Qed.

Lemma opt_map_inj_some {A B} (f : A -> B) (o : option A) w :
  Some w = option_map f o -> exists a, o = Some a /\ w = f a.
Proof. destruct o; cbn; intros H; inversion H; eauto. Qed.

Lemma bad_write_node_err : forall v, bad_node v -> exists e, write_node v = XErr e.
Proof.
  induction 1.
  - destruct v; try discriminate; cbn; eauto.
  - eapply tuple_err_of_field; [eassumption|]. unfold field_okb; litkeys; auto.
  - eapply tuple_err_of_field; [eassumption|]. unfold field_okb; litkeys. apply negb_false_iff.
    apply existsb_exists. exists (k, v); split; auto. unfold ns_field_bad; cbn [fst snd].
    rewrite H3. apply is_empty_false in H2. rewrite H2.
    destruct H1 as [-> | ->]; litkeys; reflexivity.
  - eapply tuple_err_of_field; [eassumption|]. unfold field_okb; litkeys. apply is_empty_false in H0. rewrite H0, H1; auto.
  - eapply tuple_err_of_field; [eassumption|]. unfold field_okb; litkeys. apply is_empty_false in H0. rewrite H0, H1; auto.
  - eapply tuple_err_of_field; [eassumption|]. unfold field_okb; litkeys. apply is_empty_false in H0. rewrite H0, H1; auto.
  - cbn [write_node]. unfold write_tuple.
    destruct (scan write_node fs nstate0) as [st|] eqn:E; cbn; eauto.
    destruct (scan_inv _ _ _ E) as (In1 & In2 & _ & In4 & _).
    destruct (in_field_last _ _ _ H) as [w Hw]. rewrite Hw in In1.
    destruct (in_field_last_nn _ _ _ H0 H1) as [w' Hw']. rewrite Hw' in In4.
    apply opt_map_inj_some in In1, In4. destruct In1 as (a & En & _), In4 as (a' & Et & _).
    unfold finish; rewrite En, Et. eauto.
  - cbn [write_node]. unfold write_tuple.
    destruct (scan write_node fs nstate0) as [st|] eqn:E; cbn; eauto.
    destruct (scan_inv _ _ _ E) as (In1 & In2 & _ & In4 & _).
    destruct (in_field_last _ _ _ H) as [w Hw]. rewrite Hw in In1.
    apply opt_map_inj_some in In1. destruct In1 as (a & En & _).
    rewrite H0 in In2. apply opt_map_inj_some in In2. destruct In2 as (afs' & Ea & Eq). inversion Eq; subst afs'.
    unfold finish; rewrite En, Ea. destruct (s_text st); eauto.
    assert (X : exists e, attr_list afs = XErr e).
    { apply attr_list_err_iff. apply existsb_exists. exists (k, v); split; auto.
      unfold attr_bad; cbn [snd]. apply is_empty_false in H2. rewrite H2. destruct v; try discriminate; reflexivity. }
    destruct X as [e ->]. cbn. eauto.
  - cbn [write_node]. unfold write_tuple.
    destruct (scan write_node fs nstate0) as [st|] eqn:E; cbn; eauto.
    destruct (scan_inv _ _ _ E) as (In1 & In2 & _ & In4 & _).
    destruct (in_field_last _ _ _ H) as [w Hw]. rewrite Hw in In1.
    apply opt_map_inj_some in In1. destruct In1 as (a & En & _).
    rewrite H0 in In2. apply opt_map_inj_some in In2. destruct In2 as (afs' & Ea & Eq). inversion Eq; subst afs'.
    unfold finish; rewrite En, Ea. destruct (s_text st); eauto.
    assert (X : exists e, attr_list afs = XErr e).
    { apply attr_list_err_iff. apply existsb_exists. exists (k, VStr s); split; auto.
      unfold attr_bad; cbn [snd is_empty negb andb]. rewrite H2. reflexivity. }
    destruct X as [e ->]. cbn. eauto.
  - cbn [write_node]. unfold write_tuple.
    destruct (scan write_node fs nstate0) as [st|] eqn:E; cbn; eauto.
    destruct (scan_inv _ _ _ E) as (In1 & In2 & (ol & In3 & In3') & In4 & _).
    destruct (in_field_last _ _ _ H) as [w Hw]. rewrite Hw in In1.
    apply opt_map_inj_some in In1. destruct In1 as (a & En & _).
    rewrite H0 in In3. apply opt_map_inj_some in In3. destruct In3 as (l' & -> & Eq). inversion Eq; subst l'.
    unfold finish; rewrite En, In3'. destruct (s_text st); eauto.
    destruct (match s_attrs st with Some afs => attr_list afs | None => XOk [] end); cbn; eauto.
    destruct IHbad_node as [e He].
    assert (X : exists e, xconcat (map write_node l) = XErr e).
    { apply xconcat_err_iff. exists e. rewrite <- He. apply in_map; auto. }
    destruct X as [e' ->]. cbn; eauto.
  - cbn [write_node]. rewrite get_xml_chars_bad by auto. cbn. eauto.
  - cbn [write_node]. unfold write_tuple.
    destruct (scan write_node fs nstate0) as [st|] eqn:E; cbn; eauto.
    destruct (scan_inv _ _ _ E) as (In1 & _ & _ & In4 & _).
    rewrite H0 in In4. apply opt_map_inj_some in In4. destruct In4 as (t & Et & Eq). inversion Eq; subst t.
    destruct (s_name st) as [nm|] eqn:En.
    { cbn in In1. apply field_last_in in In1. destruct (H _ In1). }
    unfold finish; rewrite En, Et. rewrite get_xml_chars_bad by auto. cbn. eauto.
Qed.

Theorem write_node_err_iff v : (exists e, write_node v = XErr e) <-> bad_node v.
Proof. split; [intros [e H]; eapply write_node_err_bad; eauto|apply bad_write_node_err]. Qed.

Lemma version_of_err o e :
  version_of o = XErr e -> exists s, o = Some s /\ s <> b "1.0" /\ s <> b "1.1".
Proof.
  destruct o as [t|]; cbn; [|discriminate].
  destruct (bytes_eqb t (b "1.0")) eqn:E1; [discriminate|].
  destruct (bytes_eqb t (b "1.1")) eqn:E2; [discriminate|].
  intros _. exists t. apply bytes_eqb_false in E1, E2. auto.
Qed.

Lemma version_of_bad s : s <> b "1.0" -> s <> b "1.1" -> version_of (Some s) = XErr EBadVersion.
Proof.
  intros H1 H2. cbn. apply bytes_eqb_false in H1, H2. rewrite H1, H2. reflexivity.
Qed.

Theorem doc_error_iff : forall d, to_xml d = None <-> inexpressible d.
Proof.
  intros d. unfold to_xml. destruct d; cbn [to_xml_r inexpressible]; try (split; auto; fail).
  split.
  - destruct (xbind _ _) as [|e] eqn:E; [discriminate|]. intros _.
    apply xbind_err in E. destruct E as [E|(st & Hscan & E)].
    + assert (X : forallb (fun kv => dfield_okb (fst kv) (snd kv)) fs = false).
      { destruct (forallb _ fs) eqn:F; auto. apply (dscan_ok_iff fs (mkd None None None None)) in F.
        destruct F as [st' F]. congruence. }
      apply forallb_false_ex in X. destruct X as ([k v] & Hin & Hb). cbn [fst snd] in Hb.
      unfold dfield_okb in Hb.
      destruct (bytes_eqb k (b "version")) eqn:K1; [apply bytes_eqb_spec in K1; subst; eauto|].
      destruct (bytes_eqb k (b "encoding")) eqn:K2; [apply bytes_eqb_spec in K2; subst; eauto|].
      discriminate.
    + destruct (dscan_inv _ _ Hscan) as (I1 & I2 & I3 & I4).
      destruct (d_root st) as [root|] eqn:Er.
      2:{ right; right; left. intros v. apply field_last_none; auto. }
      apply xbind_err in E. destruct E as [E|(ver & Hv & E)].
      * apply version_of_err in E. destruct E as (s & Es & N1 & N2). rewrite Es in I1. cbn in I1.
        right; right; right; left. eauto.
      * destruct (root_is_element root) eqn:Hre; cbn [negb] in E.
        2:{ right; right; right; right; left. exists root; split; auto.
            intros X. apply root_is_element_iff in X. congruence. }
        apply xbind_err in E. destruct E as [E|(evs & _ & E)]; [|discriminate].
        right; right; right; right; right. exists root; split; auto. eapply write_node_err_bad; eauto.
  - intros H.
    destruct (dscan fs (mkd None None None None)) as [st|] eqn:Hscan; cbn; auto.
    destruct (dscan_inv _ _ Hscan) as (I1 & I2 & I3 & I4).
    assert (OK : forallb (fun kv => dfield_okb (fst kv) (snd kv)) fs = true)
      by (apply (dscan_ok_iff fs (mkd None None None None)); eauto).
    rewrite forallb_forall in OK.
    destruct H as [(v & Hin & Hs)|[(v & Hin & Hs)|[H|[(s & Hv & N1 & N2)|[(r & Hr & Hne)|(r & Hr & Hb)]]]]].
    + specialize (OK _ Hin). unfold dfield_okb in OK; cbn [fst snd] in OK. litkeys. congruence.
    + specialize (OK _ Hin). unfold dfield_okb in OK; cbn [fst snd] in OK. litkeys. congruence.
    + destruct (d_root st) as [root|] eqn:Er; auto.
      apply field_last_in in I4. destruct (H _ I4).
    + destruct (d_root st); auto. rewrite Hv in I1. apply opt_map_inj_some in I1.
      destruct I1 as (a & -> & Eq). inversion Eq; subst a. rewrite version_of_bad; auto.
    + rewrite Hr in I4. rewrite <- I4. destruct (version_of (d_version st)); cbn; auto.
      destruct (root_is_element r) eqn:Hre; cbn; auto.
      apply root_is_element_iff in Hre. contradiction.
    + rewrite Hr in I4. rewrite <- I4. destruct (version_of (d_version st)); cbn; auto.
      destruct (root_is_element r); cbn; auto.
      apply bad_write_node_err in Hb. destruct Hb as [e ->]. reflexivity.
Qed.

(* ================================================================== *)
(* Part B: the escaping tables against the reader                      *)

(* ---- U+FFFE / U+FFFF: the three-state scan ---- *)
Definition is_ascii (c : ascii) : bool := (code c <? 128)%N.

Lemma nc_run_app st x y :
  nc_run st (x ++ y) = match nc_run st x with Some st' => nc_run st' y | None => None end.
Proof.
  revert st; induction x as [|c x IH]; intros st; cbn [app nc_run]; [reflexivity|].
  destruct (nc_step st c); auto.
Qed.

Lemma nc_step_ascii st c : is_ascii c = true -> nc_step st c = Some N0.
Proof. destruct st; ascii_cases c. Qed.

Lemma nc_run_ascii x : forallb is_ascii x = true -> x <> [] -> forall st, nc_run st x = Some N0.
Proof.
  induction x as [|c x IH]; intros H Hne st; [congruence|].
  cbn [forallb] in H. apply andb_true_iff in H. destruct H as [Hc Hx].
  cbn [nc_run]. rewrite nc_step_ascii by auto. destruct x as [|d x]; [reflexivity|].
  apply IH; auto. discriminate.
Qed.

Lemma nc_step_not_cont st c : is_cont c = false -> nc_step st c = nc_step N0 c.
Proof. destruct st; ascii_cases c. Qed.

Definition nc_ok (st : ncst) (s : bytes) : bool := match nc_run st s with Some _ => true | None => false end.

Lemma hnc_ok s st : hnc s = true -> nc_ok st s = nc_ok N0 s.
Proof.
  destruct s as [|c s]; [reflexivity|]. cbn [hnc]. intros H. apply negb_true_iff in H.
  unfold nc_ok. cbn [nc_run]. rewrite (nc_step_not_cont st c H). reflexivity.
Qed.

Lemma good_app x y : good x = true -> good y = true -> good (x ++ y) = true.
Proof.
  unfold good. intros Hx Hy. apply andb_true_iff in Hx, Hy. destruct Hx as [Hx1 Hx2], Hy as [Hy1 Hy2].
  apply andb_true_iff; split.
  - destruct x; auto.
  - unfold no_nonchar in *. rewrite nc_run_app. destruct (nc_run N0 x) as [st'|]; [|discriminate].
    pose proof (hnc_ok y st' Hy1) as E. unfold nc_ok in E. rewrite E. exact Hy2.
Qed.

Lemma good_no_nonchar s : good s = true -> no_nonchar s = true.
Proof. unfold good. intros H. apply andb_true_iff in H. tauto. Qed.

Lemma good_ascii x : forallb is_ascii x = true -> good x = true.
Proof.
  intros H. destruct x as [|c x]; [reflexivity|]. unfold good. apply andb_true_iff; split.
  - cbn [hnc forallb] in *. apply andb_true_iff in H. destruct H as [Hc _]. clear -Hc. ascii_cases c.
  - unfold no_nonchar. rewrite nc_run_ascii; auto. discriminate.
Qed.

Lemma good_flat_map {A} (f : A -> bytes) l : (forall a, In a l -> good (f a) = true) -> good (flat_map f l) = true.
Proof.
  induction l as [|a l IH]; intros H; [reflexivity|]. cbn [flat_map].
  apply good_app; [apply H; left; auto|apply IH; intros; apply H; right; auto].
Qed.

(* escaping replaces ASCII bytes by non-empty ASCII strings: the scan does not see it *)
Definition esc_like (f : ascii -> bytes) : Prop :=
  forall c, f c = [c] \/ (is_ascii c = true /\ forallb is_ascii (f c) = true /\ f c <> []).

Lemma nc_run_esc f : esc_like f -> forall s st, nc_run st (flat_map f s) = nc_run st s.
Proof.
  intros Hf. induction s as [|c s IH]; intros st; [reflexivity|].
  cbn [flat_map]. rewrite nc_run_app. cbn [nc_run].
  destruct (Hf c) as [->|(Hc & Ha & Hne)].
  - cbn [nc_run]. destruct (nc_step st c); auto.
  - rewrite nc_run_ascii, nc_step_ascii by auto. apply IH.
Qed.

Lemma hnc_esc f s : esc_like f -> hnc s = true -> hnc (flat_map f s) = true.
Proof.
  intros Hf. destruct s as [|c s]; [auto|]. cbn [flat_map hnc].
  destruct (Hf c) as [->|(Hc & Ha & Hne)]; [auto|]. intros _.
  destruct (f c) as [|d r]; [congruence|]. cbn [app hnc forallb] in *.
  apply andb_true_iff in Ha. destruct Ha as [Hd _]. clear -Hd. ascii_cases d.
Qed.

Lemma good_esc f s : esc_like f -> good s = true -> good (flat_map f s) = true.
Proof.
  intros Hf H. unfold good in *. apply andb_true_iff in H. destruct H as [H1 H2].
  rewrite hnc_esc by auto. unfold no_nonchar in *. rewrite nc_run_esc by auto. exact H2.
Qed.

Lemma no_nonchar_esc f s : esc_like f -> no_nonchar (flat_map f s) = no_nonchar s.
Proof. intros Hf. unfold no_nonchar. rewrite nc_run_esc by auto. reflexivity. Qed.

Lemma esc_like_pc : esc_like esc_pc_byte.
Proof.
  intros c. unfold esc_pc_byte.
  destruct (Ascii.eqb c lt_c) eqn:E1; [apply Ascii.eqb_eq in E1; subst; right; vm_compute; repeat split; congruence|].
  destruct (Ascii.eqb c gt_c) eqn:E2; [apply Ascii.eqb_eq in E2; subst; right; vm_compute; repeat split; congruence|].
  destruct (Ascii.eqb c amp_c) eqn:E3; [apply Ascii.eqb_eq in E3; subst; right; vm_compute; repeat split; congruence|].
  left; reflexivity.
Qed.

Lemma esc_like_at : esc_like esc_at_byte.
Proof.
  intros c. unfold esc_at_byte.
  destruct (Ascii.eqb c lt_c) eqn:E1; [apply Ascii.eqb_eq in E1; subst; right; vm_compute; repeat split; congruence|].
  destruct (Ascii.eqb c gt_c) eqn:E2; [apply Ascii.eqb_eq in E2; subst; right; vm_compute; repeat split; congruence|].
  destruct (Ascii.eqb c dq_c) eqn:E3; [apply Ascii.eqb_eq in E3; subst; right; vm_compute; repeat split; congruence|].
  destruct (Ascii.eqb c sq_c) eqn:E4; [apply Ascii.eqb_eq in E4; subst; right; vm_compute; repeat split; congruence|].
  destruct (Ascii.eqb c amp_c) eqn:E5; [apply Ascii.eqb_eq in E5; subst; right; vm_compute; repeat split; congruence|].
  destruct (Ascii.eqb c nl) eqn:E6; [apply Ascii.eqb_eq in E6; subst; right; vm_compute; repeat split; congruence|].
  destruct (Ascii.eqb c cr) eqn:E7; [apply Ascii.eqb_eq in E7; subst; right; vm_compute; repeat split; congruence|].
  left; reflexivity.
Qed.

Lemma good_esc_pcdata s : good s = true -> good (esc_pcdata s) = true.
Proof. apply good_esc, esc_like_pc. Qed.
Lemma good_esc_attr s : good s = true -> good (esc_attr s) = true.
Proof. apply good_esc, esc_like_at. Qed.

Definition no_cr (s : bytes) : bool := forallb (fun c => negb (Ascii.eqb c cr)) s.

Lemma norm_eol_no_cr s : no_cr s = true -> norm_eol s = s.
Proof.
  induction s as [|c s IH]; cbn; auto.
  intros H. apply andb_true_iff in H. destruct H as [Hc Hs]. apply negb_true_iff in Hc.
  rewrite Hc. f_equal; auto.
Qed.

Lemma no_cr_app x y : no_cr (x ++ y) = no_cr x && no_cr y.
Proof. apply forallb_app. Qed.

(* a stop for character data: end of input or markup *)
Definition text_stop (r : bytes) : Prop := r = [] \/ exists r', r = lt_c :: r'.

Lemma esc_pc_byte_shape c :
  (esc_pc_byte c = [c] /\ Ascii.eqb c lt_c = false /\ Ascii.eqb c gt_c = false /\ Ascii.eqb c amp_c = false) \/
  (exists t, esc_pc_byte c = amp_c :: t).
Proof.
  unfold esc_pc_byte.
  destruct (Ascii.eqb c lt_c); [right; eexists; reflexivity|].
  destruct (Ascii.eqb c gt_c); [right; eexists; reflexivity|].
  destruct (Ascii.eqb c amp_c); [right; eexists; reflexivity|].
  left; auto.
Qed.

Lemma esc_pcdata_cons c s : esc_pcdata (c :: s) = esc_pc_byte c ++ esc_pcdata s.
Proof. reflexivity. Qed.
Lemma esc_pcdata_app x y : esc_pcdata (x ++ y) = esc_pcdata x ++ esc_pcdata y.
Proof. unfold esc_pcdata. apply flat_map_app. Qed.
Lemma esc_attr_cons c s : esc_attr (c :: s) = esc_at_byte c ++ esc_attr s.
Proof. reflexivity. Qed.

(* the text after escaped character data never starts with '>' *)
Lemma esc_pcdata_hd_gt s rest :
  text_stop rest -> strip_prefix [gt_c] (esc_pcdata s ++ rest) = None.
Proof.
  intros Hr. destruct s as [|c s].
  - cbn. destruct Hr as [->|[r' ->]]; reflexivity.
  - rewrite esc_pcdata_cons, <- app_assoc.
    destruct (esc_pc_byte_shape c) as [(-> & _ & G & _)|[t ->]]; cbn [app strip_prefix].
    + rewrite Ascii.eqb_sym in G. rewrite G. reflexivity.
    + reflexivity.
Qed.

Lemma cdata_end_esc c s rest :
  text_stop rest ->
  Ascii.eqb c lt_c = false -> Ascii.eqb c gt_c = false -> Ascii.eqb c amp_c = false ->
  cdata_end (c :: esc_pcdata s ++ rest) = false.
Proof.
  intros Hr L G A. unfold cdata_end.
  change (strip_prefix (b "]]>") (c :: esc_pcdata s ++ rest))
    with (if Ascii.eqb "]"%char c then strip_prefix (b "]>") (esc_pcdata s ++ rest) else None).
  destruct (Ascii.eqb "]"%char c); [|reflexivity].
  destruct s as [|d s].
  - cbn [esc_pcdata flat_map app]. destruct Hr as [->|[r' ->]]; reflexivity.
  - rewrite esc_pcdata_cons, <- app_assoc.
    destruct (esc_pc_byte_shape d) as [(-> & _ & _ & _)|[t ->]]; [|reflexivity].
    cbn [app].
    change (strip_prefix (b "]>") (d :: esc_pcdata s ++ rest))
      with (if Ascii.eqb "]"%char d then strip_prefix [gt_c] (esc_pcdata s ++ rest) else None).
    rewrite esc_pcdata_hd_gt by auto. destruct (Ascii.eqb "]"%char d); reflexivity.
Qed.

Lemma text_char_raw_ok c : text_char_ok c = true -> raw_ok c = true.
Proof.
  unfold text_char_ok, raw_ok, c0_ok.
  destruct (32 <=? code c)%N, (Ascii.eqb c tab), (Ascii.eqb c nl); cbn; intros H; auto; discriminate H.
Qed.

Lemma parse_ref_lt r : parse_ref (b "lt;" ++ r) = Some ([lt_c], r).
Proof. reflexivity. Qed.
Lemma parse_ref_gt r : parse_ref (b "gt;" ++ r) = Some ([gt_c], r).
Proof. reflexivity. Qed.
Lemma parse_ref_amp r : parse_ref (b "amp;" ++ r) = Some ([amp_c], r).
Proof. reflexivity. Qed.
Lemma parse_ref_apos r : parse_ref (b "apos;" ++ r) = Some ([sq_c], r).
Proof. reflexivity. Qed.
Lemma parse_ref_quot r : parse_ref (b "quot;" ++ r) = Some ([dq_c], r).
Proof. reflexivity. Qed.
Lemma parse_ref_xA r : parse_ref (b "#xA;" ++ r) = Some ([nl], r).
Proof. reflexivity. Qed.
Lemma parse_ref_xD r : parse_ref (b "#xD;" ++ r) = Some ([cr], r).
Proof. reflexivity. Qed.

(* the reader inverts PcDataEscapes on character data free of CR and of C0 controls *)
Lemma parse_text_esc : forall s rest fuel,
  forallb text_char_ok s = true -> text_stop rest -> List.length s < fuel ->
  parse_text fuel (esc_pcdata s ++ rest) = Some (s, rest).
Proof.
  induction s as [|c s IH]; intros rest fuel Hs Hr Hf.
  - destruct fuel as [|f]; [inversion Hf|]. cbn [esc_pcdata flat_map app].
    destruct Hr as [->|[r' ->]]; reflexivity.
  - destruct fuel as [|f]; [inversion Hf|]. cbn [List.length] in Hf.
    cbn [forallb] in Hs. apply andb_true_iff in Hs. destruct Hs as [Hc Hs].
    assert (IH' : parse_text f (esc_pcdata s ++ rest) = Some (s, rest)) by (apply IH; auto; lia).
    rewrite esc_pcdata_cons, <- app_assoc. unfold esc_pc_byte.
    destruct (Ascii.eqb c lt_c) eqn:L.
    { apply Ascii.eqb_eq in L; subst c.
      change (parse_text (S f) (b "&lt;" ++ esc_pcdata s ++ rest))
        with (match parse_ref (b "lt;" ++ esc_pcdata s ++ rest) with
              | Some (x, r') => match parse_text f r' with Some (t, z) => Some (x ++ t, z) | None => None end
              | None => None end).
      rewrite parse_ref_lt, IH'. reflexivity. }
    destruct (Ascii.eqb c gt_c) eqn:G.
    { apply Ascii.eqb_eq in G; subst c.
      change (parse_text (S f) (b "&gt;" ++ esc_pcdata s ++ rest))
        with (match parse_ref (b "gt;" ++ esc_pcdata s ++ rest) with
              | Some (x, r') => match parse_text f r' with Some (t, z) => Some (x ++ t, z) | None => None end
              | None => None end).
      rewrite parse_ref_gt, IH'. reflexivity. }
    destruct (Ascii.eqb c amp_c) eqn:A.
    { apply Ascii.eqb_eq in A; subst c.
      change (parse_text (S f) (b "&amp;" ++ esc_pcdata s ++ rest))
        with (match parse_ref (b "amp;" ++ esc_pcdata s ++ rest) with
              | Some (x, r') => match parse_text f r' with Some (t, z) => Some (x ++ t, z) | None => None end
              | None => None end).
      rewrite parse_ref_amp, IH'. reflexivity. }
    cbn [app parse_text]. rewrite L, A, (cdata_end_esc c s rest Hr L G A), (text_char_raw_ok _ Hc), IH'.
    reflexivity.
Qed.

Lemma length_esc_pcdata s : List.length s <= List.length (esc_pcdata s).
Proof.
  induction s as [|c s IH]; [cbn; auto|]. rewrite esc_pcdata_cons, app_length. cbn [List.length].
  assert (1 <= List.length (esc_pc_byte c)).
  { unfold esc_pc_byte. destruct (Ascii.eqb c lt_c), (Ascii.eqb c gt_c), (Ascii.eqb c amp_c); vm_compute; lia. }
  lia.
Qed.

Lemma no_cr_esc_pcdata s : no_cr s = true -> no_cr (esc_pcdata s) = true.
Proof.
  induction s as [|c s IH]; [auto|]. intros H. unfold no_cr in H; cbn [forallb] in H.
  apply andb_true_iff in H. destruct H as [Hc Hs].
  rewrite esc_pcdata_cons, no_cr_app, IH by auto. rewrite andb_true_r.
  unfold esc_pc_byte. destruct (Ascii.eqb c lt_c), (Ascii.eqb c gt_c), (Ascii.eqb c amp_c); try reflexivity.
  unfold no_cr; cbn [forallb]. rewrite Hc; reflexivity.
Qed.

Lemma code_ge32_not c d : (32 <=? code c)%N = true -> (code d <? 32)%N = true -> Ascii.eqb c d = false.
Proof.
  intros H1 H2. destruct (Ascii.eqb c d) eqn:E; auto. apply Ascii.eqb_eq in E; subst.
  apply N.leb_le in H1. apply N.ltb_lt in H2. lia.
Qed.

Lemma text_char_ok_no_cr s : forallb text_char_ok s = true -> no_cr s = true.
Proof.
  unfold no_cr. induction s as [|c s IH]; cbn [forallb]; auto. intros H. apply andb_true_iff in H. destruct H as [Hc Hs].
  rewrite IH, andb_true_r by auto. apply negb_true_iff. unfold text_char_ok in Hc.
  apply orb_true_iff in Hc. destruct Hc as [Hc|Hc]; [apply orb_true_iff in Hc; destruct Hc as [Hc|Hc]|].
  - apply code_ge32_not; auto.
  - apply Ascii.eqb_eq in Hc; subst; reflexivity.
  - apply Ascii.eqb_eq in Hc; subst; reflexivity.
Qed.

Theorem unescape_text_ok s :
  forallb text_char_ok s = true -> no_nonchar s = true -> unescape_text (esc_pcdata s) = Some s.
Proof.
  intros H Hn. unfold unescape_text.
  rewrite norm_eol_no_cr by (apply no_cr_esc_pcdata, text_char_ok_no_cr; auto).
  unfold esc_pcdata at 1. rewrite (no_nonchar_esc _ _ esc_like_pc), Hn.
  rewrite <- (app_nil_r (esc_pcdata s)) at 2.
  rewrite parse_text_esc; auto.
  - left; reflexivity.
  - pose proof (length_esc_pcdata s). lia.
Qed.

(* attribute values *)
Lemma attr_char_cases c :
  attr_char_ok c = true ->
  Ascii.eqb c nl = true \/ Ascii.eqb c cr = true \/
  ((32 <=? code c)%N = true /\ Ascii.eqb c tab = false /\ Ascii.eqb c nl = false /\ Ascii.eqb c cr = false).
Proof.
  unfold attr_char_ok. intros H.
  destruct (Ascii.eqb c nl) eqn:N; auto. destruct (Ascii.eqb c cr) eqn:C; auto.
  rewrite !orb_false_r in H. right; right. repeat split; auto. apply code_ge32_not; auto.
Qed.

Ltac attval_ref L c lit pr IH' :=
  apply Ascii.eqb_eq in L; subst c;
  match goal with
  | |- parse_attval (S ?f) dq_c (b ?e ++ ?X) = _ =>
    change (parse_attval (S f) dq_c (b e ++ X))
      with (match parse_ref (lit ++ X) with
            | Some (x, r') => match parse_attval f dq_c r' with Some (t, z) => Some (x ++ t, z) | None => None end
            | None => None end)
  end;
  rewrite pr, IH'; reflexivity.

Lemma parse_attval_esc : forall s rest fuel,
  forallb attr_char_ok s = true -> List.length s < fuel ->
  parse_attval fuel dq_c (esc_attr s ++ dq_c :: rest) = Some (s, rest).
Proof.
  induction s as [|c s IH]; intros rest fuel Hs Hf.
  - destruct fuel as [|f]; [inversion Hf|]. reflexivity.
  - destruct fuel as [|f]; [inversion Hf|]. cbn [List.length] in Hf.
    cbn [forallb] in Hs. apply andb_true_iff in Hs. destruct Hs as [Hc Hs].
    assert (IH' : parse_attval f dq_c (esc_attr s ++ dq_c :: rest) = Some (s, rest)) by (apply IH; auto; lia).
    rewrite esc_attr_cons, <- app_assoc. unfold esc_at_byte.
    destruct (Ascii.eqb c lt_c) eqn:L; [attval_ref L c (b "lt;") parse_ref_lt IH'|].
    destruct (Ascii.eqb c gt_c) eqn:G; [attval_ref G c (b "gt;") parse_ref_gt IH'|].
    destruct (Ascii.eqb c dq_c) eqn:Q; [attval_ref Q c (b "quot;") parse_ref_quot IH'|].
    destruct (Ascii.eqb c sq_c) eqn:Sq; [attval_ref Sq c (b "apos;") parse_ref_apos IH'|].
    destruct (Ascii.eqb c amp_c) eqn:A; [attval_ref A c (b "amp;") parse_ref_amp IH'|].
    destruct (Ascii.eqb c nl) eqn:N; [attval_ref N c (b "#xA;") parse_ref_xA IH'|].
    destruct (Ascii.eqb c cr) eqn:C; [attval_ref C c (b "#xD;") parse_ref_xD IH'|].
    destruct (attr_char_cases c Hc) as [X|[X|(H32 & T & _ & _)]]; try congruence.
    cbn [app parse_attval]. rewrite Q, L, A, T, N, C, H32, IH'. reflexivity.
Qed.

Lemma no_cr_esc_attr s : no_cr (esc_attr s) = true.
Proof.
  induction s as [|c s IH]; auto. rewrite esc_attr_cons, no_cr_app, IH, andb_true_r.
  unfold esc_at_byte.
  destruct (Ascii.eqb c lt_c), (Ascii.eqb c gt_c), (Ascii.eqb c dq_c), (Ascii.eqb c sq_c),
    (Ascii.eqb c amp_c), (Ascii.eqb c nl); try reflexivity.
  destruct (Ascii.eqb c cr) eqn:C; [reflexivity|]. unfold no_cr; cbn [forallb]. rewrite C; reflexivity.
Qed.

Lemma length_esc_attr s : List.length s <= List.length (esc_attr s).
Proof.
  induction s as [|c s IH]; auto. rewrite esc_attr_cons, app_length. cbn [List.length].
  assert (1 <= List.length (esc_at_byte c)).
  { unfold esc_at_byte.
    destruct (Ascii.eqb c lt_c), (Ascii.eqb c gt_c), (Ascii.eqb c dq_c), (Ascii.eqb c sq_c),
      (Ascii.eqb c amp_c), (Ascii.eqb c nl), (Ascii.eqb c cr); vm_compute; lia. }
  lia.
Qed.

Theorem unescape_attr_ok s :
  forallb attr_char_ok s = true -> no_nonchar s = true -> unescape_attr (esc_attr s) = Some s.
Proof.
  intros H Hn. unfold unescape_attr.
  rewrite norm_eol_no_cr by (rewrite no_cr_app, no_cr_esc_attr; reflexivity).
  assert (NN : no_nonchar (esc_attr s ++ [dq_c]) = true).
  { unfold no_nonchar in *. rewrite nc_run_app. unfold esc_attr. rewrite (nc_run_esc _ esc_like_at).
    destruct (nc_run N0 s) as [st|]; [|discriminate]. destruct st; reflexivity. }
  rewrite NN.
  rewrite app_length. rewrite parse_attval_esc; auto.
  pose proof (length_esc_attr s). cbn; lia.
Qed.

Lemma xml_char_ok_text s : xml_char_ok s = true -> forallb text_char_ok s = true.
Proof.
  unfold xml_char_ok. intros H0. apply andb_true_iff in H0. destruct H0 as [H0 _]. revert H0.
  rewrite !forallb_forall. intros H c Hc. specialize (H c Hc).
  unfold text_char_ok. apply orb_true_iff in H. destruct H as [H|H]; rewrite H; auto using orb_true_r.
Qed.
Lemma xml_char_ok_attr s : xml_char_ok s = true -> forallb attr_char_ok s = true.
Proof.
  unfold xml_char_ok. intros H0. apply andb_true_iff in H0. destruct H0 as [H0 _]. revert H0.
  rewrite !forallb_forall. intros H c Hc. specialize (H c Hc).
  unfold attr_char_ok. apply orb_true_iff in H. destruct H as [H|H]; rewrite H; auto using orb_true_r.
  rewrite orb_true_r; reflexivity.
Qed.

(* ---- C12 headline 3 ---- *)
Theorem escapes_invert : forall s, xml_char_ok s = true ->
  unescape_text (esc_pcdata s) = Some s /\ unescape_attr (esc_attr s) = Some s.
Proof.
  intros s H. assert (Hn : no_nonchar s = true) by (unfold xml_char_ok in H; apply andb_true_iff in H; tauto).
  split.
  - apply unescape_text_ok; auto. apply xml_char_ok_text; auto.
  - apply unescape_attr_ok; auto. apply xml_char_ok_attr; auto.
Qed.

(* the characters excluded by [xml_char_ok] are exactly where the crate's tables fall short *)
Lemma escapes_cr_text_refuted : unescape_text (esc_pcdata [cr]) = Some [nl].
Proof. vm_compute. reflexivity. Qed.
Lemma escapes_crlf_text_refuted : unescape_text (esc_pcdata [cr; nl]) = Some [nl].
Proof. vm_compute. reflexivity. Qed.
Lemma escapes_tab_attr_refuted : unescape_attr (esc_attr [tab]) = Some [sp].
Proof. vm_compute. reflexivity. Qed.
Lemma escapes_control_refuted :
  unescape_text (esc_pcdata [ascii_of_nat 1]) = None /\ unescape_attr (esc_attr [ascii_of_nat 1]) = None /\
  unescape_text (esc_pcdata [ascii_of_nat 0]) = None /\ unescape_text (esc_pcdata [ascii_of_nat 27]) = None.
Proof. vm_compute. auto. Qed.
(* what is NOT a problem: CR and LF in attribute values, TAB in character data *)
Lemma escapes_attr_crlf_fine : unescape_attr (esc_attr [cr; nl]) = Some [cr; nl].
Proof. vm_compute. reflexivity. Qed.
Lemma escapes_text_tab_fine : unescape_text (esc_pcdata [tab]) = Some [tab].
Proof. vm_compute. reflexivity. Qed.

(* ================================================================== *)
(* Part C: what the emitter writes, as the plain serialisation of      *)
(*         the "written" tree                                          *)

Ltac norm_app := repeat (progress (rewrite <- ?app_assoc; cbn [app])).

Lemma esc_pcdata_indent n : esc_pcdata (indent n) = indent n.
Proof. induction n; cbn; auto. fold (esc_pcdata (indent n)). rewrite IHn. reflexivity. Qed.
Lemma esc_pcdata_newline n : esc_pcdata (newline n) = newline n.
Proof. unfold newline. rewrite esc_pcdata_cons, esc_pcdata_indent. reflexivity. Qed.

Lemma ns_attr_bytes kept : ns_attr kept = ns_bytes (ns_emitted kept).
Proof.
  unfold ns_attr, ns_emitted, ns_bytes. destruct kept as [[p u]|]; auto.
  destruct (bytes_eqb p (b "xmlns") || bytes_eqb p (b "xml")); auto.
  destruct p as [|c p]; [destruct u|]; cbn [flat_map fst snd]; rewrite ?app_nil_r; reflexivity.
Qed.

Lemma emit_start_in lvl flag fl names nst name attrs ns :
  emit_one (mkest true (S lvl) (flag :: fl) names nst) (EStart name attrs ns) =
  Some ((match flag with WText => [] | _ => newline (S lvl) end)
          ++ lt_c :: name ++ ns_attr (ns_kept nst ns) ++ attrs_bytes attrs ++ [gt_c],
        mkest true (S (S lvl)) (WMarkup :: (match flag with WText => WText | _ => WMarkup end) :: fl)
              (name :: names) (ns_kept nst ns :: nst)).
Proof. destruct flag; reflexivity. Qed.

Lemma emit_chars_in lvl flag fl names nst s :
  emit_one (mkest true lvl (flag :: fl) names nst) (EChars s) =
  Some (esc_pcdata s, mkest true lvl (WText :: fl) names nst).
Proof. reflexivity. Qed.

Lemma emit_end_in lvl flag pf fl name names top nst :
  emit_one (mkest true (S lvl) (flag :: pf :: fl) (name :: names) (top :: nst)) EEnd =
  Some ((match flag with WMarkup => newline lvl | _ => [] end) ++ lt_c :: "/"%char :: name ++ [gt_c],
        mkest true lvl (WMarkup :: fl) names nst).
Proof. destruct flag; cbn; rewrite ?Nat.sub_0_r; reflexivity. Qed.

Definition node_emit_spec (n : xnode) : Prop :=
  forall lvl flag fl names nst rest, flag <> WNothing ->
  emit_all (mkest true (S lvl) (flag :: fl) names nst) (events_of_node n ++ rest) =
  match emit_all (mkest true (S lvl) ((match n with XText _ => WText | _ => WMarkup end) :: fl) names nst) rest with
  | Some o =>
    Some (flat_map plain_node (match n with XText _ => [] | _ => open_ws flag lvl end)
            ++ plain_node (written_node (S lvl) nst n) ++ o)
  | None => None
  end.

Lemma plain_open_ws flag lvl :
  flat_map plain_node (open_ws flag lvl) = match flag with WText => [] | _ => newline (S lvl) end.
Proof. destruct flag; cbn [open_ws flat_map plain_node]; rewrite ?app_nil_r, ?esc_pcdata_newline; reflexivity. Qed.

Lemma emit_kids_end l : Forall node_emit_spec l ->
  forall lvl flag pf fl name names top nst rest, flag <> WNothing ->
  emit_all (mkest true (S lvl) (flag :: pf :: fl) (name :: names) (top :: nst))
           (flat_map events_of_node l ++ EEnd :: rest) =
  match emit_all (mkest true lvl (WMarkup :: fl) names nst) rest with
  | Some o =>
    Some (flat_map plain_node (wkids (written_node (S lvl) (top :: nst)) lvl flag l)
            ++ lt_c :: "/"%char :: name ++ [gt_c] ++ o)
  | None => None
  end.
Proof.
  induction 1 as [|n l Hn Hl IH]; intros lvl flag pf fl name names top nst rest Hflag.
  - cbn [flat_map app emit_all]. rewrite emit_end_in.
    destruct (emit_all _ rest) as [o|]; [|reflexivity]. f_equal.
    destruct flag; try congruence; cbn [wkids close_ws flat_map plain_node];
      rewrite ?app_nil_r, ?esc_pcdata_newline, <- ?app_assoc; cbn [app]; rewrite <- ?app_assoc; reflexivity.
  - cbn [flat_map]. rewrite <- app_assoc. rewrite Hn by auto.
    destruct n as [nm nsd at_ kids|s].
    + rewrite IH by discriminate.
      destruct (emit_all _ rest) as [o|]; [|reflexivity]. f_equal.
      cbn [wkids]. rewrite !flat_map_app. cbn [flat_map]. rewrite <- !app_assoc. reflexivity.
    + rewrite IH by discriminate.
      destruct (emit_all _ rest) as [o|]; [|reflexivity]. f_equal.
      cbn [wkids flat_map written_node plain_node app]. rewrite <- app_assoc. reflexivity.
Qed.

Lemma node_emit_all : forall n, node_emit_spec n.
Proof.
  induction n as [s|name ns attrs kids IH] using xnode_ind'; unfold node_emit_spec;
    intros lvl flag fl names nst rest Hflag.
  - cbn [events_of_node app emit_all]. rewrite emit_chars_in.
    destruct (emit_all _ rest); reflexivity.
  - cbn [events_of_node]. rewrite <- app_comm_cons. cbn [emit_all]. rewrite emit_start_in.
    rewrite <- app_assoc. cbn [app]. rewrite (emit_kids_end kids IH) by discriminate.
    destruct (emit_all _ rest) as [o|]; [|reflexivity]. f_equal.
    rewrite plain_open_ws. cbn [written_node plain_node]. rewrite ns_attr_bytes.
    norm_app. reflexivity.
Qed.

Definition enc_or_default (enc : option bytes) : bytes :=
  match enc with Some e => e | None => default_enc end.

(* the bytes of a document whose body is one element *)
Theorem xml_emit_doc ver enc sa name ns attrs kids :
  xml_emit_r (EStartDoc ver enc sa :: events_of_node (XElem name ns attrs kids)) =
  Some (decl_bytes ver (enc_or_default enc) sa ++ nl :: plain_node (written_node 0 [] (XElem name ns attrs kids))).
Proof.
  unfold xml_emit_r.
  assert (S0 : emit_one est0 (EStartDoc ver enc sa) =
               Some (decl_bytes ver (enc_or_default enc) sa, mkest true 0 [WMarkup] [] [])) by reflexivity.
  cbn [emit_all]. rewrite S0. cbn [events_of_node emit_all].
  assert (S1 : emit_one (mkest true 0 [WMarkup] [] []) (EStart name attrs (hd_error ns)) =
               Some (nl :: lt_c :: name ++ ns_attr (ns_kept [] (hd_error ns)) ++ attrs_bytes attrs ++ [gt_c],
                     mkest true 1 [WMarkup; WMarkup] [name] [ns_kept [] (hd_error ns)])) by reflexivity.
  rewrite S1.
  rewrite <- (app_nil_r (flat_map events_of_node kids ++ [EEnd])), <- app_assoc. cbn [app].
  rewrite (emit_kids_end kids) by (try discriminate; apply Forall_forall; intros; apply node_emit_all).
  cbn [emit_all]. f_equal. unfold enc_or_default. f_equal.
  cbn [written_node plain_node]. rewrite ns_attr_bytes. norm_app. rewrite ?app_nil_r. reflexivity.
Qed.

(* merging character data and dropping empty character data does not change the bytes *)
Lemma plain_merge_text l : flat_map plain_node (merge_text l) = flat_map plain_node l.
Proof.
  induction l as [|n l IH]; [reflexivity|].
  destruct n as [nm ns at_ kids|s]; cbn [merge_text flat_map].
  - rewrite IH; reflexivity.
  - rewrite <- IH. destruct (merge_text l) as [|[|s'] r'].
    + destruct s; reflexivity.
    + destruct s; reflexivity.
    + cbn [flat_map plain_node]. rewrite esc_pcdata_app, app_assoc. reflexivity.
Qed.

Lemma plain_norm_node : forall n, plain_node (norm_node n) = plain_node n.
Proof.
  induction n as [s|name ns attrs kids IH] using xnode_ind'; [reflexivity|].
  cbn [norm_node plain_node]. rewrite plain_merge_text.
  assert (E : flat_map plain_node (map norm_node kids) = flat_map plain_node kids).
  { induction IH as [|k l Hk Hl IHl]; cbn [map flat_map]; [reflexivity|]. rewrite Hk, IHl. reflexivity. }
  rewrite E. reflexivity.
Qed.

(* ================================================================== *)
(* Part D: the reader on the plain serialisation                       *)

Lemma name_start_facts c : is_name_start c = true ->
  is_ws c = false /\ Ascii.eqb c gt_c = false /\ Ascii.eqb c "/"%char = false /\ is_name_char c = true
  /\ Ascii.eqb c lt_c = false /\ Ascii.eqb c cr = false.
Proof. ascii_cases c. Qed.

Lemma name_char_facts c : is_name_char c = true ->
  is_ws c = false /\ Ascii.eqb c gt_c = false /\ Ascii.eqb c "/"%char = false /\ Ascii.eqb c cr = false
  /\ Ascii.eqb c "="%char = false.
Proof. ascii_cases c. Qed.

Definition name_stop (X : bytes) : Prop := match X with c :: _ => is_name_char c = false | [] => True end.

Lemma span_name_app n X : forallb is_name_char n = true -> name_stop X -> span_name (n ++ X) = (n, X).
Proof.
  intros Hn HX. induction n as [|c n IH]; cbn [app].
  - destruct X as [|c X]; [reflexivity|]. cbn in HX |- *. rewrite HX. reflexivity.
  - cbn [forallb] in Hn. apply andb_true_iff in Hn. destruct Hn as [Hc Hn].
    cbn [span_name]. rewrite Hc, IH by auto. reflexivity.
Qed.

Lemma name_ok_chars n : name_ok n = true -> forallb is_name_char n = true.
Proof.
  destruct n as [|c n]; [discriminate|]. cbn. intros H. apply andb_true_iff in H. destruct H as [Hc Hn].
  destruct (name_start_facts c Hc) as (_ & _ & _ & -> & _). auto.
Qed.

Lemma parse_name_app n X : name_ok n = true -> name_stop X -> parse_name (n ++ X) = Some (n, X).
Proof.
  intros Hn HX. pose proof (name_ok_chars n Hn) as Hc.
  destruct n as [|c n]; [discriminate|]. cbn [app parse_name].
  cbn in Hn. apply andb_true_iff in Hn. destruct Hn as [Hs _]. rewrite Hs.
  change (c :: n ++ X) with ((c :: n) ++ X). rewrite span_name_app; auto.
Qed.

Lemma parse_eq_quote_lit Z : parse_eq_quote (b "=""" ++ Z) = Some (dq_c, Z).
Proof. reflexivity. Qed.

Lemma uri_char_facts c : uri_char_ok c = true ->
  Ascii.eqb c dq_c = false /\ Ascii.eqb c lt_c = false /\ Ascii.eqb c amp_c = false /\
  Ascii.eqb c tab = false /\ Ascii.eqb c nl = false /\ Ascii.eqb c cr = false /\ (32 <=? code c)%N = true.
Proof. ascii_cases c. Qed.

Lemma parse_attval_raw : forall u rest fuel,
  forallb uri_char_ok u = true -> List.length u < fuel ->
  parse_attval fuel dq_c (u ++ dq_c :: rest) = Some (u, rest).
Proof.
  induction u as [|c u IH]; intros rest fuel Hu Hf.
  - destruct fuel as [|f]; [inversion Hf|]. reflexivity.
  - destruct fuel as [|f]; [inversion Hf|]. cbn [List.length] in Hf.
    cbn [forallb] in Hu. apply andb_true_iff in Hu. destruct Hu as [Hc Hu].
    destruct (uri_char_facts c Hc) as (Q & L & A & T & N & C & H32).
    cbn [app parse_attval]. rewrite Q, L, A, T, N, C, H32, IH by (auto; lia). reflexivity.
Qed.

(* printed attributes: name, printed value, decoded value *)
Definition patt := (bytes * bytes * bytes)%type.
Definition patt_ok (a : patt) : Prop :=
  let '(n, V, v) := a in
  name_ok n = true /\
  forall f W, List.length V < f -> parse_attval f dq_c (V ++ dq_c :: W) = Some (v, W).
Definition patt_bytes (a : patt) : bytes :=
  let '(n, V, _) := a in sp :: n ++ b "=""" ++ V ++ [dq_c].
Definition patt_att (a : patt) : bytes * bytes := let '(n, _, v) := a in (n, v).

Lemma skip_ws_name n X : name_ok n = true -> skip_ws (n ++ X) = n ++ X.
Proof.
  destruct n as [|c n]; [discriminate|]. cbn. intros H. apply andb_true_iff in H. destruct H as [Hc _].
  destruct (name_start_facts c Hc) as (-> & _). reflexivity.
Qed.

Lemma parse_attrs_patts : forall l, Forall patt_ok l -> forall fuel Y,
  List.length (flat_map patt_bytes l) < fuel ->
  parse_attrs fuel (flat_map patt_bytes l ++ gt_c :: Y) = Some (map patt_att l, gt_c :: Y).
Proof.
  induction 1 as [|[[n V] v] l Ha Hl IH]; intros fuel Y Hf.
  - destruct fuel as [|f]; [inversion Hf|]. reflexivity.
  - destruct fuel as [|f]; [inversion Hf|].
    destruct Ha as [Hn Hv].
    cbn [flat_map patt_bytes] in *. rewrite app_length in Hf. cbn [List.length] in Hf.
    rewrite !app_length in Hf. cbn [List.length] in Hf.
    norm_app. cbn [parse_attrs].
    assert (SK : skip_ws (sp :: n ++ b "=""" ++ V ++ dq_c :: flat_map patt_bytes l ++ gt_c :: Y)
                 = n ++ b "=""" ++ V ++ dq_c :: flat_map patt_bytes l ++ gt_c :: Y).
    { cbn [skip_ws]. change (is_ws sp) with true. cbn iota. apply skip_ws_name; auto. }
    rewrite SK. cbn [starts_ws]. change (is_ws sp) with true. cbn iota.
    assert (PN : parse_name (n ++ b "=""" ++ V ++ dq_c :: flat_map patt_bytes l ++ gt_c :: Y)
                 = Some (n, b "=""" ++ V ++ dq_c :: flat_map patt_bytes l ++ gt_c :: Y))
      by (apply parse_name_app; auto; reflexivity).
    rewrite PN.
    destruct n as [|c n']; [discriminate|].
    assert (Hc : is_name_start c = true) by (cbn in Hn; apply andb_true_iff in Hn; tauto).
    destruct (name_start_facts c Hc) as (_ & G & Sl & _).
    cbn [app]. rewrite G, Sl. cbn [orb].
    rewrite parse_eq_quote_lit.
    rewrite Hv by (unfold b in Hf; cbn in Hf; lia).
    rewrite IH by (unfold b in Hf; cbn in Hf; lia). reflexivity.
Qed.

Definition xmlns_name (p : bytes) : bytes := match p with [] => b "xmlns" | _ => b "xmlns:" ++ p end.
Definition ns_patt (pu : bytes * bytes) : patt := (xmlns_name (fst pu), snd pu, snd pu).
Definition attr_patt (a : bytes * bytes) : patt := (fst a, esc_attr (snd a), snd a).

Lemma ns_bytes_patts ns : ns_bytes ns = flat_map patt_bytes (map ns_patt ns).
Proof.
  induction ns as [|[p u] ns IH]; [reflexivity|].
  unfold ns_bytes in *. cbn [flat_map map fst snd]. rewrite IH. f_equal.
  unfold ns_patt, patt_bytes, xmlns_name; cbn [fst snd].
  destruct p; unfold b; cbn; norm_app; reflexivity.
Qed.

Lemma attrs_bytes_patts attrs : attrs_bytes attrs = flat_map patt_bytes (map attr_patt attrs).
Proof.
  induction attrs as [|[n v] l IH]; [reflexivity|].
  unfold attrs_bytes in *. cbn [flat_map map]. rewrite IH. f_equal.
Qed.

Lemma xmlns_name_ok p :
  forallb is_name_char p = true -> name_ok (xmlns_name p) = true.
Proof.
  intros H. destruct p as [|c p]; [reflexivity|].
  unfold xmlns_name. change (b "xmlns:" ++ c :: p) with ("x"%char :: (b "mlns:" ++ c :: p)).
  unfold name_ok. rewrite forallb_app, H. reflexivity.
Qed.

Lemma ns_prefix_of_xmlns p : ns_prefix_of (xmlns_name p) = Some p.
Proof.
  destruct p as [|c p]; [reflexivity|].
  unfold ns_prefix_of, xmlns_name.
  assert (E : bytes_eqb (b "xmlns:" ++ c :: p) (b "xmlns") = false) by reflexivity.
  rewrite E. apply strip_prefix_app.
Qed.

Definition raw_atts (ns attrs : list (bytes * bytes)) : list (bytes * bytes) :=
  map patt_att (map ns_patt ns ++ map attr_patt attrs).

Lemma raw_atts_eq ns attrs :
  raw_atts ns attrs = map (fun pu => (xmlns_name (fst pu), snd pu)) ns ++ attrs.
Proof.
  unfold raw_atts. rewrite map_app, !map_map. f_equal.
  rewrite <- (map_id attrs) at 2. apply map_ext. intros [n v]; reflexivity.
Qed.

Definition attr_okb (a : bytes * bytes) : bool :=
  attr_name_ok (fst a) && forallb attr_char_ok (snd a) && good (snd a).

Lemma split_atts_attrs attrs : forallb attr_okb attrs = true -> split_atts attrs = ([], attrs).
Proof.
  induction attrs as [|[n v] l IH]; [reflexivity|]. cbn [forallb split_atts]. intros H.
  apply andb_true_iff in H. destruct H as [Ha Hl]. rewrite IH by auto.
  unfold attr_okb, attr_name_ok in Ha; cbn [fst snd] in Ha.
  destruct (ns_prefix_of n); [|reflexivity].
  destruct (name_ok n); cbn in Ha; discriminate.
Qed.

Lemma split_atts_raw ns attrs :
  forallb attr_okb attrs = true -> split_atts (raw_atts ns attrs) = (ns, attrs).
Proof.
  intros H. rewrite raw_atts_eq. induction ns as [|[p u] ns IH]; cbn [map app].
  - apply split_atts_attrs; auto.
  - cbn [split_atts fst snd]. rewrite IH, ns_prefix_of_xmlns. reflexivity.
Qed.

Lemma names_nodup_raw ns attrs :
  (List.length ns <=? 1) = true -> forallb attr_okb attrs = true -> names_nodup attrs = true ->
  names_nodup (raw_atts ns attrs) = true.
Proof.
  intros Hn Ha Hd. rewrite raw_atts_eq.
  destruct ns as [|[p u] [|x ns]]; [exact Hd| |discriminate].
  cbn [map app names_nodup fst snd]. rewrite Hd, andb_true_r. apply negb_true_iff.
  destruct (existsb _ attrs) eqn:E; auto.
  apply existsb_exists in E. destruct E as ([n v] & Hin & Hq). cbn [fst] in Hq.
  apply bytes_eqb_spec in Hq. subst n.
  rewrite forallb_forall in Ha. specialize (Ha _ Hin).
  unfold attr_okb, attr_name_ok in Ha; cbn [fst snd] in Ha. rewrite ns_prefix_of_xmlns in Ha.
  destruct (name_ok (xmlns_name p)); cbn in Ha; discriminate.
Qed.

(* what the reader needs of a tree to read its plain serialisation back *)
Fixpoint pwf (n : xnode) : bool :=
  match n with
  | XText s => forallb text_char_ok s && good s
  | XElem name ns attrs kids =>
    name_ok name && good name && (List.length ns <=? 1) && forallb ns_decl_ok ns && forallb attr_okb attrs &&
    names_nodup attrs && forallb pwf kids
  end.
(* merged character data: no empty text node, no two adjacent text nodes *)
Fixpoint no_adj (l : list xnode) : bool :=
  match l with
  | [] => true
  | XText _ :: r => match r with XText _ :: _ => false | _ => no_adj r end
  | _ :: r => no_adj r
  end.
Fixpoint nf (n : xnode) : bool :=
  match n with XText s => nonempty s | XElem _ _ _ kids => no_adj kids && forallb nf kids end.

Definition head_not_text (l : list xnode) : Prop := match l with XText _ :: _ => False | _ => True end.

Definition elem_parse_spec (n : xnode) : Prop :=
  match n with
  | XText _ => True
  | XElem _ _ _ _ =>
    pwf n = true -> nf n = true -> forall fuel rest, List.length (plain_node n) <= fuel ->
    parse_elem fuel (tl (plain_node n) ++ rest) = Some (n, rest)
  end.

Lemma ns_decl_patt_ok pu : ns_decl_ok pu = true -> patt_ok (ns_patt pu).
Proof.
  destruct pu as [p u]. unfold ns_decl_ok, ns_patt, patt_ok; cbn [fst snd]. intros H.
  apply andb_true_iff in H. destruct H as [Hu Hp]. apply andb_true_iff in Hu. destruct Hu as [_ Hu]. split.
  - destruct p as [|c p]; [reflexivity|]. apply xmlns_name_ok.
    apply andb_true_iff in Hp. destruct Hp as [Hp _]. apply andb_true_iff in Hp. tauto.
  - intros f W Hf. apply parse_attval_raw; auto.
Qed.

Lemma attr_patt_ok a : attr_okb a = true -> patt_ok (attr_patt a).
Proof.
  destruct a as [n v]. unfold attr_okb, attr_patt, patt_ok, attr_name_ok; cbn [fst snd]. intros H.
  apply andb_true_iff in H. destruct H as [H _]. apply andb_true_iff in H. destruct H as [Hn Hv].
  apply andb_true_iff in Hn. destruct Hn as [Hn _]. apply andb_true_iff in Hn. destruct Hn as [Hn _]. split; auto.
  intros f W Hf. apply parse_attval_esc; auto. pose proof (length_esc_attr v). lia.
Qed.

Lemma patts_name_stop L Y : name_stop (flat_map patt_bytes L ++ gt_c :: Y).
Proof. destruct L as [|[[n V] v] L]; reflexivity. Qed.

Lemma text_stop_kids l Z : head_not_text l -> forallb pwf l = true ->
  text_stop (flat_map plain_node l ++ lt_c :: "/"%char :: Z).
Proof.
  destruct l as [|[nm ns at_ kids|s] l]; cbn; intros H _; [right; eauto|right; eauto|destruct H].
Qed.

Lemma length_plain_pos n : match n with XElem _ _ _ _ => 1 <= List.length (plain_node n) | XText _ => True end.
Proof. destruct n; cbn; auto. lia. Qed.

Lemma parse_content_plain l :
  Forall elem_parse_spec l -> forallb pwf l = true -> no_adj l = true -> forallb nf l = true ->
  (forall fuel Z, List.length (flat_map plain_node l) + 2 <= fuel ->
     parse_content fuel (flat_map plain_node l ++ lt_c :: "/"%char :: Z) = Some (l, Z)) /\
  (head_not_text l -> forall t fuel Z, forallb text_char_ok t = true ->
     List.length (esc_pcdata t) + List.length (flat_map plain_node l) + 2 <= fuel ->
     parse_content fuel (esc_pcdata t ++ flat_map plain_node l ++ lt_c :: "/"%char :: Z) = Some (txt_cons t l, Z)).
Proof.
  induction 1 as [|n l Hn Hl IH]; intros Hp Ha Hf.
  - assert (G : forall t fuel Z, forallb text_char_ok t = true ->
       List.length (esc_pcdata t) + 0 + 2 <= fuel ->
       parse_content fuel (esc_pcdata t ++ lt_c :: "/"%char :: Z) = Some (txt_cons t [], Z)).
    { intros t fuel Z Ht Hfu. destruct fuel as [|f]; [lia|]. cbn [parse_content].
      pose proof (length_esc_pcdata t).
      rewrite parse_text_esc; [reflexivity|auto|right; eauto|lia]. }
    split.
    + intros fuel Z Hfu. apply (G [] fuel Z); auto.
    + intros _ t fuel Z Ht Hfu. apply G; auto.
  - cbn [forallb] in Hp, Hf. apply andb_true_iff in Hp, Hf. destruct Hp as [Hpn Hpl], Hf as [Hfn Hfl].
    assert (Hal : no_adj l = true).
    { destruct n; cbn in Ha; auto. destruct l as [|[] l']; auto. discriminate. }
    destruct (IH Hpl Hal Hfl) as [IHH IHG].
    destruct n as [name ns attrs kids|s].
    + (* element first *)
      assert (G : forall t fuel Z, forallb text_char_ok t = true ->
         List.length (esc_pcdata t) + List.length (flat_map plain_node (XElem name ns attrs kids :: l)) + 2 <= fuel ->
         parse_content fuel (esc_pcdata t ++ flat_map plain_node (XElem name ns attrs kids :: l) ++ lt_c :: "/"%char :: Z)
         = Some (txt_cons t (XElem name ns attrs kids :: l), Z)).
      { intros t fuel Z Ht Hfu. destruct fuel as [|f]; [lia|]. cbn [parse_content].
        cbn [flat_map] in Hfu |- *. rewrite app_length in Hfu.
        pose proof (length_esc_pcdata t) as Lt.
        pose proof (length_plain_pos (XElem name ns attrs kids)) as Lp. cbn beta iota in Lp.
        rewrite parse_text_esc; auto; [| |lia].
        2:{ right. cbn [plain_node]. rewrite <- app_assoc. cbn [app]. eauto. }
        assert (Hname : name_ok name = true).
        { cbn in Hpn. repeat (apply andb_true_iff in Hpn; destruct Hpn as [Hpn ?]). auto. }
        assert (E : exists c0 R, plain_node (XElem name ns attrs kids) = lt_c :: c0 :: R /\ is_name_start c0 = true).
        { destruct name as [|c0 name']; [discriminate|]. cbn [plain_node app]. eexists _, _; split; [reflexivity|].
          cbn in Hname. apply andb_true_iff in Hname. tauto. }
        destruct E as (c0 & R & E & Hc0).
        destruct (name_start_facts c0 Hc0) as (_ & _ & Sl & _).
        unfold elem_parse_spec in Hn. specialize (Hn Hpn Hfn).
        rewrite E in *. cbn [tl List.length] in Hn, Hfu. norm_app. rewrite Sl.
        change (c0 :: R ++ flat_map plain_node l ++ lt_c :: "/"%char :: Z)
          with ((c0 :: R) ++ flat_map plain_node l ++ lt_c :: "/"%char :: Z).
        rewrite Hn by lia.
        rewrite IHH by lia. reflexivity. }
      split.
      * intros fuel Z Hfu. apply (G [] fuel Z); auto.
      * intros _ t fuel Z Ht Hfu. apply G; auto.
    + (* text first *)
      split; [|intros []].
      intros fuel Z Hfu. cbn [flat_map plain_node] in *. rewrite app_length in Hfu. rewrite <- app_assoc.
      assert (Hh : head_not_text l) by (destruct l as [|[] l']; cbn in Ha |- *; auto; discriminate).
      cbn [pwf] in Hpn. apply andb_true_iff in Hpn. destruct Hpn as [Hpn _].
      rewrite IHG; auto.
      destruct s; [discriminate|reflexivity].
Qed.

Lemma parse_elem_plain : forall n, elem_parse_spec n.
Proof.
  induction n as [s|name ns attrs kids IH] using xnode_ind'; [exact I|].
  unfold elem_parse_spec. intros Hp Hf fuel rest Hfu.
  cbn [pwf] in Hp. repeat (apply andb_true_iff in Hp; destruct Hp as [Hp ?]).
  rename Hp into Hname, H into Hkids, H0 into Hdup, H1 into Hattrs, H2 into Hnsok, H3 into Hns1.
  cbn [nf] in Hf. apply andb_true_iff in Hf. destruct Hf as [Hadj Hnf].
  destruct fuel as [|f]; [cbn in Hfu; lia|].
  cbn [plain_node tl] in *.
  set (L := map ns_patt ns ++ map attr_patt attrs).
  assert (EL : forall X, ns_bytes ns ++ attrs_bytes attrs ++ X = flat_map patt_bytes L ++ X).
  { intros X. unfold L. rewrite flat_map_app, <- app_assoc, ns_bytes_patts, attrs_bytes_patts. reflexivity. }
  assert (LL : List.length (flat_map patt_bytes L) = List.length (ns_bytes ns) + List.length (attrs_bytes attrs)).
  { unfold L. rewrite flat_map_app, app_length, ns_bytes_patts, attrs_bytes_patts. reflexivity. }
  assert (HL : Forall patt_ok L).
  { apply Forall_app; split; apply Forall_forall; intros a Ha; apply in_map_iff in Ha; destruct Ha as (x & <- & Hx).
    - apply ns_decl_patt_ok. rewrite forallb_forall in Hnsok; auto.
    - apply attr_patt_ok. rewrite forallb_forall in Hattrs; auto. }
  cbn [List.length] in Hfu. rewrite !app_length in Hfu. cbn [List.length] in Hfu. rewrite !app_length in Hfu.
  cbn [List.length] in Hfu.
  norm_app. rewrite EL. cbn [parse_elem].
  rewrite parse_name_app by (auto; apply patts_name_stop).
  rewrite parse_attrs_patts by (auto; lia).
  change (map patt_att L) with (raw_atts ns attrs). rewrite names_nodup_raw by auto. cbn [negb].
  change (Ascii.eqb gt_c gt_c) with true. cbn iota.
  destruct (parse_content_plain kids IH Hkids Hadj Hnf) as [PC _].
  rewrite PC by lia.
  rewrite parse_name_app by (auto; reflexivity).
  rewrite bytes_eqb_refl. cbn [skip_ws]. change (is_ws gt_c) with false. cbn iota.
  change (Ascii.eqb gt_c gt_c) with true. cbn iota.
  unfold mk_elem. rewrite split_atts_raw by auto. reflexivity.
Qed.

(* ---- the written tree of a well-formed tree can be read back ---- *)
Lemma nf_merge l :
  Forall (fun n => match n with XElem _ _ _ _ => nf n = true | XText _ => True end) l ->
  no_adj (merge_text l) = true /\ forallb nf (merge_text l) = true.
Proof.
  induction 1 as [|n l Hn Hl IH]; [split; reflexivity|].
  destruct IH as [IA IF]. destruct n as [nm ns at_ kids|s]; cbn [merge_text].
  - split; [exact IA|]. cbn [forallb]. rewrite Hn, IF. reflexivity.
  - destruct (merge_text l) as [|[nm ns at_ kids|s'] r'] eqn:E.
    + destruct s; split; reflexivity.
    + destruct s; split; auto.
    + cbn [forallb] in IF. apply andb_true_iff in IF. destruct IF as [Hs' IF]. split.
      * cbn [no_adj] in IA |- *. exact IA.
      * cbn [forallb]. rewrite IF, andb_true_r. cbn [nf] in *. destruct s; auto.
Qed.

Lemma nf_norm_node : forall n, match n with XElem _ _ _ _ => nf (norm_node n) = true | XText _ => True end.
Proof.
  induction n as [s|name ns attrs kids IH] using xnode_ind'; [exact I|].
  cbn [norm_node nf]. apply andb_true_iff. apply nf_merge.
  apply Forall_forall. intros x Hx. apply in_map_iff in Hx. destruct Hx as (k & <- & Hk).
  rewrite Forall_forall in IH. specialize (IH _ Hk). destruct k; [exact IH|exact I].
Qed.

Lemma pwf_merge l : forallb pwf l = true -> forallb pwf (merge_text l) = true.
Proof.
  induction l as [|n l IH]; [auto|]. cbn [forallb]. intros H. apply andb_true_iff in H. destruct H as [Hn Hl].
  specialize (IH Hl). destruct n as [nm ns at_ kids|s]; cbn [merge_text].
  - cbn [forallb]. rewrite Hn, IH. reflexivity.
  - destruct (merge_text l) as [|[nm ns at_ kids|s'] r'].
    + destruct s; cbn [forallb]; auto. rewrite Hn. reflexivity.
    + destruct s; auto. cbn [forallb] in *. rewrite Hn, IH. reflexivity.
    + cbn [forallb pwf] in *. apply andb_true_iff in IH. destruct IH as [Hs' IH].
      apply andb_true_iff in Hn, Hs'. destruct Hn as [Hn1 Hn2], Hs' as [Hs1 Hs2].
      rewrite forallb_app, Hn1, Hs1, IH, good_app by auto. reflexivity.
Qed.

Lemma pwf_norm_node : forall n, pwf n = true -> pwf (norm_node n) = true.
Proof.
  induction n as [s|name ns attrs kids IH] using xnode_ind'; [auto|].
  cbn [pwf norm_node]. intros H. repeat (apply andb_true_iff in H; destruct H as [H ?]).
  rewrite H, H5, H4, H3, H2, H1. cbn [andb].
  apply pwf_merge. rewrite forallb_forall in *. intros x Hx. apply in_map_iff in Hx. destruct Hx as (k & <- & Hk).
  rewrite Forall_forall in IH. auto.
Qed.

Lemma text_ok_newline k : forallb text_char_ok (newline k) = true.
Proof. unfold newline. cbn [forallb]. induction k; cbn [indent forallb]; auto. Qed.

Lemma good_newline k : good (newline k) = true.
Proof.
  apply good_ascii. unfold newline. cbn [forallb]. induction k; cbn [indent forallb]; auto.
Qed.

Lemma pwf_ws k : pwf (XText (newline k)) = true.
Proof. cbn [pwf]. rewrite text_ok_newline, good_newline. reflexivity. Qed.

Lemma ns_decl_emitted pu : ns_decl_ok pu = true -> ns_emitted (Some pu) = [pu].
Proof.
  destruct pu as [p u]. unfold ns_decl_ok, ns_emitted; cbn [fst snd]. intros H.
  apply andb_true_iff in H. destruct H as [_ H]. destruct p as [|c p].
  - destruct u; [discriminate|reflexivity].
  - apply andb_true_iff in H. destruct H as [H X]. apply andb_true_iff in H. destruct H as [_ Y].
    apply negb_true_iff in X, Y. rewrite X, Y. reflexivity.
Qed.

Lemma node_wf_ns nst ns :
  match ns with
  | [] => true
  | [pu] => ns_decl_ok pu && negb (existsb (opt_pair_eqb (Some pu)) nst)
  | _ => false
  end = true ->
  ns_kept nst (hd_error ns) = hd_error ns /\ ns_emitted (hd_error ns) = ns /\
  (List.length ns <=? 1) = true /\ forallb ns_decl_ok ns = true.
Proof.
  destruct ns as [|pu [|x ns]]; [auto| |discriminate].
  intros H. apply andb_true_iff in H. destruct H as [Hd Hn]. apply negb_true_iff in Hn.
  cbn [hd_error ns_kept]. rewrite Hn. cbn [forallb]. rewrite Hd, (ns_decl_emitted _ Hd). auto.
Qed.

Lemma pwf_written : forall n lvl nst, node_wf nst n = true -> pwf (written_node lvl nst n) = true.
Proof.
  induction n as [s|name ns attrs kids IH] using xnode_ind'; intros lvl nst H; [exact H|].
  cbn [node_wf] in H. repeat (apply andb_true_iff in H; destruct H as [H ?]).
  rename H into Hname, H0 into Hkids, H1 into Hdup, H2 into Hattrs, H3 into Hns.
  destruct (node_wf_ns _ _ Hns) as (K & E & L1 & Dk).
  cbn [written_node pwf]. rewrite K, E, Hname, H4, L1, Dk, Hdup. cbn [andb].
  apply andb_true_iff; split; [rewrite andb_true_r; exact Hattrs|].
  generalize WMarkup as flag. revert Hkids.
  induction IH as [|k l Hk Hl IHl]; intros Hkids flag; cbn [wkids].
  - destruct flag; cbn [close_ws forallb]; rewrite ?pwf_ws; reflexivity.
  - cbn [forallb] in Hkids. apply andb_true_iff in Hkids. destruct Hkids as [Hk' Hl'].
    destruct k as [nm nsd at_ kk|s].
    + rewrite forallb_app. cbn [forallb]. rewrite (Hk _ _ Hk'), IHl by auto.
      destruct flag; cbn [open_ws forallb]; rewrite ?pwf_ws; reflexivity.
    + cbn [forallb]. rewrite IHl by auto. cbn [pwf node_wf] in *. rewrite Hk'. reflexivity.
Qed.

(* ---- no CR anywhere in the output, so end-of-line normalisation is the identity ---- *)
Lemma no_cr_of P s : (forall c, P c = true -> Ascii.eqb c cr = false) -> forallb P s = true -> no_cr s = true.
Proof.
  intros HP H. unfold no_cr. rewrite forallb_forall in *. intros c Hc. rewrite (HP c (H c Hc)). reflexivity.
Qed.

Lemma no_cr_cons c s : no_cr (c :: s) = negb (Ascii.eqb c cr) && no_cr s.
Proof. reflexivity. Qed.

Lemma no_cr_name n : forallb is_name_char n = true -> no_cr n = true.
Proof. apply no_cr_of. intros c Hc. apply name_char_facts in Hc. tauto. Qed.

Lemma no_cr_uri u : forallb uri_char_ok u = true -> no_cr u = true.
Proof. apply no_cr_of. intros c Hc. apply uri_char_facts in Hc. tauto. Qed.

Lemma no_cr_patts L : Forall (fun a : patt => let '(n, V, _) := a in name_ok n = true /\ no_cr V = true) L ->
  no_cr (flat_map patt_bytes L) = true.
Proof.
  induction 1 as [|[[n V] v] L [Hn HV] HL IH]; [reflexivity|].
  cbn [flat_map patt_bytes]. change (sp :: n ++ b "=""" ++ V ++ [dq_c]) with ([sp] ++ n ++ b "=""" ++ V ++ [dq_c]).
  rewrite !no_cr_app, IH, HV, (no_cr_name n (name_ok_chars n Hn)). reflexivity.
Qed.

Lemma no_cr_plain : forall n, pwf n = true -> no_cr (plain_node n) = true.
Proof.
  induction n as [s|name ns attrs kids IH] using xnode_ind'; intros H.
  - cbn [plain_node]. cbn [pwf] in H. apply andb_true_iff in H. apply no_cr_esc_pcdata, text_char_ok_no_cr. tauto.
  - cbn [pwf] in H. repeat (apply andb_true_iff in H; destruct H as [H ?]).
    rename H into Hname, H0 into Hkids, H1 into Hdup, H2 into Hattrs, H3 into Hnsok, H4 into Hns1.
    cbn [plain_node].
    assert (N : no_cr name = true) by (apply no_cr_name, name_ok_chars; auto).
    assert (A : no_cr (ns_bytes ns) = true).
    { rewrite ns_bytes_patts. apply no_cr_patts. apply Forall_forall. intros a Ha.
      apply in_map_iff in Ha. destruct Ha as ([p u] & <- & Hx). cbn.
      rewrite forallb_forall in Hnsok. specialize (Hnsok _ Hx).
      pose proof (ns_decl_patt_ok _ Hnsok) as [P1 _]. cbn in P1. split; [exact P1|].
      unfold ns_decl_ok in Hnsok. apply andb_true_iff in Hnsok. destruct Hnsok as [Hnsok _].
      apply andb_true_iff in Hnsok. apply no_cr_uri. tauto. }
    assert (B : no_cr (attrs_bytes attrs) = true).
    { rewrite attrs_bytes_patts. apply no_cr_patts. apply Forall_forall. intros a Ha.
      apply in_map_iff in Ha. destruct Ha as ([n v] & <- & Hx). cbn.
      rewrite forallb_forall in Hattrs. specialize (Hattrs _ Hx).
      pose proof (attr_patt_ok _ Hattrs) as [P1 _]. cbn in P1. split; [exact P1|apply no_cr_esc_attr]. }
    assert (K : no_cr (flat_map plain_node kids) = true).
    { clear -IH Hkids. induction IH as [|k l Hk Hl IHl]; [reflexivity|].
      cbn [forallb] in Hkids. apply andb_true_iff in Hkids. destruct Hkids.
      cbn [flat_map]. rewrite no_cr_app, Hk, IHl; auto. }
    rewrite ?no_cr_cons, ?no_cr_app, ?no_cr_cons, ?no_cr_app, ?no_cr_cons, N, A, B, K. reflexivity.
Qed.

(* ---- no U+FFFE / U+FFFF anywhere in the output ---- *)
Lemma good_cons c x : good [c] = true -> good x = true -> good (c :: x) = true.
Proof. intros. change (c :: x) with ([c] ++ x). apply good_app; auto. Qed.

Lemma good_ns_bytes ns : forallb ns_decl_ok ns = true -> good (ns_bytes ns) = true.
Proof.
  intros H. unfold ns_bytes. apply good_flat_map. intros [p u] Hin. cbn [fst snd].
  rewrite forallb_forall in H. specialize (H _ Hin). unfold ns_decl_ok in H; cbn [fst snd] in H.
  apply andb_true_iff in H. destruct H as [H _]. apply andb_true_iff in H. destruct H as [H _].
  apply andb_true_iff in H. destruct H as [Hp Hu].
  destruct p as [|c p]; repeat (apply good_app); auto.
Qed.

Lemma good_attrs_bytes attrs : forallb attr_okb attrs = true -> good (attrs_bytes attrs) = true.
Proof.
  intros H. unfold attrs_bytes. apply good_flat_map. intros [n v] Hin. unfold attr_bytes; cbn [fst snd].
  rewrite forallb_forall in H. specialize (H _ Hin). unfold attr_okb, attr_name_ok in H; cbn [fst snd] in H.
  apply andb_true_iff in H. destruct H as [H Hv]. apply andb_true_iff in H. destruct H as [H _].
  apply andb_true_iff in H. destruct H as [_ Hn].
  apply good_cons; [reflexivity|]. repeat (apply good_app); auto. apply good_esc_attr; auto.
Qed.

Lemma good_plain : forall n, pwf n = true -> good (plain_node n) = true.
Proof.
  induction n as [s|name ns attrs kids IH] using xnode_ind'; intros H.
  - cbn [plain_node pwf] in *. apply andb_true_iff in H. apply good_esc_pcdata. tauto.
  - cbn [pwf] in H. repeat (apply andb_true_iff in H; destruct H as [H ?]).
    cbn [plain_node].
    assert (K : good (flat_map plain_node kids) = true).
    { apply good_flat_map. intros k Hk. rewrite Forall_forall in IH. apply IH; auto.
      rewrite forallb_forall in H0. auto. }
    apply good_cons; [reflexivity|].
    repeat (apply good_app); auto using good_ns_bytes, good_attrs_bytes.
    apply good_cons; [reflexivity|]. apply good_cons; [reflexivity|]. apply good_app; auto.
Qed.

(* ---- the XML declaration ---- *)
Lemma span_until_app q v W :
  forallb (fun c => negb (Ascii.eqb c q)) v = true -> span_until q (v ++ q :: W) = Some (v, W).
Proof.
  induction v as [|c v IH]; cbn [app span_until forallb].
  - rewrite Ascii.eqb_refl. reflexivity.
  - intros H. apply andb_true_iff in H. destruct H as [Hc Hv]. apply negb_true_iff in Hc.
    rewrite Hc, IH by auto. reflexivity.
Qed.

Lemma name_start_not_q c : is_name_start c = true -> Ascii.eqb "?"%char c = false.
Proof. ascii_cases c. Qed.

Lemma pseudo_step f n v W :
  name_ok n = true -> forallb (fun c => negb (Ascii.eqb c dq_c)) v = true ->
  parse_pseudos (S f) (sp :: n ++ b "=""" ++ v ++ dq_c :: W) =
  match parse_pseudos f W with Some (rest, s5) => Some ((n, v) :: rest, s5) | None => None end.
Proof.
  intros Hn Hv. cbn [parse_pseudos skip_ws starts_ws]. change (is_ws sp) with true. cbn iota.
  rewrite skip_ws_name by auto.
  rewrite parse_name_app by (auto; reflexivity).
  destruct n as [|c n']; [discriminate|].
  assert (Hc : is_name_start c = true) by (cbn in Hn; apply andb_true_iff in Hn; tauto).
  cbn [app strip_prefix]. unfold b at 1. cbn [list_ascii_of_string strip_prefix].
  rewrite (name_start_not_q c Hc).
  rewrite parse_eq_quote_lit, span_until_app by auto. reflexivity.
Qed.

Lemma pseudo_end f Y : parse_pseudos (S f) (b "?>" ++ Y) = Some ([], Y).
Proof. reflexivity. Qed.

Definition sa_text (sa : option bool) : list (bytes * bytes) :=
  match sa with Some true => [(b "standalone", b "yes")] | Some false => [(b "standalone", b "no")] | None => [] end.

Lemma enc_char_not_dq c : enc_char c = true -> negb (Ascii.eqb c dq_c) = true /\ Ascii.eqb c cr = false.
Proof. ascii_cases c. Qed.
Lemma alpha_enc_char c : is_alpha c = true -> enc_char c = true.
Proof. ascii_cases c. Qed.

Lemma enc_name_chars e : enc_name_ok e = true -> forallb enc_char e = true.
Proof.
  destruct e as [|c e]; [discriminate|]. cbn. intros H. apply andb_true_iff in H. destruct H as [Hc He].
  rewrite (alpha_enc_char c Hc), He. reflexivity.
Qed.

Definition sa_pseudo (sa : option bool) (Y : bytes) : bytes :=
  match sa with
  | Some true => sp :: b "standalone" ++ b "=""" ++ b "yes" ++ dq_c :: Y
  | Some false => sp :: b "standalone" ++ b "=""" ++ b "no" ++ dq_c :: Y
  | None => Y
  end.

Lemma decl_bytes_shape ver enc sa Y :
  decl_bytes ver enc sa ++ Y =
  b "<?xml" ++ sp :: b "version" ++ b "=""" ++ ver_text ver ++ dq_c ::
    sp :: b "encoding" ++ b "=""" ++ enc ++ dq_c :: sa_pseudo sa (b "?>" ++ Y).
Proof.
  unfold decl_bytes. norm_app. destruct ver, sa as [[]|]; reflexivity.
Qed.

Lemma parse_decl_bytes ver enc sa Y f :
  enc_name_ok enc = true ->
  parse_pseudos (S (S (S (S f))))
    (sp :: b "version" ++ b "=""" ++ ver_text ver ++ dq_c ::
     sp :: b "encoding" ++ b "=""" ++ enc ++ dq_c :: sa_pseudo sa (b "?>" ++ Y)) =
  Some ((b "version", ver_text ver) :: (b "encoding", enc) :: sa_text sa, Y).
Proof.
  intros He.
  assert (Hq : forallb (fun c => negb (Ascii.eqb c dq_c)) enc = true).
  { apply enc_name_chars in He. rewrite forallb_forall in *. intros c Hc. apply enc_char_not_dq; auto. }
  rewrite pseudo_step by (destruct ver; reflexivity).
  rewrite pseudo_step by (auto; reflexivity).
  destruct sa as [[]|]; unfold sa_pseudo, sa_text.
  - rewrite pseudo_step by reflexivity. rewrite pseudo_end. reflexivity.
  - rewrite pseudo_step by reflexivity. rewrite pseudo_end. reflexivity.
  - rewrite pseudo_end. reflexivity.
Qed.

Lemma decl_of_ok ver enc sa :
  enc_name_ok enc && is_utf8_name enc = true ->
  decl_of ((b "version", ver_text ver) :: (b "encoding", enc) :: sa_text sa) = Some (mkdecl ver enc sa).
Proof.
  intros H. unfold decl_of. litkeys. cbn [negb].
  assert (V : ver_of (ver_text ver) = Some ver) by (destruct ver; reflexivity).
  rewrite V, H. cbn [negb]. destruct sa as [[]|]; reflexivity.
Qed.

Lemma enc_char_ascii c : enc_char c = true -> is_ascii c = true.
Proof. ascii_cases c. Qed.

Lemma good_decl_bytes ver enc sa : enc_name_ok enc = true -> good (decl_bytes ver enc sa) = true.
Proof.
  intros He. apply good_ascii. unfold decl_bytes. rewrite !forallb_app.
  assert (E : forallb is_ascii enc = true).
  { apply enc_name_chars in He. rewrite forallb_forall in *. intros c Hc. apply enc_char_ascii; auto. }
  rewrite E. destruct ver, sa as [[]|]; reflexivity.
Qed.

(* ---- the whole document ---- *)
Lemma parse_doc_plain ver enc sa root fuel :
  enc_name_ok enc && is_utf8_name enc = true ->
  match root with XElem _ _ _ _ => True | XText _ => False end ->
  pwf root = true -> nf root = true ->
  List.length (plain_node root) + 4 <= fuel ->
  parse_doc fuel (decl_bytes ver enc sa ++ nl :: plain_node root) =
  Some (mkdoc (Some (mkdecl ver enc sa)) [root]).
Proof.
  intros He Hr Hp Hn Hf. unfold parse_doc. rewrite decl_bytes_shape, strip_prefix_app.
  destruct fuel as [|[|[|[|f]]]]; try lia.
  rewrite parse_decl_bytes by (apply andb_true_iff in He; tauto).
  rewrite decl_of_ok by auto.
  destruct root as [name ns attrs kids|s]; [|destruct Hr].
  pose proof (parse_elem_plain (XElem name ns attrs kids)) as PE. unfold elem_parse_spec in PE.
  specialize (PE Hp Hn (S (S (S (S f)))) [] ltac:(lia)). rewrite app_nil_r in PE.
  cbn [skip_ws]. change (is_ws nl) with true. cbn iota.
  cbn [plain_node] in *. cbn [skip_ws]. change (is_ws lt_c) with false. cbn iota.
  change (Ascii.eqb lt_c lt_c) with true. cbn iota. cbn [tl] in PE. rewrite PE. reflexivity.
Qed.

(* ---- C12 headline 4 ---- *)
Lemma enc_name_no_cr e : enc_name_ok e = true -> no_cr e = true.
Proof.
  intros H. apply enc_name_chars in H. revert H. apply no_cr_of. intros c Hc. apply enc_char_not_dq; auto.
Qed.

Theorem xml_text_roundtrip : forall t,
  xml_tree_wf t = true -> xml_parse (xml_emit (events_of_tree t)) = Some (as_written t).
Proof.
  intros [decl body] H. unfold xml_tree_wf in H. cbn [x_decl x_body] in H.
  apply andb_true_iff in H. destruct H as [Hd Hb].
  destruct decl as [[ver enc sa]|]; [|discriminate]. cbn [decl_wf x_enc] in Hd.
  destruct body as [|[name ns attrs kids|s] [|x body]]; try discriminate.
  set (root := XElem name ns attrs kids) in *.
  unfold events_of_tree; cbn [x_decl x_body x_ver x_enc x_sa flat_map app]. rewrite app_nil_r.
  unfold xml_emit. unfold root at 1. rewrite xml_emit_doc. cbn [enc_or_default]. fold root.
  set (W := written_node 0 [] root).
  assert (PW : pwf (norm_node W) = true) by (apply pwf_norm_node, pwf_written; exact Hb).
  assert (NW : nf (norm_node W) = true) by (apply (nf_norm_node W)).
  rewrite <- (plain_norm_node W).
  unfold xml_parse.
  assert (NC : no_cr (decl_bytes ver enc sa ++ nl :: plain_node (norm_node W)) = true).
  { rewrite no_cr_app, no_cr_cons, (no_cr_plain _ PW). unfold decl_bytes.
    apply andb_true_iff in Hd. destruct Hd as [He _].
    rewrite !no_cr_app, (enc_name_no_cr _ He). destruct ver, sa as [[]|]; reflexivity. }
  rewrite norm_eol_no_cr by exact NC.
  assert (NN : no_nonchar (decl_bytes ver enc sa ++ nl :: plain_node (norm_node W)) = true).
  { apply good_no_nonchar. apply andb_true_iff in Hd. destruct Hd as [He _].
    apply good_app; [apply good_decl_bytes; auto|]. apply good_cons; [reflexivity|]. apply good_plain; auto. }
  rewrite NN.
  rewrite parse_doc_plain; auto.
  - exact I.
  - rewrite app_length. cbn [List.length]. unfold decl_bytes. rewrite !app_length.
    unfold b; cbn [list_ascii_of_string List.length]. lia.
Qed.

(* ---- corollary for documents ---- *)
Theorem doc_roundtrip : forall d evs t,
  to_xml d = Some evs -> tree_of_doc d = Some t -> xml_tree_wf t = true ->
  xml_parse (xml_emit evs) = Some (as_written t).
Proof.
  intros d evs t He Ht Hwf.
  destruct (to_xml_events _ _ He) as (ver & enc & sa & body & -> & _ & _ & Ht').
  rewrite Ht in Ht'. inversion Ht'; subst t; clear Ht'.
  rewrite <- (xml_text_roundtrip _ Hwf).
  (* the two event lists differ only in how the default encoding is spelled; the emitter
     reads it through the same default, so the outputs are convertible *)
  reflexivity.
Qed.

(* the same with everything unfolded: a well-formed described tree is written as a document
   that reads back as that tree with its indentation *)
Corollary xml_output_roundtrip : forall d t,
  tree_of_doc d = Some t -> xml_tree_wf t = true -> to_xml d <> None ->
  exists out, xml_output d = Some out /\ xml_parse out = Some (as_written t).
Proof.
  intros d t Ht Hwf Hne. unfold xml_output. destruct (to_xml d) as [evs|] eqn:E; [|congruence].
  exists (xml_emit evs). split; [reflexivity|]. eapply doc_roundtrip; eauto.
Qed.

(* ---- what indentation does to the tree ---- *)
Lemma ws_only_newline k : ws_only (newline k) = true.
Proof. unfold ws_only, newline. cbn [forallb]. induction k; cbn [indent forallb]; auto. Qed.

Definition strip_list (l : list xnode) : list xnode :=
  (fix go (l : list xnode) : list xnode :=
     match l with
     | [] => []
     | XText s :: r => if ws_only s then go r else XText s :: go r
     | e :: r => strip_ws e :: go r
     end) l.

Lemma strip_ws_elem name ns attrs kids :
  strip_ws (XElem name ns attrs kids) = XElem name ns attrs (strip_list kids).
Proof. reflexivity. Qed.

(* removing whitespace-only character data from the written tree gives the tree described,
   stripped the same way: indentation adds nothing else *)
Theorem strip_written : forall n lvl nst,
  node_wf nst n = true -> strip_ws (written_node lvl nst n) = strip_ws n.
Proof.
  induction n as [s|name ns attrs kids IH] using xnode_ind'; intros lvl nst H; [reflexivity|].
  cbn [node_wf] in H. repeat (apply andb_true_iff in H; destruct H as [H ?]).
  rename H0 into Hkids, H3 into Hns.
  destruct (node_wf_ns _ _ Hns) as (K & E & _ & _).
  cbn [written_node]. rewrite !strip_ws_elem, K, E. f_equal.
  generalize WMarkup as flag. revert Hkids.
  induction IH as [|k l Hk Hl IHl]; intros Hkids flag; cbn [wkids].
  - destruct flag; cbn [close_ws strip_list]; rewrite ?ws_only_newline; reflexivity.
  - cbn [forallb] in Hkids. apply andb_true_iff in Hkids. destruct Hkids as [Hk' Hl'].
    destruct k as [nm nsd at_ kk|s].
    + assert (X : strip_list (open_ws flag lvl ++ written_node (S lvl) (hd_error ns :: nst) (XElem nm nsd at_ kk)
                              :: wkids (written_node (S lvl) (hd_error ns :: nst)) lvl WMarkup l)
                  = strip_ws (written_node (S lvl) (hd_error ns :: nst) (XElem nm nsd at_ kk))
                    :: strip_list (wkids (written_node (S lvl) (hd_error ns :: nst)) lvl WMarkup l)).
      { destruct flag; cbn [open_ws app strip_list]; rewrite ?ws_only_newline; reflexivity. }
      rewrite X, (Hk _ _ Hk'), IHl by auto. reflexivity.
    + cbn [strip_list]. fold (strip_list (wkids (written_node (S lvl) (hd_error ns :: nst)) lvl WText l)).
      fold (strip_list l). rewrite IHl by auto. reflexivity.
Qed.

(* merging character data does not change what the character data is *)
Lemma text_content_merge l : flat_map text_content (merge_text l) = flat_map text_content l.
Proof.
  induction l as [|n l IH]; [reflexivity|].
  destruct n as [nm ns at_ kids|s]; cbn [merge_text flat_map].
  - rewrite IH; reflexivity.
  - rewrite <- IH. destruct (merge_text l) as [|[|s'] r'].
    + destruct s; reflexivity.
    + destruct s; reflexivity.
    + cbn [flat_map text_content]. rewrite app_assoc. reflexivity.
Qed.

Theorem text_content_norm : forall n, text_content (norm_node n) = text_content n.
Proof.
  induction n as [s|name ns attrs kids IH] using xnode_ind'; [reflexivity|].
  cbn [norm_node text_content]. rewrite text_content_merge.
  induction IH as [|k l Hk Hl IHl]; cbn [map flat_map]; [reflexivity|]. rewrite Hk, IHl. reflexivity.
Qed.

(* ---- when the described tree has no empty and no adjacent character data, nothing is merged:
        the reader returns exactly the tree plus indentation, and stripping whitespace-only
        character data gives the described tree (stripped the same way) ---- *)
Lemma merge_text_nf_id l : no_adj l = true -> forallb nf l = true -> merge_text l = l.
Proof.
  induction l as [|n l IH]; [reflexivity|]. intros Ha Hf.
  cbn [forallb] in Hf. apply andb_true_iff in Hf. destruct Hf as [Hn Hl].
  destruct n as [nm ns at_ kids|s]; cbn [merge_text].
  - cbn [no_adj] in Ha. rewrite IH by auto. reflexivity.
  - assert (Ha' : no_adj l = true /\ head_not_text l).
    { cbn [no_adj] in Ha. destruct l as [|[] l']; cbn; auto. discriminate. }
    destruct Ha' as [Ha' Hh]. rewrite IH by auto.
    destruct l as [|[] l']; cbn in Hh; try contradiction; destruct s; try discriminate; reflexivity.
Qed.

Lemma norm_node_nf_id : forall n, nf n = true -> norm_node n = n.
Proof.
  induction n as [s|name ns attrs kids IH] using xnode_ind'; [reflexivity|].
  cbn [nf norm_node]. intros H. apply andb_true_iff in H. destruct H as [Ha Hf].
  assert (E : map norm_node kids = kids).
  { clear Ha. induction IH as [|k l Hk Hl IHl]; [reflexivity|].
    cbn [forallb] in Hf. apply andb_true_iff in Hf. destruct Hf as [H1 H2].
    cbn [map]. rewrite Hk, IHl by auto. reflexivity. }
  rewrite E, merge_text_nf_id by auto. reflexivity.
Qed.

Lemma nonempty_newline k : nonempty (newline k) = true.
Proof. reflexivity. Qed.

Lemma nf_wkids wn lvl : forall l flag,
  (forall e, In e l -> nf e = true -> nf (wn e) = true) ->
  (forall e, match wn e with XText _ => match e with XText _ => True | _ => False end | _ => True end) ->
  no_adj l = true -> forallb nf l = true -> (flag = WText -> head_not_text l) ->
  no_adj (wkids wn lvl flag l) = true /\ forallb nf (wkids wn lvl flag l) = true /\
  (flag = WText -> head_not_text (wkids wn lvl flag l)).
Proof.
  induction l as [|n l IH]; intros flag Hwn Hshape Ha Hf Hflag.
  - cbn [wkids]. destruct flag; cbn; repeat split; auto; discriminate.
  - cbn [forallb] in Hf. apply andb_true_iff in Hf. destruct Hf as [Hn Hl].
    assert (Hwn' : forall e, In e l -> nf e = true -> nf (wn e) = true) by (intros; apply Hwn; [right|]; auto).
    destruct n as [nm ns at_ kids|s].
    + cbn [no_adj] in Ha.
      destruct (IH WMarkup Hwn' Hshape Ha Hl ltac:(discriminate)) as (A & F & _).
      cbn [wkids].
      assert (W : nf (wn (XElem nm ns at_ kids)) = true) by (apply Hwn; [left|]; auto).
      pose proof (Hshape (XElem nm ns at_ kids)) as Sh.
      destruct (wn (XElem nm ns at_ kids)) as [nm' ns' at' kids'|s'] eqn:E; [|contradiction].
      destruct flag; cbn [open_ws app no_adj forallb head_not_text]; rewrite ?W, ?F, ?A; cbn;
        repeat split; auto; discriminate.
    + assert (Ha' : no_adj l = true /\ head_not_text l).
      { cbn [no_adj] in Ha. destruct l as [|[] l']; cbn; auto. discriminate. }
      destruct Ha' as [Ha' Hh].
      destruct (IH WText Hwn' Hshape Ha' Hl (fun _ => Hh)) as (A & F & H).
      specialize (H eq_refl). cbn [wkids]. split; [|split].
      * cbn [no_adj]. destruct (wkids wn lvl WText l) as [|[] r]; cbn in H; try contradiction; auto.
      * cbn [forallb]. rewrite F. cbn [nf] in *. rewrite Hn. reflexivity.
      * intros ->. specialize (Hflag eq_refl). destruct Hflag.
Qed.

Lemma nf_written : forall n lvl nst, nf n = true -> nf (written_node lvl nst n) = true.
Proof.
  induction n as [s|name ns attrs kids IH] using xnode_ind'; intros lvl nst H; [exact H|].
  cbn [nf written_node] in *. apply andb_true_iff in H. destruct H as [Ha Hf].
  rewrite Forall_forall in IH.
  destruct (nf_wkids (written_node (S lvl) (ns_kept nst (hd_error ns) :: nst)) lvl kids WMarkup) as (A & F & _); auto.
  - intros e. destruct e; cbn; auto.
  - discriminate.
  - rewrite A, F. reflexivity.
Qed.

Theorem as_written_nf t :
  forallb nf (x_body t) = true ->
  as_written t = mkdoc (x_decl t) (map (written_node 0 []) (x_body t)).
Proof.
  intros H. unfold as_written. f_equal. apply map_ext_in. intros n Hn.
  apply norm_node_nf_id, nf_written. rewrite forallb_forall in H. auto.
Qed.

(* the statement asked for: the reader returns [as_written t]; dropping whitespace-only
   character data from it gives back the described tree, itself so stripped *)
Theorem roundtrip_modulo_indent t :
  xml_tree_wf t = true -> forallb nf (x_body t) = true ->
  exists p, xml_parse (xml_emit (events_of_tree t)) = Some p /\ strip_ws_doc p = strip_ws_doc t.
Proof.
  intros Hwf Hnf. exists (as_written t). split; [apply xml_text_roundtrip; auto|].
  rewrite as_written_nf by auto. unfold strip_ws_doc. cbn [x_decl x_body]. f_equal.
  rewrite map_map. unfold xml_tree_wf in Hwf. apply andb_true_iff in Hwf. destruct Hwf as [_ Hb].
  destruct (x_body t) as [|[name ns attrs kids|s] [|x body]]; try discriminate.
  cbn [map]. rewrite strip_written by auto. reflexivity.
Qed.

(* a tree without whitespace-only character data is its own stripped form *)
Fixpoint no_ws_text (n : xnode) : bool :=
  match n with
  | XText s => negb (ws_only s)
  | XElem _ _ _ kids => forallb no_ws_text kids
  end.

Lemma strip_ws_id : forall n, no_ws_text n = true -> strip_ws n = n.
Proof.
  induction n as [s|name ns attrs kids IH] using xnode_ind'; [reflexivity|].
  cbn [no_ws_text]. intros H. rewrite strip_ws_elem. f_equal.
  induction IH as [|k l Hk Hl IHl]; [reflexivity|].
  cbn [forallb] in H. apply andb_true_iff in H. destruct H as [H1 H2].
  destruct k as [nm nsd at_ kk|s]; cbn [strip_list].
  - fold (strip_list l). rewrite Hk, IHl by auto. reflexivity.
  - fold (strip_list l). cbn [no_ws_text] in H1. apply negb_true_iff in H1. rewrite H1, IHl by auto. reflexivity.
Qed.

Corollary roundtrip_exact_modulo_indent t :
  xml_tree_wf t = true -> forallb nf (x_body t) = true -> forallb no_ws_text (x_body t) = true ->
  exists p, xml_parse (xml_emit (events_of_tree t)) = Some p /\ strip_ws_doc p = t.
Proof.
  intros Hwf Hnf Hws. destruct (roundtrip_modulo_indent t Hwf Hnf) as (p & Hp & Hs).
  exists p; split; auto. rewrite Hs. destruct t as [decl body]. unfold strip_ws_doc; cbn [x_decl x_body] in *.
  f_equal. rewrite <- (map_id body) at 2. apply map_ext_in. intros n Hn. apply strip_ws_id.
  rewrite forallb_forall in Hws. auto.
Qed.

(* ================================================================== *)
(* Part E: fuel.  Every fuelled function of the reader gives the same  *)
(* answer for any two fuels above the input length, so the choice      *)
(* fuel = S (length input) in [xml_parse] loses nothing.               *)

Lemma strip_prefix_len p s r : strip_prefix p s = Some r -> List.length s = List.length p + List.length r.
Proof. intros H. apply strip_prefix_some in H. subst. apply app_length. Qed.

Lemma skip_ws_len s : List.length (skip_ws s) <= List.length s.
Proof. induction s as [|c s IH]; cbn [skip_ws]; auto. destruct (is_ws c); cbn [List.length]; lia. Qed.

Lemma skip_ws_cons_len s c r : skip_ws s = c :: r -> List.length r < List.length s.
Proof. intros H. pose proof (skip_ws_len s) as X. rewrite H in X. cbn [List.length] in X. lia. Qed.

Lemma span_name_len s : forall a z, span_name s = (a, z) -> List.length s = List.length a + List.length z.
Proof.
  induction s as [|c s IH]; intros a z; cbn [span_name].
  - intros H; inversion H; reflexivity.
  - destruct (is_name_char c).
    + destruct (span_name s) as [a' z'] eqn:E. intros H; inversion H; subst. cbn [List.length].
      rewrite (IH _ _ eq_refl). lia.
    + intros H; inversion H; subst. reflexivity.
Qed.

Lemma parse_name_len s n z : parse_name s = Some (n, z) -> List.length z < List.length s.
Proof.
  destruct s as [|c s]; cbn [parse_name]; [discriminate|].
  destruct (is_name_start c) eqn:E; [|discriminate]. intros H; inversion H as [H1]; clear H.
  cbn [span_name] in H1. destruct (name_start_facts c E) as (_ & _ & _ & NC & _). rewrite NC in H1.
  destruct (span_name s) as [a' z'] eqn:E2. inversion H1; subst. apply span_name_len in E2.
  cbn [List.length]. lia.
Qed.

Lemma read_num_len d base s : forall acc seen n r,
  read_num d base s acc seen = Some (n, r) -> List.length r < List.length s.
Proof.
  induction s as [|c s IH]; intros acc seen n r; cbn [read_num]; [discriminate|].
  destruct (Ascii.eqb c ";"%char).
  - destruct seen; [|discriminate]. intros H; inversion H; subst. cbn [List.length]. lia.
  - destruct (d c); [|discriminate]. intros H. apply IH in H. cbn [List.length]. lia.
Qed.

Ltac splen E := apply strip_prefix_len in E; unfold b in E; cbn [list_ascii_of_string List.length] in E.

Lemma parse_ref_len s x r : parse_ref s = Some (x, r) -> List.length r < List.length s.
Proof.
  unfold parse_ref.
  destruct (strip_prefix (b "#x") s) as [l|] eqn:E1.
  { destruct (read_num hex_val 16 l 0 false) as [[n r']|] eqn:R; [|discriminate].
    destruct (legal_char n); [|discriminate]. intros H; inversion H; subst.
    apply read_num_len in R. splen E1. lia. }
  destruct (strip_prefix (b "#") s) as [l|] eqn:E2.
  { destruct (read_num dec_val 10 l 0 false) as [[n r']|] eqn:R; [|discriminate].
    destruct (legal_char n); [|discriminate]. intros H; inversion H; subst.
    apply read_num_len in R. splen E2. lia. }
  destruct (strip_prefix (b "lt;") s) as [l|] eqn:E3; [intros H; inversion H; subst; splen E3; lia|].
  destruct (strip_prefix (b "gt;") s) as [l|] eqn:E4; [intros H; inversion H; subst; splen E4; lia|].
  destruct (strip_prefix (b "amp;") s) as [l|] eqn:E5; [intros H; inversion H; subst; splen E5; lia|].
  destruct (strip_prefix (b "apos;") s) as [l|] eqn:E6; [intros H; inversion H; subst; splen E6; lia|].
  destruct (strip_prefix (b "quot;") s) as [l|] eqn:E7; [intros H; inversion H; subst; splen E7; lia|].
  discriminate.
Qed.

Lemma parse_text_len f : forall s t z, parse_text f s = Some (t, z) -> List.length z <= List.length s.
Proof.
  induction f as [|f IH]; intros s t z; cbn [parse_text]; [discriminate|].
  destruct s as [|c r]; [intros H; inversion H; auto|].
  destruct (Ascii.eqb c lt_c); [intros H; inversion H; auto|].
  destruct (Ascii.eqb c amp_c).
  { destruct (parse_ref r) as [[x r']|] eqn:E; [|discriminate].
    destruct (parse_text f r') as [[t' z']|] eqn:E2; [|discriminate].
    intros H; inversion H; subst. apply parse_ref_len in E. apply IH in E2. cbn [List.length]. lia. }
  destruct (cdata_end (c :: r)); [discriminate|].
  destruct (raw_ok c); [|discriminate].
  destruct (parse_text f r) as [[t' z']|] eqn:E2; [|discriminate].
  intros H; inversion H; subst. apply IH in E2. cbn [List.length]. lia.
Qed.

Lemma parse_attval_len f q : forall s t z, parse_attval f q s = Some (t, z) -> List.length z < List.length s.
Proof.
  induction f as [|f IH]; intros s t z; cbn [parse_attval]; [discriminate|].
  destruct s as [|c r]; [discriminate|].
  destruct (Ascii.eqb c q); [intros H; inversion H; subst; cbn [List.length]; lia|].
  destruct (Ascii.eqb c lt_c); [discriminate|].
  destruct (Ascii.eqb c amp_c).
  { destruct (parse_ref r) as [[x r']|] eqn:E; [|discriminate].
    destruct (parse_attval f q r') as [[t' z']|] eqn:E2; [|discriminate].
    intros H; inversion H; subst. apply parse_ref_len in E. apply IH in E2. cbn [List.length]. lia. }
  destruct (Ascii.eqb c tab || Ascii.eqb c nl || Ascii.eqb c cr).
  { destruct (parse_attval f q r) as [[t' z']|] eqn:E2; [|discriminate].
    intros H; inversion H; subst. apply IH in E2. cbn [List.length]. lia. }
  destruct (32 <=? code c)%N; [|discriminate].
  destruct (parse_attval f q r) as [[t' z']|] eqn:E2; [|discriminate].
  intros H; inversion H; subst. apply IH in E2. cbn [List.length]. lia.
Qed.

Lemma parse_eq_quote_len s q r : parse_eq_quote s = Some (q, r) -> List.length r < List.length s.
Proof.
  unfold parse_eq_quote. destruct (skip_ws s) as [|e r1] eqn:E1; [discriminate|].
  destruct (Ascii.eqb e "="%char); [|discriminate].
  destruct (skip_ws r1) as [|q' r2] eqn:E2; [discriminate|].
  destruct (is_quote q'); [|discriminate]. intros H; inversion H; subst.
  apply skip_ws_cons_len in E1, E2. lia.
Qed.

Lemma parse_attrs_len f : forall s l z, parse_attrs f s = Some (l, z) -> List.length z <= List.length s.
Proof.
  induction f as [|f IH]; intros s l z; cbn [parse_attrs]; [discriminate|].
  pose proof (skip_ws_len s) as SK.
  destruct (skip_ws s) as [|c r] eqn:E; [discriminate|].
  destruct (Ascii.eqb c gt_c || Ascii.eqb c "/"%char); [intros H; inversion H; subst; auto|].
  destruct (starts_ws s); [|discriminate].
  destruct (parse_name (c :: r)) as [[n s2]|] eqn:E1; [|discriminate].
  destruct (parse_eq_quote s2) as [[q s3]|] eqn:E2; [|discriminate].
  destruct (parse_attval f q s3) as [[v s4]|] eqn:E3; [|discriminate].
  destruct (parse_attrs f s4) as [[rest s5]|] eqn:E4; [|discriminate].
  intros H; inversion H; subst.
  apply parse_name_len in E1. apply parse_eq_quote_len in E2. apply parse_attval_len in E3. apply IH in E4. lia.
Qed.

Lemma parse_elem_content_len f :
  (forall s e z, parse_elem f s = Some (e, z) -> List.length z < List.length s) /\
  (forall s l z, parse_content f s = Some (l, z) -> List.length z < List.length s).
Proof.
  induction f as [|f [IHe IHc]]; [split; intros; discriminate|]. split.
  - intros s e z. cbn [parse_elem].
    destruct (parse_name s) as [[name s1]|] eqn:E1; [|discriminate].
    destruct (parse_attrs f s1) as [[atts s2]|] eqn:E2; [|discriminate].
    destruct (negb (names_nodup atts)); [discriminate|].
    destruct s2 as [|c r]; [discriminate|].
    apply parse_name_len in E1. apply parse_attrs_len in E2. cbn [List.length] in E2.
    destruct (Ascii.eqb c gt_c).
    + destruct (parse_content f r) as [[kids r1]|] eqn:E3; [|discriminate].
      destruct (parse_name r1) as [[n2 r2]|] eqn:E4; [|discriminate].
      destruct (bytes_eqb name n2); [|discriminate].
      destruct (skip_ws r2) as [|g r3] eqn:E5; [discriminate|].
      destruct (Ascii.eqb g gt_c); [|discriminate]. intros H; inversion H; subst.
      apply IHc in E3. apply parse_name_len in E4. apply skip_ws_cons_len in E5. lia.
    + destruct r as [|g r3]; [discriminate|].
      destruct (Ascii.eqb g gt_c); [|discriminate]. intros H; inversion H; subst.
      cbn [List.length] in E2. lia.
  - intros s l z. cbn [parse_content].
    destruct (parse_text f s) as [[t s1]|] eqn:E1; [|discriminate].
    destruct s1 as [|c r]; [discriminate|]. destruct r as [|d r']; [discriminate|].
    apply parse_text_len in E1. cbn [List.length] in E1.
    destruct (Ascii.eqb d "/"%char); [intros H; inversion H; subst; lia|].
    destruct (parse_elem f (d :: r')) as [[e r2]|] eqn:E2; [|discriminate].
    destruct (parse_content f r2) as [[ks r3]|] eqn:E3; [|discriminate].
    intros H; inversion H; subst. apply IHe in E2. apply IHc in E3. cbn [List.length] in E2. lia.
Qed.

Lemma span_until_len q s : forall a z, span_until q s = Some (a, z) -> List.length z < List.length s.
Proof.
  induction s as [|c s IH]; intros a z; cbn [span_until]; [discriminate|].
  destruct (Ascii.eqb c q); [intros H; inversion H; subst; cbn [List.length]; lia|].
  destruct (span_until q s) as [[a' z']|] eqn:E; [|discriminate].
  intros H; inversion H; subst. specialize (IH _ _ eq_refl). cbn [List.length]. lia.
Qed.

(* fuel above the input length is irrelevant *)
Lemma parse_text_fuel : forall f f' s, List.length s < f -> List.length s < f' -> parse_text f s = parse_text f' s.
Proof.
  induction f as [|f IH]; intros f' s H1 H2; [lia|]. destruct f' as [|f']; [lia|].
  cbn [parse_text]. destruct s as [|c r]; auto. cbn [List.length] in *.
  destruct (Ascii.eqb c lt_c); auto. destruct (Ascii.eqb c amp_c).
  { destruct (parse_ref r) as [[x r']|] eqn:E; auto. apply parse_ref_len in E.
    rewrite (IH f' r') by lia. reflexivity. }
  destruct (cdata_end (c :: r)); auto. destruct (raw_ok c); auto.
  rewrite (IH f' r) by lia. reflexivity.
Qed.

Lemma parse_attval_fuel q : forall f f' s, List.length s < f -> List.length s < f' ->
  parse_attval f q s = parse_attval f' q s.
Proof.
  induction f as [|f IH]; intros f' s H1 H2; [lia|]. destruct f' as [|f']; [lia|].
  cbn [parse_attval]. destruct s as [|c r]; auto. cbn [List.length] in *.
  destruct (Ascii.eqb c q); auto. destruct (Ascii.eqb c lt_c); auto. destruct (Ascii.eqb c amp_c).
  { destruct (parse_ref r) as [[x r']|] eqn:E; auto. apply parse_ref_len in E.
    rewrite (IH f' r') by lia. reflexivity. }
  rewrite (IH f' r) by lia. reflexivity.
Qed.

Lemma parse_attrs_fuel : forall f f' s, List.length s < f -> List.length s < f' ->
  parse_attrs f s = parse_attrs f' s.
Proof.
  induction f as [|f IH]; intros f' s H1 H2; [lia|]. destruct f' as [|f']; [lia|].
  cbn [parse_attrs]. pose proof (skip_ws_len s) as SK.
  destruct (skip_ws s) as [|c r] eqn:E; auto.
  destruct (Ascii.eqb c gt_c || Ascii.eqb c "/"%char); auto.
  destruct (starts_ws s); auto.
  destruct (parse_name (c :: r)) as [[n s2]|] eqn:E1; auto.
  destruct (parse_eq_quote s2) as [[q s3]|] eqn:E2; auto.
  apply parse_name_len in E1. apply parse_eq_quote_len in E2.
  rewrite (parse_attval_fuel q f f' s3) by lia.
  destruct (parse_attval f' q s3) as [[v s4]|] eqn:E3; auto. apply parse_attval_len in E3.
  rewrite (IH f' s4) by lia. reflexivity.
Qed.

Lemma parse_elem_content_fuel : forall f,
  (forall f' s, List.length s < f -> List.length s < f' -> parse_elem f s = parse_elem f' s) /\
  (forall f' s, S (List.length s) < f -> S (List.length s) < f' -> parse_content f s = parse_content f' s).
Proof.
  induction f as [|f [IHe IHc]]; [split; intros; lia|]. split.
  - intros f' s H1 H2. destruct f' as [|f']; [lia|]. cbn [parse_elem].
    destruct (parse_name s) as [[name s1]|] eqn:E1; auto. apply parse_name_len in E1.
    rewrite (parse_attrs_fuel f f' s1) by lia.
    destruct (parse_attrs f' s1) as [[atts s2]|] eqn:E2; auto. apply parse_attrs_len in E2.
    destruct (negb (names_nodup atts)); auto. destruct s2 as [|c r]; auto. cbn [List.length] in E2.
    destruct (Ascii.eqb c gt_c); auto.
    rewrite (IHc f' r) by lia. reflexivity.
  - intros f' s H1 H2. destruct f' as [|f']; [lia|]. cbn [parse_content].
    rewrite (parse_text_fuel f f' s) by lia.
    destruct (parse_text f' s) as [[t s1]|] eqn:E1; auto. apply parse_text_len in E1.
    destruct s1 as [|c r]; auto. destruct r as [|d r']; auto. cbn [List.length] in E1.
    destruct (Ascii.eqb d "/"%char); auto.
    rewrite (IHe f' (d :: r')) by (cbn [List.length]; lia).
    destruct (parse_elem f' (d :: r')) as [[e r2]|] eqn:E2; auto.
    apply (proj1 (parse_elem_content_len f')) in E2. cbn [List.length] in E2.
    rewrite (IHc f' r2) by lia. reflexivity.
Qed.

Lemma parse_pseudos_len f : forall s l z, parse_pseudos f s = Some (l, z) -> List.length z < List.length s.
Proof.
  induction f as [|f IH]; intros s l z; cbn [parse_pseudos]; [discriminate|].
  pose proof (skip_ws_len s) as SK.
  destruct (strip_prefix (b "?>") (skip_ws s)) as [l0|] eqn:E.
  { intros H; inversion H; subst. splen E. lia. }
  destruct (starts_ws s); [|discriminate].
  destruct (parse_name (skip_ws s)) as [[n s2]|] eqn:E1; [|discriminate].
  destruct (parse_eq_quote s2) as [[q s3]|] eqn:E2; [|discriminate].
  destruct (span_until q s3) as [[v s4]|] eqn:E3; [|discriminate].
  destruct (parse_pseudos f s4) as [[rest s5]|] eqn:E4; [|discriminate].
  intros H; inversion H; subst.
  apply parse_name_len in E1. apply parse_eq_quote_len in E2. apply span_until_len in E3. apply IH in E4. lia.
Qed.

Lemma parse_pseudos_fuel : forall f f' s, List.length s < f -> List.length s < f' ->
  parse_pseudos f s = parse_pseudos f' s.
Proof.
  induction f as [|f IH]; intros f' s H1 H2; [lia|]. destruct f' as [|f']; [lia|].
  cbn [parse_pseudos]. pose proof (skip_ws_len s) as SK.
  destruct (strip_prefix (b "?>") (skip_ws s)); auto.
  destruct (starts_ws s); auto.
  destruct (parse_name (skip_ws s)) as [[n s2]|] eqn:E1; auto.
  destruct (parse_eq_quote s2) as [[q s3]|] eqn:E2; auto.
  destruct (span_until q s3) as [[v s4]|] eqn:E3; auto.
  apply parse_name_len in E1. apply parse_eq_quote_len in E2. apply span_until_len in E3.
  rewrite (IH f' s4) by lia. reflexivity.
Qed.

(* the lemma asked for: more fuel than the input length never changes the reader's answer *)
Theorem parse_doc_fuel : forall f s, List.length s < f -> parse_doc f s = parse_doc (S (List.length s)) s.
Proof.
  intros f s Hf. unfold parse_doc.
  destruct (strip_prefix (b "<?xml") s) as [l|] eqn:E.
  - splen E. rewrite (parse_pseudos_fuel f (S (List.length s)) l) by lia.
    destruct (parse_pseudos (S (List.length s)) l) as [[l0 r']|] eqn:E2; auto.
    destruct (decl_of l0); auto. apply parse_pseudos_len in E2.
    pose proof (skip_ws_len r') as SK. destruct (skip_ws r') as [|c r]; auto. cbn [List.length] in SK.
    destruct (Ascii.eqb c lt_c); auto.
    rewrite (proj1 (parse_elem_content_fuel f) (S (List.length s)) r) by lia. reflexivity.
  - pose proof (skip_ws_len s) as SK. destruct (skip_ws s) as [|c r]; auto. cbn [List.length] in SK.
    destruct (Ascii.eqb c lt_c); auto.
    rewrite (proj1 (parse_elem_content_fuel f) (S (List.length s)) r) by lia. reflexivity.
Qed.

Corollary xml_parse_fuel : forall s f, List.length (norm_eol s) < f ->
  xml_parse s = if no_nonchar (norm_eol s) then parse_doc f (norm_eol s) else None.
Proof. intros s f H. unfold xml_parse. rewrite (parse_doc_fuel f) by auto. reflexivity. Qed.

(* ================================================================== *)
(* Part F: get_xml_chars — whatever is written as character data or as *)
(* an attribute value consists of XML characters                       *)

Definition ev_chars_ok (e : xevent) : bool :=
  match e with
  | EChars s => xml_chars_ok s
  | EStart _ attrs _ => forallb (fun a => xml_chars_ok (snd a)) attrs
  | _ => true
  end.

Lemma attr_list_chars_ok afs : forall al,
  attr_list afs = XOk al -> forallb (fun a => xml_chars_ok (snd a)) al = true.
Proof.
  induction afs as [|[k v] afs IH]; intros al; cbn [attr_list].
  - intros H; inversion H; reflexivity.
  - destruct (is_empty v); [apply IH|].
    intros H. apply xbind_ok in H. destruct H as (s0 & _ & H).
    apply xbind_ok in H. destruct H as (s' & Hs & H). apply get_xml_chars_ok in Hs. destruct Hs as [-> Hs].
    apply xbind_ok in H. destruct H as (rest & Hr & H). inversion H; subst.
    cbn [forallb snd]. rewrite Hs, (IH _ Hr). reflexivity.
Qed.

Theorem write_node_chars_ok : forall v evs, write_node v = XOk evs -> forallb ev_chars_ok evs = true.
Proof.
  induction v using val_deep_ind. rename H into Hl, H0 into Ht.
  intros evs Hw. destruct v; try discriminate.
  - cbn [write_node] in Hw. apply xbind_ok in Hw. destruct Hw as (s' & Hs & Hw).
    apply get_xml_chars_ok in Hs. destruct Hs as [-> Hs]. inversion Hw; subst. cbn. rewrite Hs; reflexivity.
  - cbn [write_node] in Hw. unfold write_tuple in Hw.
    apply xbind_ok in Hw. destruct Hw as (st & Hscan & Hfin).
    destruct (scan_inv _ _ _ Hscan) as (_ & _ & (ol & In3 & In3') & _ & _).
    unfold finish in Hfin.
    destruct (s_name st) as [name|]; destruct (s_text st) as [t|]; try discriminate.
    + apply xbind_ok in Hfin. destruct Hfin as (al & Hal & Hfin).
      apply xbind_ok in Hfin. destruct Hfin as (kevs & Hk & Hfin). inversion Hfin; subst evs.
      cbn [forallb ev_chars_ok]. rewrite forallb_app. cbn [forallb ev_chars_ok]. rewrite andb_true_r.
      apply andb_true_iff; split.
      * destruct (s_attrs st); [eapply attr_list_chars_ok; eauto|inversion Hal; reflexivity].
      * rewrite In3' in Hk. destruct ol as [l|]; cbn in *; [|inversion Hk; reflexivity].
        destruct (field_last_nn_in _ _ _ In3) as [Hin _]. specialize (Ht _ eq_refl _ _ Hin).
        clear -Ht Hk. revert kevs Hk. induction Ht as [|c l Hc Hl IH]; intros kevs Hk; cbn in Hk.
        -- inversion Hk; reflexivity.
        -- apply xbind_ok in Hk. destruct Hk as (a & Ha & Hk). apply xbind_ok in Hk. destruct Hk as (r & Hr & Hk).
           inversion Hk; subst. rewrite forallb_app, (Hc _ Ha), (IH _ Hr). reflexivity.
    + apply xbind_ok in Hfin. destruct Hfin as (t' & Hc & Hfin).
      apply get_xml_chars_ok in Hc. destruct Hc as [-> Hc]. inversion Hfin; subst. cbn. rewrite Hc; reflexivity.
    + inversion Hfin; reflexivity.
Qed.

Corollary to_xml_chars_ok : forall d evs, to_xml d = Some evs -> forallb ev_chars_ok evs = true.
Proof.
  intros d evs. unfold to_xml. destruct (to_xml_r d) as [e|] eqn:E; [|discriminate]. intros H; inversion H; subst e.
  destruct d; try discriminate. cbn [to_xml_r] in E.
  apply xbind_ok in E. destruct E as (st & _ & E). destruct (d_root st); [|discriminate].
  apply xbind_ok in E. destruct E as (ver & _ & E). destruct (negb (root_is_element v)); [discriminate|].
  apply xbind_ok in E. destruct E as (nevs & Hn & E).
  inversion E; subst. cbn [forallb ev_chars_ok]. eapply write_node_chars_ok; eauto.
Qed.


(* ================================================================== *)
(* Part G: since 02a5024 an accepted document has one element as body, *)
(* so the round trip needs no hypothesis about the shape of the body   *)

Theorem to_xml_body_element : forall d t,
  to_xml d <> None -> tree_of_doc d = Some t ->
  exists name ns attrs kids, x_body t = [XElem name ns attrs kids].
Proof.
  intros d t Hne Ht. destruct (to_xml d) as [evs|] eqn:E; [|congruence].
  destruct (to_xml_events _ _ E) as (ver & enc & sa & body & _ & _ & Hb & Ht').
  rewrite Ht in Ht'. inversion Ht'; subst t. exact Hb.
Qed.

Lemma doc_tree_wf_xml_tree_wf t :
  (exists name ns attrs kids, x_body t = [XElem name ns attrs kids]) ->
  doc_tree_wf t = true -> xml_tree_wf t = true.
Proof.
  intros (name & ns & attrs & kids & Hb). unfold doc_tree_wf, xml_tree_wf. rewrite Hb.
  cbn [forallb]. rewrite andb_true_r. auto.
Qed.

Theorem doc_roundtrip_wf : forall d evs t,
  to_xml d = Some evs -> tree_of_doc d = Some t -> doc_tree_wf t = true ->
  xml_parse (xml_emit evs) = Some (as_written t).
Proof.
  intros d evs t He Ht Hwf. eapply doc_roundtrip; eauto.
  apply doc_tree_wf_xml_tree_wf; auto. eapply to_xml_body_element; eauto. congruence.
Qed.

(* tree_of_doc is defined exactly on the documents whose declaration part is acceptable and
   whose root is an element value *)
Theorem to_xml_tree_of_doc : forall d, to_xml d <> None -> tree_of_doc d <> None.
Proof.
  intros d H. destruct (to_xml d) as [evs|] eqn:E; [|congruence].
  destruct (to_xml_events _ _ E) as (ver & enc & sa & body & _ & _ & _ & ->). discriminate.
Qed.

Corollary xml_output_roundtrip_wf : forall d t,
  tree_of_doc d = Some t -> doc_tree_wf t = true -> to_xml d <> None ->
  exists out, xml_output d = Some out /\ xml_parse out = Some (as_written t).
Proof.
  intros d t Ht Hwf Hne. unfold xml_output. destruct (to_xml d) as [evs|] eqn:E; [|congruence].
  exists (xml_emit evs). split; [reflexivity|]. eapply doc_roundtrip_wf; eauto.
Qed.
