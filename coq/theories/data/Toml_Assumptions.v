(* Print Assumptions for every theorem of the TOML development: all must be
   "Closed under the global context". *)
From Ucg Require Import data.Toml data.Toml_Lemmas.

Print Assumptions Toml_Lemmas.toml_string_roundtrip.
Print Assumptions Toml_Lemmas.toml_key_roundtrip.
Print Assumptions Toml_Str.escape_key_inj.
Print Assumptions Toml_Lemmas.toml_int_roundtrip.
Print Assumptions Toml_Lemmas.toml_float_text.
Print Assumptions Toml_Lemmas.toml_float_value.
Print Assumptions Toml_Num.toml_float_nonfinite.
Print Assumptions Toml_Num.toml_bool_roundtrip.
Print Assumptions Toml_Lemmas.to_toml_error_iff.
Print Assumptions Toml_Err.to_toml_err_iff.
Print Assumptions Toml_Err.to_toml_err_kind.
Print Assumptions Toml_Err.ser_spec.
Print Assumptions Toml_Err.ser_root_error_iff.
Print Assumptions Toml_Err.toml_output_error_kind.
Print Assumptions Toml_Err.toml_output_no_panic.
Print Assumptions Toml_Val.parse_val_inline.
Print Assumptions Toml_Out.ser_inline.
Print Assumptions Toml_Sem.build_flat.
Print Assumptions Toml_Lex.lex_root.
Print Assumptions Toml_Doc.canon_node.
Print Assumptions Toml_Doc.conv_ok.
Print Assumptions Toml_Doc.map_first_spec.
Print Assumptions Toml_Doc.good_va.
Print Assumptions Toml_Doc.toml_tree_roundtrip.
Print Assumptions Toml_Lemmas.toml_doc_roundtrip.
Print Assumptions Toml_Doc.toml_good_total.
Print Assumptions Toml_Lemmas.toml_mixed_array_refuted.
Print Assumptions Toml_Lemmas.toml_nested_table_array_alters.
Print Assumptions Toml_Lemmas.toml_mixed_array_sometimes_error.
Print Assumptions Toml_Lemmas.ex_plain_text.
Print Assumptions Toml_Lemmas.ex_plain_reads_back.
Print Assumptions Toml_Lemmas.ex_strings.
Print Assumptions Toml_Lemmas.ex_reader.
Print Assumptions Toml_Lemmas.ex_errors.
