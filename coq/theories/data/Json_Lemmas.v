(* Proofs about the JSON text model: the parser inverts the printer. *)
From Ucg Require Import base.Bytes base.Bytes_Lemmas data.Json.

Local Open Scope list_scope.

(* ------------------------------------------------------------------ *)
(* Induction principle for the nested type                             *)

Section JsonInd.
  Variable P : json -> Prop.
  Hypothesis Hnull : P JNull.
  Hypothesis Hbool : forall v, P (JBool v).
  Hypothesis Hnum : forall lit, P (JNum lit).
  Hypothesis Hstr : forall s, P (JStr s).
  Hypothesis Harr : forall l, Forall P l -> P (JArr l).
  Hypothesis Hobj : forall kvs, Forall (fun kv => P (snd kv)) kvs -> P (JObj kvs).

  Fixpoint json_ind' (j : json) : P j :=
    match j with
    | JNull => Hnull
    | JBool v => Hbool v
    | JNum lit => Hnum lit
    | JStr s => Hstr s
    | JArr l =>
      Harr l ((fix go (l : list json) : Forall P l :=
                 match l with
                 | [] => Forall_nil _
                 | x :: xs => Forall_cons x (json_ind' x) (go xs)
                 end) l)
    | JObj kvs =>
      Hobj kvs ((fix go (l : list (bytes * json)) : Forall (fun kv => P (snd kv)) l :=
                   match l with
                   | [] => Forall_nil _
                   | (k, v) :: r => Forall_cons (k, v) (json_ind' v) (go r)
                   end) kvs)
    end.
End JsonInd.

(* ------------------------------------------------------------------ *)
(* Whitespace                                                          *)

Definition all_ws (w : bytes) : bool := forallb is_ws w.

Lemma skip_ws_app w s : all_ws w = true -> skip_ws (w ++ s) = skip_ws s.
Proof.
  induction w as [|c w IH]; cbn; auto.
  intros H. apply andb_true_iff in H as [Hc Hw]. rewrite Hc. auto.
Qed.

Lemma skip_ws_nonws c s : is_ws c = false -> skip_ws (c :: s) = c :: s.
Proof. intros H; cbn. rewrite H. reflexivity. Qed.

Lemma skip_ws_nl ind s : all_ws ind = true -> skip_ws (nl :: ind ++ s) = skip_ws s.
Proof. intros H. apply (skip_ws_app (nl :: ind)). exact H. Qed.

Lemma all_ws_indent ind : all_ws ind = true -> all_ws (sp :: sp :: ind) = true.
Proof. intros H; cbn. exact H. Qed.

Lemma all_ws_nl ind : all_ws ind = true -> all_ws (nl :: ind) = true.
Proof. intros H; cbn. exact H. Qed.

(* ------------------------------------------------------------------ *)
(* Strings                                                             *)

Lemma parse_str_step c tl acc :
  parse_str (escape_byte c ++ tl) acc = parse_str tl (c :: acc).
Proof.
  destruct c as [[] [] [] [] [] [] [] []]; reflexivity.
Qed.

Lemma parse_str_escape s : forall acc rest,
  parse_str (escape s ++ dq :: rest) acc = Some (rev acc ++ s, rest).
Proof.
  induction s as [|c s IH]; intros acc rest.
  - cbn. unfold rev'. rewrite <- rev_alt, app_nil_r. reflexivity.
  - cbn [escape]. rewrite <- app_assoc, parse_str_step, IH.
    cbn [rev]. rewrite <- app_assoc. reflexivity.
Qed.

Lemma parse_print_string s rest :
  parse_str (escape s ++ [dq] ++ rest) [] = Some (s, rest).
Proof. cbn [app]. rewrite parse_str_escape. reflexivity. Qed.

(* ------------------------------------------------------------------ *)
(* Numbers                                                             *)

(* what may follow a printed value: end of text or a non-number character *)
Definition term_ok (rest : bytes) : bool :=
  match rest with
  | [] => true
  | c :: _ => negb (num_char c)
  end.

Lemma span_num_app lit rest :
  forallb num_char lit = true -> term_ok rest = true ->
  span_num (lit ++ rest) = (lit, rest).
Proof.
  intros Hl Hr. induction lit as [|c lit IH]; cbn.
  - destruct rest as [|d rest]; cbn in *; auto.
    apply negb_true_iff in Hr. rewrite Hr. reflexivity.
  - cbn in Hl. apply andb_true_iff in Hl as [Hc Hl].
    rewrite Hc, (IH Hl). reflexivity.
Qed.

Lemma scan_number_ok lit rest :
  num_lit_ok lit = true -> term_ok rest = true ->
  scan_number (lit ++ rest) = Some (lit, rest).
Proof.
  intros Hl Hr. unfold scan_number.
  assert (Hc : forallb num_char lit = true).
  { unfold num_lit_ok in Hl. apply andb_true_iff in Hl as [H _]. exact H. }
  rewrite (span_num_app _ _ Hc Hr), Hl. reflexivity.
Qed.

(* first character of a number literal *)
Definition num_start (c : ascii) : bool := ceq c "-"%char || is_digit c.

Lemma num_lit_head lit :
  num_lit_ok lit = true -> exists c t, lit = c :: t /\ num_start c = true.
Proof.
  unfold num_lit_ok. intros H. apply andb_true_iff in H as [_ H].
  destruct lit as [|c t].
  - cbn in H. discriminate.
  - exists c, t. split; [reflexivity|].
    unfold num_split, scan_sign, num_start in *.
    destruct (ceq c "-"%char) eqn:E; [reflexivity|]. cbn [orb].
    unfold scan_int in H.
    destruct (ceq c "0"%char) eqn:E0.
    + apply Ascii.eqb_eq in E0. subst c. reflexivity.
    + destruct (is_digit c); [reflexivity|discriminate].
Qed.

(* dispatch facts for a character that starts a number *)
Lemma num_start_dispatch c :
  num_start c = true ->
  is_ws c = false /\ ceq c "n"%char = false /\ ceq c "t"%char = false /\
  ceq c "f"%char = false /\ ceq c dq = false /\ ceq c "["%char = false /\
  ceq c "{"%char = false /\ ceq c "]"%char = false /\ ceq c "}"%char = false.
Proof.
  destruct c as [[] [] [] [] [] [] [] []]; vm_compute; intros H;
    try discriminate H; repeat split.
Qed.

(* ------------------------------------------------------------------ *)
(* Shape of printed arrays / objects                                   *)

Definition arr_tail (ind : bytes) : list json -> bytes :=
  fix tail (l : list json) : bytes :=
    match l with
    | [] => nl :: ind ++ ["]"%char]
    | y :: ys =>
      ","%char :: nl :: (sp :: sp :: ind) ++ print_value (sp :: sp :: ind) y ++ tail ys
    end.

Definition obj_tail (ind : bytes) : list (bytes * json) -> bytes :=
  fix tail (l : list (bytes * json)) : bytes :=
    match l with
    | [] => nl :: ind ++ ["}"%char]
    | (k', v') :: r =>
      ","%char :: nl :: (sp :: sp :: ind) ++ print_string k' ++
      ":"%char :: sp :: print_value (sp :: sp :: ind) v' ++ tail r
    end.

Lemma print_value_arr ind x xs :
  print_value ind (JArr (x :: xs))
  = "["%char :: nl :: (sp :: sp :: ind) ++ print_value (sp :: sp :: ind) x ++ arr_tail ind xs.
Proof. reflexivity. Qed.

Lemma print_value_obj ind k v kvs :
  print_value ind (JObj ((k, v) :: kvs))
  = "{"%char :: nl :: (sp :: sp :: ind) ++ print_string k ++
    ":"%char :: sp :: print_value (sp :: sp :: ind) v ++ obj_tail ind kvs.
Proof. reflexivity. Qed.

Lemma arr_tail_nil ind : arr_tail ind [] = nl :: ind ++ ["]"%char].
Proof. reflexivity. Qed.
Lemma arr_tail_cons ind y ys :
  arr_tail ind (y :: ys)
  = ","%char :: nl :: (sp :: sp :: ind) ++ print_value (sp :: sp :: ind) y ++ arr_tail ind ys.
Proof. reflexivity. Qed.
Lemma obj_tail_nil ind : obj_tail ind [] = nl :: ind ++ ["}"%char].
Proof. reflexivity. Qed.
Lemma obj_tail_cons ind k v r :
  obj_tail ind ((k, v) :: r)
  = ","%char :: nl :: (sp :: sp :: ind) ++ print_string k ++
    ":"%char :: sp :: print_value (sp :: sp :: ind) v ++ obj_tail ind r.
Proof. reflexivity. Qed.

Lemma term_ok_arr_tail ind xs rest : term_ok (arr_tail ind xs ++ rest) = true.
Proof. destruct xs; reflexivity. Qed.

Lemma term_ok_obj_tail ind kvs rest : term_ok (obj_tail ind kvs ++ rest) = true.
Proof. destruct kvs as [|[k v] r]; reflexivity. Qed.

(* a printed value starts with a character that is neither whitespace nor a
   closing bracket *)
Lemma print_value_head ind j :
  json_wf j = true ->
  exists c t, print_value ind j = c :: t /\ is_ws c = false /\
              ceq c "]"%char = false /\ ceq c "}"%char = false.
Proof.
  intros Hwf. destruct j as [|[]|lit|s|[|x xs]|[|[k v] kvs]];
    try (eexists; eexists; split; [reflexivity|repeat split]; fail).
  cbn in Hwf. destruct (num_lit_head _ Hwf) as (c & t & -> & Hc).
  exists c, t. split; [reflexivity|].
  destruct (num_start_dispatch _ Hc) as (? & ? & ? & ? & ? & ? & ? & ? & ?). auto.
Qed.

(* ------------------------------------------------------------------ *)
(* Loops                                                               *)

(* [pv] inverts the printer on [j] printed at indentation [ind] *)
Definition PV (pv : bytes -> option (json * bytes)) (ind : bytes) (j : json) : Prop :=
  forall w rest, all_ws w = true -> term_ok rest = true ->
                 pv (w ++ print_value ind j ++ rest) = Some (j, rest).

Lemma items_loop_ok pv ind :
  all_ws ind = true ->
  forall xs x acc n w rest,
    (forall y, In y (x :: xs) -> PV pv (sp :: sp :: ind) y) ->
    List.length xs < n -> all_ws w = true ->
    items_loop pv n (w ++ print_value (sp :: sp :: ind) x ++ arr_tail ind xs ++ rest) acc
    = Some (rev acc ++ x :: xs, rest).
Proof.
  intros Hind. induction xs as [|y ys IH]; intros x acc n w rest Hpv Hn Hw.
  - destruct n as [|n]; [inversion Hn|]. cbn [items_loop].
    rewrite (Hpv x (or_introl eq_refl) w _ Hw (term_ok_arr_tail _ _ _)).
    rewrite arr_tail_nil. cbn [app].
    rewrite <- app_assoc. cbn [app]. rewrite skip_ws_nl by exact Hind.
    cbn. rewrite rev_append_rev. reflexivity.
  - destruct n as [|n]; [inversion Hn|]. cbn [items_loop].
    rewrite (Hpv x (or_introl eq_refl) w _ Hw (term_ok_arr_tail _ _ _)).
    rewrite arr_tail_cons. cbn [app]. rewrite skip_ws_nonws by reflexivity.
    replace (ceq ","%char ","%char) with true by reflexivity.
    rewrite <- !app_assoc.
    pose proof (IH y (x :: acc) n (nl :: sp :: sp :: ind) rest) as IH'.
    cbn [app] in IH'. rewrite IH'.
    + cbn [rev]. rewrite <- app_assoc. reflexivity.
    + intros z Hz. apply Hpv. right. exact Hz.
    + cbn in Hn. apply Nat.succ_lt_mono. exact Hn.
    + apply all_ws_nl, all_ws_indent, Hind.
Qed.

Lemma members_loop_ok pv ind :
  all_ws ind = true ->
  forall kvs k v acc n w rest,
    (forall kv, In kv ((k, v) :: kvs) -> PV pv (sp :: sp :: ind) (snd kv)) ->
    List.length kvs < n -> all_ws w = true ->
    members_loop pv n
      (w ++ print_string k ++ ":"%char :: sp :: print_value (sp :: sp :: ind) v
         ++ obj_tail ind kvs ++ rest) acc
    = Some (rev acc ++ (k, v) :: kvs, rest).
Proof.
  intros Hind. induction kvs as [|[k' v'] r IH]; intros k v acc n w rest Hpv Hn Hw.
  - destruct n as [|n]; [inversion Hn|]. cbn [members_loop].
    rewrite (skip_ws_app w) by exact Hw.
    unfold print_string at 1. cbn [app]. rewrite skip_ws_nonws by reflexivity.
    replace (ceq dq dq) with true by reflexivity.
    rewrite <- app_assoc. cbn [app]. rewrite parse_str_escape. cbn [rev app].
    rewrite skip_ws_nonws by reflexivity.
    replace (ceq ":"%char ":"%char) with true by reflexivity.
    assert (Hv : forall rest', term_ok rest' = true ->
              pv (sp :: print_value (sp :: sp :: ind) v ++ rest') = Some (v, rest')).
    { intros rest' Hr. exact (Hpv (k, v) (or_introl eq_refl) [sp] rest' eq_refl Hr). }
    rewrite Hv by apply term_ok_obj_tail.
    rewrite obj_tail_nil. cbn [app].
    rewrite <- app_assoc. cbn [app]. rewrite skip_ws_nl by exact Hind.
    cbn. rewrite rev_append_rev. reflexivity.
  - destruct n as [|n]; [inversion Hn|]. cbn [members_loop].
    rewrite (skip_ws_app w) by exact Hw.
    unfold print_string at 1. cbn [app]. rewrite skip_ws_nonws by reflexivity.
    replace (ceq dq dq) with true by reflexivity.
    rewrite <- app_assoc. cbn [app]. rewrite parse_str_escape. cbn [rev app].
    rewrite skip_ws_nonws by reflexivity.
    replace (ceq ":"%char ":"%char) with true by reflexivity.
    assert (Hv : forall rest', term_ok rest' = true ->
              pv (sp :: print_value (sp :: sp :: ind) v ++ rest') = Some (v, rest')).
    { intros rest' Hr. exact (Hpv (k, v) (or_introl eq_refl) [sp] rest' eq_refl Hr). }
    rewrite Hv by apply term_ok_obj_tail.
    rewrite obj_tail_cons. cbn [app]. rewrite skip_ws_nonws by reflexivity.
    replace (ceq ","%char ","%char) with true by reflexivity.
    rewrite <- !app_assoc. cbn [app]. rewrite <- !app_assoc. cbn [app].
    pose proof (IH k' v' ((k, v) :: acc) n (nl :: sp :: sp :: ind) rest) as IH'.
    cbn [app] in IH'. rewrite IH'.
    + cbn [rev]. rewrite <- app_assoc. reflexivity.
    + intros z Hz. apply Hpv. right. exact Hz.
    + cbn in Hn. apply Nat.succ_lt_mono. exact Hn.
    + apply all_ws_nl, all_ws_indent, Hind.
Qed.

(* ------------------------------------------------------------------ *)
(* Fuel measure                                                        *)

Fixpoint json_size (j : json) : nat :=
  match j with
  | JArr l => S (list_sum (map json_size l) + List.length l)
  | JObj kvs => S (list_sum (map (fun kv => json_size (snd kv)) kvs) + List.length kvs)
  | _ => 0
  end.

Lemma size_in_arr y l :
  In y l -> json_size y < list_sum (map json_size l) + List.length l.
Proof.
  induction l as [|x xs IH]; cbn; [tauto|].
  intros [->|H]; [lia|]. specialize (IH H). unfold list_sum in *. cbn in *. lia.
Qed.

Lemma size_in_obj (kv : bytes * json) kvs :
  In kv kvs ->
  json_size (snd kv) < list_sum (map (fun kv => json_size (snd kv)) kvs) + List.length kvs.
Proof.
  induction kvs as [|x xs IH]; cbn; [tauto|].
  intros [->|H]; [lia|]. specialize (IH H). unfold list_sum in *. cbn in *. lia.
Qed.

(* ------------------------------------------------------------------ *)
(* Dispatch of parse_value on the first significant character          *)

Lemma pv_dq f w s1 : all_ws w = true ->
  parse_value (S f) (w ++ dq :: s1)
  = match parse_str s1 [] with Some (str, r) => Some (JStr str, r) | None => None end.
Proof. intros Hw. cbn [parse_value]. rewrite (skip_ws_app w) by exact Hw. reflexivity. Qed.

Lemma pv_lbracket f w s1 : all_ws w = true ->
  parse_value (S f) (w ++ "["%char :: s1)
  = match skip_ws s1 with
    | [] => None
    | c2 :: r2 =>
      if ceq c2 "]"%char then Some (JArr [], r2)
      else match items_loop (parse_value f) f (c2 :: r2) [] with
           | Some (l, r) => Some (JArr l, r)
           | None => None
           end
    end.
Proof. intros Hw. cbn [parse_value]. rewrite (skip_ws_app w) by exact Hw. reflexivity. Qed.

Lemma pv_lbrace f w s1 : all_ws w = true ->
  parse_value (S f) (w ++ "{"%char :: s1)
  = match skip_ws s1 with
    | [] => None
    | c2 :: r2 =>
      if ceq c2 "}"%char then Some (JObj [], r2)
      else match members_loop (parse_value f) f (c2 :: r2) [] with
           | Some (l, r) => Some (JObj l, r)
           | None => None
           end
    end.
Proof. intros Hw. cbn [parse_value]. rewrite (skip_ws_app w) by exact Hw. reflexivity. Qed.

Lemma pv_num f w c s1 : all_ws w = true -> num_start c = true ->
  parse_value (S f) (w ++ c :: s1)
  = match scan_number (c :: s1) with
    | Some (lit, r) => Some (JNum lit, r)
    | None => None
    end.
Proof.
  intros Hw Hc. cbn [parse_value]. rewrite (skip_ws_app w) by exact Hw.
  destruct (num_start_dispatch _ Hc) as (H0 & H1 & H2 & H3 & H4 & H5 & H6 & _).
  rewrite skip_ws_nonws by exact H0.
  rewrite H1, H2, H3, H4, H5, H6. unfold num_start in Hc. rewrite Hc. reflexivity.
Qed.

(* ------------------------------------------------------------------ *)
(* Main lemma                                                          *)

Lemma parse_print_value : forall j,
  json_wf j = true ->
  forall fuel ind w rest,
    json_size j < fuel -> all_ws ind = true -> all_ws w = true -> term_ok rest = true ->
    parse_value fuel (w ++ print_value ind j ++ rest) = Some (j, rest).
Proof.
  induction j as [|v|lit|s|l IH|kvs IH] using json_ind';
    intros Hwf fuel ind w rest Hf Hind Hw Hr;
    (destruct fuel as [|f]; [inversion Hf|]).
  - (* null *)
    cbn [parse_value]. rewrite (skip_ws_app w) by exact Hw. reflexivity.
  - (* bool *)
    cbn [parse_value]. rewrite (skip_ws_app w) by exact Hw. destruct v; reflexivity.
  - (* number *)
    cbn in Hwf. destruct (num_lit_head _ Hwf) as (c & t & E & Hc).
    cbn [print_value]. rewrite E at 1. cbn [app].
    rewrite (pv_num f w c _ Hw Hc).
    change (c :: t ++ rest) with ((c :: t) ++ rest). rewrite <- E.
    rewrite (scan_number_ok _ _ Hwf Hr). reflexivity.
  - (* string *)
    cbn [print_value]. unfold print_string. cbn [app].
    rewrite <- ?app_assoc. cbn [app].
    rewrite (pv_dq f w _ Hw). rewrite parse_str_escape. reflexivity.
  - (* array *)
    destruct l as [|x xs].
    + cbn [parse_value]. rewrite (skip_ws_app w) by exact Hw. reflexivity.
    + rewrite print_value_arr. cbn [app]. rewrite (pv_lbracket f w _ Hw).
      rewrite <- ?app_assoc. cbn [app]. rewrite <- ?app_assoc.
      pose proof (all_ws_indent _ Hind) as Hind'.
      assert (Hwfx : forall y, In y (x :: xs) -> json_wf y = true).
      { cbn [json_wf] in Hwf. intros y Hy. eapply forallb_forall in Hwf; eauto. }
      change (nl :: sp :: sp :: ind ++ ?X) with (nl :: (sp :: sp :: ind) ++ X).
      rewrite skip_ws_nl by exact Hind'.
      destruct (print_value_head (sp :: sp :: ind) x (Hwfx x (or_introl eq_refl)))
        as (c & t & E & Hc1 & Hc2 & _).
      rewrite E. cbn [app]. rewrite skip_ws_nonws by exact Hc1. rewrite Hc2.
      change (c :: t ++ ?X) with ((c :: t) ++ X). rewrite <- E.
      pose proof (items_loop_ok (parse_value f) ind Hind xs x [] f [] rest) as HL.
      cbn [app rev] in HL. rewrite HL; [reflexivity| | |reflexivity].
      * intros y Hy w' rest' Hw' Hr'.
        rewrite Forall_forall in IH. apply IH; auto.
        cbn [json_size] in Hf. pose proof (size_in_arr y (x :: xs) Hy). lia.
      * cbn [json_size] in Hf. cbn [List.length] in Hf. lia.
  - (* object *)
    destruct kvs as [|[k v] kvs].
    + cbn [parse_value]. rewrite (skip_ws_app w) by exact Hw. reflexivity.
    + rewrite print_value_obj. cbn [app]. rewrite (pv_lbrace f w _ Hw).
      rewrite <- ?app_assoc. cbn [app]. rewrite <- ?app_assoc. cbn [app].
      pose proof (all_ws_indent _ Hind) as Hind'.
      assert (Hwfx : forall kv, In kv ((k, v) :: kvs) -> json_wf (snd kv) = true).
      { cbn [json_wf] in Hwf. intros y Hy.
        eapply forallb_forall in Hwf; eauto. }
      change (nl :: sp :: sp :: ind ++ ?X) with (nl :: (sp :: sp :: ind) ++ X).
      rewrite skip_ws_nl by exact Hind'.
      unfold print_string at 1. cbn [app]. rewrite skip_ws_nonws by reflexivity.
      replace (ceq dq "}"%char) with false by reflexivity.
      pose proof (members_loop_ok (parse_value f) ind Hind kvs k v [] f [] rest) as HL.
      unfold print_string at 1 in HL. cbn [app rev] in HL.
      rewrite <- ?app_assoc in HL. cbn [app] in HL.
      rewrite <- ?app_assoc. cbn [app].
      rewrite HL; [reflexivity| | |reflexivity].
      * intros kv Hkv w' rest' Hw' Hr'.
        rewrite Forall_forall in IH. apply IH; auto.
        cbn [json_size] in Hf. pose proof (size_in_obj kv ((k, v) :: kvs) Hkv). lia.
      * cbn [json_size] in Hf. cbn [List.length] in Hf. lia.
Qed.

(* ------------------------------------------------------------------ *)
(* The fuel [S (length text)] is enough                                *)

Lemma arr_tail_len ind xs :
  (forall y, In y xs -> forall ind', json_size y <= List.length (print_value ind' y)) ->
  list_sum (map json_size xs) + List.length xs < List.length (arr_tail ind xs).
Proof.
  induction xs as [|y ys IH]; intros H.
  - rewrite arr_tail_nil. cbn. lia.
  - rewrite arr_tail_cons. cbn [List.length map list_sum fold_right].
    rewrite !app_length.
    pose proof (H y (or_introl eq_refl) (sp :: sp :: ind)).
    assert (IH' := IH (fun z Hz => H z (or_intror Hz))).
    unfold list_sum in *. cbn [List.length] in *. lia.
Qed.

Lemma obj_tail_len ind kvs :
  (forall kv, In kv kvs -> forall ind', json_size (snd kv) <= List.length (print_value ind' (snd kv))) ->
  list_sum (map (fun kv => json_size (snd kv)) kvs) + List.length kvs
  < List.length (obj_tail ind kvs).
Proof.
  induction kvs as [|[k v] r IH]; intros H.
  - rewrite obj_tail_nil. cbn. lia.
  - rewrite obj_tail_cons. cbn [List.length map list_sum fold_right snd].
    rewrite !app_length. cbn [List.length]. rewrite !app_length.
    pose proof (H (k, v) (or_introl eq_refl) (sp :: sp :: ind)) as Hv. cbn [snd] in Hv.
    assert (IH' := IH (fun z Hz => H z (or_intror Hz))).
    unfold list_sum in *. cbn [List.length] in *. lia.
Qed.

Lemma json_size_le : forall j ind, json_size j <= List.length (print_value ind j).
Proof.
  induction j as [|v|lit|s|l IH|kvs IH] using json_ind'; intros ind;
    try (cbn [json_size]; lia).
  - destruct l as [|x xs]; [cbn; lia|].
    rewrite print_value_arr. cbn [json_size map list_sum fold_right List.length].
    rewrite !app_length.
    rewrite Forall_forall in IH.
    pose proof (IH x (or_introl eq_refl) (sp :: sp :: ind)).
    pose proof (arr_tail_len ind xs (fun y Hy => IH y (or_intror Hy))).
    unfold list_sum in *. cbn [List.length] in *. lia.
  - destruct kvs as [|[k v] kvs]; [cbn; lia|].
    rewrite print_value_obj. cbn [json_size map list_sum fold_right List.length snd].
    rewrite !app_length. cbn [List.length]. rewrite !app_length.
    rewrite Forall_forall in IH.
    pose proof (IH (k, v) (or_introl eq_refl) (sp :: sp :: ind)) as Hv. cbn [snd] in Hv.
    pose proof (obj_tail_len ind kvs (fun y Hy => IH y (or_intror Hy))).
    unfold list_sum in *. cbn [List.length] in *. lia.
Qed.

(* ------------------------------------------------------------------ *)
(* Headline theorem                                                    *)

Theorem json_text_roundtrip : forall j,
  json_wf j = true -> json_parse (json_print j) = Some j.
Proof.
  intros j Hwf. unfold json_parse, json_print.
  pose proof (parse_print_value j Hwf (S (List.length (print_value [] j))) [] [] []) as H.
  cbn [app] in H. rewrite app_nil_r in H. rewrite H; auto.
  pose proof (json_size_le j []). lia.
Qed.

(* More generally: any surrounding whitespace and any indentation level. *)
Theorem json_text_roundtrip_ws : forall j ind w1 w2,
  json_wf j = true -> all_ws ind = true -> all_ws w1 = true -> all_ws w2 = true ->
  json_parse (w1 ++ print_value ind j ++ w2) = Some j.
Proof.
  intros j ind w1 w2 Hwf Hind H1 H2. unfold json_parse.
  assert (Ht : term_ok w2 = true).
  { destruct w2 as [|c w2]; [reflexivity|]. cbn in *.
    apply andb_true_iff in H2 as [Hc _]. clear - Hc.
    destruct c as [[] [] [] [] [] [] [] []]; try discriminate Hc; reflexivity. }
  rewrite (parse_print_value j Hwf _ ind w1 w2); auto.
  - rewrite <- (app_nil_r w2), skip_ws_app by exact H2. reflexivity.
  - pose proof (json_size_le j ind). rewrite !app_length. lia.
Qed.

(* The parser only produces well-formed trees. *)
Lemma scan_number_wf s lit r : scan_number s = Some (lit, r) -> num_lit_ok lit = true.
Proof.
  unfold scan_number. destruct (span_num s) as [tok r'].
  destruct (num_lit_ok tok) eqn:E; [|discriminate].
  intros H; inversion H; subst; exact E.
Qed.

Lemma items_loop_wf pv :
  (forall s j r, pv s = Some (j, r) -> json_wf j = true) ->
  forall n s acc l r, forallb json_wf acc = true ->
    items_loop pv n s acc = Some (l, r) -> forallb json_wf l = true.
Proof.
  intros Hpv. induction n as [|n IH]; intros s acc l r Hacc; cbn [items_loop]; [discriminate|].
  destruct (pv s) as [[v r1]|] eqn:E; [|discriminate].
  apply Hpv in E.
  destruct (skip_ws r1) as [|c r']; [discriminate|].
  destruct (ceq c ","%char).
  - apply IH. cbn. rewrite E, Hacc. reflexivity.
  - destruct (ceq c "]"%char); [|discriminate].
    intros H; inversion H; subst. unfold rev'. rewrite <- rev_alt.
    apply forallb_forall. intros y Hy. apply in_rev in Hy.
    destruct Hy as [<-|Hy]; [exact E|].
    eapply forallb_forall in Hacc; eauto.
Qed.

Lemma members_loop_wf pv :
  (forall s j r, pv s = Some (j, r) -> json_wf j = true) ->
  forall n s acc l r, forallb (fun kv => json_wf (snd kv)) acc = true ->
    members_loop pv n s acc = Some (l, r) -> forallb (fun kv => json_wf (snd kv)) l = true.
Proof.
  intros Hpv. induction n as [|n IH]; intros s acc l r Hacc; cbn [members_loop]; [discriminate|].
  destruct (skip_ws s) as [|q s1]; [discriminate|].
  destruct (ceq q dq); [|discriminate].
  destruct (parse_str s1 []) as [[k r1]|]; [|discriminate].
  destruct (skip_ws r1) as [|c r2]; [discriminate|].
  destruct (ceq c ":"%char); [|discriminate].
  destruct (pv r2) as [[v r3]|] eqn:E; [|discriminate].
  apply Hpv in E.
  destruct (skip_ws r3) as [|d r4]; [discriminate|].
  destruct (ceq d ","%char).
  - apply IH. cbn. rewrite E, Hacc. reflexivity.
  - destruct (ceq d "}"%char); [|discriminate].
    intros H; inversion H; subst. unfold rev'. rewrite <- rev_alt.
    apply forallb_forall. intros y Hy. apply in_rev in Hy.
    destruct Hy as [<-|Hy]; [exact E|].
    eapply forallb_forall in Hacc; eauto.
Qed.

Lemma parse_value_wf : forall fuel s j r,
  parse_value fuel s = Some (j, r) -> json_wf j = true.
Proof.
  induction fuel as [|f IH]; intros s j r; cbn [parse_value]; [discriminate|].
  destruct (skip_ws s) as [|c s1]; [discriminate|].
  destruct (ceq c "n"%char).
  { destruct (strip_prefix _ s1); [|discriminate]. intros H; inversion H; reflexivity. }
  destruct (ceq c "t"%char).
  { destruct (strip_prefix _ s1); [|discriminate]. intros H; inversion H; reflexivity. }
  destruct (ceq c "f"%char).
  { destruct (strip_prefix _ s1); [|discriminate]. intros H; inversion H; reflexivity. }
  destruct (ceq c dq).
  { destruct (parse_str s1 []) as [[str r']|]; [|discriminate].
    intros H; inversion H; reflexivity. }
  destruct (ceq c "["%char).
  { destruct (skip_ws s1) as [|c2 r2]; [discriminate|].
    destruct (ceq c2 "]"%char); [intros H; inversion H; reflexivity|].
    destruct (items_loop _ f (c2 :: r2) []) as [[l r']|] eqn:E; [|discriminate].
    intros H; inversion H; subst. cbn [json_wf].
    exact (items_loop_wf _ IH _ _ [] _ _ eq_refl E). }
  destruct (ceq c "{"%char).
  { destruct (skip_ws s1) as [|c2 r2]; [discriminate|].
    destruct (ceq c2 "}"%char); [intros H; inversion H; reflexivity|].
    destruct (members_loop _ f (c2 :: r2) []) as [[l r']|] eqn:E; [|discriminate].
    intros H; inversion H; subst. cbn [json_wf].
    exact (members_loop_wf _ IH _ _ [] _ _ eq_refl E). }
  destruct (ceq c "-"%char || is_digit c); [|discriminate].
  destruct (scan_number (c :: s1)) as [[lit r']|] eqn:E; [|discriminate].
  intros H; inversion H; subst. cbn [json_wf]. eapply scan_number_wf; eauto.
Qed.

Theorem json_parse_wf : forall s j, json_parse s = Some j -> json_wf j = true.
Proof.
  intros s j. unfold json_parse.
  destruct (parse_value _ s) as [[j' r]|] eqn:E; [|discriminate].
  destruct (skip_ws r); [|discriminate].
  intros H; inversion H; subst. eapply parse_value_wf; eauto.
Qed.
