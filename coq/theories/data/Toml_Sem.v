(* Proofs about the TOML model: the table structure defined by the lines of a document.
   [flat] lists, for a well-formed value, the lines (items) the writer produces;
   [build_flat]: the reader's table builder, run on these items, constructs exactly the
   value's tree ([node_of]), entries in the order in which they were written. *)
From Ucg Require Import base.Bytes base.Bytes_Lemmas data.Val data.Json data.MapJson data.MapJson_Lemmas data.Toml data.Toml_Err.
Local Open Scope list_scope.

(* ------------------------------------------------------------------ *)
(* Option plumbing                                                     *)

Definition obind {A B} (x : option A) (f : A -> option B) : option B :=
  match x with Some a => f a | None => None end.

Definition efun := entries -> option entries.

Definition kcomp (f g : efun) : efun := fun e => obind (f e) g.

(* F refines G: wherever F succeeds, G succeeds with the same result *)
Definition refines (F G : efun) : Prop := forall E E', F E = Some E' -> G E = Some E'.

Lemma refines_refl F : refines F F.
Proof. intros E E' H; exact H. Qed.

Lemma refines_trans F G H : refines F G -> refines G H -> refines F H.
Proof. intros A B E E' X. apply B, A, X. Qed.

Lemma kcomp_mono f f' g g' : refines f f' -> refines g g' -> refines (kcomp f g) (kcomp f' g').
Proof.
  intros Hf Hg E E'. unfold kcomp, obind. destruct (f E) as [e1|] eqn:E1; [|discriminate].
  rewrite (Hf _ _ E1). apply Hg.
Qed.

(* ------------------------------------------------------------------ *)
(* Association lists of nodes                                          *)

Lemma lookup_app_none {V} k (l1 l2 : list (bytes * V)) :
  lookup k l1 = None -> lookup k (l1 ++ l2) = lookup k l2.
Proof.
  induction l1 as [|[k1 v1] l1 IH]; cbn [app lookup]; [reflexivity|].
  destruct (bytes_eqb k k1); [discriminate|exact IH].
Qed.

Lemma lookup_app_some {V} k (l1 l2 : list (bytes * V)) v :
  lookup k l1 = Some v -> lookup k (l1 ++ l2) = Some v.
Proof.
  induction l1 as [|[k1 v1] l1 IH]; cbn [app lookup]; [discriminate|].
  destruct (bytes_eqb k k1); [auto|exact IH].
Qed.

Lemma lookup_single {V} k (v : V) : lookup k [(k, v)] = Some v.
Proof. cbn. rewrite bytes_eqb_refl. reflexivity. Qed.

Lemma set_key_app_absent k n n0 (es : entries) :
  lookup k es = None -> set_key k n (es ++ [(k, n0)]) = es ++ [(k, n)].
Proof.
  induction es as [|[k1 v1] es IH]; cbn [app set_key lookup].
  - rewrite bytes_eqb_refl. reflexivity.
  - destruct (bytes_eqb k k1); [discriminate|]. intros H. rewrite (IH H). reflexivity.
Qed.

Lemma lookup_set_key k n (es : entries) n0 :
  lookup k es = Some n0 -> lookup k (set_key k n es) = Some n.
Proof.
  induction es as [|[k1 v1] es IH]; cbn [set_key lookup]; [discriminate|].
  destruct (bytes_eqb k k1) eqn:E.
  - intros _. cbn [lookup]. rewrite bytes_eqb_refl. reflexivity.
  - intros H. cbn [lookup]. rewrite E. exact (IH H).
Qed.

Lemma set_key_twice k n1 n2 (es : entries) :
  set_key k n2 (set_key k n1 es) = set_key k n2 es.
Proof.
  induction es as [|[k1 v1] es IH]; cbn [set_key]; [reflexivity|].
  destruct (bytes_eqb k k1) eqn:E.
  - cbn [set_key]. rewrite bytes_eqb_refl. reflexivity.
  - cbn [set_key]. rewrite E, IH. reflexivity.
Qed.

(* ------------------------------------------------------------------ *)
(* descend / at_path: sequencing, monotonicity                         *)

Lemma descend_seq k f g es :
  descend k (kcomp f g) es = obind (descend k f es) (descend k g).
Proof.
  unfold descend at 1 2. destruct (lookup k es) as [[d|ex c|dn cur]|] eqn:El; cbn [obind].
  - reflexivity.
  - unfold kcomp, obind. destruct (f c) as [r|]; [|reflexivity].
    unfold descend. rewrite (lookup_set_key k _ es _ El).
    destruct (g r) as [r2|]; [|reflexivity]. rewrite set_key_twice. reflexivity.
  - unfold kcomp, obind. destruct (f cur) as [r|]; [|reflexivity].
    unfold descend. rewrite (lookup_set_key k _ es _ El).
    destruct (g r) as [r2|]; [|reflexivity]. rewrite set_key_twice. reflexivity.
  - unfold kcomp, obind. destruct (f []) as [r|]; [|reflexivity].
    unfold descend. rewrite (lookup_app_none k es _ El), lookup_single.
    destruct (g r) as [r2|]; [|reflexivity]. rewrite (set_key_app_absent k _ _ es El). reflexivity.
Qed.

Lemma descend_ext k f g es : (forall e, f e = g e) -> descend k f es = descend k g es.
Proof.
  intros H. unfold descend. destruct (lookup k es) as [[d|ex c|dn cur]|]; rewrite ?H; reflexivity.
Qed.

Lemma at_path_ext p : forall f g es, (forall e, f e = g e) -> at_path p f es = at_path p g es.
Proof.
  induction p as [|k p IH]; intros f g es H; cbn [at_path]; [apply H|].
  apply descend_ext. intros e. apply IH, H.
Qed.

Lemma at_path_seq p : forall f g es,
  at_path p (kcomp f g) es = obind (at_path p f es) (at_path p g).
Proof.
  induction p as [|k p IH]; intros f g es; cbn [at_path]; [reflexivity|].
  rewrite <- descend_seq. apply descend_ext. intros e. apply IH.
Qed.

Lemma at_path_app p q f es : at_path (p ++ q) f es = at_path p (at_path q f) es.
Proof.
  revert es. induction p as [|k p IH]; intros es; cbn [app at_path]; [reflexivity|].
  apply descend_ext. intros e. apply IH.
Qed.

Lemma descend_mono k f g : refines f g -> refines (descend k f) (descend k g).
Proof.
  intros H E E'. unfold descend. destruct (lookup k E) as [[d|ex c|dn cur]|]; try discriminate.
  - destruct (f c) eqn:Ef; [|discriminate]. rewrite (H _ _ Ef). auto.
  - destruct (f cur) eqn:Ef; [|discriminate]. rewrite (H _ _ Ef). auto.
  - destruct (f []) eqn:Ef; [|discriminate]. rewrite (H _ _ Ef). auto.
Qed.

Lemma at_path_mono p : forall f g, refines f g -> refines (at_path p f) (at_path p g).
Proof.
  induction p as [|k p IH]; intros f g H; cbn [at_path]; [exact H|].
  apply descend_mono, IH, H.
Qed.

(* ------------------------------------------------------------------ *)
(* Specification-side functions on one table                           *)

(* bind k to n; k must be new *)
Definition add_node (k : bytes) (n : node) : efun :=
  fun E => match lookup k E with None => Some (E ++ [(k, n)]) | Some _ => None end.

Fixpoint add_all (l : entries) : efun :=
  match l with
  | [] => fun E => Some E
  | (k, n) :: r => kcomp (add_node k n) (add_all r)
  end.

Lemma add_kv_add_node k d : forall E, add_kv k d E = add_node k (NVal d) E.
Proof. reflexivity. Qed.

Lemma add_all_app l1 l2 E : add_all (l1 ++ l2) E = kcomp (add_all l1) (add_all l2) E.
Proof.
  revert E. induction l1 as [|[k n] l1 IH]; intros E; cbn [app add_all]; [reflexivity|].
  unfold kcomp at 1 2 3. unfold obind. destruct (add_node k n E); [|reflexivity]. apply IH.
Qed.

Lemma lookup_not_in {V} k (l : list (bytes * V)) : ~ In k (map fst l) -> lookup k l = None.
Proof.
  induction l as [|[k1 v1] l IH]; cbn; [reflexivity|]. intros H.
  destruct (bytes_eqb k k1) eqn:E.
  - apply bytes_eqb_spec in E. subst. tauto.
  - apply IH. tauto.
Qed.

Lemma add_all_fresh l : forall E,
  NoDup (map fst l) -> (forall k, In k (map fst l) -> lookup k E = None) ->
  add_all l E = Some (E ++ l).
Proof.
  induction l as [|[k n] l IH]; intros E Hnd Hf; cbn [add_all].
  - rewrite app_nil_r. reflexivity.
  - cbn [map fst] in Hnd. inversion Hnd as [|? ? Hk Hnd']; subst.
    unfold kcomp, add_node. rewrite (Hf k (or_introl eq_refl)). cbn [obind].
    rewrite IH; [rewrite <- app_assoc; reflexivity|exact Hnd'|].
    intros k' Hk'. rewrite lookup_app_none by (apply Hf; right; exact Hk').
    cbn. destruct (bytes_eqb k' k) eqn:E'; [|reflexivity].
    apply bytes_eqb_spec in E'. subst. contradiction.
Qed.

Lemma add_all_nil l : NoDup (map fst l) -> add_all l [] = Some l.
Proof. intros H. rewrite (add_all_fresh l [] H); [reflexivity|reflexivity]. Qed.

(* a [header] followed by the table's lines *)
Lemma add_tab_explicit k ns : add_all ns [] = Some ns ->
  refines (add_node k (NTab true ns)) (kcomp (define_tab k) (descend k (add_all ns))).
Proof.
  intros Hns E E'. unfold add_node, kcomp, define_tab. destruct (lookup k E) eqn:El; [discriminate|].
  intros H. inversion H; subst. cbn [obind]. unfold descend.
  rewrite (lookup_app_none k E _ El), lookup_single, Hns, (set_key_app_absent k _ _ E El). reflexivity.
Qed.

(* no [header]: the table comes into existence through the headers of its sub-tables *)
Lemma add_tab_implicit k ns : add_all ns [] = Some ns ->
  refines (add_node k (NTab false ns)) (descend k (add_all ns)).
Proof.
  intros Hns E E'. unfold add_node. destruct (lookup k E) eqn:El; [discriminate|].
  intros H. inversion H; subst. unfold descend. rewrite El, Hns. reflexivity.
Qed.

(* [[header]] + lines, repeated *)
Fixpoint aot_node (dn : list entries) (cur : entries) (l : list entries) : node :=
  match l with
  | [] => NAot dn cur
  | e :: r => aot_node (dn ++ [cur]) e r
  end.

Definition aot_step (k : bytes) (e : entries) : efun := kcomp (append_aot k) (descend k (add_all e)).

Fixpoint aot_steps (k : bytes) (l : list entries) : efun :=
  match l with
  | [] => fun E => Some E
  | e :: r => kcomp (aot_step k e) (aot_steps k r)
  end.

Lemma aot_steps_present k l : Forall (fun e => add_all e [] = Some e) l -> forall dn cur E,
  lookup k E = Some (NAot dn cur) ->
  aot_steps k l E = Some (set_key k (aot_node dn cur l) E).
Proof.
  induction 1 as [|e l He _ IH]; intros dn cur E El; cbn [aot_steps aot_node].
  - f_equal. clear - El. induction E as [|[k1 v1] E IH]; cbn [lookup set_key] in *; [discriminate|].
    destruct (bytes_eqb k k1) eqn:Ek.
    + apply bytes_eqb_spec in Ek. inversion El. subst. reflexivity.
    + rewrite <- (IH El). reflexivity.
  - unfold kcomp at 1. unfold aot_step, kcomp at 1, append_aot. rewrite El. cbn [obind].
    unfold descend. rewrite (lookup_set_key k _ E _ El), He. cbn [obind]. rewrite set_key_twice.
    rewrite (IH (dn ++ [cur]) e (set_key k (NAot (dn ++ [cur]) e) E)).
    + rewrite set_key_twice. reflexivity.
    + apply (lookup_set_key k _ E _ El).
Qed.

Lemma add_aot k e l : add_all e [] = Some e -> Forall (fun e => add_all e [] = Some e) l ->
  refines (add_node k (aot_node [] e l)) (aot_steps k (e :: l)).
Proof.
  intros He Hl E E'. unfold add_node. destruct (lookup k E) eqn:El; [discriminate|].
  intros H. inversion H; subst. cbn [aot_steps]. unfold kcomp at 1, aot_step, kcomp at 1, append_aot.
  rewrite El. cbn [obind]. unfold descend.
  rewrite (lookup_app_none k E _ El), lookup_single, He. cbn [obind].
  rewrite (set_key_app_absent k _ _ E El).
  rewrite (aot_steps_present k l Hl [] e (E ++ [(k, NAot [] e)])).
  - rewrite (set_key_app_absent k _ _ E El). reflexivity.
  - rewrite (lookup_app_none k E _ El). apply lookup_single.
Qed.

(* ------------------------------------------------------------------ *)
(* The lines of a well-formed value                                    *)

(* the data an inline value denotes *)
Definition dfloat_of (f : tfloat) : dfloat :=
  match f with
  | TFin t =>
    match rust_float_parts t with
    | Some (neg, i, fd) => mk_fin neg (digits_val (i ++ fd)) (- Z.of_nat (List.length fd))%Z
    | None => DNan                                   (* excluded by tval_wf *)
    end
  | TNan _ => DNan
  | TInf neg => DInf neg
  end.

Fixpoint tdoc_of (v : tval) : tdoc :=
  match v with
  | TStr s => DStr s
  | TInt z => DInt z
  | TFloat f => DFloat (dfloat_of f)
  | TBool x => DBool x
  | TArr l => DArr (map tdoc_of l)
  | TTab es => DTab (map (fun kv => (fst kv, tdoc_of (snd kv))) es)
  end.

Definition is_nil {A} (l : list A) : bool := match l with [] => true | _ => false end.

Definition has_simple (es : list (bytes * tval)) : bool := existsb (fun kv => pass1 (snd kv)) es.

Definition kv_items (es : list (bytes * tval)) : list item :=
  flat_map (fun kv => if pass1 (snd kv) then [IKV (fst kv) (tdoc_of (snd kv))] else []) es.

Definition sub_items (f : bytes -> tval -> list item) (p : tval -> bool) (es : list (bytes * tval)) : list item :=
  flat_map (fun kv => if p (snd kv) then f (fst kv) (snd kv) else []) es.

Definition body_with (f : bytes -> tval -> list item) (es : list (bytes * tval)) : list item :=
  kv_items es ++ sub_items f pass2 es ++ sub_items f pass3 es.

(* the lines written for the entry k = v of the table at path p *)
Fixpoint flat (p : list bytes) (k : bytes) (v : tval) : list item :=
  match v with
  | TTab es =>
    (if has_simple es || is_nil es then [IHead (p ++ [k])] else [])
      ++ body_with (flat (p ++ [k])) es
  | TArr l =>
    if existsb is_table l then
      flat_map (fun x => match x with
                         | TTab es => IAHead (p ++ [k]) :: body_with (flat (p ++ [k])) es
                         | _ => []
                         end) l
    else [IKV k (tdoc_of v)]
  | _ => [IKV k (tdoc_of v)]
  end.

Definition flat_root (es : list (bytes * tval)) : list item := body_with (flat []) es.

(* ... and the tree they build, entries in the order written *)
Definition kv_nodes (es : list (bytes * tval)) : entries :=
  flat_map (fun kv => if pass1 (snd kv) then [(fst kv, NVal (tdoc_of (snd kv)))] else []) es.

Definition sub_nodes (f : tval -> node) (p : tval -> bool) (es : list (bytes * tval)) : entries :=
  flat_map (fun kv => if p (snd kv) then [(fst kv, f (snd kv))] else []) es.

Definition ents_with (f : tval -> node) (es : list (bytes * tval)) : entries :=
  kv_nodes es ++ sub_nodes f pass2 es ++ sub_nodes f pass3 es.

Fixpoint node_of (v : tval) : node :=
  match v with
  | TTab es => NTab (has_simple es || is_nil es) (ents_with node_of es)
  | TArr l =>
    if existsb is_table l then
      match map (fun x => match x with TTab es => ents_with node_of es | _ => [] end) l with
      | [] => NVal (DArr [])
      | e :: r => aot_node [] e r
      end
    else NVal (tdoc_of v)
  | _ => NVal (tdoc_of v)
  end.

(* well-formed: every array either contains no table at all, or is a non-empty array of tables
   directly under a table key; keys of a table are distinct *)
Fixpoint good (v : tval) : bool :=
  match v with
  | TTab es => forallb (fun kv => good (snd kv)) es
  | TArr l => negb (existsb has_tab l) || (forallb is_table l && forallb good l)
  | _ => true
  end.

Fixpoint keys_nodup (v : tval) : Prop :=
  match v with
  | TTab es => NoDup (map fst es) /\
               (fix all (l : list (bytes * tval)) : Prop :=
                  match l with [] => True | (k, x) :: r => keys_nodup x /\ all r end) es
  | TArr l => (fix all (l : list tval) : Prop :=
                 match l with [] => True | x :: r => keys_nodup x /\ all r end) l
  | _ => True
  end.

(* ------------------------------------------------------------------ *)
(* Lists: the three loops as filters                                   *)

Lemma flat_map_filter {A B} (p : A -> bool) (g : A -> B) (l : list A) :
  flat_map (fun a => if p a then [g a] else []) l = map g (filter p l).
Proof.
  induction l as [|a l IH]; cbn [flat_map filter]; [reflexivity|].
  destruct (p a); cbn [app map]; rewrite IH; reflexivity.
Qed.

Lemma kv_nodes_filter es :
  kv_nodes es = map (fun kv => (fst kv, NVal (tdoc_of (snd kv)))) (filter (fun kv => pass1 (snd kv)) es).
Proof. apply (flat_map_filter (fun kv => pass1 (snd kv))). Qed.

Lemma sub_nodes_filter f p es :
  sub_nodes f p es = map (fun kv => (fst kv, f (snd kv))) (filter (fun kv => p (snd kv)) es).
Proof. apply (flat_map_filter (fun kv => p (snd kv))). Qed.

Lemma pass_exclusive v :
  (pass1 v = true -> pass2 v = false /\ pass3 v = false) /\
  (pass2 v = true -> pass3 v = false) /\
  (pass1 v || pass2 v || pass3 v = true).
Proof.
  destruct v; cbn; try (repeat split; congruence).
  destruct (existsb is_table l); cbn; repeat split; congruence.
Qed.

Lemma pass12 v : pass1 v = true -> pass2 v = false.
Proof. intros H. apply (pass_exclusive v) in H. tauto. Qed.
Lemma pass13 v : pass1 v = true -> pass3 v = false.
Proof. intros H. apply (pass_exclusive v) in H. tauto. Qed.
Lemma pass23 v : pass2 v = true -> pass3 v = false.
Proof. intros H. destruct (pass_exclusive v) as (_ & H2 & _). auto. Qed.

Lemma in_map_fst_filter {V} (p : bytes * V -> bool) (l : list (bytes * V)) k :
  In k (map fst (filter p l)) -> exists v, In (k, v) l /\ p (k, v) = true.
Proof.
  intros H. apply in_map_iff in H as ([k' v] & Ek & Hin). cbn in Ek. subst k'.
  apply filter_In in Hin as [Hin Hp]. eauto.
Qed.

Lemma nodup_fst_unique {V} (l : list (bytes * V)) k v1 v2 :
  NoDup (map fst l) -> In (k, v1) l -> In (k, v2) l -> v1 = v2.
Proof.
  induction l as [|[k0 v0] l IH]; cbn [map fst In]; [tauto|].
  intros Hnd H1 H2. inversion Hnd as [|? ? Hk Hnd']; subst.
  destruct H1 as [H1|H1], H2 as [H2|H2].
  - congruence.
  - inversion H1; subst. exfalso. apply Hk. apply in_map_iff. exists (k, v2). auto.
  - inversion H2; subst. exfalso. apply Hk. apply in_map_iff. exists (k, v1). auto.
  - eauto.
Qed.

Lemma nodup_fst_filter {V} (p : bytes * V -> bool) (l : list (bytes * V)) :
  NoDup (map fst l) -> NoDup (map fst (filter p l)).
Proof.
  induction l as [|[k v] l IH]; cbn [map fst filter]; [auto|].
  intros Hnd. inversion Hnd as [|? ? Hk Hnd']; subst.
  destruct (p (k, v)); [|auto]. cbn [map fst]. constructor; [|auto].
  intros Hin. apply Hk. apply in_map_fst_filter in Hin as (v' & Hin & _).
  apply in_map_iff. exists (k, v'). auto.
Qed.

Lemma map_fst_map {V W} (g : V -> W) (l : list (bytes * V)) :
  map fst (map (fun kv => (fst kv, g (snd kv))) l) = map fst l.
Proof. rewrite map_map. apply map_ext. reflexivity. Qed.

Lemma ents_with_keys f es :
  map fst (ents_with f es)
  = map fst (filter (fun kv => pass1 (snd kv)) es) ++ map fst (filter (fun kv => pass2 (snd kv)) es)
    ++ map fst (filter (fun kv => pass3 (snd kv)) es).
Proof.
  unfold ents_with. rewrite kv_nodes_filter, !sub_nodes_filter, !map_app.
  rewrite (map_fst_map (fun x => NVal (tdoc_of x))), !(map_fst_map f). reflexivity.
Qed.

Lemma nodup_app_intro {A} (a b : list A) :
  NoDup a -> NoDup b -> (forall x, In x a -> In x b -> False) -> NoDup (a ++ b).
Proof.
  induction a as [|x a IH]; cbn [app]; intros Ha Hb Hd; [exact Hb|].
  inversion Ha as [|? ? Hx Ha']; subst. constructor.
  - intros Hin. apply in_app_or in Hin as [Hin|Hin]; [contradiction|].
    apply (Hd x); [left; reflexivity|exact Hin].
  - apply IH; auto. intros y Hy. apply Hd. right. exact Hy.
Qed.

Lemma ents_with_nodup f es : NoDup (map fst es) -> NoDup (map fst (ents_with f es)).
Proof.
  intros Hnd. rewrite ents_with_keys.
  assert (Hd : forall (p1 p2 : tval -> bool) k,
             (forall v, p1 v = true -> p2 v = false) ->
             In k (map fst (filter (fun kv => p1 (snd kv)) es)) ->
             In k (map fst (filter (fun kv => p2 (snd kv)) es)) -> False).
  { intros p1 p2 k Hex H1 H2.
    apply in_map_fst_filter in H1 as (v1 & Hi1 & Hp1). apply in_map_fst_filter in H2 as (v2 & Hi2 & Hp2).
    cbn [snd] in *. rewrite (nodup_fst_unique es k v1 v2 Hnd Hi1 Hi2) in Hp1.
    rewrite (Hex v2 Hp1) in Hp2. discriminate. }
  apply nodup_app_intro.
  - apply nodup_fst_filter, Hnd.
  - apply nodup_app_intro; try (apply nodup_fst_filter, Hnd).
    intros k H2 H3. apply (Hd pass2 pass3 k); auto. exact pass23.
  - intros k H1 H23. apply in_app_or in H23 as [H2|H3].
    + apply (Hd pass1 pass2 k); auto. exact pass12.
    + apply (Hd pass1 pass3 k); auto. exact pass13.
Qed.

(* ------------------------------------------------------------------ *)
(* Running the builder on the lines                                    *)

Lemma build_st_app a : forall b st, build_st (a ++ b) st = obind (build_st a st) (build_st b).
Proof.
  induction a as [|it a IH]; intros b st; cbn [app build_st obind]; [reflexivity|].
  destruct (build_step it st); [apply IH|reflexivity].
Qed.

Lemma split_last_snoc p k : split_last (p ++ [k]) = Some (p, k).
Proof.
  induction p as [|a p IH]; [reflexivity|]. cbn [app split_last].
  rewrite IH. destruct (p ++ [k]) eqn:E; [destruct p; discriminate|reflexivity].
Qed.

Lemma at_path_snoc p k f es : at_path (p ++ [k]) f es = at_path p (descend k f) es.
Proof.
  rewrite at_path_app. apply at_path_ext. intros e. cbn [at_path]. apply descend_ext. reflexivity.
Qed.

Lemma has_tab_of_table v : is_table v = true -> has_tab v = true.
Proof. destruct v; cbn; congruence. Qed.

Lemma has_tab_of_pass2 v : pass2 v = true -> has_tab v = true.
Proof.
  destruct v; cbn; try congruence. intros H. apply existsb_exists in H as (x & Hx & Ht).
  apply existsb_exists. exists x. split; [exact Hx|apply has_tab_of_table, Ht].
Qed.

(* ---- adding a list of entries to the table at path q; nothing to add = nothing done ---- *)

Definition upd (q : list bytes) (l : entries) : efun :=
  match l with
  | [] => fun R => Some R
  | _ :: _ => at_path q (add_all l)
  end.

Lemma kcomp_some_r f E : kcomp f (fun e => Some e) E = f E.
Proof. unfold kcomp, obind. destruct (f E); reflexivity. Qed.

Lemma upd_cons q k n l R :
  upd q ((k, n) :: l) R = obind (at_path q (add_node k n) R) (upd q l).
Proof.
  cbn [upd add_all]. destruct l as [|kn l].
  - cbn [upd add_all]. rewrite (at_path_ext q _ (add_node k n) R (kcomp_some_r _)).
    destruct (at_path q (add_node k n) R); reflexivity.
  - rewrite at_path_seq. reflexivity.
Qed.

Lemma upd_app q l1 : forall l2 R, upd q (l1 ++ l2) R = obind (upd q l1 R) (upd q l2).
Proof.
  induction l1 as [|[k n] l1 IH]; intros l2 R; [reflexivity|].
  cbn [app]. rewrite !upd_cons. destruct (at_path q (add_node k n) R); cbn [obind]; [apply IH|reflexivity].
Qed.

(* after an operation at path p that leaves the table k in place, path p ++ [k] exists *)
Lemma set_key_same k n (es : entries) : lookup k es = Some n -> set_key k n es = es.
Proof.
  induction es as [|[k1 v1] es IH]; cbn [lookup set_key]; [discriminate|].
  destruct (bytes_eqb k k1) eqn:Ek.
  - apply bytes_eqb_spec in Ek. intros H. inversion H. subst. reflexivity.
  - intros H. rewrite (IH H). reflexivity.
Qed.

Lemma descend_fix k f g es es1 :
  (forall E E1, f E = Some E1 -> g E1 = Some E1) ->
  descend k f es = Some es1 -> descend k g es1 = Some es1.
Proof.
  intros Hfg. unfold descend at 1. destruct (lookup k es) as [[d|ex c|dn cur]|] eqn:El; try discriminate.
  - destruct (f c) as [r|] eqn:Ef; [|discriminate]. intros H. inversion H; subst.
    unfold descend. rewrite (lookup_set_key k _ es _ El), (Hfg _ _ Ef), set_key_twice. reflexivity.
  - destruct (f cur) as [r|] eqn:Ef; [|discriminate]. intros H. inversion H; subst.
    unfold descend. rewrite (lookup_set_key k _ es _ El), (Hfg _ _ Ef), set_key_twice. reflexivity.
  - destruct (f []) as [r|] eqn:Ef; [|discriminate]. intros H. inversion H; subst.
    unfold descend. rewrite (lookup_app_none k es _ El), lookup_single, (Hfg _ _ Ef).
    rewrite (set_key_app_absent k _ _ es El). reflexivity.
Qed.

Lemma at_path_fix p : forall f g R R1,
  (forall E E1, f E = Some E1 -> g E1 = Some E1) ->
  at_path p f R = Some R1 -> at_path p g R1 = Some R1.
Proof.
  induction p as [|k p IH]; intros f g R R1 Hfg; cbn [at_path]; [apply Hfg|].
  apply descend_fix. intros E E1. apply IH, Hfg.
Qed.

Lemma define_tab_fix k E E1 : define_tab k E = Some E1 -> descend k (fun e => Some e) E1 = Some E1.
Proof.
  unfold define_tab. destruct (lookup k E) as [[d|[|] c|dn cur]|] eqn:El; try discriminate; intros H; inversion H; subst; unfold descend.
  - rewrite (lookup_set_key k _ E _ El), set_key_twice. reflexivity.
  - rewrite (lookup_app_none k E _ El), lookup_single, (set_key_app_absent k _ _ E El). reflexivity.
Qed.

Lemma append_aot_fix k E E1 : append_aot k E = Some E1 -> descend k (fun e => Some e) E1 = Some E1.
Proof.
  unfold append_aot. destruct (lookup k E) as [[d|ex c|dn cur]|] eqn:El; try discriminate; intros H; inversion H; subst; unfold descend.
  - rewrite (lookup_set_key k _ E _ El), set_key_twice. reflexivity.
  - rewrite (lookup_app_none k E _ El), lookup_single, (set_key_app_absent k _ _ E El). reflexivity.
Qed.

(* the lines of a table, right after the line that created it *)
Lemma upd_after p k f ns R R0 R1 :
  (forall E E1, f E = Some E1 -> descend k (fun e => Some e) E1 = Some E1) ->
  at_path p f R = Some R0 ->
  at_path p (descend k (add_all ns)) R0 = Some R1 ->
  upd (p ++ [k]) ns R0 = Some R1.
Proof.
  intros Hf H0 H1. destruct ns as [|kn ns].
  - cbn [upd]. cbn [add_all] in H1. rewrite (at_path_fix p f _ R R0 Hf H0) in H1. exact H1.
  - cbn [upd]. rewrite at_path_snoc. exact H1.
Qed.

(* what processing the lines of one entry must achieve *)
Definition Ent (p : list bytes) (k : bytes) (v : tval) : Prop :=
  forall R R' c, (has_tab v = false -> c = p) ->
    at_path p (add_node k (node_of v)) R = Some R' ->
    exists c', build_st (flat p k v) (R, c) = Some (R', c') /\ (has_tab v = false -> c' = p).

Lemma kv_ok q es : forall R R' c, (has_simple es = true -> c = q) ->
  upd q (kv_nodes es) R = Some R' ->
  build_st (kv_items es) (R, c) = Some (R', c).
Proof.
  induction es as [|[k x] es IH]; intros R R' c Hc H.
  - cbn in H. inversion H. reflexivity.
  - unfold kv_items, kv_nodes in *. cbn [flat_map fst snd] in *.
    unfold has_simple in Hc. cbn [existsb snd] in Hc.
    destruct (pass1 x) eqn:Ep.
    + cbn [orb] in Hc. specialize (Hc eq_refl). subst c.
      cbn [app] in H. rewrite upd_cons in H.
      destruct (at_path q (add_node k (NVal (tdoc_of x))) R) as [R1|] eqn:E1; [|discriminate H].
      cbn [obind] in H. cbn [app build_st build_step].
      rewrite (at_path_ext q (add_kv k (tdoc_of x)) (add_node k (NVal (tdoc_of x))) R (add_kv_add_node k _)), E1.
      apply IH; [auto|exact H].
    + cbn [app orb] in *. apply IH; assumption.
Qed.

Lemma subs_ok q (ps : tval -> bool) es :
  (forall k x, In (k, x) es -> ps x = true -> has_tab x = true /\ Ent q k x) ->
  forall R R' c, upd q (sub_nodes node_of ps es) R = Some R' ->
  exists c', build_st (sub_items (flat q) ps es) (R, c) = Some (R', c').
Proof.
  induction es as [|[k x] es IH]; intros Hent R R' c H.
  - cbn in H. inversion H. exists c. reflexivity.
  - unfold sub_items, sub_nodes in *. cbn [flat_map fst snd] in *.
    assert (Hent' : forall k0 x0, In (k0, x0) es -> ps x0 = true -> has_tab x0 = true /\ Ent q k0 x0)
      by (intros; apply Hent; [right|]; assumption).
    destruct (ps x) eqn:Ep.
    + destruct (Hent k x (or_introl eq_refl) Ep) as [Ht He].
      cbn [app] in H. rewrite upd_cons in H.
      destruct (at_path q (add_node k (node_of x)) R) as [R1|] eqn:E1; [|discriminate H].
      cbn [obind] in H.
      destruct (He R R1 c ltac:(intros Hc; congruence) E1) as (c1 & B1 & _).
      destruct (IH Hent' R1 R' c1 H) as (c2 & B2).
      exists c2. rewrite build_st_app, B1. exact B2.
    + cbn [app]. apply IH; assumption.
Qed.

Lemma body_ok q es :
  (forall k x, In (k, x) es -> Ent q k x) ->
  forall R R' c, (has_simple es = true -> c = q) ->
  upd q (ents_with node_of es) R = Some R' ->
  exists c', build_st (body_with (flat q) es) (R, c) = Some (R', c').
Proof.
  intros Hent R R' c Hc H. unfold ents_with in H.
  rewrite upd_app in H.
  destruct (upd q (kv_nodes es) R) as [R1|] eqn:E1; [|discriminate H]. cbn [obind] in H.
  rewrite upd_app in H.
  destruct (upd q (sub_nodes node_of pass2 es) R1) as [R2|] eqn:E2; [|discriminate H]. cbn [obind] in H.
  pose proof (kv_ok q es R R1 c Hc E1) as B1.
  destruct (subs_ok q pass2 es ltac:(intros k x Hin Hp; split; [apply has_tab_of_pass2, Hp|apply Hent, Hin]) R1 R2 c E2) as (c2 & B2).
  destruct (subs_ok q pass3 es ltac:(intros k x Hin Hp; split; [apply has_tab_of_table, Hp|apply Hent, Hin]) R2 R' c2 H) as (c3 & B3).
  exists c3. unfold body_with. rewrite build_st_app, B1. cbn [obind]. rewrite build_st_app, B2. cbn [obind]. exact B3.
Qed.

(* array-of-tables elements, one after the other *)
Definition elem_ents (x : tval) : entries :=
  match x with TTab es => ents_with node_of es | _ => [] end.

Definition aot_upd (p : list bytes) (k : bytes) (l : list entries) : efun :=
  match l with
  | [] => fun R => Some R
  | _ :: _ => at_path p (aot_steps k l)
  end.

Lemma aot_upd_cons p k e l R :
  aot_upd p k (e :: l) R = obind (at_path p (aot_step k e) R) (aot_upd p k l).
Proof.
  cbn [aot_upd aot_steps]. destruct l as [|e2 l].
  - cbn [aot_upd aot_steps]. rewrite (at_path_ext p _ (aot_step k e) R (kcomp_some_r _)).
    destruct (at_path p (aot_step k e) R); reflexivity.
  - rewrite at_path_seq. reflexivity.
Qed.

Lemma aot_ok p k (l : list tval) :
  Forall (fun x => exists es, x = TTab es /\ forall k' x', In (k', x') es -> Ent (p ++ [k]) k' x') l ->
  forall R R' c,
    aot_upd p k (map elem_ents l) R = Some R' ->
    exists c', build_st (flat_map (fun x => match x with
                                            | TTab es => IAHead (p ++ [k]) :: body_with (flat (p ++ [k])) es
                                            | _ => []
                                            end) l) (R, c) = Some (R', c').
Proof.
  induction 1 as [|x l (es & -> & Hent) _ IH]; intros R R' c H.
  - cbn in H. inversion H. exists c. reflexivity.
  - cbn [map elem_ents] in H. rewrite aot_upd_cons in H.
    destruct (at_path p (aot_step k (ents_with node_of es)) R) as [R1|] eqn:E1; [|discriminate H]. cbn [obind] in H.
    unfold aot_step in E1. rewrite at_path_seq in E1.
    destruct (at_path p (append_aot k) R) as [R0|] eqn:E0; [|discriminate E1]. cbn [obind] in E1.
    pose proof (upd_after p k _ _ R R0 R1 (append_aot_fix k) E0 E1) as U.
    destruct (body_ok (p ++ [k]) es Hent R0 R1 (p ++ [k]) ltac:(reflexivity) U) as (c1 & B1).
    destruct (IH R1 R' c1 H) as (c2 & B2).
    exists c2. cbn [flat_map]. rewrite build_st_app. cbn [build_st build_step].
    rewrite split_last_snoc, E0, B1. exact B2.
Qed.

Lemma ents_nodup_ok es : NoDup (map fst es) -> add_all (ents_with node_of es) [] = Some (ents_with node_of es).
Proof. intros H. apply add_all_nil, ents_with_nodup, H. Qed.

Lemma keys_nodup_tab es :
  keys_nodup (TTab es) <-> NoDup (map fst es) /\ Forall (fun kv => keys_nodup (snd kv)) es.
Proof.
  cbn [keys_nodup]. split; intros [H1 H2]; split; auto.
  - clear H1. induction es as [|[k x] es IH]; [constructor|]. destruct H2 as [Hx H2]. constructor; [exact Hx|].
    apply IH. exact H2.
  - clear H1. induction H2 as [|[k x] es Hx _ IH]; [exact I|]. split; [exact Hx|exact IH].
Qed.

Lemma keys_nodup_arr l : keys_nodup (TArr l) <-> Forall keys_nodup l.
Proof.
  cbn [keys_nodup]. split.
  - induction l as [|x l IH]; [constructor|]. intros [Hx H]. constructor; auto.
  - induction 1 as [|x l Hx _ IH]; [exact I|]. split; assumption.
Qed.

Lemma is_table_has_tab_list l : existsb is_table l = true -> existsb has_tab l = true.
Proof.
  intros H. apply existsb_exists in H as (x & Hx & Ht). apply existsb_exists.
  exists x. split; [exact Hx|apply has_tab_of_table, Ht].
Qed.

(* the statement proved by induction: Ent for the value as an entry, and, for a table, Ent for
   each of its entries at any path *)
Definition EntP (v : tval) : Prop :=
  (forall p k, Ent p k v) /\
  match v with TTab es => forall q k' x', In (k', x') es -> Ent q k' x' | _ => True end.

Lemma ent_inline v :
  has_tab v = false -> (forall p k, flat p k v = [IKV k (tdoc_of v)]) -> node_of v = NVal (tdoc_of v) ->
  forall p k, Ent p k v.
Proof.
  intros Hh Hf Hnv p k R R' c Hc H. specialize (Hc Hh). subst c. rewrite Hf. rewrite Hnv in H.
  exists p. split; [|auto]. cbn [build_st build_step].
  rewrite (at_path_ext p _ _ R (add_kv_add_node k _)), H. reflexivity.
Qed.

Theorem entry_ok : forall v, good v = true -> keys_nodup v -> EntP v.
Proof.
  induction v as [s|z|f|x|l IH|es IH] using tval_ind'; intros Hg Hn.
  1-4: split; [apply ent_inline; reflexivity|exact I].
  - (* arrays *)
    split; [|exact I].
    cbn [good] in Hg. apply keys_nodup_arr in Hn.
    destruct (existsb is_table l) eqn:Et.
    + (* an array of tables *)
      rewrite (is_table_has_tab_list l Et) in Hg. cbn [negb orb] in Hg. apply andb_true_iff in Hg as [Hall Hgood].
      intros p k R R' c _ H. cbn [flat node_of] in *. rewrite Et in *.
      assert (Hel : Forall (fun x => exists es, x = TTab es /\ forall k' x', In (k', x') es -> Ent (p ++ [k]) k' x') l
                    /\ Forall (fun e => add_all e [] = Some e) (map elem_ents l)).
      { clear H Et. induction l as [|x l IHl]; [split; constructor|].
        cbn [forallb] in Hall, Hgood. apply andb_true_iff in Hall as [Hx Hall]. apply andb_true_iff in Hgood as [Hgx Hgood].
        inversion IH as [|? ? IHx IHr]; subst. inversion Hn as [|? ? Hnx Hnr]; subst.
        destruct (IHl IHr Hall Hgood Hnr) as [A B].
        destruct x as [| | | | |es]; try discriminate Hx.
        destruct (IHx Hgx Hnx) as [_ Hents].
        apply keys_nodup_tab in Hnx as [Hnd Hsub].
        split; constructor; auto.
        - exists es. split; [reflexivity|]. intros k' x' Hin. apply Hents, Hin.
        - cbn [elem_ents]. apply ents_nodup_ok, Hnd. }
      destruct Hel as [Hel Hnd].
      change (map (fun x => match x with TTab es => ents_with node_of es | _ => [] end) l) with (map elem_ents l) in H.
      destruct (map elem_ents l) as [|e r] eqn:Em.
      { destruct l; [discriminate Et|discriminate Em]. }
      inversion Hnd as [|? ? He Hr]; subst.
      pose proof (at_path_mono p _ _ (add_aot k e r He Hr) R R' H) as H'.
      assert (U : aot_upd p k (map elem_ents l) R = Some R') by (rewrite Em; exact H').
      destruct (aot_ok p k l Hel R R' c U) as (c' & B). exists c'. split; [exact B|].
      cbn [has_tab]. rewrite (is_table_has_tab_list l Et). discriminate.
    + (* an inline array: no table inside *)
      assert (Hh : has_tab (TArr l) = false).
      { cbn [has_tab]. destruct (existsb has_tab l) eqn:Eh; [|reflexivity].
        cbn [negb orb] in Hg. apply andb_true_iff in Hg as [Hall _].
        destruct l as [|x l]; [discriminate Eh|]. cbn [existsb forallb] in Et, Hall.
        apply andb_true_iff in Hall as [Hx _]. rewrite Hx in Et. discriminate Et. }
      apply ent_inline; [exact Hh| |]; intros; cbn [flat node_of]; rewrite Et; reflexivity.
  - (* tables *)
    cbn [good] in Hg. apply keys_nodup_tab in Hn as [Hnd Hsub].
    assert (Hents : forall q k' x', In (k', x') es -> Ent q k' x').
    { intros q k' x' Hin. rewrite Forall_forall in IH, Hsub. rewrite forallb_forall in Hg.
      apply (IH (k', x') Hin (Hg _ Hin) (Hsub _ Hin)). }
    split; [|exact Hents].
    intros p k R R' c _ H. cbn [flat node_of] in *.
    pose proof (ents_nodup_ok es Hnd) as Hns.
    set (ns := ents_with node_of es) in *.
    destruct (has_simple es || is_nil es) eqn:Eh.
    + (* [header], then the lines *)
      pose proof (at_path_mono p _ _ (add_tab_explicit k ns Hns) R R' H) as H'.
      rewrite at_path_seq in H'.
      destruct (at_path p (define_tab k) R) as [R0|] eqn:E0; [|discriminate H']. cbn [obind] in H'.
      pose proof (upd_after p k _ _ R R0 R' (define_tab_fix k) E0 H') as U.
      destruct (body_ok (p ++ [k]) es (Hents _) R0 R' (p ++ [k]) ltac:(reflexivity) U) as (c1 & B1).
      exists c1. split; [|discriminate]. cbn [app build_st build_step]. rewrite split_last_snoc, E0. exact B1.
    + (* no header of its own *)
      pose proof (at_path_mono p _ _ (add_tab_implicit k ns Hns) R R' H) as H'.
      apply orb_false_iff in Eh as [Hs Hnil].
      assert (U : upd (p ++ [k]) ns R = Some R').
      { destruct ns as [|kn ns'] eqn:Ens.
        - (* es is not empty, so something is written *)
          exfalso. destruct es as [|[k0 x0] es0]; [discriminate Hnil|].
          assert (Hk : In k0 (map fst (ents_with node_of ((k0, x0) :: es0)))).
          { rewrite ents_with_keys. cbn [filter snd].
            destruct (pass_exclusive x0) as (_ & _ & H3).
            destruct (pass1 x0) eqn:E1; [apply in_or_app; left; left; reflexivity|].
            destruct (pass2 x0) eqn:E2; [apply in_or_app; right; apply in_or_app; left; left; reflexivity|].
            cbn [orb] in H3. rewrite H3. apply in_or_app; right; apply in_or_app; right; left; reflexivity. }
          fold ns in Hk. rewrite Ens in Hk. exact Hk.
        - cbn [upd]. rewrite at_path_snoc. exact H'. }
      destruct (body_ok (p ++ [k]) es (Hents _) R R' c ltac:(intros Hc; congruence) U) as (c1 & B1).
      exists c1. split; [|discriminate]. cbn [app]. exact B1.
Qed.

(* the builder, run on the lines of a well-formed root table, constructs its tree *)
Theorem build_flat es :
  good (TTab es) = true -> keys_nodup (TTab es) ->
  build (flat_root es) = Some (ents_with node_of es).
Proof.
  intros Hg Hn. destruct (entry_ok (TTab es) Hg Hn) as [_ Hents].
  apply keys_nodup_tab in Hn as [Hnd _].
  assert (U : upd [] (ents_with node_of es) [] = Some (ents_with node_of es)).
  { destruct (ents_with node_of es) eqn:E; [reflexivity|]. cbn [upd at_path]. rewrite <- E. apply ents_nodup_ok, Hnd. }
  destruct (body_ok [] es (Hents []) [] _ [] ltac:(reflexivity) U) as (c & B).
  unfold build, flat_root.
  match goal with |- context [build_st ?a ?b] =>
    replace (build_st a b) with (Some (ents_with node_of es, c)) by (symmetry; exact B) end.
  reflexivity.
Qed.
