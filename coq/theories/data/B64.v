(* Base64 (RFC 4648 section 4 "base64" and section 5 "base64url"), with "="
   padding.  Models what /repo/src/convert/b64.rs obtains from the [base64]
   crate: [STANDARD.encode] ([url_safe = false]) and [URL_SAFE.encode]
   ([url_safe = true]); both engines pad.

   Conventions: input and output are [bytes] (= list ascii).  The output of
   [b64_encode] is pure ASCII, so it is also the UTF-8 text of the Rust
   [String].  Executable definitions only; proofs are in B64_Lemmas.v. *)
From Ucg Require Import base.Bytes.
Local Open Scope N_scope.

(* ---------- alphabets (the literal tables of RFC 4648, Table 1 / Table 2) *)

Definition alphabet_std : bytes :=
  b "ABCDEFGHIJKLMNOPQRSTUVWXYZabcdefghijklmnopqrstuvwxyz0123456789+/".
Definition alphabet_url : bytes :=
  b "ABCDEFGHIJKLMNOPQRSTUVWXYZabcdefghijklmnopqrstuvwxyz0123456789-_".
Definition alphabet (url_safe : bool) : bytes :=
  if url_safe then alphabet_url else alphabet_std.

Definition pad : ascii := "="%char.

(* membership in the 64-character alphabet or the pad character *)
Definition in_alphabetb (url_safe : bool) (c : ascii) : bool :=
  existsb (Ascii.eqb c) (pad :: alphabet url_safe).
Definition in_alphabet (url_safe : bool) (c : ascii) : Prop :=
  In c (pad :: alphabet url_safe).

(* the only difference between the two alphabets: values 62 and 63 *)
Definition swap6263 (c : ascii) : ascii :=
  if Ascii.eqb c "+"%char then "-"%char
  else if Ascii.eqb c "/"%char then "_"%char
  else c.

(* ---------- encoder *)

(* sextet value (0..63) -> character, by arithmetic rather than table lookup
   (B64_Lemmas.enc_char_table proves it agrees with the RFC tables) *)
Definition enc_char (url_safe : bool) (n : N) : ascii :=
  if n <? 26 then ascii_of_N (n + 65)            (* A..Z *)
  else if n <? 52 then ascii_of_N (n + 71)       (* a..z : 97 - 26 *)
  else if n <? 62 then ascii_of_N (n - 4)        (* 0..9 : 48 - 52 *)
  else if n =? 62 then (if url_safe then "-" else "+")%char
  else (if url_safe then "_" else "/")%char.

(* 3 input bytes -> 4 characters *)
Definition enc3 (u : bool) (x y z : ascii) : bytes :=
  let p := code x in let q := code y in let r := code z in
  [ enc_char u (p / 4);
    enc_char u ((p mod 4) * 16 + q / 16);
    enc_char u ((q mod 16) * 4 + r / 64);
    enc_char u (r mod 64) ].

(* final group of 2 bytes: 16 bits, padded with two zero bits, one "=" *)
Definition enc2 (u : bool) (x y : ascii) : bytes :=
  let p := code x in let q := code y in
  [ enc_char u (p / 4);
    enc_char u ((p mod 4) * 16 + q / 16);
    enc_char u ((q mod 16) * 4);
    pad ].

(* final group of 1 byte: 8 bits, padded with four zero bits, two "=" *)
Definition enc1 (u : bool) (x : ascii) : bytes :=
  let p := code x in
  [ enc_char u (p / 4);
    enc_char u ((p mod 4) * 16);
    pad;
    pad ].

Fixpoint b64_encode (url_safe : bool) (bs : bytes) : bytes :=
  match bs with
  | [] => []
  | [x] => enc1 url_safe x
  | [x; y] => enc2 url_safe x y
  | x :: y :: z :: rest => enc3 url_safe x y z ++ b64_encode url_safe rest
  end.

(* ---------- strict decoder (independent of the encoder: range tests) *)

Definition dec_char (url_safe : bool) (c : ascii) : option N :=
  let n := code c in
  if (65 <=? n) && (n <=? 90) then Some (n - 65)
  else if (97 <=? n) && (n <=? 122) then Some (n - 71)
  else if (48 <=? n) && (n <=? 57) then Some (n + 4)
  else if n =? (if url_safe then 45 else 43) then Some 62
  else if n =? (if url_safe then 95 else 47) then Some 63
  else None.

Definition dec_quad (u : bool) (c1 c2 c3 c4 : ascii) : option bytes :=
  match dec_char u c1, dec_char u c2, dec_char u c3, dec_char u c4 with
  | Some p, Some q, Some r, Some s =>
      Some [ ascii_of_N (p * 4 + q / 16);
             ascii_of_N ((q mod 16) * 16 + r / 4);
             ascii_of_N ((r mod 4) * 64 + s) ]
  | _, _, _, _ => None
  end.

(* the last quantum may carry padding; the unused low bits must be zero *)
Definition dec_last (u : bool) (c1 c2 c3 c4 : ascii) : option bytes :=
  if Ascii.eqb c4 pad then
    if Ascii.eqb c3 pad then
      match dec_char u c1, dec_char u c2 with
      | Some p, Some q =>
          if q mod 16 =? 0 then Some [ ascii_of_N (p * 4 + q / 16) ] else None
      | _, _ => None
      end
    else
      match dec_char u c1, dec_char u c2, dec_char u c3 with
      | Some p, Some q, Some r =>
          if r mod 4 =? 0
          then Some [ ascii_of_N (p * 4 + q / 16);
                      ascii_of_N ((q mod 16) * 16 + r / 4) ]
          else None
      | _, _, _ => None
      end
  else dec_quad u c1 c2 c3 c4.

(* [None] on: length not a multiple of 4, a character outside the selected
   alphabet, "=" anywhere but in the last one or two positions, or non-zero
   trailing bits in a padded final quantum. *)
Fixpoint b64_decode (url_safe : bool) (s : bytes) : option bytes :=
  match s with
  | [] => Some []
  | c1 :: c2 :: c3 :: c4 :: rest =>
      match rest with
      | [] => dec_last url_safe c1 c2 c3 c4
      | _ :: _ =>
          match dec_quad url_safe c1 c2 c3 c4, b64_decode url_safe rest with
          | Some x, Some r => Some (x ++ r)
          | _, _ => None
          end
      end
  | _ => None
  end.
