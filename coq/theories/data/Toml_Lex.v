(* Proofs about the TOML model: the text the serializer writes for a well-formed root table is
   read by the reader's line loop as exactly the lines [flat_root] lists. *)
From Ucg Require Import base.Bytes base.Bytes_Lemmas data.Val data.Json data.MapJson data.MapJson_Lemmas
     data.Toml data.Toml_Str data.Toml_Num data.Toml_Err data.Toml_Sem data.Toml_Val data.Toml_Out.
Local Open Scope list_scope.

(* ------------------------------------------------------------------ *)
(* emit_table_header as lines                                          *)

Definition own_hdr (st : stack) : list item :=
  match st with
  | [] => []
  | fr :: _ => [if is_FA fr then IAHead (spath st) else IHead (spath st)]
  end.

Fixpoint hitems (fuel : nat) (st : stack) : list item :=
  match fuel with
  | O => []
  | S f =>
    match st with
    | [] => []
    | _ :: _ =>
      (match anc_walk (anc_start st) with Some a => hitems f a | None => [] end) ++ own_hdr st
    end
  end.

Lemma anc_walk_shape p a : anc_walk p = Some a ->
  exists f t n k f2 te r, a = FA f t n :: FT k f2 te :: r.
Proof.
  induction p as [|[k f te|f t n] p IH]; cbn [anc_walk]; try discriminate.
  destruct (negb f); [discriminate|].
  destruct p as [|[k2 f2 te2|f2 t2 n2] p']; [discriminate|exact IH|].
  destruct p' as [|[k3 f3 te3|f3 t3 n3] p'']; [exact IH| |exact IH].
  intros H. inversion H. repeat eexists.
Qed.

Lemma anc_walk_length p a : anc_walk p = Some a -> List.length a < List.length p.
Proof.
  induction p as [|[k f te|f t n] p IH]; cbn [anc_walk]; try discriminate.
  destruct (negb f); [discriminate|].
  destruct p as [|[k2 f2 te2|f2 t2 n2] p']; [discriminate|intros H; specialize (IH H); cbn [List.length] in *; lia|].
  destruct p' as [|[k3 f3 te3|f3 t3 n3] p''].
  - intros H. specialize (IH H). cbn [List.length] in *. lia.
  - intros H. inversion H. cbn [List.length]. lia.
  - intros H. specialize (IH H). cbn [List.length] in *. lia.
Qed.

Lemma anc_start_length st : List.length (anc_start st) <= List.length st.
Proof. destruct st as [|[k f te|[|] t n] p]; cbn; lia. Qed.

Lemma spath_nonempty_shape f t n k f2 te r : spath (FA f t n :: FT k f2 te :: r) <> [].
Proof. cbn [spath]. destruct (spath r); discriminate. Qed.

Lemma hitems_fuel : forall f1 f2 st, List.length st <= f1 -> List.length st <= f2 -> hitems f1 st = hitems f2 st.
Proof.
  induction f1 as [|f1 IH]; intros f2 st H1 H2.
  - destruct st; [|cbn in H1; lia]. destruct f2; reflexivity.
  - destruct f2 as [|f2]; [destruct st; [reflexivity|cbn in H2; lia]|].
    cbn [hitems]. destruct st as [|fr par]; [reflexivity|]. f_equal.
    destruct (anc_walk (anc_start (fr :: par))) as [a|] eqn:E; [|reflexivity].
    pose proof (anc_walk_length _ _ E) as Hl. pose proof (anc_start_length (fr :: par)) as Hs.
    apply IH; cbn [List.length] in *; lia.
Qed.

(* the lines of the header of a state, and of the array-of-tables ancestors still waiting for theirs *)
Definition pre_items (st : stack) : list item :=
  match anc_walk (anc_start st) with Some a => hitems (List.length a) a | None => [] end.

Definition hitems' (st : stack) : list item := hitems (List.length st) st.

Lemma hitems_unfold st : st <> [] -> hitems' st = pre_items st ++ own_hdr st.
Proof.
  unfold hitems', pre_items. destruct st as [|fr par]; [congruence|]. intros _.
  cbn [List.length hitems]. f_equal.
  destruct (anc_walk (anc_start (fr :: par))) as [a|] eqn:E; [|reflexivity].
  pose proof (anc_walk_length _ _ E) as Hl. pose proof (anc_start_length (fr :: par)) as Hs.
  apply hitems_fuel; cbn [List.length] in *; lia.
Qed.

Lemma Lexes_header : forall fuel st, spath st <> [] -> Lexes (header_out fuel st) (hitems fuel st).
Proof.
  induction fuel as [|fuel IH]; intros st Hp; [apply Lexes_nil|].
  destruct st as [|fr par]; [apply Lexes_nil|].
  cbn [header_out hitems].
  apply Lexes_app.
  - destruct (anc_walk (anc_start (fr :: par))) as [a|] eqn:E; [|apply Lexes_nil].
    apply IH. destruct (anc_walk_shape _ _ E) as (f & t & n & k & f2 & te & r & ->). apply spath_nonempty_shape.
  - set (blank := match fr with
                  | FT _ first _ => negb first
                  | FA first _ _ => if negb first then true
                                    else match par with FT _ pf _ :: _ => negb pf | _ => false end
                  end).
    change (Lexes ((if blank then [nl] else []) ++ "["%char :: (if is_FA fr then ["["%char] else [])
                     ++ fst (key_part (fr :: par)) ++ (if is_FA fr then ["]"%char] else []) ++ ["]"%char; nl])
                  ([] ++ own_hdr (fr :: par))).
    apply Lexes_app; [destruct blank; [apply Lexes_blank|apply Lexes_nil]|].
    rewrite key_part_spec. cbn [fst own_hdr]. destruct (is_FA fr); cbn [app].
    + apply Lexes_ahead, Hp.
    + apply Lexes_head, Hp.
Qed.

(* ------------------------------------------------------------------ *)
(* Nothing here depends on the table_emitted flags                     *)

Lemma anc_walk_set_te p : anc_walk (set_te p) = option_map set_te (anc_walk p).
Proof.
  induction p as [|[k f te|f t n] p IH]; cbn [set_te anc_walk option_map]; try reflexivity.
  destruct (negb f); [reflexivity|].
  destruct p as [|[k2 f2 te2|f2 t2 n2] p']; [reflexivity|exact IH|].
  destruct p' as [|[k3 f3 te3|f3 t3 n3] p'']; [exact IH|reflexivity|exact IH].
Qed.

Lemma anc_start_set_te st : anc_start (set_te st) = set_te (anc_start st).
Proof. destruct st as [|[k f te|[|] t n] p]; reflexivity. Qed.

Lemma set_te_length st : List.length (set_te st) = List.length st.
Proof. induction st as [|[k f te|f t n] st IH]; cbn; congruence. Qed.

Lemma own_hdr_set_te st : own_hdr (set_te st) = own_hdr st.
Proof.
  destruct st as [|fr par]; [reflexivity|].
  change (set_te (fr :: par)) with (set_te (fr :: par)).
  pose proof (spath_set_te (fr :: par)) as Hs.
  destruct fr as [k f te|f t n]; cbn [set_te own_hdr is_FA] in *; rewrite Hs; reflexivity.
Qed.

Lemma hitems_set_te : forall fuel st, hitems fuel (set_te st) = hitems fuel st.
Proof.
  induction fuel as [|fuel IH]; intros st; [reflexivity|].
  destruct st as [|fr par]; [reflexivity|].
  change (hitems (S fuel) (set_te (fr :: par)))
    with (match set_te (fr :: par) with
          | [] => []
          | _ :: _ => (match anc_walk (anc_start (set_te (fr :: par))) with Some a => hitems fuel a | None => [] end)
                        ++ own_hdr (set_te (fr :: par))
          end).
  assert (Hne : exists fr' par', set_te (fr :: par) = fr' :: par') by (destruct fr; cbn; eauto).
  destruct Hne as (fr' & par' & Ene). rewrite Ene, <- Ene.
  rewrite own_hdr_set_te, anc_start_set_te, anc_walk_set_te.
  cbn [hitems]. f_equal. destruct (anc_walk (anc_start (fr :: par))); cbn [option_map]; [apply IH|reflexivity].
Qed.

Lemma pre_items_set_te st : pre_items (set_te st) = pre_items st.
Proof.
  unfold pre_items. rewrite anc_start_set_te, anc_walk_set_te.
  destruct (anc_walk (anc_start st)); cbn [option_map]; [|reflexivity].
  rewrite set_te_length. apply hitems_set_te.
Qed.

Lemma hitems'_set_te st : hitems' (set_te st) = hitems' st.
Proof. unfold hitems'. rewrite set_te_length. apply hitems_set_te. Qed.

(* ------------------------------------------------------------------ *)
(* States in which headers are written                                 *)

(* every Array frame sits directly on a Table frame *)
Fixpoint hstack (st : stack) : bool :=
  match st with
  | [] => true
  | FT _ _ _ :: par => hstack par
  | FA _ _ _ :: par => match par with FT _ _ _ :: _ => hstack par | _ => false end
  end.

Lemma hstack_spath st : hstack st = true -> st <> [] -> spath st <> [].
Proof.
  destruct st as [|[k f te|f t n] par]; [congruence| |]; intros H _; cbn [spath].
  - destruct (spath par); discriminate.
  - cbn [hstack] in H. destruct par as [|[k f2 te|? ? ?] par']; try discriminate.
    cbn [spath]. destruct (spath par'); discriminate.
Qed.

Lemma hstack_set_te st : hstack (set_te st) = hstack st.
Proof.
  induction st as [|[k f te|f t n] st IH]; cbn [set_te hstack]; [reflexivity|exact IH|].
  destruct st as [|[k2 f2 te2|f2 t2 n2] st']; cbn [set_te] in *; [reflexivity|exact IH|reflexivity].
Qed.

(* what is pending when the first thing written in a table is a sub-table or an array of tables *)
Definition pend_sub (par : stack) : list item :=
  match par with
  | FA _ _ _ :: FT _ _ _ :: _ => hitems' par
  | _ => match anc_walk par with Some a => hitems (List.length a) a | None => [] end
  end.

Lemma pre_items_entry k first te par :
  pre_items (FT k first te :: par) = if first then pend_sub par else [].
Proof.
  unfold pre_items. cbn [anc_start anc_walk]. destruct first; cbn [negb]; [|reflexivity].
  unfold pend_sub, hitems'.
  destruct par as [|[k2 f2 te2|f2 t2 n2] p']; [reflexivity|reflexivity|].
  destruct p' as [|[k3 f3 te3|f3 t3 n3] p'']; reflexivity.
Qed.


Lemma pend_sub_set_te par : pend_sub (set_te par) = pend_sub par.
Proof.
  destruct par as [|[k f te|f t n] p']; [reflexivity| |].
  - unfold pend_sub. cbn [set_te].
    change (FT k f true :: set_te p') with (set_te (FT k f te :: p')).
    rewrite anc_walk_set_te.
    destruct (anc_walk (FT k f te :: p')); cbn [option_map]; [|reflexivity].
    rewrite set_te_length. apply hitems_set_te.
  - destruct p' as [|[k3 f3 te3|f3 t3 n3] p'']; try reflexivity.
    unfold pend_sub. cbn [set_te].
    change (FA f t n :: FT k3 f3 true :: set_te p'') with (set_te (FA f t n :: FT k3 f3 te3 :: p'')).
    apply hitems'_set_te.
Qed.

(* ------------------------------------------------------------------ *)
(* The serializer on a table, with its own state made explicit         *)

Definition tab_body (kvs : list (bytes * tval)) (st0 : stack) : tres (bytes * stack) :=
  match tab_pass ser pass1 kvs true false st0 with
  | TErr e => TErr e
  | TOk (o1, (f1, te1, par1)) =>
    match tab_pass ser pass2 kvs f1 te1 par1 with
    | TErr e => TErr e
    | TOk (o2, (f2, te2, par2)) =>
      match tab_pass ser pass3 kvs f2 te2 par2 with
      | TErr e => TErr e
      | TOk (o3, (f3, _, par3)) =>
        if f3 then let (o4, par4) := emit_table_header par3 in TOk (o1 ++ o2 ++ o3 ++ o4, par4)
        else TOk (o1 ++ o2 ++ o3, par3)
      end
    end
  end.

Lemma ser_tab kvs st : ser (TTab kvs) st = tab_body kvs (array_type AAsTable st).
Proof. reflexivity. Qed.

Lemma ser_ok_post x st o st' : all_typed (tl st) = true -> ser x st = TOk (o, st') ->
  st' = post x st /\ fails x st = false.
Proof.
  intros Ht H. pose proof (ser_spec x st Ht) as S. destruct (fails x st).
  - rewrite S in H. discriminate.
  - destruct S as [o' E]. rewrite E in H. inversion H. auto.
Qed.

Lemma has_tab_flc x : has_tab x = false -> first_leaf_checks x = true.
Proof.
  intros H. destruct (first_leaf_checks x) eqn:E; [reflexivity|].
  rewrite (flc_false_has_tab x E) in H. discriminate.
Qed.

(* an entry of a table: what the reader sees *)
Definition pendE (x : tval) (k : bytes) (first te : bool) (par : stack) : list item :=
  if has_tab x then pre_items (FT k first te :: par) else if first then hitems' par else [].

Definition EntLex (x : tval) : Prop :=
  forall k first te par o st',
    hstack par = true -> all_typed par = true ->
    ser x (FT k first te :: par) = TOk (o, st') ->
    Lexes o (pendE x k first te par ++ flat (spath par) k x).

Definition begin_items (st0 : stack) (es : list (bytes * tval)) : list item :=
  match st0 with
  | [] => []
  | FA _ _ _ :: _ => pre_items st0 ++ own_hdr st0
  | FT _ _ _ :: _ => pre_items st0 ++ (if has_simple es || is_nil es then own_hdr st0 else [])
  end.

Definition TabLex (es : list (bytes * tval)) : Prop :=
  forall st0 o c, hstack st0 = true -> all_typed st0 = true ->
    tab_body es st0 = TOk (o, c) ->
    Lexes o (begin_items st0 es ++ body_with (flat (spath st0)) es).

Lemma Lexes_table_header st : hstack st = true -> Lexes (header_out (List.length st) st) (hitems' st).
Proof.
  intros H. destruct st as [|fr par]; [apply Lexes_nil|].
  apply Lexes_header, hstack_spath; [exact H|discriminate].
Qed.

Definition near (par st0 : stack) : Prop := par = st0 \/ par = set_te st0.

Lemma near_refl st : near st st.
Proof. left. reflexivity. Qed.

Lemma near_step par st0 par' : near par st0 -> near par' par -> near par' st0.
Proof.
  intros [->| ->] [->| ->]; unfold near; auto. right. apply set_te_idem.
Qed.

Lemma near_facts par st0 : near par st0 ->
  spath par = spath st0 /\ hitems' par = hitems' st0 /\ pend_sub par = pend_sub st0
  /\ hstack par = hstack st0 /\ all_typed par = all_typed st0.
Proof.
  intros [->| ->]; [repeat split|].
  rewrite spath_set_te, hitems'_set_te, pend_sub_set_te, hstack_set_te, all_typed_set_te. repeat split.
Qed.

(* one of the three loops *)
Lemma pass_lex (p : tval -> bool) (tabflag : bool) es :
  Forall (fun kv => p (snd kv) = true -> EntLex (snd kv) /\ has_tab (snd kv) = tabflag) es ->
  forall first te par o first' te' par',
    hstack par = true -> all_typed par = true ->
    tab_pass ser p es first te par = TOk (o, (first', te', par')) ->
    Lexes o ((if first && existsb (fun kv => p (snd kv)) es
              then (if tabflag then pend_sub par else hitems' par) else [])
             ++ sub_items (flat (spath par)) p es)
    /\ near par' par
    /\ first' = first && negb (existsb (fun kv => p (snd kv)) es).
Proof.
  induction 1 as [|[k x] es Hx _ IH]; intros first te par o first' te' par' Hh Ht H.
  - cbn [tab_pass] in H. inversion H; subst. cbn [existsb sub_items flat_map]. rewrite andb_false_r. cbn [app negb].
    rewrite andb_true_r. split; [apply Lexes_nil|]. split; [apply near_refl|reflexivity].
  - cbn [tab_pass] in H. cbn [snd] in Hx. unfold sub_items. cbn [existsb flat_map fst snd].
    destruct (p x) eqn:Ep.
    + destruct (Hx eq_refl) as [Ex Etab].
      destruct (ser x (FT k first te :: par)) as [[o1 st1]|e] eqn:Es; [|discriminate H].
      destruct (ser_ok_post x (FT k first te :: par) o1 st1 Ht Es) as [Epost _].
      rewrite post_FT in Epost. subst st1.
      set (par1 := (if has_tab x then set_te else fun s => s) (if first_leaf_checks x && first then set_te par else par)) in *.
      assert (Hn1 : near par1 par).
      { unfold par1, near. destruct (has_tab x), (first_leaf_checks x && first); rewrite ?set_te_idem; auto. }
      destruct (near_facts par1 par Hn1) as (Esp & Ehi & Eps & Ehs & Ety).
      destruct (tab_pass ser p es false (te || has_tab x) par1) as [[o2 [[f2 te2] par2]]|e] eqn:E2; [|discriminate H].
      inversion H; subst o first' te' par'. clear H.
      destruct (IH false (te || has_tab x) par1 o2 f2 te2 par2 ltac:(congruence) ltac:(congruence) E2) as (L2 & Hn2 & Ef2).
      cbn [andb] in L2. cbn [app] in L2. rewrite Esp in L2.
      specialize (Ex k first te par o1 _ Hh Ht Es).
      cbn [orb andb]. rewrite andb_true_r. split; [|split].
      * replace ((if first then if tabflag then pend_sub par else hitems' par else [])
                   ++ flat (spath par) k x ++ flat_map (fun kv => if p (snd kv) then flat (spath par) (fst kv) (snd kv) else []) es)
          with ((pendE x k first te par ++ flat (spath par) k x) ++ sub_items (flat (spath par)) p es).
        { apply Lexes_app; assumption. }
        unfold pendE. rewrite Etab, pre_items_entry, <- app_assoc. destruct tabflag; reflexivity.
      * eapply near_step; eassumption.
      * rewrite Ef2. cbn [andb negb]. rewrite andb_false_r. reflexivity.
    + cbn [orb app]. apply (IH first te par o first' te' par' Hh Ht H).
Qed.

(* ------------------------------------------------------------------ *)
(* Inline entries                                                      *)

Lemma flat_inline x p k : has_tab x = false -> flat p k x = [IKV k (tdoc_of x)].
Proof.
  destruct x as [s|z|f|b0|l|es]; try reflexivity; [|discriminate].
  cbn [has_tab flat]. intros H. destruct (existsb is_table l) eqn:E; [|reflexivity].
  rewrite (is_table_has_tab_list l E) in H. discriminate.
Qed.

Lemma pass1_good_inline x : pass1 x = true -> good x = true -> has_tab x = false.
Proof.
  destruct x as [s|z|f|b0|l|es]; try reflexivity; [|discriminate].
  cbn [pass1 good has_tab]. intros Hp Hg. apply negb_true_iff in Hp.
  destruct (existsb has_tab l) eqn:Eh; [|reflexivity]. cbn [negb orb] in Hg.
  apply andb_true_iff in Hg as [Hall _].
  destruct l as [|y l]; [discriminate Eh|]. cbn [existsb forallb] in Hp, Hall.
  apply andb_true_iff in Hall as [Hy _]. rewrite Hy in Hp. discriminate.
Qed.

Lemma sub_items_pass1 q es :
  Forall (fun kv => pass1 (snd kv) = true -> has_tab (snd kv) = false) es ->
  sub_items (flat q) pass1 es = kv_items es.
Proof.
  induction 1 as [|[k x] es Hx _ IH]; [reflexivity|].
  unfold sub_items, kv_items in *. cbn [flat_map fst snd]. cbn [snd] in Hx.
  destruct (pass1 x) eqn:Ep; [|exact IH]. rewrite (flat_inline x q k (Hx eq_refl)), IH. reflexivity.
Qed.

Lemma ent_lex_inline x : has_tab x = false -> tval_wf x = true -> EntLex x.
Proof.
  intros Hh Hw k first te par o st' Hhs Hty Hs.
  destruct (ser_ok_post x (FT k first te :: par) o st' Hty Hs) as [_ Hf].
  unfold fails in Hf. apply orb_false_iff in Hf as [_ Hf]. rewrite (has_tab_flc x Hh) in Hf. cbn [andb] in Hf.
  assert (Ek : array_type (kind x) (FT k first te :: par) = FT k first te :: par) by reflexivity.
  rewrite Ek in Hf.
  pose proof (ser_inline x Hh (FT k first te :: par) Hty Hf) as E. rewrite E in Hs. inversion Hs; subst o st'. clear Hs.
  cbn [array_type ekey_out nl_if_table]. unfold pendE. rewrite Hh, (flat_inline x _ k Hh).
  rewrite <- !app_assoc. apply Lexes_app.
  - destruct first; [apply Lexes_table_header, Hhs|apply Lexes_nil].
  - apply Lexes_kv; assumption.
Qed.

(* ------------------------------------------------------------------ *)
(* Tables                                                              *)

Lemma existsb_pass_nil es :
  existsb (fun kv : bytes * tval => pass1 (snd kv)) es = false ->
  existsb (fun kv : bytes * tval => pass2 (snd kv)) es = false ->
  existsb (fun kv : bytes * tval => pass3 (snd kv)) es = false -> es = [].
Proof.
  destruct es as [|[k x] es]; [reflexivity|]. cbn [existsb snd]. intros H1 H2 H3.
  apply orb_false_iff in H1 as [H1 _]. apply orb_false_iff in H2 as [H2 _]. apply orb_false_iff in H3 as [H3 _].
  destruct (pass_exclusive x) as (_ & _ & H). rewrite H1, H2, H3 in H. discriminate.
Qed.

Lemma sub_items_none f p es : existsb (fun kv : bytes * tval => p (snd kv)) es = false -> sub_items f p es = [].
Proof.
  induction es as [|[k x] es IH]; [reflexivity|]. unfold sub_items in *. cbn [existsb flat_map snd fst].
  intros H. apply orb_false_iff in H as [H1 H2]. rewrite H1. cbn [app]. apply IH, H2.
Qed.

Lemma kv_items_none es : has_simple es = false -> kv_items es = [].
Proof.
  unfold has_simple, kv_items. induction es as [|[k x] es IH]; [reflexivity|]. cbn [existsb flat_map snd fst].
  intros H. apply orb_false_iff in H as [H1 H2]. rewrite H1. cbn [app]. apply IH, H2.
Qed.

Lemma begin_items_simple st0 es : hstack st0 = true -> has_simple es || is_nil es = true ->
  begin_items st0 es = hitems' st0.
Proof.
  intros Hh Hs. destruct st0 as [|[k f te|f t n] par]; [reflexivity| |].
  - rewrite hitems_unfold by discriminate. cbn [begin_items]. rewrite Hs. reflexivity.
  - rewrite hitems_unfold by discriminate. reflexivity.
Qed.

Lemma begin_items_sub st0 es : hstack st0 = true -> has_simple es || is_nil es = false ->
  begin_items st0 es = pend_sub st0.
Proof.
  intros Hh Hs. destruct st0 as [|[k f te|f t n] par]; [reflexivity| |].
  - cbn [begin_items]. rewrite Hs, app_nil_r. unfold pre_items, pend_sub. cbn [anc_start]. reflexivity.
  - cbn [hstack] in Hh. destruct par as [|[k2 f2 te2|f2 t2 n2] par']; try discriminate.
    cbn [begin_items pend_sub]. rewrite hitems_unfold by discriminate. reflexivity.
Qed.

Lemma Lexes4 o1 o2 o3 o4 i1 i2 i3 i4 i :
  Lexes o1 i1 -> Lexes o2 i2 -> Lexes o3 i3 -> Lexes o4 i4 -> i = i1 ++ i2 ++ i3 ++ i4 ->
  Lexes (o1 ++ o2 ++ o3 ++ o4) i.
Proof. intros A B C D ->. repeat apply Lexes_app; assumption. Qed.

Lemma tab_lex es :
  Forall (fun kv => EntLex (snd kv) /\ good (snd kv) = true) es -> TabLex es.
Proof.
  intros Hall st0 o c Hh Ht H. unfold tab_body in H.
  assert (H1 : Forall (fun kv => pass1 (snd kv) = true -> EntLex (snd kv) /\ has_tab (snd kv) = false) es).
  { eapply Forall_impl; [|exact Hall]. intros [k x] [A B] Hp. split; [exact A|apply pass1_good_inline; assumption]. }
  assert (H2 : Forall (fun kv => pass2 (snd kv) = true -> EntLex (snd kv) /\ has_tab (snd kv) = true) es).
  { eapply Forall_impl; [|exact Hall]. intros [k x] [A B] Hp. split; [exact A|apply has_tab_of_pass2, Hp]. }
  assert (H3 : Forall (fun kv => pass3 (snd kv) = true -> EntLex (snd kv) /\ has_tab (snd kv) = true) es).
  { eapply Forall_impl; [|exact Hall]. intros [k x] [A B] Hp. split; [exact A|apply has_tab_of_table, Hp]. }
  assert (Hinl : Forall (fun kv => pass1 (snd kv) = true -> has_tab (snd kv) = false) es).
  { eapply Forall_impl; [|exact Hall]. intros [k x] [A B] Hp. apply pass1_good_inline; assumption. }
  destruct (tab_pass ser pass1 es true false st0) as [[o1 [[f1 te1] par1]]|e] eqn:E1; [|discriminate H].
  destruct (pass_lex pass1 false es H1 true false st0 o1 f1 te1 par1 Hh Ht E1) as (L1 & N1 & F1).
  destruct (near_facts par1 st0 N1) as (Esp1 & Ehi1 & Eps1 & Ehs1 & Ety1).
  destruct (tab_pass ser pass2 es f1 te1 par1) as [[o2 [[f2 te2] par2]]|e] eqn:E2; [|discriminate H].
  destruct (pass_lex pass2 true es H2 f1 te1 par1 o2 f2 te2 par2 ltac:(congruence) ltac:(congruence) E2) as (L2 & N2 & F2).
  pose proof (near_step par1 st0 par2 N1 N2) as N2'.
  destruct (near_facts par2 st0 N2') as (Esp2 & Ehi2 & Eps2 & Ehs2 & Ety2).
  destruct (tab_pass ser pass3 es f2 te2 par2) as [[o3 [[f3 te3] par3]]|e] eqn:E3; [|discriminate H].
  destruct (pass_lex pass3 true es H3 f2 te2 par2 o3 f3 te3 par3 ltac:(congruence) ltac:(congruence) E3) as (L3 & N3 & F3).
  pose proof (near_step par2 st0 par3 N2' N3) as N3'.
  destruct (near_facts par3 st0 N3') as (Esp3 & Ehi3 & Eps3 & Ehs3 & Ety3).
  rewrite Esp1, Eps1 in L2. rewrite Esp2, Eps2 in L3.
  rewrite (sub_items_pass1 _ es Hinl) in L1.
  fold (has_simple es) in L1, F1. cbn [andb] in L1, F1.
  unfold body_with.
  (* the end of the table *)
  assert (L4 : exists o4, o = o1 ++ o2 ++ o3 ++ o4 /\ Lexes o4 (if f3 then hitems' st0 else [])).
  { destruct f3.
    - unfold emit_table_header in H. inversion H. exists (header_out (List.length par3) par3). split; [reflexivity|].
      rewrite <- Ehi3. apply Lexes_table_header. congruence.
    - inversion H. exists []. rewrite app_nil_r. split; [reflexivity|apply Lexes_nil]. }
  destruct L4 as (o4 & -> & L4).
  destruct (has_simple es) eqn:Es.
  - (* key/value lines first: the header comes with the first of them *)
    subst f1. cbn [negb andb] in *. subst f2. cbn [andb] in *. subst f3. cbn [app] in *.
    rewrite (begin_items_simple st0 es Hh ltac:(rewrite Es; reflexivity)).
    eapply Lexes4; [exact L1|exact L2|exact L3|exact L4|].
    rewrite app_nil_r, <- !app_assoc. reflexivity.
  - subst f1. cbn [negb andb] in *. rewrite (kv_items_none es Es) in *. cbn [app] in L1 |- *.
    destruct (existsb (fun kv => pass2 (snd kv)) es) eqn:Ex2.
    + (* the first thing written is an array of tables *)
      subst f2. cbn [negb andb] in *. subst f3. cbn [app] in *.
      assert (Hnil : is_nil es = false) by (destruct es; [discriminate Ex2|reflexivity]).
      rewrite (begin_items_sub st0 es Hh ltac:(rewrite Es, Hnil; reflexivity)).
      eapply Lexes4; [exact L1|exact L2|exact L3|exact L4|].
      cbn [app]. rewrite app_nil_r, <- !app_assoc. reflexivity.
    + subst f2. cbn [negb andb] in *. rewrite (sub_items_none _ pass2 es Ex2) in *. cbn [app] in L2 |- *.
      destruct (existsb (fun kv => pass3 (snd kv)) es) eqn:Ex3.
      * (* ... a sub-table *)
        subst f3. cbn [app] in *.
        assert (Hnil : is_nil es = false) by (destruct es; [discriminate Ex3|reflexivity]).
        rewrite (begin_items_sub st0 es Hh ltac:(rewrite Es, Hnil; reflexivity)).
        eapply Lexes4; [exact L1|exact L2|exact L3|exact L4|].
        cbn [app]. rewrite app_nil_r. reflexivity.
      * (* an empty table: only its header *)
        subst f3. cbn [negb andb] in *. rewrite (sub_items_none _ pass3 es Ex3) in *. cbn [app] in L3 |- *.
        assert (Enil : es = []) by (apply existsb_pass_nil; assumption). subst es.
        rewrite (begin_items_simple st0 [] Hh eq_refl). rewrite app_nil_r.
        eapply Lexes4; [exact L1|exact L2|exact L3|exact L4|]. reflexivity.
Qed.

(* ------------------------------------------------------------------ *)
(* Arrays of tables                                                    *)

Definition pre_elem (S : stack) : list item :=
  match anc_walk S with Some a => hitems (List.length a) a | None => [] end.

Lemma pre_items_elem f t n S : pre_items (FA f t n :: S) = if f then pre_elem S else [].
Proof. unfold pre_items, pre_elem. destruct f; reflexivity. Qed.

Lemma pre_elem_set_te S : pre_elem (set_te S) = pre_elem S.
Proof.
  unfold pre_elem. rewrite anc_walk_set_te. destruct (anc_walk S); cbn [option_map]; [|reflexivity].
  rewrite set_te_length. apply hitems_set_te.
Qed.

Definition elem_items (q : list bytes) (x : tval) : list item :=
  match x with
  | TTab es => IAHead q :: body_with (flat q) es
  | _ => []
  end.

Lemma elems_lex len l :
  Forall (fun x => exists es, x = TTab es /\ TabLex es) l ->
  forall first ty S o ty' S',
    hstack (FA first ty len :: S) = true -> all_typed S = true ->
    seq_elems ser len l first ty S = TOk (o, (ty', S')) ->
    Lexes o ((if first && negb (is_nil l) then pre_elem S else []) ++ flat_map (elem_items (spath S)) l)
    /\ ty' = match ty with Some t => Some t | None => if is_nil l then None else Some AAsTable end.
Proof.
  induction 1 as [|x l (es & -> & Hx) _ IH]; intros first ty S o ty' S' Hh Ht H.
  - cbn [seq_elems] in H. inversion H; subst. cbn [is_nil negb flat_map]. rewrite andb_false_r.
    split; [apply Lexes_nil|destruct ty'; reflexivity].
  - cbn [seq_elems] in H.
    destruct (ser (TTab es) (FA first ty len :: S)) as [[o1 st1]|e] eqn:Es; [|discriminate H].
    destruct (ser_ok_post _ (FA first ty len :: S) o1 st1 Ht Es) as [Epost _].
    destruct (post_FA (TTab es) first ty len S) as (ty1 & S1 & Ep & ES1 & Ety1).
    rewrite Ep in Epost. subst st1.
    cbn [has_tab first_leaf_checks andb] in ES1.
    assert (HS1 : S1 = set_te S) by exact ES1. clear ES1.
    destruct (seq_elems ser len l false ty1 S1) as [[o2 [ty2 S2]]|e] eqn:E2; [|discriminate H].
    inversion H; subst o ty' S'. clear H.
    assert (Hh1 : hstack (FA false ty1 len :: S1) = true).
    { subst S1. cbn [hstack] in *. destruct S as [|[k f te|f t n] S0]; try discriminate Hh. cbn [set_te]. 
      change (FT k f true :: set_te S0) with (set_te (FT k f te :: S0)). rewrite hstack_set_te. exact Hh. }
    destruct (IH false ty1 S1 o2 ty2 S2 Hh1 ltac:(subst S1; rewrite all_typed_set_te; exact Ht) E2) as (L2 & T2).
    cbn [andb app] in L2.
    (* the element itself *)
    rewrite ser_tab in Es.
    set (s0 := array_type AAsTable (FA first ty len :: S)) in *.
    assert (Es0 : s0 = FA first ty1 len :: S).
    { unfold s0. subst ty1. destruct ty; reflexivity. }
    assert (Hh0 : hstack s0 = true) by (rewrite Es0; exact Hh).
    assert (Ht0 : all_typed s0 = true).
    { rewrite Es0. cbn [forallb frame_typed]. subst ty1. destruct ty; exact Ht. }
    pose proof (Hx s0 o1 _ Hh0 Ht0 Es) as L1.
    rewrite Es0 in L1. cbn [begin_items own_hdr is_FA spath] in L1. rewrite pre_items_elem in L1.
    cbn [is_nil negb flat_map elem_items]. rewrite andb_true_r.
    split.
    + replace ((if first then pre_elem S else []) ++ (IAHead (spath S) :: body_with (flat (spath S)) es) ++ flat_map (elem_items (spath S)) l)
        with (((if first then pre_elem S else []) ++ [IAHead (spath S)] ++ body_with (flat (spath S)) es) ++ flat_map (elem_items (spath S1)) l).
      { apply Lexes_app; [|exact L2]. rewrite app_assoc. exact L1. }
      subst S1. rewrite spath_set_te, <- !app_assoc. reflexivity.
    + rewrite T2. subst ty1. cbn [kind]. destruct ty; reflexivity.
Qed.

(* ------------------------------------------------------------------ *)
(* Every well-formed value                                             *)

Definition LexP (x : tval) : Prop :=
  good x = true -> tval_wf x = true ->
  EntLex x /\ match x with TTab es => TabLex es | _ => True end.

Lemma ent_lex_table es : TabLex es -> EntLex (TTab es).
Proof.
  intros HT k first te par o st' Hh Ht Hs. rewrite ser_tab in Hs. cbn [array_type] in Hs.
  pose proof (HT (FT k first te :: par) o st' Hh Ht Hs) as L.
  unfold pendE. cbn [has_tab flat]. cbn [begin_items own_hdr is_FA spath] in L.
  rewrite <- app_assoc in L. exact L.
Qed.

Lemma ent_lex_aot l :
  existsb is_table l = true ->
  Forall (fun x => exists es, x = TTab es /\ TabLex es) l ->
  EntLex (TArr l).
Proof.
  intros Et Hall k first te par o st' Hh Ht Hs.
  cbn [ser] in Hs. cbn [array_type] in Hs.
  set (S0 := FT k first te :: par) in *.
  destruct (seq_elems ser (List.length l) l true None S0) as [[o1 [ty S1]]|e] eqn:E1; [|discriminate Hs].
  destruct (elems_lex (List.length l) l Hall true None S0 o1 ty S1 Hh Ht E1) as (L1 & Ety).
  assert (Hne : is_nil l = false) by (destruct l; [discriminate Et|reflexivity]).
  rewrite Hne in Ety, L1. subst ty. cbn [seq_end] in Hs. inversion Hs; subst o st'. clear Hs.
  rewrite app_nil_r. cbn [andb negb] in L1.
  unfold pendE. cbn [has_tab]. rewrite (is_table_has_tab_list l Et).
  cbn [flat]. rewrite Et.
  replace (pre_items S0) with (pre_elem S0) by reflexivity.
  assert (Eq : flat_map (elem_items (spath S0)) l
               = flat_map (fun x => match x with
                                    | TTab es => IAHead (spath par ++ [k]) :: body_with (flat (spath par ++ [k])) es
                                    | _ => []
                                    end) l) by reflexivity.
  rewrite <- Eq. exact L1.
Qed.

Theorem lex_all : forall x, LexP x.
Proof.
  induction x as [s|z|f|b0|l IH|es IH] using tval_ind'; intros Hg Hw.
  1-4: split; [apply ent_lex_inline; [reflexivity|exact Hw]|exact I].
  - split; [|exact I].
    destruct (has_tab (TArr l)) eqn:Eh; [|apply ent_lex_inline; assumption].
    cbn [good has_tab] in Hg, Eh. rewrite Eh in Hg. cbn [negb orb] in Hg.
    apply andb_true_iff in Hg as [Hall Hgood]. cbn [tval_wf] in Hw.
    assert (Et : existsb is_table l = true).
    { destruct l as [|y l']; [discriminate Eh|]. cbn [forallb existsb] in *. apply andb_true_iff in Hall as [Hy _]. rewrite Hy. reflexivity. }
    apply ent_lex_aot; [exact Et|].
    apply Forall_forall. intros x Hx. rewrite Forall_forall in IH. rewrite forallb_forall in Hall, Hgood, Hw.
    specialize (Hall x Hx). destruct x as [| | | | |es]; try discriminate Hall.
    exists es. split; [reflexivity|]. apply (IH _ Hx (Hgood _ Hx) (Hw _ Hx)).
  - cbn [good tval_wf] in Hg, Hw.
    assert (HT : TabLex es).
    { apply tab_lex. apply Forall_forall. intros [k x] Hin. rewrite Forall_forall in IH. rewrite forallb_forall in Hg, Hw.
      cbn [snd]. split; [apply (IH _ Hin (Hg _ Hin) (Hw _ Hin))|apply (Hg _ Hin)]. }
    split; [apply ent_lex_table, HT|exact HT].
Qed.

(* the reader's line loop on the writer's text for a well-formed root table *)
Theorem lex_root es out :
  good (TTab es) = true -> tval_wf (TTab es) = true ->
  ser_root (TTab es) = TOk out ->
  doc_items (S (List.length out)) out [] = Some (flat_root es).
Proof.
  intros Hg Hw H. destruct (lex_all (TTab es) Hg Hw) as [_ HT].
  unfold ser_root in H. rewrite ser_tab in H. cbn [array_type] in H.
  destruct (tab_body es []) as [[o c]|e] eqn:E; [|discriminate H]. inversion H; subst o. clear H.
  pose proof (HT [] out c eq_refl eq_refl E) as L. cbn [begin_items spath app] in L.
  destruct (L [] [] (S (List.length out)) ltac:(rewrite app_nil_r; lia)) as (f' & Hf' & El).
  rewrite app_nil_r in El. rewrite El. destruct f' as [|f']; [cbn in Hf'; lia|].
  cbn [doc_items skip_ws]. rewrite app_nil_r, rev'_spec, rev_involutive. reflexivity.
Qed.
