(* Proofs about the TOML model: exactly which values are conversion errors.
   - to_toml fails exactly on a NULL / constraint value anywhere (first one in traversal order decides the kind);
   - the root must be a table;
   - the serializer (ser.rs) fails exactly when, in some table, an entry that starts by writing
     `key = ...` is visited after an entry that made the serializer write a [header]
     (Error::ValueAfterTable).  With value.rs' three-loop visiting order this can only happen
     when a table sits inside an array that is not an array of tables.
   No assert!/unreachable! of ser.rs can fire (EPanic is never returned). *)
From Ucg Require Import base.Bytes base.Bytes_Lemmas data.Val data.Json data.MapJson data.MapJson_Lemmas data.Toml.
Local Open Scope list_scope.

(* ------------------------------------------------------------------ *)
(* Induction principle for [tval]                                      *)

Section TvalInd.
  Variable P : tval -> Prop.
  Hypothesis Hstr : forall s, P (TStr s).
  Hypothesis Hint : forall z, P (TInt z).
  Hypothesis Hfloat : forall f, P (TFloat f).
  Hypothesis Hbool : forall v, P (TBool v).
  Hypothesis Harr : forall l, Forall P l -> P (TArr l).
  Hypothesis Htab : forall kvs, Forall (fun kv => P (snd kv)) kvs -> P (TTab kvs).

  Fixpoint tval_ind' (v : tval) : P v :=
    match v with
    | TStr s => Hstr s
    | TInt z => Hint z
    | TFloat f => Hfloat f
    | TBool x => Hbool x
    | TArr l =>
      Harr l ((fix go (l : list tval) : Forall P l :=
                 match l with
                 | [] => Forall_nil _
                 | x :: xs => Forall_cons x (tval_ind' x) (go xs)
                 end) l)
    | TTab kvs =>
      Htab kvs ((fix go (l : list (bytes * tval)) : Forall (fun kv => P (snd kv)) l :=
                   match l with
                   | [] => Forall_nil _
                   | (k, x) :: r => Forall_cons (k, x) (tval_ind' x) (go r)
                   end) kvs)
    end.
End TvalInd.

(* ------------------------------------------------------------------ *)
(* The predicate                                                       *)

(* the first thing written for v is a `key = ` (or, inside an array whose first item it is,
   the opening of that array after the key): _emit_key reaches the enclosing Table state *)
Fixpoint first_leaf_checks (v : tval) : bool :=
  match v with
  | TTab _ => false
  | TArr [] => true
  | TArr (x :: _) => first_leaf_checks x
  | _ => true
  end.

(* v makes the serializer write at least one [header] / [[header]] *)
Fixpoint has_tab (v : tval) : bool :=
  match v with
  | TTab _ => true
  | TArr l => existsb has_tab l
  | _ => false
  end.

Section Scan.
  Variable err : tval -> bool.
  (* one of the three loops over a table; te = a header was written below this table *)
  Fixpoint scan_pass (p : tval -> bool) (l : list (bytes * tval)) (te : bool) : bool * bool :=
    match l with
    | [] => (false, te)
    | (k, x) :: r =>
      if p x then
        if err x || (first_leaf_checks x && te) then (true, te)
        else scan_pass p r (te || has_tab x)
      else scan_pass p r te
    end.
End Scan.

(* ser.rs returns Err(ValueAfterTable) somewhere inside v *)
Fixpoint va_err (v : tval) : bool :=
  match v with
  | TArr l => existsb va_err l
  | TTab es =>
    let (e1, t1) := scan_pass va_err pass1 es false in
    if e1 then true else
    let (e2, t2) := scan_pass va_err pass2 es t1 in
    if e2 then true else
    fst (scan_pass va_err pass3 es t2)
  | _ => false
  end.

(* NULL or a constraint value anywhere, also under a shadowed duplicate key *)
Fixpoint unrep_val (v : val) : bool :=
  match v with
  | VEmpty => true
  | VConstraint => true
  | VList l => existsb unrep_val l
  | VTuple fs => existsb (fun kv => unrep_val (snd kv)) fs
  | _ => false
  end.

Definition is_root_ok (v : val) : bool :=
  match v with VTuple _ | VEnv _ => true | _ => false end.

(* the values `out toml` / `convert toml` refuse *)
Definition unrepresentable_toml (v : val) : bool :=
  unrep_val v                                   (* ENull / EConstraint (toml.rs convert_value)   *)
  || negb (is_root_ok v)                        (* ENotTable (toml.rs write)                     *)
  || match to_toml v with                       (* EValueAfterTable (ser.rs _emit_key)           *)
     | TOk t => va_err t
     | TErr _ => false
     end.

(* ------------------------------------------------------------------ *)
(* to_toml                                                             *)

Section ValInd.
  Variable P : val -> Prop.
  Hypothesis Hempty : P VEmpty.
  Hypothesis Hbool : forall v, P (VBool v).
  Hypothesis Hint : forall z, P (VInt z).
  Hypothesis Hfloat : forall f, P (VFloat f).
  Hypothesis Hstr : forall s, P (VStr s).
  Hypothesis Hlist : forall l, Forall P l -> P (VList l).
  Hypothesis Htuple : forall fs, Forall (fun kv => P (snd kv)) fs -> P (VTuple fs).
  Hypothesis Henv : forall fs, P (VEnv fs).
  Hypothesis Hconstraint : P VConstraint.
  Definition val_ind2 : forall v, P v :=
    MapJson_Lemmas.val_ind' P Hempty Hbool Hint Hfloat Hstr Hlist Htuple Henv Hconstraint.
End ValInd.

Fixpoint to_toml_list (l : list val) : tres (list tval) :=
    match l with
    | [] => TOk []
    | x :: xs =>
      match to_toml x with
      | TErr e => TErr e
      | TOk y => match to_toml_list xs with TErr e => TErr e | TOk ys => TOk (y :: ys) end
      end
    end.

Fixpoint to_toml_fields (l : list (bytes * val)) : tres (list (bytes * tval)) :=
    match l with
    | [] => TOk []
    | (k, x) :: r =>
      match to_toml x with
      | TErr e => TErr e
      | TOk y => match to_toml_fields r with TErr e => TErr e | TOk ys => TOk ((k, y) :: ys) end
      end
    end.

Lemma to_toml_VList l :
  to_toml (VList l) = match to_toml_list l with TErr e => TErr e | TOk ys => TOk (TArr ys) end.
Proof. reflexivity. Qed.

Lemma to_toml_VTuple fs :
  to_toml (VTuple fs) = match to_toml_fields fs with TErr e => TErr e | TOk kvs => TOk (TTab (map_first kvs)) end.
Proof. reflexivity. Qed.

Definition is_terr {A} (r : tres A) : bool := match r with TErr _ => true | TOk _ => false end.

Theorem to_toml_err_iff : forall v, is_terr (to_toml v) = unrep_val v.
Proof.
  induction v as [|x|z|f|s|l IH|fs IH|fs|] using val_ind2; try reflexivity.
  - rewrite to_toml_VList. cbn [unrep_val].
    induction IH as [|x l Hx _ IHl]; [reflexivity|].
    cbn [to_toml_list existsb]. rewrite <- Hx.
    destruct (to_toml x); [|reflexivity]. cbn [is_terr orb].
    rewrite <- IHl. destruct (to_toml_list l); reflexivity.
  - rewrite to_toml_VTuple. cbn [unrep_val].
    induction IH as [|[k x] l Hx _ IHl]; [reflexivity|].
    cbn [to_toml_fields existsb snd]. cbn [snd] in Hx. rewrite <- Hx.
    destruct (to_toml x); [|reflexivity]. cbn [is_terr orb].
    rewrite <- IHl. destruct (to_toml_fields l); reflexivity.
Qed.

(* the kind of the error is ENull or EConstraint *)
Theorem to_toml_err_kind : forall v e, to_toml v = TErr e -> e = ENull \/ e = EConstraint.
Proof.
  induction v as [|x|z|f|s|l IH|fs IH|fs|] using val_ind2; intros e H; try discriminate H.
  - inversion H. auto.
  - rewrite to_toml_VList in H.
    induction IH as [|x l Hx _ IHl]; [discriminate H|].
    cbn [to_toml_list] in H. destruct (to_toml x) eqn:Ex.
    + destruct (to_toml_list l) eqn:El; [discriminate H|]. apply IHl. exact H.
    + inversion H; subst. eapply Hx; reflexivity.
  - rewrite to_toml_VTuple in H.
    induction IH as [|[k x] l Hx _ IHl]; [discriminate H|].
    cbn [to_toml_fields] in H. cbn [snd] in Hx. destruct (to_toml x) eqn:Ex.
    + destruct (to_toml_fields l) eqn:El; [discriminate H|]. apply IHl. exact H.
    + inversion H; subst. eapply Hx; reflexivity.
  - inversion H. auto.
Qed.

Lemma to_toml_root v t : to_toml v = TOk t -> is_table t = is_root_ok v.
Proof.
  destruct v; cbn; try (intros H; inversion H; reflexivity); try discriminate.
  - change (match to_toml_list l with TErr e => TErr e | TOk ys => TOk (TArr ys) end = TOk t -> is_table t = false).
    destruct (to_toml_list l); intros H; inversion H; reflexivity.
  - change (match to_toml_fields fs with TErr e => TErr e | TOk kvs => TOk (TTab (map_first kvs)) end = TOk t -> is_table t = true).
    destruct (to_toml_fields fs); intros H; inversion H; reflexivity.
Qed.

(* ------------------------------------------------------------------ *)
(* The serializer: stacks                                              *)

Definition frame_typed (f : frame) : bool :=
  match f with FA _ None _ => false | _ => true end.
Notation all_typed := (forallb frame_typed).

(* the table_emitted flag _emit_key would test *)
Fixpoint te_hit (st : stack) : bool :=
  match st with
  | [] => false
  | FT _ _ te :: _ => te
  | FA first _ _ :: par => if first then te_hit par else false
  end.

(* the Cell effect of _emit_key *)
Fixpoint mark (st : stack) : stack :=
  match st with
  | [] => []
  | FA first ty len :: par => if first then FA first ty len :: mark par else st
  | FT k first te :: par => FT k false te :: (if first then set_te par else par)
  end.

Lemma set_te_idem st : set_te (set_te st) = set_te st.
Proof. induction st as [|[k f te|f t n] st IH]; cbn; congruence. Qed.

Lemma all_typed_set_te st : all_typed (set_te st) = all_typed st.
Proof. induction st as [|[k f te|f t n] st IH]; cbn; [reflexivity|exact IH|rewrite IH; reflexivity]. Qed.

Lemma all_typed_mark st : all_typed st = true -> all_typed (mark st) = true.
Proof.
  induction st as [|[k f te|f t n] st IH]; cbn; intros H; [reflexivity| |].
  - destruct f; [rewrite all_typed_set_te|]; exact H.
  - destruct f; [|exact H]. cbn. apply andb_true_iff in H as [H1 H2]. rewrite H1, (IH H2). reflexivity.
Qed.

Lemma all_typed_array_type t st : all_typed (tl st) = true -> all_typed (array_type t st) = true.
Proof.
  destruct st as [|[k f te|f [ty|] n] par]; cbn; intros H; try exact H; reflexivity.
Qed.

Lemma array_type_typed t st : all_typed st = true -> array_type t st = st.
Proof. destruct st as [|[k f te|f [ty|] n] par]; cbn; intros H; try reflexivity. discriminate. Qed.

Lemma emit_key_rec_spec st : all_typed st = true ->
  if te_hit st then emit_key_rec st = TErr EValueAfterTable
  else exists o, emit_key_rec st = TOk (o, mark st).
Proof.
  induction st as [|[k f te|f [ty|] n] par IH]; cbn [forallb frame_typed te_hit emit_key_rec mark]; intros H.
  - eexists. reflexivity.
  - destruct te; [reflexivity|]. destruct f.
    + unfold emit_table_header. eexists. reflexivity.
    + eexists. reflexivity.
  - destruct f.
    + specialize (IH H). destruct (te_hit par).
      * rewrite IH. reflexivity.
      * destruct IH as [o ->]. eexists. reflexivity.
    + eexists. reflexivity.
  - discriminate H.
Qed.

(* ------------------------------------------------------------------ *)
(* The serializer: what one value does                                 *)

Definition kind (v : tval) : astate := match v with TTab _ => AAsTable | _ => AStarted end.

Definition post (v : tval) (st : stack) : stack :=
  let s0 := array_type (kind v) st in
  let s1 := if first_leaf_checks v then mark s0 else s0 in
  if has_tab v then set_te s1 else s1.

Definition fails (v : tval) (st : stack) : bool :=
  va_err v || (first_leaf_checks v && te_hit (array_type (kind v) st)).

(* the statement proved for every value *)
Definition ser_ok (v : tval) : Prop :=
  forall st, all_typed (tl st) = true ->
    if fails v st then ser v st = TErr EValueAfterTable
    else exists o, ser v st = TOk (o, post v st).

Lemma ser_scalar_spec txt st : all_typed (tl st) = true ->
  if te_hit (array_type AStarted st) then ser_scalar txt st = TErr EValueAfterTable
  else exists o, ser_scalar txt st = TOk (o, mark (array_type AStarted st)).
Proof.
  intros H. unfold ser_scalar, emit_key.
  pose proof (emit_key_rec_spec _ (all_typed_array_type AStarted st H)) as E.
  destruct (te_hit (array_type AStarted st)).
  - rewrite E. reflexivity.
  - destruct E as [o ->]. eexists. reflexivity.
Qed.

Lemma flc_false_has_tab : forall v, first_leaf_checks v = false -> has_tab v = true.
Proof.
  induction v as [s|z|f|x|l IH|kvs IH] using tval_ind'; cbn; try discriminate; try reflexivity.
  destruct l as [|y l]; [discriminate|]. intros H. cbn [existsb].
  inversion IH; subst. rewrite (H2 H). reflexivity.
Qed.

(* shapes *)
Lemma post_FA v f ty n par : exists ty' par', post v (FA f ty n :: par) = FA f ty' n :: par' /\
  par' = (if has_tab v then set_te else fun s => s) (if first_leaf_checks v && f then mark par else par) /\
  ty' = match ty with Some t => Some t | None => Some (kind v) end.
Proof.
  unfold post. destruct ty as [t|]; cbn [array_type];
    destruct (first_leaf_checks v), f, (has_tab v); cbn [mark set_te andb]; eexists; eexists; repeat split.
Qed.

Lemma post_FT v k f te par :
  post v (FT k f te :: par) =
  FT k (if first_leaf_checks v then false else f) (te || has_tab v)
     :: ((if has_tab v then set_te else fun s => s) (if first_leaf_checks v && f then set_te par else par)).
Proof.
  unfold post. cbn [array_type].
  destruct (first_leaf_checks v), f, (has_tab v); cbn [mark set_te andb]; rewrite ?orb_true_r, ?orb_false_r; reflexivity.
Qed.

(* ---- arrays ---- *)

(* items after the first: never reach the enclosing table *)
Lemma seq_elems_rest len l : Forall ser_ok l -> forall ty par,
  all_typed par = true -> ty <> None ->
  if existsb va_err l then seq_elems ser len l false ty par = TErr EValueAfterTable
  else exists o, seq_elems ser len l false ty par
                 = TOk (o, (ty, (if existsb has_tab l then set_te par else par))).
Proof.
  induction 1 as [|x l Hx _ IH]; intros ty par Hp Hty; cbn [existsb seq_elems].
  - eexists. reflexivity.
  - specialize (Hx (FA false ty len :: par) Hp). unfold fails in Hx.
    destruct ty as [t|]; [|congruence]. cbn [array_type te_hit] in Hx. rewrite andb_false_r, orb_false_r in Hx.
    destruct (va_err x); cbn [orb].
    + rewrite Hx. reflexivity.
    + destruct Hx as [o Ho]. rewrite Ho.
      destruct (post_FA x false (Some t) len par) as (ty' & par' & Ep & Epar & Ety).
      rewrite Ep. rewrite andb_false_r in Epar. subst ty'.
      assert (Hp' : all_typed par' = true).
      { subst par'. destruct (has_tab x); [rewrite all_typed_set_te|]; exact Hp. }
      specialize (IH (Some t) par' Hp' ltac:(discriminate)).
      destruct (existsb va_err l).
      * rewrite IH. reflexivity.
      * destruct IH as [o2 Ho2]. rewrite Ho2. eexists. f_equal. f_equal. f_equal.
        subst par'. destruct (has_tab x), (existsb has_tab l); cbn [orb]; rewrite ?set_te_idem; reflexivity.
Qed.

Lemma ser_arr_ok l : Forall ser_ok l -> ser_ok (TArr l).
Proof.
  intros Hl st Hst. unfold fails. cbn [kind].
  set (st0 := array_type AStarted st).
  assert (H0 : all_typed st0 = true) by (apply all_typed_array_type; exact Hst).
  cbn [ser]. fold st0.
  destruct l as [|x l].
  - (* [] : SerializeSeq::end with type None *)
    cbn [va_err existsb first_leaf_checks orb andb seq_elems seq_end].
    unfold emit_key. rewrite (array_type_typed AStarted st0 H0).
    pose proof (emit_key_rec_spec st0 H0) as E.
    destruct (te_hit st0).
    + rewrite E. reflexivity.
    + destruct E as [o ->]. eexists. unfold post. cbn [kind first_leaf_checks has_tab existsb]. fold st0. reflexivity.
  - inversion Hl as [|? ? Hx Hl']; subst.
    cbn [va_err existsb first_leaf_checks seq_elems List.length].
    set (len := S (List.length l)).
    specialize (Hx (FA true None len :: st0) H0). unfold fails in Hx. cbn [array_type te_hit] in Hx.
    destruct (va_err x) eqn:Evx; cbn [orb] in *.
    + rewrite Hx. reflexivity.
    + destruct (first_leaf_checks x && te_hit st0) eqn:Ehit.
      * rewrite Hx. rewrite orb_true_r. reflexivity.
      * destruct Hx as [o Ho]. rewrite Ho.
        destruct (post_FA x true None len st0) as (ty' & par' & Ep & Epar & Ety).
        rewrite Ep. rewrite andb_true_r in Epar.
        assert (Hp' : all_typed par' = true).
        { subst par'. destruct (has_tab x); [rewrite all_typed_set_te|];
            (destruct (first_leaf_checks x); [apply all_typed_mark|]; exact H0). }
        pose proof (seq_elems_rest len l Hl' ty' par' Hp' ltac:(subst ty'; discriminate)) as Hr.
        rewrite orb_false_r.
        destruct (existsb va_err l).
        -- rewrite Hr. reflexivity.
        -- destruct Hr as [o2 Ho2]. rewrite Ho2.
           subst ty'. unfold seq_end.
           assert (Epost : (if existsb has_tab l then set_te par' else par') = post (TArr (x :: l)) st).
           { unfold post. cbn [kind first_leaf_checks has_tab existsb]. fold st0. subst par'.
             destruct (has_tab x), (existsb has_tab l), (first_leaf_checks x); cbn [orb]; rewrite ?set_te_idem; reflexivity. }
           destruct (kind x); rewrite Epost; eexists; reflexivity.
Qed.

(* ---- tables ---- *)

(* a stack on which every header has already been written below *)
Definition saturated (first : bool) (par : stack) : Prop := first = false -> set_te par = par.

Lemma tab_pass_spec p l : Forall (fun kv => ser_ok (snd kv)) l -> forall first te par,
  all_typed par = true -> saturated first par ->
  let r := scan_pass va_err p l te in
  if fst r then tab_pass ser p l first te par = TErr EValueAfterTable
  else exists o first' par',
      tab_pass ser p l first te par = TOk (o, (first', snd r, par'))
      /\ all_typed par' = true /\ saturated first' par'
      /\ (first' = true -> first = true /\ par' = par)
      /\ (first' = false -> par' = set_te par).
Proof.
  induction 1 as [|[k x] l Hx _ IH]; intros first te par Hp Hsat; cbn [scan_pass tab_pass].
  - cbn [fst snd]. exists [], first, par.
    split; [reflexivity|]. split; [exact Hp|]. split; [exact Hsat|]. split; [auto|].
    intros Hf. symmetry. apply Hsat, Hf.
  - cbn [snd] in Hx. destruct (p x).
    + specialize (Hx (FT k first te :: par) Hp). unfold fails in Hx. cbn [array_type te_hit] in Hx.
      destruct (va_err x || first_leaf_checks x && te).
      * cbn [fst]. rewrite Hx. reflexivity.
      * destruct Hx as [o Ho]. rewrite Ho, post_FT.
        set (par1 := (if has_tab x then set_te else fun s => s) (if first_leaf_checks x && first then set_te par else par)).
        assert (Hp1 : all_typed par1 = true).
        { unfold par1. destruct (has_tab x), (first_leaf_checks x && first); rewrite ?all_typed_set_te; exact Hp. }
        assert (E1 : par1 = set_te par).
        { unfold par1. destruct first.
          - rewrite andb_true_r. destruct (first_leaf_checks x) eqn:Ef.
            + destruct (has_tab x); rewrite ?set_te_idem; reflexivity.
            + rewrite (flc_false_has_tab x Ef). reflexivity.
          - rewrite andb_false_r. rewrite (Hsat eq_refl). destruct (has_tab x); rewrite ?(Hsat eq_refl); reflexivity. }
        assert (Hsat1 : saturated false par1) by (intros _; rewrite E1; apply set_te_idem).
        specialize (IH false (te || has_tab x) par1 Hp1 Hsat1). cbv zeta in IH.
        destruct (fst (scan_pass va_err p l (te || has_tab x))).
        -- rewrite IH. reflexivity.
        -- destruct IH as (o2 & f' & par' & E & Hp' & Hs' & Hf1 & Hf2). rewrite E.
           exists (o ++ o2), f', par'.
           split; [reflexivity|]. split; [exact Hp'|]. split; [exact Hs'|]. split.
           ++ intros Hf. destruct (Hf1 Hf) as [Hc _]. discriminate.
           ++ intros Hf. rewrite (Hf2 Hf), E1. apply set_te_idem.
    + apply IH; assumption.
Qed.

Lemma ser_tab_ok kvs : Forall (fun kv => ser_ok (snd kv)) kvs -> ser_ok (TTab kvs).
Proof.
  intros Hl st Hst. unfold fails. cbn [kind first_leaf_checks andb]. rewrite orb_false_r.
  set (st0 := array_type AAsTable st).
  assert (H0 : all_typed st0 = true) by (apply all_typed_array_type; exact Hst).
  cbn [ser va_err]. fold st0.
  pose proof (tab_pass_spec pass1 kvs Hl true false st0 H0 ltac:(intros Hc; discriminate)) as H1. cbv zeta in H1.
  destruct (scan_pass va_err pass1 kvs false) as [e1 t1]. cbn [fst snd] in H1.
  destruct e1; [rewrite H1; reflexivity|].
  destruct H1 as (o1 & f1 & par1 & E1 & Hp1 & Hs1 & Hf1a & Hf1b). rewrite E1.
  pose proof (tab_pass_spec pass2 kvs Hl f1 t1 par1 Hp1 Hs1) as H2. cbv zeta in H2.
  destruct (scan_pass va_err pass2 kvs t1) as [e2 t2]. cbn [fst snd] in H2.
  destruct e2; [rewrite H2; reflexivity|].
  destruct H2 as (o2 & f2 & par2 & E2 & Hp2 & Hs2 & Hf2a & Hf2b). rewrite E2.
  pose proof (tab_pass_spec pass3 kvs Hl f2 t2 par2 Hp2 Hs2) as H3. cbv zeta in H3.
  destruct (scan_pass va_err pass3 kvs t2) as [e3 t3]. cbn [fst snd] in H3.
  destruct e3; [rewrite H3; reflexivity|].
  destruct H3 as (o3 & f3 & par3 & E3 & Hp3 & Hs3 & Hf3a & Hf3b). rewrite E3.
  assert (Epost : post (TTab kvs) st = set_te st0) by reflexivity.
  rewrite Epost.
  destruct f3.
  - (* nothing was written: SerializeMap::end writes the header *)
    destruct (Hf3a eq_refl) as [-> ->]. destruct (Hf2a eq_refl) as [-> ->]. destruct (Hf1a eq_refl) as [_ ->].
    unfold emit_table_header. eexists. reflexivity.
  - eexists. f_equal. f_equal.
    (* par3 = set_te st0 *)
    rewrite (Hf3b eq_refl).
    destruct f2.
    + destruct (Hf2a eq_refl) as [-> ->]. destruct (Hf1a eq_refl) as [_ ->]. reflexivity.
    + rewrite (Hf2b eq_refl). destruct f1.
      * destruct (Hf1a eq_refl) as [_ ->]. apply set_te_idem.
      * rewrite (Hf1b eq_refl). rewrite !set_te_idem. reflexivity.
Qed.

Theorem ser_spec : forall v, ser_ok v.
Proof.
  induction v as [s|z|f|x|l IH|kvs IH] using tval_ind'.
  1-4: intros st Hst; unfold fails, post; cbn [va_err first_leaf_checks has_tab kind orb andb ser];
       apply ser_scalar_spec; exact Hst.
  - apply ser_arr_ok, IH.
  - apply ser_tab_ok, IH.
Qed.

(* ------------------------------------------------------------------ *)
(* to_toml_error_iff                                                   *)

Theorem ser_root_error_iff : forall t,
  (va_err t = true -> ser_root t = TErr EValueAfterTable) /\
  (va_err t = false -> exists o, ser_root t = TOk o).
Proof.
  intros t. pose proof (ser_spec t [] eq_refl) as H. unfold fails in H.
  assert (Eh : te_hit (array_type (kind t) []) = false) by reflexivity.
  rewrite Eh, andb_false_r, orb_false_r in H. unfold ser_root. split; intros E; rewrite E in H.
  - rewrite H. reflexivity.
  - destruct H as [o ->]. eexists. reflexivity.
Qed.

(* the converter fails exactly on the unrepresentable values ... *)
Theorem to_toml_error_iff : forall v,
  is_terr (toml_output v) = unrepresentable_toml v.
Proof.
  intros v. unfold toml_output, unrepresentable_toml.
  rewrite <- to_toml_err_iff.
  destruct (to_toml v) as [t|e] eqn:Et; cbn [is_terr orb]; [|reflexivity].
  unfold toml_emit. rewrite (to_toml_root v t Et).
  destruct (is_root_ok v); cbn [negb orb is_terr]; [|reflexivity].
  destruct (ser_root_error_iff t) as [H1 H2].
  destruct (va_err t).
  - rewrite (H1 eq_refl). reflexivity.
  - destruct (H2 eq_refl) as [o ->]. reflexivity.
Qed.

(* ... and with which error: every branch *)
Theorem toml_output_error_kind : forall v e,
  toml_output v = TErr e ->
  (e = ENull \/ e = EConstraint) /\ unrep_val v = true
  \/ e = ENotTable /\ unrep_val v = false /\ is_root_ok v = false
  \/ e = EValueAfterTable /\ unrep_val v = false /\ is_root_ok v = true
     /\ exists t, to_toml v = TOk t /\ va_err t = true.
Proof.
  intros v e H. unfold toml_output in H.
  pose proof (to_toml_err_iff v) as Hu.
  destruct (to_toml v) as [t|e0] eqn:Et; cbn [is_terr] in Hu.
  - unfold toml_emit in H. rewrite (to_toml_root v t Et) in H.
    destruct (is_root_ok v) eqn:Er.
    + right. right. destruct (ser_root_error_iff t) as [H1 H2].
      destruct (va_err t) eqn:Ev.
      * rewrite (H1 eq_refl) in H. inversion H. repeat split; auto. exists t. auto.
      * destruct (H2 eq_refl) as [o Ho]. rewrite Ho in H. discriminate.
    + right. left. inversion H. auto.
  - left. inversion H; subst. split; [eapply to_toml_err_kind; exact Et|auto].
Qed.

(* no assert! / unreachable! / stack-shape mismatch: the model never answers EPanic *)
Corollary toml_output_no_panic : forall v, toml_output v <> TErr EPanic.
Proof.
  intros v H. apply toml_output_error_kind in H.
  destruct H as [[[H|H] _]|[[H _]|[H _]]]; discriminate.
Qed.
