(* std/strings.ucg through `import`: parse_int (the recursive module behind wrap(s).parse_int()). *)
From Ucg Require Import base.Bytes_Lemmas sem.Sem std.Std_Fuel std.Sem_Import std.Sem_Import_Lemmas
     std.Std_Rules_Imp std.Std_Rules_Imp2 std.StdSpec std.StdSpec_Imp std.Imp_Base std.Imp_Lists
     std.Imp_Functional std.Imp_Strings.

Section ParseInt.
  Variable fo : float_ops.
  Notation value := (value fo).
  Notation VInt := (VInt fo).
  Notation VStr := (VStr fo).
  Notation VBool := (VBool fo).
  Notation VNull := (VNull fo).
  Notation VList := (VList fo).
  Notation VTuple := (VTuple fo).
  Notation VFunc := (VFunc fo).
  Notation VModule := (VModule fo).
  Notation evals := (evals fo std_imports []).
  Notation calls := (calls fo std_imports []).
  Notation copies := (copies fo std_imports []).
  Notation evals_fields := (evals_fields fo std_imports []).
  Notation PM := (Vparse_int fo).
  Notation maybe_tuple := (maybe_tuple fo).

  Definition found_v (x : bytes) : value := if bytes_eqb x [] then VNull else VStr x.
  Lemma found_v_nonempty a d r : found_v (a ++ d :: r) = VStr (a ++ d :: r).
  Proof. unfold found_v. destruct a; reflexivity. Qed.

  Definition pi_out_e : expr := Eval vm_compute in match pi_out with Some e => e | None => ENull end.
  Lemma pi_out_eq : pi_out = Some pi_out_e. Proof. reflexivity. Qed.

  (* is_int *)
  Definition isint_body : expr := Eval vm_compute in e_fn_body (stmt_expr 3 pi_body).
  Definition isint_arms : list (bytes * expr) :=
    Eval vm_compute in match isint_body with ESelect _ _ arms => arms | _ => [] end.
  Lemma pick_digit ch :
    select_pick fo (VStr ch) (Some (EBool false)) isint_arms = Some (EBool (is_digit_char ch)).
  Proof.
    unfold select_pick. cbn [select_key].
    destruct ch as [|d [|e r]].
    - reflexivity.
    - destruct d as [[] [] [] [] [] [] [] []]; vm_compute; reflexivity.
    - unfold isint_arms. cbn [find_arm bytes_eqb is_digit_char]. rewrite !andb_false_r. reflexivity.
  Qed.
  Lemma isint_calls c clo ch :
    calls c (VFunc [b "c"] isint_body clo) [VStr ch] (VBool (is_digit_char ch)).
  Proof.
    eapply calls_intro; [reflexivity|reflexivity|]. unfold isint_body.
    eapply ev_select; [iv1|apply pick_digit|iv1].
  Qed.
  Lemma digit_char_shape ch : is_digit_char ch = true -> exists d, ch = [d].
  Proof. destruct ch as [|d [|e r]]; cbn; try discriminate. intros _. exists d. reflexivity. Qed.

  Lemma functional_index_maybe' c : index fo c (import_value fo functional_path) (Sem.VStr fo (b "maybe")) = Ok (maybe_v fo).
  Proof. apply functional_index_maybe. Qed.

  Section ForS.
    Variable s : bytes.
    Definition pflds (cs : list bytes) (a : bytes) : list (bytes * value) :=
      [(b "chars", VList (map VStr cs)); (b "acc", VStr a); (b "pkg", pkgf fo (T6 fo s))].

    (* statements 0..3 of the body *)
    Ltac pi_prefix :=
      unfold pi_body;
      eapply execs_let'; [dotsym|reflexivity|reflexivity|];
      eapply execs_let'; [apply ev_import_std, in_functional|reflexivity|reflexivity|];
      eapply execs_let'; [apply ev_import_std, in_lists|reflexivity|reflexivity|];
      eapply execs_let'; [iv1|reflexivity|reflexivity|].
    (* the length test of statement 4 *)
    Ltac len_test Hfit :=
      eapply ev_eq; [ eapply ev_dot_call; [ivs; reflexivity|iv1|apply lists_index_len|apply len_calls, Hfit]
                    | iv1 | reflexivity | exists 1; reflexivity ].
    Lemma found_stmt E st ord slf sc0 x :
      lookup fo (b "result") sc0 = Some (VStr x) ->
      evals (Build_ctx fo sc0 slf E st ord)
            (ESelect (EBin Equal (ESym (b "result")) (EStr [])) (Some (ESym (b "result"))) [(b "true", ENull)])
            (found_v x).
    Proof.
      intros Hl. unfold found_v. destruct (bytes_eqb x []) eqn:Hx.
      - eapply ev_select.
        + eapply ev_eq; [apply ev_sym; [reflexivity|exact Hl]|iv1|reflexivity|exists 1; reflexivity].
        + cbn [veq]. rewrite Hx. reflexivity.
        + iv1.
      - eapply ev_select.
        + eapply ev_eq; [apply ev_sym; [reflexivity|exact Hl]|iv1|reflexivity|exists 1; reflexivity].
        + cbn [veq]. rewrite Hx. reflexivity.
        + apply ev_sym; [reflexivity|exact Hl].
    Qed.

    Lemma out_stmt E st ord slf sc0 v :
      lookup fo (b "f") sc0 = Some (import_value fo functional_path) ->
      lookup fo (b "found") sc0 = Some v ->
      evals (Build_ctx fo sc0 slf E st ord) pi_out_e (maybe_tuple v).
    Proof.
      intros Hf Hv. unfold pi_out_e.
      eapply ev_dot_copy; [apply ev_sym; [reflexivity|exact Hf]|apply functional_index_maybe|].
      rewrite maybe_v_eq. apply maybe_copies. apply ev_sym; [reflexivity|exact Hv].
    Qed.

    Lemma pi_copies_gen : forall cs a c fs ovs,
        fits (Z.of_nat (List.length cs)) ->
        evals_fields (with_self fo c (Some (PM s))) fs [] ovs ->
        merge_fields fo (mod_params fo (PM s)) ovs = Ok (pflds cs a) ->
        copies c (PM s) fs (maybe_tuple (found_v (a ++ leading_digits cs))).
    Proof.
      induction cs as [|ch cs IH]; intros a c fs ovs Hfit Hfs Hmerge; destruct c as [s0 slf E st ord].
      - (* no characters left: the accumulator *)
        cbn [leading_digits]. rewrite app_nil_r. unfold Vparse_int in *. rewrite pi_out_eq.
        eapply copies_module'; [exact Hfs|exact Hmerge|reflexivity| |].
        + pi_prefix.
          eapply execs_let'; [|reflexivity|reflexivity|].
          { eapply ev_select; [len_test Hfit|reflexivity|dotsym]. }
          eapply execs_let'; [apply found_stmt; reflexivity|reflexivity|reflexivity|apply execs_nil'].
        + apply out_stmt; reflexivity.
      - assert (Hfit' : fits (Z.of_nat (List.length cs))).
        { apply (fits_between _ 0 (Z.of_nat (List.length (ch :: cs)))); [apply fits_0|exact Hfit|cbn [List.length]; lia]. }
        assert (Hfm : fits (Z.of_nat (List.length (map VStr (ch :: cs))))) by (rewrite map_length; exact Hfit).
        cbn [leading_digits]. destruct (is_digit_char ch) eqn:Hd.
        + (* a digit: recurse with the digit appended *)
          destruct (digit_char_shape ch Hd) as [d ->].
          rewrite app_assoc.
          assert (Hy : found_v ((a ++ [d]) ++ leading_digits cs) = VStr ((a ++ [d]) ++ leading_digits cs)).
          { rewrite <- app_assoc. apply found_v_nonempty. }
          unfold Vparse_int in *. rewrite pi_out_eq.
          eapply copies_module'; [exact Hfs|exact Hmerge|reflexivity| |].
          * pi_prefix.
            eapply execs_let'; [|reflexivity|reflexivity|].
            { eapply ev_select; [len_test Hfm|reflexivity|].
              eapply ev_select.
              - eapply ev_call; [|iv1|apply isint_calls].
                eapply evl_cons; [eapply ev_dot_int; [dotsym|reflexivity]|iv1].
              - rewrite Hd. reflexivity.
              - eapply ev_dot_call.
                + iv1.
                + eapply ev_copy; [iv1|].
                  apply (IH (a ++ [d])) with
                      (ovs := [(b "chars", VList (map VStr cs)); (b "acc", VStr (a ++ [d]))]); [exact Hfit'| |reflexivity].
                  eapply evf_cons; [|reflexivity|].
                  { eapply ev_dot_call; [ivs; reflexivity|iv1|apply lists_index_tail|].
                    eapply calls_eq; [apply tail_calls, Hfm|reflexivity]. }
                  eapply evf_cons; [|reflexivity|iv1].
                  eapply ev_add; [dotsym|eapply ev_dot_int; [dotsym|reflexivity]|reflexivity].
                + reflexivity.
                + apply unwrap_calls. }
            rewrite Hy.
            eapply execs_let'; [|reflexivity|reflexivity|apply execs_nil'].
            eapply evals_eq; [apply found_stmt; reflexivity|exact Hy].
          * rewrite Hy. apply out_stmt; reflexivity.
        + (* not a digit: stop *)
          rewrite app_nil_r. unfold Vparse_int in *. rewrite pi_out_eq.
          eapply copies_module'; [exact Hfs|exact Hmerge|reflexivity| |].
          * pi_prefix.
            eapply execs_let'; [|reflexivity|reflexivity|].
            { eapply ev_select; [len_test Hfm|reflexivity|].
              eapply ev_select.
              - eapply ev_call; [|iv1|apply isint_calls].
                eapply evl_cons; [eapply ev_dot_int; [dotsym|reflexivity]|iv1].
              - rewrite Hd. reflexivity.
              - dotsym. }
            eapply execs_let'; [apply found_stmt; reflexivity|reflexivity|reflexivity|apply execs_nil'].
          * apply out_stmt; reflexivity.
    Qed.
  End ForS.

  (* wrap(s).parse_int(): the maybe of the leading digits, cast to an integer when there are any *)
  Definition pif_cast_v (clo : scope fo) : value := VFunc [b "s"] (ECast CInt (ESym (b "s"))) clo.

  Lemma pif_calls_digits c s z :
    fits (N s) -> leading_digits (chars s) <> [] -> parse_int (leading_digits (chars s)) = Some z ->
    calls c (Vpif fo s) [] (maybe_tuple (VInt z)).
  Proof.
    intros Hfit Hne Hz. eapply calls_intro; [reflexivity|reflexivity|]. unfold pif_body.
    assert (Hf : found_v (leading_digits (chars s)) = VStr (leading_digits (chars s))).
    { unfold found_v. destruct (leading_digits (chars s)); [congruence|reflexivity]. }
    eapply ev_dot_call.
    - eapply evl_cons; [iv1|iv1].
    - eapply ev_copy; [iv1|].
      eapply (pi_copies_gen s (chars s) []) with (ovs := [(b "chars", VList (map VStr (chars s)))]).
      + unfold chars. exact Hfit.
      + eapply evf_cons; [iv1|reflexivity|iv1].
      + reflexivity.
    - cbn [app]. rewrite Hf. reflexivity.
    - cbn [app]. rewrite ?Hf. apply do_calls.
      + reflexivity.
      + reflexivity.
      + eapply calls_intro; [reflexivity|reflexivity|].
        eapply ev_cast; [iv1|]. cbn [cast]. rewrite Hz. reflexivity.
  Qed.

  Lemma pif_calls_none c s :
    fits (N s) -> leading_digits (chars s) = [] ->
    calls c (Vpif fo s) [] (maybe_tuple VNull).
  Proof.
    intros Hfit He. eapply calls_intro; [reflexivity|reflexivity|]. unfold pif_body.
    assert (Hf : found_v (leading_digits (chars s)) = VNull).
    { rewrite He. reflexivity. }
    eapply ev_dot_call.
    - eapply evl_cons; [iv1|iv1].
    - eapply ev_copy; [iv1|].
      eapply (pi_copies_gen s (chars s) []) with (ovs := [(b "chars", VList (map VStr (chars s)))]).
      + unfold chars. exact Hfit.
      + eapply evf_cons; [iv1|reflexivity|iv1].
      + reflexivity.
    - cbn [app]. rewrite Hf. reflexivity.
    - cbn [app]. rewrite ?Hf. apply do_calls_null.
  Qed.

  Definition parse_int_unwrap : expr := meth (meth wrap_arg "parse_int" []) "unwrap" [].

  (* digits prefix -> its value (when it fits an i64: [Sem.parse_int] is Rust's i64::from_str) *)
  Theorem std_strings_parse_int : forall E st ord s z,
      fits (N s) -> leading_digits (utf8_chars s) <> [] -> parse_int (leading_digits (utf8_chars s)) = Some z ->
      exists f, eval_imp fo std_imports f [] (ctx_gen fo E st ord [(b "arg", VStr s)]) parse_int_unwrap = Ok (VInt z).
  Proof.
    intros E st ord s z Hfit Hne Hz. unfold ctx_gen, parse_int_unwrap, meth.
    eapply ev_dot_call.
    - iv1.
    - eapply ev_dot_call; [iv1|eapply wrap_arg_evals; [exact Hfit|reflexivity]|reflexivity|].
      apply pif_calls_digits; unfold chars; eassumption.
    - reflexivity.
    - apply unwrap_calls.
  Qed.
  (* no leading digit -> NULL (an empty maybe) *)
  Theorem std_strings_parse_int_none : forall E st ord s,
      fits (N s) -> leading_digits (utf8_chars s) = [] ->
      exists f, eval_imp fo std_imports f [] (ctx_gen fo E st ord [(b "arg", VStr s)]) parse_int_unwrap = Ok VNull.
  Proof.
    intros E st ord s Hfit He. unfold ctx_gen, parse_int_unwrap, meth.
    eapply ev_dot_call.
    - iv1.
    - eapply ev_dot_call; [iv1|eapply wrap_arg_evals; [exact Hfit|reflexivity]|reflexivity|].
      apply pif_calls_none; unfold chars; assumption.
    - reflexivity.
    - apply unwrap_calls.
  Qed.
End ParseInt.
