(* Tactics and basic facts for the second-round (import-based) proofs. *)
From Ucg Require Import base.Bytes_Lemmas sem.Sem std.Std_Fuel std.Sem_Import std.Sem_Import_Lemmas
     std.Std_Rules_Imp std.Std_Rules_Imp2 std.StdSpec std.StdSpec_Imp.

Ltac iv1 :=
  lazymatch goal with
  | |- evals _ _ _ _ ENull _ => apply ev_null
  | |- evals _ _ _ _ (EBool _) _ => apply ev_bool
  | |- evals _ _ _ _ (EInt _) _ => apply ev_int
  | |- evals _ _ _ _ (EStr _) _ => apply ev_str
  | |- evals _ _ _ _ (EFunc _ _) _ => apply ev_func
  | |- evals _ _ _ _ (ESym _) _ => apply ev_sym; [reflexivity | reflexivity]
  | |- evals _ _ _ _ (EGroup _) _ => apply ev_group
  | |- evals _ _ _ _ (EList _) _ => apply ev_list
  | |- evals_list _ _ _ _ [] _ => apply evl_nil
  | |- evals_list _ _ _ _ (_ :: _) _ => eapply evl_cons
  | |- evals _ _ _ _ (ETuple _) _ => apply ev_tuple
  | |- evals_fields _ _ _ _ [] _ _ => apply evf_nil
  | |- evals _ _ _ _ (EBin DOT _ (ESym _)) _ => eapply ev_dot_sym
  | |- evals _ _ _ _ (EBin DOT _ (EInt _)) _ => eapply ev_dot_int
  end.
Ltac ivs := repeat iv1.
(* x.f where x is a name and the field exists *)
Ltac dotsym := eapply ev_dot_sym; [iv1|reflexivity].
(* one field of a tuple literal / override list *)
Ltac fld1 := eapply evf_cons; [iv1|reflexivity|].
Ltac fldd := eapply evf_cons; [dotsym|reflexivity|].
Ltac flds := eapply evf_cons; [ivs|reflexivity|].

(* select a member of an imported library: the import value is normalised first so that everything
   downstream is in normal form *)
Ltac index_import :=
  lazymatch goal with
  | |- index ?fo ?c (import_value ?fo ?p) ?k = Ok _ =>
    let v := eval vm_compute in (import_value fo p) in change (import_value fo p) with v; reflexivity
  end.

(* the goal calls a closure that is (the normal form of) a named library member [m]: fold it back,
   comparing by vm_compute (the default conversion is far too slow on these values) *)
Ltac fold_callee m :=
  lazymatch goal with
  | |- calls ?fo ?imps ?stk ?c ?fv ?args ?v =>
    replace fv with m by (vm_compute; reflexivity)
  end.

Section Base.
  Variable fo : float_ops.
  Notation value := (value fo).
  Notation evals := (evals fo std_imports []).

  (* `import "std/<x>.ucg"` evaluates (in any context, with an empty import stack) to [import_value] *)
  Lemma import_ok path : In path [lists_path; tuples_path; strings_path; functional_path; schema_path] ->
    forall E st ord s, eval_imp fo std_imports 40 [] (ctx_gen fo E st ord s) (EImport path) = Ok (import_value fo path).
  Proof.
    intros Hin E st ord s. cbn in Hin.
    repeat (destruct Hin as [<-|Hin]; [vm_compute; reflexivity|]). destruct Hin.
  Qed.
  Lemma ev_import_std path c : In path [lists_path; tuples_path; strings_path; functional_path; schema_path] ->
    evals c (EImport path) (import_value fo path).
  Proof. intros Hin. exists 40. destruct c as [s sf E st ord]. 
    cbn in Hin. repeat (destruct Hin as [<-|Hin]; [vm_compute; reflexivity|]). destruct Hin. Qed.

  Lemma in_lists : In lists_path [lists_path; tuples_path; strings_path; functional_path; schema_path].
  Proof. left; reflexivity. Qed.
  Lemma in_tuples : In tuples_path [lists_path; tuples_path; strings_path; functional_path; schema_path].
  Proof. right; left; reflexivity. Qed.
  Lemma in_strings : In strings_path [lists_path; tuples_path; strings_path; functional_path; schema_path].
  Proof. right; right; left; reflexivity. Qed.
  Lemma in_functional : In functional_path [lists_path; tuples_path; strings_path; functional_path; schema_path].
  Proof. right; right; right; left; reflexivity. Qed.
  Lemma in_schema : In schema_path [lists_path; tuples_path; strings_path; functional_path; schema_path].
  Proof. right; right; right; right; left; reflexivity. Qed.

  Lemma evals_eq stk c e (v v' : value) : Std_Rules_Imp.evals fo std_imports stk c e v -> v = v' -> Std_Rules_Imp.evals fo std_imports stk c e v'.
  Proof. intros H <-. exact H. Qed.


  (* ---- the structural rules with contexts in canonical (record) form: the generic rules nest
     with_scope / fctx / mctx around the context and duplicate it at every statement, which makes the
     goals grow exponentially with the length of a module body ---- *)
  Notation mk := (Build_ctx fo).
  Lemma calls_intro' s0 slf E st ord ps body clo avs s v :
    List.length ps = List.length avs -> bind_params fo ps avs clo = Ok s ->
    evals (mk s None E st ord) body v ->
    Std_Rules_Imp.calls fo std_imports [] (mk s0 slf E st ord) (VFunc fo ps body clo) avs v.
  Proof. intros H1 H2 H3. exact (calls_intro fo std_imports [] (mk s0 slf E st ord) ps body clo avs s v H1 H2 H3). Qed.
  Lemma execs_let' s0 slf E st ord x e ss v s :
    evals (mk s0 slf E st ord) e v -> is_reserved x = false -> lookup fo x s0 = None ->
    Std_Rules_Imp.execs fo std_imports [] (mk ((x, v) :: s0) slf E st ord) ss s ->
    Std_Rules_Imp.execs fo std_imports [] (mk s0 slf E st ord) (SLet x e :: ss) s.
  Proof. intros H1 H2 H3 H4. exact (execs_let fo std_imports [] (mk s0 slf E st ord) x e ss v s H1 H2 H3 H4). Qed.
  Lemma execs_expr' s0 slf E st ord e ss v s :
    evals (mk s0 slf E st ord) e v ->
    Std_Rules_Imp.execs fo std_imports [] (mk s0 slf E st ord) ss s ->
    Std_Rules_Imp.execs fo std_imports [] (mk s0 slf E st ord) (SExpr e :: ss) s.
  Proof. intros H1 H2. exact (execs_expr fo std_imports [] (mk s0 slf E st ord) e ss v s H1 H2). Qed.
  Lemma execs_nil' s0 slf E st ord : Std_Rules_Imp.execs fo std_imports [] (mk s0 slf E st ord) [] s0.
  Proof. exact (execs_nil fo std_imports [] (mk s0 slf E st ord)). Qed.
  Lemma copies_module' s0 slf E st ord ps oe body fs ovs fl fl' s v :
    let tv := VModule fo ps (Some oe) body in
    Std_Rules_Imp.evals_fields fo std_imports [] (mk s0 (Some tv) E st ord) fs [] ovs ->
    merge_fields fo ps ovs = Ok fl -> merge_field fo fl (b "this") tv = Ok fl' ->
    Std_Rules_Imp.execs fo std_imports [] (mk [(b "mod", VTuple fo fl')] (Some tv) E st ord) body s ->
    evals (mk s (Some tv) E st ord) oe v ->
    Std_Rules_Imp.copies fo std_imports [] (mk s0 slf E st ord) tv fs v.
  Proof.
    intros tv H1 H2 H3 H4 H5.
    exact (copies_module fo std_imports [] (mk s0 slf E st ord) ps oe body fs ovs fl fl' s v H1 H2 H3 H4 H5).
  Qed.
  Lemma copies_tuple' s0 slf E st ord base fs ovs r :
    Std_Rules_Imp.evals_fields fo std_imports [] (mk s0 (Some (VTuple fo base)) E st ord) fs [] ovs ->
    merge_fields fo base ovs = Ok r ->
    Std_Rules_Imp.copies fo std_imports [] (mk s0 slf E st ord) (VTuple fo base) fs (VTuple fo r).
  Proof. intros H1 H2. exact (copies_tuple fo std_imports [] (mk s0 slf E st ord) base fs ovs r H1 H2). Qed.
  (* failing forms *)
  Lemma xf_expr_skip' s0 slf E st ord e ss v :
    evals (mk s0 slf E st ord) e v -> exec_fails fo std_imports [] (mk s0 slf E st ord) ss ->
    exec_fails fo std_imports [] (mk s0 slf E st ord) (SExpr e :: ss).
  Proof. intros H1 H2. exact (xf_expr_skip fo std_imports [] (mk s0 slf E st ord) e ss v H1 H2). Qed.
  Lemma xf_let_skip' s0 slf E st ord x e ss v :
    evals (mk s0 slf E st ord) e v -> is_reserved x = false -> lookup fo x s0 = None ->
    exec_fails fo std_imports [] (mk ((x, v) :: s0) slf E st ord) ss ->
    exec_fails fo std_imports [] (mk s0 slf E st ord) (SLet x e :: ss).
  Proof. intros H1 H2 H3 H4. exact (xf_let_skip fo std_imports [] (mk s0 slf E st ord) x e ss v H1 H2 H3 H4). Qed.
  Lemma copy_fails_module' s0 slf E st ord ps out body fs ovs fl fl' :
    let tv := VModule fo ps out body in
    Std_Rules_Imp.evals_fields fo std_imports [] (mk s0 (Some tv) E st ord) fs [] ovs ->
    merge_fields fo ps ovs = Ok fl -> merge_field fo fl (b "this") tv = Ok fl' ->
    exec_fails fo std_imports [] (mk [(b "mod", VTuple fo fl')] (Some tv) E st ord) body ->
    copy_fails fo std_imports [] (mk s0 slf E st ord) tv fs.
  Proof.
    intros tv H1 H2 H3 H4.
    exact (copy_fails_module fo std_imports [] (mk s0 slf E st ord) ps out body fs ovs fl fl' H1 H2 H3 H4).
  Qed.

  Lemma calls_eq stk c fv args (v v' : value) :
    Std_Rules_Imp.calls fo std_imports stk c fv args v -> v = v' -> Std_Rules_Imp.calls fo std_imports stk c fv args v'.
  Proof. intros H <-. exact H. Qed.

  Lemma evals_copies_eq stk c tv fs (v v' : value) :
    Std_Rules_Imp.copies fo std_imports stk c tv fs v -> v = v' -> Std_Rules_Imp.copies fo std_imports stk c tv fs v'.
  Proof. intros H <-. exact H. Qed.

  Lemma fits_chk z : fits z -> chk fo z = Ok (VInt fo z).
  Proof. unfold fits, chk. intros ->. reflexivity. Qed.
  Lemma fits_iff z : fits z <-> (i64_min <= z <= i64_max)%Z.
  Proof. unfold fits, in_i64. rewrite andb_true_iff, !Z.leb_le. reflexivity. Qed.
  Lemma fits_between z lo hi : fits lo -> fits hi -> (lo <= z <= hi)%Z -> fits z.
  Proof. rewrite !fits_iff. lia. Qed.
  Lemma fits_0 : fits 0. Proof. reflexivity. Qed.
End Base.
