(* std/tuples.ucg: fields, values, iter, strip_nulls *)
From Ucg Require Import base.Bytes_Lemmas sem.Sem std.Std_Fuel std.Std_Rules std.StdSpec std.Std_Base.
From UcgGen Require Import StdLib.

Section Std.
  Variable fo : float_ops.
  Notation value := (value fo).
  Notation VInt := (VInt fo).
  Notation VStr := (VStr fo).
  Notation VBool := (VBool fo).
  Notation VNull := (VNull fo).
  Notation VList := (VList fo).
  Notation VTuple := (VTuple fo).
  Notation evals := (evals fo).
  Notation calls := (calls fo).
  Notation fits_chk := (fits_chk fo).

  (* ================= std/tuples.ucg: fields, values, iter ================= *)
  Definition step_fields (a : value) (k : bytes) (v : value) : value :=
    match a with Sem.VList _ x => VList (x ++ [VStr k]) | _ => a end.
  Definition step_values (a : value) (k : bytes) (v : value) : value :=
    match a with Sem.VList _ x => VList (x ++ [v]) | _ => a end.
  Definition step_iter (a : value) (k : bytes) (v : value) : value :=
    match a with Sem.VList _ x => VList (x ++ [VList [VStr k; v]]) | _ => a end.
  Definition is_vlist (a : value) : Prop := exists x, a = VList x.

  Lemma fold_step_list (g : bytes * value -> value) (step : value -> bytes -> value -> value) :
    (forall x k v, step (VList x) k v = VList (x ++ [g (k, v)])) ->
    forall fs x, fold_left (fun a kv => step a (fst kv) (snd kv)) fs (VList x) = VList (x ++ map g fs).
  Proof.
    intros Hs. induction fs as [|[k v] fs IH]; intros x; cbn [fold_left map fst snd].
    - rewrite app_nil_r. reflexivity.
    - rewrite Hs, IH, <- app_assoc. reflexivity.
  Qed.

  Ltac tuple_module_reduce stp :=
    let s := eval vm_compute in (tuples_scope fo) in change (tuples_scope fo) with s;
    eapply ev_copy; [ev1|];
    eapply copies_module;
    [ eapply evf_cons; [ev1|reflexivity|ev1]
    | reflexivity
    | reflexivity
    | eapply execs_let; [ | reflexivity | reflexivity | apply execs_nil ];
      eapply (reduce_tuple_is_fold fo) with (I := is_vlist) (step := stp);
      [ ev1
      | evs
      | ev1; eapply ev_dot_sym; [ev1|reflexivity]
      | exists []; reflexivity
      | intros a k v [x ->] _; split; [|eexists; reflexivity];
        eapply calls_intro; [reflexivity|reflexivity|];
        eapply ev_add; [ev1|evs|reflexivity] ]
    | ev1 ].

  Theorem std_fields : forall E st ord fs,
      exists f, eval fo f (ctx_gen fo E st ord ((b "arg", VTuple fs) :: tuples_scope fo)) (inst1 "fields" "tpl")
                = Ok (VList (map (fun kv => VStr (fst kv)) fs)).
  Proof.
    intros E st ord fs.
    rewrite <- (app_nil_l (map _ fs)).
    rewrite <- (fold_step_list (fun kv => VStr (fst kv)) step_fields (fun x k v => eq_refl) fs []).
    tuple_module_reduce step_fields.
  Qed.

  Theorem std_values : forall E st ord fs,
      exists f, eval fo f (ctx_gen fo E st ord ((b "arg", VTuple fs) :: tuples_scope fo)) (inst1 "values" "tpl")
                = Ok (VList (map snd fs)).
  Proof.
    intros E st ord fs.
    rewrite <- (app_nil_l (map _ fs)).
    rewrite <- (fold_step_list snd step_values (fun x k v => eq_refl) fs []).
    tuple_module_reduce step_values.
  Qed.

  Theorem std_iter : forall E st ord fs,
      exists f, eval fo f (ctx_gen fo E st ord ((b "arg", VTuple fs) :: tuples_scope fo)) (inst1 "iter" "tpl")
                = Ok (VList (map (fun kv => VList [VStr (fst kv); snd kv]) fs)).
  Proof.
    intros E st ord fs.
    rewrite <- (app_nil_l (map _ fs)).
    rewrite <- (fold_step_list (fun kv => VList [VStr (fst kv); snd kv]) step_iter (fun x k v => eq_refl) fs []).
    tuple_module_reduce step_iter.
  Qed.

  (* ================= strip_nulls ================= *)
  Lemma veq_null o v : is_closure fo v = false -> veq fo o 1 v VNull = Ok (is_null fo v).
  Proof. destruct v; cbn; intros H; try discriminate; reflexivity. Qed.
  Lemma compatible_null v : compatible fo v VNull = true.
  Proof. destruct v; reflexivity. Qed.

  (* std_strip_nulls_closures_partial -- NOT provable in this semantics, stated for the record:
       forall E st ord fs,   (no hypothesis on fs)
         exists f, eval fo f (ctx_gen fo E st ord ((b "arg", VTuple fs) :: tuples_scope fo)) (inst1 "strip_nulls" "tpl")
                   = Ok (VTuple (filter (fun kv => negb (is_null fo (snd kv))) fs)).
     Sem.veq answers Unsup when a function or module is compared (here: `value != NULL`), so a
     tuple with a closure-valued field is outside the modelled fragment (Std_Examples.ex_strip_nulls_closure).
     The real binary keeps such fields.  This is a limit of Sem.v, not a finding about the library. *)
  Theorem std_strip_nulls : forall E st ord fs,
      Forall (fun kv => is_closure fo (snd kv) = false) fs ->
      exists f, eval fo f (ctx_gen fo E st ord ((b "arg", VTuple fs) :: tuples_scope fo)) (inst1 "strip_nulls" "tpl")
                = Ok (VTuple (filter (fun kv => negb (is_null fo (snd kv))) fs)).
  Proof.
    intros E st ord fs Hcl. rewrite Forall_forall in Hcl.
    let s := eval vm_compute in (tuples_scope fo) in change (tuples_scope fo) with s.
    eapply ev_copy; [ev1|].
    eapply copies_module.
    - eapply evf_cons; [ev1|reflexivity|ev1].
    - reflexivity.
    - reflexivity.
    - eapply execs_let; [ | reflexivity | reflexivity | apply execs_nil ].
      eapply (ev_filter_tuple fo) with (keepf := fun k v => negb (is_null fo v)).
      + ev1.
      + ev1. eapply ev_dot_sym; [ev1|reflexivity].
      + intros k v Hin. exists (VBool (negb (is_null fo v))). split.
        * eapply calls_intro; [reflexivity|reflexivity|].
          eapply ev_neq; [ev1|ev1|apply compatible_null|].
          exists 1. apply veq_null. exact (Hcl _ Hin).
        * destruct (is_null fo v); reflexivity.
    - ev1.
  Qed.

End Std.
