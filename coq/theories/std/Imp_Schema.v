(* std/schema.ucg through `import`: base_type_of, shaped, any, all = the reference functions
   [ref_shaped], [ref_any], [ref_all] of StdSpec_Imp.v, for all values (closures included: they are
   never compared) whose nesting depth is below the fuel of the reference. *)
From Ucg Require Import base.Bytes_Lemmas sem.Sem std.Std_Fuel std.Sem_Import std.Sem_Import_Lemmas
     std.Std_Rules_Imp std.Std_Rules_Imp2 std.StdSpec std.StdSpec_Imp std.Imp_Base.

Section Schema.
  Variable fo : float_ops.
  Notation value := (value fo).
  Notation VInt := (VInt fo).
  Notation VStr := (VStr fo).
  Notation VBool := (VBool fo).
  Notation VNull := (VNull fo).
  Notation VList := (VList fo).
  Notation VTuple := (VTuple fo).
  Notation VFunc := (VFunc fo).
  Notation VModule := (VModule fo).
  Notation evals := (evals fo std_imports []).
  Notation calls := (calls fo std_imports []).
  Notation copies := (copies fo std_imports []).
  Notation evals_fields := (evals_fields fo std_imports []).
  Notation ref_shaped := (ref_shaped fo).

  (* nesting depth of a value *)
  Fixpoint vdepth (v : value) : nat :=
    match v with
    | Sem.VList _ l => S (list_max (map vdepth l))
    | Sem.VTuple _ fs => S (list_max (map (fun kv => vdepth (snd kv)) fs))
    | _ => 0
    end.
  Lemma list_max_in x l : In x l -> (x <= list_max l)%nat.
  Proof.
    induction l as [|a l IH]; cbn [In list_max fold_right]; [tauto|].
    intros [<-|H]; [apply Nat.le_max_l|]. specialize (IH H). etransitivity; [exact IH|apply Nat.le_max_r].
  Qed.
  Lemma vdepth_elem x l : In x l -> (vdepth x < vdepth (VList l))%nat.
  Proof. intros H. cbn. apply Nat.lt_succ_r, list_max_in, in_map, H. Qed.
  Lemma vdepth_field k v fs : In (k, v) fs -> (vdepth v < vdepth (VTuple fs))%nat.
  Proof. intros H. cbn. apply Nat.lt_succ_r, list_max_in. apply in_map_iff. exists (k, v). split; [reflexivity|exact H]. Qed.
  Lemma lookup_in k (fs : list (bytes * value)) v : lookup fo k fs = Some v -> exists k', In (k', v) fs.
  Proof.
    induction fs as [|[k' w] fs IH]; cbn; [discriminate|]. destruct (bytes_eqb k k').
    - intros H. inversion H; subst. exists k'. left. reflexivity.
    - intros H. destruct (IH H) as [k'' Hin]. exists k''. right. exact Hin.
  Qed.
  Lemma vdepth_lookup k v fs : lookup fo k fs = Some v -> (vdepth v < vdepth (VTuple fs))%nat.
  Proof. intros H. destruct (lookup_in _ _ _ H) as [k' Hin]. eapply vdepth_field, Hin. Qed.

  Lemma pkg_calls c clo path :
    In path [lists_path; tuples_path; strings_path; functional_path; schema_path] ->
    calls c (VFunc [] (EImport path) clo) [] (import_value fo path).
  Proof. intros Hin. eapply calls_intro; [reflexivity|reflexivity|]. apply ev_import_std, Hin. Qed.
  Lemma index_tuple_lookup c fs k v : lookup fo k fs = Some v -> index fo c (VTuple fs) (VStr k) = Ok v.
  Proof. intros H. unfold index. rewrite H. reflexivity. Qed.

  Lemma forallb_ext_in {A} (g h : A -> bool) l : (forall x, In x l -> g x = h x) -> forallb g l = forallb h l.
  Proof.
    induction l as [|a l IH]; intros H; cbn; [reflexivity|]. rewrite H by (left; reflexivity).
    rewrite IH; [reflexivity|]. intros x Hx. apply H. right. exact Hx.
  Qed.
  Lemma existsb_ext' {A} (g h : A -> bool) l : (forall x, g x = h x) -> existsb g l = existsb h l.
  Proof. intros H. induction l as [|a l IH]; cbn; [reflexivity|]. rewrite H, IH. reflexivity. Qed.

  (* ---------------- the members ---------------- *)
  Definition schema_v : value := import_value fo schema_path.
  Definition bto_v : value := member fo schema_path "base_type_of".
  Lemma schema_index_bto c : index fo c (import_value fo schema_path) (VStr (b "base_type_of")) = Ok bto_v.
  Proof. destruct c. vm_compute. reflexivity. Qed.
  Lemma bto_calls c v : calls c bto_v [v] (VStr (is_name fo v)).
  Proof. destruct c as [s0 slf E st ord]. exists 14. destruct v; vm_compute; reflexivity. Qed.

  Definition shaped_v : value := member fo schema_path "shaped".
  Definition shaped_pkg_clo := pkg_clo fo shaped_v.
  Definition shaped_out : option expr := Eval vm_compute in mod_out fo shaped_v.
  Definition shaped_body : list stmt := Eval vm_compute in mod_body fo shaped_v.
  Definition SPK : value := VFunc [] (EImport schema_path) shaped_pkg_clo.
  Definition SM : value := VModule [(b "val", VNull); (b "shape", VNull); (b "partial", VBool true); (b "pkg", SPK)] shaped_out shaped_body.
  Lemma shaped_v_eq : shaped_v = SM.
  Proof. vm_compute. reflexivity. Qed.
  Lemma schema_index_shaped c : index fo c (import_value fo schema_path) (VStr (b "shaped")) = Ok shaped_v.
  Proof. destruct c. vm_compute. reflexivity. Qed.

  Definition any_v : value := member fo schema_path "any".
  Definition any_pkg_clo := pkg_clo fo any_v.
  Definition any_out : option expr := Eval vm_compute in mod_out fo any_v.
  Definition any_body : list stmt := Eval vm_compute in mod_body fo any_v.
  Definition APK : value := VFunc [] (EImport schema_path) any_pkg_clo.
  Definition AM : value := VModule [(b "val", VNull); (b "types", VList []); (b "partial", VBool false); (b "pkg", APK)] any_out any_body.
  Lemma any_v_eq : any_v = AM.
  Proof. vm_compute. reflexivity. Qed.
  Lemma schema_index_any c : index fo c (import_value fo schema_path) (VStr (b "any")) = Ok any_v.
  Proof. destruct c. vm_compute. reflexivity. Qed.

  Definition all_v : value := member fo schema_path "all".
  Definition all_pkg_clo := pkg_clo fo all_v.
  Definition all_out : option expr := Eval vm_compute in mod_out fo all_v.
  Definition all_body : list stmt := Eval vm_compute in mod_body fo all_v.
  Definition LPK : value := VFunc [] (EImport schema_path) all_pkg_clo.
  Definition LM : value := VModule [(b "val", VNull); (b "types", VList []); (b "pkg", LPK)] all_out all_body.
  Lemma all_v_eq : all_v = LM.
  Proof. vm_compute. reflexivity. Qed.
  Lemma schema_index_all c : index fo c (import_value fo schema_path) (VStr (b "all")) = Ok all_v.
  Proof. destruct c. vm_compute. reflexivity. Qed.

  (* ---------------- the specifications carried through the induction ---------------- *)
  Definition sflds (v sh : value) (p : bool) : list (bytes * value) :=
    [(b "val", v); (b "shape", sh); (b "partial", VBool p); (b "pkg", SPK)].
  Definition shaped_spec (n : nat) : Prop :=
    forall v sh p c fs ovs,
      (vdepth v < n)%nat ->
      evals_fields (with_self fo c (Some SM)) fs [] ovs ->
      merge_fields fo (mod_params fo SM) ovs = Ok (sflds v sh p) ->
      copies c SM fs (VBool (ref_shaped n p v sh)).
  Definition aflds (v : value) (ts : list value) (p : bool) : list (bytes * value) :=
    [(b "val", v); (b "types", VList ts); (b "partial", VBool p); (b "pkg", APK)].
  Definition any_spec (n : nat) : Prop :=
    forall v ts p c fs ovs,
      (vdepth v < n)%nat ->
      evals_fields (with_self fo c (Some AM)) fs [] ovs ->
      merge_fields fo (mod_params fo AM) ovs = Ok (aflds v ts p) ->
      copies c AM fs (VBool (ref_any fo n p v ts)).

  Lemma shaped_merge v sh p :
    merge_fields fo (mod_params fo SM) [(b "val", v); (b "shape", sh); (b "partial", VBool p)] = Ok (sflds v sh p).
  Proof. destruct v, sh; reflexivity. Qed.
  Lemma any_merge3 v ts p :
    merge_fields fo (mod_params fo AM) [(b "val", v); (b "types", VList ts); (b "partial", VBool p)] = Ok (aflds v ts p).
  Proof. destruct v; reflexivity. Qed.
  Lemma any_merge2 v ts :
    merge_fields fo (mod_params fo AM) [(b "val", v); (b "types", VList ts)] = Ok (aflds v ts false).
  Proof. destruct v; reflexivity. Qed.

  (* ---------------- any ---------------- *)
  Definition any_acc (o : bool) (v : value) : value := VTuple [(b "ok", VBool o); (b "val", v)].
  Definition any_red_body : expr := Eval vm_compute in
        match nth 1 any_body (SExpr ENull) with SLet _ (EFunc _ bd) => bd | _ => ENull end.
  Definition any_fn_body : expr := Eval vm_compute in
        match nth 2 any_body (SExpr ENull) with SLet _ (EFunc _ bd) => bd | _ => ENull end.
  Definition A1 (v : value) (ts : list value) (p : bool) : scope fo :=
    [(b "schema", schema_v); (b "mod", VTuple (aflds v ts p ++ [(b "this", AM)]))].

  Lemma any_red_step n v ts p c (o : bool) t :
    shaped_spec n -> (vdepth v < n)%nat ->
    calls c (VFunc [b "acc"; b "t"] any_red_body (A1 v ts p)) [any_acc o v; t] (any_acc (o || ref_shaped n p v t) v).
  Proof.
    intros Hsh Hd. eapply calls_intro; [reflexivity|reflexivity|]. unfold any_red_body.
    destruct o.
    - eapply ev_copy; [iv1|]. eapply copies_tuple.
      { eapply evf_cons; [|reflexivity|iv1]. apply ev_or_true. dotsym. }
      reflexivity.
    - eapply ev_copy; [iv1|]. eapply copies_tuple.
      { eapply evf_cons; [|reflexivity|iv1].
        eapply ev_or_false; [dotsym|]. iv1.
        eapply ev_dot_copy; [iv1|apply schema_index_shaped|]. rewrite shaped_v_eq.
        eapply (Hsh v t p) with (ovs := [(b "val", v); (b "shape", t); (b "partial", VBool p)]); [exact Hd| |apply shaped_merge].
        eapply evf_cons; [dotsym|reflexivity|]. eapply evf_cons; [iv1|reflexivity|].
        eapply evf_cons; [dotsym|reflexivity|iv1]. }
      reflexivity.
  Qed.

  Definition any_step_fn (n : nat) (p : bool) (a t : value) : value :=
    match a with
    | Sem.VTuple _ [(_, Sem.VBool _ o); (_, v)] => any_acc (o || ref_shaped n p v t) v
    | _ => a
    end.
  Lemma any_fold n p v ts o :
    fold_left (any_step_fn n p) ts (any_acc o v) = any_acc (o || existsb (fun t => ref_shaped n p v t) ts) v.
  Proof.
    revert o. induction ts as [|t ts IH]; intros o; cbn [fold_left existsb any_step_fn any_acc].
    - rewrite orb_false_r. reflexivity.
    - fold (any_acc (o || ref_shaped n p v t) v). rewrite IH, orb_assoc. reflexivity.
  Qed.

  Lemma any_step n : shaped_spec n -> any_spec n.
  Proof.
    intros Hsh v ts p c fs ovs Hd Hfs Hmerge. destruct c as [s0 slf E st ord]. unfold AM in *.
    unfold ref_any.
    replace (existsb (fun t => ref_shaped n p v t) ts) with (false || existsb (fun t => ref_shaped n p v t) ts) by reflexivity.
    eapply copies_module'; [exact Hfs|exact Hmerge|reflexivity| |].
    - unfold any_body.
      eapply execs_let'; [|reflexivity|reflexivity|].
      { eapply ev_dot_call; [iv1|iv1|reflexivity|]. apply pkg_calls, in_schema. }
      eapply execs_let'; [iv1|reflexivity|reflexivity|].
      eapply execs_let'; [iv1|reflexivity|reflexivity|].
      eapply execs_let'; [|reflexivity|reflexivity|apply execs_nil'].
      eapply ev_dot_sym.
      + eapply ev_call; [|iv1|].
        * eapply evl_cons; [dotsym|]. eapply evl_cons; [dotsym|iv1].
        * eapply calls_intro'; [reflexivity|reflexivity|].
          eapply evals_eq.
          -- eapply (reduce_list_is_fold_ev fo std_imports [])
               with (I := fun a => exists o, a = any_acc o v) (step := any_step_fn n p).
             ++ iv1.
             ++ iv1. fld1. fld1. iv1.
             ++ iv1.
             ++ exists false. reflexivity.
             ++ intros a t [o ->] _. cbn [any_step_fn any_acc]. split; [|eexists; reflexivity].
                apply (any_red_step n v ts p _ o t Hsh Hd).
          -- apply (any_fold n p v ts false).
      + reflexivity.
    - unfold any_out. iv1.
  Qed.

  (* ---------------- shaped: the closures of the module body ---------------- *)
  Definition sstmt (k : nat) : expr := match nth k shaped_body (SExpr ENull) with SLet _ e => e | _ => ENull end.
  Definition fbody (e : expr) : expr := match e with EFunc _ bd => bd | _ => ENull end.
  Definition sh_body := Eval vm_compute in fbody (sstmt 2).
  Definition th_body := Eval vm_compute in fbody (sstmt 3).
  Definition sth_body := Eval vm_compute in fbody (sstmt 4).
  Definition msf_body := Eval vm_compute in fbody (sstmt 5).
  Definition mtf_body := Eval vm_compute in fbody (sstmt 6).
  Definition lh_body := Eval vm_compute in fbody (sstmt 7).
  Definition result_e := Eval vm_compute in sstmt 8.

  Section Closures.
    Variables (v0 sh0 : value) (p : bool).
    Definition F0 : list (bytes * value) := sflds v0 sh0 p ++ [(b "this", SM)].
    Definition U1 : scope fo := [(b "schema", schema_v); (b "mod", VTuple F0)].
    Definition U2 : scope fo := (b "this", SM) :: U1.
    Definition Vsimple : value := VFunc [b "val"; b "shape"] sh_body U2.
    Definition U3 : scope fo := (b "simple_handler", Vsimple) :: U2.
    Definition Vth : value := VFunc [b "acc"; b "name"; b "value"] th_body U3.
    Definition U4 : scope fo := (b "tuple_handler", Vth) :: U3.
    Definition Vsth : value := VFunc [b "acc"; b "field_name"; b "value"] sth_body U4.
    Definition U5 : scope fo := (b "shape_tuple_handler", Vsth) :: U4.
    Definition Vmsf : value := VFunc [b "val"; b "shape"] msf_body U5.
    Definition U6 : scope fo := (b "match_shape_fields", Vmsf) :: U5.
    Definition Vmtf : value := VFunc [b "val"; b "shape"] mtf_body U6.
    Definition U7 : scope fo := (b "match_tuple_fields", Vmtf) :: U6.
    Definition Vlh : value := VFunc [b "acc"; b "value"] lh_body U7.
    Definition U8 : scope fo := (b "list_handler", Vlh) :: U7.

    Variable n : nat.
    Hypothesis Hsh : shaped_spec n.
    Hypothesis Han : any_spec n.

    Lemma simple_calls c x y : calls c Vsimple [x; y] (VBool (bytes_eqb (is_name fo x) (is_name fo y))).
    Proof.
      eapply calls_intro; [reflexivity|reflexivity|]. unfold sh_body.
      eapply ev_is; [iv1|].
      eapply ev_dot_call; [ivs|iv1|apply schema_index_bto|apply bto_calls].
    Qed.

    Definition acc2 (name : bytes) (A : value) (o : bool) : value := VTuple [(name, A); (b "ok", VBool o)].

    (* shape_tuple_handler: one field (k, sv) of the shape against the value's fields *)
    Definition chk_s (vfs : list (bytes * value)) (k : bytes) (sv : value) : bool :=
      match lookup fo k vfs with Some vv => ref_shaped n p vv sv | None => false end.
    Lemma sth_step c vfs (o : bool) k sv :
      (vdepth (VTuple vfs) <= n)%nat ->
      calls c Vsth [acc2 (b "val") (VTuple vfs) o; VStr k; sv] (acc2 (b "val") (VTuple vfs) (o && chk_s vfs k sv)).
    Proof.
      intros Hd. eapply calls_intro; [reflexivity|reflexivity|]. unfold sth_body, chk_s.
      destruct o.
      2:{ eapply ev_copy; [iv1|]. eapply copies_tuple.
          { eapply evf_cons; [|reflexivity|iv1]. apply ev_and_false. dotsym. }
          reflexivity. }
      cbn [andb].
      destruct (lookup fo k vfs) as [vv|] eqn:Hl.
      - eapply ev_copy; [iv1|]. eapply copies_tuple.
        { eapply evf_cons; [|reflexivity|iv1].
          eapply ev_and_true; [dotsym|].
          eapply ev_select.
          - eapply ev_in_tuple_group; [dotsym|iv1].
          - rewrite Hl. reflexivity.
          - eapply ev_copy; [iv1|].
            eapply (Hsh vv sv p) with (ovs := [(b "val", vv); (b "shape", sv); (b "partial", VBool p)]);
              [pose proof (vdepth_lookup _ _ _ Hl); lia| |apply shaped_merge].
            eapply evf_cons; [|reflexivity|].
            { eapply ev_dot_group; [dotsym|iv1|apply index_tuple_lookup, Hl]. }
            eapply evf_cons; [iv1|reflexivity|]. eapply evf_cons; [dotsym|reflexivity|iv1]. }
        reflexivity.
      - eapply ev_copy; [iv1|]. eapply copies_tuple.
        { eapply evf_cons; [|reflexivity|iv1].
          eapply ev_and_true; [dotsym|].
          eapply ev_select.
          - eapply ev_in_tuple_group; [dotsym|iv1].
          - rewrite Hl. reflexivity.
          - iv1. }
        reflexivity.
    Qed.

    (* tuple_handler: one field (k, vv) of the value against the shape's fields *)
    Definition chk_t (sfs : list (bytes * value)) (k : bytes) (vv : value) : bool :=
      match lookup fo k sfs with Some sv => ref_shaped n p vv sv | None => p end.
    Lemma th_step c sfs (o : bool) k vv :
      (vdepth vv < n)%nat ->
      calls c Vth [acc2 (b "shape") (VTuple sfs) o; VStr k; vv] (acc2 (b "shape") (VTuple sfs) (o && chk_t sfs k vv)).
    Proof.
      intros Hd. eapply calls_intro; [reflexivity|reflexivity|]. unfold th_body, chk_t.
      destruct o.
      2:{ eapply ev_copy; [iv1|]. eapply copies_tuple.
          { eapply evf_cons; [|reflexivity|iv1]. apply ev_and_false. dotsym. }
          reflexivity. }
      cbn [andb].
      destruct (lookup fo k sfs) as [sv|] eqn:Hl.
      - eapply ev_copy; [iv1|]. eapply copies_tuple.
        { eapply evf_cons; [|reflexivity|iv1].
          eapply ev_and_true; [dotsym|].
          eapply ev_select.
          - eapply ev_in_tuple_group; [dotsym|iv1].
          - rewrite Hl. reflexivity.
          - eapply ev_copy; [iv1|].
            eapply (Hsh vv sv p) with (ovs := [(b "val", vv); (b "shape", sv); (b "partial", VBool p)]);
              [exact Hd| |apply shaped_merge].
            eapply evf_cons; [iv1|reflexivity|].
            eapply evf_cons; [|reflexivity|].
            { eapply ev_dot_group; [dotsym|iv1|apply index_tuple_lookup, Hl]. }
            eapply evf_cons; [dotsym|reflexivity|iv1]. }
        reflexivity.
      - eapply ev_copy; [iv1|]. eapply copies_tuple.
        { eapply evf_cons; [|reflexivity|iv1].
          eapply ev_and_true; [dotsym|].
          eapply ev_select.
          - eapply ev_in_tuple_group; [dotsym|iv1].
          - rewrite Hl. reflexivity.
          - dotsym. }
        reflexivity.
    Qed.

    Definition step2 (name : bytes) (chk : bytes -> value -> bool) (a : value) (k : bytes) (x : value) : value :=
      match a with
      | Sem.VTuple _ [(_, A); (_, Sem.VBool _ o)] => acc2 name A (o && chk k x)
      | _ => a
      end.
    Lemma fold_step2 name chk A fs o :
      fold_left (fun a kv => step2 name chk a (fst kv) (snd kv)) fs (acc2 name A o)
      = acc2 name A (o && forallb (fun kv => chk (fst kv) (snd kv)) fs).
    Proof.
      revert o. induction fs as [|[k x] fs IH]; intros o; cbn [fold_left forallb fst snd step2 acc2].
      - rewrite andb_true_r. reflexivity.
      - fold (acc2 name A (o && chk k x)). rewrite IH, andb_assoc. reflexivity.
    Qed.

    Lemma msf_calls c vfs sfs :
      (vdepth (VTuple vfs) <= n)%nat ->
      calls c Vmsf [VTuple vfs; VTuple sfs] (VBool (forallb (fun ks => chk_s vfs (fst ks) (snd ks)) sfs)).
    Proof.
      intros Hd. eapply calls_intro; [reflexivity|reflexivity|]. unfold msf_body.
      eapply ev_dot_sym.
      - eapply evals_eq.
        + eapply (reduce_tuple_is_fold fo std_imports [])
            with (I := fun a => exists o, a = acc2 (b "val") (VTuple vfs) o) (step := step2 (b "val") (chk_s vfs)).
          * iv1.
          * iv1. fld1. fld1. iv1.
          * iv1.
          * exists true. reflexivity.
          * intros a k sv [o ->] _. cbn [step2 acc2]. split; [|eexists; reflexivity].
            apply (sth_step _ vfs o k sv Hd).
        + apply (fold_step2 (b "val") (chk_s vfs) (VTuple vfs) sfs true).
      - reflexivity.
    Qed.

    Lemma mtf_calls c vfs sfs :
      (vdepth (VTuple vfs) <= n)%nat ->
      calls c Vmtf [VTuple vfs; VTuple sfs] (VBool (forallb (fun kv => chk_t sfs (fst kv) (snd kv)) vfs)).
    Proof.
      intros Hd. eapply calls_intro; [reflexivity|reflexivity|]. unfold mtf_body.
      eapply ev_dot_sym.
      - eapply evals_eq.
        + eapply (reduce_tuple_is_fold fo std_imports [])
            with (I := fun a => exists o, a = acc2 (b "shape") (VTuple sfs) o) (step := step2 (b "shape") (chk_t sfs)).
          * iv1.
          * iv1. fld1. fld1. iv1.
          * iv1.
          * exists true. reflexivity.
          * intros a k vv [o ->] Hin. cbn [step2 acc2]. split; [|eexists; reflexivity].
            apply (th_step _ sfs o k vv). pose proof (vdepth_field _ _ _ Hin). lia.
        + apply (fold_step2 (b "shape") (chk_t sfs) (VTuple sfs) vfs true).
      - reflexivity.
    Qed.

    (* list_handler: one element against the shape list, through schema.any (partial = false there) *)
    Lemma lh_step c ts (o : bool) x :
      (vdepth x < n)%nat ->
      calls c Vlh [acc2 (b "shape") (VList ts) o; x] (acc2 (b "shape") (VList ts) (o && ref_any fo n false x ts)).
    Proof.
      intros Hd. eapply calls_intro; [reflexivity|reflexivity|]. unfold lh_body.
      destruct o.
      2:{ eapply ev_copy; [iv1|]. eapply copies_tuple.
          { eapply evf_cons; [|reflexivity|iv1]. apply ev_and_false. dotsym. }
          reflexivity. }
      cbn [andb].
      eapply ev_copy; [iv1|]. eapply copies_tuple.
      { eapply evf_cons; [|reflexivity|iv1].
        eapply ev_and_true; [dotsym|].
        eapply ev_dot_copy; [iv1|apply schema_index_any|]. rewrite any_v_eq.
        eapply (Han x ts false) with (ovs := [(b "val", x); (b "types", VList ts)]); [exact Hd| |apply any_merge2].
        eapply evf_cons; [iv1|reflexivity|]. eapply evf_cons; [dotsym|reflexivity|iv1]. }
      reflexivity.
    Qed.
    Definition step2l (chk : value -> bool) (a x : value) : value :=
      match a with
      | Sem.VTuple _ [(_, A); (_, Sem.VBool _ o)] => acc2 (b "shape") A (o && chk x)
      | _ => a
      end.
    Lemma fold_step2l chk A l o :
      fold_left (step2l chk) l (acc2 (b "shape") A o) = acc2 (b "shape") A (o && forallb chk l).
    Proof.
      revert o. induction l as [|x l IH]; intros o; cbn [fold_left forallb step2l acc2].
      - rewrite andb_true_r. reflexivity.
      - fold (acc2 (b "shape") A (o && chk x)). rewrite IH, andb_assoc. reflexivity.
    Qed.

  End Closures.

  (* the `result` statement, in the scope of the module body *)
  Section Result.
    Variable n : nat.
    Hypothesis Hsh : shaped_spec n.
    Hypothesis Han : any_spec n.
    Notation mk := (Build_ctx fo).

    Lemma result_simple v0 sh0 p slf E st ord :
      (forall vfs, v0 <> VTuple vfs) -> (forall l, v0 <> VList l) ->
      evals (mk (U8 v0 sh0 p) slf E st ord) result_e (VBool (bytes_eqb (is_name fo v0) (is_name fo sh0))).
    Proof.
      intros Hnt Hnl. unfold result_e.
      destruct v0; try (exfalso; eapply Hnt; reflexivity); try (exfalso; eapply Hnl; reflexivity).
      all: (eapply ev_select;
            [ eapply ev_dot_call; [ivs; reflexivity|iv1|apply schema_index_bto|apply bto_calls]
            | reflexivity
            | eapply ev_call; [ivs; reflexivity|iv1|apply simple_calls] ]).
    Qed.

    Lemma result_tuple vfs sh0 p slf E st ord :
      (vdepth (VTuple vfs) <= n)%nat ->
      evals (mk (U8 (VTuple vfs) sh0 p) slf E st ord) result_e (VBool (ref_shaped (S n) p (VTuple vfs) sh0)).
    Proof.
      intros Hd. unfold result_e.
      assert (Hargs : forall slf', Std_Rules_Imp.evals_list fo std_imports [] (mk (U8 (VTuple vfs) sh0 p) slf' E st ord)
                 [EBin DOT (ESym (b "mod")) (ESym (b "val")); EBin DOT (ESym (b "mod")) (ESym (b "shape"))] [VTuple vfs; sh0]).
      { intros. eapply evl_cons; [dotsym|]. eapply evl_cons; [dotsym|iv1]. }
      assert (His : evals (mk (U8 (VTuple vfs) sh0 p) slf E st ord)
                          (EGroup (EBin IS (EBin DOT (ESym (b "mod")) (ESym (b "shape"))) (EStr (b "tuple"))))
                          (VBool (bytes_eqb (is_name fo sh0) (b "tuple")))).
      { iv1. eapply ev_is; [dotsym|iv1]. }
      eapply ev_select.
      - eapply ev_dot_call; [ivs; reflexivity|iv1|apply schema_index_bto|apply bto_calls].
      - reflexivity.
      - destruct sh0 as [| | | | | | sfs | | ];
          try (cbn [ref_shaped]; apply ev_and_false; apply ev_and_false; exact His).
        cbn [ref_shaped].
        destruct (forallb (fun ks => match lookup fo (fst ks) vfs with Some vv => ref_shaped n p vv (snd ks) | None => false end) sfs) eqn:HA.
        + cbn [andb]. eapply ev_and_true.
          * eapply evals_eq.
            -- eapply ev_and_true; [exact His|]. eapply ev_call; [apply Hargs|iv1|eapply msf_calls; eassumption].
            -- unfold chk_s. rewrite HA. reflexivity.
          * eapply ev_call; [apply Hargs|iv1|eapply mtf_calls; eassumption].
        + cbn [andb]. apply ev_and_false. eapply evals_eq.
          * eapply ev_and_true; [exact His|]. eapply ev_call; [apply Hargs|iv1|eapply msf_calls; eassumption].
          * unfold chk_s. rewrite HA. reflexivity.
    Qed.

    Lemma result_list l sh0 p slf E st ord :
      (vdepth (VList l) <= n)%nat ->
      evals (mk (U8 (VList l) sh0 p) slf E st ord) result_e (VBool (ref_shaped (S n) p (VList l) sh0)).
    Proof.
      intros Hd. unfold result_e.
      assert (His : evals (mk (U8 (VList l) sh0 p) slf E st ord)
                          (EGroup (EBin IS (EBin DOT (ESym (b "mod")) (ESym (b "shape"))) (EStr (b "list"))))
                          (VBool (bytes_eqb (is_name fo sh0) (b "list")))).
      { iv1. eapply ev_is; [dotsym|iv1]. }
      eapply ev_select.
      - eapply ev_dot_call; [ivs; reflexivity|iv1|apply schema_index_bto|apply bto_calls].
      - reflexivity.
      - destruct sh0 as [| | | | | ts | | | ];
          try (cbn [ref_shaped]; apply ev_and_false; exact His).
        destruct ts as [|t ts].
        + cbn [ref_shaped]. eapply ev_and_true; [exact His|].
          eapply ev_select.
          * eapply ev_eq; [dotsym|ivs|reflexivity|exists 1; reflexivity].
          * reflexivity.
          * iv1.
        + cbn [ref_shaped]. eapply ev_and_true; [exact His|].
          eapply ev_select.
          * eapply ev_eq; [dotsym|ivs|reflexivity|exists 1; reflexivity].
          * reflexivity.
          * eapply ev_dot_sym.
            -- eapply evals_eq.
               ++ eapply (reduce_list_is_fold_ev fo std_imports [])
                    with (I := fun a => exists o, a = acc2 (b "shape") (VList (t :: ts)) o)
                         (step := step2l (fun x => ref_any fo n false x (t :: ts))).
                  ** iv1.
                  ** iv1. fldd. fld1. iv1.
                  ** dotsym.
                  ** exists true. reflexivity.
                  ** intros a x [o ->] Hin. cbn [step2l acc2]. split; [|eexists; reflexivity].
                     eapply lh_step; [eassumption|]. pose proof (vdepth_elem _ _ Hin). lia.
               ++ apply (fold_step2l (fun x => ref_any fo n false x (t :: ts)) (VList (t :: ts)) l true).
            -- reflexivity.
    Qed.

    Lemma result_stmt v0 sh0 p slf E st ord :
      (vdepth v0 <= n)%nat ->
      evals (mk (U8 v0 sh0 p) slf E st ord) result_e (VBool (ref_shaped (S n) p v0 sh0)).
    Proof.
      intros Hd. destruct v0 as [| | | | | l | vfs | | ].
      6: apply result_list, Hd.
      6: apply result_tuple, Hd.
      all: eapply evals_eq; [apply result_simple; intros; discriminate|reflexivity].
    Qed.
  End Result.

  Ltac nxt T :=
    lazymatch goal with
    | |- Std_Rules_Imp.execs _ _ _ (Build_ctx _ ?sc0 ?slf ?E ?st ?ord) ?ss ?r =>
      change (Std_Rules_Imp.execs fo std_imports [] (Build_ctx fo T slf E st ord) ss r)
    end.

  Lemma shaped_step n : shaped_spec n -> any_spec n -> shaped_spec (S n).
  Proof.
    intros Hsh Han v sh p c fs ovs Hd Hfs Hmerge. destruct c as [s0 slf E st ord]. unfold SM in *.
    eapply copies_module'; [exact Hfs|exact Hmerge|reflexivity| |].
    - unfold shaped_body.
      eapply execs_let'; [|reflexivity|reflexivity|].
      { eapply ev_dot_call; [iv1|iv1|reflexivity|]. apply pkg_calls, in_schema. }
      nxt (U1 v sh p).
      eapply execs_let'; [dotsym|reflexivity|reflexivity|]. nxt (U2 v sh p).
      eapply execs_let'; [iv1|reflexivity|reflexivity|]. nxt (U3 v sh p).
      eapply execs_let'; [iv1|reflexivity|reflexivity|]. nxt (U4 v sh p).
      eapply execs_let'; [iv1|reflexivity|reflexivity|]. nxt (U5 v sh p).
      eapply execs_let'; [iv1|reflexivity|reflexivity|]. nxt (U6 v sh p).
      eapply execs_let'; [iv1|reflexivity|reflexivity|]. nxt (U7 v sh p).
      eapply execs_let'; [iv1|reflexivity|reflexivity|]. nxt (U8 v sh p).
      eapply execs_let'; [|reflexivity|reflexivity|apply execs_nil'].
      apply (result_stmt n Hsh Han). lia.
    - unfold shaped_out. iv1.
  Qed.

  Theorem shaped_any_spec : forall n, shaped_spec n /\ any_spec n.
  Proof.
    induction n as [|n [IHs IHa]].
    - split; intros v; intros; lia.
    - assert (Hs : shaped_spec (S n)) by (apply shaped_step; assumption).
      split; [exact Hs|apply any_step, Hs].
  Qed.

  (* ---------------- all ---------------- *)
  Definition all_red_body : expr := Eval vm_compute in
        match nth 1 all_body (SExpr ENull) with SLet _ (EFunc _ bd) => bd | _ => ENull end.
  Definition lflds (v : value) (ts : list value) : list (bytes * value) :=
    [(b "val", v); (b "types", VList ts); (b "pkg", LPK)].
  Definition L1 (v : value) (ts : list value) : scope fo :=
    [(b "schema", schema_v); (b "mod", VTuple (lflds v ts ++ [(b "this", LM)]))].
  Lemma all_merge v ts :
    merge_fields fo (mod_params fo LM) [(b "val", v); (b "types", VList ts)] = Ok (lflds v ts).
  Proof. destruct v; reflexivity. Qed.

  Lemma all_red_step n v ts c (o : bool) t :
    shaped_spec n -> (vdepth v < n)%nat ->
    calls c (VFunc [b "acc"; b "t"] all_red_body (L1 v ts)) [any_acc o v; t] (any_acc (o && ref_shaped n true v t) v).
  Proof.
    intros Hsh Hd. eapply calls_intro; [reflexivity|reflexivity|]. unfold all_red_body.
    destruct o.
    - eapply ev_copy; [iv1|]. eapply copies_tuple.
      { eapply evf_cons; [|reflexivity|iv1].
        eapply ev_and_true; [dotsym|]. iv1.
        eapply ev_dot_copy; [iv1|apply schema_index_shaped|]. rewrite shaped_v_eq.
        eapply (Hsh v t true) with (ovs := [(b "val", v); (b "shape", t); (b "partial", VBool true)]); [exact Hd| |apply shaped_merge].
        eapply evf_cons; [dotsym|reflexivity|]. eapply evf_cons; [iv1|reflexivity|].
        eapply evf_cons; [iv1|reflexivity|iv1]. }
      reflexivity.
    - eapply ev_copy; [iv1|]. eapply copies_tuple.
      { eapply evf_cons; [|reflexivity|iv1]. apply ev_and_false. dotsym. }
      reflexivity.
  Qed.
  Definition all_step_fn (n : nat) (a t : value) : value :=
    match a with
    | Sem.VTuple _ [(_, Sem.VBool _ o); (_, v)] => any_acc (o && ref_shaped n true v t) v
    | _ => a
    end.
  Lemma all_fold n v ts o :
    fold_left (all_step_fn n) ts (any_acc o v) = any_acc (o && forallb (fun t => ref_shaped n true v t) ts) v.
  Proof.
    revert o. induction ts as [|t ts IH]; intros o; cbn [fold_left forallb all_step_fn any_acc].
    - rewrite andb_true_r. reflexivity.
    - fold (any_acc (o && ref_shaped n true v t) v). rewrite IH, andb_assoc. reflexivity.
  Qed.

  Lemma all_copies n v ts c fs ovs :
    shaped_spec n -> (vdepth v < n)%nat ->
    evals_fields (with_self fo c (Some LM)) fs [] ovs ->
    merge_fields fo (mod_params fo LM) ovs = Ok (lflds v ts) ->
    copies c LM fs (VBool (ref_all fo n v ts)).
  Proof.
    intros Hsh Hd Hfs Hmerge. destruct c as [s0 slf E st ord]. unfold LM in *. unfold ref_all.
    replace (forallb (fun t => ref_shaped n true v t) ts) with (true && forallb (fun t => ref_shaped n true v t) ts) by reflexivity.
    eapply copies_module'; [exact Hfs|exact Hmerge|reflexivity| |].
    - unfold all_body.
      eapply execs_let'; [|reflexivity|reflexivity|].
      { eapply ev_dot_call; [iv1|iv1|reflexivity|]. apply pkg_calls, in_schema. }
      eapply execs_let'; [iv1|reflexivity|reflexivity|].
      eapply execs_let'; [iv1|reflexivity|reflexivity|].
      eapply execs_let'; [|reflexivity|reflexivity|apply execs_nil'].
      eapply ev_dot_sym.
      + eapply ev_call; [|iv1|].
        * eapply evl_cons; [dotsym|]. eapply evl_cons; [dotsym|iv1].
        * eapply calls_intro'; [reflexivity|reflexivity|].
          eapply evals_eq.
          -- eapply (reduce_list_is_fold_ev fo std_imports [])
               with (I := fun a => exists o, a = any_acc o v) (step := all_step_fn n).
             ++ iv1.
             ++ iv1. fld1. fld1. iv1.
             ++ iv1.
             ++ exists true. reflexivity.
             ++ intros a t [o ->] _. cbn [all_step_fn any_acc]. split; [|eexists; reflexivity].
                apply (all_red_step n v ts _ o t Hsh Hd).
          -- apply (all_fold n v ts true).
      + reflexivity.
    - unfold all_out. iv1.
  Qed.

  (* ---------------- the statements on expressions ---------------- *)
  Definition shaped_call : expr := imp_inst schema_path "shaped" [("val", "arg1"); ("shape", "arg2"); ("partial", "arg3")]%string.
  Definition shaped_call_default : expr := imp_inst schema_path "shaped" [("val", "arg1"); ("shape", "arg2")]%string.
  Definition any_call : expr := imp_inst schema_path "any" [("val", "arg1"); ("types", "arg2"); ("partial", "arg3")]%string.
  Definition any_call_default : expr := imp_inst schema_path "any" [("val", "arg1"); ("types", "arg2")]%string.
  Definition all_call : expr := imp_inst schema_path "all" [("val", "arg1"); ("types", "arg2")]%string.

  (* shaped{val, shape, partial} = ref_shaped, for ALL values, with any fuel above the depth of val *)
  Theorem std_schema_shaped : forall E st ord v sh p n,
      (vdepth v < n)%nat ->
      exists f, eval_imp fo std_imports f [] (ctx_gen fo E st ord [(b "arg3", VBool p); (b "arg2", sh); (b "arg1", v)]) shaped_call
                = Ok (VBool (ref_shaped n p v sh)).
  Proof.
    intros E st ord v sh p n Hd. unfold shaped_call, imp_inst, ctx_gen. cbn [map fst snd].
    eapply ev_dot_copy; [apply ev_import_std, in_schema|apply schema_index_shaped|]. rewrite shaped_v_eq.
    eapply (proj1 (shaped_any_spec n) v sh p) with (ovs := [(b "val", v); (b "shape", sh); (b "partial", VBool p)]);
      [exact Hd| |apply shaped_merge].
    fld1. fld1. fld1. iv1.
  Qed.
  Lemma shaped_merge2 v sh :
    merge_fields fo (mod_params fo SM) [(b "val", v); (b "shape", sh)] = Ok (sflds v sh true).
  Proof. destruct v, sh; reflexivity. Qed.
  Theorem std_schema_shaped_default : forall E st ord v sh n,
      (vdepth v < n)%nat ->
      exists f, eval_imp fo std_imports f [] (ctx_gen fo E st ord [(b "arg2", sh); (b "arg1", v)]) shaped_call_default
                = Ok (VBool (ref_shaped n true v sh)).
  Proof.
    intros E st ord v sh n Hd. unfold shaped_call_default, imp_inst, ctx_gen. cbn [map fst snd].
    eapply ev_dot_copy; [apply ev_import_std, in_schema|apply schema_index_shaped|]. rewrite shaped_v_eq.
    eapply (proj1 (shaped_any_spec n) v sh true) with (ovs := [(b "val", v); (b "shape", sh)]);
      [exact Hd| |apply shaped_merge2].
    fld1. fld1. iv1.
  Qed.
  Theorem std_schema_any : forall E st ord v ts p n,
      (vdepth v < n)%nat ->
      exists f, eval_imp fo std_imports f [] (ctx_gen fo E st ord [(b "arg3", VBool p); (b "arg2", VList ts); (b "arg1", v)]) any_call
                = Ok (VBool (ref_any fo n p v ts)).
  Proof.
    intros E st ord v ts p n Hd. unfold any_call, imp_inst, ctx_gen. cbn [map fst snd].
    eapply ev_dot_copy; [apply ev_import_std, in_schema|apply schema_index_any|]. rewrite any_v_eq.
    eapply (proj2 (shaped_any_spec n) v ts p) with (ovs := [(b "val", v); (b "types", VList ts); (b "partial", VBool p)]);
      [exact Hd| |apply any_merge3].
    fld1. fld1. fld1. iv1.
  Qed.
  Theorem std_schema_any_default : forall E st ord v ts n,
      (vdepth v < n)%nat ->
      exists f, eval_imp fo std_imports f [] (ctx_gen fo E st ord [(b "arg2", VList ts); (b "arg1", v)]) any_call_default
                = Ok (VBool (ref_any fo n false v ts)).
  Proof.
    intros E st ord v ts n Hd. unfold any_call_default, imp_inst, ctx_gen. cbn [map fst snd].
    eapply ev_dot_copy; [apply ev_import_std, in_schema|apply schema_index_any|]. rewrite any_v_eq.
    eapply (proj2 (shaped_any_spec n) v ts false) with (ovs := [(b "val", v); (b "types", VList ts)]);
      [exact Hd| |apply any_merge2].
    fld1. fld1. iv1.
  Qed.
  Theorem std_schema_all : forall E st ord v ts n,
      (vdepth v < n)%nat ->
      exists f, eval_imp fo std_imports f [] (ctx_gen fo E st ord [(b "arg2", VList ts); (b "arg1", v)]) all_call
                = Ok (VBool (ref_all fo n v ts)).
  Proof.
    intros E st ord v ts n Hd. unfold all_call, imp_inst, ctx_gen. cbn [map fst snd].
    eapply ev_dot_copy; [apply ev_import_std, in_schema|apply schema_index_all|]. rewrite all_v_eq.
    eapply (all_copies n v ts) with (ovs := [(b "val", v); (b "types", VList ts)]);
      [apply shaped_any_spec|exact Hd| |apply all_merge].
    fld1. fld1. iv1.
  Qed.

  (* the fuel of the reference is immaterial above the depth of the value *)
  Lemma ref_shaped_fuel : forall n m p v sh, (vdepth v < n)%nat -> (vdepth v < m)%nat -> ref_shaped n p v sh = ref_shaped m p v sh.
  Proof.
    induction n as [|n IH]; intros m p v sh Hn Hm; [lia|]. destruct m as [|m]; [lia|].
    destruct v; try reflexivity.
    - (* list *) cbn [StdSpec_Imp.ref_shaped]. destruct sh; try reflexivity. destruct l0 as [|t ts]; [reflexivity|].
      apply forallb_ext_in. intros x Hin. apply existsb_ext'. intros t'.
      pose proof (vdepth_elem _ _ Hin). apply IH; lia.
    - (* tuple *) cbn [StdSpec_Imp.ref_shaped]. destruct sh; try reflexivity. f_equal.
      + apply forallb_ext_in. intros [k sv] _. cbn [fst snd]. destruct (lookup fo k fs) as [vv|] eqn:Hl; [|reflexivity].
        pose proof (vdepth_lookup _ _ _ Hl). apply IH; lia.
      + apply forallb_ext_in. intros [k vv] Hin. cbn [fst snd]. destruct (lookup fo k fs0); [|reflexivity].
        pose proof (vdepth_field _ _ _ Hin). apply IH; lia.
  Qed.
End Schema.
