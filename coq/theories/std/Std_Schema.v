(* std/schema.ucg: base_type_of *)
From Ucg Require Import base.Bytes_Lemmas sem.Sem std.Std_Fuel std.Std_Rules std.StdSpec std.Std_Base.
From UcgGen Require Import StdLib.

Section Std.
  Variable fo : float_ops.
  Notation value := (value fo).

  (* the reduce runs over the nine literal names of [base_types]; for each kind of value the
     whole evaluation is a closed computation (the payload of the value is never inspected) *)
  Theorem std_base_type_of : forall E st ord (v : value),
      exists f, eval fo f (ctx_gen fo E st ord ((b "arg", v) :: schema_scope fo)) (call1 "base_type_of")
                = Ok (VStr fo (is_name fo v)).
  Proof.
    intros E st ord v. exists 12. destruct v; vm_compute; reflexivity.
  Qed.
End Std.
